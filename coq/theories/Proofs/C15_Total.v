(** C15 — decoding arbitrary bytes is total: lemmas.

    [good d] is the invariant every decoder preserves: the reader never enters the
    [SPanic] state, every logged allocation request is within the documented limit of
    its kind, and the remaining input is still a byte string.  Termination of every
    decoder is by construction (all of them are Coq functions: structural recursion on
    the byte list or on a checked count). *)
From Coq Require Import ZArith List Bool Lia Floats.
From Geo Require Import Base.GoPrim Base.Bytes Gen.CellID Gen.Codec Model.Codec.
Import ListNotations.
Local Open Scope Z_scope.

Definition entry_ok (kn : alloc_kind * Z) : Prop := 0 <= snd kn <= alloc_limit (fst kn).
Definition log_ok (lg : list (alloc_kind * Z)) : Prop := Forall entry_ok lg.
Definition good (d : dec) : Prop := d_st d <> SPanic /\ log_ok (d_log d) /\ bytes_ok (d_rest d).
Definition preserves {A} (f : dec -> A * dec) : Prop := forall d, good d -> good (snd (f d)).

Lemma good_init bs : bytes_ok bs -> good (dec_init bs).
Proof. intros H. repeat split; cbn; [discriminate|constructor|exact H]. Qed.

(** the documented limits are far below what [make] itself can take: this is the side
    condition that ties the theorems to the constants translated from the source *)
Lemma limits_below_make k : alloc_limit k <= max_make.
Proof. destruct k; intro H; vm_compute in H; discriminate H. Qed.
Lemma limits_nonneg k : 0 <= alloc_limit k.
Proof. destruct k; intro H; vm_compute in H; discriminate H. Qed.

Lemma good_set_err d : good d -> good (set_err d).
Proof.
  intros (Hs & Hl & Hb). unfold set_err. destruct (d_st d) eqn:E; repeat split; cbn; auto; try discriminate; try congruence.
Qed.

Lemma failed_set_err d : failed (set_err d) = true.
Proof. unfold set_err, failed. destruct (d_st d) eqn:E; cbn; auto. now rewrite E. Qed.

Lemma good_read_le n d : good d ->
  good (snd (read_le n d)) /\ 0 <= fst (read_le n d) < 256 ^ Z.of_nat n.
Proof.
  intros (Hs & Hl & Hb). pose proof (read_le_range n d Hb) as [R B]. split; [|exact R].
  repeat split; auto.
  - intros H. apply read_le_st in H. contradiction.
  - now rewrite read_le_log.
Qed.

Lemma good_read_uvarint d : good d ->
  good (snd (read_uvarint d)) /\ 0 <= fst (read_uvarint d) < 2 ^ 64.
Proof.
  intros (Hs & Hl & Hb). pose proof (read_uvarint_value_range d Hb) as [R B]. split; [|exact R].
  repeat split; auto.
  - intros H. apply read_uvarint_st in H. contradiction.
  - now rewrite read_uvarint_log.
Qed.

Lemma good_go_make k n d : good d -> (failed d = false -> 0 <= n <= alloc_limit k) -> good (go_make k n d).
Proof.
  intros G Hn. unfold go_make. destruct (failed d) eqn:F; auto.
  specialize (Hn eq_refl). pose proof (limits_below_make k).
  replace ((n <? 0) || (max_make <? n)) with false.
  2:{ symmetry. apply orb_false_iff. split; [apply Z.ltb_ge|apply Z.ltb_ge]; lia. }
  destruct G as (Hs & Hl & Hb). repeat split; cbn; auto; try discriminate.
  constructor; auto.
Qed.

Lemma failed_go_make k n d : failed d = true -> go_make k n d = d.
Proof. unfold go_make. now intros ->. Qed.

Lemma good_go_index i n d : good d -> (failed d = false -> 0 <= i < n) -> good (go_index i n d).
Proof.
  intros G Hn. unfold go_index. destruct (failed d) eqn:F; auto.
  specialize (Hn eq_refl).
  replace ((i <? 0) || (n <=? i)) with false; auto.
  symmetry. apply orb_false_iff. split; [apply Z.ltb_ge|apply Z.leb_gt]; lia.
Qed.

(** one step of a [let '(x, d) := read ... d in] chain *)
Ltac rd :=
  unfold read_u8, read_u16, read_u32, read_u64 in *;
  match goal with
  | G : good ?d |- context [read_le ?n ?d] =>
      let x := fresh "x" in let d' := fresh "d" in let E := fresh "E" in
      let G' := fresh "G" in let R := fresh "R" in
      pose proof (good_read_le n d G) as [G' R];
      destruct (read_le n d) as [x d'] eqn:E; cbn [fst snd] in G', R
  | G : good ?d |- context [read_uvarint ?d] =>
      let x := fresh "x" in let d' := fresh "d" in let E := fresh "E" in
      let G' := fresh "G" in let R := fresh "R" in
      pose proof (good_read_uvarint d G) as [G' R];
      destruct (read_uvarint d) as [x d'] eqn:E; cbn [fst snd] in G', R
  end.

Lemma read_point_good : preserves read_point.
Proof.
  intros d G. unfold read_point. do 3 rd. exact G2.
Qed.

Lemma read_point_coord_good d : good d -> good (snd (read_point_coord d)).
Proof.
  intros G. unfold read_point_coord. rd.
  destruct (negb (failed d0) && nonfinite_bits x); cbn [snd]; auto. now apply good_set_err.
Qed.
Lemma read_vertex_good : preserves read_vertex.
Proof.
  intros d G. unfold read_vertex.
  pose proof (read_point_coord_good d G) as G1. destruct (read_point_coord d) as [x d1]. cbn [snd] in G1.
  pose proof (read_point_coord_good d1 G1) as G2. destruct (read_point_coord d1) as [y d2]. cbn [snd] in G2.
  pose proof (read_point_coord_good d2 G2) as G3. destruct (read_point_coord d2) as [z d3]. exact G3.
Qed.

Lemma read_i8_good d : good d -> good (snd (read_i8 d)).
Proof. intros G. unfold read_i8. rd. exact G0. Qed.
Lemma read_i64_good d : good d -> good (snd (read_i64 d)).
Proof. intros G. unfold read_i64. rd. exact G0. Qed.
Lemma read_bool_good d : good d -> good (snd (read_bool d)).
Proof. intros G. unfold read_bool, read_i8. rd. exact G0. Qed.

(** counted reads *)
Lemma read_many_good {A} (rd1 : dec -> A * dec) n : preserves rd1 -> preserves (read_many rd1 n).
Proof.
  intros P d G. unfold read_many. cbn [snd].
  apply (rep_inv many_stop (many_body rd1) (fun s => good (snd s))); auto.
  intros s Gs _. unfold many_body. specialize (P (snd s) Gs).
  destruct (rd1 (snd s)); exact P.
Qed.

(** * Simple types *)
Lemma decode_point_good : preserves decode_point_body.
Proof.
  intros d G. unfold decode_point_body.
  pose proof (read_i8_good d G) as G1. destruct (read_i8 d) as [v d1]. cbn [snd] in G1.
  destruct (failed d1); auto.
  destruct (negb (v =? s2_encodingVersion)); [apply good_set_err; auto|].
  now apply read_point_good.
Qed.

Lemma decode_cap_good : preserves decode_cap_body.
Proof.
  intros d G. unfold decode_cap_body.
  pose proof (read_point_good d G) as G1. destruct (read_point d) as [c d1]. cbn [snd] in G1.
  rd. exact G0.
Qed.

Lemma decode_rect_good : preserves decode_rect_body.
Proof.
  intros d G. unfold decode_rect_body. rd.
  destruct (negb (wrap_i8 x =? s2_encodingVersion) && negb (failed d0)); [apply good_set_err; auto|].
  do 4 rd. destruct (negb (failed d4) && negb (rect_valid (mkrect x0 x1 x2 x3))); cbn [snd]; auto. now apply good_set_err.
Qed.

Lemma decode_cellid_good : preserves decode_cellid_body.
Proof. intros d G. unfold decode_cellid_body. rd. exact G0. Qed.

Lemma decode_cell_good : preserves decode_cell_body.
Proof.
  intros d G. unfold decode_cell_body. rd.
  destruct (failed d0); cbn [snd]; auto.
  destruct (negb (s2_CellID_IsValid x)); cbn [snd]; auto. now apply good_set_err.
Qed.

Lemma decode_cellunion_good : preserves decode_cellunion_body.
Proof.
  intros d G. unfold decode_cellunion_body.
  pose proof (read_i8_good d G) as G1. destruct (read_i8 d) as [v d1]. cbn [snd] in G1.
  destruct (failed d1); auto.
  destruct (negb (v =? s2_encodingVersion)); [apply good_set_err; auto|].
  pose proof (read_i64_good d1 G1) as G2. destruct (read_i64 d1) as [n d2]. cbn [snd] in G2.
  destruct (failed d2) eqn:F2; auto.
  destruct ((n <? 0) || (s2_CellUnion_decode_maxCells <? n)) eqn:C; [apply good_set_err; auto|].
  apply orb_false_iff in C. destruct C as [C1 C2]. apply Z.ltb_ge in C1, C2.
  apply read_many_good; [exact decode_cell_good|].
  apply good_go_make; auto.
Qed.

Lemma decode_polyline_good : preserves decode_polyline_body.
Proof.
  intros d G. unfold decode_polyline_body.
  pose proof (read_i8_good d G) as G1. destruct (read_i8 d) as [v d1]. cbn [snd] in G1.
  destruct (failed d1); auto.
  destruct (negb (v =? s2_encodingVersion)); [apply good_set_err; auto|].
  rd. destruct (failed d0) eqn:F2; auto.
  destruct (s2_maxEncodedVertices <? x) eqn:C; [apply good_set_err; auto|]. apply Z.ltb_ge in C.
  apply read_many_good; [exact read_vertex_good|].
  apply good_go_make; auto. intros _. cbn [alloc_limit]. lia.
Qed.

Lemma decode_loop_good : preserves decode_loop_body.
Proof.
  intros d G. unfold decode_loop_body. rd.
  destruct (failed d0); auto.
  destruct (negb (wrap_i8 x =? s2_encodingVersion)); [apply good_set_err; auto|].
  rd.
  destruct (s2_maxEncodedVertices <? x0) eqn:C; [apply good_set_err; auto|]. apply Z.ltb_ge in C.
  assert (G2 : good (go_make AVertices x0 d1)).
  { apply good_go_make; auto. intros _. cbn [alloc_limit]. lia. }
  pose proof (read_many_good read_vertex x0 read_vertex_good _ G2) as G3.
  destruct (read_many read_vertex x0 (go_make AVertices x0 d1)) as [vs d2]. cbn [snd] in G3.
  pose proof (read_bool_good d2 G3) as G4. destruct (read_bool d2) as [oi d3]. cbn [snd] in G4.
  rd.
  pose proof (decode_rect_good d4 G5) as G6. destruct (decode_rect_body d4) as [b d5]. exact G6.
Qed.

Lemma decode_polygon_lossless_good : preserves decode_polygon_lossless_body.
Proof.
  intros d G. unfold decode_polygon_lossless_body. rd.
  pose proof (read_bool_good d0 G0) as G1. destruct (read_bool d0) as [hh d1]. cbn [snd] in G1.
  rd. destruct (failed d2) eqn:F; auto.
  destruct (s2_maxEncodedLoops <? x0) eqn:C; [apply good_set_err; auto|]. apply Z.ltb_ge in C.
  assert (G3 : good (go_make ALoops x0 d2)).
  { apply good_go_make; auto. intros _. cbn [alloc_limit]. lia. }
  pose proof (read_many_good decode_loop_body x0 decode_loop_good _ G3) as G4.
  destruct (read_many decode_loop_body x0 (go_make ALoops x0 d2)) as [ls d3]. cbn [snd] in G4.
  pose proof (decode_rect_good d3 G4) as G5. destruct (decode_rect_body d3) as [b d4]. exact G5.
Qed.

(** * Compressed format *)

Lemma wrap_i64_small z : - 2 ^ 63 <= z < 2 ^ 63 -> wrap_i64 z = z.
Proof.
  intros H. unfold wrap_i64, wrap_i. change (2 ^ 64) with 18446744073709551616 in *.
  change (2 ^ (64 - 1)) with 9223372036854775808. change (2 ^ 63) with 9223372036854775808 in H.
  destruct (z mod 18446744073709551616 <? 9223372036854775808) eqn:E;
    [apply Z.ltb_lt in E|apply Z.ltb_ge in E]; Z.div_mod_to_equations; lia.
Qed.

Lemma decode_face_run_good d : good d ->
  good (snd (decode_face_run d)) /\
  (failed (snd (decode_face_run d)) = false -> 1 <= snd (fst (decode_face_run d)) < 2 ^ 62).
Proof.
  intros G. unfold decode_face_run. rd.
  assert (Hc : 0 <= x / s2_NumFaces < 2 ^ 62).
  { change s2_NumFaces with 6. split. { apply Z.div_pos; lia. }
    apply Z.div_lt_upper_bound; lia. }
  assert (Hw : wrap_i64 (x / s2_NumFaces) = x / s2_NumFaces).
  { apply wrap_i64_small. change (2 ^ 63) with (2 * 2 ^ 62). lia. }
  rewrite Hw. cbn [fst snd].
  destruct ((x / s2_NumFaces <=? 0) && negb (failed d0)) eqn:C.
  - split; [apply good_set_err; auto|]. rewrite failed_set_err. discriminate.
  - split; auto. intros F. rewrite F in C. cbn in C. rewrite andb_true_r in C. apply Z.leb_gt in C. lia.
Qed.

(** the face-run loop: the reader stays good, and the number of runs collected never
    exceeds the number of vertices parsed so far nor the vertex count *)
Definition faces_inv (n : Z) (s : list (Z * Z) * Z * dec) : Prop :=
  let '(frs, np, d) := s in
  good d /\ 0 <= np /\ Z.of_nat (length frs) <= np /\ Z.of_nat (length frs) <= n.

Lemma faces_body_inv n s : 0 <= n <= 2 ^ 62 -> faces_inv n s -> faces_stop n s = false -> faces_inv n (faces_body s).
Proof.
  intros Hn. destruct s as [[frs np] d]. unfold faces_inv, faces_stop, faces_body. cbn [fst snd].
  intros (G & Hnp & Hl & Hl2) Hstop. apply orb_false_iff in Hstop. destruct Hstop as [F St]. apply Z.leb_gt in St.
  pose proof (decode_face_run_good d G) as [G1 C1].
  destruct (decode_face_run d) as [fr d1]. cbn [fst snd] in *.
  destruct (failed d1) eqn:F1.
  - split; [exact G1|]. repeat split; auto.
  - specialize (C1 eq_refl). rewrite wrap_i64_small.
    2:{ change (2 ^ 63) with (2 * 2 ^ 62). lia. }
    cbn [length]. rewrite Nat2Z.inj_succ. split; [exact G1|]. repeat split; auto; lia.
Qed.

Lemma decode_faces_good n d : 0 <= n <= s2_maxEncodedVertices -> good d -> good (snd (decode_faces n d)).
Proof.
  intros Hn G. unfold decode_faces.
  assert (I : faces_inv n (rep (faces_stop n) faces_body n ([], 0, d))).
  { apply (rep_inv (faces_stop n) faces_body (faces_inv n)).
    - intros s Hs Hst. apply faces_body_inv; auto.
      split; [lia|]. eapply Z.le_trans; [apply Hn|]. vm_compute; discriminate.
    - unfold faces_inv. split; [exact G|]. cbn [length Z.of_nat]. lia. }
  destruct (rep (faces_stop n) faces_body n ([], 0, d)) as [[frs np] d1].
  unfold faces_inv in I. destruct I as (G1 & Hnp & Hl & Hl2).
  destruct (failed d1) eqn:F; cbn [snd]; auto.
  apply good_go_make; auto. intros _. cbn [alloc_limit]. lia.
Qed.

Lemma decode_first_point_good level pc qc d : good d ->
  good (snd (decode_first_point level pc qc d)).
Proof.
  intros G. unfold decode_first_point. rd.
  destruct (s2_deinterleaveUint32 (wrap_u64 x)) as [a b].
  destruct (coder_decode pc (wrap_i32 a)) as [pc' p].
  destruct (coder_decode qc (wrap_i32 b)) as [qc' q]. exact G0.
Qed.

Lemma decode_next_point_good pc qc d : good d -> good (snd (decode_next_point pc qc d)).
Proof.
  intros G. unfold decode_next_point. rd.
  destruct (s2_deinterleaveUint32 x) as [a b].
  destruct (coder_decode pc (s2_zigzagDecode a)) as [pc' p].
  destruct (coder_decode qc (s2_zigzagDecode b)) as [qc' q]. exact G0.
Qed.

Lemma vertex_body_good level s : good (vs_d s) -> good (vs_d (vertex_body level s)).
Proof.
  intros G. unfold vertex_body.
  assert (H : good (snd (if vs_i s =? 0 then decode_first_point level (vs_pc s) (vs_qc s) (vs_d s)
                          else decode_next_point (vs_pc s) (vs_qc s) (vs_d s)))).
  { destruct (vs_i s =? 0); [apply decode_first_point_good|apply decode_next_point_good]; auto. }
  destruct (if vs_i s =? 0 then _ else _) as [[[[p q] pc] qc] d]. cbn [snd] in H.
  destruct (vs_faces s) as [|[f c] rest].
  - destruct (failed d); cbn [vs_d]; auto. apply good_set_err; auto.
  - destruct (c <=? vs_shown s + 1); cbn [vs_d]; auto.
Qed.

Lemma offc_body_good n s : good (snd s) -> good (snd (offc_body n s)).
Proof.
  destruct s as [pts d]. cbn [snd]. intros G. unfold offc_body. rd.
  destruct (failed d0) eqn:F; cbn [snd]; auto.
  destruct ((wrap_i64 x <? 0) || (n <=? wrap_i64 x)) eqn:C; cbn [snd]; [apply good_set_err; auto|].
  apply orb_false_iff in C. destruct C as [C1 C2]. apply Z.ltb_ge in C1. apply Z.leb_gt in C2.
  assert (G1 : good (go_index (wrap_i64 x) n d0)) by (apply good_go_index; auto).
  pose proof (read_vertex_good _ G1) as G2.
  destruct (read_vertex (go_index (wrap_i64 x) n d0)) as [pt d1]. exact G2.
Qed.

Lemma decode_points_compressed_good level n d : 0 <= n <= s2_maxEncodedVertices -> good d ->
  good (snd (decode_points_compressed level n d)).
Proof.
  intros Hn G. unfold decode_points_compressed.
  pose proof (decode_faces_good n d Hn G) as G1. destruct (decode_faces n d) as [faces d1]. cbn [snd] in G1.
  set (s0 := mkvs 0 _ _ faces 0 0 [] d1).
  assert (G2 : good (vs_d (rep vertex_stop (vertex_body level) n s0))).
  { apply (rep_inv vertex_stop (vertex_body level) (fun s => good (vs_d s))); auto.
    intros s Gs _. now apply vertex_body_good. }
  destruct (failed (vs_d (rep vertex_stop (vertex_body level) n s0))) eqn:F; cbn [snd]; auto.
  rd. destruct (failed d0) eqn:F0; cbn [snd]; auto.
  destruct (n <? wrap_i64 x); cbn [snd]; [apply good_set_err; auto|].
  apply (rep_inv offc_stop (offc_body n) (fun s => good (snd s))); auto.
  intros s Gs _. now apply offc_body_good.
Qed.

Lemma decode_cloop_good level : preserves (decode_cloop_body level).
Proof.
  intros d G. unfold decode_cloop_body. rd.
  destruct (failed d0) eqn:F; auto.
  destruct (s2_maxEncodedVertices <? x) eqn:C; [apply good_set_err; auto|]. apply Z.ltb_ge in C.
  assert (G1 : good (go_make AVertices x d0)).
  { apply good_go_make; auto. intros _. cbn [alloc_limit]. lia. }
  pose proof (decode_points_compressed_good level x _ ltac:(lia) G1) as G2.
  destruct (decode_points_compressed level x (go_make AVertices x d0)) as [pts d1]. cbn [snd] in G2.
  rd. destruct (failed d2); auto.
  rd.
  destruct (negb (Z.land x0 s2_boundEncoded =? 0)).
  - pose proof (decode_rect_good d3 G4) as G5. destruct (decode_rect_body d3) as [b d4]. exact G5.
  - destruct (x =? 0); exact G4.
Qed.

Lemma decode_polygon_compressed_good : preserves decode_polygon_compressed_body.
Proof.
  intros d G. unfold decode_polygon_compressed_body. rd.
  destruct (s2_MaxLevel <? x); [apply good_set_err; auto|].
  rd. destruct (failed d1) eqn:F; auto.
  destruct (s2_maxEncodedLoops <? x0) eqn:C; [apply good_set_err; auto|]. apply Z.ltb_ge in C.
  apply read_many_good; [apply decode_cloop_good|].
  apply good_go_make; auto. intros _. cbn [alloc_limit]. lia.
Qed.

Lemma decode_polygon_good : preserves decode_polygon_body.
Proof.
  intros d G. unfold decode_polygon_body. rd.
  destruct (wrap_i8 x =? s2_encodingVersion).
  - pose proof (decode_polygon_lossless_good d0 G0) as G1. destruct (decode_polygon_lossless_body d0). exact G1.
  - destruct (wrap_i8 x =? s2_encodingCompressedVersion).
    + pose proof (decode_polygon_compressed_good d0 G0) as G1. destruct (decode_polygon_compressed_body d0). exact G1.
    + apply good_set_err; auto.
Qed.

(** * From the invariant to the statements *)
Lemma run_total {A} (f : dec -> A * dec) : preserves f -> forall bs, bytes_ok bs -> run f bs <> Panic.
Proof.
  intros P bs Hb. unfold run. specialize (P _ (good_init bs Hb)).
  destruct (f (dec_init bs)) as [v d]. cbn [snd] in P. destruct P as (Hs & _).
  destruct (d_st d); try discriminate. contradiction.
Qed.

Lemma run_log_bounded {A} (f : dec -> A * dec) : preserves f -> forall bs, bytes_ok bs -> log_ok (run_log f bs).
Proof.
  intros P bs Hb. unfold run_log. specialize (P _ (good_init bs Hb)). now destruct P as (_ & Hl & _).
Qed.

(** the face-run loop really ran to completion: on exit either the reader failed or
    nparsed reached the vertex count, i.e. [numVertices] iterations always suffice for the
    Go loop [for nparsed < numVertices] *)
Lemma decode_faces_complete n d : 0 <= n <= s2_maxEncodedVertices -> good d ->
  faces_stop n (rep (faces_stop n) faces_body n ([], 0, d)) = true.
Proof.
  intros Hn G.
  assert (Hn62 : 0 <= n <= 2 ^ 62).
  { split; [lia|]. eapply Z.le_trans; [apply Hn|]. intro H. vm_compute in H. discriminate H. }
  set (stp := step (faces_stop n) faces_body).
  assert (K : forall k s, faces_inv n s ->
            faces_stop n (iter_n k stp s) = true \/ snd (fst s) + Z.of_nat k <= snd (fst (iter_n k stp s))).
  { induction k; intros s I.
    - right. cbn [iter_n]. cbn. lia.
    - cbn [iter_n]. destruct (faces_stop n s) eqn:St.
      + left. replace (stp s) with s by (unfold stp, step; now rewrite St).
        unfold stp. rewrite iter_step_stop; auto.
      + replace (stp s) with (faces_body s) by (unfold stp, step; now rewrite St).
        pose proof (faces_body_inv n s Hn62 I St) as I'.
        destruct (IHk _ I') as [S1|S1]; [now left|].
        destruct s as [[frs np] d0]. unfold faces_body in *. cbn [fst snd] in *.
        destruct I as (G0 & Hnp & _).
        pose proof (decode_face_run_good d0 G0) as [G1 C1].
        destruct (decode_face_run d0) as [fr d1]. cbn [fst snd] in *.
        destruct (failed d1) eqn:F1.
        * left. unfold stp. rewrite iter_step_stop; unfold faces_stop; cbn [fst snd]; now rewrite F1.
        * specialize (C1 eq_refl). cbn [fst snd] in S1.
          apply orb_false_iff in St. destruct St as [_ St]. cbn [fst snd] in St. apply Z.leb_gt in St.
          rewrite wrap_i64_small in S1 |- * by (change (2 ^ 63) with (2 * 2 ^ 62); lia).
          right. rewrite Nat2Z.inj_succ. lia. }
  rewrite rep_iter. fold stp.
  assert (I0 : faces_inv n ([], 0, d)). { unfold faces_inv. split; [exact G|]. cbn [length Z.of_nat]. lia. }
  destruct (K (Z.to_nat n) _ I0) as [S1|S1]; [exact S1|].
  cbn [fst snd] in S1. rewrite Z2Nat.id in S1 by lia.
  unfold faces_stop. apply orb_true_iff. right. apply Z.leb_le. lia.
Qed.

(** * Queries on a decoded loop *)
Lemma loop_vertex_ok vs i : vs <> [] -> loop_vertex vs i <> Panic.
Proof.
  intros H. unfold loop_vertex. destruct (len vs =? 0) eqn:E; [|discriminate].
  apply Z.eqb_eq in E. unfold len in E. destruct vs; [contradiction|cbn in E; lia].
Qed.

Lemma loop_vertex_some vs i : vs <> [] -> exists u, loop_vertex vs i = Ok u.
Proof.
  intros H. unfold loop_vertex. destruct (len vs =? 0) eqn:E; [|eauto].
  apply Z.eqb_eq in E. unfold len in E. destruct vs; [contradiction|cbn in E; lia].
Qed.

Lemma brute_force_contains_total crossing vs oi p : brute_force_contains crossing vs oi p <> Panic.
Proof.
  unfold brute_force_contains. destruct (len vs =? 0) eqn:E; [discriminate|].
  assert (Hne : vs <> []). { intros ->. cbn in E. discriminate. }
  assert (H : forall l acc, acc <> Panic ->
    fold_left (fun (acc : result bool) i =>
                 match acc, loop_vertex vs (i - 1), loop_vertex vs i with
                 | Ok ins, Ok a, Ok b => Ok (xorb ins (crossing p a b))
                 | Err, _, _ => Err
                 | _, _, _ => Panic
                 end) l acc <> Panic).
  { induction l; intros acc Ha; cbn [fold_left]; auto. apply IHl.
    destruct (loop_vertex_some vs (a - 1) Hne) as [u ->]. destruct (loop_vertex_some vs a Hne) as [w ->].
    destruct acc as [ins| |]; [discriminate|discriminate|contradiction]. }
  apply H. discriminate.
Qed.

Lemma brute_force_contains_empty crossing oi p : brute_force_contains crossing [] oi p = Ok oi.
Proof. reflexivity. Qed.

(** * The model does express the crashes the property excludes (non-vacuity)
    Variants of two decoders as they were before the repairs in /repo, with the failing
    inputs recorded in KNOWN_FINDINGS.jsonl. *)
Definition decode_cellunion_body_1dec9aa (d : dec) : list Z * dec :=
  let '(v, d) := read_i8 d in
  if failed d then ([], d) else
  if negb (v =? s2_encodingVersion) then ([], set_err d) else
  let '(n, d) := read_i64 d in
  if failed d then ([], d) else
  if s2_CellUnion_decode_maxCells <? n then ([], set_err d) else   (* no [n < 0] test *)
  let d := go_make ACells n d in
  read_many decode_cellid_body n d.
Example cellunion_negative_count_panicked :
  run decode_cellunion_body_1dec9aa [1; 255; 255; 255; 255; 255; 255; 255; 255] = Panic
  /\ decode_cellunion [1; 255; 255; 255; 255; 255; 255; 255; 255] = Err.
Proof. split; vm_compute; reflexivity. Qed.

Definition offc_body_c81b203 (n : Z) (s : list point * dec) : list point * dec :=
  let '(pts, d) := s in
  let '(ix, d) := read_uvarint d in
  let idx := wrap_i64 ix in
  if failed d then (pts, d) else
  if n <=? idx then (pts, set_err d) else                         (* no [idx < 0] test *)
  let d := go_index idx n d in
  let '(pt, d) := read_point d in
  (updZ pts idx pt, d).
Example offcentre_negative_index_panicked :
  let bs := put_uvarint (2 ^ 63) ++ repeat 0 24 in
  d_st (snd (offc_body_c81b203 3 ([zero_point; zero_point; zero_point], dec_init bs))) = SPanic
  /\ d_st (snd (offc_body 3 ([zero_point; zero_point; zero_point], dec_init bs))) = SErr.
Proof. split; vm_compute; reflexivity. Qed.

(** the hypotheses of the theorems are satisfiable: a valid encoding decodes to a value *)
Example decode_point_example :
  decode_point (1 :: le_bytes 8 4607182418800017408 ++ le_bytes 8 0 ++ le_bytes 8 0) = Ok (4607182418800017408, 0, 0).
Proof. vm_compute. reflexivity. Qed.

(** * A decoded Cell is usable (since 8beed88 Cell.decode rejects invalid ids)
    Before the repair Cell.Decode accepted any 8 bytes; an id whose top three bits are 6 or 7
    has no face, and RectBound indexes the 6-row axis table with it. *)
Lemma decode_usable_cell_old_refuted :
  exists bs id, bytes_ok bs /\ run decode_cellid_body bs = Ok id /\ cell_rect_bound_axes id = Panic
                /\ decode_cell bs = Err.
Proof.
  exists [72; 188; 220; 92; 34; 192; 91; 244]. eexists. split; [|split; [|split]].
  - repeat constructor; unfold byte_ok; lia.
  - vm_compute. reflexivity.
  - vm_compute. reflexivity.
  - vm_compute. reflexivity.
Qed.
(** valid ids are fine *)
Lemma cell_rect_bound_axes_valid id : 0 <= id < 6 * 2 ^ 61 -> cell_rect_bound_axes id <> Panic.
Proof.
  intros H. unfold cell_rect_bound_axes, cellid_face. rewrite Z.shiftr_div_pow2 by lia.
  assert (0 <= id / 2 ^ 61 < 6).
  { split; [apply Z.div_pos; lia|apply Z.div_lt_upper_bound; lia]. }
  change s2_NumFaces with 6.
  destruct (id / 2 ^ 61 <? 0) eqn:E1; [apply Z.ltb_lt in E1; lia|].
  destruct (6 <=? id / 2 ^ 61) eqn:E2; [apply Z.leb_le in E2; lia|]. discriminate.
Qed.

(** a valid id has a face *)
Lemma isvalid_face id : 0 <= id < 2 ^ 64 -> s2_CellID_IsValid id = true -> 0 <= id < 6 * 2 ^ 61.
Proof.
  intros Hid H. unfold s2_CellID_IsValid in H. apply andb_true_iff in H. destruct H as [H _].
  apply Z.ltb_lt in H. unfold s2_CellID_Face, go_shr in H. cbn [Z.ltb Z.compare] in H.
  assert (Hw : wrap_u64 id = id) by (unfold wrap_u64, wrap_u; now apply Z.mod_small).
  rewrite Hw in H. rewrite Z.shiftr_div_pow2 in H by lia.
  assert (Hq : 0 <= id / 2 ^ 61 < 8).
  { split; [apply Z.div_pos; lia|]. apply Z.div_lt_upper_bound; [lia|]. change (2 ^ 61 * 8) with (2 ^ 64). lia. }
  rewrite wrap_i64_small in H by (change (2 ^ 63) with 9223372036854775808; lia).
  split; [lia|]. change (2 ^ 61) with 2305843009213693952 in *. Z.div_mod_to_equations. lia.
Qed.

Lemma decode_cell_valid bs id : bytes_ok bs -> decode_cell bs = Ok id -> 0 <= id < 2 ^ 64 /\ s2_CellID_IsValid id = true.
Proof.
  intros Hb. unfold decode_cell, run, decode_cell_body. unfold read_u64.
  pose proof (good_read_le 8 (dec_init bs) (good_init bs Hb)) as [G R].
  destruct (read_le 8 (dec_init bs)) as [x d]. cbn [fst snd] in *.
  destruct (failed d) eqn:F.
  - unfold failed in F. destruct (d_st d); discriminate.
  - destruct (s2_CellID_IsValid x) eqn:V; cbn [negb].
    + destruct (d_st d); try discriminate. intros H. injection H as <-. split; auto.
    + pose proof (failed_set_err d) as Fs. unfold failed in Fs. destruct (d_st (set_err d)); discriminate.
Qed.

Lemma decode_usable_cell bs id : bytes_ok bs -> decode_cell bs = Ok id -> cell_rect_bound_axes id <> Panic.
Proof.
  intros Hb H. destruct (decode_cell_valid bs id Hb H) as [R V].
  apply cell_rect_bound_axes_valid. now apply isvalid_face.
Qed.

(** every id of a decoded CellUnion is valid as well *)
Lemma cellunion_ids_valid_inv n : forall d,
  let s := rep many_stop (many_body decode_cell_body) n ([], d) in
  failed (snd s) = false -> Forall (fun id => s2_CellID_IsValid id = true) (fst s).
Proof.
  intros d.
  assert (H : forall s, (failed (snd s) = false -> Forall (fun id => s2_CellID_IsValid id = true) (fst s)) ->
              many_stop s = false ->
              (failed (snd (many_body decode_cell_body s)) = false ->
               Forall (fun id => s2_CellID_IsValid id = true) (fst (many_body decode_cell_body s)))).
  { intros [acc d0] IH St. unfold many_stop in St. cbn [fst snd] in *. unfold many_body, decode_cell_body. cbn [fst snd].
    destruct (read_u64 d0) as [x d1]. destruct (failed d1) eqn:F1; cbn [fst snd].
    - intros F. rewrite F1 in F. discriminate.
    - destruct (s2_CellID_IsValid x) eqn:V; cbn [negb fst snd].
      + intros _. constructor; auto.
      + rewrite failed_set_err. discriminate. }
  cbv zeta. apply (rep_inv many_stop (many_body decode_cell_body)
    (fun s => failed (snd s) = false -> Forall (fun id => s2_CellID_IsValid id = true) (fst s))); auto.
  intros _. constructor.
Qed.

Lemma run_ok_not_failed {A} (f : dec -> A * dec) bs v : run f bs = Ok v ->
  failed (snd (f (dec_init bs))) = false /\ fst (f (dec_init bs)) = v.
Proof.
  unfold run. destruct (f (dec_init bs)) as [w d]. cbn [fst snd]. unfold failed.
  destruct (d_st d); try discriminate. intros H. injection H as <-. auto.
Qed.

Lemma decode_cellunion_valid bs ids : decode_cellunion bs = Ok ids ->
  Forall (fun id => s2_CellID_IsValid id = true) ids.
Proof.
  intros H. apply run_ok_not_failed in H. destruct H as [F E]. revert F E.
  unfold decode_cellunion_body.
  destruct (read_i8 (dec_init bs)) as [v d1]. destruct (failed d1) eqn:F1; cbn [fst snd].
  { intros F. rewrite F1 in F. discriminate. }
  destruct (negb (v =? s2_encodingVersion)); cbn [fst snd].
  { rewrite failed_set_err. discriminate. }
  destruct (read_i64 d1) as [n d2]. destruct (failed d2) eqn:F2; cbn [fst snd].
  { intros F. rewrite F2 in F. discriminate. }
  destruct ((n <? 0) || (s2_CellUnion_decode_maxCells <? n)); cbn [fst snd].
  { rewrite failed_set_err. discriminate. }
  unfold read_many. cbn [fst snd]. intros F <-.
  apply Forall_rev. now apply (cellunion_ids_valid_inv n (go_make ACells n d2)).
Qed.

(** * Vertices of a decoded loop or polyline are finite (since 4fc5f5f) *)
Definition finite_point (p : point) : Prop :=
  let '(x, y, z) := p in nonfinite_bits x = false /\ nonfinite_bits y = false /\ nonfinite_bits z = false.

Lemma read_many_forall {A} (rd1 : dec -> A * dec) (P : A -> Prop) n d :
  (forall d0, failed (snd (rd1 d0)) = false -> P (fst (rd1 d0))) ->
  failed (snd (read_many rd1 n d)) = false -> Forall P (fst (read_many rd1 n d)).
Proof.
  intros H. unfold read_many. cbn [fst snd]. intros F. apply Forall_rev. revert F.
  apply (rep_inv many_stop (many_body rd1) (fun s => failed (snd s) = false -> Forall P (fst s))).
  - intros [acc d0] IH St. unfold many_stop in St. cbn [fst snd] in *. unfold many_body. cbn [fst snd].
    specialize (H d0). destruct (rd1 d0) as [x d1]. cbn [fst snd] in *. intros F. constructor; auto.
  - intros _. constructor.
Qed.

Lemma read_point_coord_sticky d : failed d = true -> read_point_coord d = (0, d).
Proof. intros F. unfold read_point_coord, read_u64. rewrite read_le_failed by auto. now rewrite F. Qed.

Lemma read_point_coord_finite d : failed (snd (read_point_coord d)) = false ->
  nonfinite_bits (fst (read_point_coord d)) = false /\ failed d = false.
Proof.
  unfold read_point_coord. destruct (failed d) eqn:F0.
  { unfold read_u64. rewrite read_le_failed by auto. rewrite F0. cbn. rewrite F0. discriminate. }
  destruct (read_u64 d) as [x d1]. destruct (failed d1) eqn:F1; cbn [negb andb fst snd].
  - rewrite F1. discriminate.
  - destruct (nonfinite_bits x) eqn:N; cbn [fst snd]; [rewrite failed_set_err; discriminate|auto].
Qed.

Lemma read_vertex_finite d : failed (snd (read_vertex d)) = false -> finite_point (fst (read_vertex d)).
Proof.
  unfold read_vertex.
  pose proof (read_point_coord_finite d) as H1. destruct (read_point_coord d) as [x d1]. cbn [fst snd] in H1.
  pose proof (read_point_coord_finite d1) as H2. destruct (read_point_coord d1) as [y d2]. cbn [fst snd] in H2.
  pose proof (read_point_coord_finite d2) as H3. destruct (read_point_coord d2) as [z d3]. cbn [fst snd] in *.
  intros F. destruct (H3 F) as [Z3 F2]. destruct (H2 F2) as [Z2 F1]. destruct (H1 F1) as [Z1 _]. repeat split; auto.
Qed.

Lemma decode_polyline_finite bs ps : decode_polyline bs = Ok ps -> Forall finite_point ps.
Proof.
  intros H. apply run_ok_not_failed in H. destruct H as [F E]. revert F E.
  unfold decode_polyline_body.
  destruct (read_i8 (dec_init bs)) as [v d1]. destruct (failed d1) eqn:F1; cbn [fst snd].
  { intros F. rewrite F1 in F. discriminate. }
  destruct (negb (v =? s2_encodingVersion)); cbn [fst snd].
  { rewrite failed_set_err. discriminate. }
  destruct (read_u32 d1) as [n d2]. destruct (failed d2) eqn:F2; cbn [fst snd].
  { intros F. rewrite F2 in F. discriminate. }
  destruct (s2_maxEncodedVertices <? n); cbn [fst snd].
  { rewrite failed_set_err. discriminate. }
  intros F <-. apply read_many_forall; auto. exact read_vertex_finite.
Qed.

(** reads after a failure leave the reader as it is *)
Lemma read_bool_sticky d : failed d = true -> snd (read_bool d) = d.
Proof. intros F. unfold read_bool, read_i8, read_u8. now rewrite read_le_failed. Qed.
Lemma decode_rect_sticky d : failed d = true -> snd (decode_rect_body d) = d.
Proof.
  intros F. unfold decode_rect_body, read_u8, read_u64. rewrite read_le_failed by auto. rewrite F.
  rewrite andb_false_r. rewrite !read_le_failed by auto. now rewrite F.
Qed.

Lemma decode_loop_finite bs l : decode_loop bs = Ok l -> Forall finite_point (l_vertices l).
Proof.
  intros H. apply run_ok_not_failed in H. destruct H as [F E]. revert F E.
  unfold decode_loop_body.
  destruct (read_u8 (dec_init bs)) as [v d1]. destruct (failed d1) eqn:F1; cbn [fst snd].
  { intros F. rewrite F1 in F. discriminate. }
  destruct (negb (wrap_i8 v =? s2_encodingVersion)); cbn [fst snd].
  { rewrite failed_set_err. discriminate. }
  destruct (read_u32 d1) as [n d2].
  destruct (s2_maxEncodedVertices <? n); cbn [fst snd].
  { rewrite failed_set_err. discriminate. }
  pose proof (read_many_forall read_vertex finite_point n (go_make AVertices n d2) read_vertex_finite) as M.
  destruct (read_many read_vertex n (go_make AVertices n d2)) as [vs d3]. cbn [fst snd] in M.
  destruct (failed d3) eqn:F3.
  - (* a failed reader stays failed *)
    pose proof (read_bool_sticky d3 F3) as S1. destruct (read_bool d3) as [oi d4]. cbn [snd] in S1. subst d4.
    assert (S2 : read_u32 d3 = (0, d3)) by (unfold read_u32; now rewrite read_le_failed).
    rewrite S2. pose proof (decode_rect_sticky d3 F3) as S3. destruct (decode_rect_body d3) as [b d5]. cbn [snd] in S3. subst d5.
    cbn [fst snd]. intros F. rewrite F3 in F. discriminate.
  - destruct (read_bool d3) as [oi d4]. destruct (read_u32 d4) as [dep d5]. destruct (decode_rect_body d5) as [b d6].
    cbn [fst snd]. intros _ <-. cbn [l_vertices]. now apply M.
Qed.

(** * A decoded Rect is valid (since 41c9631) *)
Lemma decode_rect_valid bs r : decode_rect bs = Ok r -> rect_valid r = true.
Proof.
  intros H. apply run_ok_not_failed in H. destruct H as [F E]. revert F E.
  unfold decode_rect_body.
  destruct (read_u8 (dec_init bs)) as [v d0].
  destruct (negb (wrap_i8 v =? s2_encodingVersion) && negb (failed d0)); cbn [fst snd].
  { rewrite failed_set_err. discriminate. }
  destruct (read_u64 d0) as [a d1]. destruct (read_u64 d1) as [b d2]. destruct (read_u64 d2) as [c d3]. destruct (read_u64 d3) as [e d4].
  destruct (failed d4) eqn:F4; cbn [negb andb fst snd].
  { intros F. rewrite F4 in F. discriminate. }
  destruct (rect_valid (mkrect a b c e)) eqn:V; cbn [negb fst snd].
  - intros _ <-. exact V.
  - rewrite failed_set_err. discriminate.
Qed.

(** before 41c9631 any four doubles decoded; lat.lo = -Inf then made IntersectsCell panic in
    big.Float.SetFloat64(NaN) *)
Definition decode_rect_body_41c9631_old (d : dec) : rect * dec :=
  let '(v, d) := read_u8 d in
  if negb (wrap_i8 v =? s2_encodingVersion) && negb (failed d) then (zero_rect, set_err d) else
  let '(a, d) := read_u64 d in
  let '(b, d) := read_u64 d in
  let '(c, d) := read_u64 d in
  let '(e, d) := read_u64 d in
  (mkrect a b c e, d).
Definition rect_old_witness : list Z :=
  [1; 0; 0; 0; 0; 0; 0; 240; 255; 140; 130; 107; 94; 78; 52; 185; 102; 0; 0; 0; 0; 0; 0; 240; 63; 232; 98; 171; 208; 155; 128; 241; 63].
Lemma decode_usable_rect_old_refuted :
  exists r, run decode_rect_body_41c9631_old rect_old_witness = Ok r /\ rect_valid r = false
            /\ decode_rect rect_old_witness = Err.
Proof. eexists. split; [vm_compute; reflexivity|]. split; vm_compute; reflexivity. Qed.

(** * A decoded full polygon can be queried (since 54a5f02 it has its index)
    Before the repair initEdgesAndIndex returned early for the full polygon and left the index nil. *)
Definition polygon_query_entry_54a5f02_old (ls : list cloop) : result unit :=
  if cloops_full ls then Panic else Ok tt.
Lemma decode_usable_full_polygon_old_refuted :
  exists bs ls, bytes_ok bs /\ decode_polygon bs = Ok (DCompressed ls) /\ polygon_query_entry_54a5f02_old ls = Panic
                /\ polygon_query_entry ls = Ok tt.
Proof.
  exists [4; 0; 1; 1; 11; 0; 1; 0]. eexists. split; [|split; [|split]].
  - repeat constructor; unfold byte_ok; lia.
  - vm_compute. reflexivity.
  - vm_compute. reflexivity.
  - vm_compute. reflexivity.
Qed.
Lemma polygon_query_entry_total ls : polygon_query_entry ls = Ok tt.
Proof. unfold polygon_query_entry, polygon_has_index. now destruct (cloops_full ls). Qed.

(** * numVertices of a decoded polygon is the sum of its loop lengths, and the encoder's
    [numVertices == 0] shortcut (encodeCompressed with no vertex data, slicing [vertices[:len]]
    for every loop) is taken only when every loop is vertex-less *)
Lemma fold_num_acc (ls : list loop) : forall a,
  fold_left (fun a l => a + len (l_vertices l)) ls a = a + len (concat (map l_vertices ls)).
Proof.
  induction ls as [|l t IH]; intros a; cbn [fold_left map concat].
  - unfold len. cbn. lia.
  - rewrite IH. unfold len. rewrite app_length, Nat2Z.inj_add. lia.
Qed.
Lemma num_vertices_sum p : num_vertices p = len (concat (map l_vertices (p_loops p))).
Proof. unfold num_vertices. now rewrite fold_num_acc. Qed.
Lemma num_vertices_zero p : num_vertices p = 0 -> Forall (fun l => l_vertices l = []) (p_loops p).
Proof.
  rewrite num_vertices_sum. unfold len. intros H.
  assert (E : concat (map l_vertices (p_loops p)) = []) by (destruct (concat _); [reflexivity|cbn in H; lia]).
  clear H. induction (p_loops p) as [|l t IH]; constructor; cbn [map concat] in E; apply app_eq_nil in E; tauto.
Qed.
