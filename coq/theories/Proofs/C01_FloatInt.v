(** C01 — float64 helper facts for the integer<->float steps of cellIDFromFaceIJWrap:
    decomposition of a finite non-zero float, floor of a half-integer, truncation of an exact
    integer, identity of math.Min/Max away from the clamp, |x|. *)
From Coq Require Import ZArith Reals Floats Lia Lra Bool.
From Flocq Require Import Core.Core IEEE754.BinarySingleNaN IEEE754.PrimFloat.
From Geo Require Import Base.GoPrim Base.F64 Base.F64Arith Proofs.C12_Float.
Local Open Scope Z_scope.

Lemma float_of_Z_fin z : Z.abs z < 2 ^ 53 -> fin (float_of_Z z) /\ RV (float_of_Z z) = IZR z.
Proof.
  intros H. unfold fin, RV. rewrite Prim2B_float_of_Z.
  destruct (BN_exact z H) as (E & F & _). split; assumption.
Qed.

Lemma RV_SF x : RV x = SF2R radix2 (Prim2SF x).
Proof. unfold RV, Prim2B. apply B2R_SF2B. Qed.

Lemma fin_SF x : fin x -> is_finite_SF (Prim2SF x) = true.
Proof. unfold fin, Prim2B. rewrite is_finite_SF2B. auto. Qed.

(** a finite non-zero float is sign * mantissa * 2^e *)
Lemma fin_decomp x : fin x -> RV x <> 0%R ->
  exists s m e, Prim2SF x = S754_finite s m e /\
    RV x = F2R (Float radix2 (cond_Zopp s (Z.pos m)) e).
Proof.
  intros F N. pose proof (fin_SF x F) as FS. pose proof (RV_SF x) as E.
  destruct (Prim2SF x) as [s|s| |s m e] eqn:EP; cbn in FS, E; try discriminate; try (exfalso; apply N; exact E).
  exists s, m, e. split; [reflexivity|exact E].
Qed.

Lemma bpow_IZR e : 0 <= e -> bpow radix2 e = IZR (2 ^ e).
Proof. intros H. change 2 with (radix_val radix2) at 1. rewrite IZR_Zpower by exact H. reflexivity. Qed.

(** integer content of  M * 2^e = N / 2^k  *)
Lemma F2R_eq_int M e N : (F2R (Float radix2 M e) = IZR N)%R ->
  (0 <= e -> M * 2 ^ e = N) /\ (e < 0 -> M = N * 2 ^ (- e)).
Proof.
  unfold F2R. cbn [Fnum Fexp]. intros E. split; intros He.
  - rewrite bpow_IZR in E by lia. rewrite <- mult_IZR in E. apply eq_IZR in E. exact E.
  - apply eq_IZR. rewrite mult_IZR, <- bpow_IZR by lia. rewrite <- E.
    rewrite Rmult_assoc, <- bpow_plus. replace (e + - e) with 0 by lia. cbn. ring.
Qed.

(** Z_of_float_trunc inverts float_of_Z on exactly representable integers *)
Lemma trunc_float_of_Z z : Z.abs z < 2 ^ 53 -> Z_of_float_trunc (float_of_Z z) = z.
Proof.
  intros H. destruct (float_of_Z_fin z H) as (F & E).
  destruct (Z.eq_dec z 0) as [->|N0]; [vm_compute; reflexivity|].
  destruct (fin_decomp _ F) as (s & m & e & EP & ER).
  { rewrite E. apply not_0_IZR. exact N0. }
  unfold Z_of_float_trunc. rewrite EP. rewrite E in ER. symmetry in ER.
  destruct (F2R_eq_int _ _ _ ER) as (P1 & P2).
  destruct (0 <=? e) eqn:Ee; [apply Z.leb_le in Ee|apply Z.leb_gt in Ee].
  - specialize (P1 Ee). rewrite <- P1. destruct s; cbn [cond_Zopp]; [ring|reflexivity].
  - specialize (P2 Ee). rewrite Z.shiftr_div_pow2 by lia.
    assert (Hp : 0 < 2 ^ (- e)) by (apply Z.pow_pos_nonneg; lia).
    destruct s; cbn [cond_Zopp] in P2.
    + replace (Z.pos m) with ((- z) * 2 ^ (- e)) by (rewrite Z.mul_opp_l, <- P2; ring).
      rewrite Z.div_mul by lia. lia.
    + rewrite P2. rewrite Z.div_mul by lia. reflexivity.
Qed.

(** floor of the positive half-integer n + 1/2 is the float n *)
Lemma go_floor_half x n : fin x -> 0 <= n < 2 ^ 52 -> (RV x = IZR (2 * n + 1) / 2)%R ->
  go_floor x = float_of_Z n.
Proof.
  intros F Hn E.
  assert (Epos : (0 < RV x)%R).
  { rewrite E. apply Rmult_lt_0_compat; [apply IZR_lt; lia|lra]. }
  destruct (fin_decomp _ F ltac:(lra)) as (s & m & e & EP & ER).
  assert (Hs : s = false).
  { destruct s; [|reflexivity]. exfalso. rewrite ER in Epos. unfold F2R in Epos. cbn [Fnum Fexp] in Epos.
    pose proof (bpow_gt_0 radix2 e). assert (IZR (cond_Zopp true (Z.pos m)) < 0)%R by (apply IZR_lt; reflexivity). nra. }
  subst s. cbn [cond_Zopp] in ER.
  (* 2 * m * 2^e = 2n+1 *)
  assert (E2 : (F2R (Float radix2 (Z.pos m) (e + 1)) = IZR (2 * n + 1))%R).
  { unfold F2R in *. cbn [Fnum Fexp] in *. rewrite bpow_plus. change (bpow radix2 1) with 2%R.
    rewrite E in ER. lra. }
  destruct (F2R_eq_int _ _ _ E2) as (P1 & P2).
  assert (He : e < 0).
  { destruct (Z_lt_le_dec e 0) as [?|Hge]; [assumption|exfalso].
    specialize (P1 ltac:(lia)). rewrite Z.pow_add_r in P1 by lia. change (2 ^ 1) with 2 in P1. lia. }
  unfold go_floor. rewrite EP. replace (0 <=? e) with false by (symmetry; apply Z.leb_gt; exact He).
  f_equal. rewrite Z.shiftr_div_pow2 by lia.
  destruct (Z.eq_dec e (-1)) as [->|Hne].
  - specialize (P1 ltac:(lia)). change (2 ^ (-1 + 1)) with 1 in P1. change (2 ^ (- -1)) with 2.
    replace (Z.pos m) with (2 * n + 1) by lia. symmetry. apply (Z.div_unique (2 * n + 1) 2 n 1); [left|]; lia.
  - specialize (P2 ltac:(lia)).
    replace (- e) with (- (e + 1) + 1) by lia. rewrite Z.pow_add_r by lia. change (2 ^ 1) with 2.
    assert (Hp : 0 < 2 ^ (- (e + 1))) by (apply Z.pow_pos_nonneg; lia).
    rewrite P2. rewrite Z.mul_comm, Z.div_mul_cancel_l by lia.
    symmetry. apply (Z.div_unique (2 * n + 1) 2 n 1); [left|]; lia.
Qed.

(** |x| *)
Lemma abs_fin x : fin x -> fin (abs x) /\ RV (abs x) = Rabs (RV x).
Proof.
  unfold fin, RV. intros F. rewrite abs_equiv. rewrite is_finite_Babs, B2R_Babs. split; auto.
Qed.

(** math.Min / math.Max are the identity on a finite y strictly inside (-L, L), L = nextafter(1,2) *)
Definition Lim : PrimFloat.float := (0x1.0000000000001p+0)%float.
Lemma Lim_nextafter : go_nextafter 1 2 = Lim.
Proof. vm_compute. reflexivity. Qed.
Lemma Lim_fin : fin Lim. Proof. exact (lit_fin Lim _ _ _ eq_refl). Qed.
Lemma Lim_RV : RV Lim = (4503599627370497 / 4503599627370496)%R.
Proof. unfold Lim. lit_value. Qed.
Lemma Lim_gt1 : (1 < RV Lim)%R.
Proof. rewrite Lim_RV. lra. Qed.

Lemma eqb_neg_inf_fin y : fin y -> PrimFloat.eqb y neg_infinity = false.
Proof.
  intros F. apply (proj2 (eqb_false_iff y neg_infinity (fin_nonnan y F) nonnan_neg_infinity)).
  rewrite (rank_fin y F), rank_neg_infinity. pose proof (RV_lt_top y) as H. apply Rabs_lt_inv in H. fold top in H. lra.
Qed.
Lemma eqb_inf_fin y : fin y -> PrimFloat.eqb y infinity = false.
Proof.
  intros F. apply (proj2 (eqb_false_iff y infinity (fin_nonnan y F) nonnan_infinity)).
  rewrite (rank_fin y F), rank_infinity. pose proof (RV_lt_top y) as H. apply Rabs_lt_inv in H. fold top in H. lra.
Qed.

Lemma fmin_Lim_id y : fin y -> (RV y < 1)%R -> go_fmin Lim y = y.
Proof.
  intros F H. unfold go_fmin. change (PrimFloat.eqb Lim neg_infinity) with false.
  rewrite (eqb_neg_inf_fin y F). cbn [orb]. change (go_isnan Lim) with false. rewrite (fin_nonnan y F). cbn [orb].
  change (PrimFloat.eqb Lim 0) with false. cbn [andb].
  replace (PrimFloat.ltb Lim y) with false; [reflexivity|].
  symmetry. apply (proj2 (ltb_false_iff Lim y (fin_nonnan _ Lim_fin) (fin_nonnan y F))).
  rewrite (rank_fin _ Lim_fin), (rank_fin y F). pose proof Lim_gt1. lra.
Qed.

Lemma fmax_negLim_id y : fin y -> (-1 < RV y)%R -> go_fmax (PrimFloat.opp Lim) y = y.
Proof.
  intros F H. unfold go_fmax. change (PrimFloat.eqb (- Lim) infinity) with false.
  rewrite (eqb_inf_fin y F). cbn [orb]. change (go_isnan (- Lim)) with false. rewrite (fin_nonnan y F). cbn [orb].
  change (PrimFloat.eqb (- Lim) 0) with false. cbn [andb].
  destruct (opp_fin Lim Lim_fin) as (FL & EL).
  replace (PrimFloat.ltb y (- Lim)) with false; [reflexivity|].
  symmetry. apply (proj2 (ltb_false_iff y (- Lim) (fin_nonnan y F) (fin_nonnan _ FL))).
  rewrite (rank_fin _ FL), (rank_fin y F), EL. pose proof Lim_gt1. lra.
Qed.
