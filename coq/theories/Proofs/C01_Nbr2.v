(** C01 — AllNeighbors, per entry (hand model Model/CellIDNbr.v): every returned cell — same-face or
    wrapped to another face — is a valid cell of the requested level; every entry whose leaf
    coordinates lie on the cell's face sits at a grid position of the ring around the cell's square,
    does not intersect the cell and touches it. *)
From Coq Require Import ZArith List Bool Lia.
From Geo Require Import Base.GoPrim Gen.CellIDFull Model.CellIDNbr
  Proofs.C01_Bits Proofs.C01_Algebra Proofs.C01_IJ Proofs.C01_Point Proofs.C01_Inverse Proofs.C01_Nbr Proofs.C01_WrapInside.
Import ListNotations.
Local Open Scope Z_scope.

(** cellIDFromFaceIJWrap returns a valid leaf for EVERY (f,i,j) *)
Lemma wrap_valid : forall f i j, exists f' k, rep (s2_cellIDFromFaceIJWrap f i j) f' 30 k.
Proof.
  intros f i j. unfold s2_cellIDFromFaceIJWrap. cbv zeta.
  match goal with |- context [s2_xyzToFaceUV ?rr] => set (r := rr) end.
  pose proof (xyzToFaceUV_face r) as Ef. pose proof (face_range r) as Hf.
  destruct (s2_xyzToFaceUV r) as [[f' u'] v']. cbn [fst] in Ef. rewrite <- Ef in Hf.
  match goal with |- context [s2_cellIDFromFaceIJ f' (s2_stToIJ ?X) (s2_stToIJ ?Y)] =>
    destruct (ij_roundtrip f' _ _ Hf (stToIJ_range X) (stToIJ_range Y)) as (o & k & _ & H & _) end.
  exists f', k. exact H.
Qed.

Definition inface (x : Z) : Prop := 0 <= x < 2 ^ 30.

(** one entry: Parent (cellIDFromFaceIJSame f i' j' flag) level *)
Lemma entry_valid : forall f i' j' flag level, 0 <= f < 6 -> 0 <= level <= 30 ->
  (flag = true -> inface i' /\ inface j') ->
  (exists f' k', rep (s2_CellID_Parent (s2_cellIDFromFaceIJSame f i' j' flag) level) f' level k') /\
  (inface i' -> inface j' ->
     at_pos (s2_CellID_Parent (s2_cellIDFromFaceIJSame f i' j' flag) level) f level (i' / 2 ^ (30 - level)) (j' / 2 ^ (30 - level))).
Proof.
  intros f i' j' flag level Hf Hlv Hflag. unfold s2_cellIDFromFaceIJSame. split.
  - destruct flag.
    + destruct (Hflag eq_refl) as (Hi & Hj).
      destruct (parent_of_leaf_at f i' j' level Hf Hi Hj Hlv) as (k & _ & _ & _ & H & _). exists f, k. exact H.
    + destruct (wrap_valid f i' j') as (f' & k & H). exists f', (k / 4 ^ (30 - level)). apply (Parent_rep _ _ _ _ level H). lia.
  - intros Hi Hj. destruct flag; [|rewrite (wrap_inside f i' j' Hf Hi Hj)]; apply parent_of_leaf_at; assumption.
Qed.

(** a cell at a deeper level whose position is not under (a,b) does not intersect the cell at (a,b) *)
Lemma at_pos_disjoint_levels : forall c n f l level a b a' b', at_pos c f l a b -> at_pos n f level a' b' ->
  l <= level -> (a' / 2 ^ (level - l), b' / 2 ^ (level - l)) <> (a, b) -> s2_CellID_Intersects c n = false.
Proof.
  intros c n f l level a b a' b' Pc Pn Hll Hne.
  destruct Pc as (k & i & j & o & H & D & Ei & Ej & Ha & Hb).
  destruct Pn as (kn & i_n & j_n & on & Hn & Dn & Ein & Ejn & Ha' & Hb').
  pose proof H as (Hf & Hl & _). pose proof Hn as (_ & Hlv & _).
  destruct (s2_CellID_Intersects c n) eqn:EI; [exfalso|reflexivity].
  apply (laminar_le _ _ _ _ _ _ _ _ H Hn Hll) in EI.
  apply (Contains_iff_ancestor _ _ _ _ _ _ _ _ H Hn) in EI. destruct EI as [_ EP].
  destruct (ancestor_prefix _ _ _ _ l Hn ltac:(lia)) as (i1 & j1 & o1 & i2 & j2 & o2 & D1 & D2 & E1 & E2).
  rewrite Dn in D1. injection D1 as <- <- _. rewrite EP, D in D2. injection D2 as <- <- _.
  apply Hne. rewrite <- Ein, <- Ejn.
  pose proof (pow2_pos (30 - level) ltac:(lia)). pose proof (pow2_pos (level - l) ltac:(lia)).
  rewrite !Z.div_div by lia. rewrite <- Z.pow_add_r by lia. replace (30 - level + (level - l)) with (30 - l) by lia.
  rewrite <- E1, <- E2, Ei, Ej. reflexivity.
Qed.

(** the property of one reported neighbour *)
Definition nbr_ok (c f l a b level n : Z) : Prop :=
  (exists f' k', rep n f' level k') /\
  exists i' j',
    (* leaf coordinates on the ring around the square of c *)
    a * 2 ^ (30 - l) - 2 ^ (30 - level) <= i' <= (a + 1) * 2 ^ (30 - l) /\
    b * 2 ^ (30 - l) - 2 ^ (30 - level) <= j' <= (b + 1) * 2 ^ (30 - l) /\
    ~ (a * 2 ^ (30 - l) <= i' < (a + 1) * 2 ^ (30 - l) /\ b * 2 ^ (30 - l) <= j' < (b + 1) * 2 ^ (30 - l)) /\
    (inface i' -> inface j' ->
       at_pos n f level (i' / 2 ^ (30 - level)) (j' / 2 ^ (30 - level)) /\ s2_CellID_Intersects c n = false).

Section Loop.
  Variables (c f l a b level : Z).
  Hypothesis Pc : at_pos c f l a b.
  Hypothesis Hlv : l <= level <= 30.
  Let size := 2 ^ (30 - l).
  Let nbr := 2 ^ (30 - level).
  Let T := 2 ^ (level - l).
  Let i0 := a * size.
  Let j0 := b * size.

  Lemma loop_facts : 0 <= f < 6 /\ 0 <= l <= 30 /\ 0 < nbr /\ 0 < T /\ size = T * nbr /\
    0 <= a /\ 0 <= b /\ i0 + size <= 2 ^ 30 /\ j0 + size <= 2 ^ 30 /\ size <= 2 ^ 30.
  Proof.
    destruct Pc as (k & i & j & o & H & _ & _ & _ & Ha & Hb). pose proof H as (Hf & Hl & _).
    unfold size, nbr, T, i0, j0.
    pose proof (pow2_pos (30 - level) ltac:(lia)). pose proof (pow2_pos (level - l) ltac:(lia)).
    pose proof (pow2_pos (30 - l) ltac:(lia)).
    assert (E30 : 2 ^ 30 = 2 ^ l * 2 ^ (30 - l)) by (rewrite <- Z.pow_add_r by lia; f_equal; lia).
    assert (Es : 2 ^ (30 - l) = 2 ^ (level - l) * 2 ^ (30 - level)) by (rewrite <- Z.pow_add_r by lia; f_equal; lia).
    repeat split; try lia; try assumption; rewrite E30; nia.
  Qed.

  (** an entry at ring coordinates (i',j') whose flag implies in-face coordinates is ok *)
  Lemma entry_ok : forall i' j' flag,
    i0 - nbr <= i' <= i0 + size -> j0 - nbr <= j' <= j0 + size ->
    ~ (i0 <= i' < i0 + size /\ j0 <= j' < j0 + size) ->
    (flag = true -> inface i' /\ inface j') ->
    nbr_ok c f l a b level (s2_CellID_Parent (s2_cellIDFromFaceIJSame f i' j' flag) level).
  Proof.
    intros i' j' flag Ri Rj Rout Hflag.
    destruct loop_facts as (Hf & Hl & Hn & HT & Es & Ha & Hb & Bi & Bj & Bs).
    destruct (entry_valid f i' j' flag level Hf ltac:(lia) Hflag) as (V & P).
    split; [exact V|]. exists i', j'. fold size nbr.
    replace ((a + 1) * size) with (i0 + size) by (unfold i0; ring).
    replace ((b + 1) * size) with (j0 + size) by (unfold j0; ring). fold i0 j0.
    split; [exact Ri|]. split; [exact Rj|]. split; [exact Rout|].
    intros Hi Hj. specialize (P Hi Hj). split; [exact P|].
    apply (at_pos_disjoint_levels _ _ _ _ _ _ _ _ _ Pc P ltac:(lia)). fold nbr T.
    rewrite !Z.div_div by lia. rewrite (Z.mul_comm nbr T), <- Es.
    intros E. injection E as E1 E2. apply Rout.
    assert (Hs : 0 < size) by (clear - Es HT Hn; nia).
    assert (Hs0 : size <> 0) by (clear - Hs; lia).
    pose proof (Z.div_mod i' size Hs0) as D1. pose proof (Z.mod_pos_bound i' size Hs) as M1.
    pose proof (Z.div_mod j' size Hs0) as D2. pose proof (Z.mod_pos_bound j' size Hs) as M2.
    rewrite E1 in D1. rewrite E2 in D2. unfold i0, j0.
    clear - D1 M1 D2 M2. lia.
  Qed.

  Lemma body_ok : forall q, -1 <= q <= T ->
    Forall (nbr_ok c f l a b level) (AllNeighbors_body f i0 j0 size nbr level (q * nbr)).
  Proof.
    intros q Hq. destruct loop_facts as (Hf & Hl & Hn & HT & Es & Ha & Hb & Bi & Bj & Bs).
    change (2 ^ 30) with 1073741824 in *. unfold AllNeighbors_body, MaxSize.
    set (k := q * nbr). assert (Hk : - nbr <= k <= size) by (unfold k; nia).
    assert (Hi0 : 0 <= i0) by (unfold i0; nia). assert (Hj0 : 0 <= j0) by (unfold j0; nia).
    assert (Hns : nbr <= size) by nia.
    assert (Hbmul : j0 = 0 \/ size <= j0) by (unfold j0; destruct (Z.eq_dec b 0) as [->|]; [left; ring|right; nia]).
    assert (Hamul : i0 = 0 \/ size <= i0) by (unfold i0; destruct (Z.eq_dec a 0) as [->|]; [left; ring|right; nia]).
    rewrite !wrap_i64_small by (change (2 ^ 63) with 9223372036854775808; lia).
    assert (Kcase : k < 0 \/ (0 <= k < size) \/ k = size).
    { unfold k. destruct (Z.eq_dec q (-1)) as [->|]; [left; lia|]. destruct (Z.eq_dec q T) as [->|]; [right; right; lia|].
      right; left. nia. }
    destruct Kcase as [Kn | [Km | Ke]].
    - replace (k <? 0) with true by (symmetry; apply Z.ltb_lt; lia). cbn [app].
      repeat (apply Forall_cons); try apply Forall_nil; apply entry_ok; unfold inface; try lia;
        intros Efl; apply andb_true_iff in Efl; destruct Efl as [E1 E2];
        rewrite ?Z.leb_le, ?Z.ltb_lt in E1, E2; change (2 ^ 30) with 1073741824; lia.
    - replace (k <? 0) with false by (symmetry; apply Z.ltb_ge; lia).
      replace (size <=? k) with false by (symmetry; apply Z.leb_gt; lia). cbn [app andb].
      repeat (apply Forall_cons); try apply Forall_nil; apply entry_ok; unfold inface; try lia;
        intros Efl; rewrite ?Z.leb_le, ?Z.ltb_lt in Efl; change (2 ^ 30) with 1073741824; lia.
    - replace (k <? 0) with false by (symmetry; apply Z.ltb_ge; lia).
      replace (size <=? k) with true by (symmetry; apply Z.leb_le; lia). cbn [app].
      repeat (apply Forall_cons); try apply Forall_nil; apply entry_ok; unfold inface; try lia;
        intros Efl; apply andb_true_iff in Efl; destruct Efl as [E1 E2];
        rewrite ?Z.leb_le, ?Z.ltb_lt in E1, E2; change (2 ^ 30) with 1073741824; lia.
  Qed.

  Lemma loop_ok : forall fuel q acc, -1 <= q <= T -> Forall (nbr_ok c f l a b level) acc ->
    Forall (nbr_ok c f l a b level) (AllNeighbors_loop fuel f i0 j0 size nbr level (q * nbr) acc).
  Proof.
    destruct loop_facts as (Hf & Hl & Hn & HT & Es & Ha & Hb & Bi & Bj & Bs).
    induction fuel as [|fuel IH]; intros q acc Hq Hacc; [exact Hacc|].
    cbn [AllNeighbors_loop].
    assert (Hacc' : Forall (nbr_ok c f l a b level) (acc ++ AllNeighbors_body f i0 j0 size nbr level (q * nbr))).
    { apply Forall_app. split; [exact Hacc|apply body_ok; exact Hq]. }
    destruct (size <=? q * nbr) eqn:E; [exact Hacc'|]. apply Z.leb_gt in E.
    change (2 ^ 30) with 1073741824 in Bs.
    rewrite wrap_i64_small by (change (2 ^ 63) with 9223372036854775808; nia).
    replace (q * nbr + nbr) with ((q + 1) * nbr) by ring. apply IH; [|exact Hacc']. nia.
  Qed.
End Loop.

Theorem AllNeighbors_entries : forall c f l a b level, at_pos c f l a b -> l <= level <= 30 ->
  Forall (nbr_ok c f l a b level) (AllNeighbors c level).
Proof.
  intros c f l a b level Pc Hlv. pose proof Pc as (k & i & j & o & H & D & Ei & Ej & Ha & Hb).
  pose proof H as (Hf & Hl & _).
  destruct (loop_facts c f l a b level Pc Hlv) as (_ & _ & Hn & HT & Es & _ & _ & _ & _ & Bs).
  unfold AllNeighbors. rewrite (Level_rep _ _ _ _ H).
  replace ((level <? l) || (30 <? level)) with false by (symmetry; apply orb_false_iff; split; apply Z.ltb_ge; lia).
  rewrite D. rewrite !sizeIJ_eq by lia.
  change (2 ^ 30) with 1073741824 in Bs.
  pose proof (pow2_pos (30 - l) ltac:(lia)) as Hs.
  rewrite (wrap_i64_small (- 2 ^ (30 - l))) by (change (2 ^ 63) with 9223372036854775808; lia).
  rewrite !land_neg_pow2 by lia. rewrite Ei, Ej.
  rewrite (wrap_i64_small (- 2 ^ (30 - level))) by (change (2 ^ 63) with 9223372036854775808; nia).
  replace (- 2 ^ (30 - level)) with (-1 * 2 ^ (30 - level)) by ring.
  apply (loop_ok c f l a b level Pc Hlv); [lia|apply Forall_nil].
Qed.

Lemma shift_flag_up : forall sz i A r M P, 0 < sz -> i = sz * A + r -> 0 <= r < sz -> M = P * sz ->
  (i + sz < M <-> A + 1 < P).
Proof.
  intros sz i A r M P Hs -> Hr ->. split; intros H.
  - assert (sz * (A + 1) < sz * P) by lia. apply Z.mul_lt_mono_pos_l in H0; lia.
  - assert (sz * (A + 2) <= sz * P) by (apply Z.mul_le_mono_nonneg_l; lia). lia.
Qed.
Lemma shift_flag_down : forall sz i A r, 0 < sz -> i = sz * A + r -> 0 <= r < sz ->
  (0 <= i - sz <-> 0 <= A + -1).
Proof.
  intros sz i A r Hs -> Hr. split; intros H.
  - assert (sz * 0 < sz * A) by lia. apply Z.mul_lt_mono_pos_l in H0; lia.
  - assert (sz * 1 <= sz * A) by (apply Z.mul_le_mono_nonneg_l; lia). lia.
Qed.

(** ** VertexNeighbors, all cases (vertex interior to the face, on a face side, or at a cube corner) *)
Theorem VertexNeighbors_general : forall c f l a b level, at_pos c f l a b -> 0 <= level < l ->
  exists i j o, s2_CellID_faceIJOrientation c = (f, i, j, o) /\
  let A := i / 2 ^ (30 - level) in let B := j / 2 ^ (30 - level) in
  let di := if negb (Z.land i (2 ^ (30 - (level + 1))) =? 0) then 1 else -1 in
  let dj := if negb (Z.land j (2 ^ (30 - (level + 1))) =? 0) then 1 else -1 in
  let isame := (0 <=? A + di) && (A + di <? 2 ^ level) in
  let jsame := (0 <=? B + dj) && (B + dj <? 2 ^ level) in
  exists n0 n1 n2 rest, VertexNeighbors c level = n0 :: n1 :: n2 :: rest /\
    (* three entries exactly at a cube corner, four otherwise *)
    (if isame || jsame then exists n3, rest = [n3] /\ (exists f' k', rep n3 f' level k') /\
                                       (isame && jsame = true -> at_pos n3 f level (A + di) (B + dj))
     else rest = []) /\
    n0 = s2_CellID_Parent c level /\ s2_CellID_Contains n0 c = true /\ at_pos n0 f level A B /\
    (exists f' k', rep n1 f' level k') /\ (exists f' k', rep n2 f' level k') /\
    (isame = true -> at_pos n1 f level (A + di) B) /\ (jsame = true -> at_pos n2 f level A (B + dj)).
Proof.
  intros c f l a b level (k & i & j & o & H & D & Ei & Ej & Ha & Hb) Hlv.
  pose proof H as (Hf & Hl & Hk & _).
  assert (Ri : 0 <= i < 2 ^ 30 /\ 0 <= j < 2 ^ 30).
  { pose proof (pow2_pos (30 - l) ltac:(lia)) as HP.
    assert (E30 : 2 ^ 30 = 2 ^ l * 2 ^ (30 - l)) by (rewrite <- Z.pow_add_r by lia; f_equal; lia).
    pose proof (Z.div_mod i (2 ^ (30 - l)) ltac:(lia)). pose proof (Z.mod_pos_bound i (2 ^ (30 - l)) HP).
    pose proof (Z.div_mod j (2 ^ (30 - l)) ltac:(lia)). pose proof (Z.mod_pos_bound j (2 ^ (30 - l)) HP).
    rewrite Ei in *. rewrite Ej in *. rewrite E30. clear - H0 H1 H2 H3 Ha Hb HP. nia. }
  destruct Ri as (Ri & Rj).
  exists i, j, o. split; [exact D|]. cbv zeta.
  set (A := i / 2 ^ (30 - level)). set (B := j / 2 ^ (30 - level)).
  set (di := if negb (Z.land i (2 ^ (30 - (level + 1))) =? 0) then 1 else -1).
  set (dj := if negb (Z.land j (2 ^ (30 - (level + 1))) =? 0) then 1 else -1).
  assert (Hlv' : 0 <= level <= 30) by lia.
  pose proof (pow2_pos (30 - level) ltac:(lia)) as HP. pose proof (pow2_le (30 - level) 30 ltac:(lia)) as HPle.
  pose proof (pow2_pos level ltac:(lia)) as HPl.
  assert (E30 : 2 ^ 30 = 2 ^ level * 2 ^ (30 - level)) by (rewrite <- Z.pow_add_r by lia; f_equal; lia).
  assert (Hsz : 2 ^ (30 - level) = 2 * 2 ^ (30 - (level + 1))).
  { replace (30 - level) with (30 - (level + 1) + 1) by lia. rewrite Z.pow_add_r by lia. change (2 ^ 1) with 2. ring. }
  set (sz := 2 ^ (30 - level)) in *.
  pose proof (Z.div_mod i sz ltac:(lia)) as Di. pose proof (Z.mod_pos_bound i sz HP) as Mi. fold A in Di.
  pose proof (Z.div_mod j sz ltac:(lia)) as Dj. pose proof (Z.mod_pos_bound j sz HP) as Mj. fold B in Dj.
  assert (RA : 0 <= A < 2 ^ level /\ 0 <= B < 2 ^ level).
  { unfold A, B. split; (split; [apply Z.div_pos; lia|apply Z.div_lt_upper_bound; [lia|rewrite Z.mul_comm, <- E30; lia]]). }
  assert (Hdi : di = 1 \/ di = -1) by (unfold di; destruct (Z.land i (2 ^ (30 - (level + 1))) =? 0); cbn [negb]; auto).
  assert (Hdj : dj = 1 \/ dj = -1) by (unfold dj; destruct (Z.land j (2 ^ (30 - (level + 1))) =? 0); cbn [negb]; auto).
  (* the ancestor *)
  destruct (ancestor_prefix _ _ _ _ level H ltac:(lia)) as (i1 & j1 & o1 & i' & j' & o' & D1 & D' & Ei' & Ej').
  rewrite D in D1. injection D1 as <- <- _.
  pose proof (Parent_rep _ _ _ _ level H ltac:(lia)) as HPar.
  assert (P0 : at_pos (s2_CellID_Parent c level) f level A B).
  { exists (k / 4 ^ (l - level)), i', j', o'. split; [exact HPar|]. split; [exact D'|]. split; [exact Ei'|]. split; [exact Ej'|]. exact RA. }
  (* flags of the model = in-range tests on the shifted positions *)
  change (2 ^ 30) with 1073741824 in *.
  assert (Fi : (if negb (Z.land i (2 ^ (30 - (level + 1))) =? 0) then (sz, i + sz <? 1073741824) else (- sz, 0 <=? i - sz))
               = (di * sz, (0 <=? A + di) && (A + di <? 2 ^ level))).
  { unfold di. destruct (negb (Z.land i (2 ^ (30 - (level + 1))) =? 0)); f_equal; try ring.
    - replace (0 <=? A + 1) with true by (symmetry; apply Z.leb_le; lia). cbn [andb].
      apply Bool.eq_true_iff_eq. rewrite !Z.ltb_lt. exact (shift_flag_up sz i A _ _ _ HP Di Mi E30).
    - replace (A + -1 <? 2 ^ level) with true by (symmetry; apply Z.ltb_lt; lia). rewrite andb_true_r.
      apply Bool.eq_true_iff_eq. rewrite !Z.leb_le. exact (shift_flag_down sz i A _ HP Di Mi). }
  assert (Fj : (if negb (Z.land j (2 ^ (30 - (level + 1))) =? 0) then (sz, j + sz <? 1073741824) else (- sz, 0 <=? j - sz))
               = (dj * sz, (0 <=? B + dj) && (B + dj <? 2 ^ level))).
  { unfold dj. destruct (negb (Z.land j (2 ^ (30 - (level + 1))) =? 0)); f_equal; try ring.
    - replace (0 <=? B + 1) with true by (symmetry; apply Z.leb_le; lia). cbn [andb].
      apply Bool.eq_true_iff_eq. rewrite !Z.ltb_lt. exact (shift_flag_up sz j B _ _ _ HP Dj Mj E30).
    - replace (B + -1 <? 2 ^ level) with true by (symmetry; apply Z.ltb_lt; lia). rewrite andb_true_r.
      apply Bool.eq_true_iff_eq. rewrite !Z.leb_le. exact (shift_flag_down sz j B _ HP Dj Mj). }
  set (isame := (0 <=? A + di) && (A + di <? 2 ^ level)) in *.
  set (jsame := (0 <=? B + dj) && (B + dj <? 2 ^ level)) in *.
  (* shifted coordinates *)
  assert (Si : isame = true -> 0 <= i + di * sz < 1073741824 /\ (i + di * sz) / sz = A + di).
  { intros E. unfold isame in E. apply andb_true_iff in E. destruct E as [E1 E2]. apply Z.leb_le in E1. apply Z.ltb_lt in E2.
    rewrite Z.div_add by lia. fold A. split; [|reflexivity]. rewrite E30. clear - Di Mi E1 E2 Hdi HP. nia. }
  assert (Sj : jsame = true -> 0 <= j + dj * sz < 1073741824 /\ (j + dj * sz) / sz = B + dj).
  { intros E. unfold jsame in E. apply andb_true_iff in E. destruct E as [E1 E2]. apply Z.leb_le in E1. apply Z.ltb_lt in E2.
    rewrite Z.div_add by lia. fold B. split; [|reflexivity]. rewrite E30. clear - Dj Mj E1 E2 Hdj HP. nia. }
  (* the model's computation *)
  unfold VertexNeighbors. rewrite D.
  rewrite (wrap_i64_small (level + 1)) by (change (2 ^ 63) with 9223372036854775808; clear - Hlv'; lia).
  rewrite (sizeIJ_eq (level + 1)) by (clear - Hlv Hl; lia).
  rewrite go_shl_mul by (clear; lia). change (2 ^ 1) with 2. rewrite (Z.mul_comm _ 2), <- Hsz. unfold MaxSize.
  rewrite (wrap_i64_small sz) by (change (2 ^ 63) with 9223372036854775808; clear - HP HPle; lia).
  rewrite (wrap_i64_small (- sz)) by (change (2 ^ 63) with 9223372036854775808; clear - HP HPle; lia).
  rewrite !(wrap_i64_small (i + sz)), !(wrap_i64_small (i - sz)), !(wrap_i64_small (j + sz)), !(wrap_i64_small (j - sz))
    by (change (2 ^ 63) with 9223372036854775808; clear - HP HPle Ri Rj; lia).
  rewrite Fi, Fj.
  rewrite !(wrap_i64_small (i + di * sz)), !(wrap_i64_small (j + dj * sz))
    by (change (2 ^ 63) with 9223372036854775808; clear - HP HPle Ri Rj Hdi Hdj; nia).
  (* the three / four entries *)
  destruct (entry_valid f (i + di * sz) j isame level Hf Hlv') as (V1 & Q1).
  { intros E. split; [apply (Si E)|exact Rj]. }
  destruct (entry_valid f i (j + dj * sz) jsame level Hf Hlv') as (V2 & Q2).
  { intros E. split; [exact Ri|apply (Sj E)]. }
  destruct (entry_valid f (i + di * sz) (j + dj * sz) (isame && jsame) level Hf Hlv') as (V3 & Q3).
  { intros E. apply andb_true_iff in E. destruct E as [E1 E2]. split; [apply (Si E1)|apply (Sj E2)]. }
  fold sz in Q1, Q2, Q3. fold A in Q2. fold B in Q1.
  exists (s2_CellID_Parent c level),
    (s2_CellID_Parent (s2_cellIDFromFaceIJSame f (i + di * sz) j isame) level),
    (s2_CellID_Parent (s2_cellIDFromFaceIJSame f i (j + dj * sz) jsame) level),
    (if isame || jsame
     then [s2_CellID_Parent (s2_cellIDFromFaceIJSame f (i + di * sz) (j + dj * sz) (isame && jsame)) level] else []).
  split.
  { destruct (isame || jsame); cbn [app]; reflexivity. }
  split.
  { destruct (isame || jsame) eqn:EO.
    - eexists. split; [reflexivity|]. split; [exact V3|]. intros E. apply andb_true_iff in E. destruct E as [E1 E2].
      destruct (Si E1) as (R1 & X1). destruct (Sj E2) as (R2 & X2). specialize (Q3 R1 R2). rewrite X1, X2 in Q3. exact Q3.
    - reflexivity. }
  split; [reflexivity|]. split; [exact (Parent_contains _ _ _ _ _ H (conj (proj1 Hlv) (Z.lt_le_incl _ _ (proj2 Hlv))))|].
  split; [exact P0|]. split; [exact V1|]. split; [exact V2|]. split.
  - intros E. destruct (Si E) as (R1 & X1). specialize (Q1 R1 Rj). rewrite X1 in Q1. exact Q1.
  - intros E. destruct (Sj E) as (R2 & X2). specialize (Q2 Ri R2). rewrite X2 in Q2. exact Q2.
Qed.
