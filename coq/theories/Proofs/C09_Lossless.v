(** C09 — round trips of the fixed-width ("lossless") formats: Point, Cap, Rect, CellID, Cell,
    CellUnion, Polyline, Loop, Polygon (lossless format).  Values carry float64 fields as
    64-bit patterns, so equality of values is bit-for-bit equality of coordinates.

    Every lemma is stated for a reader in the middle of a stream (arbitrary trailing bytes [t],
    arbitrary allocation log) so that the decoders compose. *)
From Coq Require Import ZArith List Bool Lia.
From Geo Require Import Base.GoPrim Base.Bytes Gen.CellID Gen.Codec Model.Codec.
Import ListNotations.
Local Open Scope Z_scope.

Definition u64 (x : Z) : Prop := 0 <= x < 2 ^ 64.
Definition point_ok (p : point) : Prop := let '(x, y, z) := p in u64 x /\ u64 y /\ u64 z.
(** a vertex of a loop or polyline: coordinates are finite floats (the decoders reject NaN and
    infinities since 4fc5f5f) *)
Definition vertex_ok (p : point) : Prop :=
  point_ok p /\ let '(x, y, z) := p in nonfinite_bits x = false /\ nonfinite_bits y = false /\ nonfinite_bits z = false.
(** a rectangle the decoder accepts: 64-bit patterns of a valid rectangle (41c9631) *)
Definition rect_ok (r : rect) : Prop :=
  (u64 (r_lat_lo r) /\ u64 (r_lat_hi r) /\ u64 (r_lng_lo r) /\ u64 (r_lng_hi r)) /\ rect_valid r = true.
Definition cap_ok (c : cap) : Prop := point_ok (c_center c) /\ u64 (c_radius c).
(** a Loop the lossless encoder can write and the decoder accepts: the vertex count is within
    maxEncodedVertices (Loop.encode itself does not check it) and the depth fits its 32-bit field *)
Definition loop_ok (l : loop) : Prop :=
  Forall vertex_ok (l_vertices l) /\ len (l_vertices l) <= s2_maxEncodedVertices
  /\ 0 <= l_depth l < 2 ^ 32 /\ rect_ok (l_bound l).
Definition polygon_ok (p : polygon) : Prop :=
  Forall loop_ok (p_loops p) /\ rect_ok (p_bound p).

(** a stream positioned at [bs] *)
Notation "bs @ lg" := (mkdec bs SOk lg) (at level 50).

Lemma app_assoc3 {A} (a b c : list A) : (a ++ b) ++ c = a ++ b ++ c.
Proof. now rewrite app_assoc. Qed.

Ltac norm_app := repeat rewrite <- app_assoc; repeat rewrite <- app_comm_cons; cbn [app].

Lemma read_u64_app x t lg : u64 x -> read_u64 ((le_bytes 8 x ++ t) @ lg) = (x, t @ lg).
Proof. intros. now apply read_u64_write. Qed.
Lemma read_u32_app x t lg : 0 <= x < 2 ^ 32 -> read_u32 ((le_bytes 4 x ++ t) @ lg) = (x, t @ lg).
Proof. intros. now apply read_u32_write. Qed.
Lemma read_u8_cons b t lg : 0 <= b < 256 -> read_u8 ((b :: t) @ lg) = (b, t @ lg).
Proof.
  intros H. change (b :: t) with ([b] ++ t). replace [b] with (le_bytes 1 b).
  - apply read_u8_write. cbn; lia.
  - cbn. now rewrite Z.mod_small by lia.
Qed.

Lemma read_point_app p t lg : point_ok p -> read_point ((enc_point p ++ t) @ lg) = (p, t @ lg).
Proof.
  destruct p as [[x y] z]. intros (Hx & Hy & Hz). unfold read_point, enc_point. norm_app.
  rewrite read_u64_app by auto. rewrite read_u64_app by auto. now rewrite read_u64_app by auto.
Qed.

Lemma read_point_coord_app x t lg : u64 x -> nonfinite_bits x = false ->
  read_point_coord ((le_bytes 8 x ++ t) @ lg) = (x, t @ lg).
Proof. intros Hx Hf. unfold read_point_coord. rewrite read_u64_app by auto. cbn [failed d_st negb andb]. now rewrite Hf. Qed.
Lemma read_vertex_app p t lg : vertex_ok p -> read_vertex ((enc_point p ++ t) @ lg) = (p, t @ lg).
Proof.
  destruct p as [[x y] z]. intros ((Hx & Hy & Hz) & Fx & Fy & Fz). unfold read_vertex, enc_point. norm_app.
  rewrite read_point_coord_app by auto. rewrite read_point_coord_app by auto. now rewrite read_point_coord_app by auto.
Qed.

Lemma version_byte_val : version_byte = 1.
Proof. reflexivity. Qed.
Lemma version_ok : wrap_i8 version_byte = s2_encodingVersion.
Proof. reflexivity. Qed.

Lemma read_i8_version t lg : read_i8 ((version_byte :: t) @ lg) = (s2_encodingVersion, t @ lg).
Proof. unfold read_i8. rewrite read_u8_cons by (rewrite version_byte_val; lia). reflexivity. Qed.

(** ** Point *)
Lemma decode_point_body_app p t lg : point_ok p ->
  decode_point_body ((encode_point p ++ t) @ lg) = (p, t @ lg).
Proof.
  intros H. unfold decode_point_body, encode_point. norm_app. rewrite read_i8_version.
  cbn [failed d_st]. rewrite Z.eqb_refl. cbn [negb]. now apply read_point_app.
Qed.

Lemma run_app {A} (f : dec -> A * dec) enc v : (forall t lg, exists lg', f ((enc ++ t) @ lg) = (v, t @ lg')) ->
  run f enc = Ok v.
Proof.
  intros H. destruct (H [] []) as [lg' E]. rewrite app_nil_r in E. unfold run, dec_init. now rewrite E.
Qed.

Lemma roundtrip_point p : point_ok p -> decode_point (encode_point p) = Ok p.
Proof. intros H. apply run_app. intros t lg. exists lg. now apply decode_point_body_app. Qed.

(** ** Cap *)
Lemma decode_cap_body_app c t lg : cap_ok c ->
  decode_cap_body ((encode_cap c ++ t) @ lg) = (c, t @ lg).
Proof.
  destruct c as [ctr r]. intros (Hc & Hr). unfold decode_cap_body, encode_cap. cbn [c_center c_radius] in *.
  norm_app. rewrite read_point_app by auto. now rewrite read_u64_app by auto.
Qed.
Lemma roundtrip_cap c : cap_ok c -> decode_cap (encode_cap c) = Ok c.
Proof. intros H. apply run_app. intros t lg. exists lg. now apply decode_cap_body_app. Qed.

(** ** Rect *)
Lemma decode_rect_body_app r t lg : rect_ok r ->
  decode_rect_body ((encode_rect r ++ t) @ lg) = (r, t @ lg).
Proof.
  destruct r as [a b c e]. intros ((Ha & Hb & Hc & He) & V). unfold decode_rect_body, encode_rect.
  cbn [r_lat_lo r_lat_hi r_lng_lo r_lng_hi] in *. norm_app.
  rewrite read_u8_cons by (rewrite version_byte_val; lia). rewrite version_ok, Z.eqb_refl. cbn [negb andb].
  rewrite read_u64_app by auto. rewrite read_u64_app by auto. rewrite read_u64_app by auto.
  rewrite read_u64_app by auto. cbn [failed d_st negb andb]. now rewrite V.
Qed.
Lemma roundtrip_rect r : rect_ok r -> decode_rect (encode_rect r) = Ok r.
Proof. intros H. apply run_app. intros t lg. exists lg. now apply decode_rect_body_app. Qed.

(** an invalid rectangle is refused (intended since 41c9631: Rect.Decode checks IsValid) *)
Lemma rect_invalid_refuted r : u64 (r_lat_lo r) -> u64 (r_lat_hi r) -> u64 (r_lng_lo r) -> u64 (r_lng_hi r) ->
  rect_valid r = false -> decode_rect (encode_rect r) = Err.
Proof.
  destruct r as [a b c e]. cbn [r_lat_lo r_lat_hi r_lng_lo r_lng_hi]. intros Ha Hb Hc He V.
  rewrite <- (app_nil_r (encode_rect (mkrect a b c e))).
  unfold decode_rect, run, dec_init, decode_rect_body, encode_rect. cbn [r_lat_lo r_lat_hi r_lng_lo r_lng_hi]. norm_app.
  rewrite read_u8_cons by (rewrite version_byte_val; lia). rewrite version_ok, Z.eqb_refl. cbn [negb andb].
  rewrite read_u64_app by auto. rewrite read_u64_app by auto. rewrite read_u64_app by auto.
  rewrite read_u64_app by auto. cbn [failed d_st negb andb]. rewrite V. reflexivity.
Qed.
Example rect_invalid_example :
  let r := mkrect 4611686018427387904 0 0 0 in   (* lat.lo = 2.0 > pi/2 *)
  rect_valid r = false /\ decode_rect (encode_rect r) = Err.
Proof. split; vm_compute; reflexivity. Qed.

(** ** CellID and Cell *)
Lemma decode_cellid_body_app id t lg : u64 id ->
  decode_cellid_body ((encode_cellid id ++ t) @ lg) = (id, t @ lg).
Proof. intros H. unfold decode_cellid_body, encode_cellid. now apply read_u64_app. Qed.
Lemma roundtrip_cellid id : u64 id -> decode_cellid (encode_cellid id) = Ok id.
Proof. intros H. apply run_app. intros t lg. exists lg. now apply decode_cellid_body_app. Qed.
Lemma decode_cell_body_app id t lg : u64 id -> s2_CellID_IsValid id = true ->
  decode_cell_body ((encode_cellid id ++ t) @ lg) = (id, t @ lg).
Proof.
  intros H V. unfold decode_cell_body, encode_cellid. rewrite read_u64_app by auto. cbn [failed d_st]. now rewrite V.
Qed.
Lemma roundtrip_cell id : u64 id -> s2_CellID_IsValid id = true -> decode_cell (encode_cell id) = Ok id.
Proof. intros H V. apply run_app. intros t lg. exists lg. now apply decode_cell_body_app. Qed.

(** ** Sequences *)
Lemma many_step {A} (rd1 : dec -> A * dec) acc bs lg :
  step many_stop (many_body rd1) (acc, bs @ lg) = many_body rd1 (acc, bs @ lg).
Proof. reflexivity. Qed.

Lemma read_many_acc {A} (rd1 : dec -> A * dec) (enc : A -> list Z) xs : forall acc t lg,
  (forall x t lg, In x xs -> exists lg', rd1 ((enc x ++ t) @ lg) = (x, t @ lg')) ->
  exists lg', rep many_stop (many_body rd1) (Z.of_nat (length xs)) (acc, (flat_map enc xs ++ t) @ lg)
              = (rev xs ++ acc, t @ lg').
Proof.
  induction xs as [|x xs IH]; intros acc t lg H.
  - exists lg. reflexivity.
  - cbn [length]. rewrite rep_of_nat_succ. rewrite many_step. unfold many_body at 2. cbn [fst snd flat_map].
    rewrite <- app_assoc. destruct (H x (flat_map enc xs ++ t) lg (or_introl eq_refl)) as [lg1 E1].
    rewrite E1. destruct (IH (x :: acc) t lg1) as [lg2 E2].
    { intros y t' lg' Hy. apply H. now right. }
    exists lg2. rewrite E2. cbn [rev]. now rewrite <- app_assoc.
Qed.

Lemma read_many_app {A} (rd1 : dec -> A * dec) (enc : A -> list Z) xs t lg :
  (forall x t lg, In x xs -> exists lg', rd1 ((enc x ++ t) @ lg) = (x, t @ lg')) ->
  exists lg', read_many rd1 (len xs) ((flat_map enc xs ++ t) @ lg) = (xs, t @ lg').
Proof.
  intros H. unfold read_many, len. destruct (read_many_acc rd1 enc xs [] t lg H) as [lg' E].
  exists lg'. rewrite E. cbn [fst snd]. now rewrite app_nil_r, rev_involutive.
Qed.

Lemma go_make_ok k n bs lg : 0 <= n <= max_make -> go_make k n (bs @ lg) = bs @ ((k, n) :: lg).
Proof.
  intros H. unfold go_make. cbn [failed d_st d_rest d_log].
  replace ((n <? 0) || (max_make <? n)) with false; auto.
  symmetry. apply orb_false_iff. split; [apply Z.ltb_ge|apply Z.ltb_ge]; lia.
Qed.

Lemma len_nonneg {A} (l : list A) : 0 <= len l.
Proof. unfold len. lia. Qed.

Lemma wrap_u32_small x : 0 <= x < 2 ^ 32 -> wrap_u32 x = x.
Proof. intros. unfold wrap_u32, wrap_u. now apply Z.mod_small. Qed.
Lemma wrap_u64_small x : 0 <= x < 2 ^ 64 -> wrap_u64 x = x.
Proof. intros. unfold wrap_u64, wrap_u. now apply Z.mod_small. Qed.
Lemma wrap_i64_small x : - 2 ^ 63 <= x < 2 ^ 63 -> wrap_i64 x = x.
Proof.
  intros H. unfold wrap_i64, wrap_i. change (2 ^ 64) with 18446744073709551616 in *.
  change (2 ^ (64 - 1)) with 9223372036854775808. change (2 ^ 63) with 9223372036854775808 in H.
  destruct (x mod 18446744073709551616 <? 9223372036854775808) eqn:E;
    [apply Z.ltb_lt in E|apply Z.ltb_ge in E]; Z.div_mod_to_equations; lia.
Qed.

Lemma max_vertices_val : s2_maxEncodedVertices = 50000000. Proof. reflexivity. Qed.
Lemma max_loops_val : s2_maxEncodedLoops = 10000000. Proof. reflexivity. Qed.
Lemma max_cells_val : s2_CellUnion_decode_maxCells = 1000000. Proof. reflexivity. Qed.
Lemma max_make_val : max_make = 140737488355328. Proof. reflexivity. Qed.

(** ** CellUnion *)
Definition cellid_ok (id : Z) : Prop := u64 id /\ s2_CellID_IsValid id = true.
Lemma decode_cellunion_body_app ids t lg : Forall cellid_ok ids -> len ids <= s2_CellUnion_decode_maxCells ->
  exists lg', decode_cellunion_body ((encode_cellunion ids ++ t) @ lg) = (ids, t @ lg').
Proof.
  intros Hids Hn. pose proof (len_nonneg ids) as Hn0. rewrite max_cells_val in Hn.
  unfold decode_cellunion_body, encode_cellunion. norm_app. rewrite read_i8_version.
  cbn [failed d_st]. rewrite Z.eqb_refl. cbn [negb].
  unfold read_i64. rewrite wrap_u64_small by lia. rewrite read_u64_app by (unfold u64; lia).
  rewrite wrap_i64_small by lia. cbn [failed d_st].
  replace ((len ids <? 0) || (s2_CellUnion_decode_maxCells <? len ids)) with false.
  2:{ symmetry. apply orb_false_iff. rewrite max_cells_val. split; apply Z.ltb_ge; lia. }
  rewrite go_make_ok by (rewrite max_make_val; lia).
  apply read_many_app. intros x t' lg' Hx. exists lg'.
  rewrite Forall_forall in Hids. destruct (Hids x Hx). now apply decode_cell_body_app.
Qed.
Lemma roundtrip_cellunion ids : Forall cellid_ok ids -> len ids <= s2_CellUnion_decode_maxCells ->
  decode_cellunion (encode_cellunion ids) = Ok ids.
Proof. intros H1 H2. apply run_app. intros t lg. now apply decode_cellunion_body_app. Qed.

(** beyond the decoder's limit the encoder still writes, and the result does not decode *)
Lemma cellunion_beyond_limit_refuted ids : s2_CellUnion_decode_maxCells < len ids < 2 ^ 63 ->
  decode_cellunion (encode_cellunion ids) = Err.
Proof.
  intros Hn. rewrite max_cells_val in Hn.
  unfold decode_cellunion, run, dec_init, decode_cellunion_body, encode_cellunion. norm_app.
  rewrite read_i8_version. cbn [failed d_st]. rewrite Z.eqb_refl. cbn [negb].
  unfold read_i64. rewrite wrap_u64_small by lia. rewrite read_u64_app by (unfold u64; lia).
  rewrite wrap_i64_small by lia. cbn [failed d_st].
  replace ((len ids <? 0) || (s2_CellUnion_decode_maxCells <? len ids)) with true; [reflexivity|].
  symmetry. apply orb_true_iff. right. rewrite max_cells_val. apply Z.ltb_lt. lia.
Qed.

(** ** Polyline *)
Lemma decode_polyline_body_app ps t lg : Forall vertex_ok ps -> len ps <= s2_maxEncodedVertices ->
  exists lg', decode_polyline_body ((encode_polyline ps ++ t) @ lg) = (ps, t @ lg').
Proof.
  intros Hps Hn. pose proof (len_nonneg ps) as Hn0. rewrite max_vertices_val in Hn.
  unfold decode_polyline_body, encode_polyline. norm_app. rewrite read_i8_version.
  cbn [failed d_st]. rewrite Z.eqb_refl. cbn [negb].
  rewrite wrap_u32_small by lia. rewrite read_u32_app by lia. cbn [failed d_st].
  replace (s2_maxEncodedVertices <? len ps) with false by (symmetry; apply Z.ltb_ge; rewrite max_vertices_val; lia).
  rewrite go_make_ok by (rewrite max_make_val; lia).
  apply read_many_app. intros x t' lg' Hx. exists lg'. apply read_vertex_app.
  rewrite Forall_forall in Hps. now apply Hps.
Qed.
Lemma roundtrip_polyline ps : Forall vertex_ok ps -> len ps <= s2_maxEncodedVertices ->
  decode_polyline (encode_polyline ps) = Ok ps.
Proof. intros H1 H2. apply run_app. intros t lg. now apply decode_polyline_body_app. Qed.

Lemma polyline_beyond_limit_refuted ps : s2_maxEncodedVertices < len ps < 2 ^ 32 ->
  decode_polyline (encode_polyline ps) = Err.
Proof.
  intros Hn. rewrite max_vertices_val in Hn.
  unfold decode_polyline, run, dec_init, decode_polyline_body, encode_polyline. norm_app.
  rewrite read_i8_version. cbn [failed d_st]. rewrite Z.eqb_refl. cbn [negb].
  rewrite wrap_u32_small by lia. rewrite read_u32_app by lia. cbn [failed d_st].
  replace (s2_maxEncodedVertices <? len ps) with true; [reflexivity|].
  symmetry. apply Z.ltb_lt. rewrite max_vertices_val. lia.
Qed.

(** ** Loop (lossless format) *)
Lemma read_bool_app b t lg : read_bool ((enc_bool b ++ t) @ lg) = (b, t @ lg).
Proof.
  unfold read_bool, read_i8, enc_bool. cbn [app]. destruct b.
  - rewrite read_u8_cons by lia. reflexivity.
  - rewrite read_u8_cons by lia. reflexivity.
Qed.

Lemma decode_loop_body_app l t lg : loop_ok l ->
  exists lg', decode_loop_body ((encode_loop l ++ t) @ lg) = (l, t @ lg').
Proof.
  destruct l as [vs oi dep bnd]. intros (Hvs & Hn & Hd & Hb). cbn [l_vertices l_origin_inside l_depth l_bound] in *.
  pose proof (len_nonneg vs) as Hn0. rewrite max_vertices_val in Hn.
  unfold decode_loop_body, encode_loop. cbn [l_vertices l_origin_inside l_depth l_bound]. norm_app.
  rewrite read_u8_cons by (rewrite version_byte_val; lia). cbn [failed d_st].
  rewrite version_ok, Z.eqb_refl. cbn [negb].
  rewrite wrap_u32_small by lia. rewrite read_u32_app by lia.
  replace (s2_maxEncodedVertices <? len vs) with false by (symmetry; apply Z.ltb_ge; rewrite max_vertices_val; lia).
  rewrite go_make_ok by (rewrite max_make_val; lia).
  destruct (read_many_app read_vertex enc_point vs
              (enc_bool oi ++ le_bytes 4 (wrap_u32 dep) ++ encode_rect bnd ++ t) ((AVertices, len vs) :: lg)) as [lg1 E1].
  { intros x t' lg' Hx. exists lg'. apply read_vertex_app. rewrite Forall_forall in Hvs. now apply Hvs. }
  rewrite E1. rewrite read_bool_app. rewrite wrap_u32_small by lia. rewrite read_u32_app by lia.
  rewrite decode_rect_body_app by auto. rewrite wrap_i64_small by lia.
  exists lg1. reflexivity.
Qed.
Lemma roundtrip_loop l : loop_ok l -> decode_loop (encode_loop l) = Ok l.
Proof. intros H. apply run_app. intros t lg. now apply decode_loop_body_app. Qed.

Lemma loop_beyond_limit_refuted l : s2_maxEncodedVertices < len (l_vertices l) < 2 ^ 32 ->
  decode_loop (encode_loop l) = Err.
Proof.
  intros Hn. rewrite max_vertices_val in Hn.
  unfold decode_loop, run, dec_init, decode_loop_body, encode_loop. norm_app.
  rewrite read_u8_cons by (rewrite version_byte_val; lia). cbn [failed d_st].
  rewrite version_ok, Z.eqb_refl. cbn [negb].
  rewrite wrap_u32_small by lia. rewrite read_u32_app by lia.
  replace (s2_maxEncodedVertices <? len (l_vertices l)) with true; [reflexivity|].
  symmetry. apply Z.ltb_lt. rewrite max_vertices_val. lia.
Qed.

(** ** Polygon, lossless format *)
Lemma decode_polygon_lossless_body_app p t lg : polygon_ok p -> len (p_loops p) <= s2_maxEncodedLoops ->
  exists lg', decode_polygon_lossless_body
                (([1] ++ enc_bool (p_has_holes p) ++ le_bytes 4 (wrap_u32 (len (p_loops p)))
                  ++ flat_map encode_loop (p_loops p) ++ encode_rect (p_bound p) ++ t) @ lg) = (p, t @ lg').
Proof.
  destruct p as [ls hh bnd]. intros (Hls & Hb) Hn. cbn [p_loops p_has_holes p_bound] in *.
  pose proof (len_nonneg ls) as Hn0. rewrite max_loops_val in Hn.
  unfold decode_polygon_lossless_body. cbn [app].
  rewrite read_u8_cons by lia. rewrite read_bool_app.
  rewrite wrap_u32_small by lia. rewrite read_u32_app by lia. cbn [failed d_st].
  replace (s2_maxEncodedLoops <? len ls) with false by (symmetry; apply Z.ltb_ge; rewrite max_loops_val; lia).
  rewrite go_make_ok by (rewrite max_make_val; lia).
  destruct (read_many_app decode_loop_body encode_loop ls (encode_rect bnd ++ t) ((ALoops, len ls) :: lg)) as [lg1 E1].
  { intros x t' lg' Hx. apply decode_loop_body_app. rewrite Forall_forall in Hls. now apply Hls. }
  rewrite E1. rewrite decode_rect_body_app by auto. exists lg1. reflexivity.
Qed.

Lemma roundtrip_polygon_lossless p bs : polygon_ok p ->
  encode_polygon_lossless p = Some bs -> decode_polygon bs = Ok (DLossless p).
Proof.
  intros Hp He. unfold encode_polygon_lossless in He.
  destruct (s2_maxEncodedLoops <? len (p_loops p)) eqn:C; [discriminate|]. apply Z.ltb_ge in C.
  injection He as <-. apply run_app. intros t lg.
  destruct (decode_polygon_lossless_body_app p t lg Hp C) as [lg' E]. exists lg'.
  set (body := [1] ++ enc_bool (p_has_holes p) ++ le_bytes 4 (wrap_u32 (len (p_loops p)))
                ++ flat_map encode_loop (p_loops p) ++ encode_rect (p_bound p) ++ t) in *.
  match goal with |- decode_polygon_body (?l @ lg) = _ => replace l with (version_byte :: body) end.
  2:{ unfold body, enc_bool. cbn [app le_bytes]. now rewrite <- app_assoc. }
  unfold decode_polygon_body.
  rewrite read_u8_cons by (rewrite version_byte_val; lia). rewrite version_ok, Z.eqb_refl.
  now rewrite E.
Qed.

(** the encoder refuses exactly when there are too many loops *)
Lemma encode_polygon_lossless_none p : encode_polygon_lossless p = None <-> s2_maxEncodedLoops < len (p_loops p).
Proof.
  unfold encode_polygon_lossless. destruct (s2_maxEncodedLoops <? len (p_loops p)) eqn:C.
  - apply Z.ltb_lt in C. split; auto.
  - apply Z.ltb_ge in C. split; [discriminate|lia].
Qed.

(** a loop of unit-length vertices with its computed bound meets the guards *)
Example roundtrip_unit_loop_example :
  let one := 4607182418800017408 in
  (* (1,0,0), (0,1,0), (0,0,1); bound = lat [0, pi/2], lng [0, pi/2] *)
  let l := mkloop [(one, 0, 0); (0, one, 0); (0, 0, one)] false 0
                  (mkrect 0 4609753056924675352 0 4609753056924675352) in
  loop_ok l /\ decode_loop (encode_loop l) = Ok l.
Proof.
  split.
  - repeat split; cbn; try lia; repeat constructor; cbn; unfold u64; try lia; try discriminate; try reflexivity.
  - vm_compute. reflexivity.
Qed.

(** the hypotheses are satisfiable *)
Example roundtrip_loop_example :
  let l := mkloop [(1, 2, 3); (4607182418800017408, 0, 9223372036854775808)] true 1 (mkrect 1 2 3 4) in
  loop_ok l /\ decode_loop (encode_loop l) = Ok l.
Proof.
  split.
  - repeat split; cbn; try lia; repeat constructor; cbn; unfold u64; try lia; try discriminate; try reflexivity.
  - vm_compute. reflexivity.
Qed.
