(** C05 — CellUnion.Normalize / Denormalize (Model/Coverer.v: cu_Normalize, cu_Denormalize)
    with respect to leaf sets, validity, order and levels.  Uses only Proofs/C05_CellFacts.v. *)
From Coq Require Import ZArith List Bool Lia Sorting.Sorted Sorting.Permutation.
From Coq Require Import ZifyBool.
From Geo Require Import Base.GoPrim Gen.CellIDCov Model.Coverer Proofs.C05_CellFacts.
From Geo Require Import Gen.CellID.  (* s2_CellID_RangeMin *)
Import ListNotations.
Local Open Scope Z_scope.

Definition all_valid (l : list Z) : Prop := Forall valid l.
(** the leaf range of [c] lies in that of [o] *)
Definition cell_sub (c o : Z) : Prop :=
  s2_CellID_RangeMin o <= s2_CellID_RangeMin c /\ s2_CellID_RangeMax c <= s2_CellID_RangeMax o.
(** ascending with pairwise disjoint leaf ranges (what Normalize returns) *)
Definition normal (l : list Z) : Prop :=
  StronglySorted (fun a b => s2_CellID_RangeMax a < s2_CellID_RangeMin b) l.

Notation lo := s2_CellID_RangeMin.
Notation hi := s2_CellID_RangeMax.

(* ---------------------------------------------------------------------- *)
(** * Ranges of valid cells *)
Lemma valid_lo_hi : forall c, valid c -> lo c <= c <= hi c.
Proof.
  intros c (L & Hv). rewrite (rangemin_spec _ _ Hv), (rangemax_spec _ _ Hv).
  pose proof (lsbL_pos L ltac:(destruct Hv; lia)). lia.
Qed.
Lemma laminar' : forall a b, valid a -> valid b ->
  hi a < lo b \/ hi b < lo a \/ cell_sub b a \/ cell_sub a b.
Proof.
  intros a b (La & Ha) (Lb & Hb). unfold cell_sub.
  rewrite (rangemin_spec _ _ Ha), (rangemax_spec _ _ Ha), (rangemin_spec _ _ Hb), (rangemax_spec _ _ Hb).
  destruct (laminar a La b Lb Ha Hb) as [H|[H|[H|H]]]; lia.
Qed.
Lemma nested' : forall a b, valid a -> valid b -> lo a <= b <= hi a ->
  cell_sub b a /\ s2_CellID_Level a <= s2_CellID_Level b.
Proof.
  intros a b (La & Ha) (Lb & Hb) Hin. unfold cell_sub.
  rewrite (level_spec _ _ Ha), (level_spec _ _ Hb).
  rewrite (rangemin_spec _ _ Ha), (rangemax_spec _ _ Ha) in *. rewrite (rangemin_spec _ _ Hb), (rangemax_spec _ _ Hb).
  destruct (id_in_range_nested a La b Lb Ha Hb Hin) as (H1 & H2 & H3). lia.
Qed.
Lemma contains_true : forall a b, valid a -> valid b -> s2_CellID_Contains a b = true -> lo a <= b <= hi a.
Proof.
  intros a b Ha Hb H. rewrite contains_spec in H by (apply valid_range64; assumption). lia.
Qed.
Lemma contains_false : forall a b, valid a -> valid b -> s2_CellID_Contains a b = false -> ~ (lo a <= b <= hi a).
Proof.
  intros a b Ha Hb H. rewrite contains_spec in H by (apply valid_range64; assumption). lia.
Qed.
Lemma cell_sub_leaf : forall x c o, leaf_in x c -> cell_sub c o -> leaf_in x o.
Proof. unfold leaf_in, cell_sub. intros. lia. Qed.

Lemma SS_app : forall {A} (R : A -> A -> Prop) l1 l2,
  StronglySorted R l1 -> StronglySorted R l2 -> (forall a b, In a l1 -> In b l2 -> R a b) ->
  StronglySorted R (l1 ++ l2).
Proof.
  intros A R. induction l1 as [|a l1 IH]; intros l2 H1 H2 H12; cbn; [exact H2|].
  inversion H1 as [|? ? S1 F1]; subst. constructor.
  - apply IH; auto. intros; apply H12; [right|]; assumption.
  - apply Forall_app. split; [exact F1|]. apply Forall_forall. intros b Hb. apply H12; [left; reflexivity|exact Hb].
Qed.

(* ---------------------------------------------------------------------- *)
(** * descend *)
Lemma children4_normal : forall c L, valid_at c L -> L < 30 ->
  normal (children4 c) /\ Forall (fun k => valid_at k (L + 1) /\ cell_sub k c) (children4 c) /\
  (forall x, is_leaf x -> leaf_in x c -> covered (children4 c) x).
Proof.
  intros c L Hv HL. rewrite (children4_spec c L Hv HL).
  pose proof (child_valid c L 0 Hv HL ltac:(lia)) as V0.
  pose proof (child_valid c L 1 Hv HL ltac:(lia)) as V1.
  pose proof (child_valid c L 2 Hv HL ltac:(lia)) as V2.
  pose proof (child_valid c L 3 Hv HL ltac:(lia)) as V3.
  pose proof (lsbL_step L ltac:(destruct Hv; lia)) as Hstep.
  assert (Ht : 0 < lsbL (L + 1)) by (apply lsbL_pos; destruct Hv; lia).
  assert (R0 := rangemin_spec _ _ V0). assert (R0' := rangemax_spec _ _ V0).
  assert (R1 := rangemin_spec _ _ V1). assert (R1' := rangemax_spec _ _ V1).
  assert (R2 := rangemin_spec _ _ V2). assert (R2' := rangemax_spec _ _ V2).
  assert (R3 := rangemin_spec _ _ V3). assert (R3' := rangemax_spec _ _ V3).
  assert (Rc := rangemin_spec _ _ Hv). assert (Rc' := rangemax_spec _ _ Hv).
  unfold child in *. set (t := lsbL (L + 1)) in *.
  split; [|split].
  - unfold normal.
    repeat (apply SSorted_cons; [|repeat (apply Forall_cons; [lia|]); apply Forall_nil]). apply SSorted_nil.
  - unfold cell_sub. repeat (apply Forall_cons; [split; [assumption|lia]|]). apply Forall_nil.
  - intros x Hx Hin. pose proof (is_leaf_odd x Hx) as Hodd. unfold leaf_in in Hin.
    assert (Hc2 : c mod 2 = 0).
    { destruct Hv as (HL' & Hc & Hm). rewrite Hstep in Hm. fold t in Hm.
      pose proof (Z.div_mod c (2 * (4 * t)) ltac:(lia)) as Hd. rewrite Hm in Hd.
      rewrite Hd. rewrite Z.add_comm.
      replace (2 * (4 * t) * (c / (2 * (4 * t)))) with ((4 * t * (c / (2 * (4 * t)))) * 2) by ring.
      rewrite Z.mod_add by lia. replace (4 * t) with ((2 * t) * 2) by ring. apply Z.mod_mul. lia. }
    assert (Ht2 : (2 * t) mod 2 = 0) by (rewrite Z.mul_comm; apply Z.mod_mul; lia).
    assert (Hx1 : x <> c) by (intro; subst; lia).
    assert (Hx2 : x <> c - 2 * t).
    { intro E. subst x. rewrite <- Zminus_mod_idemp_r, Ht2, Z.sub_0_r in Hodd. lia. }
    assert (Hx3 : x <> c + 2 * t).
    { intro E. subst x. rewrite <- Zplus_mod_idemp_r, Ht2, Z.add_0_r in Hodd. lia. }
    assert (Hcase : x < c - 2 * t \/ c - 2 * t < x < c \/ c < x < c + 2 * t \/ c + 2 * t < x) by lia.
    unfold covered, leaf_in.
    destruct Hcase as [H|[H|[H|H]]];
      [exists (c + (2 * 0 - 3) * t)|exists (c + (2 * 1 - 3) * t)|exists (c + (2 * 2 - 3) * t)|exists (c + (2 * 3 - 3) * t)];
      (split; [cbn; auto 6|lia]).
Qed.

Lemma descend_spec : forall k c L, valid_at c L -> L + Z.of_nat k <= 30 ->
  normal (descend k c) /\
  Forall (fun o => valid_at o (L + Z.of_nat k) /\ cell_sub o c) (descend k c) /\
  (forall x, is_leaf x -> leaf_in x c -> covered (descend k c) x).
Proof.
  induction k as [|k IH]; intros c L Hv HL.
  - cbn [descend]. split; [|split].
    + repeat constructor.
    + constructor; [|constructor]. replace (L + Z.of_nat 0) with L by lia. split; [exact Hv|unfold cell_sub; lia].
    + intros x _ Hin. exists c. split; [left; reflexivity|exact Hin].
  - cbn [descend]. destruct (children4_normal c L Hv ltac:(lia)) as (N4 & F4 & C4).
    assert (Hblocks : forall ci, In ci (children4 c) ->
              normal (descend k ci) /\
              Forall (fun o => valid_at o (L + Z.of_nat (S k)) /\ cell_sub o ci) (descend k ci) /\
              (forall x, is_leaf x -> leaf_in x ci -> covered (descend k ci) x) /\ valid_at ci (L + 1) /\ cell_sub ci c).
    { intros ci Hci. rewrite Forall_forall in F4. destruct (F4 ci Hci) as (Vci & Sci).
      destruct (IH ci (L + 1) Vci ltac:(lia)) as (N & F & C).
      split; [exact N|]. split; [|auto].
      eapply Forall_impl; [|exact F]. intros o (Vo & So). replace (L + Z.of_nat (S k)) with (L + 1 + Z.of_nat k) by lia. auto. }
    split; [|split].
    + (* blocks in order *)
      clear C4 F4. unfold normal in *.
      induction (children4 c) as [|ci rest IHr]; cbn [flat_map]; [constructor|].
      inversion N4 as [|? ? Nrest Fci]; subst.
      apply SS_app.
      * apply Hblocks. left; reflexivity.
      * apply IHr; [exact Nrest|]. intros; apply Hblocks; right; assumption.
      * intros a b Ha Hb. apply in_flat_map in Hb. destruct Hb as (cj & Hcj & Hb).
        destruct (Hblocks ci ltac:(left; reflexivity)) as (_ & Fa & _).
        destruct (Hblocks cj ltac:(right; exact Hcj)) as (_ & Fb & _).
        rewrite Forall_forall in Fa, Fb, Fci.
        destruct (Fa a Ha) as (_ & Sa). destruct (Fb b Hb) as (_ & Sb). specialize (Fci cj Hcj).
        unfold cell_sub in *. lia.
    + apply Forall_forall. intros o Ho. apply in_flat_map in Ho. destruct Ho as (ci & Hci & Ho).
      destruct (Hblocks ci Hci) as (_ & F & _ & _ & Sci). rewrite Forall_forall in F.
      destruct (F o Ho) as (Vo & So). split; [exact Vo|]. unfold cell_sub in *. lia.
    + intros x Hx Hin. destruct (C4 x Hx Hin) as (ci & Hci & Hxi).
      destruct (Hblocks ci Hci) as (_ & _ & C & _). destruct (C x Hx Hxi) as (o & Ho & Hxo).
      exists o. split; [|exact Hxo]. apply in_flat_map. exists ci. auto.
Qed.

(* ---------------------------------------------------------------------- *)
(** * Denormalize *)
Local Ltac Zify.zify_post_hook ::= Z.div_mod_to_equations.

Lemma denorm_level_ge : forall minL md L, 0 <= minL <= 30 -> 1 <= md <= 3 -> 0 <= L <= 30 ->
  L <= denorm_level minL md L <= 30 /\ minL <= denorm_level minL md L.
Proof.
  intros minL md L Hmin Hmd HL. unfold denorm_level.
  set (nl := if L <? minL then minL else L).
  assert (Hnl : minL <= nl <= 30 /\ L <= nl) by (unfold nl; destruct (Z.ltb_spec L minL); lia).
  clearbody nl.
  destruct (Z.gtb_spec md 1); [|lia].
  rewrite Z.rem_mod_nonneg by lia.
  pose proof (Z.mod_pos_bound (30 - (nl - minL)) md ltac:(lia)).
  destruct (Z.gtb_spec (nl + (30 - (nl - minL)) mod md) 30); lia.
Qed.

Definition denorm_block (minL md id : Z) : list Z :=
  descend (Z.to_nat (denorm_level minL md (s2_CellID_Level id) - s2_CellID_Level id)) id.

Lemma cu_Denormalize_blocks : forall minL md l,
  cu_Denormalize minL md l = flat_map (denorm_block minL md) l.
Proof.
  intros minL md l. unfold cu_Denormalize. apply flat_map_ext. intros id. unfold denorm_block.
  destruct (Z.eqb_spec (denorm_level minL md (s2_CellID_Level id)) (s2_CellID_Level id)) as [E|E]; [|reflexivity].
  rewrite E, Z.sub_diag. reflexivity.
Qed.

Lemma denorm_block_spec : forall minL md id L, 0 <= minL <= 30 -> 1 <= md <= 3 -> valid_at id L ->
  normal (denorm_block minL md id) /\
  Forall (fun o => valid_at o (denorm_level minL md L) /\ cell_sub o id) (denorm_block minL md id) /\
  (forall x, is_leaf x -> leaf_in x id -> covered (denorm_block minL md id) x).
Proof.
  intros minL md id L Hmin Hmd Hv. unfold denorm_block. rewrite (level_spec _ _ Hv).
  destruct (denorm_level_ge minL md L Hmin Hmd ltac:(destruct Hv; lia)) as (H1 & H2).
  destruct (descend_spec (Z.to_nat (denorm_level minL md L - L)) id L Hv ltac:(lia)) as (N & F & C).
  split; [exact N|]. split; [|exact C].
  eapply Forall_impl; [|exact F]. intros o (Vo & So).
  replace (L + Z.of_nat (Z.to_nat (denorm_level minL md L - L))) with (denorm_level minL md L) in Vo by lia. auto.
Qed.

Lemma denormalize_valid : forall minL md l, 0 <= minL <= 30 -> 1 <= md <= 3 -> all_valid l ->
  all_valid (cu_Denormalize minL md l).
Proof.
  intros minL md l Hmin Hmd Vl. rewrite cu_Denormalize_blocks. unfold all_valid in *.
  rewrite Forall_forall in *. intros o Ho. apply in_flat_map in Ho. destruct Ho as (id & Hid & Ho).
  destruct (Vl id Hid) as (L & Hv). destruct (denorm_block_spec minL md id L Hmin Hmd Hv) as (_ & F & _).
  rewrite Forall_forall in F. destruct (F o Ho) as (Vo & _). eexists; exact Vo.
Qed.
Lemma denormalize_covers : forall minL md l, 0 <= minL <= 30 -> 1 <= md <= 3 -> all_valid l ->
  forall x, is_leaf x -> covered l x -> covered (cu_Denormalize minL md l) x.
Proof.
  intros minL md l Hmin Hmd Vl x Hx (id & Hid & Hin). rewrite cu_Denormalize_blocks.
  unfold all_valid in Vl. rewrite Forall_forall in Vl. destruct (Vl id Hid) as (L & Hv).
  destruct (denorm_block_spec minL md id L Hmin Hmd Hv) as (_ & _ & C).
  destruct (C x Hx Hin) as (o & Ho & Hxo). exists o. split; [|exact Hxo]. apply in_flat_map. exists id; auto.
Qed.
Lemma denormalize_sub : forall minL md l, 0 <= minL <= 30 -> 1 <= md <= 3 -> all_valid l ->
  forall x, covered (cu_Denormalize minL md l) x -> covered l x.
Proof.
  intros minL md l Hmin Hmd Vl x (o & Ho & Hxo). rewrite cu_Denormalize_blocks in Ho.
  apply in_flat_map in Ho. destruct Ho as (id & Hid & Ho).
  unfold all_valid in Vl. rewrite Forall_forall in Vl. destruct (Vl id Hid) as (L & Hv).
  destruct (denorm_block_spec minL md id L Hmin Hmd Hv) as (_ & F & _). rewrite Forall_forall in F.
  destruct (F o Ho) as (_ & So). exists id. split; [exact Hid|]. eapply cell_sub_leaf; eauto.
Qed.
Lemma denormalize_normal : forall minL md l, 0 <= minL <= 30 -> 1 <= md <= 3 -> all_valid l ->
  normal l -> normal (cu_Denormalize minL md l).
Proof.
  intros minL md l Hmin Hmd Vl Nl. rewrite cu_Denormalize_blocks. unfold normal, all_valid in *.
  induction l as [|id l IH]; cbn [flat_map]; [constructor|].
  inversion Vl as [|? ? (L & Hv) Vl']; subst. inversion Nl as [|? ? Nl' Fid]; subst.
  destruct (denorm_block_spec minL md id L Hmin Hmd Hv) as (N & F & _).
  apply SS_app; [exact N|apply IH; assumption|].
  intros a b Ha Hb. apply in_flat_map in Hb. destruct Hb as (id' & Hid' & Hb).
  rewrite Forall_forall in Vl', Fid, F. destruct (Vl' id' Hid') as (L' & Hv').
  destruct (denorm_block_spec minL md id' L' Hmin Hmd Hv') as (_ & F' & _). rewrite Forall_forall in F'.
  destruct (F a Ha) as (_ & Sa). destruct (F' b Hb) as (_ & Sb). specialize (Fid id' Hid').
  unfold cell_sub in *. lia.
Qed.
Lemma denormalize_level : forall minL md l, 0 <= minL <= 30 -> 1 <= md <= 3 -> all_valid l ->
  forall o, In o (cu_Denormalize minL md l) ->
  exists c, In c l /\ cell_sub o c /\ s2_CellID_Level o = denorm_level minL md (s2_CellID_Level c).
Proof.
  intros minL md l Hmin Hmd Vl o Ho. rewrite cu_Denormalize_blocks in Ho.
  apply in_flat_map in Ho. destruct Ho as (id & Hid & Ho).
  unfold all_valid in Vl. rewrite Forall_forall in Vl. destruct (Vl id Hid) as (L & Hv).
  destruct (denorm_block_spec minL md id L Hmin Hmd Hv) as (_ & F & _). rewrite Forall_forall in F.
  destruct (F o Ho) as (Vo & So). exists id. split; [exact Hid|]. split; [exact So|].
  rewrite (level_spec _ _ Vo), (level_spec _ _ Hv). reflexivity.
Qed.

(* ---------------------------------------------------------------------- *)
(** * Normalize *)

(** the output so far, last accepted cell first: valid cells, each strictly above all earlier ones *)
Definition below (rout : list Z) : Prop := StronglySorted (fun later earlier => hi earlier < lo later) rout.
Definition RInv (rout : list Z) : Prop := Forall valid rout /\ below rout.

Lemma covered_cons : forall c l x, covered (c :: l) x <-> leaf_in x c \/ covered l x.
Proof.
  intros c l x. unfold covered. split.
  - intros (c' & [<-|Hin] & Hx); [left; exact Hx|right; exists c'; auto].
  - intros [Hx|(c' & Hin & Hx)]; [exists c; split; [left; reflexivity|exact Hx]|exists c'; split; [right; exact Hin|exact Hx]].
Qed.
Lemma covered_app' : forall l1 l2 x, covered (l1 ++ l2) x <-> covered l1 x \/ covered l2 x.
Proof.
  intros l1 l2 x. unfold covered. split.
  - intros (c & Hin & Hx). apply in_app_or in Hin. destruct Hin; [left|right]; exists c; auto.
  - intros [(c & Hin & Hx)|(c & Hin & Hx)]; exists c; split; auto; apply in_or_app; auto.
Qed.

Lemma pop_spec : forall ci rout, valid ci -> RInv rout -> (forall o, In o rout -> o <= ci) ->
  (forall o, hd_error rout = Some o -> ~ cell_sub ci o) ->
  exists popped, rout = popped ++ pop_contained ci rout /\
    Forall (fun e => cell_sub e ci) popped /\ Forall (fun e => hi e < lo ci) (pop_contained ci rout).
Proof.
  intros ci rout Vci. induction rout as [|o r IH]; intros (Vr & Br) Hle Hhd.
  - exists []. cbn. repeat split; constructor.
  - inversion Vr as [|? ? Vo Vr']; subst. inversion Br as [|? ? Br' Fo]; subst.
    cbn [pop_contained]. destruct (s2_CellID_Contains ci o) eqn:Ec.
    + pose proof (contains_true ci o Vci Vo Ec) as Hin. destruct (nested' ci o Vci Vo Hin) as (Sub & _).
      destruct (IH (conj Vr' Br')) as (popped & E & Fp & Fr).
      * intros o' Ho'. apply Hle. right; exact Ho'.
      * intros o' Ho'. destruct r as [|o'' r']; [discriminate|]. injection Ho' as ->.
        intro Sub'. (* o inside ci inside o', but o' lies strictly below o *)
        rewrite Forall_forall in Fo. specialize (Fo o' ltac:(left; reflexivity)).
        pose proof (valid_lo_hi o Vo). unfold cell_sub in *. lia.
      * exists (o :: popped). split; [cbn; f_equal; exact E|]. split; [constructor; assumption|exact Fr].
    + exists []. cbn [app]. split; [reflexivity|]. split; [constructor|].
      pose proof (contains_false ci o Vci Vo Ec) as Hnin.
      pose proof (valid_lo_hi o Vo) as Ho. pose proof (valid_lo_hi ci Vci) as Hci.
      specialize (Hle o ltac:(left; reflexivity)). specialize (Hhd o eq_refl).
      assert (Hoc : hi o < lo ci).
      { destruct (laminar' o ci Vo Vci) as [H|[H|[H|H]]]; [exact H|lia| |unfold cell_sub in H; lia].
        exfalso. apply Hhd. exact H. }
      constructor; [exact Hoc|].
      rewrite Forall_forall in *. intros e He. specialize (Fo e He). lia.
Qed.

Lemma below_cons : forall c rout, Forall (fun e => hi e < lo c) rout -> below rout -> below (c :: rout).
Proof. intros. constructor; assumption. Qed.

Lemma collapse_spec : forall fuel rout c, RInv (c :: rout) ->
  let '(r2, c') := collapse_siblings fuel rout c in
  RInv (c' :: r2) /\
  (forall x, covered (c :: rout) x -> covered (c' :: r2) x) /\
  (forall x, is_leaf x -> covered (c' :: r2) x -> covered (c :: rout) x) /\
  (forall o, In o r2 -> In o rout) /\
  cell_sub c c' /\ s2_CellID_Level c' <= s2_CellID_Level c /\ c' <= c.
Proof.
  assert (Base : forall rout c, RInv (c :: rout) ->
            RInv (c :: rout) /\
            (forall x, covered (c :: rout) x -> covered (c :: rout) x) /\
            (forall x, is_leaf x -> covered (c :: rout) x -> covered (c :: rout) x) /\
            (forall o, In o rout -> In o rout) /\
            cell_sub c c /\ s2_CellID_Level c <= s2_CellID_Level c /\ c <= c).
  { intros rout c H. split; [exact H|]. unfold cell_sub. repeat split; auto; lia. }
  induction fuel as [|fuel IH]; intros rout c Hinv; cbn [collapse_siblings].
  - apply Base; exact Hinv.
  - destruct rout as [|o1 [|o2 [|o3 r]]]; try (apply Base; exact Hinv).
    destruct (s2_areSiblings o3 o2 o1 c) eqn:Esib; [|apply Base; exact Hinv].
    destruct Hinv as (Vall & Ball).
    inversion Vall as [|? ? Vc V1]; subst. inversion V1 as [|? ? Vo1 V2]; subst.
    inversion V2 as [|? ? Vo2 V3]; subst. inversion V3 as [|? ? Vo3 Vr]; subst.
    inversion Ball as [|? ? B1 Fc]; subst. inversion B1 as [|? ? B2 F1]; subst.
    inversion B2 as [|? ? B3 F2]; subst. inversion B3 as [|? ? Br F3]; subst.
    destruct Vc as (L & Vc).
    destruct (areSiblings_spec o3 o2 o1 c L (valid_range64 _ Vo3) (valid_range64 _ Vo2) (valid_range64 _ Vo1) Vc Esib)
      as (HL0 & _ & Hall).
    set (p := s2_CellID_Parent c (L - 1)).
    assert (Vp : valid_at p (L - 1)) by (apply (parent_valid c L); [exact Vc|destruct Vc; lia]).
    assert (HpL : L - 1 < 30) by (destruct Vc; lia).
    (* strictly increasing ids *)
    pose proof (valid_lo_hi o1 Vo1) as R1. pose proof (valid_lo_hi o2 Vo2) as R2.
    pose proof (valid_lo_hi o3 Vo3) as R3. pose proof (valid_lo_hi c ltac:(exists L; exact Vc)) as Rc.
    inversion Fc as [|? ? Fc1 Fc']; subst. inversion F1 as [|? ? F12 F1']; subst. inversion F2 as [|? ? F23 F2']; subst.
    assert (Hfour : o3 = child p (L - 1) 0 /\ o2 = child p (L - 1) 1 /\ o1 = child p (L - 1) 2 /\ c = child p (L - 1) 3).
    { apply (four_children p (L - 1) o3 o2 o1 c Vp HpL); try lia.
      intros e He. replace (L - 1 + 1) with L by ring.
      destruct He as [->|[->|[->| ->]]].
      - destruct (Hall o3 ltac:(auto)) as (Ve & Pe). split; assumption.
      - destruct (Hall o2 ltac:(auto)) as (Ve & Pe). split; assumption.
      - destruct (Hall o1 ltac:(auto)) as (Ve & Pe). split; assumption.
      - split; [exact Vc|reflexivity]. }
    destruct Hfour as (E3 & E2 & E1 & Ec).
    destruct (children4_normal p (L - 1) Vp HpL) as (_ & F4 & C4).
    rewrite (children4_spec p (L - 1) Vp HpL) in F4, C4. rewrite <- E3, <- E2, <- E1, <- Ec in F4, C4.
    pose proof (Forall_inv F4) as (_ & S3).
    pose proof (Forall_inv (Forall_inv_tail F4)) as (_ & S2).
    pose proof (Forall_inv (Forall_inv_tail (Forall_inv_tail F4))) as (_ & S1).
    pose proof (Forall_inv (Forall_inv_tail (Forall_inv_tail (Forall_inv_tail F4)))) as (_ & Sc).
    rewrite (immediateParent_spec c L Vc HL0). fold p.
    (* lo p = lo o3 *)
    assert (Hlo : lo p = lo o3).
    { rewrite (rangemin_spec _ _ Vp). destruct (Hall o3 ltac:(auto)) as (Ve & _).
      rewrite (rangemin_spec _ _ Ve). rewrite E3. unfold child. replace (L - 1 + 1) with L by ring.
      rewrite (lsbL_step (L - 1)) by (destruct Vc; lia). replace (L - 1 + 1) with L by ring. lia. }
    assert (Hinv' : RInv (p :: r)).
    { split; [constructor; [exists (L - 1); exact Vp|exact Vr]|].
      apply below_cons; [|exact Br]. rewrite Hlo. exact F3. }
    specialize (IH r p Hinv'). destruct (collapse_siblings fuel r p) as (r2, c').
    destruct IH as (I1 & I2 & I3 & I4 & I5 & I6 & I7).
    assert (Lp : s2_CellID_Level p <= s2_CellID_Level c) by (rewrite (level_spec _ _ Vp), (level_spec _ _ Vc); lia).
    assert (Hpc : p <= c).
    { pose proof (lsbL_pos (L - 1 + 1) ltac:(destruct Vc; lia)) as Hpos. clearbody p. rewrite Ec. unfold child. lia. }
    split; [exact I1|]. split; [|split; [|split; [|split; [|split]]]].
    + intros x Hx. apply I2. apply covered_cons.
      apply covered_cons in Hx. destruct Hx as [Hx|Hx]; [left; eapply cell_sub_leaf; eauto|].
      apply covered_cons in Hx. destruct Hx as [Hx|Hx]; [left; eapply cell_sub_leaf; eauto|].
      apply covered_cons in Hx. destruct Hx as [Hx|Hx]; [left; eapply cell_sub_leaf; eauto|].
      apply covered_cons in Hx. destruct Hx as [Hx|Hx]; [left; eapply cell_sub_leaf; eauto|right; exact Hx].
    + intros x Hleaf Hx. specialize (I3 x Hleaf Hx). apply covered_cons in I3. destruct I3 as [Hxp|Hxr].
      * destruct (C4 x Hleaf Hxp) as (k & Hk & Hxk). cbn in Hk.
        destruct Hk as [<-|[<-|[<-|[<-|[]]]]].
        -- apply covered_cons; right. apply covered_cons; right. apply covered_cons; right. apply covered_cons; left; exact Hxk.
        -- apply covered_cons; right. apply covered_cons; right. apply covered_cons; left; exact Hxk.
        -- apply covered_cons; right. apply covered_cons; left; exact Hxk.
        -- apply covered_cons; left; exact Hxk.
      * apply covered_cons; right. apply covered_cons; right. apply covered_cons; right. apply covered_cons; right. exact Hxr.
    + intros o Ho. right; right; right. apply I4. exact Ho.
    + unfold cell_sub in *. lia.
    + lia.
    + lia.
Qed.

(** one step of the Normalize loop *)
Lemma normalize_step_spec : forall rout ci, valid ci -> RInv rout -> (forall o, In o rout -> o <= ci) ->
  RInv (normalize_step rout ci) /\
  (forall x, covered rout x \/ leaf_in x ci -> covered (normalize_step rout ci) x) /\
  (forall x, is_leaf x -> covered (normalize_step rout ci) x -> covered rout x \/ leaf_in x ci) /\
  (forall o, In o (normalize_step rout ci) ->
     In o rout \/ (cell_sub ci o /\ s2_CellID_Level o <= s2_CellID_Level ci /\ o <= ci)).
Proof.
  intros rout ci Vci Hinv Hle. unfold normalize_step.
  destruct rout as [|o r].
  - split; [split; [constructor; [exact Vci|constructor]|repeat constructor]|].
    split; [intros x [(c & [] & _)|Hx]; apply covered_cons; left; exact Hx|].
    split; [intros x _ Hx; apply covered_cons in Hx; destruct Hx as [Hx|(c & [] & _)]; right; exact Hx|].
    intros o' [<-|[]]. right. unfold cell_sub. lia.
  - destruct Hinv as (Vr & Br). pose proof Vr as Vr0. inversion Vr as [|? ? Vo Vr']; subst.
    destruct (s2_CellID_Contains o ci) eqn:Ec.
    + pose proof (contains_true o ci Vo Vci Ec) as Hin. destruct (nested' o ci Vo Vci Hin) as (Sub & _).
      split; [split; assumption|].
      split; [intros x [Hx|Hx]; [exact Hx|apply covered_cons; left; eapply cell_sub_leaf; eauto]|].
      split; [intros x _ Hx; left; exact Hx|]. intros o' Ho'. left; exact Ho'.
    + pose proof (contains_false o ci Vo Vci Ec) as Hnin.
      destruct (pop_spec ci (o :: r) Vci (conj Vr0 Br) Hle) as (popped & E & Fp & Fr).
      { intros o' Ho'. injection Ho' as <-. intro Sub. pose proof (valid_lo_hi ci Vci). unfold cell_sub in Sub. lia. }
      set (rout1 := pop_contained ci (o :: r)) in *.
      assert (V1 : Forall valid rout1).
      { rewrite E in Vr0. apply Forall_app in Vr0. tauto. }
      assert (B1 : below rout1).
      { unfold below in *. rewrite E in Br. clear -Br. induction popped as [|a popped IH]; [exact Br|].
        inversion Br; subst. apply IH. assumption. }
      pose proof (collapse_spec (length rout1) rout1 ci
                    (conj (Forall_cons _ Vci V1) (below_cons ci rout1 Fr B1))) as Hc.
      destruct (collapse_siblings (length rout1) rout1 ci) as (rout2, ci').
      destruct Hc as (I1 & I2 & I3 & I4 & I5 & I6 & I7).
      split; [exact I1|]. split; [|split].
      * intros x [Hx|Hx]; apply I2; apply covered_cons.
        -- rewrite E in Hx. apply covered_app' in Hx. destruct Hx as [(e & He & Hxe)|Hx]; [left|right; exact Hx].
           rewrite Forall_forall in Fp. eapply cell_sub_leaf; [exact Hxe|apply Fp; exact He].
        -- left; exact Hx.
      * intros x Hleaf Hx. specialize (I3 x Hleaf Hx). apply covered_cons in I3.
        destruct I3 as [Hx'|Hx']; [right; exact Hx'|left].
        rewrite E. apply covered_app'. right; exact Hx'.
      * intros o' [<-|Ho']; [right; auto|left].
        rewrite E. apply in_or_app. right. apply I4. exact Ho'.
Qed.

Lemma normalize_fold_spec : forall inp rout, StronglySorted Z.le inp -> Forall valid inp -> RInv rout ->
  (forall o c, In o rout -> In c inp -> o <= c) ->
  let out := fold_left normalize_step inp rout in
  RInv out /\
  (forall x, covered rout x \/ covered inp x -> covered out x) /\
  (forall x, is_leaf x -> covered out x -> covered rout x \/ covered inp x) /\
  (forall o, In o out -> In o rout \/ exists c, In c inp /\ cell_sub c o /\ s2_CellID_Level o <= s2_CellID_Level c).
Proof.
  induction inp as [|ci inp IH]; intros rout Hs Vi Hinv Hle; cbn [fold_left].
  - split; [exact Hinv|]. split; [intros x [Hx|(c & [] & _)]; exact Hx|].
    split; [intros x _ Hx; left; exact Hx|]. intros o Ho; left; exact Ho.
  - inversion Hs as [|? ? Hs' Fci]; subst. inversion Vi as [|? ? Vci Vi']; subst.
    destruct (normalize_step_spec rout ci Vci Hinv) as (S1 & S2 & S3 & S4).
    { intros o Ho. apply Hle; [exact Ho|left; reflexivity]. }
    specialize (IH (normalize_step rout ci) Hs' Vi' S1).
    destruct IH as (J1 & J2 & J3 & J4).
    { intros o c Ho Hc. destruct (S4 o Ho) as [Ho'|(_ & _ & Hoc)].
      - apply Hle; [exact Ho'|right; exact Hc].
      - rewrite Forall_forall in Fci. specialize (Fci c Hc). lia. }
    split; [exact J1|]. split; [|split].
    + intros x [Hx|Hx]; apply J2.
      * left. apply S2. left; exact Hx.
      * apply covered_cons in Hx. destruct Hx as [Hx|Hx]; [left; apply S2; right; exact Hx|right; exact Hx].
    + intros x Hleaf Hx. destruct (J3 x Hleaf Hx) as [Hx'|Hx'].
      * destruct (S3 x Hleaf Hx') as [H|H]; [left; exact H|right; apply covered_cons; left; exact H].
      * right. apply covered_cons. right; exact Hx'.
    + intros o Ho. destruct (J4 o Ho) as [Ho'|(c & Hc & Hsub & Hlev)].
      * destruct (S4 o Ho') as [H|(Hsub & Hlev & _)]; [left; exact H|right; exists ci; split; [left; reflexivity|auto]].
      * right. exists c. split; [right; exact Hc|auto].
Qed.

Lemma sort_facts : forall l, Permutation l (sortCellIDs l) /\ StronglySorted Z.le (sortCellIDs l).
Proof.
  intros l. unfold sortCellIDs. split; [apply ZSort.Permuted_sort|].
  assert (T : Relations_1.Transitive (fun x y => is_true (ZOrder.leb x y))).
  { intros x y z. unfold ZOrder.leb, is_true. rewrite !Z.leb_le. lia. }
  pose proof (ZSort.StronglySorted_sort l T) as H.
  eapply StronglySorted_ind with (P := fun l => StronglySorted Z.le l); [constructor| |exact H].
  intros a l' _ IH Fa. constructor; [exact IH|].
  eapply Forall_impl; [|exact Fa]. intros b Hb. unfold ZOrder.leb, is_true in Hb. apply Z.leb_le. exact Hb.
Qed.

Lemma normalize_all : forall l, all_valid l ->
  RInv (rev (cu_Normalize l)) /\
  (forall x, covered l x -> covered (cu_Normalize l) x) /\
  (forall x, is_leaf x -> covered (cu_Normalize l) x -> covered l x) /\
  (forall o, In o (cu_Normalize l) -> exists c, In c l /\ cell_sub c o /\ s2_CellID_Level o <= s2_CellID_Level c).
Proof.
  intros l Vl. destruct (sort_facts l) as (P & S). unfold cu_Normalize. rewrite rev_involutive.
  assert (Vs : Forall valid (sortCellIDs l)) by (eapply Permutation_Forall; eauto).
  destruct (normalize_fold_spec (sortCellIDs l) [] S Vs (conj (Forall_nil _) (SSorted_nil _))) as (J1 & J2 & J3 & J4).
  { intros o c []. }
  split; [exact J1|]. split; [|split].
  - intros x (c & Hc & Hx). destruct (J2 x) as (o & Ho & Hxo).
    + right. exists c. split; [eapply Permutation_in; eauto|exact Hx].
    + exists o. split; [rewrite <- in_rev; exact Ho|exact Hxo].
  - intros x Hleaf (o & Ho & Hxo). rewrite <- in_rev in Ho.
    destruct (J3 x Hleaf) as [(c & [] & _)|(c & Hc & Hx)].
    + exists o. split; [exact Ho|exact Hxo].
    + exists c. split; [eapply Permutation_in; [apply Permutation_sym; exact P|exact Hc]|exact Hx].
  - intros o Ho. rewrite <- in_rev in Ho. destruct (J4 o Ho) as [[]|(c & Hc & H)].
    exists c. split; [eapply Permutation_in; [apply Permutation_sym; exact P|exact Hc]|exact H].
Qed.

Lemma normalize_valid : forall l, all_valid l -> all_valid (cu_Normalize l).
Proof.
  intros l Vl. destruct (normalize_all l Vl) as ((V & _) & _). unfold all_valid.
  apply Forall_forall. intros o Ho. rewrite Forall_forall in V. apply V. rewrite <- in_rev. exact Ho.
Qed.
Lemma normalize_covers : forall l, all_valid l -> forall x, covered l x -> covered (cu_Normalize l) x.
Proof. intros l Vl. apply (normalize_all l Vl). Qed.
Lemma normalize_sub : forall l, all_valid l -> forall x, is_leaf x -> covered (cu_Normalize l) x -> covered l x.
Proof. intros l Vl. apply (normalize_all l Vl). Qed.
Lemma normalize_level : forall l, all_valid l -> forall o, In o (cu_Normalize l) ->
  exists c, In c l /\ cell_sub c o /\ s2_CellID_Level o <= s2_CellID_Level c.
Proof. intros l Vl. apply (normalize_all l Vl). Qed.

Lemma below_rev_normal : forall l, below (rev l) -> normal l.
Proof.
  unfold below, normal. induction l as [|a l IH]; intros H; [constructor|].
  cbn [rev] in H.
  assert (Hsplit : forall (l1 : list Z) b, StronglySorted (fun later earlier => hi earlier < lo later) (l1 ++ [b]) ->
             StronglySorted (fun later earlier => hi earlier < lo later) l1 /\ Forall (fun e => hi b < lo e) l1).
  { induction l1 as [|c l1 IH1]; intros b Hb; cbn in *; [split; constructor|].
    inversion Hb as [|? ? Hb' Fc]; subst. destruct (IH1 b Hb') as (S1 & F1).
    apply Forall_app in Fc. destruct Fc as (Fc1 & Fc2). inversion Fc2; subst.
    split; [constructor; assumption|constructor; assumption]. }
  destruct (Hsplit (rev l) a H) as (S1 & F1).
  constructor; [apply IH; exact S1|].
  apply Forall_forall. intros e He. rewrite Forall_forall in F1. apply F1. rewrite <- in_rev. exact He.
Qed.
Lemma normalize_normal : forall l, all_valid l -> normal (cu_Normalize l).
Proof. intros l Vl. destruct (normalize_all l Vl) as ((_ & B) & _). apply below_rev_normal. exact B. Qed.
