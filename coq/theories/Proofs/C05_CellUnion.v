(** C05 — CellUnion.Normalize / Denormalize (Model/Coverer.v: cu_Normalize, cu_Denormalize)
    with respect to leaf sets, validity, order and levels.  Uses only Proofs/C05_CellFacts.v. *)
From Coq Require Import ZArith List Bool Lia Sorting.Sorted Sorting.Permutation.
From Coq Require Import ZifyBool.
From Geo Require Import Base.GoPrim Gen.CellIDCov Model.Coverer Proofs.C05_CellFacts.
Import ListNotations.
Local Open Scope Z_scope.

Definition all_valid (l : list Z) : Prop := Forall valid l.
(** the leaf range of [c] lies in that of [o] *)
Definition cell_sub (c o : Z) : Prop :=
  s2_CellID_RangeMin o <= s2_CellID_RangeMin c /\ s2_CellID_RangeMax c <= s2_CellID_RangeMax o.
(** ascending with pairwise disjoint leaf ranges (what Normalize returns) *)
Definition normal (l : list Z) : Prop :=
  StronglySorted (fun a b => s2_CellID_RangeMax a < s2_CellID_RangeMin b) l.

(* ---------------------------------------------------------------------- *)
(** * Normalize *)
Lemma normalize_valid : forall l, all_valid l -> all_valid (cu_Normalize l).
Admitted.
Lemma normalize_covers : forall l, all_valid l -> forall x, covered l x -> covered (cu_Normalize l) x.
Admitted.
(** nothing is added: a leaf of the output is a leaf of the input *)
Lemma normalize_sub : forall l, all_valid l -> forall x, is_leaf x -> covered (cu_Normalize l) x -> covered l x.
Admitted.
Lemma normalize_normal : forall l, all_valid l -> normal (cu_Normalize l).
Admitted.
(** every output cell contains an input cell that is at least as deep *)
Lemma normalize_level : forall l, all_valid l -> forall o, In o (cu_Normalize l) ->
  exists c, In c l /\ cell_sub c o /\ s2_CellID_Level o <= s2_CellID_Level c.
Admitted.

(* ---------------------------------------------------------------------- *)
(** * Denormalize *)
Lemma denorm_level_ge : forall minL md L, 0 <= minL <= 30 -> 1 <= md <= 3 -> 0 <= L <= 30 ->
  L <= denorm_level minL md L <= 30 /\ minL <= denorm_level minL md L.
Admitted.
Lemma denormalize_valid : forall minL md l, 0 <= minL <= 30 -> 1 <= md <= 3 -> all_valid l ->
  all_valid (cu_Denormalize minL md l).
Admitted.
Lemma denormalize_covers : forall minL md l, 0 <= minL <= 30 -> 1 <= md <= 3 -> all_valid l ->
  forall x, is_leaf x -> covered l x -> covered (cu_Denormalize minL md l) x.
Admitted.
Lemma denormalize_sub : forall minL md l, 0 <= minL <= 30 -> 1 <= md <= 3 -> all_valid l ->
  forall x, covered (cu_Denormalize minL md l) x -> covered l x.
Admitted.
Lemma denormalize_normal : forall minL md l, 0 <= minL <= 30 -> 1 <= md <= 3 -> all_valid l ->
  normal l -> normal (cu_Denormalize minL md l).
Admitted.
(** every output cell descends from an input cell c and sits at level denorm_level (Level c) *)
Lemma denormalize_level : forall minL md l, 0 <= minL <= 30 -> 1 <= md <= 3 -> all_valid l ->
  forall o, In o (cu_Denormalize minL md l) ->
  exists c, In c l /\ cell_sub o c /\ s2_CellID_Level o = denorm_level minL md (s2_CellID_Level c).
Admitted.
