(** C02, float stages: triageSign, stableSign, the triageCompare* functions and
    triageSignDotProd are sound with respect to the exact quantities UNDER NAMED HYPOTHESES
    about float64 arithmetic (DESIGN.md section 4); with them RobustSign, CompareDistances,
    CompareDistance and SignDotProd equal the exact stages, and every law of
    Proofs/C02_Exact.v transfers.

    The hypotheses speak about floating-point expressions only (the translated r3.Vector
    operations / float stages), never about control flow. The error constants of
    stableSign (and of triageSign / triageSignDotProd, whose hypotheses are now discharged in
    C02_TriageDet.v / C02_RelErr.v) are NOT part of the hypotheses: the
    hypotheses are stated for fixed dyadic bounds ([K_TRIAGE], [K_STABLE], [K_DOT]) and the
    constants found in the generated code are compared with them by computation
    ([triage_const_ok], [stable_const_ok], [dot_const_ok]) — shrinking a constant in the
    Go source breaks that closed inequality. *)
From Coq Require Import ZArith Reals Floats Lra Lia Bool List Psatz.
From Flocq Require Import Core.Core IEEE754.BinarySingleNaN IEEE754.PrimFloat.
From Geo Require Import Base.GoPrim Base.F64 Base.Exact Gen.R3 Gen.S2Pred Model.Pred Proofs.C02_Exact.
Local Open Scope R_scope.

(** * A few more facts about float comparisons *)
Lemma ltb_true_nonnan x y : PrimFloat.ltb x y = true -> nonnan x /\ nonnan y.
Proof.
  unfold nonnan. rewrite !go_isnan_equiv, ltb_equiv.
  destruct (Prim2B x) as [s|s| |s m e He]; destruct (Prim2B y) as [s'|s'| |s' m' e' He']; simpl;
  try discriminate; auto.
Qed.
Lemma leb_true_nonnan x y : PrimFloat.leb x y = true -> nonnan x /\ nonnan y.
Proof.
  unfold nonnan. rewrite !go_isnan_equiv, leb_equiv.
  destruct (Prim2B x) as [s|s| |s m e He]; destruct (Prim2B y) as [s'|s'| |s' m' e' He']; simpl;
  try discriminate; auto.
Qed.
Lemma ltb_true_R x y : PrimFloat.ltb x y = true -> rank x < rank y.
Proof. intros H. destruct (ltb_true_nonnan x y H). now apply ltb_true_iff. Qed.

Lemma rank_opp x : rank (PrimFloat.opp x) = - rank x.
Proof.
  unfold rank. rewrite opp_equiv.
  destruct (Prim2B x) as [s|s| |s m e He].
  - simpl. lra.
  - destruct s; simpl; lra.
  - simpl. lra.
  - change (rankB (Bopp (B754_finite s m e He))) with (B2R (Bopp (B754_finite s m e He))).
    rewrite B2R_Bopp. reflexivity.
Qed.
Lemma nonnan_opp x : nonnan x -> nonnan (PrimFloat.opp x).
Proof.
  unfold nonnan. rewrite !go_isnan_equiv, opp_equiv. destruct (Prim2B x); simpl; auto.
Qed.
Lemma rank_abs x : rank (PrimFloat.abs x) = Rabs (rank x).
Proof.
  unfold rank. rewrite abs_equiv. pose proof top_pos as Ht.
  destruct (Prim2B x) as [s|s| |s m e He].
  - simpl. now rewrite Rabs_R0.
  - destruct s; simpl; [rewrite Rabs_Ropp|]; rewrite Rabs_pos_eq; lra.
  - simpl. now rewrite Rabs_R0.
  - change (rankB (Babs (B754_finite s m e He))) with (B2R (Babs (B754_finite s m e He))).
    rewrite B2R_Babs. reflexivity.
Qed.
Lemma nonnan_abs x : nonnan x -> nonnan (PrimFloat.abs x).
Proof.
  unfold nonnan. rewrite !go_isnan_equiv, abs_equiv. destruct (Prim2B x); simpl; auto.
Qed.

(** unit length up to the library's tolerance, in exact arithmetic: | |v|^2 - 1 | <= 2^-44
    (5.7e-14; r3.Vector.IsUnit accepts |fl(|v|^2) - 1| <= 5e-14) *)
Definition unit_pt (p : s2_Point) : Prop := finite p /\ Rabs (norm2R p - 1) <= / 2 ^ 44.

Lemma unit_norm_pos p : unit_pt p -> 0 < norm2R p.
Proof.
  intros [_ H]. apply Rabs_le_inv in H.
  lra.
Qed.

(** * Closed comparisons between dyadic constants, decided by computation *)
Lemma dle_by_compute a b : Z.eqb (dcmp b a) (-1) = false -> D2R a <= D2R b.
Proof.
  rewrite dcmp_correct. intros H. destruct (sgnR_cases (D2R b - D2R a)) as [[Hl E]|[[Hl E]|[Hl E]]];
  rewrite E in H; try discriminate; lra.
Qed.
Lemma FR_le_by_compute (k : dyadic) (x : PrimFloat.float) :
  Z.eqb (dcmp (of_float x) k) (-1) = false -> D2R k <= FR x.
Proof. intros H. rewrite of_float_correct. now apply dle_by_compute. Qed.
Lemma FR_opp_by_compute (x y : PrimFloat.float) :
  deqb (of_float y) (dopp (of_float x)) = true -> FR y = - FR x.
Proof. intros H. apply deqb_true_iff in H. rewrite D2R_opp, <- !of_float_correct in H. exact H. Qed.
Lemma rank_zero : rank 0%float = 0.
Proof. unfold rank. change 0%float with PrimFloat.zero. rewrite zero_equiv, Prim2B_B2Prim. reflexivity. Qed.

(** * triageSign *)
Definition fdet (a b c : s2_Point) : PrimFloat.float :=
  r3_Vector_Dot (r3_Vector_Cross (s2_Point_Vector a) (s2_Point_Vector b)) (s2_Point_Vector c).
Definition triage_with (K Kn : PrimFloat.float) (a b c : s2_Point) : Z :=
  let det := fdet a b c in
  if PrimFloat.ltb K det then 1%Z else if PrimFloat.ltb det Kn then (-1)%Z else 0%Z.

(** the two literals in the generated triageSign, whatever they currently are *)
Definition triage_shape : { K : PrimFloat.float & { Kn : PrimFloat.float |
    forall a b c, s2_triageSign a b c = triage_with K Kn a b c } }.
Proof. eexists. eexists. intros a b c. reflexivity. Defined.
Definition maxDetErr : PrimFloat.float := projT1 triage_shape.
Definition maxDetErrNeg : PrimFloat.float := proj1_sig (projT2 triage_shape).
Lemma triage_is a b c : s2_triageSign a b c = triage_with maxDetErr maxDetErrNeg a b c.
Proof. exact (proj2_sig (projT2 triage_shape) a b c). Qed.

(** 958083 * 2^-71 = 3.654796 * 2^-53: just below the documented (2.5 + 2/sqrt 3 + slack) * 2^-53 = 3.6548 * 2^-53 *)
Definition K_TRIAGE : dyadic := Dy 958083 (-71).

(** CLOSED SIDE CONDITION on the constant of the Go source: maxDeterminantError >= K_TRIAGE,
    and the negative threshold is its negation. *)
Lemma triage_const_ok :
  ffinite maxDetErr = true /\ ffinite maxDetErrNeg = true /\
  D2R K_TRIAGE <= FR maxDetErr /\ FR maxDetErrNeg = - FR maxDetErr.
Proof.
  split; [vm_compute; reflexivity|]. split; [vm_compute; reflexivity|]. split.
  - apply FR_le_by_compute. vm_compute. reflexivity.
  - apply FR_opp_by_compute. vm_compute. reflexivity.
Qed.

(** H-TRIAGE-DET is discharged in Proofs/C02_TriageDet.v ([triage_sound_closed]); the constant
    enters through [triage_const_ok] above. *)

(** * stableSign *)
Definition stable_core (a b c : s2_Point) : PrimFloat.float * PrimFloat.float :=
  let ab := r3_Vector_Sub (s2_Point_Vector b) (s2_Point_Vector a) in
  let ab2 := r3_Vector_Norm2 ab in
  let bc := r3_Vector_Sub (s2_Point_Vector c) (s2_Point_Vector b) in
  let bc2 := r3_Vector_Norm2 bc in
  let ca := r3_Vector_Sub (s2_Point_Vector a) (s2_Point_Vector c) in
  let ca2 := r3_Vector_Norm2 ca in
  let '(e1, e2, op) :=
    if PrimFloat.leb bc2 ab2 && PrimFloat.leb ca2 ab2 then (ca, bc, s2_Point_Vector c)
    else if PrimFloat.leb ca2 bc2 then (ab, ca, s2_Point_Vector a)
    else (bc, ab, s2_Point_Vector b) in
  (PrimFloat.opp (r3_Vector_Dot (r3_Vector_Cross e1 e2) op),
   PrimFloat.sqrt (PrimFloat.mul (r3_Vector_Norm2 e1) (r3_Vector_Norm2 e2))).
(** stableSign (after the repair bfbf523): below [Mmin] the bound is not trusted *)
Definition stable_with (M Mmin : PrimFloat.float) (a b c : s2_Point) : Z :=
  let '(det, s) := stable_core a b c in
  let maxErr := PrimFloat.mul M s in
  if PrimFloat.ltb maxErr Mmin then 0%Z
  else if PrimFloat.ltb maxErr det then 1%Z else if PrimFloat.ltb det (PrimFloat.opp maxErr) then (-1)%Z else 0%Z.
(** stableSign BEFORE the repair (no lower limit on maxErr) — kept for the refutation witness *)
Definition stable_old_with (M : PrimFloat.float) (a b c : s2_Point) : Z :=
  let '(det, s) := stable_core a b c in
  let maxErr := PrimFloat.mul M s in
  if PrimFloat.ltb maxErr det then 1%Z else if PrimFloat.ltb det (PrimFloat.opp maxErr) then (-1)%Z else 0%Z.

Definition stable_shape : { M : PrimFloat.float & { Mmin : PrimFloat.float |
  forall a b c, s2_stableSign a b c = stable_with M Mmin a b c } }.
Proof.
  eexists. eexists. intros a b c. unfold s2_stableSign, stable_with, stable_core. cbv zeta.
  destruct (PrimFloat.leb _ _ && PrimFloat.leb _ _); [reflexivity|].
  destruct (PrimFloat.leb _ _); reflexivity.
Defined.
Definition detErrMul : PrimFloat.float := projT1 stable_shape.
Definition minNoUnderflowErr : PrimFloat.float := proj1_sig (projT2 stable_shape).
Lemma stable_is a b c : s2_stableSign a b c = stable_with detErrMul minNoUnderflowErr a b c.
Proof. exact (proj2_sig (projT2 stable_shape) a b c). Qed.

(** 847275 * 2^-70 = 3.232097 * 2^-52, just below the documented 3.2321 * 2^-52; the lower limit
    of a trusted bound is that times 2^-500 (|e1||e2| >= 2^-500: nothing underflows) *)
Definition K_STABLE : dyadic := Dy 847275 (-70).
Definition K_STABLE_MIN : dyadic := Dy 847275 (-570).
Lemma stable_const_ok : ffinite detErrMul = true /\ D2R K_STABLE <= FR detErrMul /\
  ffinite minNoUnderflowErr = true /\ D2R K_STABLE_MIN <= FR minNoUnderflowErr.
Proof.
  split; [vm_compute; reflexivity|]. split; [apply FR_le_by_compute; vm_compute; reflexivity|].
  split; [vm_compute; reflexivity|]. apply FR_le_by_compute. vm_compute. reflexivity.
Qed.

(** H-STABLE-DET for the repaired function is discharged in Proofs/C02_StableDet.v
    ([stable_sound_closed]); the constants enter through [stable_const_ok] / [stable_consts_ok]. *)
(** the statement for the function BEFORE the repair: FALSE ([H_STABLE_DET_OLD_refuted] below) *)
Definition H_STABLE_DET_OLD : Prop := forall M a b c, ffinite M = true -> D2R K_STABLE <= FR M ->
  unit_pt a -> unit_pt b -> unit_pt c ->
  stable_old_with M a b c <> 0%Z -> stable_old_with M a b c = sgnR (detR a b c).

(** * triageSignDotProd *)
Definition fdot (a b : s2_Point) : PrimFloat.float := r3_Vector_Dot (s2_Point_Vector a) (s2_Point_Vector b).
Definition dot_with (C : PrimFloat.float) (a b : s2_Point) : Z :=
  let na := fdot a b in
  if PrimFloat.leb (PrimFloat.abs na) C then 0%Z else if PrimFloat.ltb 0 na then 1%Z else (-1)%Z.
Definition dot_shape : { C : PrimFloat.float | forall a b, s2_triageSignDotProd a b = dot_with C a b }.
Proof. eexists. intros a b. reflexivity. Defined.
Definition dotMaxErr : PrimFloat.float := proj1_sig dot_shape.
Lemma dot_is a b : s2_triageSignDotProd a b = dot_with dotMaxErr a b.
Proof. exact (proj2_sig dot_shape a b). Qed.
(** 3.046875 * 2^-52 exactly *)
Definition K_DOT : dyadic := Dy 195 (-58).
Lemma dot_const_ok : ffinite dotMaxErr = true /\ D2R K_DOT <= FR dotMaxErr.
Proof.
  split; [vm_compute; reflexivity|]. apply FR_le_by_compute. vm_compute. reflexivity.
Qed.

Definition H_TRIAGE_DOT : Prop := forall a b, finite a -> finite b -> norm2R a <= 2 -> norm2R b <= 2 ->
  ffinite (fdot a b) = true /\ Rabs (FR (fdot a b) - dotR a b) <= D2R K_DOT.

Theorem dot_sound : H_TRIAGE_DOT -> forall a b, finite a -> finite b -> norm2R a <= 2 -> norm2R b <= 2 ->
  s2_triageSignDotProd a b <> 0%Z -> s2_triageSignDotProd a b = sgnR (dotR a b).
Proof.
  intros H a b Fa Fb Na Nb. rewrite dot_is. unfold dot_with. cbv zeta.
  destruct (H a b Fa Fb Na Nb) as [Fd Ed]. destruct dot_const_ok as [FC LC].
  destruct (ffinite_rank _ Fd) as [Nd Rd]. destruct (ffinite_rank _ FC) as [NC RC].
  apply Rabs_le_inv in Ed.
  destruct (PrimFloat.leb (PrimFloat.abs (fdot a b)) dotMaxErr) eqn:E1; [intros H0; contradiction|].
  apply leb_false_iff in E1; [|now apply nonnan_abs|assumption].
  rewrite rank_abs, RC, Rd in E1. intros _.
  destruct (PrimFloat.ltb 0 (fdot a b)) eqn:E2.
  - apply ltb_true_R in E2. rewrite rank_zero, Rd in E2. rewrite Rabs_pos_eq in E1 by lra.
    symmetry. apply sgnR_pos. lra.
  - apply ltb_false_iff in E2; [|reflexivity|assumption]. rewrite rank_zero, Rd in E2.
    rewrite Rabs_left1 in E1 by lra. symmetry. apply sgnR_neg. lra.
Qed.

(** * CompareDistances, CompareDistance, SignDotProd *)
(** The distance predicates need MORE than the library's IsUnit: their error terms assume points
    normalized as r3.Vector.Normalize leaves them. [norm_pt]: | |p|^2 - 1 | <= 2^-50 (= 8u, i.e.
    the norm within 4u = 2 DBL_EPSILON of 1, the assumption of the C++ error analysis). With only
    [unit_pt] (IsUnit, 5e-14) the statements are FALSE: see [compare_distances_isunit_refuted]
    in Proofs/C02_DistRefuted.v. *)
Definition norm_pt (p : s2_Point) : Prop := finite p /\ Rabs (norm2R p - 1) <= / 2 ^ 50.
Lemma norm_unit p : norm_pt p -> unit_pt p.
Proof. intros [F H]. split; [exact F|]. lra. Qed.
Lemma norm_norm_pos p : norm_pt p -> 0 < norm2R p.
Proof. intros H. apply unit_norm_pos. now apply norm_unit. Qed.
Definition H_TRIAGE_COS : Prop := forall x a b, norm_pt x -> norm_pt a -> norm_pt b ->
  s2_triageCompareCosDistances x a b <> 0%Z ->
  s2_triageCompareCosDistances x a b = cmp_distances_R x a b.

(** the sin^2 comparison is used (and only claimed) where the cos triage was undecided and
    |cos AX| > 1/sqrt 2: increasing below 45 degrees, decreasing above 135 *)
Definition H_TRIAGE_SIN2 : Prop := forall x a b, norm_pt x -> norm_pt a -> norm_pt b ->
  s2_triageCompareCosDistances x a b = 0%Z ->
  s2_triageCompareSin2Distances x a b <> 0%Z ->
  let cosAX := r3_Vector_Dot (s2_Point_Vector a) (s2_Point_Vector x) in
  (PrimFloat.ltb inv_sqrt2 cosAX = true ->
     s2_triageCompareSin2Distances x a b = cmp_distances_R x a b) /\
  (PrimFloat.ltb inv_sqrt2 cosAX = false -> PrimFloat.ltb cosAX (PrimFloat.opp inv_sqrt2) = true ->
     (- s2_triageCompareSin2Distances x a b)%Z = cmp_distances_R x a b).

Definition sin2_stage (x a b : s2_Point) : Z :=
  let cosAX := r3_Vector_Dot (s2_Point_Vector a) (s2_Point_Vector x) in
  if PrimFloat.ltb inv_sqrt2 cosAX then s2_triageCompareSin2Distances x a b
  else if PrimFloat.ltb cosAX (PrimFloat.opp inv_sqrt2) then (- s2_triageCompareSin2Distances x a b)%Z
  else 0%Z.

Lemma compare_distances_unfold x a b : compare_distances x a b =
  if negb (s2_triageCompareCosDistances x a b =? 0)%Z then s2_triageCompareCosDistances x a b
  else if s2_Point_eqb a b then 0%Z
  else if negb (sin2_stage x a b =? 0)%Z then sin2_stage x a b
  else exact_compare_distances_full x a b.
Proof.
  unfold compare_distances, compare_distances_stage_sign, exact_compare_distances_full. cbv zeta.
  fold (sin2_stage x a b).
  destruct (negb (s2_triageCompareCosDistances x a b =? 0)%Z); [reflexivity|].
  destruct (s2_Point_eqb a b); [reflexivity|].
  destruct (negb (sin2_stage x a b =? 0)%Z); [reflexivity|].
  destruct (negb (exact_compare_distances (pv_of_point x) (pv_of_point a) (pv_of_point b) =? 0)%Z); reflexivity.
Qed.

Theorem compare_distances_spec : H_TRIAGE_COS -> H_TRIAGE_SIN2 -> forall x a b,
  norm_pt x -> norm_pt a -> norm_pt b ->
  compare_distances x a b = exact_compare_distances_full x a b.
Proof.
  intros HC HS2 x a b Ux Ua Ub.
  pose proof (norm_norm_pos a Ua) as Na. pose proof (norm_norm_pos b Ub) as Nb.
  assert (Hnz : forall s, s <> 0%Z -> s = cmp_distances_R x a b -> s = exact_compare_distances_full x a b).
  { intros s Hs E. unfold exact_compare_distances_full. cbv zeta.
    rewrite exact_compare_distances_spec by assumption. rewrite <- E.
    destruct (Z.eqb_spec s 0); [contradiction|reflexivity]. }
  rewrite compare_distances_unfold.
  destruct (Z.eqb_spec (s2_triageCompareCosDistances x a b) 0) as [E1|E1]; cbn [negb].
  2:{ apply Hnz; auto. }
  destruct (s2_Point_eqb a b) eqn:Eab.
  { symmetry. apply exact_compare_full_zero_iff; try apply Ua; try apply Ub.
    apply eqb_iff; auto; try apply Ua; apply Ub. }
  destruct (Z.eqb_spec (sin2_stage x a b) 0) as [E3|E3]; cbn [negb]; [reflexivity|].
  apply Hnz; auto.
  pose proof (HS2 x a b Ux Ua Ub E1) as H2. cbv zeta in H2.
  unfold sin2_stage in *. cbv zeta in *.
  destruct (PrimFloat.ltb inv_sqrt2 (r3_Vector_Dot (s2_Point_Vector a) (s2_Point_Vector x))) eqn:L1.
  - now apply H2.
  - destruct (PrimFloat.ltb (r3_Vector_Dot (s2_Point_Vector a) (s2_Point_Vector x)) (PrimFloat.opp inv_sqrt2)) eqn:L2.
    + apply H2; auto. lia.
    + contradiction.
Qed.

Theorem compare_distances_antisym : H_TRIAGE_COS -> H_TRIAGE_SIN2 -> forall x a b,
  norm_pt x -> norm_pt a -> norm_pt b -> compare_distances x b a = (- compare_distances x a b)%Z.
Proof.
  intros HC HS2 x a b Ux Ua Ub. rewrite !compare_distances_spec by assumption.
  apply exact_compare_full_antisym; [apply Ua|apply Ub].
Qed.

Theorem compare_distances_zero_iff : H_TRIAGE_COS -> H_TRIAGE_SIN2 -> forall x a b,
  norm_pt x -> norm_pt a -> norm_pt b -> (compare_distances x a b = 0%Z <-> s2_Point_eqb a b = true).
Proof.
  intros HC HS2 x a b Ux Ua Ub. rewrite compare_distances_spec by assumption.
  rewrite exact_compare_full_zero_iff by (try apply Ua; apply Ub).
  symmetry. apply eqb_iff; [apply Ua|apply Ub].
Qed.

(** when the two distances differ, the answer is the exact comparison *)
Theorem compare_distances_exact : H_TRIAGE_COS -> H_TRIAGE_SIN2 -> forall x a b,
  norm_pt x -> norm_pt a -> norm_pt b -> cmp_distances_R x a b <> 0%Z ->
  compare_distances x a b = cmp_distances_R x a b.
Proof.
  intros HC HS2 x a b Ux Ua Ub Hne. rewrite compare_distances_spec by assumption.
  unfold exact_compare_distances_full. cbv zeta.
  rewrite exact_compare_distances_spec by (now apply norm_norm_pos).
  destruct (Z.eqb_spec (cmp_distances_R x a b) 0); [contradiction|reflexivity].
Qed.

Definition valid_limit (r : PrimFloat.float) : Prop := ffinite r = true /\ 0 <= FR r <= 4.
Definition H_TRIAGE_COS1 : Prop := forall x y r, norm_pt x -> norm_pt y -> valid_limit r ->
  s2_triageCompareCosDistance x y r <> 0%Z -> s2_triageCompareCosDistance x y r = cmp_distance_R x y r.
Definition H_TRIAGE_SIN21 : Prop := forall x y r, norm_pt x -> norm_pt y -> valid_limit r ->
  s2_triageCompareCosDistance x y r = 0%Z -> PrimFloat.ltb r ca45Degrees = true ->
  s2_triageCompareSin2Distance x y r <> 0%Z -> s2_triageCompareSin2Distance x y r = cmp_distance_R x y r.

Lemma compare_distance_unfold x y r : compare_distance x y r =
  if negb (s2_triageCompareCosDistance x y r =? 0)%Z then s2_triageCompareCosDistance x y r
  else let s := if PrimFloat.ltb r ca45Degrees then s2_triageCompareSin2Distance x y r else 0%Z in
  if negb (s =? 0)%Z then s
  else exact_compare_distance (pv_of_point x) (pv_of_point y) (of_float r).
Proof.
  unfold compare_distance, compare_distance_stage_sign. cbv zeta.
  destruct (negb (s2_triageCompareCosDistance x y r =? 0)%Z); [reflexivity|].
  destruct (negb ((if PrimFloat.ltb r ca45Degrees then s2_triageCompareSin2Distance x y r else 0%Z) =? 0)%Z); reflexivity.
Qed.

Theorem compare_distance_spec : H_TRIAGE_COS1 -> H_TRIAGE_SIN21 -> forall x y r,
  norm_pt x -> norm_pt y -> valid_limit r -> compare_distance x y r = cmp_distance_R x y r.
Proof.
  intros HC HS2 x y r Ux Uy Vr. rewrite compare_distance_unfold. cbv zeta.
  destruct (Z.eqb_spec (s2_triageCompareCosDistance x y r) 0) as [E1|E1]; cbn [negb].
  2:{ now apply HC. }
  destruct (PrimFloat.ltb r ca45Degrees) eqn:L.
  - destruct (Z.eqb_spec (s2_triageCompareSin2Distance x y r) 0) as [E2|E2]; cbn [negb].
    + apply exact_compare_distance_spec; now apply norm_norm_pos.
    + now apply HS2.
  - cbn. apply exact_compare_distance_spec; now apply norm_norm_pos.
Qed.

Theorem sign_dot_prod_spec : H_TRIAGE_DOT -> forall a b, finite a -> finite b ->
  norm2R a <= 2 -> norm2R b <= 2 -> sign_dot_prod a b = sgnR (dotR a b).
Proof.
  intros H a b Fa Fb Na Nb. unfold sign_dot_prod. cbv zeta.
  destruct (Z.eqb_spec (s2_triageSignDotProd a b) 0) as [E|E]; simpl.
  - apply exact_sign_dot_prod_spec.
  - now apply dot_sound.
Qed.

(** * The guards are inhabited, and the model computes *)
Lemma FR_int (x : PrimFloat.float) (m : Z) : deqb (of_float x) (Dy m 0) = true -> FR x = IZR m.
Proof. intros H. apply deqb_true_iff in H. rewrite <- of_float_correct in H. rewrite H. unfold D2R. simpl. ring. Qed.

Definition ex_x : s2_Point := mk_s2_Point (mk_r3_Vector 1 0 0).
Definition ex_y : s2_Point := mk_s2_Point (mk_r3_Vector 0 1 0).
Definition ex_z : s2_Point := mk_s2_Point (mk_r3_Vector 0 0 1).
Definition ex_mx : s2_Point := mk_s2_Point (mk_r3_Vector (-1) 0 0).

Lemma FR_1 : FR 1%float = 1. Proof. apply (FR_int 1%float 1). vm_compute. reflexivity. Qed.
Lemma FR_0 : FR 0%float = 0. Proof. apply (FR_int 0%float 0). vm_compute. reflexivity. Qed.
Lemma FR_m1 : FR (-1)%float = -1. Proof. apply (FR_int (-1)%float (-1)). vm_compute. reflexivity. Qed.

Ltac ex_coords := unfold norm2R, dotR, detR, det3, peq, PX, PY, PZ, ex_x, ex_y, ex_z, ex_mx; cbn [s2_Point_Vector r3_Vector_X r3_Vector_Y r3_Vector_Z]; rewrite ?FR_1, ?FR_0, ?FR_m1.

Example ex_unit : unit_pt ex_x /\ unit_pt ex_y /\ unit_pt ex_z /\ unit_pt ex_mx.
Proof.
  repeat split; try (vm_compute; reflexivity); ex_coords;
  match goal with |- Rabs ?e <= _ => replace e with 0 by ring end; rewrite Rabs_R0; lra.
Qed.
Example ex_distinct : distinct3 ex_x ex_y ex_z /\ distinct3 ex_x ex_y ex_mx.
Proof. repeat split; ex_coords; lra. Qed.
Example ex_det : detR ex_x ex_y ex_z = 1 /\ detR ex_x ex_y ex_mx = 0.
Proof. split; ex_coords; ring. Qed.
(** a non-degenerate and an exactly degenerate (coplanar, antipodal) triple through the model *)
Example ex_robust : robust_sign ex_x ex_y ex_z = 1%Z /\ robust_sign_stage ex_x ex_y ex_z = 1%Z /\
  robust_sign ex_x ex_y ex_mx = 1%Z /\ robust_sign_stage ex_x ex_y ex_mx = 5%Z /\
  robust_sign ex_mx ex_y ex_x = (-1)%Z /\ robust_sign ex_y ex_mx ex_x = 1%Z.
Proof. vm_compute. repeat split. Qed.
Example ex_compare : compare_distances ex_x ex_y ex_z = (-1)%Z /\ compare_distances_stage ex_x ex_y ex_z = 5%Z /\
  compare_distances ex_x ex_z ex_y = 1%Z /\ compare_distance ex_x ex_y 2%float = 0%Z.
Proof. vm_compute. repeat split. Qed.

(** * FINDING: stableSign accepts rounding noise when |e|^2 underflows (unchanged /repo) *)
Lemma inv_pow44 : / 2 ^ 44 = D2R (Dy 1 (-44)).
Proof. unfold D2R. simpl. lra. Qed.

Lemma unit_by_compute p : finite_pt p = true ->
  (let n := pv_norm2 (pv_of_point p) in
   (dcmp (dsub n done) (Dy 1 (-44)) <=? 0)%Z && (dcmp (dsub done n) (Dy 1 (-44)) <=? 0)%Z) = true ->
  unit_pt p.
Proof.
  intros F H. split; [exact F|]. cbv zeta in H. apply andb_true_iff in H. destruct H as [H1 H2].
  apply Z.leb_le in H1, H2. rewrite dcmp_correct, D2R_sub, pv_norm2_correct, D2R_one, <- inv_pow44 in H1, H2.
  apply Rabs_le. split.
  - destruct (sgnR_cases (1 - norm2R p - / 2 ^ 44)) as [[L E]|[[L E]|[L E]]]; rewrite E in H2; try lia; lra.
  - destruct (sgnR_cases (norm2R p - 1 - / 2 ^ 44)) as [[L E]|[[L E]|[L E]]]; rewrite E in H1; try lia; lra.
Qed.

Definition bad_a : s2_Point :=
  mk_s2_Point (mk_r3_Vector 0x1.90f7bd8cd8e08p-1 (-0x1.c55408c56be46p-3) (-0x1.2987f204089a9p-1)).
Definition bad_b : s2_Point :=
  mk_s2_Point (mk_r3_Vector 0 0x1.f84b33442996fp-2 0x1.bd9b7e6fd452p-1).
(** bad_b with X = -5e-324 *)
Definition bad_c : s2_Point :=
  mk_s2_Point (mk_r3_Vector (-0x1p-1074) 0x1.f84b33442996fp-2 0x1.bd9b7e6fd452p-1).

Lemma bad_unit : unit_pt bad_a /\ unit_pt bad_b /\ unit_pt bad_c.
Proof. repeat split; apply unit_by_compute; vm_compute; reflexivity. Qed.
Lemma bad_det : sgnR (detR bad_a bad_b bad_c) = (-1)%Z.
Proof. rewrite <- exact_det_sign_correct. vm_compute. reflexivity. Qed.

(** the code before the repair bfbf523 *)
Definition expensive_sign_old (a b c : s2_Point) : Z :=
  if s2_Point_eqb a b || s2_Point_eqb b c || s2_Point_eqb c a then 0%Z else
  let s := stable_old_with detErrMul a b c in
  if negb (s =? 0)%Z then s else exact_sign a b c.
Definition robust_sign_old (a b c : s2_Point) : Z :=
  let s := s2_triageSign a b c in if (s =? 0)%Z then expensive_sign_old a b c else s.

Theorem H_STABLE_DET_OLD_refuted : ~ H_STABLE_DET_OLD.
Proof.
  intros H. destruct bad_unit as (Ua & Ub & Uc). destruct stable_const_ok as (FM & LM & _).
  specialize (H detErrMul bad_a bad_b bad_c FM LM Ua Ub Uc).
  assert (E : stable_old_with detErrMul bad_a bad_b bad_c = 1%Z) by (vm_compute; reflexivity).
  rewrite E, bad_det in H. assert (1 <> 0)%Z by lia. specialize (H H0). discriminate.
Qed.

(** RobustSign as it was before the repair: not the sign of the exact determinant *)
Theorem robust_sign_det_old_refuted : exists a b c, unit_pt a /\ unit_pt b /\ unit_pt c /\
  detR a b c <> 0 /\ robust_sign_old a b c <> sgnR (detR a b c).
Proof.
  exists bad_a, bad_b, bad_c. destruct bad_unit as (Ua & Ub & Uc).
  split; [exact Ua|]. split; [exact Ub|]. split; [exact Uc|]. split.
  - intros E. pose proof bad_det as H. rewrite E, sgnR_0 in H. discriminate.
  - rewrite bad_det. assert (E : robust_sign_old bad_a bad_b bad_c = 1%Z) by (vm_compute; reflexivity).
    rewrite E. discriminate.
Qed.

(** the repaired code on the same input: stableSign abstains, the exact stage answers *)
Example repaired_on_witness : s2_stableSign bad_a bad_b bad_c = 0%Z /\
  robust_sign bad_a bad_b bad_c = (-1)%Z /\ robust_sign_stage bad_a bad_b bad_c = 4%Z.
Proof. vm_compute. repeat split. Qed.
