(** C08 — the search theorems with the pure cell-id / queue premises discharged:
    on a well-formed, non-empty index (valid ids, sorted, pairwise disjoint cells)
    [SplitSound] (C08_Split), [Terminates] (C08_Term) and the infinite-limit part of
    [CoverSound] (C08_Cover) are theorems. What remains as premises: the target's distance
    facts (ExactTarget, SubLe, LB, EmptyFar, ZeroMin), IndexOK (C06) and, for a FINITE
    distance limit, that the cleaned-up intersection of the index covering with the search
    cap's covering represents every index cell within the limit ([CoverFinite], H-CAPARITH). *)
From Coq Require Import ZArith List Bool Lia Sorted.
From Geo Require Import Model.EdgeQuery Proofs.C05_CellFacts Proofs.C08_Post Proofs.C08_Opt Proofs.C08_Heap Proofs.C08_Main
  Proofs.C08_Cells Proofs.C08_Split Proofs.C08_Term Proofs.C08_Cover Proofs.C08_Cleanup Proofs.C08_Approx.
Import ListNotations.
Local Open Scope Z_scope.

Section Final.
  Variable D : Type.
  Variable ops : dist_ops D.
  Hypothesis OK : DistOK ops.
  Variable x : index.
  Hypothesis WF : IndexWF x.
  Hypothesis NE : x_cells x <> [].

  (** for a finite limit: the cells of CellUnionFromIntersection(indexCovering, FastCovering(search
      cap)) are valid cell ids in increasing order, not absurdly many, and COVER THE SEARCH CAP:
      every index cell holding an edge within the limit meets one of them (H-CAPARITH, C05).
      That the clean-up loop then hands over sound entries which represent every such index cell
      is proved (C08_Cleanup: [cleanup_entries_good], [cleanup_represents]). *)
  Definition CoverFinite (t : target D) (edist : eid -> D) : Prop := forall lim,
    d_eqb ops lim (d_inf ops) = false ->
    (forall id, In id (t_initial_cells t lim) -> valid id) /\
    StronglySorted Z.lt (t_initial_cells t lim) /\
    (forall c, In c (x_cells x) -> (exists e, In e (snd c) /\ d_less ops (edist e) lim = true) ->
       exists idI, In idI (t_initial_cells t lim) /\ meets idI c) /\
    Z.of_nat (length (t_initial_cells t lim)) < 2 ^ 17.

  Lemma finite_entries_good t lim : d_eqb ops lim (d_inf ops) = false ->
    (forall id, In id (t_initial_cells t lim) -> valid id) ->
    forall ce, In ce (init_entries D ops t x false lim) -> centry_good x ce.
  Proof.
    intros E Vi ce H. unfold init_entries in H. rewrite E in H.
    destruct (init_covering_sound x WF NE) as (G & _ & _).
    exact (cleanup_entries_good x WF _ G _ Vi _ _ ce H).
  Qed.
  Lemma finite_entries_length t lim : d_eqb ops lim (d_inf ops) = false ->
    (length (init_entries D ops t x false lim) <= length (t_initial_cells t lim))%nat.
  Proof. intros E. unfold init_entries. rewrite E. apply cleanup_length. Qed.

  Record WfPremises (o : options D) (t : target D) (edist : eid -> D) (cdist : Z -> D) : Prop := mkWfPremises {
    w_exact : ExactTarget D ops t edist cdist;
    w_suble : SubLe D ops o;
    w_lb : LB D ops x edist cdist valid;
    w_empty : EmptyFar D ops t edist;
    w_zeromin : ZeroMin D ops edist;
    w_cover : CoverFinite t edist;
    w_index : IndexOK x
  }.

  Lemma cover_sound_wf t edist : CoverFinite t edist -> CoverSound D ops t x false edist valid.
  Proof.
    intros CF lim. destruct (d_eqb ops lim (d_inf ops)) eqn:E.
    - unfold init_entries. rewrite E.
      destruct (init_covering_sound x WF NE) as (G & R & _). split.
      + intros ce H. exact (G ce H).
      + intros c Hc _. exact (R c Hc).
    - destruct (CF lim E) as (A & So & B & _). split; [intros ce H; exact (finite_entries_good t lim E A ce H)|].
      intros c Hc He. destruct (B c Hc He) as (idI & Hi & M).
      destruct (init_covering_sound x WF NE) as (G & _ & _).
      unfold init_entries. rewrite E.
      destruct (cleanup_represents x WF _ G _ A So O None ltac:(discriminate) idI c Hi Hc M) as [H|(m & H & _)]; [exact H|discriminate].
  Qed.

  Lemma init_ok_wf t edist : CoverFinite t edist -> forall lim,
    (forall ce, In ce (init_entries D ops t x false lim) -> centry_good x ce) /\
    Z.of_nat (length (init_entries D ops t x false lim)) < 2 ^ 17.
  Proof.
    intros CF lim. destruct (d_eqb ops lim (d_inf ops)) eqn:E.
    - unfold init_entries. rewrite E. destruct (init_covering_sound x WF NE) as (G & _ & L).
      split; [exact G|]. change (2 ^ 17) with 131072. lia.
    - destruct (CF lim E) as (A & _ & _ & L). split; [exact (finite_entries_good t lim E A)|].
      pose proof (finite_entries_length t lim E). lia.
  Qed.

  Lemma wf_premises o t edist cdist : WfPremises o t edist cdist ->
    SearchPremises D ops o t x false edist cdist valid /\ Terminates D ops o t x false.
  Proof.
    intros [Ex Sl Lb Em Zm Cf Ix]. split.
    - split; try assumption; [apply (split_sound x WF)|apply cover_sound_wf; exact Cf].
    - apply (terminates D ops OK o t x WF false). apply (init_ok_wf t edist Cf).
  Qed.

  Theorem opt_eq_brute_wf o t edist cdist : WfPremises o t edist cdist ->
    let out_o := find_edges ops o t x false false in
    let out_b := find_edges ops (with_brute D o) t x false false in
    (o_max_results o <> 1 -> out_o = out_b) /\ (ErrZero D ops o -> map r_dist out_o = map r_dist out_b).
  Proof. intros P. destruct (wf_premises o t edist cdist P) as [S T]. exact (opt_eq_brute_main D ops OK o t x false edist cdist valid S T). Qed.

  Theorem opt_within_error_wf o t edist cdist : WfPremises o t edist cdist ->
    o_max_results o = 1 -> d_eqb ops (o_limit o) (d_zero ops) = false ->
    s_results (interiors_state D ops o t) = [] ->
    let out := find_edges ops o t x false false in
    (out = [] <-> forall e, In e (all_edges x) -> d_less ops (edist e) (o_limit o) = false) /\
    (forall r, In r out ->
       (exists e, In e (all_edges x) /\ r = mkres D edist e /\ d_less ops (edist e) (o_limit o) = true) /\
       (forall e, In e (all_edges x) -> d_less ops (edist e) (d_sub ops (r_dist r) (o_max_error o)) = false)).
  Proof. intros P. destruct (wf_premises o t edist cdist P) as [S T]. exact (opt_within_error_main D ops OK o t x false edist cdist valid S T). Qed.

  Theorem is_distance_less_wf straight o t lim edist cdist :
    let o' := mkOptions 1 lim straight (o_interiors o) (o_brute o) in
    WfPremises o' t edist cdist ->
    d_eqb ops lim (d_zero ops) = false -> s_results (interiors_state D ops o' t) = [] ->
    (forall e, In e (all_edges x) -> 0 <= fst e) ->
    (is_distance_less ops straight o t x lim = true <-> exists e, In e (all_edges x) /\ d_less ops (edist e) lim = true).
  Proof.
    cbn. intros P. destruct (wf_premises _ t edist cdist P) as [S T].
    exact (is_distance_less_spec D ops OK straight o t x lim edist cdist valid S T).
  Qed.

  (** *** targets that substitute approximate distances (ShapeIndex targets with MaxError > 0) *)
  Record ApxPremises (o : options D) (t : target D) (tdist : eid -> D) (tcell : Z -> D)
      (Val : eid -> D -> Prop) (cons : bool) : Prop := mkApxPremises {
    (* updateDistanceToEdge: a reported value is below the limit and allowed; no report: not better than the limit *)
    a_edge : forall e lim, match t_upd_edge t e lim with
      | Some v => d_less ops v lim = true /\ Val e v
      | None => d_less ops (tdist e) lim = false end;
    (* updateDistanceToCell: the (conservative) key is a lower bound of the cell's true distance *)
    a_cell : forall c lim, match t_upd_cell t c lim with
      | Some v => d_less ops (tcell c) (if cons then d_sub ops v (o_max_error o) else v) = false
      | None => d_less ops (tcell c) lim = false end;
    a_suble : SubLe D ops o;
    (* allowed values: not better than the truth, and within the permitted error of it *)
    a_valle : forall e v, Val e v -> d_less ops v (tdist e) = false;
    a_valhd : forall e v h, Val e v -> d_less ops v h = false -> d_less ops (tdist e) (d_sub ops h (o_max_error o)) = false;
    a_submono : forall a b, d_less ops b a = false -> d_less ops (d_sub ops b (o_max_error o)) (d_sub ops a (o_max_error o)) = false;
    a_lb : LB D ops x tdist tcell valid;
    a_empty : EmptyFar D ops t tdist;
    a_zeromin : ZeroMin D ops tdist;
    a_cover : CoverFinite t tdist;
    a_index : IndexOK x
  }.

  Theorem approx_k1_wf o t tdist tcell Val cons av st : ApxPremises o t tdist tcell Val cons ->
    s_queue st = [] -> s_tested st = [] -> s_results st = [] -> o_max_results o = 1 ->
    let so := find_edges_optimized D ops o t x false false cons av st in
    let out := truncate D o (sort_unique ops (rev (s_results so))) in
    (out = [] <-> forall e, In e (all_edges x) -> d_less ops (tdist e) (s_limit st) = false) /\
    (forall r, In r out ->
       (exists e v, In e (all_edges x) /\ r = Approx.res D v e /\ Val e v /\ d_less ops v (s_limit st) = true) /\
       (forall e, In e (all_edges x) -> d_less ops (tdist e) (d_sub ops (r_dist r) (o_max_error o)) = false)).
  Proof.
    intros [Ae Ac Sl Vl Vh Sm Lb Em Zm Cf Ix] Eq Et Er K.
    destruct (heap_spec D ops OK) as (HI & Hn & Hpush & Hpop).
    pose proof (optimized_terminates D ops OK o t x WF false (init_ok_wf t tdist Cf) cons av st Eq) as Term.
    exact (Approx.approx_k1 D ops OK o t x tdist tcell Val cons av Ae Ac Sl Vh valid HI Lb (split_sound x WF) Hn Hpush Hpop
             false Em Zm (cover_sound_wf t tdist Cf) Ix Vl st Eq Et Er K Term).
  Qed.

  Theorem approx_all_wf o t tdist tcell Val cons av st : ApxPremises o t tdist tcell Val cons ->
    s_queue st = [] -> s_tested st = [] -> o_max_results o <> 1 ->
    (forall r, In r (s_results st) -> d_less ops (r_dist r) (s_limit st) = true) ->
    let so := find_edges_optimized D ops o t x false false cons av st in
    let out := truncate D o (sort_unique ops (rev (s_results so))) in
    (forall r, In r (s_results so) -> In r (s_results st) \/
       exists e v, In e (all_edges x) /\ r = Approx.res D v e /\ Val e v /\ d_less ops v (s_limit st) = true) /\
    (forall e, In e (all_edges x) -> d_less ops (tdist e) (s_limit st) = true ->
       exists v, In (Approx.res D v e) (s_results so) /\ Val e v) /\
    (av = true -> exists added, s_results so = added ++ s_results st /\ NoDup (map (Approx.rkey D) added)) /\
    (forall r e, In r out -> In e (all_edges x) ->
       d_less ops (tdist e) (d_sub ops (r_dist r) (o_max_error o)) = true ->
       exists v, In (Approx.res D v e) out /\ Val e v).
  Proof.
    intros [Ae Ac Sl Vl Vh Sm Lb Em Zm Cf Ix] Eq Et K R0.
    destruct (heap_spec D ops OK) as (HI & Hn & Hpush & Hpop).
    pose proof (optimized_terminates D ops OK o t x WF false (init_ok_wf t tdist Cf) cons av st Eq) as Term.
    exact (Approx.approx_all D ops OK o t x tdist tcell Val cons av Ae Ac Sl Vh valid HI Lb (split_sound x WF) Hn Hpush Hpop
             false Em Zm (cover_sound_wf t tdist Cf) Ix Sm st Eq Et K R0 Term).
  Qed.
End Final.
