(** C14 / C13 link: what step L3 of Model/Conc.v abstracts. On the index machine of
    Model/Lazy.v, running the repaired applyUpdatesInternal a second time (the goroutine that saw
    "stale", waited for the lock and found nothing pending) changes neither the cell map nor the
    bookkeeping: [pending] of Conc.v is "pendingPos < len(shapes)", it is false after the first
    apply, and an apply with [pending = false] writes nothing. *)
From Coq Require Import List Bool Arith Lia.
From Geo Require Import Model.Lazy Proofs.C13_Index.
Import ListNotations.

Section ApplyTwice.
  Context {S G : Type}.
  Variable snap : S -> G.

  Definition pending_of (ix : index S G) : bool :=
    (pendingPos ix <? length (shapes ix)) || negb (removals ix =? 0).

  Lemma apply_clears_pending ix l ix1 : iinv snap ix l -> apply snap ix = Ok ix1 ->
    pending_of ix1 = false /\ iinv snap ix1 l.
  Proof.
    intros Hi Ha. destruct (apply_ok snap ix l Hi) as (ix' & Ha' & Hi' & Hp & _).
    rewrite Ha in Ha'. inversion Ha'; subst ix'. split; [|exact Hi'].
    unfold pending_of. destruct Hi' as [H1 _ H3 _ _ _]. rewrite H1, length_enumerate, Hp, H3.
    rewrite Nat.ltb_irrefl. reflexivity.
  Qed.

  Lemma apply_nothing_pending ix l : iinv snap ix l -> pending_of ix = false ->
    exists ix', apply snap ix = Ok ix' /\ cells ix' = cells ix /\ pendingPos ix' = pendingPos ix /\
                shapes ix' = shapes ix /\ nextID ix' = nextID ix /\ removals ix' = removals ix.
  Proof.
    intros [H1 H2 H3 H4 H5 H6] Hp. unfold pending_of in Hp. apply orb_false_iff in Hp. destruct Hp as [Hp Hr].
    apply Nat.ltb_ge in Hp. rewrite H1, length_enumerate in Hp.
    unfold apply. rewrite H1, length_enumerate.
    destruct (pendingPos ix =? 0) eqn:E0.
    - apply Nat.eqb_eq in E0. assert (length l = 0) by lia.
      eexists. split; [reflexivity|]. cbn [cells pendingPos shapes nextID removals].
      rewrite E0, H. unfold ids_from. cbn. rewrite app_nil_r. repeat split; auto.
    - assert (E1 : (length l <=? pendingPos ix) = true) by (apply Nat.leb_le; lia).
      rewrite E1, H3. cbn. exists ix. repeat split; auto.
  Qed.

  Theorem apply_twice_noop ix l ix1 : iinv snap ix l -> apply snap ix = Ok ix1 ->
    exists ix2, apply snap ix1 = Ok ix2 /\ cells ix2 = cells ix1 /\ pendingPos ix2 = pendingPos ix1.
  Proof.
    intros Hi Ha. destruct (apply_clears_pending ix l ix1 Hi Ha) as (Hp & Hi1).
    destruct (apply_nothing_pending ix1 l Hi1 Hp) as (ix2 & H & Hc & Hpp & _). eauto.
  Qed.
End ApplyTwice.
