(** C02. Real-number core of H-TRIAGE-DET (started by the coordinator as notes/TriageDetReal.v.wip,
    completed here): the rounding-error bound for the float evaluation of
    (A x B) . C as r3.Vector.Cross / Dot compute it (see notes/H_TRIAGE_DET_sketch.md).
    Everything here is about real numbers: each rounded operation is represented by its
    result together with the standard-model error bound |result - exact| <= u*|exact| + eta. *)
From Coq Require Import Reals Lra Psatz.
Local Open Scope R_scope.

(** ** closed polynomial inequalities used at the end *)
Lemma ueta u eta k : 0 <= u -> u <= / 1000000 -> 0 <= eta -> 0 <= k <= 1000 -> u * (k * eta) <= eta.
Proof.
  intros. replace (u * (k * eta)) with ((u * k) * eta) by ring.
  assert (u * k <= 1). { assert (u * k <= / 1000000 * 1000) by (apply Rmult_le_compat; lra). lra. }
  replace eta with (1 * eta) at 2 by ring. apply Rmult_le_compat_r; lra.
Qed.
Lemma B1_small u eta W Q Cs : 0 <= u -> u <= / 1000000 -> 0 <= eta -> 0 <= W -> W <= 2 -> 0 <= Q -> Q <= 2 ->
  0 <= Cs -> Cs <= 2 -> u * (1 + u) * W + u * Q + 4 * eta * Cs <= 5 * u + 8 * eta.
Proof.
  intros.
  assert (u * (1 + u) * W <= u * (1 + u) * 2) by (apply Rmult_le_compat_l; nra).
  assert (u * Q <= u * 2) by (apply Rmult_le_compat_l; lra).
  assert (4 * eta * Cs <= 4 * eta * 2) by (apply Rmult_le_compat_l; lra).
  nra.
Qed.
Lemma final_ineq u eta W Q Cs S3 N3 D : 0 <= u -> u <= / 1000000 -> 0 <= eta -> eta <= / 1000000 -> 0 <= W -> W <= S3 -> S3 <= 2 ->
  0 <= Q -> Q <= N3 -> N3 <= 2 -> 0 <= Cs -> Cs <= 2 -> 0 <= D ->
  let B1 := u * (1 + u) * W + u * Q + 4 * eta * Cs in
  B1 + (u * (Q + B1) + 3 * eta) + (u * (/ 2 * D + B1 + / 2 * Q + (u * (Q + B1) + 2 * eta)) + eta)
  <= u * (S3 + 5 / 2 * N3) + u / 2 * D + 60 * (u * u) + 30 * eta.
Proof.
  intros Hu0 Hu He He1 HW0 HW HS HQ0 HQ HN HC0 HC HD B1.
  assert (HB : B1 <= 5 * u + 8 * eta) by (apply B1_small; lra).
  assert (HB0 : 0 <= B1) by (unfold B1; assert (0 <= u * (1+u) * W) by (apply Rmult_le_pos; nra); assert (0 <= u*Q) by nra; assert (0 <= 4*eta*Cs) by nra; lra).
  (* main part of B1 *)
  assert (M1 : u * (1 + u) * W <= u * S3 + 2 * (u * u)).
  { assert (u * W <= u * S3) by (apply Rmult_le_compat_l; lra).
    assert (u * u * W <= u * u * 2) by (apply Rmult_le_compat_l; nra). nra. }
  assert (M2 : u * Q <= u * N3) by (apply Rmult_le_compat_l; lra).
  assert (M3 : 4 * eta * Cs <= 8 * eta) by nra.
  assert (HB' : B1 <= u * S3 + u * N3 + 2 * (u * u) + 8 * eta) by (unfold B1; lra).
  (* second-order terms *)
  assert (T1 : u * B1 <= 5 * (u * u) + eta).
  { assert (u * B1 <= u * (5 * u + 8 * eta)) by (apply Rmult_le_compat_l; lra).
    assert (u * (8 * eta) <= eta) by (apply ueta; lra). lra. }
  assert (T2 : u * (u * (Q + B1) + 2 * eta) <= 3 * (u * u) + eta).
  { assert (Q + B1 <= 3) by lra. assert (u * (Q + B1) <= u * 3) by (apply Rmult_le_compat_l; lra).
    assert (u * (u * (Q + B1)) <= u * (u * 3)) by (apply Rmult_le_compat_l; lra).
    assert (u * (2 * eta) <= eta) by (apply ueta; lra). lra. }
  assert (T3 : u * Q <= u * N3) by exact M2.
  replace (B1 + (u * (Q + B1) + 3 * eta) + (u * (/ 2 * D + B1 + / 2 * Q + (u * (Q + B1) + 2 * eta)) + eta))
    with (B1 + u * Q + u * B1 + u * B1 + / 2 * (u * Q) + u * (u * (Q + B1) + 2 * eta) + u / 2 * D + 4 * eta) by (unfold Rdiv; ring).
  nra.
Qed.

Section Core.
Variables u eta theta : R.
Hypothesis u_pos : 0 <= u.   Hypothesis u_small : u <= / 1000000.
Hypothesis eta_pos : 0 <= eta.  Hypothesis eta_small : eta <= / 1000000.
Hypothesis theta_pos : 0 <= theta. Hypothesis theta_small : theta <= / 1000000.

Definition near (x exact : R) : Prop := Rabs (x - exact) <= u * Rabs exact + eta.

(** ** Elementary facts *)
Lemma Rabs_mul_le x y a b : Rabs x <= a -> Rabs y <= b -> Rabs (x * y) <= a * b.
Proof.
  intros Hx Hy. rewrite Rabs_mult. pose proof (Rabs_pos x). pose proof (Rabs_pos y).
  apply Rmult_le_compat; lra.
Qed.

Lemma sq_abs_le z t : 0 <= t -> z * z <= t * t -> Rabs z <= t.
Proof.
  intros Ht H. apply Rabs_le. split; nra.
Qed.

(** Cauchy-Schwarz for 3-vectors, in squared form *)
Lemma cs3 x1 x2 x3 y1 y2 y3 :
  (x1*y1 + x2*y2 + x3*y3)^2 <= (x1^2 + x2^2 + x3^2) * (y1^2 + y2^2 + y3^2).
Proof.
  assert (E : (x1^2 + x2^2 + x3^2) * (y1^2 + y2^2 + y3^2) - (x1*y1 + x2*y2 + x3*y3)^2
              = (x1*y2 - x2*y1)^2 + (x1*y3 - x3*y1)^2 + (x2*y3 - x3*y2)^2) by ring.
  pose proof (pow2_ge_0 (x1*y2 - x2*y1)). pose proof (pow2_ge_0 (x1*y3 - x3*y1)).
  pose proof (pow2_ge_0 (x2*y3 - x3*y2)). lra.
Qed.

(** sum of |x_i||y_i| bounded through the squares *)
Lemma abs_dot_le x1 x2 x3 y1 y2 y3 X Y T :
  x1^2 + x2^2 + x3^2 <= X -> y1^2 + y2^2 + y3^2 <= Y -> 0 <= T -> X * Y <= T * T ->
  Rabs x1 * Rabs y1 + Rabs x2 * Rabs y2 + Rabs x3 * Rabs y3 <= T.
Proof.
  intros HX HY HT HXY.
  pose proof (cs3 (Rabs x1) (Rabs x2) (Rabs x3) (Rabs y1) (Rabs y2) (Rabs y3)) as C.
  assert (Ex : forall z, (Rabs z)^2 = z^2) by (intros z; rewrite <- Rsqr_pow2, <- Rsqr_pow2; apply Rsqr_abs || (symmetry; apply Rsqr_abs)).
  rewrite !Ex in C.
  set (S := Rabs x1 * Rabs y1 + Rabs x2 * Rabs y2 + Rabs x3 * Rabs y3) in *.
  assert (S0 : 0 <= S).
  { unfold S. pose proof (Rabs_pos x1). pose proof (Rabs_pos x2). pose proof (Rabs_pos x3).
    pose proof (Rabs_pos y1). pose proof (Rabs_pos y2). pose proof (Rabs_pos y3). nra. }
  assert (HX0 : 0 <= x1^2 + x2^2 + x3^2) by (pose proof (pow2_ge_0 x1); pose proof (pow2_ge_0 x2); pose proof (pow2_ge_0 x3); lra).
  assert (HY0 : 0 <= y1^2 + y2^2 + y3^2) by (pose proof (pow2_ge_0 y1); pose proof (pow2_ge_0 y2); pose proof (pow2_ge_0 y3); lra).
  assert (S2 : S^2 <= T * T) by nra.
  destruct (Rle_or_lt S T) as [|Hlt]; [assumption|]. exfalso. nra.
Qed.

(** the "2/sqrt 3" inequality: with w_i = x_j y_k + x_k y_j,
    |w|^2 <= (4/3) |x|^2 |y|^2 *)
Lemma w_norm x1 x2 x3 y1 y2 y3 :
  (x2*y3 + x3*y2)^2 + (x3*y1 + x1*y3)^2 + (x1*y2 + x2*y1)^2
  <= 4 / 3 * ((x1^2 + x2^2 + x3^2) * (y1^2 + y2^2 + y3^2)).
Proof.
  set (z1 := x1*y1). set (z2 := x2*y2). set (z3 := x3*y3).
  assert (E : 4 / 3 * ((x1^2 + x2^2 + x3^2) * (y1^2 + y2^2 + y3^2))
              - ((x2*y3 + x3*y2)^2 + (x3*y1 + x1*y3)^2 + (x1*y2 + x2*y1)^2)
            = / 3 * ((x1^2 + x2^2 + x3^2) * (y1^2 + y2^2 + y3^2))
              + 2 * (z1^2 + z2^2 + z3^2) - (z1 + z2 + z3)^2) by (unfold z1, z2, z3; field).
  pose proof (cs3 x1 x2 x3 y1 y2 y3) as C. fold z1 z2 z3 in C.
  assert (Q : (z1 + z2 + z3)^2 <= 3 * (z1^2 + z2^2 + z3^2)).
  { pose proof (pow2_ge_0 (z1 - z2)). pose proof (pow2_ge_0 (z1 - z3)). pose proof (pow2_ge_0 (z2 - z3)). nra. }
  nra.
Qed.


(** ** One component of the cross product: fl(fl(x*y) - fl(z*t)) *)
Lemma cross_comp x y z t mxy mzt p :
  near mxy (x*y) -> near mzt (z*t) -> near p (mxy - mzt) ->
  Rabs (p - (x*y - z*t))
    <= u * (1 + u) * (Rabs x * Rabs y + Rabs z * Rabs t) + u * Rabs (x*y - z*t) + 4 * eta.
Proof.
  unfold near. intros H1 H2 H3.
  rewrite <- !Rabs_mult.
  set (A := x*y) in *. set (B := z*t) in *.
  pose proof (Rabs_pos A). pose proof (Rabs_pos B). pose proof (Rabs_pos (A - B)).
  assert (D : Rabs (mxy - mzt) <= Rabs (A - B) + Rabs (mxy - A) + Rabs (mzt - B)).
  { replace (mxy - mzt) with ((A - B) + (mxy - A) + - (mzt - B)) by ring.
    eapply Rle_trans; [apply Rabs_triang|]. rewrite Rabs_Ropp.
    pose proof (Rabs_triang (A - B) (mxy - A)). lra. }
  assert (E : Rabs (p - (A - B)) <= Rabs (p - (mxy - mzt)) + Rabs (mxy - A) + Rabs (mzt - B)).
  { replace (p - (A - B)) with ((p - (mxy - mzt)) + (mxy - A) + - (mzt - B)) by ring.
    eapply Rle_trans; [apply Rabs_triang|]. rewrite Rabs_Ropp.
    pose proof (Rabs_triang (p - (mxy - mzt)) (mxy - A)). lra. }
  pose proof (Rabs_pos (mxy - A)). pose proof (Rabs_pos (mzt - B)). pose proof (Rabs_pos (mxy - mzt)).
  nra.
Qed.

(** ** The whole computation *)
Variables a1 a2 a3 b1 b2 b3 c1 c2 c3 : R.
Hypothesis NA : a1^2 + a2^2 + a3^2 <= 1 + theta.
Hypothesis NB : b1^2 + b2^2 + b3^2 <= 1 + theta.
Hypothesis NC : c1^2 + c2^2 + c3^2 <= 1 + theta.

Definition P1 := a2*b3 - a3*b2.
Definition P2 := a3*b1 - a1*b3.
Definition P3 := a1*b2 - a2*b1.
Definition det := P1*c1 + P2*c2 + P3*c3.

(** rational stand-ins for 2/sqrt 3 * (1+theta)^(3/2) and (1+theta)^(3/2) *)
Variables S3 N3 : R.
Hypothesis S3_ok : 0 <= S3 /\ 4 / 3 * ((1 + theta) * (1 + theta)) * (1 + theta) <= S3 * S3.
Hypothesis N3_ok : 0 <= N3 /\ (1 + theta) * (1 + theta) * (1 + theta) <= N3 * N3.
Hypothesis S3_le2 : S3 <= 2.  Hypothesis N3_le2 : N3 <= 2.

Definition w1 := Rabs a2 * Rabs b3 + Rabs a3 * Rabs b2.
Definition w2 := Rabs a3 * Rabs b1 + Rabs a1 * Rabs b3.
Definition w3 := Rabs a1 * Rabs b2 + Rabs a2 * Rabs b1.

Lemma abs_sq z : (Rabs z)^2 = z^2.
Proof. rewrite <- !Rsqr_pow2. symmetry. apply Rsqr_abs. Qed.

Lemma W_bound : w1 * Rabs c1 + w2 * Rabs c2 + w3 * Rabs c3 <= S3.
Proof.
  pose proof (w_norm (Rabs a1) (Rabs a2) (Rabs a3) (Rabs b1) (Rabs b2) (Rabs b3)) as Hw.
  rewrite !abs_sq in Hw. fold w1 w2 w3 in Hw.
  assert (W0 : 0 <= w1 /\ 0 <= w2 /\ 0 <= w3).
  { unfold w1, w2, w3. pose proof (Rabs_pos a1). pose proof (Rabs_pos a2). pose proof (Rabs_pos a3).
    pose proof (Rabs_pos b1). pose proof (Rabs_pos b2). pose proof (Rabs_pos b3). repeat split; nra. }
  destruct W0 as [W1 [W2 W3]].
  assert (HA0 : 0 <= a1^2 + a2^2 + a3^2) by (pose proof (pow2_ge_0 a1); pose proof (pow2_ge_0 a2); pose proof (pow2_ge_0 a3); lra).
  assert (HB0 : 0 <= b1^2 + b2^2 + b3^2) by (pose proof (pow2_ge_0 b1); pose proof (pow2_ge_0 b2); pose proof (pow2_ge_0 b3); lra).
  assert (Hw' : w1^2 + w2^2 + w3^2 <= 4 / 3 * ((1 + theta) * (1 + theta))) by nra.
  pose proof (abs_dot_le w1 w2 w3 c1 c2 c3 (4 / 3 * ((1 + theta) * (1 + theta))) (1 + theta) S3 Hw' NC (proj1 S3_ok)) as H.
  rewrite !(Rabs_pos_eq w1), !(Rabs_pos_eq w2), !(Rabs_pos_eq w3) in H by assumption.
  apply H. destruct S3_ok. lra.
Qed.

Lemma P_norm : P1^2 + P2^2 + P3^2 <= (1 + theta) * (1 + theta).
Proof.
  assert (E : (a1^2 + a2^2 + a3^2) * (b1^2 + b2^2 + b3^2) - (P1^2 + P2^2 + P3^2) = (a1*b1 + a2*b2 + a3*b3)^2)
    by (unfold P1, P2, P3; ring).
  pose proof (pow2_ge_0 (a1*b1 + a2*b2 + a3*b3)).
  assert (HA0 : 0 <= a1^2 + a2^2 + a3^2) by (pose proof (pow2_ge_0 a1); pose proof (pow2_ge_0 a2); pose proof (pow2_ge_0 a3); lra).
  assert (HB0 : 0 <= b1^2 + b2^2 + b3^2) by (pose proof (pow2_ge_0 b1); pose proof (pow2_ge_0 b2); pose proof (pow2_ge_0 b3); lra).
  nra.
Qed.

Lemma Q_bound : Rabs P1 * Rabs c1 + Rabs P2 * Rabs c2 + Rabs P3 * Rabs c3 <= N3.
Proof.
  apply (abs_dot_le P1 P2 P3 c1 c2 c3 ((1 + theta) * (1 + theta)) (1 + theta) N3 P_norm NC (proj1 N3_ok)).
  destruct N3_ok. lra.
Qed.

Lemma Cs_bound : Rabs c1 + Rabs c2 + Rabs c3 <= 2.
Proof.
  pose proof (abs_dot_le 1 1 1 c1 c2 c3 3 (1 + theta) 2) as H.
  rewrite !Rabs_R1, !Rmult_1_l in H. apply H; lra.
Qed.


(** computed values: each is [near] its exact counterpart *)
Variables m23 m32 m31 m13 m12 m21 p1 p2 p3 q1 q2 q3 sm : R.
Hypothesis H23 : near m23 (a2*b3).  Hypothesis H32 : near m32 (a3*b2).
Hypothesis H31 : near m31 (a3*b1).  Hypothesis H13 : near m13 (a1*b3).
Hypothesis H12 : near m12 (a1*b2).  Hypothesis H21 : near m21 (a2*b1).
Hypothesis Hp1 : near p1 (m23 - m32).
Hypothesis Hp2 : near p2 (m31 - m13).
Hypothesis Hp3 : near p3 (m12 - m21).
Hypothesis Hq1 : near q1 (p1*c1).  Hypothesis Hq2 : near q2 (p2*c2).  Hypothesis Hq3 : near q3 (p3*c3).
Hypothesis Hs : near sm (q1 + q2).

(** the value whose sign the last (sign-preserving) rounding keeps *)
Definition T := sm + q3.

Theorem triage_real :
  Rabs (T - det) <= u * (S3 + 5 / 2 * N3) + u / 2 * Rabs det + 60 * (u * u) + 30 * eta.
Proof.
  pose proof W_bound as HW. pose proof Q_bound as HQ. pose proof Cs_bound as HCs.
  set (W := w1 * Rabs c1 + w2 * Rabs c2 + w3 * Rabs c3) in *.
  set (Q := Rabs P1 * Rabs c1 + Rabs P2 * Rabs c2 + Rabs P3 * Rabs c3) in *.
  set (Cs := Rabs c1 + Rabs c2 + Rabs c3) in *.
  pose proof (cross_comp a2 b3 a3 b2 m23 m32 p1 H23 H32 Hp1) as E1. fold P1 w1 in E1.
  pose proof (cross_comp a3 b1 a1 b3 m31 m13 p2 H31 H13 Hp2) as E2. fold P2 w2 in E2.
  pose proof (cross_comp a1 b2 a2 b1 m12 m21 p3 H12 H21 Hp3) as E3. fold P3 w3 in E3.
  set (d1 := p1 - P1) in *. set (d2 := p2 - P2) in *. set (d3 := p3 - P3) in *.
  pose proof (Rabs_pos c1) as C1. pose proof (Rabs_pos c2) as C2. pose proof (Rabs_pos c3) as C3.
  pose proof (Rabs_pos P1) as PP1. pose proof (Rabs_pos P2) as PP2. pose proof (Rabs_pos P3) as PP3.
  pose proof (Rabs_pos d1) as D1. pose proof (Rabs_pos d2) as D2. pose proof (Rabs_pos d3) as D3.
  assert (W0 : 0 <= W).
  { unfold W, w1, w2, w3. repeat (apply Rplus_le_le_0_compat || apply Rmult_le_pos || apply Rabs_pos). }
  assert (Q0 : 0 <= Q).
  { unfold Q. repeat (apply Rplus_le_le_0_compat || apply Rmult_le_pos || apply Rabs_pos). }
  assert (Cs0 : 0 <= Cs) by (unfold Cs; lra).
  (* B1 bounds sum |d_i||c_i| *)
  set (B1 := u * (1 + u) * W + u * Q + 4 * eta * Cs).
  assert (HB1 : Rabs d1 * Rabs c1 + Rabs d2 * Rabs c2 + Rabs d3 * Rabs c3 <= B1).
  { unfold B1, W, Q, Cs.
    assert (Rabs d1 * Rabs c1 <= (u * (1 + u) * w1 + u * Rabs P1 + 4 * eta) * Rabs c1) by (apply Rmult_le_compat_r; lra).
    assert (Rabs d2 * Rabs c2 <= (u * (1 + u) * w2 + u * Rabs P2 + 4 * eta) * Rabs c2) by (apply Rmult_le_compat_r; lra).
    assert (Rabs d3 * Rabs c3 <= (u * (1 + u) * w3 + u * Rabs P3 + 4 * eta) * Rabs c3) by (apply Rmult_le_compat_r; lra).
    lra. }
  assert (B1_0 : 0 <= B1) by (unfold B1; nra).
  (* products p_i c_i *)
  assert (PC : forall p P d c, d = p - P -> Rabs (p * c) <= Rabs P * Rabs c + Rabs d * Rabs c).
  { intros p P d c Hd. replace p with (P + d) by (rewrite Hd; ring).
    rewrite Rabs_mult. pose proof (Rabs_triang P d). pose proof (Rabs_pos c). nra. }
  pose proof (PC p1 P1 d1 c1 eq_refl) as PC1. pose proof (PC p2 P2 d2 c2 eq_refl) as PC2. pose proof (PC p3 P3 d3 c3 eq_refl) as PC3.
  set (r1 := Rabs (p1 * c1)) in *. set (r2 := Rabs (p2 * c2)) in *. set (r3 := Rabs (p3 * c3)) in *.
  assert (R0 : 0 <= r1 /\ 0 <= r2 /\ 0 <= r3) by (unfold r1, r2, r3; repeat split; apply Rabs_pos).
  assert (HR : r1 + r2 + r3 <= Q + B1) by (unfold Q; lra).
  (* rounding errors of the three products and of the first addition *)
  unfold near in Hq1, Hq2, Hq3, Hs. fold r1 in Hq1. fold r2 in Hq2. fold r3 in Hq3.
  set (e1 := q1 - p1 * c1) in *. set (e2 := q2 - p2 * c2) in *. set (e3 := q3 - p3 * c3) in *.
  set (e4 := sm - (q1 + q2)) in *.
  (* sum p_i c_i versus det *)
  set (SP := p1 * c1 + p2 * c2 + p3 * c3).
  assert (HSP : Rabs (SP - det) <= B1).
  { replace (SP - det) with (d1 * c1 + d2 * c2 + d3 * c3) by (unfold SP, det, d1, d2, d3; ring).
    eapply Rle_trans; [apply Rabs_triang|]. eapply Rle_trans; [apply Rplus_le_compat_r, Rabs_triang|].
    rewrite !Rabs_mult. exact HB1. }
  (* first partial sum *)
  assert (H12' : Rabs (p1 * c1 + p2 * c2) <= / 2 * Rabs SP + / 2 * (r1 + r2 + r3)).
  { replace (p1 * c1 + p2 * c2) with (/ 2 * SP + / 2 * (p1 * c1 + p2 * c2 - p3 * c3)) by (unfold SP; field).
    eapply Rle_trans; [apply Rabs_triang|]. rewrite !Rabs_mult, (Rabs_pos_eq (/ 2)) by lra.
    assert (Rabs (p1 * c1 + p2 * c2 - p3 * c3) <= r1 + r2 + r3).
    { unfold r1, r2, r3. eapply Rle_trans; [apply Rabs_triang|]. rewrite Rabs_Ropp.
      pose proof (Rabs_triang (p1 * c1) (p2 * c2)). lra. }
    lra. }
  assert (HSPabs : Rabs SP <= Rabs det + B1).
  { replace SP with (det + (SP - det)) by ring. pose proof (Rabs_triang det (SP - det)). lra. }
  assert (Hq12 : Rabs (q1 + q2) <= / 2 * Rabs det + B1 + / 2 * Q + Rabs e1 + Rabs e2).
  { replace (q1 + q2) with ((p1 * c1 + p2 * c2) + e1 + e2) by (unfold e1, e2; ring).
    pose proof (Rabs_triang (p1 * c1 + p2 * c2 + e1) e2). pose proof (Rabs_triang (p1 * c1 + p2 * c2) e1). lra. }
  (* assemble *)
  assert (HT : T - det = (SP - det) + e1 + e2 + e3 + e4) by (unfold T, SP, e1, e2, e3, e4; ring).
  rewrite HT.
  assert (Tri : Rabs (SP - det + e1 + e2 + e3 + e4) <= Rabs (SP - det) + Rabs e1 + Rabs e2 + Rabs e3 + Rabs e4).
  { pose proof (Rabs_triang (SP - det + e1 + e2 + e3) e4). pose proof (Rabs_triang (SP - det + e1 + e2) e3).
    pose proof (Rabs_triang (SP - det + e1) e2). pose proof (Rabs_triang (SP - det) e1). lra. }
  pose proof (Rabs_pos e1). pose proof (Rabs_pos e2). pose proof (Rabs_pos e3). pose proof (Rabs_pos e4).
  pose proof (Rabs_pos det) as Dt0. pose proof (Rabs_pos (q1 + q2)).
  destruct R0 as [R1 [R2 R3]].
  (* numeric bounds for the second-order terms *)
  assert (Esum : Rabs e1 + Rabs e2 + Rabs e3 <= u * (Q + B1) + 3 * eta).
  { assert (u * (r1 + r2 + r3) <= u * (Q + B1)) by (apply Rmult_le_compat_l; lra). lra. }
  assert (E12 : Rabs e1 + Rabs e2 <= u * (Q + B1) + 2 * eta).
  { assert (u * (r1 + r2) <= u * (Q + B1)) by (apply Rmult_le_compat_l; lra). lra. }
  assert (E4 : Rabs e4 <= u * (/ 2 * Rabs det + B1 + / 2 * Q + (u * (Q + B1) + 2 * eta)) + eta).
  { assert (u * Rabs (q1 + q2) <= u * (/ 2 * Rabs det + B1 + / 2 * Q + (u * (Q + B1) + 2 * eta)))
      by (apply Rmult_le_compat_l; lra). lra. }
  eapply Rle_trans; [exact Tri|].
  assert (Main : Rabs (SP - det) + (Rabs e1 + Rabs e2 + Rabs e3) + Rabs e4
           <= B1 + (u * (Q + B1) + 3 * eta) + (u * (/ 2 * Rabs det + B1 + / 2 * Q + (u * (Q + B1) + 2 * eta)) + eta)) by lra.
  pose proof (final_ineq u eta W Q Cs S3 N3 (Rabs det) u_pos u_small eta_pos eta_small W0 HW S3_le2 Q0 HQ N3_le2 Cs0 HCs Dt0) as Final.
  cbv zeta in Final. fold B1 in Final. lra.
Qed.

End Core.
