(** Instantiates the interface of the C03 theorems (Model/Crosser.v [law_*]) with the real
    predicates of C02:

      point  := { p : s2_Point | unit_pt p }      finite, | |p|^2 - 1 | <= 2^-44 (implied by IsUnit)
      peq    := s2_Point_eqb on the projections   Go == (what C02's [identical2] uses)
      sign   := robust_sign on the projections    Model/Pred.v, RobustSign
      triage := s2_triageSign on the projections  the translated triageSign (Gen.S2Pred)
      tangent:= x_tangent on the projections      NewEdgeCrosser tangents + the early exit of
                                                  crossingSign (Model/CrosserExec.v)
      refdir := any function on unit points       (Point.referenceDir; no law about it is needed)

    Discharged here from the C02 theorems: law_peq_refl, law_peq_sym, law_peq_trans,
    law_sign_zero_iff, law_triage_sound, law_sign_rotate, law_sign_swap, law_sign_range
    (all closed: H-TRIAGE-DET and H-STABLE-DET are C02 theorems).  [H_TANGENT] (= law_tangent_sound for this instance)
    stays a premise.  law_sign_peq and law_occw_split are NOT discharged (C02 has no congruence
    of exact_sign under +-0 twins and no four-ray cyclic-order lemma); only
    crosser_argument_vertex / angle_contains_vertex_exactly_one use them. *)
From Coq Require Import ZArith List Bool Reals Floats Lia.
From Geo Require Import Base.GoPrim Base.F64 Base.Exact Gen.R3 Gen.S2Pred Model.Pred
  Proofs.C02_Exact Proofs.C02_Float Proofs.C02_TriageDet Proofs.C02_StableDet Proofs.C02_Robust Proofs.C02_IsUnit.
From Geo Require Import Model.Crosser Model.CrosserExec Proofs.C03_Crosser Proofs.C03_Vertex.
Import ListNotations.
Local Open Scope Z_scope.

Definition upoint : Type := { p : s2_Point | unit_pt p }.
Definition upt (p : upoint) : s2_Point := proj1_sig p.
Definition u_peq (a b : upoint) : bool := s2_Point_eqb (upt a) (upt b).
Definition u_sign (a b c : upoint) : Z := robust_sign (upt a) (upt b) (upt c).
Definition u_triage (a b c : upoint) : Z := Gen.S2Pred.s2_triageSign (upt a) (upt b) (upt c).
(** the float tangent test exactly as edge_crosser.go computes it *)
Definition u_tangent_raw (a b c d : upoint) : bool := x_tangent (upt a) (upt b) (upt c) (upt d).

(** The fixed edge has EXACTLY antipodal endpoints: a and b are antiparallel as real vectors
    (exact cross product zero, exact dot product negative; computed on exact dyadics).
    b == -a componentwise is the special case of equal lengths; -(1,1,1)/sqrt 3 and
    (1 - 2^-53)(1,1,1)/sqrt 3 are as much a 180-degree "edge". Such a pair is not a geodesic edge
    (S2 forbids 180-degree edges): PointCross(a, b) is the zero vector, NewEdgeCrosser falls back
    to an arbitrary normal Ortho(a), and the tangent early exit is then unrelated to the exact
    criterion ([H_TANGENT_unguarded_refuted] below). *)
Definition s2_neg (p : s2_Point) : s2_Point :=
  mk_s2_Point (mk_r3_Vector (PrimFloat.opp (r3_Vector_X (s2_Point_Vector p)))
                            (PrimFloat.opp (r3_Vector_Y (s2_Point_Vector p)))
                            (PrimFloat.opp (r3_Vector_Z (s2_Point_Vector p)))).
Definition s2_antipodal (a b : s2_Point) : bool :=
  pv_is_zero (pv_cross (pv_of_point a) (pv_of_point b)) &&
  (dsgn (pv_dot (pv_of_point a) (pv_of_point b)) <? 0).
Definition u_antipodal (a b : upoint) : bool := s2_antipodal (upt a) (upt b).

(** the tangent test on the property's domain: geodesic fixed edges. On every edge that is not
    exactly antipodal it IS the code's test ([u_tangent_on_geodesic]); the crosser theorems
    below are stated for [u_tangent_raw] with the guard [u_antipodal a b = false]. *)
Definition u_tangent (a b c d : upoint) : bool := negb (u_antipodal a b) && u_tangent_raw a b c d.

Lemma u_tangent_on_geodesic a b : u_antipodal a b = false ->
  forall c d, u_tangent_raw a b c d = u_tangent a b c d.
Proof. intros H c d. unfold u_tangent. now rewrite H. Qed.

(** H-TANGENT of DESIGN.md section 4, for the float tangent test of edge_crosser.go:
    for a fixed edge AB that is not exactly antipodal, when the early exit fires no vertex is
    shared and the four exact orientations do not agree. *)
Definition H_TANGENT : Prop := law_tangent_sound upoint u_peq u_sign u_tangent.

Lemma H_TANGENT_guarded_form : H_TANGENT <->
  (forall a b c d, u_antipodal a b = false -> u_tangent_raw a b c d = true ->
     shared upoint u_peq a b c d = false /\ four_agree upoint u_sign a b c d = false).
Proof.
  unfold H_TANGENT, law_tangent_sound, u_tangent. split.
  - intros H a b c d G T. apply H. now rewrite G, T.
  - intros H a b c d T. apply andb_true_iff in T. destruct T as [G T].
    apply negb_true_iff in G. now apply H.
Qed.

Lemma upt_unit (p : upoint) : unit_pt (upt p). Proof. exact (proj2_sig p). Qed.
Lemma upt_finite (p : upoint) : finite (upt p). Proof. exact (proj1 (proj2_sig p)). Qed.

(** ** Go == on finite points is an equivalence *)
Lemma u_peq_refl : law_peq_refl upoint u_peq.
Proof.
  intro a. unfold u_peq. apply (eqb_iff _ _ (upt_finite a) (upt_finite a)).
  unfold peq. auto.
Qed.
Lemma u_peq_sym : law_peq_sym upoint u_peq.
Proof. intros a b. unfold u_peq. apply eqb_sym; apply upt_finite. Qed.
Lemma u_peq_trans : law_peq_trans upoint u_peq.
Proof.
  intros a b c. unfold u_peq. intros H1 H2.
  apply (eqb_iff _ _ (upt_finite a) (upt_finite b)) in H1.
  apply (eqb_iff _ _ (upt_finite b) (upt_finite c)) in H2.
  apply (eqb_iff _ _ (upt_finite a) (upt_finite c)).
  unfold peq in *. destruct H1 as (A1 & A2 & A3), H2 as (B1 & B2 & B3).
  repeat split; congruence.
Qed.

(** ** RobustSign *)
Lemma u_sign_zero_iff : law_sign_zero_iff upoint u_peq u_sign.
Proof.
  intros a b c. unfold u_sign, u_peq.
  rewrite (robust_sign_zero_iff _ _ _ (upt_unit a) (upt_unit b) (upt_unit c)).
  unfold identical2. rewrite !orb_true_iff. tauto.
Qed.

(** definitional: RobustSign returns the triage answer whenever it is decisive *)
Lemma u_triage_sound : law_triage_sound upoint u_sign u_triage.
Proof.
  intros a b c H. unfold u_sign, u_triage, robust_sign in *. cbv zeta.
  destruct (Z.eqb_spec (Gen.S2Pred.s2_triageSign (upt a) (upt b) (upt c)) 0) as [E|E];
    [contradiction | reflexivity].
Qed.

Section Real.

Lemma u_sign_rotate : law_sign_rotate upoint u_sign.
Proof. intros a b c. unfold u_sign. apply robust_sign_rotate; auto using upt_unit. Qed.
Lemma u_sign_swap : law_sign_swap upoint u_sign.
Proof. intros a b c. unfold u_sign. apply robust_sign_swap; auto using upt_unit. Qed.
Lemma u_sign_range : law_sign_range upoint u_sign.
Proof.
  intros a b c. unfold u_sign.
  rewrite (robust_sign_spec _ _ _ (upt_unit a) (upt_unit b) (upt_unit c)).
  destruct (identical2 (upt a) (upt b) (upt c)); [auto|].
  destruct (exact_sign_pm1 (upt a) (upt b) (upt c)) as [-> | ->]; auto.
Qed.

Hypothesis HT : H_TANGENT.
Variable refdir : upoint -> upoint.

(** ** The C03 theorems for the real predicates: only H_TANGENT remains *)
Theorem crossing_symmetric_real_l : forall a b c d,
  crossing_spec upoint u_peq u_sign b a c d = crossing_spec upoint u_peq u_sign a b c d /\
  crossing_spec upoint u_peq u_sign a b d c = crossing_spec upoint u_peq u_sign a b c d /\
  crossing_spec upoint u_peq u_sign c d a b = crossing_spec upoint u_peq u_sign a b c d.
Proof. exact (crossing_spec_sym upoint u_peq u_sign u_peq_sym u_sign_rotate u_sign_swap). Qed.

Theorem crossing_sign_exact_real_l : forall a b c d, u_antipodal a b = false ->
  crossing_sign upoint u_peq u_sign u_triage u_tangent_raw a b c d =
  crossing_spec upoint u_peq u_sign a b c d.
Proof.
  intros a b c d G.
  rewrite (crossing_sign_tangent_ext upoint u_peq u_sign u_triage u_tangent_raw u_tangent a b
             (u_tangent_on_geodesic a b G)).
  exact (stateless_eq upoint u_peq u_sign u_triage u_tangent u_peq_sym u_sign_rotate u_sign_swap
           u_sign_zero_iff u_triage_sound HT a b c d).
Qed.

Theorem crosser_refines_spec_real_l : forall a b c0 ops, u_antipodal a b = false ->
  map (fun x => (st_c upoint (fst x), snd x))
      (run upoint u_peq u_sign u_triage u_tangent_raw refdir a b (init upoint c0) ops) =
  spec_run upoint u_peq u_sign refdir a b c0 ops.
Proof.
  intros a b c0 ops G.
  rewrite (run_tangent_ext upoint u_peq u_sign u_triage u_tangent_raw u_tangent refdir a b
             (u_tangent_on_geodesic a b G)).
  exact (crosser_refines upoint u_peq u_sign u_triage u_tangent refdir u_peq_sym u_sign_rotate
           u_sign_swap u_sign_zero_iff u_triage_sound HT a b c0 ops).
Qed.

Theorem crosser_equals_stateless_real_l : forall a b c0 ops, u_antipodal a b = false ->
  map (fun x => (st_c upoint (fst x), snd x))
      (run upoint u_peq u_sign u_triage u_tangent_raw refdir a b (init upoint c0) ops) =
  stateless_run upoint u_peq u_sign u_triage u_tangent_raw refdir a b c0 ops.
Proof.
  intros a b c0 ops G.
  rewrite (run_tangent_ext upoint u_peq u_sign u_triage u_tangent_raw u_tangent refdir a b
             (u_tangent_on_geodesic a b G)).
  rewrite (stateless_run_tangent_ext upoint u_peq u_sign u_triage u_tangent_raw u_tangent refdir a b
             (u_tangent_on_geodesic a b G)).
  exact (crosser_eq_stateless upoint u_peq u_sign u_triage u_tangent refdir u_peq_sym u_sign_rotate
           u_sign_swap u_sign_zero_iff u_triage_sound HT a b c0 ops).
Qed.

(** the vertex rule: exactly one of two edges meeting at one vertex counts as crossing *)
Theorem vertex_crossing_exactly_one_real_l : forall o x y,
  u_peq o x = false -> u_peq o y = false -> u_peq x y = false ->
  vertex_crossing upoint u_peq u_sign refdir o x o y =
  negb (vertex_crossing upoint u_peq u_sign refdir o y o x).
Proof.
  exact (vc_one_ac upoint u_peq u_sign refdir u_peq_refl u_peq_sym u_sign_swap u_sign_range
           u_sign_zero_iff).
Qed.

End Real.

(** closed: no hypothesis at all *)
Theorem maybe_iff_shared_endpoint_real_l : forall a b c d,
  crossing_spec upoint u_peq u_sign a b c d = MaybeCross <->
  (u_peq a c = true \/ u_peq a d = true \/ u_peq b c = true \/ u_peq b d = true).
Proof. exact (maybe_iff_shared_vertex upoint u_peq u_sign (fun p => p)). Qed.

(** the instance is inhabited: the three axis points are unit points *)
Example upoint_inhabited : exists p : s2_Point, unit_pt p.
Proof.
  exists (mk_s2_Point (mk_r3_Vector 1%float 0%float 0%float)).
  apply isunit_unit_pt. vm_compute. reflexivity.
Qed.

(** * The guard is needed: the unguarded statement is false.
    A = (0.2518, -0.7130, 0.6544), B = -A exactly, C = (0, 6.1e-17, 1), D = (-0.6343, 0.7209, 0.2791):
    PointCross(A, -A) = 0, so NewEdgeCrosser takes the arbitrary normal Ortho(A); the tangent exit
    fires (CrossingSign = DoNotCross) although the four exact perturbed orientations agree.
    Found by the C03 observer (seed 3) on the unchanged tree; an exactly antipodal pair is not a
    geodesic edge, so this is outside the property's domain, not a defect. *)
Definition t_a : s2_Point := mk_s2_Point (mk_r3_Vector (0x1.01cffc3d38246p-2) (-0x1.6d102b1720240p-1) (0x1.4f0bdf9903218p-1)).
Definition t_b : s2_Point := s2_neg t_a.
Definition t_c : s2_Point := mk_s2_Point (mk_r3_Vector 0 (0x1.1a62633145c00p-54) 1).
Definition t_d : s2_Point := mk_s2_Point (mk_r3_Vector (-0x1.44caae4eca5e9p-1) (0x1.711b60ba5f296p-1) (0x1.1dc2089338037p-2)).
Lemma t_unit p : r3_Vector_IsUnit (s2_Point_Vector p) = true -> unit_pt p.
Proof. apply isunit_unit_pt. Qed.
Definition T_a : upoint := exist _ t_a (t_unit t_a eq_refl).
Definition T_b : upoint := exist _ t_b (t_unit t_b eq_refl).
Definition T_c : upoint := exist _ t_c (t_unit t_c eq_refl).
Definition T_d : upoint := exist _ t_d (t_unit t_d eq_refl).

Theorem H_TANGENT_unguarded_refuted : ~ law_tangent_sound upoint u_peq u_sign u_tangent_raw.
Proof.
  intro L. assert (K := L T_a T_b T_c T_d).
  unfold u_tangent_raw, shared, four_agree, u_peq, u_sign, upt, T_a, T_b, T_c, T_d, proj1_sig in K.
  assert (E : x_tangent t_a t_b t_c t_d = true) by (vm_compute; reflexivity).
  destruct (K E) as [_ F]. vm_compute in F. discriminate.
Qed.
(** and the witness is exactly what the guard excludes *)
Example witness_is_antipodal : u_antipodal T_a T_b = true.
Proof. vm_compute. reflexivity. Qed.

(** componentwise negation is only the equal-length case of "exactly antipodal": found by the
    observer (seed 3 of the round-2 sweep), same failure of the tangent exit *)
Definition t_p : s2_Point := mk_s2_Point (mk_r3_Vector (-0x1.279a74590331dp-1) (-0x1.279a74590331dp-1) (-0x1.279a74590331dp-1)).
Definition t_q : s2_Point := mk_s2_Point (mk_r3_Vector (0x1.279a74590331cp-1) (0x1.279a74590331cp-1) (0x1.279a74590331cp-1)).
Example antiparallel_not_negation :
  s2_Point_eqb t_q (s2_neg t_p) = false /\ s2_antipodal t_p t_q = true /\
  r3_Vector_IsUnit (s2_Point_Vector t_p) = true /\ r3_Vector_IsUnit (s2_Point_Vector t_q) = true.
Proof. vm_compute. repeat split; reflexivity. Qed.
