(** C19, r2.Rect: component-wise lift of the r1.Interval theorems (Proofs/C19_R1.v).
    A point of the plane is a pair of non-NaN floats; membership is defined on ranks,
    independently of the code's ContainsPoint. *)
From Coq Require Import ZArith Reals Floats Lra Bool List.
From Geo Require Import Base.GoPrim Base.F64 Gen.R1 Gen.R2 Proofs.C19_R1.
Local Open Scope R_scope.

Definition wf_r2 (r : r2_Rect) : Prop := wf1 (r2_Rect_X r) /\ wf1 (r2_Rect_Y r).
(** the code's IsValid: X is empty iff Y is empty *)
Definition valid_r2 (r : r2_Rect) : Prop :=
  wf_r2 r /\ r1_Interval_IsEmpty (r2_Rect_X r) = r1_Interval_IsEmpty (r2_Rect_Y r).
Definition mem_r2 (r : r2_Rect) (px py : PrimFloat.float) : Prop :=
  mem1 (r2_Rect_X r) px /\ mem1 (r2_Rect_Y r) py.

Lemma r2_valid_iff r : wf_r2 r -> (r2_Rect_IsValid r = true <-> valid_r2 r).
Proof.
  intros W. unfold r2_Rect_IsValid, valid_r2. rewrite Bool.eqb_true_iff. tauto.
Qed.

(** r1 facts not in C19_R1 *)
Lemma r1_nonempty_witness i : wf1 i -> r1_Interval_IsEmpty i = false ->
  nonnan (r1_Interval_Lo i) /\ mem1 i (r1_Interval_Lo i).
Proof.
  destruct i as [lo hi]. r1_unfold. simpl. intros [Hl Hh] E. float_cmp_to_R. split; [assumption|lra].
Qed.
Lemma r1_mem_nonempty i p : wf1 i -> nonnan p -> mem1 i p -> r1_Interval_IsEmpty i = false.
Proof.
  intros W Np Hm. destruct (r1_Interval_IsEmpty i) eqn:E; [|reflexivity].
  exfalso. apply (proj1 (isempty_spec i W) E p Np Hm).
Qed.
Lemma r1_union_isempty a b : wf1 a -> wf1 b ->
  r1_Interval_IsEmpty (r1_Interval_Union a b) = r1_Interval_IsEmpty a && r1_Interval_IsEmpty b.
Proof.
  intros Wa Wb. destruct (r1_Interval_IsEmpty a) eqn:Ea.
  - unfold r1_Interval_Union. rewrite Ea. reflexivity.
  - simpl. destruct (r1_nonempty_witness a Wa Ea) as [N M].
    apply (r1_mem_nonempty _ (r1_Interval_Lo a)); [apply union_wf; assumption|assumption|].
    apply union_sound; auto.
Qed.
Lemma r1_addpoint_nonempty i p : wf1 i -> nonnan p ->
  r1_Interval_IsEmpty (r1_Interval_AddPoint i p) = false.
Proof.
  intros W Np. apply (r1_mem_nonempty _ p); [apply addpoint_wf; assumption|assumption|].
  apply addpoint_sound; auto.
Qed.
Lemma r1_empty_wf : wf1 r1_EmptyInterval. Proof. split; reflexivity. Qed.
Lemma r1_empty_no_member p : nonnan p -> ~ mem1 r1_EmptyInterval p.
Proof. intros Np. apply (proj1 (isempty_spec _ r1_empty_wf) empty_is_empty p Np). Qed.

(** * ContainsPoint is membership *)
Lemma r2_contains_point_mem r p : wf_r2 r -> nonnan (r2_Point_X p) -> nonnan (r2_Point_Y p) ->
  (r2_Rect_ContainsPoint r p = true <-> mem_r2 r (r2_Point_X p) (r2_Point_Y p)).
Proof.
  intros [Wx Wy] Nx Ny. unfold r2_Rect_ContainsPoint, mem_r2. rewrite andb_true_iff.
  rewrite (contains_mem _ _ Wx Nx), (contains_mem _ _ Wy Ny). tauto.
Qed.

Lemma r2_isempty_spec r : valid_r2 r ->
  (r2_Rect_IsEmpty r = true <-> forall px py, nonnan px -> nonnan py -> ~ mem_r2 r px py).
Proof.
  intros [[Wx Wy] E]. unfold r2_Rect_IsEmpty, mem_r2. split.
  - intros H px py Nx Ny [Mx _]. apply (proj1 (isempty_spec _ Wx) H px Nx Mx).
  - intros Hall. destruct (r1_Interval_IsEmpty (r2_Rect_X r)) eqn:Ex; [reflexivity|exfalso].
    destruct (r1_nonempty_witness _ Wx Ex) as [Nx Mx].
    destruct (r1_nonempty_witness _ Wy (eq_sym E)) as [Ny My].
    apply (Hall _ _ Nx Ny). split; assumption.
Qed.

(** * Union / AddRect *)
Lemma r2_union_valid a b : valid_r2 a -> valid_r2 b -> valid_r2 (r2_Rect_Union a b).
Proof.
  intros [[Wax Way] Ea] [[Wbx Wby] Eb]. unfold r2_Rect_Union, valid_r2, wf_r2. simpl.
  repeat split; try (apply union_wf; assumption).
  rewrite !r1_union_isempty by assumption. rewrite Ea, Eb. reflexivity.
Qed.
Lemma r2_union_sound a b px py : wf_r2 a -> wf_r2 b -> nonnan px -> nonnan py ->
  mem_r2 a px py \/ mem_r2 b px py -> mem_r2 (r2_Rect_Union a b) px py.
Proof.
  intros [Wax Way] [Wbx Wby] Nx Ny H. unfold r2_Rect_Union, mem_r2 in *. simpl.
  split; apply union_sound; auto; tauto.
Qed.
Lemma r2_addrect_is_union a b : r2_Rect_AddRect a b = r2_Rect_Union a b.
Proof. reflexivity. Qed.

(** * Intersection: exactly the common points *)
Lemma r2_empty_valid : valid_r2 r2_EmptyRect.
Proof. repeat split. Qed.
Lemma r2_empty_no_member px py : nonnan px -> nonnan py -> ~ mem_r2 r2_EmptyRect px py.
Proof. intros Nx Ny [H _]. apply (r1_empty_no_member px Nx H). Qed.

Lemma r2_intersection_valid a b : wf_r2 a -> wf_r2 b -> valid_r2 (r2_Rect_Intersection a b).
Proof.
  intros [Wax Way] [Wbx Wby]. unfold r2_Rect_Intersection.
  destruct (r1_Interval_IsEmpty (r1_Interval_Intersection (r2_Rect_X a) (r2_Rect_X b))) eqn:Ex;
  [apply r2_empty_valid|].
  destruct (r1_Interval_IsEmpty (r1_Interval_Intersection (r2_Rect_Y a) (r2_Rect_Y b))) eqn:Ey;
  [apply r2_empty_valid|].
  simpl. unfold valid_r2, wf_r2. simpl. rewrite Ex, Ey.
  repeat split; apply intersection_wf; assumption.
Qed.
Lemma r2_intersection_exact a b px py : wf_r2 a -> wf_r2 b -> nonnan px -> nonnan py ->
  (mem_r2 (r2_Rect_Intersection a b) px py <-> mem_r2 a px py /\ mem_r2 b px py).
Proof.
  intros [Wax Way] [Wbx Wby] Nx Ny. unfold r2_Rect_Intersection.
  pose proof (intersection_exact (r2_Rect_X a) (r2_Rect_X b) px Wax Wbx Nx) as Ix.
  pose proof (intersection_exact (r2_Rect_Y a) (r2_Rect_Y b) py Way Wby Ny) as Iy.
  pose proof (intersection_wf _ _ Wax Wbx) as Wx. pose proof (intersection_wf _ _ Way Wby) as Wy.
  destruct (r1_Interval_IsEmpty (r1_Interval_Intersection (r2_Rect_X a) (r2_Rect_X b))) eqn:Ex.
  { simpl. split; [intros H; exfalso; apply (r2_empty_no_member px py Nx Ny H)|].
    unfold mem_r2. intros [[? ?] [? ?]]. exfalso.
    apply (proj1 (isempty_spec _ Wx) Ex px Nx). apply Ix. tauto. }
  destruct (r1_Interval_IsEmpty (r1_Interval_Intersection (r2_Rect_Y a) (r2_Rect_Y b))) eqn:Ey.
  { simpl. split; [intros H; exfalso; apply (r2_empty_no_member px py Nx Ny H)|].
    unfold mem_r2. intros [[? ?] [? ?]]. exfalso.
    apply (proj1 (isempty_spec _ Wy) Ey py Ny). apply Iy. tauto. }
  simpl. unfold mem_r2. simpl. tauto.
Qed.

(** * Contains (rect) is the subset relation; Intersects is a common point *)
Lemma r2_contains_spec a b : wf_r2 a -> valid_r2 b ->
  (r2_Rect_Contains a b = true <->
   forall px py, nonnan px -> nonnan py -> mem_r2 b px py -> mem_r2 a px py).
Proof.
  intros [Wax Way] [[Wbx Wby] Eb]. unfold r2_Rect_Contains, mem_r2. rewrite andb_true_iff.
  rewrite (contains_interval_spec _ _ Wax Wbx), (contains_interval_spec _ _ Way Wby). split.
  - intros [Hx Hy] px py Nx Ny [Mx My]. split; [apply Hx|apply Hy]; assumption.
  - intros Hall. destruct (r1_Interval_IsEmpty (r2_Rect_X b)) eqn:Ex.
    + split; intros p Np Hm; exfalso.
      * apply (proj1 (isempty_spec _ Wbx) Ex p Np Hm).
      * apply (proj1 (isempty_spec _ Wby) (eq_sym Eb) p Np Hm).
    + destruct (r1_nonempty_witness _ Wbx Ex) as [Nx0 Mx0].
      destruct (r1_nonempty_witness _ Wby (eq_sym Eb)) as [Ny0 My0].
      split; intros p Np Hm.
      * apply (Hall p _ Np Ny0). split; assumption.
      * apply (Hall _ p Nx0 Np). split; assumption.
Qed.

Lemma r2_intersects_spec a b : wf_r2 a -> wf_r2 b ->
  (r2_Rect_Intersects a b = true <->
   exists px py, nonnan px /\ nonnan py /\ mem_r2 a px py /\ mem_r2 b px py).
Proof.
  intros [Wax Way] [Wbx Wby]. unfold r2_Rect_Intersects, mem_r2. rewrite andb_true_iff.
  rewrite (intersects_spec _ _ Wax Wbx), (intersects_spec _ _ Way Wby). split.
  - intros [[px [Nx [? ?]]] [py [Ny [? ?]]]]. exists px, py. tauto.
  - intros [px [py [Nx [Ny [[? ?] [? ?]]]]]]. split; [exists px|exists py]; tauto.
Qed.

(** * AddPoint, ClampPoint *)
Lemma r2_addpoint_valid r p : wf_r2 r -> nonnan (r2_Point_X p) -> nonnan (r2_Point_Y p) ->
  valid_r2 (r2_Rect_AddPoint r p).
Proof.
  intros [Wx Wy] Nx Ny. unfold r2_Rect_AddPoint, valid_r2, wf_r2. simpl.
  rewrite !r1_addpoint_nonempty by assumption.
  repeat split; apply addpoint_wf; assumption.
Qed.
Lemma r2_addpoint_sound r p qx qy : wf_r2 r -> nonnan (r2_Point_X p) -> nonnan (r2_Point_Y p) ->
  nonnan qx -> nonnan qy ->
  mem_r2 r qx qy \/ (rank qx = rank (r2_Point_X p) /\ rank qy = rank (r2_Point_Y p)) ->
  mem_r2 (r2_Rect_AddPoint r p) qx qy.
Proof.
  intros [Wx Wy] Nx Ny Nqx Nqy H. unfold r2_Rect_AddPoint, mem_r2 in *. simpl.
  split; apply addpoint_sound; auto; tauto.
Qed.
Lemma r2_clamp_inside r p : wf_r2 r -> valid_r2 r -> r2_Rect_IsEmpty r = false ->
  nonnan (r2_Point_X p) -> nonnan (r2_Point_Y p) ->
  let q := r2_Rect_ClampPoint r p in
  nonnan (r2_Point_X q) /\ nonnan (r2_Point_Y q) /\ mem_r2 r (r2_Point_X q) (r2_Point_Y q).
Proof.
  intros [Wx Wy] [_ E] Ne Nx Ny. unfold r2_Rect_IsEmpty in Ne. simpl.
  destruct (clamp_lands_inside _ _ Wx Nx Ne) as [N1 M1].
  rewrite E in Ne. destruct (clamp_lands_inside _ _ Wy Ny Ne) as [N2 M2].
  unfold mem_r2. tauto.
Qed.

Example ex_r2_valid : valid_r2 (mk_r2_Rect (mk_r1_Interval 0%float 1%float) (mk_r1_Interval (-1)%float 1%float)).
Proof. repeat split. Qed.

(** * Interior predicates: the interior of [lo,hi] is the open interval, a set lies in the
    interior iff all its points do (r1, then component-wise for r2) *)
Definition int1 (i : r1_Interval) (p : PrimFloat.float) : Prop :=
  rank (r1_Interval_Lo i) < rank p < rank (r1_Interval_Hi i).
Definition int_r2 (r : r2_Rect) (px py : PrimFloat.float) : Prop :=
  int1 (r2_Rect_X r) px /\ int1 (r2_Rect_Y r) py.

Lemma r1_interior_contains_mem i p : wf1 i -> nonnan p ->
  (r1_Interval_InteriorContains i p = true <-> int1 i p).
Proof.
  destruct i as [lo hi]. unfold int1. r1_unfold. simpl. intros [Hl Hh] Hp. split.
  - intros H. split_cmp. float_cmp_to_R. lra.
  - intros [H1 H2]. split_cmp; float_cmp_to_R; lra.
Qed.

Lemma r1_interior_contains_interval_spec a b : wf1 a -> wf1 b ->
  (r1_Interval_InteriorContainsInterval a b = true <-> forall p, nonnan p -> mem1 b p -> int1 a p).
Proof.
  destruct a as [al ah], b as [bl bh]. unfold int1. r1_unfold. r1_unfold. simpl. intros [? ?] [? ?]. split.
  - intros Hc p Hp Hm. split_cmp; float_cmp_to_R; lra.
  - intros Hall. split_cmp; try reflexivity; float_cmp_to_R.
    + destruct (Hall bl) as [? ?]; auto; lra.
    + destruct (Hall bh) as [? ?]; auto; lra.
Qed.

Lemma r2_interior_contains_point_mem r p : wf_r2 r -> nonnan (r2_Point_X p) -> nonnan (r2_Point_Y p) ->
  (r2_Rect_InteriorContainsPoint r p = true <-> int_r2 r (r2_Point_X p) (r2_Point_Y p)).
Proof.
  intros [Wx Wy] Nx Ny. unfold r2_Rect_InteriorContainsPoint, int_r2. rewrite andb_true_iff.
  rewrite (r1_interior_contains_mem _ _ Wx Nx), (r1_interior_contains_mem _ _ Wy Ny). tauto.
Qed.

Lemma r2_interior_contains_iff a b : wf_r2 a -> valid_r2 b ->
  (r2_Rect_InteriorContains a b = true <->
   forall px py, nonnan px -> nonnan py -> mem_r2 b px py -> int_r2 a px py).
Proof.
  intros [Wax Way] [[Wbx Wby] Eb]. unfold r2_Rect_InteriorContains, mem_r2, int_r2. rewrite andb_true_iff.
  rewrite (r1_interior_contains_interval_spec _ _ Wax Wbx), (r1_interior_contains_interval_spec _ _ Way Wby). split.
  - intros [Hx Hy] px py Nx Ny [Mx My]. split; [apply Hx|apply Hy]; assumption.
  - intros Hall. destruct (r1_Interval_IsEmpty (r2_Rect_X b)) eqn:Ex.
    + split; intros p Np Hm; exfalso.
      * apply (proj1 (isempty_spec _ Wbx) Ex p Np Hm).
      * apply (proj1 (isempty_spec _ Wby) (eq_sym Eb) p Np Hm).
    + destruct (r1_nonempty_witness _ Wbx Ex) as [Nx0 Mx0].
      destruct (r1_nonempty_witness _ Wby (eq_sym Eb)) as [Ny0 My0].
      split; intros p Np Hm.
      * apply (Hall p _ Np Ny0). split; assumption.
      * apply (Hall _ p Nx0 Np). split; assumption.
Qed.
