(** C09 — the bit conversions of Base/GoPrim.v (discharge of H_f64_bits_frombits):
    [go_float64bits (go_float64frombits x) = x] for every 64-bit pattern whose exponent field
    is not all ones (every finite float, zeros and subnormals included).  NaN patterns are
    outside: [go_float64frombits] maps all of them to the one NaN of Coq's primitive floats and
    [go_float64bits] returns the canonical pattern for it — the vertex decoders reject such
    coordinates (4fc5f5f), and the model carries coordinates as bit patterns, never through
    this conversion, except in the cell-centre test. *)
From Coq Require Import ZArith Reals Floats Lia Lra Psatz Bool.
From Flocq Require Import Core.Core IEEE754.BinarySingleNaN IEEE754.PrimFloat.
From Geo Require Import Base.GoPrim Model.Codec.
Local Open Scope Z_scope.

Notation BNorm := (@binary_normalize prec emax Hprec Hmax mode_NE).

(** a canonical (mantissa, exponent) pair normalises to itself *)
Lemma normalize_canonical (M : positive) (e : Z) (H : SpecFloat.bounded prec emax M e = true) :
  Prim2SF (float_of_Z_scaled (Z.pos M) e) = S754_finite false M e.
Proof.
  unfold float_of_Z_scaled. rewrite binary_normalize_equiv.
  set (z := BNorm (Z.pos M) e false). set (t := B754_finite false M e H : binary_float prec emax).
  assert (E : z = t).
  { pose proof (binary_normalize_correct prec emax Hprec Hmax mode_NE (Z.pos M) e false) as C. cbv zeta in C.
    fold z in C.
    assert (G : generic_format radix2 (SpecFloat.fexp prec emax) (F2R (Float radix2 (Z.pos M) e))) by exact (generic_format_B2R prec emax t).
    rewrite round_generic in C by (auto; apply valid_rnd_N).
    rewrite Rlt_bool_true in C by exact (abs_B2R_lt_emax prec emax t).
    destruct C as (R & F & S).
    apply B2R_Bsign_inj; auto.
    rewrite S. rewrite Rcompare_Gt; [reflexivity|]. apply F2R_gt_0. reflexivity. }
  rewrite E. unfold t. cbn [B2SF]. apply Prim2SF_SF2Prim. exact H.
Qed.

Lemma bounded_normal m e : 2 ^ 52 <= Z.pos m < 2 ^ 53 -> -1074 <= e <= 971 -> SpecFloat.bounded prec emax m e = true.
Proof.
  intros Hm He. unfold SpecFloat.bounded, SpecFloat.canonical_mantissa. apply andb_true_iff. split.
  - apply Zeq_bool_true. rewrite Zpos_digits2_pos.
    rewrite (Zdigits_unique radix2 (Z.pos m) 53) by (cbn [Z.abs]; change (Zpower radix2 (53 - 1)) with (2 ^ 52); change (Zpower radix2 53) with (2 ^ 53); lia).
    unfold SpecFloat.fexp, SpecFloat.emin, prec, emax. lia.
  - apply Zle_bool_true. unfold emax, prec. lia.
Qed.

Lemma bounded_subnormal m : Z.pos m < 2 ^ 52 -> SpecFloat.bounded prec emax m (-1074) = true.
Proof.
  intros Hm. unfold SpecFloat.bounded, SpecFloat.canonical_mantissa. apply andb_true_iff. split.
  - apply Zeq_bool_true. rewrite Zpos_digits2_pos.
    pose proof (Zdigits_le_Zpower radix2 52 (Z.pos m) ltac:(cbn [Z.abs]; change (Zpower radix2 52) with (2 ^ 52); lia)).
    unfold SpecFloat.fexp, SpecFloat.emin, prec, emax. lia.
  - reflexivity.
Qed.

Lemma prim2sf_opp x : Prim2SF (PrimFloat.opp x) = SFopp (Prim2SF x).
Proof. apply FloatAxioms.opp_spec. Qed.

Theorem f64_bits_frombits x : 0 <= x < 2 ^ 64 -> nonfinite_bits x = false ->
  go_float64bits (go_float64frombits x) = x.
Proof.
  intros Hx Hf. unfold nonfinite_bits in Hf. apply Z.eqb_neq in Hf.
  unfold go_float64frombits. cbv zeta.
  set (ex := (x / 2 ^ 52) mod 2048) in *. set (mant := x mod 2 ^ 52).
  replace (ex =? 2047) with false by (symmetry; now apply Z.eqb_neq).
  assert (Hex : 0 <= ex < 2047) by (unfold ex; pose proof (Z.mod_pos_bound (x / 2 ^ 52) 2048); lia).
  assert (Hmant : 0 <= mant < 2 ^ 52) by (unfold mant; apply Z.mod_pos_bound; lia).
  (* x = sign * 2^63 + ex * 2^52 + mant *)
  assert (Hdec : x = (if 2 ^ 63 <=? x then 2 ^ 63 else 0) + ex * 2 ^ 52 + mant).
  { unfold ex, mant. change (2 ^ 52) with 4503599627370496. change (2 ^ 63) with 9223372036854775808.
    change (2 ^ 64) with 18446744073709551616 in Hx.
    destruct (9223372036854775808 <=? x) eqn:S; [apply Z.leb_le in S|apply Z.leb_gt in S]; Z.div_mod_to_equations; lia. }
  (* magnitude *)
  assert (Hmag : forall mag sf, Prim2SF mag = sf ->
            Prim2SF (if 2 ^ 63 <=? x then PrimFloat.opp mag else mag) = (if 2 ^ 63 <=? x then SFopp sf else sf)).
  { intros mag sf <-. destruct (2 ^ 63 <=? x); [apply prim2sf_opp|reflexivity]. }
  destruct (ex =? 0) eqn:E0.
  - apply Z.eqb_eq in E0. rewrite E0 in Hdec.
    destruct (Z.eq_dec mant 0) as [M0|M0].
    + rewrite M0 in *. unfold go_float64bits.
      rewrite (Hmag _ (S754_zero false)) by reflexivity.
      destruct (2 ^ 63 <=? x); cbn [SFopp negb]; lia.
    + destruct mant as [|M|M] eqn:EM; try lia.
      unfold go_float64bits.
      rewrite (Hmag _ _ (normalize_canonical M (-1074) (bounded_subnormal M ltac:(lia)))).
      destruct (2 ^ 63 <=? x); cbn [SFopp negb];
        (replace (Z.pos M <? 2 ^ 52) with true by (symmetry; apply Z.ltb_lt; lia)); lia.
  - apply Z.eqb_neq in E0.
    assert (HM : 2 ^ 52 <= mant + 2 ^ 52 < 2 ^ 53) by (change (2 ^ 53) with (2 * 2 ^ 52); lia).
    destruct (mant + 2 ^ 52) as [|M|M] eqn:EM; try lia.
    unfold go_float64bits.
    rewrite (Hmag _ _ (normalize_canonical M (ex - 1075) (bounded_normal M (ex - 1075) HM ltac:(lia)))).
    destruct (2 ^ 63 <=? x); cbn [SFopp negb];
      (replace (Z.pos M <? 2 ^ 52) with false by (symmetry; apply Z.ltb_ge; lia)); lia.
Qed.
