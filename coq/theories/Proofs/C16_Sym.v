(** C16: exact IEEE-754 identities behind the order independence of s2.Intersection, and the
    symmetry of the sub-functions of the stable path.  Everything here is an equality of
    primitive floats (or equality up to the sign of a zero), derived from Coq's FloatAxioms
    specification (SpecFloat) — no rounding-error analysis. *)
From Coq Require Import ZArith Reals Floats SpecFloat Lra Lia Bool List.
From Geo Require Import Base.GoPrim Base.F64 Gen.R3 Gen.S2Point Gen.Isect Model.IsectExact.
From Flocq Require Import Core.Raux.
From Geo Require Import Proofs.C16_Coll.
Local Open Scope float_scope.

(** * SpecFloat level *)
Section SF.
Let prec := 53%Z.
Let emax := 1024%Z.

Lemma binary_round_aux_opp s m e l :
  binary_round_aux prec emax (negb s) m e l = SFopp (binary_round_aux prec emax s m e l).
Proof.
  unfold binary_round_aux.
  destruct (shr_fexp prec emax m e l) as [mrs' e'].
  destruct (shr_fexp prec emax (round_nearest_even (shr_m mrs') (loc_of_shr_record mrs')) e' loc_Exact) as [mrs'' e''].
  destruct (shr_m mrs''); try reflexivity.
  destruct (Zle_bool e'' (emax - prec)); reflexivity.
Qed.

Lemma binary_round_opp s m e :
  binary_round prec emax (negb s) m e = SFopp (binary_round prec emax s m e).
Proof.
  unfold binary_round. destruct (shl_align m e _) as [mz ez]. apply binary_round_aux_opp.
Qed.

Lemma binary_normalize_opp m e : m <> 0%Z ->
  binary_normalize prec emax (- m) e false = SFopp (binary_normalize prec emax m e false).
Proof.
  destruct m; intros H; [congruence| |]; simpl.
  - apply (binary_round_opp false).
  - change (binary_round prec emax false p e = SFopp (binary_round prec emax (negb false) p e)).
    rewrite binary_round_opp. now destruct (binary_round prec emax false p e) as [[|]|[|]| |[|] ? ?].
Qed.

Lemma SFopp_involutive x : SFopp (SFopp x) = x.
Proof. destruct x as [[|]|[|]| |[|] ? ?]; reflexivity. Qed.

Lemma SFmul_comm x y : SFmul prec emax x y = SFmul prec emax y x.
Proof.
  destruct x as [sx|sx| |sx mx ex], y as [sy|sy| |sy my ey]; simpl; try reflexivity;
  try (now rewrite xorb_comm).
  now rewrite xorb_comm, Pos.mul_comm, Z.add_comm.
Qed.

Lemma SFmul_opp_l x y : SFmul prec emax (SFopp x) y = SFopp (SFmul prec emax x y).
Proof.
  destruct x as [sx|sx| |sx mx ex], y as [sy|sy| |sy my ey]; simpl; try reflexivity;
  try (now destruct sx, sy).
  rewrite <- binary_round_aux_opp. now destruct sx, sy.
Qed.

Lemma SFmul_opp_r x y : SFmul prec emax x (SFopp y) = SFopp (SFmul prec emax x y).
Proof. now rewrite SFmul_comm, SFmul_opp_l, SFmul_comm. Qed.

Lemma SFadd_comm x y : SFadd prec emax x y = SFadd prec emax y x.
Proof.
  destruct x as [sx|sx| |sx mx ex], y as [sy|sy| |sy my ey]; simpl; try reflexivity;
  try (now destruct sx, sy).
  now rewrite Z.min_comm, Z.add_comm.
Qed.

(** zeros, and the two relations "equal up to the sign of a zero" / "opposite up to ..." *)
Definition zeroS (u : spec_float) : Prop := exists s, u = S754_zero s.
Definition eqrel (u v : spec_float) : Prop := u = v \/ (zeroS u /\ zeroS v).
Definition negrel (u v : spec_float) : Prop := u = SFopp v \/ (zeroS u /\ zeroS v).

Lemma zeroS_zero s : zeroS (S754_zero s). Proof. now exists s. Qed.
Hint Resolve zeroS_zero : sf.

Lemma negrel_sym u v : negrel u v -> negrel v u.
Proof. intros [->|[? ?]]; [left; now rewrite SFopp_involutive | right; auto]. Qed.

(** x - y and y - x are opposite, except that both are +0 when they cancel *)
Lemma SFsub_swap x y : negrel (SFsub prec emax y x) (SFsub prec emax x y).
Proof.
  destruct x as [[|]|[|]| |sx mx ex], y as [[|]|[|]| |sy my ey]; simpl;
  try (left; reflexivity); try (right; split; eauto with sf; fail);
  try (destruct sx; left; reflexivity); try (destruct sy; left; reflexivity).
  rewrite (Z.min_comm ey ex).
  set (a := cond_Zopp sx (Z.pos (fst (shl_align mx ex (Z.min ex ey))))).
  set (b := cond_Zopp sy (Z.pos (fst (shl_align my ey (Z.min ex ey))))).
  destruct (Z.eq_dec (a - b) 0) as [E|E].
  - right. replace (b - a)%Z with 0%Z by lia. rewrite E. simpl. split; eauto with sf.
  - left. replace (b - a)%Z with (- (a - b))%Z by lia. now apply binary_normalize_opp.
Qed.

Lemma SFabs_opp x : SFabs (SFopp x) = SFabs x.
Proof. destruct x as [[|]|[|]| |[|] ? ?]; reflexivity. Qed.
Lemma SFabs_negrel u v : negrel u v -> SFabs u = SFabs v.
Proof. intros [->|[[? ->] [? ->]]]; [apply SFabs_opp | reflexivity]. Qed.

(** squares do not see the sign *)
Lemma SFmul_self_negrel u v : negrel u v -> SFmul prec emax u u = SFmul prec emax v v.
Proof.
  intros [->|[[s ->] [t ->]]].
  - now rewrite SFmul_opp_l, SFmul_opp_r, SFopp_involutive.
  - simpl. now destruct s, t.
Qed.

(** congruences of the "opposite up to zero signs" relation *)
Lemma SFsub_add_opp x y : SFsub prec emax x y = SFadd prec emax x (SFopp y).
Proof.
  destruct x as [[|]|[|]| |sx mx ex], y as [[|]|[|]| |sy my ey]; simpl; try reflexivity.
  f_equal. destruct sy; simpl; lia.
Qed.

Lemma negrel_opp u v : negrel u v -> negrel (SFopp u) (SFopp v).
Proof.
  intros [->|[[s ->] [t ->]]]; [left; reflexivity | right; simpl; split; eauto with sf].
Qed.

Lemma SFmul_zero_l s t v : negrel (SFmul prec emax (S754_zero s) v) (SFmul prec emax (S754_zero t) v).
Proof.
  destruct v as [sv|sv| |sv mv ev]; simpl; try (left; reflexivity); right; split; eauto with sf.
Qed.

Lemma SFmul_negrel_l u u' v : negrel u u' -> negrel (SFmul prec emax u v) (SFmul prec emax u' v).
Proof.
  intros [->|[[s ->] [t ->]]]; [left; apply SFmul_opp_l | apply SFmul_zero_l].
Qed.
Lemma SFmul_negrel_r u v v' : negrel v v' -> negrel (SFmul prec emax u v) (SFmul prec emax u v').
Proof. intros H. rewrite (SFmul_comm u v), (SFmul_comm u v'). now apply SFmul_negrel_l. Qed.

Lemma cond_Zopp_negb s m : cond_Zopp (negb s) m = (- cond_Zopp s m)%Z.
Proof. destruct s; simpl; lia. Qed.

Lemma SFadd_opp_opp a b : negrel (SFadd prec emax (SFopp a) (SFopp b)) (SFadd prec emax a b).
Proof.
  destruct a as [[|]|[|]| |sa ma ea], b as [[|]|[|]| |sb mb eb]; simpl;
  try (left; reflexivity); try (right; split; eauto with sf; fail).
  rewrite !cond_Zopp_negb.
  set (x := cond_Zopp sa (Z.pos (fst (shl_align ma ea (Z.min ea eb))))).
  set (y := cond_Zopp sb (Z.pos (fst (shl_align mb eb (Z.min ea eb))))).
  destruct (Z.eq_dec (x + y) 0) as [E|E].
  - right. replace (- x + - y)%Z with 0%Z by lia. rewrite E. simpl. split; eauto with sf.
  - left. replace (- x + - y)%Z with (- (x + y))%Z by lia. now apply binary_normalize_opp.
Qed.

Lemma SFadd_zero_negrel s t v : negrel (SFadd prec emax (S754_zero s) (SFopp v)) (SFadd prec emax (S754_zero t) v).
Proof.
  destruct v as [[|]|[|]| |sv mv ev], s, t; simpl; try (left; reflexivity); right; split; eauto with sf.
Qed.
Lemma SFadd_zero_zero s t s' t' : negrel (SFadd prec emax (S754_zero s) (S754_zero t)) (SFadd prec emax (S754_zero s') (S754_zero t')).
Proof. destruct s, t, s', t'; simpl; right; split; eauto with sf. Qed.

Lemma SFadd_negrel u u' v v' : negrel u u' -> negrel v v' ->
  negrel (SFadd prec emax u v) (SFadd prec emax u' v').
Proof.
  intros [->|[[s ->] [t ->]]] [->|[[s' ->] [t' ->]]].
  - apply SFadd_opp_opp.
  - rewrite (SFadd_comm (SFopp u')), (SFadd_comm u').
    replace (S754_zero t') with (SFopp (SFopp (S754_zero t'))) at 1 by apply SFopp_involutive.
    simpl SFopp at 2.
    destruct u' as [[|]|[|]| |su mu eu], s', t'; simpl; try (left; reflexivity); right; split; eauto with sf.
  - apply SFadd_zero_negrel.
  - apply SFadd_zero_zero.
Qed.

Lemma SFsub_negrel u u' v v' : negrel u u' -> negrel v v' ->
  negrel (SFsub prec emax u v) (SFsub prec emax u' v').
Proof. intros. rewrite !SFsub_add_opp. apply SFadd_negrel; auto using negrel_opp. Qed.
End SF.

(** * primitive floats *)
Lemma fmul_comm x y : x * y = y * x.
Proof. apply Prim2SF_inj. rewrite !mul_spec. apply SFmul_comm. Qed.
Lemma fadd_comm x y : x + y = y + x.
Proof. apply Prim2SF_inj. rewrite !add_spec. apply SFadd_comm. Qed.
Lemma fmul_opp_l x y : (- x) * y = - (x * y).
Proof. apply Prim2SF_inj. rewrite mul_spec, !opp_spec, mul_spec. apply SFmul_opp_l. Qed.
Lemma fmul_opp_r x y : x * (- y) = - (x * y).
Proof. apply Prim2SF_inj. rewrite mul_spec, !opp_spec, mul_spec. apply SFmul_opp_r. Qed.
Lemma fmul_opp_opp x y : (- x) * (- y) = x * y.
Proof.
  rewrite fmul_opp_l, fmul_opp_r. apply Prim2SF_inj. rewrite !opp_spec. apply SFopp_involutive.
Qed.

(** [fneg u v]: u is the opposite of v, or both are zeros (of any signs) *)
Definition fneg (u v : float) : Prop := negrel (Prim2SF u) (Prim2SF v).

Lemma fsub_anti x y : fneg (y - x) (x - y).
Proof. unfold fneg. rewrite !sub_spec. apply SFsub_swap. Qed.

Lemma fabs_fneg u v : fneg u v -> abs u = abs v.
Proof. intros H. apply Prim2SF_inj. rewrite !abs_spec. now apply SFabs_negrel. Qed.

Lemma fsq_fneg u v : fneg u v -> u * u = v * v.
Proof. intros H. apply Prim2SF_inj. rewrite !mul_spec. now apply SFmul_self_negrel. Qed.

(** |x - y| = |y - x| and (x - y)^2 = (y - x)^2, bit for bit, for ALL floats *)
Theorem fabs_sub_swap x y : abs (x - y) = abs (y - x).
Proof. apply fabs_fneg, fsub_anti. Qed.
Theorem fsq_sub_swap x y : (x - y) * (x - y) = (y - x) * (y - x).
Proof. apply fsq_fneg, fsub_anti. Qed.

(** * r3.Vector *)
Theorem dot_comm v w : r3_Vector_Dot v w = r3_Vector_Dot w v.
Proof.
  destruct v, w. unfold r3_Vector_Dot. simpl. now rewrite (fmul_comm r3_Vector_X), (fmul_comm r3_Vector_Y), (fmul_comm r3_Vector_Z).
Qed.

Theorem add_comm3 v w : r3_Vector_Add v w = r3_Vector_Add w v.
Proof.
  destruct v, w. unfold r3_Vector_Add. simpl. f_equal; apply fadd_comm.
Qed.

(** the squared length of an edge does not depend on its direction (all floats, bit for bit) *)
Theorem norm2_sub_swap v w : r3_Vector_Norm2 (r3_Vector_Sub v w) = r3_Vector_Norm2 (r3_Vector_Sub w v).
Proof.
  destruct v, w. unfold r3_Vector_Norm2, r3_Vector_Dot, r3_Vector_Sub. simpl.
  now rewrite (fsq_sub_swap r3_Vector_X), (fsq_sub_swap r3_Vector_Y), (fsq_sub_swap r3_Vector_Z).
Qed.
Theorem norm_sub_swap v w : r3_Vector_Norm (r3_Vector_Sub v w) = r3_Vector_Norm (r3_Vector_Sub w v).
Proof. unfold r3_Vector_Norm. change (r3_Vector_Dot ?a ?a) with (r3_Vector_Norm2 a). now rewrite norm2_sub_swap. Qed.

(** * compareEdges through ranks *)
Local Open Scope R_scope.
Definition kmin (p q : s2_Point) : R * R * R :=
  if lexlt_dec (key (s2_Point_Vector p)) (key (s2_Point_Vector q)) then key (s2_Point_Vector p) else key (s2_Point_Vector q).
Definition kmax (p q : s2_Point) : R * R * R :=
  if lexlt_dec (key (s2_Point_Vector p)) (key (s2_Point_Vector q)) then key (s2_Point_Vector q) else key (s2_Point_Vector p).
Definition nnp (p : s2_Point) : Prop := nonnan3 (s2_Point_Vector p).

Lemma lexlt_trichotomy a b : lexlt a b \/ a = b \/ lexlt b a.
Proof.
  destruct a as [[x1 y1] z1], b as [[x2 y2] z2]. unfold lexlt.
  destruct (Rtotal_order x1 x2) as [?|[?|?]]; [left; lra| |right; right; lra].
  destruct (Rtotal_order y1 y2) as [?|[?|?]]; [left; lra| |right; right; lra].
  destruct (Rtotal_order z1 z2) as [?|[?|?]]; [left; lra| |right; right; lra].
  right; left. subst. reflexivity.
Qed.
Lemma lexlt_irrefl a : ~ lexlt a a.
Proof. destruct a as [[x y] z]. unfold lexlt. lra. Qed.
Lemma lexlt_asym a b : lexlt a b -> ~ lexlt b a.
Proof. destruct a as [[x1 y1] z1], b as [[x2 y2] z2]. unfold lexlt. lra. Qed.

Lemma kmin_comm p q : kmin p q = kmin q p.
Proof.
  unfold kmin. destruct (lexlt_dec _ _) as [L|L], (lexlt_dec _ _) as [L'|L']; try reflexivity.
  - exfalso. exact (lexlt_asym _ _ L L').
  - destruct (lexlt_trichotomy (key (s2_Point_Vector p)) (key (s2_Point_Vector q))) as [?|[?|?]]; congruence || contradiction.
Qed.
Lemma kmax_comm p q : kmax p q = kmax q p.
Proof.
  unfold kmax. destruct (lexlt_dec _ _) as [L|L], (lexlt_dec _ _) as [L'|L']; try reflexivity.
  - exfalso. exact (lexlt_asym _ _ L L').
  - destruct (lexlt_trichotomy (key (s2_Point_Vector p)) (key (s2_Point_Vector q))) as [?|[?|?]]; congruence || contradiction.
Qed.

Lemma compareEdges_spec a0 a1 b0 b1 : nnp a0 -> nnp a1 -> nnp b0 -> nnp b1 ->
  (s2_compareEdges a0 a1 b0 b1 = true <->
   lexlt (kmin a0 a1) (kmin b0 b1) \/ (kmin a0 a1 = kmin b0 b1 /\ lexlt (kmin b0 b1) (kmax b0 b1))).
Proof.
  intros Na0 Na1 Nb0 Nb1. unfold s2_compareEdges, kmin, kmax.
  assert (CA := Cmp_lt_iff _ _ Na0 Na1). assert (CB := Cmp_lt_iff _ _ Nb0 Nb1).
  destruct (Z.eqb_spec (r3_Vector_Cmp (s2_Point_Vector a0) (s2_Point_Vector a1)) (-1)) as [EA|EA];
  destruct (Z.eqb_spec (r3_Vector_Cmp (s2_Point_Vector b0) (s2_Point_Vector b1)) (-1)) as [EB|EB]; simpl;
  destruct (lexlt_dec (key (s2_Point_Vector a0)) (key (s2_Point_Vector a1))) as [LA|LA]; try tauto;
  destruct (lexlt_dec (key (s2_Point_Vector b0)) (key (s2_Point_Vector b1))) as [LB|LB]; try tauto;
  rewrite orb_true_iff, andb_true_iff, !Z.eqb_eq;
  match goal with
  | |- (r3_Vector_Cmp ?u ?v = _ \/ s2_Point_eqb ?p ?q = true /\ r3_Vector_Cmp ?w ?z = _) <-> _ =>
      assert (N1 : nonnan3 u) by assumption; assert (N2 : nonnan3 v) by assumption;
      assert (N3 : nonnan3 w) by assumption; assert (N4 : nonnan3 z) by assumption;
      rewrite (Cmp_lt_iff u v N1 N2), (Cmp_lt_iff w z N3 N4);
      unfold s2_Point_eqb; rewrite (eqb3_iff u v N1 N2)
  end; reflexivity.
Qed.

(** invariant under reversing either edge *)
Theorem compareEdges_reverse a0 a1 b0 b1 : nnp a0 -> nnp a1 -> nnp b0 -> nnp b1 ->
  s2_compareEdges a1 a0 b0 b1 = s2_compareEdges a0 a1 b0 b1 /\
  s2_compareEdges a0 a1 b1 b0 = s2_compareEdges a0 a1 b0 b1.
Proof.
  intros Na0 Na1 Nb0 Nb1.
  assert (S := compareEdges_spec a0 a1 b0 b1 Na0 Na1 Nb0 Nb1).
  assert (S1 := compareEdges_spec a1 a0 b0 b1 Na1 Na0 Nb0 Nb1).
  assert (S2 := compareEdges_spec a0 a1 b1 b0 Na0 Na1 Nb1 Nb0).
  rewrite (kmin_comm a1 a0) in S1. rewrite (kmin_comm b1 b0), (kmax_comm b1 b0) in S2.
  split; apply eq_true_iff_eq; tauto.
Qed.

(** a strict total order on edges whose smaller endpoints differ (always the case for edges
    that cross; compareEdges_shared_min_not_antisymmetric shows the guard is needed) *)
Theorem compareEdges_antisym a0 a1 b0 b1 : nnp a0 -> nnp a1 -> nnp b0 -> nnp b1 ->
  kmin a0 a1 <> kmin b0 b1 ->
  s2_compareEdges b0 b1 a0 a1 = negb (s2_compareEdges a0 a1 b0 b1).
Proof.
  intros Na0 Na1 Nb0 Nb1 D.
  assert (S := compareEdges_spec a0 a1 b0 b1 Na0 Na1 Nb0 Nb1).
  assert (S' := compareEdges_spec b0 b1 a0 a1 Nb0 Nb1 Na0 Na1).
  destruct (lexlt_trichotomy (kmin a0 a1) (kmin b0 b1)) as [L|[E|L]]; [|contradiction|].
  - assert (s2_compareEdges a0 a1 b0 b1 = true) as -> by (apply S; auto).
    simpl. apply not_true_iff_false. intros E'.
    apply S' in E'. destruct E' as [L'|[E' _]]; [exact (lexlt_asym _ _ L L') | congruence].
  - assert (s2_compareEdges b0 b1 a0 a1 = true) as -> by (apply S'; auto).
    symmetry. apply negb_true_iff. apply not_true_iff_false. intros E'.
    apply S in E'. destruct E' as [L'|[E' _]]; [exact (lexlt_asym _ _ L L') | congruence].
Qed.

(** * which edge intersectionStable treats first *)
Definition first_is_b (a0 a1 b0 b1 : s2_Point) : bool :=
  let aLen2 := r3_Vector_Norm2 (r3_Vector_Sub (s2_Point_Vector a1) (s2_Point_Vector a0)) in
  let bLen2 := r3_Vector_Norm2 (r3_Vector_Sub (s2_Point_Vector b1) (s2_Point_Vector b0)) in
  (PrimFloat.ltb aLen2 bLen2 || (PrimFloat.eqb aLen2 bLen2 && s2_compareEdges a0 a1 b0 b1))%bool.

Lemma stable_dispatch a0 a1 b0 b1 :
  s2_intersectionStable a0 a1 b0 b1 =
  if first_is_b a0 a1 b0 b1 then s2_intersectionStableSorted b0 b1 a0 a1 else s2_intersectionStableSorted a0 a1 b0 b1.
Proof. reflexivity. Qed.

Theorem first_is_b_reverse a0 a1 b0 b1 : nnp a0 -> nnp a1 -> nnp b0 -> nnp b1 ->
  first_is_b a1 a0 b0 b1 = first_is_b a0 a1 b0 b1 /\ first_is_b a0 a1 b1 b0 = first_is_b a0 a1 b0 b1.
Proof.
  intros Na0 Na1 Nb0 Nb1. unfold first_is_b.
  destruct (compareEdges_reverse a0 a1 b0 b1 Na0 Na1 Nb0 Nb1) as [-> ->].
  rewrite (norm2_sub_swap (s2_Point_Vector a0) (s2_Point_Vector a1)).
  rewrite (norm2_sub_swap (s2_Point_Vector b0) (s2_Point_Vector b1)). split; reflexivity.
Qed.

Definition edge_len2 (p q : s2_Point) := r3_Vector_Norm2 (r3_Vector_Sub (s2_Point_Vector q) (s2_Point_Vector p)).

Theorem first_is_b_swap a0 a1 b0 b1 : nnp a0 -> nnp a1 -> nnp b0 -> nnp b1 ->
  nonnan (edge_len2 a0 a1) -> nonnan (edge_len2 b0 b1) -> kmin a0 a1 <> kmin b0 b1 ->
  first_is_b b0 b1 a0 a1 = negb (first_is_b a0 a1 b0 b1).
Proof.
  intros Na0 Na1 Nb0 Nb1 La Lb D. unfold first_is_b. fold (edge_len2 a0 a1) (edge_len2 b0 b1).
  rewrite (compareEdges_antisym a0 a1 b0 b1) by assumption.
  rewrite !ltb_rank, !eqb_rank by assumption.
  destruct (Rlt_bool_spec (rank (edge_len2 a0 a1)) (rank (edge_len2 b0 b1)));
  destruct (Rlt_bool_spec (rank (edge_len2 b0 b1)) (rank (edge_len2 a0 a1)));
  destruct (Req_bool_spec (rank (edge_len2 a0 a1)) (rank (edge_len2 b0 b1)));
  destruct (Req_bool_spec (rank (edge_len2 b0 b1)) (rank (edge_len2 a0 a1)));
  try lra; simpl; try reflexivity; try congruence; destruct (s2_compareEdges a0 a1 b0 b1); reflexivity.
Qed.

(** swapping the two edges: the stable path runs the very same computation — identical result,
    bit for bit, including the accept/reject decision *)
Theorem stable_swap_symmetric a0 a1 b0 b1 : nnp a0 -> nnp a1 -> nnp b0 -> nnp b1 ->
  nonnan (edge_len2 a0 a1) -> nonnan (edge_len2 b0 b1) -> kmin a0 a1 <> kmin b0 b1 ->
  s2_intersectionStable b0 b1 a0 a1 = s2_intersectionStable a0 a1 b0 b1.
Proof.
  intros. rewrite !stable_dispatch. rewrite first_is_b_swap by assumption.
  destruct (first_is_b a0 a1 b0 b1); reflexivity.
Qed.

(** reversing an edge: the same edge is treated first *)
Theorem stable_reverse_dispatch a0 a1 b0 b1 : nnp a0 -> nnp a1 -> nnp b0 -> nnp b1 ->
  s2_intersectionStable a1 a0 b0 b1 =
    (if first_is_b a0 a1 b0 b1 then s2_intersectionStableSorted b0 b1 a1 a0 else s2_intersectionStableSorted a1 a0 b0 b1) /\
  s2_intersectionStable a0 a1 b1 b0 =
    (if first_is_b a0 a1 b0 b1 then s2_intersectionStableSorted b1 b0 a0 a1 else s2_intersectionStableSorted a0 a1 b1 b0).
Proof.
  intros Na0 Na1 Nb0 Nb1. rewrite !stable_dispatch.
  destruct (first_is_b_reverse a0 a1 b0 b1 Na0 Na1 Nb0 Nb1) as [-> ->]. split; reflexivity.
Qed.

(** * opposite-up-to-zero-signs on floats and vectors *)
Local Open Scope float_scope.
Lemma fneg_zero : fneg 0 0.
Proof. right. split; exists false; reflexivity. Qed.
Lemma fmul_fneg_l u u' v : fneg u u' -> fneg (u * v) (u' * v).
Proof. unfold fneg. rewrite !mul_spec. apply SFmul_negrel_l. Qed.
Lemma fmul_fneg_r u v v' : fneg v v' -> fneg (u * v) (u * v').
Proof. unfold fneg. rewrite !mul_spec. apply SFmul_negrel_r. Qed.
Lemma fsub_fneg u u' v v' : fneg u u' -> fneg v v' -> fneg (u - v) (u' - v').
Proof. unfold fneg. rewrite !sub_spec. apply SFsub_negrel. Qed.
Lemma fadd_fneg u u' v v' : fneg u u' -> fneg v v' -> fneg (u + v) (u' + v').
Proof. unfold fneg. rewrite !add_spec. apply SFadd_negrel. Qed.

Definition fneg3 (v w : r3_Vector) : Prop :=
  fneg (r3_Vector_X v) (r3_Vector_X w) /\ fneg (r3_Vector_Y v) (r3_Vector_Y w) /\ fneg (r3_Vector_Z v) (r3_Vector_Z w).

Lemma sub_fneg3 v w : fneg3 (r3_Vector_Sub w v) (r3_Vector_Sub v w).
Proof. destruct v, w. repeat split; apply fsub_anti. Qed.

Lemma cross_fneg3_l u u' w : fneg3 u u' -> fneg3 (r3_Vector_Cross u w) (r3_Vector_Cross u' w).
Proof.
  destruct u, u', w. unfold fneg3, r3_Vector_Cross. simpl. intros (Hx & Hy & Hz).
  repeat split; apply fsub_fneg; now apply fmul_fneg_l.
Qed.

Lemma mul_fneg3 u u' m : fneg3 u u' -> fneg3 (r3_Vector_Mul u m) (r3_Vector_Mul u' m).
Proof.
  destruct u, u'. unfold fneg3, r3_Vector_Mul. simpl. intros (Hx & Hy & Hz).
  repeat split; now apply fmul_fneg_r.
Qed.

Lemma norm2_fneg3 u u' : fneg3 u u' -> r3_Vector_Norm2 u = r3_Vector_Norm2 u'.
Proof.
  destruct u, u'. unfold fneg3, r3_Vector_Norm2, r3_Vector_Dot. simpl. intros (Hx & Hy & Hz).
  now rewrite (fsq_fneg _ _ Hx), (fsq_fneg _ _ Hy), (fsq_fneg _ _ Hz).
Qed.
Lemma norm_fneg3 u u' : fneg3 u u' -> r3_Vector_Norm u = r3_Vector_Norm u'.
Proof.
  intros H. unfold r3_Vector_Norm. change (r3_Vector_Dot ?a ?a) with (r3_Vector_Norm2 a).
  now rewrite (norm2_fneg3 _ _ H).
Qed.

Lemma fneg3_zero : fneg3 (mk_r3_Vector 0 0 0) (mk_r3_Vector 0 0 0).
Proof. repeat split; apply fneg_zero. Qed.

(** cross_anti for the stable normal: (y - x) x (y + x) is the opposite of (x - y) x (x + y) *)
Theorem stable_normal_anti x y :
  fneg3 (r3_Vector_Cross (r3_Vector_Sub y x) (r3_Vector_Add y x))
        (r3_Vector_Cross (r3_Vector_Sub x y) (r3_Vector_Add x y)).
Proof. rewrite (add_comm3 y x). apply cross_fneg3_l, sub_fneg3. Qed.

(** robustNormalWithLength: same length bit for bit, opposite normal, for ALL float inputs *)
Theorem robustNormalWithLength_antisym x y :
  snd (s2_robustNormalWithLength y x) = snd (s2_robustNormalWithLength x y) /\
  fneg3 (fst (s2_robustNormalWithLength y x)) (fst (s2_robustNormalWithLength x y)).
Proof.
  unfold s2_robustNormalWithLength. cbv zeta.
  pose proof (stable_normal_anti x y) as H.
  rewrite (norm_fneg3 _ _ H). simpl. split; [reflexivity|].
  destruct (negb _); [now apply mul_fneg3 | apply fneg3_zero].
Qed.

(** intersectionStableSorted with the interpolated edge reversed: same accept/reject decision,
    opposite point (the sign is repaired by Intersection), for ALL float inputs *)
Theorem sorted_reverse_second a0 a1 b0 b1 :
  snd (s2_intersectionStableSorted a0 a1 b1 b0) = snd (s2_intersectionStableSorted a0 a1 b0 b1) /\
  fneg3 (s2_Point_Vector (fst (s2_intersectionStableSorted a0 a1 b1 b0)))
        (s2_Point_Vector (fst (s2_intersectionStableSorted a0 a1 b0 b1))).
Proof.
  unfold s2_intersectionStableSorted. cbv zeta.
  set (aNorm := r3_Vector_Cross _ _).
  destruct (s2_projection (s2_Point_Vector b0) aNorm (r3_Vector_Norm aNorm) a0 a1) as [d0 e0].
  destruct (s2_projection (s2_Point_Vector b1) aNorm (r3_Vector_Norm aNorm) a0 a1) as [d1 e1].
  rewrite (fabs_sub_swap d1 d0), (fadd_comm e1 e0).
  destruct (PrimFloat.leb _ _); [simpl; split; [reflexivity | apply fneg3_zero]|].
  set (x := r3_Vector_Sub (r3_Vector_Mul (s2_Point_Vector b1) d0) (r3_Vector_Mul (s2_Point_Vector b0) d1)).
  set (x' := r3_Vector_Sub (r3_Vector_Mul (s2_Point_Vector b0) d1) (r3_Vector_Mul (s2_Point_Vector b1) d0)).
  assert (Hx : fneg3 x' x) by apply sub_fneg3.
  rewrite (norm2_fneg3 _ _ Hx), (norm_fneg3 _ _ Hx).
  rewrite (norm_sub_swap (s2_Point_Vector b0) (s2_Point_Vector b1)).
  rewrite (fabs_sub_swap (d1 * e0) (d0 * e1)).
  destruct (PrimFloat.ltb (r3_Vector_Norm2 x) _); [simpl; split; [reflexivity | apply fneg3_zero]|].
  destruct (PrimFloat.ltb _ _); simpl; (split; [reflexivity|]); [apply fneg3_zero | now apply mul_fneg3].
Qed.
