(** C11 — the library's own validity checks IsValid / IsNormalized decide exactly the
    predicates [sorted_cu] and [normal] used by the theorems. *)
From Coq Require Import ZArith List Bool Lia ZifyBool Sorted.
From Geo Require Import Base.GoPrim Gen.CellID Model.CellUnion Proofs.C11_Bits Proofs.C11_Cells
  Proofs.C11_Normalize Proofs.C11_Unique Proofs.C11_Search.
Import ListNotations.
Local Open Scope Z_scope.

Lemma isvalid_valid c : u64 c -> (s2_CellID_IsValid c = true <-> valid c).
Proof. intros Hu. unfold valid. tauto. Qed.

Lemma before_trans p c d : valid c -> before p c -> before c d -> before p d.
Proof. intros V. pose proof (valid_le _ V). unfold before. lia. Qed.

Lemma isvalid_from_spec : forall l prev, Forall u64 l ->
  (isvalid_from prev l = true <->
   sorted_cu l /\ (forall p, prev = Some p -> forall c, In c l -> before p c)).
Proof.
  induction l as [|cid t IH]; intros prev U; cbn [isvalid_from].
  - split; [intros _|reflexivity]. split; [split; constructor|intros ? _ ? []].
  - inversion U as [|? ? Uc Ut]; subst.
    destruct (s2_CellID_IsValid cid) eqn:EV; cbn [negb].
    + assert (Vc : valid cid) by (split; assumption).
      assert (Step : isvalid_from (Some cid) t = true <-> sorted_cu t /\ (forall c, In c t -> before cid c)).
      { rewrite (IH (Some cid) Ut). split; intros [H1 H2]; (split; [exact H1|]).
        - intros c Hc. apply (H2 cid eq_refl c Hc).
        - intros p Ep c Hc. injection Ep as <-. auto. }
      assert (Cons : sorted_cu t /\ (forall c, In c t -> before cid c) <-> sorted_cu (cid :: t)).
      { split.
        - intros [[V S] H]. split; [constructor; assumption|]. constructor; [exact S|]. rewrite Forall_forall. exact H.
        - intros [V S]. inversion V; subst. inversion S as [|? ? S' F]; subst. rewrite Forall_forall in F.
          split; [split; assumption|exact F]. }
      destruct prev as [p|].
      * destruct (Z.leb_spec (rmin cid) (rmax p)) as [Hle|Hgt].
        -- split; [discriminate|]. intros [_ H]. specialize (H p eq_refl cid ltac:(left; reflexivity)). unfold before in H. lia.
        -- rewrite Step, Cons. split.
           ++ intros HS. split; [exact HS|]. intros p' Ep. injection Ep as Ep. subst p'. intros c [<-|Hc]; [unfold before; lia|].
              apply (before_trans p cid c Vc); [unfold before; lia|]. apply Cons in HS. apply HS. exact Hc.
           ++ tauto.
      * rewrite Step, Cons. split; [|tauto]. intros HS. split; [exact HS|discriminate].
    + split; [discriminate|]. intros [[V _] _]. inversion V as [|? ? [_ Vc] _]; subst. congruence.
Qed.

Theorem isvalid_spec l : Forall u64 l -> (cu_IsValid l = true <-> sorted_cu l).
Proof.
  intros U. unfold cu_IsValid. rewrite (isvalid_from_spec l None U). split; [tauto|]. intros H. split; [exact H|discriminate].
Qed.

(** ** IsNormalized *)
Lemma NSc_cons a l : NSc (a :: l) <->
  (forall b c d l', l = b :: c :: d :: l' -> s2_areSiblings a b c d = false) /\ NSc l.
Proof.
  split.
  - intros H. split.
    + intros b c d l' ->. apply (H [] a b c d l'). reflexivity.
    + intros l1 a' b c d l2 E. apply (H (a :: l1) a' b c d l2). rewrite E. reflexivity.
  - intros [H1 H2] l1 a' b c d l2 E. destruct l1 as [|z l1]; cbn in E; injection E as <- E.
    + eapply H1. exact E.
    + eapply H2. exact E.
Qed.

Lemma NSc_short l : (length l <= 3)%nat -> NSc l.
Proof.
  intros Hl l1 a b c d l2 E. rewrite E, app_length in Hl. cbn in Hl. lia.
Qed.

Definition Qn (prevs l : list Z) : Prop :=
  sorted_cu l /\ (forall p r c, prevs = p :: r -> In c l -> before p c) /\ NSc (rev (firstn 3 prevs) ++ l).

Lemma isnorm_from_spec : forall l prevs, Forall u64 l -> (isnorm_from prevs l = true <-> Qn prevs l).
Proof.
  induction l as [|cid t IH]; intros prevs U; cbn [isnorm_from].
  - split; [intros _|reflexivity]. split; [split; constructor|]. split; [intros ? ? ? _ []|].
    apply NSc_short. rewrite app_nil_r, rev_length, firstn_length. lia.
  - inversion U as [|? ? Uc Ut]; subst.
    destruct (s2_CellID_IsValid cid) eqn:EV; cbn [negb].
    2:{ split; [discriminate|]. intros [[V _] _]. inversion V as [|? ? [_ Vc] _]; subst. congruence. }
    assert (Vc : valid cid) by (split; assumption).
    assert (Step : forall ps, isnorm_from (cid :: ps) t = true <->
               sorted_cu (cid :: t) /\ NSc (rev (firstn 2 ps) ++ cid :: t)).
    { intros ps. rewrite (IH (cid :: ps) Ut). unfold Qn.
      replace (rev (firstn 3 (cid :: ps)) ++ t) with (rev (firstn 2 ps) ++ cid :: t)
        by (cbn [firstn rev]; rewrite <- app_assoc; reflexivity).
      split.
      - intros ([V S] & H & N). split; [|exact N]. split; [constructor; assumption|].
        constructor; [exact S|]. rewrite Forall_forall. intros c Hc. apply (H cid ps c eq_refl Hc).
      - intros ([V S] & N). inversion V; subst. inversion S as [|? ? S' F]; subst. rewrite Forall_forall in F.
        split; [split; assumption|]. split; [|exact N]. intros p r c E Hc. injection E as <- <-. auto. }
    assert (Tail : forall p r, sorted_cu (cid :: t) -> before p cid -> forall p' r' c, p :: r = p' :: r' -> In c (cid :: t) -> before p' c).
    { intros p r [V S] B p' r' c E Hc. injection E as <- <-. destruct Hc as [<-|Hc]; [exact B|].
      inversion S as [|? ? _ F]; subst. rewrite Forall_forall in F. apply (before_trans p cid c Vc B). auto. }
    destruct prevs as [|p1 rest].
    + rewrite (Step []). unfold Qn. cbn [firstn rev app]. split.
      * intros [HS N]. split; [exact HS|]. split; [intros; discriminate|exact N].
      * intros (HS & _ & N). split; assumption.
    + destruct (Z.leb_spec (rmin cid) (rmax p1)) as [Hle|Hgt].
      * split; [discriminate|]. intros (_ & H & _). specialize (H p1 rest cid eq_refl ltac:(left; reflexivity)). unfold before in H. lia.
      * assert (B : before p1 cid) by (unfold before; lia).
        destruct rest as [|p2 [|p3 r]].
        -- rewrite (Step [p1]). unfold Qn. cbn [firstn rev app]. split.
           ++ intros [HS N]. split; [exact HS|]. split; [eapply Tail; eauto|exact N].
           ++ intros (HS & _ & N). split; assumption.
        -- rewrite (Step [p1; p2]). unfold Qn. cbn [firstn rev app]. split.
           ++ intros [HS N]. split; [exact HS|]. split; [eapply Tail; eauto|exact N].
           ++ intros (HS & _ & N). split; assumption.
        -- unfold Qn. cbn [firstn rev app].
           destruct (s2_areSiblings p3 p2 p1 cid) eqn:Sib.
           ++ split; [discriminate|]. intros (_ & _ & N). rewrite (N [] p3 p2 p1 cid t eq_refl) in Sib. discriminate.
           ++ rewrite (Step (p1 :: p2 :: p3 :: r)). cbn [firstn rev app]. split.
              ** intros [HS N]. split; [exact HS|]. split; [eapply Tail; eauto|].
                 apply NSc_cons. split; [|exact N]. intros b c d l' E. injection E as <- <- <- <-. exact Sib.
              ** intros (HS & _ & N). split; [exact HS|]. apply NSc_cons in N. tauto.
Qed.

Theorem isnormalized_spec l : Forall u64 l -> (cu_IsNormalized l = true <-> normal l).
Proof.
  intros U. unfold cu_IsNormalized. rewrite (isnorm_from_spec l [] U). unfold Qn, normal, sorted_cu. cbn [firstn rev app].
  split.
  - intros ([V S] & _ & N). tauto.
  - intros (V & S & N). split; [tauto|]. split; [intros; discriminate|exact N].
Qed.

Theorem normalize_passes_IsNormalized cu : Forall valid cu -> cu_IsNormalized (cu_Normalize cu) = true.
Proof.
  intros V. destruct (normalize_spec cu V) as [N _]. apply isnormalized_spec; [|exact N].
  destruct N as (Vn & _). eapply Forall_impl; [|exact Vn]. intros c [Hu _]. exact Hu.
Qed.
