(** C08 — the optimized search of EdgeQuery (branch and bound over index cells) returns
    what the brute-force scan returns.

    Setting: an exact target ([updateDistanceToEdge]/[updateDistanceToCell] answer
    "d < limit ? d"), a permitted error that does not change distances
    ([sub d maxError = d]), and the premises
      [LB]         the distance to a cell is a lower bound for every edge of an index cell it represents,
      [CoverSound] the initial entries represent every index cell closer than the limit,
      [SplitSound] splitting a cell represents every index cell below it,
      [HeapSpec]   the priority queue pops a minimal entry and keeps the others.
    Invariant ([Post]): every edge better than the current limit has been reported or lies
    in an index cell represented by a queued entry (whose key is then <= its distance). *)
From Coq Require Import ZArith List Bool Lia Sorted Permutation.
From Geo Require Import Model.EdgeQuery Proofs.C08_Post.
Import ListNotations.
Local Open Scope Z_scope.

Section Order.
  Variable D : Type.
  Variable ops : dist_ops D.
  Hypothesis OK : DistOK ops.
  Notation less := (d_less ops).

  Lemma less_cases a b : less a b = true \/ a = b \/ less b a = true.
  Proof.
    destruct (less a b) eqn:E1; [left; reflexivity|].
    destruct (less b a) eqn:E2; [right; right; reflexivity|].
    right; left. apply (less_total _ OK); assumption.
  Qed.

  Lemma less_asym a b : less a b = true -> less b a = false.
  Proof.
    intros H. destruct (less b a) eqn:E; [|reflexivity].
    pose proof (less_trans _ OK _ _ _ H E) as T. rewrite (less_irrefl _ OK) in T. discriminate.
  Qed.

  (** a <= b is [less b a = false] *)
  Lemma le_trans a b c : less b a = false -> less c b = false -> less c a = false.
  Proof.
    intros H1 H2. destruct (less c a) eqn:E; [|reflexivity].
    destruct (less_cases a b) as [L|[->|L]]; [|congruence|congruence].
    pose proof (less_trans _ OK _ _ _ E L). congruence.
  Qed.

  Lemma lt_le_trans a b c : less a b = true -> less c b = false -> less a c = true.
  Proof.
    intros H1 H2. destruct (less_cases a c) as [L|[->|L]]; [exact L|congruence|].
    pose proof (less_trans _ OK _ _ _ L H1). congruence.
  Qed.

  Lemma le_lt_trans a b c : less b a = false -> less b c = true -> less a c = true.
  Proof.
    intros H1 H2. destruct (less_cases a b) as [L|[->|L]]; [|exact H2|congruence].
    eapply (less_trans _ OK); eauto.
  Qed.

  Lemma le_refl a : less a a = false.
  Proof. apply (less_irrefl _ OK). Qed.

  Lemma le_antisym a b : less a b = false -> less b a = false -> a = b.
  Proof. apply (less_total _ OK). Qed.
End Order.

Section Opt.
  Variable D : Type.
  Variable ops : dist_ops D.
  Hypothesis OK : DistOK ops.
  Notation less := (d_less ops).
  Notation sub := (d_sub ops).

  Variable o : options D.
  Variable t : target D.
  Variable x : index.

  Variable edist : eid -> D.
  Variable cdist : Z -> D.
  (** exact target: the update functions answer "d < limit ? d" *)
  Hypothesis EdgeExact : forall e lim,
    t_upd_edge t e lim = if less (edist e) lim then Some (edist e) else None.
  Hypothesis CellExact : forall c lim,
    t_upd_cell t c lim = if less (cdist c) lim then Some (cdist c) else None.
  (** subtracting the permitted error never makes a distance worse: sub d maxError <= d *)
  Hypothesis SubLe : forall d, less d (sub d (o_max_error o)) = false.
  Notation err := (o_max_error o).

  Notation madd := (maybe_add_result D ops o t false).
  Notation pedges := (process_edges D ops o t false).

  Definition mkres (e : eid) : result D := mkR (edist e) (fst e) (snd e).
  Definition Found (st : state D) (e : eid) : Prop := In (mkres e) (s_results st).
  (** [e] needs no further attention: not better than the limit, or reported *)
  Definition Done (st : state D) (e : eid) : Prop := less (edist e) (s_limit st) = false \/ Found st e.
  Definition ext (st st' : state D) : Prop :=
    less (s_limit st) (s_limit st') = false /\ incl (s_results st) (s_results st') /\ incl (s_queue st) (s_queue st').
  Definition TestedOK (st : state D) : Prop := forall e, In e (s_tested st) -> Done st e.

  Lemma ext_refl st : ext st st.
  Proof. repeat split; [apply (le_refl _ _ OK)|apply incl_refl|apply incl_refl]. Qed.

  Lemma ext_trans a b c : ext a b -> ext b c -> ext a c.
  Proof.
    intros (L1 & R1 & Q1) (L2 & R2 & Q2). repeat split.
    - eapply (le_trans _ _ OK); eauto.
    - eapply incl_tran; eauto.
    - eapply incl_tran; eauto.
  Qed.

  Lemma done_stable st st' e : ext st st' -> Done st e -> Done st' e.
  Proof.
    intros (L & R & _) [H|H]; [left|right].
    - eapply (le_trans _ _ OK); eauto.
    - apply R. exact H.
  Qed.

  Lemma mem_eid_in e l : mem_eid e l = true -> In e l.
  Proof.
    unfold mem_eid. intros H. apply existsb_exists in H. destruct H as (a & Ha & E).
    unfold eid_eqb in E. apply andb_prop in E. destruct E as [E1 E2].
    apply Z.eqb_eq in E1, E2. destruct e, a; cbn in *; subst. exact Ha.
  Qed.

  (** *** addResult / maybeAddResult *)
  Lemma add_result_limit st r :
    s_limit (add_result D ops o st r) = if o_max_results o =? 1 then sub (r_dist r) err else s_limit st.
  Proof. unfold add_result. destruct (o_max_results o =? 1); reflexivity. Qed.
  Lemma add_result_results st r : s_results (add_result D ops o st r) = r :: s_results st.
  Proof. unfold add_result. destruct (o_max_results o =? 1); reflexivity. Qed.
  Lemma add_result_queue st r : s_queue (add_result D ops o st r) = s_queue st.
  Proof. unfold add_result. destruct (o_max_results o =? 1); reflexivity. Qed.
  Lemma add_result_tested st r : s_tested (add_result D ops o st r) = s_tested st.
  Proof. unfold add_result. destruct (o_max_results o =? 1); reflexivity. Qed.

  (** the three possible outcomes of maybeAddResult *)
  Inductive madd_outcome (avoid : bool) (st : state D) (e : eid) (st' : state D) : Prop :=
  | mo_skip : avoid = true -> In e (s_tested st) -> st' = st -> madd_outcome avoid st e st'
  | mo_none : less (edist e) (s_limit st) = false ->
      s_limit st' = s_limit st -> s_results st' = s_results st -> s_queue st' = s_queue st ->
      (s_tested st' = s_tested st \/ s_tested st' = e :: s_tested st) -> madd_outcome avoid st e st'
  | mo_add : less (edist e) (s_limit st) = true ->
      s_limit st' = (if o_max_results o =? 1 then sub (edist e) err else s_limit st) ->
      s_results st' = mkres e :: s_results st -> s_queue st' = s_queue st ->
      (s_tested st' = s_tested st \/ s_tested st' = e :: s_tested st) -> madd_outcome avoid st e st'.

  Lemma madd_cases avoid st e : madd_outcome avoid st e (madd avoid st e).
  Proof.
    unfold maybe_add_result.
    destruct (avoid && mem_eid e (s_tested st)) eqn:E1.
    - apply andb_prop in E1. destruct E1 as [-> M]. apply mo_skip; auto. apply mem_eid_in. exact M.
    - set (st1 := if avoid then _ else st).
      assert (L1 : s_limit st1 = s_limit st) by (subst st1; destruct avoid; reflexivity).
      assert (R1 : s_results st1 = s_results st) by (subst st1; destruct avoid; reflexivity).
      assert (Q1 : s_queue st1 = s_queue st) by (subst st1; destruct avoid; reflexivity).
      assert (T1 : s_tested st1 = s_tested st \/ s_tested st1 = e :: s_tested st)
        by (subst st1; destruct avoid; [right|left]; reflexivity).
      rewrite EdgeExact, L1. destruct (less (edist e) (s_limit st)) eqn:E2.
      + apply mo_add; auto.
        * rewrite add_result_limit, L1. reflexivity.
        * rewrite add_result_results, R1. reflexivity.
        * rewrite add_result_queue. exact Q1.
        * rewrite add_result_tested. exact T1.
      + apply mo_none; auto.
  Qed.

  Lemma madd_ext avoid st e : ext st (madd avoid st e).
  Proof.
    destruct (madd_cases avoid st e) as [_ _ ->|N L R Q _|A L R Q _].
    - apply ext_refl.
    - unfold ext. rewrite L, R, Q. repeat split; [apply (le_refl _ _ OK)|apply incl_refl|apply incl_refl].
    - unfold ext. rewrite L, R, Q. repeat split; [|apply incl_tl, incl_refl|apply incl_refl].
      destruct (o_max_results o =? 1); [|apply (le_refl _ _ OK)].
      eapply (le_trans _ _ OK); [apply SubLe|apply (less_asym _ _ OK); exact A].
  Qed.

  Lemma madd_queue avoid st e : s_queue (madd avoid st e) = s_queue st.
  Proof. destruct (madd_cases avoid st e) as [_ _ ->|_ _ _ Q _|_ _ _ Q _]; auto. Qed.

  Lemma madd_done avoid st e : TestedOK st -> TestedOK (madd avoid st e) /\ Done (madd avoid st e) e.
  Proof.
    intros T. pose proof (madd_ext avoid st e) as X.
    destruct (madd_cases avoid st e) as [_ I E|N L R Q Ts|A L R Q Ts].
    - rewrite E. split; [exact T|apply T; exact I].
    - assert (Dn : Done (madd avoid st e) e) by (left; rewrite L; exact N).
      split; [|exact Dn]. intros e' He'. destruct Ts as [Ts|Ts]; rewrite Ts in He'.
      + eapply done_stable; [exact X|apply T; exact He'].
      + destruct He' as [<-|He']; [exact Dn|eapply done_stable; [exact X|apply T; exact He']].
    - assert (Dn : Done (madd avoid st e) e) by (right; unfold Found; rewrite R; left; reflexivity).
      split; [|exact Dn]. intros e' He'. destruct Ts as [Ts|Ts]; rewrite Ts in He'.
      + eapply done_stable; [exact X|apply T; exact He'].
      + destruct He' as [<-|He']; [exact Dn|eapply done_stable; [exact X|apply T; exact He']].
  Qed.

  (** *** processEdges *)
  Lemma pedges_ext avoid es : forall st, ext st (pedges avoid st es).
  Proof.
    unfold process_edges. induction es as [|e es IH]; intros st; cbn; [apply ext_refl|].
    eapply ext_trans; [apply madd_ext|apply IH].
  Qed.
  Lemma pedges_queue avoid es : forall st, s_queue (pedges avoid st es) = s_queue st.
  Proof.
    unfold process_edges. induction es as [|e es IH]; intros st; cbn; [reflexivity|].
    rewrite IH. apply madd_queue.
  Qed.
  Lemma pedges_done avoid es : forall st, TestedOK st ->
    TestedOK (pedges avoid st es) /\ forall e, In e es -> Done (pedges avoid st es) e.
  Proof.
    unfold process_edges. induction es as [|e es IH]; intros st T; cbn; [split; [exact T|contradiction]|].
    destruct (madd_done avoid st e T) as [T1 D1]. destruct (IH _ T1) as [T2 D2].
    split; [exact T2|]. intros e' [<-|He']; [|apply D2; exact He'].
    eapply done_stable; [apply (pedges_ext avoid es)|exact D1].
  Qed.

  (** a property of (limit, results, tested) preserved by maybeAddResult is preserved by processEdges *)
  Section EdgeInv.
    Variable P : eid -> Prop.
    Variable I : state D -> Prop.
    Hypothesis I_madd : forall avoid st e, P e -> I st -> I (madd avoid st e).
    Lemma pedges_inv avoid es : (forall e, In e es -> P e) -> forall st, I st -> I (pedges avoid st es).
    Proof.
      unfold process_edges. induction es as [|e es IH]; intros Pe st Ist; cbn; [exact Ist|].
      apply IH; [intros e' H; apply Pe; right; exact H|]. apply I_madd; [apply Pe; left; reflexivity|exact Ist].
    Qed.
  End EdgeInv.

  (** *** invariants on (limit, results) *)
  Section LimitResults.
    Variable R0 : list (result D).     (* results before the search (interiors) *)
    Variable L0 : D.                   (* limit before the search *)
    Variable P : eid -> Prop.          (* the edges the search may touch *)

    Definition Sound (st : state D) : Prop := forall r, In r (s_results st) ->
      In r R0 \/ exists e, P e /\ r = mkres e /\ less (edist e) L0 = true.
    Definition LimLe (st : state D) : Prop := less L0 (s_limit st) = false.
    Definition LimN (st : state D) : Prop := o_max_results o <> 1 -> s_limit st = L0.
    Definition Lim1 (st : state D) : Prop := o_max_results o = 1 -> R0 = [] ->
      (forall r, In r (s_results st) -> less (r_dist r) (s_limit st) = false) /\
      (s_results st = [] -> s_limit st = L0) /\
      (s_results st <> [] -> exists r, In r (s_results st) /\ s_limit st = sub (r_dist r) err /\
         forall r', In r' (s_results st) -> less (r_dist r') (r_dist r) = false).
    Definition EI (st : state D) : Prop := Sound st /\ LimLe st /\ LimN st /\ Lim1 st.

    Lemma EI_madd avoid st e : P e -> EI st -> EI (madd avoid st e).
    Proof.
      intros Pe (S & Le & LN & L1).
      destruct (madd_cases avoid st e) as [_ _ ->|N L R Q _|A L R Q _].
      - split; [|split; [|split]]; assumption.
      - unfold EI, Sound, LimLe, LimN, Lim1. rewrite L, R. split; [|split; [|split]]; assumption.
      - assert (AL0 : less (edist e) L0 = true) by (eapply (lt_le_trans _ _ OK); eauto).
        unfold EI, Sound, LimLe, LimN, Lim1. rewrite L, R. split; [|split; [|split]].
        + intros r [<-|Hr]; [right; exists e; auto|apply S; exact Hr].
        + destruct (o_max_results o =? 1); [|exact Le].
          eapply (le_trans _ _ OK); [apply SubLe|apply (less_asym _ _ OK); exact AL0].
        + intros K. destruct (o_max_results o =? 1) eqn:E; [apply Z.eqb_eq in E; contradiction|apply LN; exact K].
        + intros K1 R0nil. rewrite K1. cbn.
          destruct (L1 K1 R0nil) as (B & _ & _).
          assert (Old : forall r, In r (s_results st) -> less (r_dist r) (edist e) = false).
          { intros r Hr. eapply (le_trans _ _ OK); [apply (less_asym _ _ OK); exact A|apply B; exact Hr]. }
          split; [|split].
          * intros r [<-|Hr]; [cbn; apply SubLe|].
            eapply (le_trans _ _ OK); [apply SubLe|apply Old; exact Hr].
          * intros; discriminate.
          * intros _. exists (mkres e). split; [left; reflexivity|]. split; [reflexivity|].
            intros r' [<-|Hr']; [apply (le_refl _ _ OK)|apply Old; exact Hr'].
    Qed.

    Lemma EI_queue st q : EI st -> EI (set_queue D st q).
    Proof. intros H. exact H. Qed.
  End LimitResults.

  (** *** findEdgesBruteForce *)
  Lemma brute_spec R0 L0 st :
    TestedOK st -> EI R0 L0 (fun e => In e (all_edges x)) st ->
    let st' := find_edges_brute D ops o t x false st in
    EI R0 L0 (fun e => In e (all_edges x)) st' /\ (forall e, In e (all_edges x) -> Done st' e) /\ ext st st'.
  Proof.
    intros T E. cbn. unfold find_edges_brute. split; [|split].
    - apply (pedges_inv (fun e => In e (all_edges x)) (EI R0 L0 (fun e => In e (all_edges x)))); auto.
      intros; apply EI_madd; auto.
    - apply pedges_done. exact T.
    - apply pedges_ext.
  Qed.

  (** *** the optimized search *)
  Definition in_index (e : eid) : Prop := exists c, In c (x_cells x) /\ In e (snd c).
  (** an entry handed to processOrEnqueue / held in the queue represents an index cell: it is
      that cell with its contents, or a proper ancestor known not to be an index cell *)
  Definition rep (ce : centry) (c : icell) : Prop :=
    (fst ce = fst c /\ snd ce = Some (snd c)) \/
    (snd ce = None /\ cid_contains (fst ce) (fst c) = true /\ fst ce <> fst c).
  (** an entry is sound: an entry with contents is an index cell under ITS OWN id with exactly
      that cell's contents, and an entry without index cell properly contains at least one
      index cell (so it is not a leaf cell and can be split) *)
  Definition centry_ok (ce : centry) : Prop :=
    (forall es, snd ce = Some es -> exists c, In c (x_cells x) /\ fst c = fst ce /\ snd c = es) /\
    (snd ce = None -> exists c, In c (x_cells x) /\ rep ce c).
  Lemma centry_ok_edges ce es e : centry_ok ce -> snd ce = Some es -> In e es -> in_index e.
  Proof. intros [H _] Es He. destruct (H es Es) as (c & Hc & _ & <-). exists c. auto. Qed.
  Definition qrep (en : qentry D) (c : icell) : Prop := rep (q_id en, q_cell en) c.

  Variable Vq : Z -> Prop.              (* the cell ids the search may meet (valid cell ids) *)
  Variable HI : list (qentry D) -> Prop.  (* the heap invariant of the queue *)

  Hypothesis LB : forall ce c e, Vq (fst ce) -> In c (x_cells x) -> rep ce c -> In e (snd c) ->
    less (edist e) (cdist (fst ce)) = false.
  Hypothesis SplitSound : forall q, Vq q -> (exists c, In c (x_cells x) /\ rep (q, None) c) ->
    (forall ce, In ce (split_cell x q) -> Vq (fst ce) /\ centry_ok ce) /\
    (forall c, In c (x_cells x) -> rep (q, None) c -> exists ce, In ce (split_cell x q) /\ rep ce c).
  Hypothesis HI_nil : HI [].
  Hypothesis HI_push : forall q a, HI q ->
    HI (heap_push D ops q a) /\ forall b, In b (heap_push D ops q a) <-> b = a \/ In b q.
  Hypothesis HI_pop : forall q en q', HI q -> heap_pop D ops q = Some (en, q') ->
    HI q' /\ In en q /\ (forall b, In b q -> b = en \/ In b q') /\ (forall b, In b q' -> In b q) /\
    (forall b, In b q' -> less (q_dist b) (q_dist en) = false).

  Definition entry_ok (en : qentry D) : Prop :=
    Vq (q_id en) /\ less (cdist (q_id en)) (q_dist en) = false /\ centry_ok (q_id en, q_cell en).
  Definition Qinv (st : state D) : Prop := HI (s_queue st) /\ forall en, In en (s_queue st) -> entry_ok en.
  Definition Post (st : state D) (c : icell) : Prop := forall e, In e (snd c) ->
    Done st e \/ exists en, In en (s_queue st) /\ qrep en c.
  Definition AllPost (st : state D) : Prop := forall c, In c (x_cells x) -> Post st c.

  Lemma post_stable st st' c : ext st st' -> Post st c -> Post st' c.
  Proof.
    intros X H e He. destruct (H e He) as [Dn|(en & Hen & R)].
    - left. eapply done_stable; eauto.
    - right. exists en. split; [apply X; exact Hen|exact R].
  Qed.

  Section WithInv.
    (** [I] : any property of (limit, results, tested) kept by maybeAddResult on index edges *)
    Variable I : state D -> Prop.
    Hypothesis I_madd : forall avoid st e, in_index e -> I st -> I (madd avoid st e).
    Hypothesis I_queue : forall st q, I st -> I (set_queue D st q).

    Definition Inv (st : state D) : Prop := Qinv st /\ TestedOK st /\ I st.

    Lemma set_queue_tested st q : TestedOK st -> TestedOK (set_queue D st q).
    Proof. intros T e He. exact (T e He). Qed.

    (** enqueue *)
    Lemma enqueue_spec cons st ce : Vq (fst ce) -> centry_ok ce -> Inv st ->
      let st' := enqueue D ops o t cons st ce in
      Inv st' /\ ext st st' /\ (forall c, In c (x_cells x) -> rep ce c -> Post st' c).
    Proof.
      intros V Cok ((H & Q) & T & Ist). cbn. unfold enqueue. rewrite CellExact.
      destruct (less (cdist (fst ce)) (s_limit st)) eqn:E.
      - set (d' := if cons then sub (cdist (fst ce)) (o_max_error o) else cdist (fst ce)).
        assert (Ed : less (cdist (fst ce)) d' = false) by (subst d'; destruct cons; [apply SubLe|apply (le_refl _ _ OK)]).
        set (en := mkQ d' (fst ce) (snd ce)).
        destruct (HI_push (s_queue st) en H) as [H' Mem].
        split; [|split].
        + split; [|split].
          * split; [exact H'|]. cbn. intros b Hb. apply Mem in Hb. destruct Hb as [->|Hb]; [|apply Q; exact Hb].
            unfold entry_ok, en. cbn. split; [exact V|split; [exact Ed|]]. destruct ce; exact Cok.
          * apply set_queue_tested. exact T.
          * apply I_queue. exact Ist.
        + unfold ext. cbn. split; [apply (le_refl _ _ OK)|split; [apply incl_refl|]].
          intros b Hb. apply Mem. right. exact Hb.
        + intros c Hc R e He. right. exists en. split; [cbn; apply Mem; left; reflexivity|].
          unfold qrep, en. cbn. destruct ce; exact R.
      - split; [|split].
        + split; [split; assumption|split; assumption].
        + apply ext_refl.
        + intros c Hc R e He. left. left.
          eapply (le_trans _ _ OK); [exact E|]. eapply LB; eauto.
    Qed.

    Lemma pedges_Inv avoid st es : (forall e, In e es -> in_index e) -> Inv st -> Inv (pedges avoid st es).
    Proof.
      intros Pe ((H & Q) & T & Ist). split; [|split].
      - unfold Qinv. rewrite pedges_queue. split; assumption.
      - apply pedges_done. exact T.
      - apply (pedges_inv in_index I); auto.
    Qed.

    (** processOrEnqueue *)
    Lemma poe_spec cons avoid st ce : Vq (fst ce) -> centry_ok ce -> Inv st ->
      let st' := process_or_enqueue D ops o t false cons avoid st ce in
      Inv st' /\ ext st st' /\ (forall c, In c (x_cells x) -> rep ce c -> Post st' c).
    Proof.
      intros V Cok Iv. cbn. unfold process_or_enqueue.
      destruct (snd ce) as [es|] eqn:Es; [|apply enqueue_spec; assumption].
      destruct (Nat.eqb (length es) 0) eqn:E0.
      - split; [exact Iv|split; [apply ext_refl|]].
        intros c Hc [[_ R]|[R _]] e He; [|congruence].
        rewrite Es in R. injection R as R. apply PeanoNat.Nat.eqb_eq in E0. rewrite <- R in He.
        destruct es; [contradiction|discriminate].
      - destruct (Nat.ltb (length es) min_edges_to_enqueue) eqn:E1; [|apply enqueue_spec; assumption].
        split; [|split].
        + apply pedges_Inv; [|exact Iv]. intros e He. eapply centry_ok_edges; eauto.
        + apply pedges_ext.
        + intros c Hc [[_ R]|[R _]] e He; [|congruence].
          rewrite Es in R. injection R as R. left. destruct Iv as (_ & T & _).
          apply (pedges_done avoid es st T). rewrite R. exact He.
    Qed.

    (** a list of entries handed to processOrEnqueue one after the other *)
    Lemma poe_fold cons avoid l : forall st,
      (forall ce, In ce l -> Vq (fst ce) /\ centry_ok ce) -> Inv st ->
      let st' := fold_left (process_or_enqueue D ops o t false cons avoid) l st in
      Inv st' /\ ext st st' /\ (forall ce c, In ce l -> In c (x_cells x) -> rep ce c -> Post st' c).
    Proof.
      induction l as [|ce l IH]; intros st Hl Iv; cbn.
      - split; [exact Iv|split; [apply ext_refl|]]. intros ? ? [].
      - destruct (Hl ce (or_introl eq_refl)) as [V Cok].
        destruct (poe_spec cons avoid st ce V Cok Iv) as (Iv1 & X1 & P1).
        destruct (IH _ (fun ce' H => Hl ce' (or_intror H)) Iv1) as (Iv2 & X2 & P2).
        split; [exact Iv2|split; [eapply ext_trans; eauto|]].
        intros ce' c [<-|Hce] Hc R.
        + eapply post_stable; [exact X2|apply P1; assumption].
        + eapply P2; eauto.
    Qed.

    (** one iteration of the loop of findEdgesOptimized *)
    Lemma step_spec cons avoid st : Inv st -> AllPost st ->
      let st' := step D ops o t x false cons avoid st in
      Inv st' /\ AllPost st' /\ less (s_limit st) (s_limit st') = false /\ incl (s_results st) (s_results st').
    Proof.
      intros Iv AP. cbn. unfold step.
      destruct Iv as ((H & Q) & T & Ist).
      destruct (heap_pop D ops (s_queue st)) as [[en q']|] eqn:Ep.
      2:{ split; [split; [split; assumption|split; assumption]|]. split; [exact AP|].
          split; [apply (le_refl _ _ OK)|apply incl_refl]. }
      destruct (HI_pop _ _ _ H Ep) as (H' & Hen & Mem & Sub & Min).
      destruct (Q en Hen) as (Ven & Ken & Cen).
      destruct (less (q_dist en) (s_limit st)) eqn:El; cbn [negb].
      - (* the entry is closer than the limit: process or split it *)
        set (st1 := set_queue D st q').
        assert (Iv1 : Inv st1).
        { split; [|split]; [split; [exact H'|intros b Hb; apply Q, Sub; exact Hb]|apply set_queue_tested; exact T|apply I_queue; exact Ist]. }
        assert (Gen : forall st', Inv st' -> ext st1 st' ->
                  (forall c, In c (x_cells x) -> qrep en c -> Post st' c) ->
                  Inv st' /\ AllPost st' /\ less (s_limit st) (s_limit st') = false /\ incl (s_results st) (s_results st')).
        { intros st' Iv' X Hd. split; [exact Iv'|split; [|split]].
          - intros c Hc e He. destruct (AP c Hc e He) as [Dn|(en' & Hen' & R)].
            + left. eapply done_stable; [exact X|]. exact Dn.
            + destruct (Mem en' Hen') as [->|Hq'].
              * apply (Hd c Hc R e He).
              * right. exists en'. split; [apply X; exact Hq'|exact R].
          - apply X.
          - apply X. }
        destruct (q_cell en) as [es|] eqn:Ec.
        + apply Gen.
          * apply pedges_Inv; [|exact Iv1]. intros e He. eapply centry_ok_edges; [exact Cen|cbn; reflexivity|exact He].
          * apply pedges_ext.
          * intros c Hc [[_ R]|[R _]] e He; cbn in R; [|congruence].
            rewrite Ec in R. injection R as R. left.
            destruct Iv1 as (_ & T1 & _). apply (pedges_done avoid es st1 T1). rewrite R. exact He.
        + destruct (SplitSound (q_id en) Ven (proj2 Cen eq_refl)) as [Sok Srep].
          destruct (poe_fold cons avoid (split_cell x (q_id en)) st1 Sok Iv1) as (Iv2 & X2 & P2).
          apply Gen; [exact Iv2|exact X2|].
          intros c Hc R. unfold qrep in R. rewrite Ec in R.
          destruct (Srep c Hc R) as (ce & Hce & Rce). eapply P2; eauto.
      - (* every remaining entry is at least as far as the limit: stop *)
        split; [|split; [|split]].
        + split; [|split]; [split; [exact HI_nil|intros b []]|apply set_queue_tested; exact T|apply I_queue; exact Ist].
        + intros c Hc e He. destruct (AP c Hc e He) as [Dn|(en' & Hen' & R)]; [left; exact Dn|].
          left. left. cbn.
          destruct (Q en' Hen') as (Ven' & Ken' & _).
          assert (L1 : less (edist e) (cdist (q_id en')) = false) by (eapply (LB (q_id en', q_cell en')); eauto).
          assert (L2 : less (q_dist en') (q_dist en) = false).
          { destruct (Mem en' Hen') as [->|Hq']; [apply (le_refl _ _ OK)|apply Min; exact Hq']. }
          eapply (le_trans _ _ OK); [|exact L1]. eapply (le_trans _ _ OK); [|exact Ken'].
          eapply (le_trans _ _ OK); [exact El|exact L2].
        + apply (le_refl _ _ OK).
        + apply incl_refl.
    Qed.

    Lemma run_spec cons avoid n : forall st, Inv st -> AllPost st ->
      let st' := run D ops o t x false n cons avoid st in
      Inv st' /\ AllPost st' /\ less (s_limit st) (s_limit st') = false /\ incl (s_results st) (s_results st').
    Proof.
      induction n as [|n IH]; intros st Iv AP; cbn.
      - apply step_spec; assumption.
      - destruct (IH st Iv AP) as (Iv1 & AP1 & L1 & R1).
        destruct (s_queue (run D ops o t x false n cons avoid st)) eqn:Eq.
        + split; [exact Iv1|split; [exact AP1|split; assumption]].
        + destruct (IH _ Iv1 AP1) as (Iv2 & AP2 & L2 & R2).
          split; [exact Iv2|split; [exact AP2|split]].
          * eapply (le_trans _ _ OK); eauto.
          * eapply incl_tran; eauto.
    Qed.

    (** when the queue is empty every index edge is settled *)
    Lemma allpost_done st : AllPost st -> s_queue st = [] -> forall e, in_index e -> Done st e.
    Proof.
      intros AP Eq e (c & Hc & He). destruct (AP c Hc e He) as [Dn|(en & Hen & _)]; [exact Dn|].
      rewrite Eq in Hen. contradiction.
    Qed.
  End WithInv.

  (** *** findEdgesOptimized as a whole *)
  Variable brk : bool.
  (** an empty target is infinitely far from everything; no distance is better than zero() *)
  Hypothesis EmptyFar : t_cap_empty t = true -> forall e lim, less (edist e) lim = false.
  Hypothesis ZeroMin : forall e, less (edist e) (d_zero ops) = false.
  (** the entries initQueue hands to processOrEnqueue represent every index cell that holds an
      edge better than the limit *)
  Hypothesis CoverSound : forall lim,
    (forall ce, In ce (init_entries D ops t x brk lim) -> Vq (fst ce) /\ centry_ok ce) /\
    (forall c, In c (x_cells x) -> (exists e, In e (snd c) /\ less (edist e) lim = true) ->
       exists ce, In ce (init_entries D ops t x brk lim) /\ rep ce c).

  Lemma nth_in_or_default {A} (l : list A) n d : nth n l d = d \/ In (nth n l d) l.
  Proof. revert n. induction l as [|a l IH]; intros [|n]; cbn; auto. destruct (IH n); auto. Qed.

  Lemma it_cell_in_index pos e : In e (it_cell x pos) -> in_index e.
  Proof.
    unfold it_cell. intros H.
    destruct (nth_in_or_default (map snd (x_cells x)) pos []) as [E|I]; [rewrite E in H; contradiction|].
    apply in_map_iff in I. destruct I as (c & Ec & Hc). exists c. split; [exact Hc|]. rewrite Ec. exact H.
  Qed.

  Section OptWhole.
    Variable I : state D -> Prop.
    Hypothesis I_madd : forall avoid st e, in_index e -> I st -> I (madd avoid st e).
    Hypothesis I_queue : forall st q, I st -> I (set_queue D st q).

    Lemma opt_spec cons avoid st : s_queue st = [] -> TestedOK st -> I st ->
      let st' := find_edges_optimized D ops o t x false brk cons avoid st in
      s_queue st' = [] ->
      I st' /\ (forall e, in_index e -> Done st' e) /\
      less (s_limit st) (s_limit st') = false /\ incl (s_results st) (s_results st').
    Proof.
      intros Eq T Ist. cbn. unfold find_edges_optimized.
      destruct (t_cap_empty t) eqn:Ecap.
      { intros _. split; [exact Ist|split; [|split; [apply (le_refl _ _ OK)|apply incl_refl]]].
        intros e _. left. apply EmptyFar. reflexivity. }
      assert (Iv0 : Inv I st).
      { split; [|split; assumption]. split; [rewrite Eq; exact HI_nil|rewrite Eq; intros ? []]. }
      (* the optional first look at the cell containing the target's centre *)
      set (p := if o_max_results o =? 1 then
                  match locate_leaf x (t_center_leaf t) with
                  | Some pos => let s := pedges avoid st (it_cell x pos) in (s, d_eqb ops (s_limit s) (d_zero ops))
                  | None => (st, false)
                  end
                else (st, false)).
      assert (Hp : Inv I (fst p) /\ ext st (fst p) /\ s_queue (fst p) = [] /\
                   (snd p = true -> s_limit (fst p) = d_zero ops)).
      { subst p. destruct (o_max_results o =? 1).
        - destruct (locate_leaf x (t_center_leaf t)) as [pos|]; cbn.
          + split; [|split; [|split]].
            * apply (pedges_Inv I I_madd); [intros e He; eapply it_cell_in_index; eauto|exact Iv0].
            * apply pedges_ext.
            * rewrite pedges_queue. exact Eq.
            * intros E. apply (eqb_spec _ OK). exact E.
          + split; [exact Iv0|split; [apply ext_refl|split; [exact Eq|discriminate]]].
        - cbn. split; [exact Iv0|split; [apply ext_refl|split; [exact Eq|discriminate]]]. }
      destruct p as [st1 stop]. cbn in Hp. destruct Hp as (Iv1 & X1 & Eq1 & Hstop).
      destruct stop.
      { intros _. destruct Iv1 as (_ & _ & I1). split; [exact I1|split; [|split; apply X1]].
        intros e _. left. rewrite (Hstop eq_refl). apply ZeroMin. }
      intros Efin.
      destruct (CoverSound (s_limit st1)) as [Cok Crep].
      destruct (poe_fold I I_madd I_queue cons avoid _ st1 Cok Iv1) as (Iv2 & X2 & P2).
      set (st2 := fold_left _ _ st1) in *.
      assert (AP2 : AllPost st2).
      { intros c Hc e He. destruct (less (edist e) (s_limit st1)) eqn:El.
        - destruct (Crep c Hc (ex_intro _ e (conj He El))) as (ce & Hce & R).
          apply (P2 ce c Hce Hc R e He).
        - left. eapply done_stable; [exact X2|]. left. exact El. }
      destruct (run_spec I I_madd I_queue cons avoid run_fuel st2 Iv2 AP2) as (Iv3 & AP3 & L3 & R3).
      split; [apply Iv3|split; [|split]].
      - apply (allpost_done _ AP3 Efin).
      - eapply (le_trans _ _ OK); [exact L3|]. eapply (le_trans _ _ OK); [apply X2|apply X1].
      - eapply incl_tran; [apply X1|]. eapply incl_tran; [apply X2|exact R3].
    Qed.
  End OptWhole.

  (** *** optimized = brute force *)
  Hypothesis IndexOK : forall e, in_index e <-> In e (all_edges x).

  Lemma EI_init P st : EI (s_results st) (s_limit st) P st.
  Proof.
    split; [|split; [|split]].
    - intros r Hr. left. exact Hr.
    - apply (le_refl _ _ OK).
    - intros _. reflexivity.
    - intros _ E. rewrite E. split; [intros ? []|split; [reflexivity|intros N; contradiction]].
  Qed.

  Lemma EI_weaken R0 L0 (P Q : eid -> Prop) st : (forall e, P e -> Q e) -> EI R0 L0 P st -> EI R0 L0 Q st.
  Proof.
    intros PQ (S & R). split; [|exact R]. intros r Hr. destruct (S r Hr) as [H|(e & Pe & E)]; [left; exact H|].
    right. exists e. split; [apply PQ; exact Pe|exact E].
  Qed.

  (** what a finished search has collected when the limit never moves (MaxResults <> 1) *)
  Lemma final_set (P : eid -> Prop) R0 L0 st' : o_max_results o <> 1 -> EI R0 L0 P st' -> incl R0 (s_results st') ->
    (forall e, P e -> Done st' e) ->
    forall r, In r (s_results st') <-> (In r R0 \/ exists e, P e /\ r = mkres e /\ less (edist e) L0 = true).
  Proof.
    intros K (S & _ & LN & _) Inc Dn r. split; [apply S|].
    intros [H|(e & Pe & -> & L)]; [apply Inc; exact H|].
    destruct (Dn e Pe) as [N|F]; [|exact F]. rewrite (LN K) in N. congruence.
  Qed.

  Lemma truncate_k1 l : o_max_results o = 1 -> truncate D o l = firstn 1 l.
  Proof.
    intros K. unfold truncate. rewrite K. destruct l as [|a [|b l']]; [reflexivity|reflexivity|].
    assert (E : (Z.of_nat (length (a :: b :: l')) >? 1) = true) by (apply Z.gtb_lt; cbn [length]; lia).
    rewrite E. reflexivity.
  Qed.

  Lemma k1_head L0 P s : o_max_results o = 1 -> EI [] L0 P s -> s_results s <> [] ->
    exists hd tl, sort_unique ops (rev (s_results s)) = hd :: tl /\ In hd (s_results s) /\
      s_limit s = sub (r_dist hd) err /\ (forall r, In r (s_results s) -> less (r_dist r) (r_dist hd) = false).
  Proof.
    intros K (_ & _ & _ & L1) NE. destruct (L1 K eq_refl) as (B & _ & Ex).
    destruct (Ex NE) as (rs & Hrs & Ers & Mrs).
    pose proof (sort_unique_sorted D ops OK (rev (s_results s))) as S.
    assert (Mem : forall c, In c (sort_unique ops (rev (s_results s))) <-> In c (s_results s)).
    { intros c. rewrite (sort_unique_in D ops OK). rewrite <- in_rev. tauto. }
    destruct (sort_unique ops (rev (s_results s))) as [|hd tl] eqn:E.
    { exfalso. apply (Mem rs). exact Hrs. }
    exists hd, tl. split; [reflexivity|].
    assert (Hhd : In hd (s_results s)) by (apply Mem; left; reflexivity).
    split; [exact Hhd|].
    assert (Eq : r_dist hd = r_dist rs).
    { destruct (proj2 (Mem rs) Hrs) as [<-|Htl]; [reflexivity|].
      inversion S as [|? ? _ F]; subst. rewrite Forall_forall in F. specialize (F rs Htl).
      unfold rlt, r_less in F. destruct (d_eqb ops (r_dist hd) (r_dist rs)) eqn:Ed; cbn [negb] in F.
      - apply (eqb_spec _ OK) in Ed. exact Ed.
      - rewrite (Mrs hd Hhd) in F. discriminate. }
    rewrite Eq. split; [exact Ers|exact Mrs].
  Qed.

  Lemma no_elements {A} (l : list A) : (forall a, ~ In a l) -> l = [].
  Proof. destruct l as [|a l]; [reflexivity|]. intros H. exfalso. apply (H a). left. reflexivity. Qed.

  Theorem opt_eq_brute_core cons avoid st :
    s_queue st = [] -> s_tested st = [] ->
    let so := find_edges_optimized D ops o t x false brk cons avoid st in
    let sb := find_edges_brute D ops o t x false st in
    s_queue so = [] ->
    (o_max_results o <> 1 ->
       sort_unique ops (rev (s_results so)) = sort_unique ops (rev (s_results sb))) /\
    (o_max_results o = 1 -> s_results st = [] -> (forall d, sub d err = d) ->
       map r_dist (truncate D o (sort_unique ops (rev (s_results so)))) =
       map r_dist (truncate D o (sort_unique ops (rev (s_results sb))))) /\
    (forall r, In r (s_results so) -> In r (s_results st) \/
       exists e, In e (all_edges x) /\ r = mkres e /\ less (edist e) (s_limit st) = true).
  Proof.
    intros Eq Et. cbn. intros Efin.
    assert (T0 : TestedOK st) by (intros e He; rewrite Et in He; contradiction).
    set (R0 := s_results st). set (L0 := s_limit st).
    destruct (opt_spec (EI R0 L0 in_index) (fun a s e Pe H => EI_madd R0 L0 in_index a s e Pe H)
                (fun s q H => H) cons avoid st Eq T0 (EI_init in_index st) Efin) as (EIo & Dno & _ & Inco).
    destruct (brute_spec R0 L0 st T0 (EI_init _ st)) as (EIb & Dnb & Xb).
    cbn in EIb, Dnb, Xb.
    set (so := find_edges_optimized D ops o t x false brk cons avoid st) in *.
    set (sb := find_edges_brute D ops o t x false st) in *.
    assert (EIb' : EI R0 L0 in_index sb) by (eapply EI_weaken; [|exact EIb]; intros e He; apply IndexOK; exact He).
    assert (Dnb' : forall e, in_index e -> Done sb e) by (intros e He; apply Dnb, IndexOK; exact He).
    split; [|split].
    - intros K. apply (sorted_set_eq D ops OK); try apply (sort_unique_sorted D ops OK).
      intros c. rewrite !(sort_unique_in D ops OK), <- !in_rev.
      rewrite (final_set in_index R0 L0 so K EIo Inco Dno), (final_set in_index R0 L0 sb K EIb' (proj1 (proj2 Xb)) Dnb'). tauto.
    - intros K R0nil ErrZero. rewrite !(truncate_k1 _ K).
      assert (R0e : R0 = []) by exact R0nil. rewrite R0e in *.
      destruct (s_results so) as [|ro lo] eqn:Ero; destruct (s_results sb) as [|rb lb] eqn:Erb.
      + reflexivity.
      + (* optimized found nothing: no index edge is better than L0, so brute force finds nothing either *)
        exfalso. destruct EIo as (_ & _ & _ & L1o). destruct (L1o K eq_refl) as (_ & Lo & _).
        destruct EIb' as (Sb & _). destruct (Sb rb) as [[]|(e & Pe & _ & Le)]; [rewrite Erb; left; reflexivity|].
        destruct (Dno e Pe) as [N|F]; [rewrite (Lo Ero) in N; congruence|].
        unfold Found in F. rewrite Ero in F. contradiction.
      + exfalso. destruct EIb' as (_ & _ & _ & L1b). destruct (L1b K eq_refl) as (_ & Lb & _).
        destruct EIo as (So & _). destruct (So ro) as [[]|(e & Pe & _ & Le)]; [rewrite Ero; left; reflexivity|].
        destruct (Dnb' e Pe) as [N|F]; [rewrite (Lb Erb) in N; congruence|].
        unfold Found in F. rewrite Erb in F. contradiction.
      + assert (NEo : s_results so <> []) by (rewrite Ero; discriminate).
        assert (NEb : s_results sb <> []) by (rewrite Erb; discriminate).
        destruct (k1_head L0 in_index so K EIo NEo) as (ho & tlo & Eho & Hho & Mo & _).
        destruct (k1_head L0 in_index sb K EIb' NEb) as (hb & tlb & Ehb & Hhb & Mb & _).
        rewrite Ero in Eho. rewrite Erb in Ehb. rewrite Eho, Ehb. cbn. f_equal.
        rewrite ErrZero in Mo, Mb. rewrite <- Mo, <- Mb.
        (* both limits are the minimum over the index edges *)
        destruct EIo as (So & _ & _ & L1o). destruct EIb' as (Sb & _ & _ & L1b).
        destruct (L1o K eq_refl) as (Bo & _ & _). destruct (L1b K eq_refl) as (Bb & _ & _).
        destruct (So ho Hho) as [[]|(e1 & P1 & E1 & _)]. destruct (Sb hb Hhb) as [[]|(e2 & P2 & E2 & _)].
        apply (le_antisym _ _ OK).
        * (* limit sb <= limit so *)
          rewrite Mo, E1. cbn. destruct (Dnb' e1 P1) as [N|F]; [exact N|]. apply (Bb _ F).
        * rewrite Mb, E2. cbn. destruct (Dno e2 P2) as [N|F]; [exact N|]. apply (Bo _ F).
    - intros r Hr. destruct EIo as (So & _). destruct (So r Hr) as [H|(e & Pe & E & L)]; [left; exact H|].
      right. exists e. split; [apply IndexOK; exact Pe|split; assumption].
  Qed.

  (** *** MaxResults = 1 with any permitted error: the single result is within the error of the optimum *)
  Lemma k1_result L0 (P : eid -> Prop) s : o_max_results o = 1 -> EI [] L0 P s -> (forall e, P e -> Done s e) ->
    let out := truncate D o (sort_unique ops (rev (s_results s))) in
    (s_results s = [] -> out = [] /\ forall e, P e -> less (edist e) L0 = false) /\
    (s_results s <> [] -> exists hd, out = [hd] /\ In hd (s_results s) /\
       forall e, P e -> less (edist e) (sub (r_dist hd) err) = false).
  Proof.
    intros K E Dn. cbn. rewrite (truncate_k1 _ K). split.
    - intros Er. rewrite Er. split; [reflexivity|]. intros e Pe.
      destruct E as (_ & _ & _ & L1). destruct (L1 K eq_refl) as (_ & Lz & _).
      destruct (Dn e Pe) as [N|F]; [rewrite (Lz Er) in N; exact N|]. unfold Found in F. rewrite Er in F. contradiction.
    - intros NE. destruct (k1_head L0 P s K E NE) as (hd & tl & Eh & Hh & Lh & Mh).
      exists hd. rewrite Eh. split; [reflexivity|split; [exact Hh|]]. intros e Pe.
      destruct (Dn e Pe) as [N|F]; [rewrite Lh in N; exact N|].
      eapply (le_trans _ _ OK); [apply SubLe|]. apply (Mh _ F).
  Qed.

  Theorem opt_within_error_core cons avoid st :
    s_queue st = [] -> s_tested st = [] -> s_results st = [] -> o_max_results o = 1 ->
    let so := find_edges_optimized D ops o t x false brk cons avoid st in
    s_queue so = [] ->
    let out := truncate D o (sort_unique ops (rev (s_results so))) in
    (out = [] <-> forall e, In e (all_edges x) -> less (edist e) (s_limit st) = false) /\
    (forall r, In r out ->
       (exists e, In e (all_edges x) /\ r = mkres e /\ less (edist e) (s_limit st) = true) /\
       (forall e, In e (all_edges x) -> less (edist e) (sub (r_dist r) err) = false)).
  Proof.
    intros Eq Et Er K. cbn. intros Efin.
    assert (T0 : TestedOK st) by (intros e He; rewrite Et in He; contradiction).
    pose proof (EI_init in_index st) as E0. rewrite Er in E0.
    destruct (opt_spec (EI [] (s_limit st) in_index) (fun a s e Pe H => EI_madd [] (s_limit st) in_index a s e Pe H)
                (fun s q H => H) cons avoid st Eq T0 E0 Efin) as (EIo & Dno & _ & _).
    set (so := find_edges_optimized D ops o t x false brk cons avoid st) in *.
    destruct (k1_result (s_limit st) in_index so K EIo Dno) as [Hnil Hne]. cbn in Hnil, Hne.
    destruct (s_results so) as [|r0 l0] eqn:Ers.
    - destruct (Hnil eq_refl) as [Eo Far]. rewrite Eo. split.
      + split; [intros _ e He; apply Far, IndexOK; exact He|reflexivity].
      + intros r [].
    - destruct Hne as (hd & Eo & Hh & Opt); [discriminate|]. rewrite Eo. split.
      + split; [discriminate|]. intros Far. exfalso.
        destruct EIo as (So & _). destruct (So hd) as [[]|(e & Pe & _ & L)]; [rewrite Ers; exact Hh|].
        rewrite (Far e (proj1 (IndexOK e) Pe)) in L. discriminate.
      + intros r [<-|[]]. split.
        * destruct EIo as (So & _). destruct (So hd) as [[]|(e & Pe & E & L)]; [rewrite Ers; exact Hh|].
          exists e. split; [apply IndexOK; exact Pe|split; assumption].
        * intros e He. apply Opt, IndexOK. exact He.
  Qed.
End Opt.
