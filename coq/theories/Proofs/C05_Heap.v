(** C05 — container/heap as transcribed in Model/Coverer.v: Push and Pop only permute the queue;
    and the generic reasoning principles for the fuel-doubling loop [iter2]. *)
From Coq Require Import ZArith List Bool Lia Sorting.Permutation.
From Geo Require Import Base.GoPrim Model.Coverer.
Import ListNotations.

Lemma upd_nat_length : forall {A} (l : list A) i v, length (upd_nat l i v) = length l.
Proof. induction l as [|h t IH]; intros [|i] v; cbn; auto. Qed.

Lemma upd_nat_perm : forall {A} (l : list A) i v d, (i < length l)%nat ->
  Permutation (v :: l) (nth i l d :: upd_nat l i v).
Proof.
  induction l as [|h t IH]; intros i v d Hi; cbn in Hi; [lia|].
  destruct i as [|i]; cbn.
  - apply perm_swap.
  - eapply perm_trans; [apply perm_swap|].
    eapply perm_trans; [apply perm_skip, (IH i v d); lia|]. apply perm_swap.
Qed.

Lemma nth_upd_nat_same : forall {A} (l : list A) i v d, (i < length l)%nat -> nth i (upd_nat l i v) d = v.
Proof. induction l as [|h t IH]; intros [|i] v d Hi; cbn in *; try lia; auto; try (apply IH; lia). Qed.
Lemma nth_upd_nat_other : forall {A} (l : list A) i j v d, i <> j -> nth j (upd_nat l i v) d = nth j l d.
Proof.
  induction l as [|h t IH]; intros [|i] [|j] v d Hij; cbn; auto; try lia; try (apply IH; lia).
Qed.

Lemma pq_swap_length : forall h i j, length (pq_swap h i j) = length h.
Proof. intros. unfold pq_swap. rewrite !upd_nat_length. reflexivity. Qed.

Lemma pq_swap_perm : forall h i j, (i < length h)%nat -> (j < length h)%nat ->
  Permutation h (pq_swap h i j).
Proof.
  intros h i j Hi Hj. unfold pq_swap.
  set (a := nth i h q_dummy). set (b := nth j h q_dummy).
  pose proof (upd_nat_perm h i b q_dummy Hi) as P1. fold a in P1.
  assert (Hj' : (j < length (upd_nat h i b))%nat) by (rewrite upd_nat_length; exact Hj).
  pose proof (upd_nat_perm (upd_nat h i b) j a q_dummy Hj') as P2.
  assert (E : nth j (upd_nat h i b) q_dummy = b).
  { destruct (Nat.eq_dec i j) as [->|Hne].
    - apply nth_upd_nat_same; exact Hi.
    - rewrite nth_upd_nat_other by exact Hne. reflexivity. }
  rewrite E in P2.
  apply Permutation_cons_inv with (a := b).
  eapply perm_trans; [exact P1|]. exact P2.
Qed.

Lemma heap_up_perm : forall fuel h j, (j < length h)%nat ->
  Permutation h (heap_up fuel h j) /\ length (heap_up fuel h j) = length h.
Proof.
  induction fuel as [|f IH]; intros h j Hj; cbn [heap_up]; [split; [apply Permutation_refl|reflexivity]|].
  set (i := Nat.div (j - 1) 2).
  assert (Hi : (i <= j)%nat).
  { unfold i. eapply Nat.le_trans; [apply Nat.div_le_upper_bound with (q := (j - 1)%nat); lia|lia]. }
  destruct (Nat.eqb i j || negb (pq_less h j i)); [split; [apply Permutation_refl|reflexivity]|].
  destruct (IH (pq_swap h i j) i) as [P L]; [rewrite pq_swap_length; lia|].
  split.
  - eapply perm_trans; [apply (pq_swap_perm h i j); lia|exact P].
  - rewrite L. apply pq_swap_length.
Qed.

Lemma heap_down_perm : forall fuel h i n, (n <= length h)%nat ->
  Permutation h (heap_down fuel h i n) /\ length (heap_down fuel h i n) = length h.
Proof.
  induction fuel as [|f IH]; intros h i n Hn; cbn [heap_down]; [split; [apply Permutation_refl|reflexivity]|].
  destruct (Nat.leb_spec n (2 * i + 1)) as [Hle|Hlt]; [split; [apply Permutation_refl|reflexivity]|].
  set (j := if Nat.ltb (2 * i + 1 + 1) n && pq_less h (2 * i + 1 + 1) (2 * i + 1) then (2 * i + 1 + 1)%nat else (2 * i + 1)%nat).
  assert (Hj : (j < n)%nat).
  { unfold j. destruct (Nat.ltb_spec (2 * i + 1 + 1) n); cbn [andb]; [|lia].
    destruct (pq_less h (2 * i + 1 + 1) (2 * i + 1)); lia. }
  destruct (negb (pq_less h j i)); [split; [apply Permutation_refl|reflexivity]|].
  destruct (IH (pq_swap h i j) j n) as [P L]; [rewrite pq_swap_length; lia|].
  split.
  - eapply perm_trans; [apply (pq_swap_perm h i j); lia|exact P].
  - rewrite L. apply pq_swap_length.
Qed.

Lemma heap_Push_perm : forall h x, Permutation (x :: h) (heap_Push h x).
Proof.
  intros h x. unfold heap_Push.
  eapply perm_trans; [apply Permutation_cons_append|].
  apply heap_up_perm. rewrite app_length. cbn. lia.
Qed.

Lemma heap_Pop_perm : forall h x h', heap_Pop h = Some (x, h') -> Permutation h (x :: h').
Proof.
  intros h x h' H. unfold heap_Pop in H. destruct h as [|a t]; [discriminate|].
  set (h0 := a :: t) in *. set (n := (length h0 - 1)%nat) in *.
  assert (Hn : (n < length h0)%nat) by (unfold n, h0; cbn; lia).
  injection H as Hx Hh'.
  pose proof (pq_swap_perm h0 0 n ltac:(lia) Hn) as P1.
  destruct (heap_down_perm (S n) (pq_swap h0 0 n) 0 n ltac:(rewrite pq_swap_length; lia)) as [P2 L2].
  set (h2 := heap_down (S n) (pq_swap h0 0 n) 0 n) in *.
  rewrite pq_swap_length in L2.
  assert (E : h2 = firstn n h2 ++ [nth n h2 q_dummy]).
  { rewrite <- (firstn_skipn n h2) at 1. f_equal.
    assert (Hs : length (skipn n h2) = 1%nat) by (rewrite skipn_length; lia).
    destruct (skipn n h2) as [|y [|z r]] eqn:Es; cbn in Hs; try lia.
    f_equal. rewrite <- (firstn_skipn n h2) at 1. rewrite app_nth2; rewrite firstn_length; [|lia].
    replace (n - Nat.min n (length h2))%nat with 0%nat by lia. rewrite Es. reflexivity. }
  subst x h'.
  eapply perm_trans; [exact P1|]. eapply perm_trans; [exact P2|].
  rewrite E at 1. apply Permutation_sym, Permutation_cons_append.
Qed.

Lemma heap_Pop_none : forall h, heap_Pop h = None -> h = [].
Proof. intros [|a t] H; [reflexivity|discriminate]. Qed.

(** * iter2 *)
Lemma iter2_inv : forall {S R} (f : S -> S + R) (I : S -> Prop) (P : R -> Prop),
  (forall s, I s -> match f s with inl s' => I s' | inr r => P r end) ->
  forall n s, I s -> match iter2 n f s with inl s' => I s' | inr r => P r end.
Proof.
  intros S R f I P Hstep. induction n as [|n IH]; intros s Hs; cbn [iter2].
  - apply Hstep, Hs.
  - pose proof (IH s Hs) as H1. destruct (iter2 n f s) as [s'|r]; [apply IH; exact H1|exact H1].
Qed.

(** a measure that strictly decreases at every continuing step bounds the number of steps *)
Lemma iter2_measure : forall {S R} (f : S -> S + R) (I : S -> Prop) (mu : S -> Z),
  (forall s, I s -> (0 <= mu s)%Z) ->
  (forall s, I s -> match f s with inl s' => I s' /\ (mu s' + 1 <= mu s)%Z | inr _ => True end) ->
  forall n s, I s ->
    match iter2 n f s with inl s' => I s' /\ (mu s' + 2 ^ Z.of_nat n <= mu s)%Z | inr _ => True end.
Proof.
  intros S R f I mu Hpos Hstep. induction n as [|n IH]; intros s Hs; cbn [iter2].
  - specialize (Hstep s Hs). destruct (f s); [|exact Logic.I]. cbn. exact Hstep.
  - pose proof (IH s Hs) as H1. destruct (iter2 n f s) as [s'|r]; [|exact Logic.I].
    destruct H1 as [Hs' Hm1]. pose proof (IH s' Hs') as H2.
    destruct (iter2 n f s') as [s''|r]; [|exact Logic.I].
    destruct H2 as [Hs'' Hm2]. split; [exact Hs''|].
    rewrite Nat2Z.inj_succ, Z.pow_succ_r by lia. lia.
Qed.

Lemma iter2_terminates : forall {S R} (f : S -> S + R) (I : S -> Prop) (mu : S -> Z),
  (forall s, I s -> (0 <= mu s)%Z) ->
  (forall s, I s -> match f s with inl s' => I s' /\ (mu s' + 1 <= mu s)%Z | inr _ => True end) ->
  forall n s, I s -> (mu s < 2 ^ Z.of_nat n)%Z -> exists r, iter2 n f s = inr r.
Proof.
  intros S R f I mu Hpos Hstep n s Hs Hlt.
  pose proof (iter2_measure f I mu Hpos Hstep n s Hs) as H.
  destruct (iter2 n f s) as [s'|r]; [|exists r; reflexivity].
  destruct H as [Hs' Hm]. specialize (Hpos s' Hs'). lia.
Qed.
