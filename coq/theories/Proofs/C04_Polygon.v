(** C04 — polygons: the brute-force answer (XOR over the loops) is the crossing parity over
    the polygon's own shape edges (holes reversed) from OriginPoint with the XOR of the loops'
    originInside ([polygon_xor]); inverting one loop complements the polygon. *)
From Coq Require Import List Bool Arith Lia Permutation.
From Geo Require Import Model.Contain Proofs.C04_Brute Proofs.C04_Dispatch.
Import ListNotations.

Section Polygon.
  Variable point : Type.
  Variable peq : point -> point -> bool.
  Variable eov : point -> point -> point -> point -> bool.
  Variable origin : point.
  Variables emptyPt fullPt zeroPt : point.

  Local Notation loop := (loop point).
  Local Notation polygon := (polygon point).
  Local Notation edge := (edge point).
  Local Notation brute_contains := (brute_contains point eov origin zeroPt).
  Local Notation invert := (invert point emptyPt fullPt).
  Local Notation parity := (parity point eov).
  Local Notation cross_parity := (cross_parity point eov).
  Local Notation loop_edges := (loop_edges point).
  Local Notation closed_edges := (closed_edges point).
  Local Notation vertex := (vertex point zeroPt).
  Local Notation polygon_brute := (polygon_brute point eov origin zeroPt).
  Local Notation polygon_shape := (polygon_shape point zeroPt).
  Local Notation oriented_vertex := (oriented_vertex point zeroPt).
  Local Notation contains_brute_force := (contains_brute_force point peq eov origin zeroPt).
  Local Notation ledge := (ledge point zeroPt).

  (** *** XOR over the loops *)
  Definition xor_inside (P : polygon) : bool :=
    fold_left (fun b (lh : loop * bool) => xorb b (origin_inside _ (fst lh))) P false.
  Definition all_loop_edges (P : polygon) : list edge := flat_map (fun lh => loop_edges (fst lh)) P.

  Lemma fold_xor_acc : forall (A : Type) (f : A -> bool) l acc,
    fold_left (fun b x => xorb b (f x)) l acc = xorb acc (fold_left (fun b x => xorb b (f x)) l false).
  Proof.
    intros A f l. induction l as [|x l IH]; intro acc; cbn [fold_left].
    - rewrite xorb_false_r. reflexivity.
    - rewrite IH, (IH (xorb false (f x))), xorb_false_l, xorb_assoc. reflexivity.
  Qed.

  Lemma polygon_brute_cons : forall lh (P : polygon) p,
    polygon_brute (lh :: P) p = xorb (brute_contains (fst lh) p) (polygon_brute P p).
  Proof.
    intros lh P p. unfold Contain.polygon_brute. cbn [fold_left].
    rewrite (fold_xor_acc _ (fun lh => brute_contains (fst lh) p)), xorb_false_l. reflexivity.
  Qed.

  Lemma xor_inside_cons : forall lh (P : polygon),
    xor_inside (lh :: P) = xorb (origin_inside _ (fst lh)) (xor_inside P).
  Proof.
    intros lh P. unfold xor_inside. cbn [fold_left].
    rewrite (fold_xor_acc _ (fun lh : loop * bool => origin_inside _ (fst lh))), xorb_false_l. reflexivity.
  Qed.

  (** the polygon's brute force is one parity over all the loops' edges *)
  Lemma polygon_brute_parity : forall (P : polygon) p,
    polygon_brute P p = parity origin (xor_inside P) (all_loop_edges P) p.
  Proof.
    intros P p. unfold Contain.parity. induction P as [|lh P IH].
    - reflexivity.
    - rewrite polygon_brute_cons, xor_inside_cons, IH.
      unfold all_loop_edges. cbn [flat_map]. rewrite (cross_parity_app point eov).
      rewrite (parity_def point eov origin zeroPt). unfold Contain.parity.
      fold (all_loop_edges P).
      destruct (origin_inside _ (fst lh)), (xor_inside P),
        (cross_parity origin p (loop_edges (fst lh))), (cross_parity origin p (all_loop_edges P)); reflexivity.
  Qed.

  (** *** the oriented edges of one loop inside a polygon (Polygon.Edge) *)
  Definition oriented_edges (lh : loop * bool) : list edge :=
    map (fun e => (oriented_vertex lh e, oriented_vertex lh (e + 1))) (seq 0 (length (verts _ (fst lh)))).

  Lemma oriented_vertex_eq : forall (L : loop) (hole : bool) i,
    i <= length (verts _ L) -> 0 < length (verts _ L) ->
    oriented_vertex (L, hole) i = vertex (if hole then rev (verts _ L) else verts _ L) i.
  Proof.
    intros [vs oi] hole i Hi Hn. cbn [verts] in *. unfold Contain.oriented_vertex. cbn [fst snd verts].
    set (n := length vs) in *.
    destruct (Nat.leb_spec n i) as [Hge|Hlt].
    - assert (i = n) by lia. subst i. rewrite Nat.sub_diag.
      destruct hole; unfold Contain.vertex.
      + rewrite rev_length. fold n. rewrite Nat.mod_same by lia.
        rewrite Nat.mod_small by lia.
        rewrite rev_nth by (fold n; lia). fold n. f_equal. lia.
      + fold n. rewrite Nat.mod_same by lia. rewrite Nat.mod_small by lia. reflexivity.
    - destruct hole; unfold Contain.vertex.
      + rewrite rev_length. fold n. rewrite !Nat.mod_small by lia.
        rewrite rev_nth by (fold n; lia). fold n. f_equal. lia.
      + reflexivity.
  Qed.

  Lemma oriented_edges_closed : forall (L : loop) (hole : bool),
    oriented_edges (L, hole) = closed_edges (if hole then rev (verts _ L) else verts _ L).
  Proof.
    intros L hole. unfold oriented_edges. cbn [fst].
    destruct (verts _ L) as [|v0 rest] eqn:Evs.
    - destruct hole; reflexivity.
    - rewrite (closed_edges_seq point zeroPt).
      replace (length (if hole then rev (v0 :: rest) else v0 :: rest)) with (length (v0 :: rest))
        by (destruct hole; [rewrite rev_length|]; reflexivity).
      apply map_ext_in. intros e He. apply in_seq in He. unfold C04_Dispatch.ledge.
      rewrite <- Evs.
      rewrite !oriented_vertex_eq by (rewrite Evs; cbn [length] in *; lia).
      reflexivity.
  Qed.

  (** *** [polygon_xor] *)
  Hypothesis eov_sym : eov_sym_cd_law point eov.
  Hypothesis eov_deg : eov_degenerate_cd_law point eov.

  Lemma oriented_edges_parity : forall (lh : loop * bool) a b,
    cross_parity a b (oriented_edges lh) = cross_parity a b (loop_edges (fst lh)).
  Proof.
    intros [L hole] a b. rewrite oriented_edges_closed. cbn [fst]. unfold Contain.loop_edges.
    destruct hole; [|reflexivity].
    apply (closed_parity_rev point eov eov_sym).
  Qed.

  Lemma flat_oriented_parity : forall (P : polygon) a b,
    cross_parity a b (flat_map oriented_edges P) = cross_parity a b (all_loop_edges P).
  Proof.
    intros P a b. induction P as [|lh P IH]; [reflexivity|].
    unfold all_loop_edges. cbn [flat_map]. rewrite !(cross_parity_app point eov).
    rewrite oriented_edges_parity. fold (all_loop_edges P). rewrite IH. reflexivity.
  Qed.

  Lemma shape_edges_parity : forall (P : polygon) a b,
    cross_parity a b (sh_edges _ (polygon_shape P)) = cross_parity a b (all_loop_edges P).
  Proof.
    intros P a b. unfold Contain.polygon_shape. cbn [sh_edges].
    destruct (polygon_is_full point P) eqn:Efull.
    - (* the full polygon: its single loop has the one degenerate edge (v,v) *)
      unfold Contain.polygon_is_full in Efull.
      destruct P as [|[L h] [|? ?]]; try discriminate.
      apply andb_true_iff in Efull. destruct Efull as [E1 _].
      unfold Contain.is_empty_or_full in E1. cbn [fst] in E1. apply Nat.eqb_eq in E1.
      unfold all_loop_edges. cbn [flat_map fst]. rewrite app_nil_r. unfold Contain.loop_edges.
      destruct (verts _ L) as [|v [|w r]]; try discriminate.
      cbn [Contain.closed_edges Contain.chain_edges app].
      rewrite (cross_parity_cons point eov), !(cross_parity_nil point eov). cbn [fst snd].
      rewrite eov_deg. reflexivity.
    - apply flat_oriented_parity.
  Qed.

  (** The XOR over the loops' brute force = parity over the polygon's shape edges from
      OriginPoint starting at the polygon's reference value. *)
  Theorem polygon_xor : forall (P : polygon) p,
    polygon_brute P p
    = parity origin (sh_ref_inside _ (polygon_shape P)) (sh_edges _ (polygon_shape P)) p.
  Proof.
    intros P p. rewrite polygon_brute_parity. unfold Contain.parity.
    rewrite shape_edges_parity. reflexivity.
  Qed.

  (** hence shapeutil's containsBruteForce on the polygon (what the index build uses) agrees *)
  Corollary polygon_contains_brute_force : forall (P : polygon) p,
    peq origin p = false ->
    contains_brute_force (polygon_shape P) p = polygon_brute P p.
  Proof.
    intros P p Hp. rewrite (contains_brute_force_parity point peq eov origin zeroPt), Hp.
    symmetry. apply polygon_xor.
  Qed.

  (** *** a polygon and its complement *)
  Lemma polygon_brute_perm : forall (P Q : polygon) p,
    Permutation (map fst P) (map fst Q) -> polygon_brute P p = polygon_brute Q p.
  Proof.
    intros P Q p H.
    assert (G : forall (ls : list loop) (P : polygon), map fst P = ls ->
                polygon_brute P p = fold_right (fun L b => xorb (brute_contains L p) b) false ls).
    { clear. intros ls P <-. induction P as [|lh P IH]; [reflexivity|].
      rewrite polygon_brute_cons, IH. reflexivity. }
    rewrite (G _ P eq_refl), (G _ Q eq_refl).
    induction H; cbn [fold_right].
    - reflexivity.
    - rewrite IHPermutation. reflexivity.
    - rewrite <- !xorb_assoc, (xorb_comm (brute_contains y p)). reflexivity.
    - rewrite IHPermutation1. exact IHPermutation2.
  Qed.

  (** Polygon.Invert inverts one loop and re-labels depths: whatever the order and the hole
      flags afterwards, every point changes sides. *)
  Theorem polygon_invert_complement : forall (P Q : polygon) (L : loop) (rest : list loop) p,
    Permutation (map fst P) (L :: rest) ->
    Permutation (map fst Q) (invert L :: rest) ->
    polygon_brute Q p = negb (polygon_brute P p).
  Proof.
    intros P Q L rest p HP HQ.
    set (R := map (fun l : loop => (l, false)) rest).
    assert (HR : map fst R = rest).
    { unfold R. rewrite map_map. cbn [fst]. apply map_id. }
    rewrite (polygon_brute_perm P ((L, false) :: R) p) by (cbn [map fst]; rewrite HR; exact HP).
    rewrite (polygon_brute_perm Q ((invert L, false) :: R) p) by (cbn [map fst]; rewrite HR; exact HQ).
    rewrite !polygon_brute_cons. cbn [fst].
    rewrite (invert_complement point eov origin emptyPt fullPt zeroPt eov_sym eov_deg).
    destruct (brute_contains L p), (polygon_brute R p); reflexivity.
  Qed.

  (** the empty polygon (no loops) and the full polygon (the full loop) *)
  Lemma empty_full_polygon : forall p v,
    polygon_brute [] p = false /\ polygon_brute [(mk_loop _ [v] true, false)] p = true.
  Proof.
    intros p v. split; [reflexivity|].
    rewrite polygon_brute_cons. cbn [fst]. rewrite (parity_def point eov origin zeroPt).
    unfold Contain.parity, Contain.loop_edges. cbn [verts origin_inside Contain.closed_edges Contain.chain_edges app].
    rewrite (cross_parity_cons point eov), (cross_parity_nil point eov). cbn [fst snd].
    rewrite eov_deg. reflexivity.
  Qed.
End Polygon.
