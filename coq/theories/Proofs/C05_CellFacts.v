(** C05 — arithmetic meaning of the translated integer functions of s2/cellid.go
    (Gen/CellIDCov.v) on valid cell ids.  Everything later (cell unions, the coverer) uses
    only the statements of this file.

    A valid cell id at level L is a number c in (0, 6*2^61) whose lowest set bit is
    lsbL L = 4^(30-L):   c mod (2 * lsbL L) = lsbL L.
    Its leaf range is [c - lsbL L + 1, c + lsbL L - 1]; leaf cells are the odd ids. *)
From Coq Require Import ZArith Znumtheory List Bool Lia.
From Coq Require Import ZifyBool.
From Geo Require Import Base.GoPrim Gen.CellIDCov Model.Coverer.
From Geo Require Import Gen.CellID.  (* s2_CellID_RangeMin *)
From Geo Require Import Gen.CellIDFull.  (* s2_CellID_CommonAncestorLevel *)
Import ListNotations.
Local Open Scope Z_scope.

Definition lsbL (L : Z) : Z := 4 ^ (30 - L).

Definition valid_at (c L : Z) : Prop :=
  0 <= L <= 30 /\ 0 < c < 6 * 2 ^ 61 /\ c mod (2 * lsbL L) = lsbL L.
Definition valid (c : Z) : Prop := exists L, valid_at c L.

(** leaf cells and leaf ranges *)
Definition is_leaf (x : Z) : Prop := valid_at x 30.
Definition leaf_in (x c : Z) : Prop := s2_CellID_RangeMin c <= x <= s2_CellID_RangeMax c.
Definition covered (l : list Z) (x : Z) : Prop := exists c, In c l /\ leaf_in x c.

(** the four children of c (level L < 30), in id order: c-3t, c-t, c+t, c+3t with t = lsbL (L+1) *)
Definition child (c L i : Z) : Z := c + (2 * i - 3) * lsbL (L + 1).

(* ---------------------------------------------------------------------- *)
(** * Bit-level toolbox *)

Lemma wrap_u64_small : forall x, 0 <= x < 2^64 -> wrap_u64 x = x.
Proof. intros x H. unfold wrap_u64, wrap_u. apply Z.mod_small. exact H. Qed.

Lemma wrap_u64_opp : forall x, 0 < x < 2^64 -> wrap_u64 (- x) = 2^64 - x.
Proof.
  intros x H. unfold wrap_u64, wrap_u.
  replace (- x) with ((2^64 - x) + (-1) * 2^64) by ring.
  rewrite Z.mod_add by lia. apply Z.mod_small. lia.
Qed.

Lemma testbit_div : forall a j n, 0 <= j <= n -> Z.testbit a n = Z.testbit (a / 2^j) (n - j).
Proof. intros a j n H. rewrite Z.div_pow2_bits by lia. f_equal. lia. Qed.

(** bits of c = 2^j * (2k+1) and of -c *)
Lemma lsb_bits : forall c j, 0 <= j -> 0 < c < 2^64 -> j < 64 -> c mod 2^(j+1) = 2^j ->
  Z.land c (2^64 - c) = 2^j.
Proof.
  intros c j Hj Hc Hj64 Hm.
  assert (Hp : 0 < 2^j) by (apply Z.pow_pos_nonneg; lia).
  assert (E1 : 2^(j+1) = 2 * 2^j) by (rewrite Z.pow_add_r by lia; change (2^1) with 2; ring).
  pose proof (Z.div_mod c (2^(j+1)) ltac:(lia)) as Hd.
  set (k := c / 2^(j+1)) in *.
  assert (Hc' : c = 2^j * (2*k+1)) by lia.
  assert (Hk : 0 <= k) by (subst k; apply Z.div_pos; lia).
  apply Z.bits_inj'. intros n Hn.
  rewrite Z.land_spec, Z.pow2_bits_eqb by lia.
  destruct (Z.ltb_spec n 64) as [Hn64|Hn64].
  2:{ assert (Z.testbit c n = false).
      { apply Z.bits_above_log2; try lia. apply Z.log2_lt_pow2; try lia.
        eapply Z.lt_le_trans; [apply Hc|]. apply Z.pow_le_mono_r; lia. }
      rewrite H. simpl. symmetry. apply Z.eqb_neq. lia. }
  assert (Hneg : Z.testbit (2^64 - c) n = Z.testbit (- c) n).
  { replace (2^64 - c) with ((-c) + 1 * 2^64) by ring.
    rewrite <- (Z.mod_pow2_bits_low ((- c) + 1 * 2 ^ 64) 64 n) by lia.
    rewrite Z.mod_add by lia. rewrite Z.mod_pow2_bits_low by lia. reflexivity. }
  rewrite Hneg, Z.bits_opp by lia.
  destruct (Z.lt_trichotomy n j) as [Hlt|[Heq|Hgt]].
  - assert (Z.testbit c n = false).
    { rewrite Hc'. rewrite Z.mul_comm. apply Z.mul_pow2_bits_low. lia. }
    rewrite H. simpl. symmetry. apply Z.eqb_neq. lia.
  - subst n. rewrite Z.eqb_refl.
    assert (Z.testbit c j = true).
    { rewrite (testbit_div c j j) by lia. rewrite Hc'.
      rewrite Z.mul_comm, Z.div_mul by lia. rewrite Z.sub_diag, Z.bit0_odd.
      rewrite Z.add_comm. rewrite Z.odd_add_mul_2. reflexivity. }
    assert (Z.testbit (Z.pred c) j = false).
    { rewrite (testbit_div _ j j) by lia.
      replace (Z.pred c) with ((2^j - 1) + (2*k) * 2^j) by lia.
      rewrite Z.div_add by lia. rewrite Z.div_small by lia.
      rewrite Z.sub_diag, Z.bit0_odd. rewrite Z.add_0_l, Z.odd_mul. reflexivity. }
    rewrite H, H0. reflexivity.
  - assert (Z.testbit (Z.pred c) n = Z.testbit c n).
    { rewrite (testbit_div _ (j+1) n) by lia. rewrite (testbit_div c (j+1) n) by lia.
      rewrite E1.
      assert (Q1 : Z.pred c / (2 * 2^j) = k).
      { symmetry. apply Z.div_unique with (r := 2^j - 1); lia. }
      assert (Q2 : c / (2 * 2^j) = k).
      { symmetry. apply Z.div_unique with (r := 2^j); lia. }
      rewrite Q1, Q2. reflexivity. }
    rewrite H. rewrite andb_negb_r. symmetry. apply Z.eqb_neq. lia.
Qed.

Lemma a_high_bits : forall a n, 0 <= a < 2^64 -> 64 <= n -> Z.testbit a n = false.
Proof.
  intros a n Ha Hn. destruct (Z.eq_dec a 0) as [->|Hz]; [apply Z.bits_0|].
  apply Z.bits_above_log2; try lia. apply Z.log2_lt_pow2; try lia.
  eapply Z.lt_le_trans; [apply Ha|]. apply Z.pow_le_mono_r; lia.
Qed.

Ltac bits_cases :=
  repeat match goal with
  | |- context [Z.ltb ?a ?b] => destruct (Z.ltb_spec a b)
  | |- context [Z.leb ?a ?b] => destruct (Z.leb_spec a b)
  end; simpl; try rewrite ?andb_false_r, ?andb_true_r, ?orb_false_r; try reflexivity; try lia.

(** masking out the window of [w] bits starting at bit [p] *)
Lemma land_window : forall a p w, 0 <= a < 2^64 -> 0 <= p -> 0 <= w -> p + w <= 64 ->
  Z.land a (2^64 - 1 - (2^w - 1) * 2^p) = a - ((a / 2^p) mod 2^w) * 2^p.
Proof.
  intros a p w Ha Hp Hw Hpw.
  set (W := Z.shiftl (Z.ones w) p).
  assert (EW : (2^w - 1) * 2^p = W).
  { unfold W. rewrite Z.shiftl_mul_pow2 by lia. rewrite Z.ones_equiv. unfold Z.pred. ring. }
  rewrite EW.
  assert (Wbit : forall n, 0 <= n -> Z.testbit W n = (p <=? n) && (n <? p + w)).
  { intros n Hn. unfold W. rewrite Z.shiftl_spec by lia.
    destruct (Z.leb_spec p n).
    - rewrite Z.testbit_ones_nonneg by lia. bits_cases.
    - rewrite (Z.testbit_neg_r _ (n - p)) by lia. reflexivity. }
  assert (E2 : 2^64 - 1 - W = Z.ldiff (Z.ones 64) W).
  { rewrite <- Z.sub_nocarry_ldiff.
    - rewrite Z.ones_equiv. unfold Z.pred. ring.
    - apply Z.bits_inj'. intros n Hn. rewrite Z.ldiff_spec, Z.bits_0, Wbit by lia.
      rewrite Z.testbit_ones_nonneg by lia. bits_cases. }
  rewrite E2.
  assert (E3 : Z.land a (Z.ldiff (Z.ones 64) W) = Z.ldiff a W).
  { apply Z.bits_inj'. intros n Hn. rewrite Z.land_spec, !Z.ldiff_spec.
    rewrite Z.testbit_ones_nonneg by lia.
    destruct (Z.ltb_spec n 64); simpl; [reflexivity|].
    rewrite (a_high_bits a n) by lia. reflexivity. }
  rewrite E3.
  assert (E4 : Z.ldiff a W = a - Z.land a W).
  { rewrite Z.sub_nocarry_ldiff.
    - apply Z.bits_inj'. intros n Hn. rewrite !Z.ldiff_spec, Z.land_spec.
      destruct (Z.testbit a n), (Z.testbit W n); reflexivity.
    - apply Z.bits_inj'. intros n Hn. rewrite Z.ldiff_spec, Z.land_spec, Z.bits_0.
      destruct (Z.testbit a n), (Z.testbit W n); reflexivity. }
  rewrite E4. f_equal.
  assert (E5 : Z.land a W = Z.shiftl (Z.land (Z.shiftr a p) (Z.ones w)) p).
  { apply Z.bits_inj'. intros n Hn. rewrite Z.land_spec, Wbit by lia.
    rewrite Z.shiftl_spec by lia.
    destruct (Z.leb_spec p n).
    - rewrite Z.land_spec, Z.shiftr_spec by lia. rewrite Z.testbit_ones_nonneg by lia.
      replace (n - p + p) with n by ring. bits_cases.
    - rewrite (Z.testbit_neg_r _ (n - p)) by lia. simpl. apply andb_false_r. }
  rewrite E5. rewrite Z.land_ones by lia. rewrite Z.shiftr_div_pow2 by lia.
  rewrite Z.shiftl_mul_pow2 by lia. reflexivity.
Qed.

Lemma land_neg_pow2 : forall c j, 0 <= c < 2^64 -> 0 <= j <= 64 ->
  Z.land c (2^64 - 2^j) = c - c mod 2^j.
Proof.
  intros c j Hc Hj.
  replace (2^64 - 2^j) with (2^64 - 1 - (2^j - 1) * 2^0) by (rewrite Z.pow_0_r; ring).
  rewrite land_window by lia. rewrite Z.pow_0_r, Z.div_1_r. ring.
Qed.

(** OR-ing the bit 2^j onto a multiple of 2^j *)
Lemma lor_pow2 : forall c j, 0 <= c -> 0 <= j ->
  Z.lor (c - c mod 2^j) (2^j) = c - c mod (2 * 2^j) + 2^j.
Proof.
  intros c j Hc Hj.
  assert (Hp : 0 < 2^j) by (apply Z.pow_pos_nonneg; lia).
  set (x := c - c mod 2^j).
  assert (Hadd : Z.lor x (2^j) = x - Z.land x (2^j) + 2^j).
  { assert (E1 : Z.lor x (2^j) = Z.lxor (Z.ldiff x (2^j)) (2^j)).
    { apply Z.bits_inj'. intros n Hn. rewrite Z.lor_spec, Z.lxor_spec, Z.ldiff_spec.
      destruct (Z.testbit x n), (Z.testbit (2^j) n); reflexivity. }
    rewrite E1. rewrite <- Z.add_nocarry_lxor.
    - f_equal. rewrite Z.sub_nocarry_ldiff.
      + apply Z.bits_inj'. intros n Hn. rewrite !Z.ldiff_spec, Z.land_spec.
        destruct (Z.testbit x n), (Z.testbit (2^j) n); reflexivity.
      + apply Z.bits_inj'. intros n Hn. rewrite Z.ldiff_spec, Z.land_spec, Z.bits_0.
        destruct (Z.testbit x n), (Z.testbit (2^j) n); reflexivity.
    - apply Z.bits_inj'. intros n Hn. rewrite Z.land_spec, Z.ldiff_spec, Z.bits_0.
      destruct (Z.testbit x n), (Z.testbit (2^j) n); reflexivity. }
  assert (Hland : Z.land x (2^j) = 2^j * ((c / 2^j) mod 2)).
  { assert (Hx : x = Z.shiftl (c / 2^j) j).
    { rewrite Z.shiftl_mul_pow2 by lia. unfold x. pose proof (Z.div_mod c (2^j)). lia. }
    assert (H1 : 2^j = Z.shiftl 1 j) by (rewrite Z.shiftl_mul_pow2 by lia; ring).
    rewrite Hx. generalize (c / 2^j). intro q.
    transitivity (Z.land (Z.shiftl q j) (Z.shiftl 1 j)); [rewrite <- H1; reflexivity|].
    rewrite <- Z.shiftl_land.
    change 1 with (Z.ones 1). rewrite Z.land_ones by lia.
    rewrite Z.shiftl_mul_pow2 by lia. change (2^1) with 2. ring. }
  assert (Hm : c mod (2 * 2^j) = c mod 2^j + 2^j * ((c / 2^j) mod 2)).
  { rewrite (Z.mul_comm 2). rewrite Z.rem_mul_r by lia. reflexivity. }
  unfold x in *. lia.
Qed.

(* ---------------------------------------------------------------------- *)
(** * lsbL *)

Ltac enum_level L :=
  let H := fresh "HL" in
  assert (H : L = 0 \/ L = 1 \/ L = 2 \/ L = 3 \/ L = 4 \/ L = 5 \/ L = 6 \/ L = 7 \/ L = 8 \/ L = 9 \/
              L = 10 \/ L = 11 \/ L = 12 \/ L = 13 \/ L = 14 \/ L = 15 \/ L = 16 \/ L = 17 \/ L = 18 \/ L = 19 \/
              L = 20 \/ L = 21 \/ L = 22 \/ L = 23 \/ L = 24 \/ L = 25 \/ L = 26 \/ L = 27 \/ L = 28 \/ L = 29 \/
              L = 30) by lia;
  repeat (destruct H as [H|H]); subst L.

Lemma lsbL_pow2 : forall L, 0 <= L <= 30 -> lsbL L = 2 ^ (2 * (30 - L)).
Proof. intros L H. unfold lsbL. change 4 with (2^2). rewrite <- Z.pow_mul_r by lia. reflexivity. Qed.

Lemma lsbL_pos : forall L, 0 <= L <= 30 -> 0 < lsbL L.
Proof. intros L H. unfold lsbL. apply Z.pow_pos_nonneg; lia. Qed.
Lemma lsbL_step : forall L, 0 <= L < 30 -> lsbL L = 4 * lsbL (L + 1).
Proof.
  intros L H. unfold lsbL. replace (30 - L) with (Z.succ (30 - (L + 1))) by lia.
  rewrite Z.pow_succ_r by lia. reflexivity.
Qed.
Lemma lsbL_30 : lsbL 30 = 1.
Proof. reflexivity. Qed.
Lemma lsbL_le_2_60 : forall L, 0 <= L <= 30 -> lsbL L <= 2 ^ 60.
Proof.
  intros L H. rewrite lsbL_pow2 by lia. apply Z.pow_le_mono_r; lia.
Qed.

Lemma pow_facts : 2^60 = 1152921504606846976 /\ 2^61 = 2305843009213693952 /\ 2^64 = 18446744073709551616.
Proof. repeat split; reflexivity. Qed.
Ltac pows := pose proof pow_facts as (?P60 & ?P61 & ?P64).

Lemma wrap_u64_idem : forall x, wrap_u64 (wrap_u64 x) = wrap_u64 x.
Proof. intros x. unfold wrap_u64, wrap_u. apply Z.mod_mod. lia. Qed.

Lemma valid_ge_lsb : forall c L, valid_at c L -> lsbL L <= c.
Proof.
  intros c L (HL & Hc & Hm). pose proof (lsbL_pos L HL).
  pose proof (Z.mod_le c (2 * lsbL L) ltac:(lia) ltac:(lia)). lia.
Qed.
Lemma valid_range64 : forall c, valid c -> 0 <= c < 2 ^ 64.
Proof. intros c (L & HL & Hc & Hm). lia. Qed.
Lemma valid_at_range64 : forall c L, valid_at c L -> 0 <= c < 2 ^ 64.
Proof. intros c L H. apply valid_range64. exists L; exact H. Qed.

Lemma lsb_spec : forall c L, valid_at c L -> s2_CellID_lsb c = lsbL L.
Proof.
  intros c L Hv. pose proof (valid_at_range64 _ _ Hv) as H64. destruct Hv as (HL & Hc & Hm).
  unfold s2_CellID_lsb. rewrite wrap_u64_small by lia. rewrite wrap_u64_opp by lia.
  rewrite lsbL_pow2 in * by lia.
  apply lsb_bits; try lia.
  replace (2 * (30 - L) + 1) with (Z.succ (2 * (30 - L))) by lia.
  rewrite Z.pow_succ_r by lia. exact Hm.
Qed.

Lemma lsbForLevel_spec : forall l, 0 <= l <= 30 -> s2_lsbForLevel l = lsbL l.
Proof. intros l H. enum_level l; vm_compute; reflexivity. Qed.

Lemma level_spec : forall c L, valid_at c L -> s2_CellID_Level c = L.
Proof.
  intros c L Hv. pose proof (valid_at_range64 _ _ Hv) as H64. pose proof (lsb_spec _ _ Hv) as Hl.
  destruct Hv as (HL & Hc & Hm).
  unfold s2_CellID_lsb in Hl. unfold s2_CellID_Level, s2_findLSBSetNonZero64.
  rewrite !(wrap_u64_small c) in * by lia. rewrite Hl.
  enum_level L; vm_compute; reflexivity.
Qed.
Lemma valid_at_unique : forall c L L', valid_at c L -> valid_at c L' -> L = L'.
Proof. intros c L L' H H'. rewrite <- (level_spec _ _ H). apply level_spec. exact H'. Qed.

Lemma rangemin_spec : forall c L, valid_at c L -> s2_CellID_RangeMin c = c - lsbL L + 1.
Proof.
  intros c L Hv. pose proof (valid_at_range64 _ _ Hv) as H64. pose proof (lsb_spec _ _ Hv) as Hl.
  pose proof (valid_ge_lsb _ _ Hv). destruct Hv as (HL & Hc & Hm).
  pose proof (lsbL_pos L HL). pose proof (lsbL_le_2_60 L HL). pows.
  unfold s2_CellID_RangeMin. rewrite Hl.
  rewrite (wrap_u64_small c) by lia. rewrite (wrap_u64_small (lsbL L - 1)) by lia.
  rewrite wrap_u64_idem. rewrite wrap_u64_small by lia. ring.
Qed.
Lemma rangemax_spec : forall c L, valid_at c L -> s2_CellID_RangeMax c = c + lsbL L - 1.
Proof.
  intros c L Hv. pose proof (valid_at_range64 _ _ Hv) as H64. pose proof (lsb_spec _ _ Hv) as Hl.
  pose proof (valid_ge_lsb _ _ Hv). destruct Hv as (HL & Hc & Hm).
  pose proof (lsbL_pos L HL). pose proof (lsbL_le_2_60 L HL). pows.
  unfold s2_CellID_RangeMax. rewrite Hl.
  rewrite (wrap_u64_small c) by lia. rewrite (wrap_u64_small (lsbL L - 1)) by lia.
  rewrite wrap_u64_idem. rewrite wrap_u64_small by lia. ring.
Qed.

Lemma contains_spec : forall a b, 0 <= a < 2 ^ 64 -> 0 <= b < 2 ^ 64 ->
  s2_CellID_Contains a b = (s2_CellID_RangeMin a <=? b) && (b <=? s2_CellID_RangeMax a).
Proof.
  intros a b Ha Hb. unfold s2_CellID_Contains.
  rewrite (wrap_u64_small b) by lia.
  unfold s2_CellID_RangeMin, s2_CellID_RangeMax. rewrite !wrap_u64_idem. reflexivity.
Qed.

Lemma is_leaf_odd : forall x, is_leaf x -> x mod 2 = 1.
Proof. intros x (_ & _ & Hm). rewrite lsbL_30 in Hm. exact Hm. Qed.

(* ---------------------------------------------------------------------- *)
(** * Children *)

Lemma go_shr_lsbL : forall L, 0 <= L < 30 -> go_shr (lsbL L) 2 = lsbL (L + 1).
Proof.
  intros L H. unfold go_shr. simpl. rewrite Z.shiftr_div_pow2 by lia.
  rewrite (lsbL_step L) by lia. change (2^2) with 4. rewrite Z.mul_comm, Z.div_mul by lia. reflexivity.
Qed.

Lemma next_spec : forall x L, valid_at x L -> s2_CellID_Next x = x + 2 * lsbL L.
Proof.
  intros x L Hv. pose proof (valid_at_range64 _ _ Hv) as H64. pose proof (lsb_spec _ _ Hv) as Hl.
  destruct Hv as (HL & Hc & Hm).
  pose proof (lsbL_pos L HL). pose proof (lsbL_le_2_60 L HL). pows.
  unfold s2_CellID_Next. rewrite Hl.
  assert (E : go_shl (lsbL L) 1 = lsbL L * 2).
  { unfold go_shl. change (1 <? 0) with false. cbv iota. rewrite Z.shiftl_mul_pow2 by lia. reflexivity. }
  rewrite E.
  rewrite (wrap_u64_small x) by lia. rewrite (wrap_u64_small (lsbL L * 2)) by lia.
  rewrite wrap_u64_idem. rewrite wrap_u64_small by lia. ring.
Qed.

Lemma child_valid : forall c L i, valid_at c L -> L < 30 -> 0 <= i <= 3 -> valid_at (child c L i) (L + 1).
Proof.
  intros c L i (HL & Hc & Hm) HL30 Hi. unfold valid_at, child.
  rewrite (lsbL_step L) in Hm by lia.
  assert (Ht : 0 < lsbL (L + 1)) by (apply lsbL_pos; lia).
  assert (Ht58 : lsbL (L + 1) <= 2^58).
  { rewrite lsbL_pow2 by lia. apply Z.pow_le_mono_r; lia. }
  set (t := lsbL (L + 1)) in *.
  pose proof (Z.div_mod c (2 * (4 * t)) ltac:(lia)) as Hd. rewrite Hm in Hd.
  set (k := c / (2 * (4 * t))) in *.
  assert (Hk : 0 <= k) by (subst k; apply Z.div_pos; lia).
  split; [lia|]. split.
  - (* 6*2^61 is a multiple of 8t *)
    assert (Hdiv : exists m, 6 * 2^61 = 8 * t * m).
    { unfold t. rewrite lsbL_pow2 by lia.
      exists (6 * 2^(61 - 3 - 2 * (30 - (L + 1)))).
      replace (2^61) with (2^3 * 2^(2 * (30 - (L + 1))) * 2^(61 - 3 - 2 * (30 - (L + 1)))).
      - change (2^3) with 8. ring.
      - rewrite <- !Z.pow_add_r by lia. f_equal. lia. }
    destruct Hdiv as (m & Hmm).
    assert (k < m) by nia.
    split; nia.
  - symmetry. apply Z.mod_unique with (q := 4 * k + i); lia.
Qed.

Lemma children4_spec : forall c L, valid_at c L -> L < 30 ->
  children4 c = [child c L 0; child c L 1; child c L 2; child c L 3].
Proof.
  intros c L Hv HL30.
  pose proof (child_valid c L 0 Hv HL30 ltac:(lia)) as V0.
  pose proof (child_valid c L 1 Hv HL30 ltac:(lia)) as V1.
  pose proof (child_valid c L 2 Hv HL30 ltac:(lia)) as V2.
  pose proof (child_valid c L 3 Hv HL30 ltac:(lia)) as V3.
  pose proof (valid_at_range64 _ _ Hv) as H64. pose proof (lsb_spec _ _ Hv) as Hl.
  pose proof (valid_ge_lsb _ _ Hv) as Hge.
  destruct Hv as (HL & Hc & Hm).
  pose proof (lsbL_pos L HL). pose proof (lsbL_le_2_60 L HL). pows.
  assert (Ht : 0 < lsbL (L + 1)) by (apply lsbL_pos; lia).
  pose proof (lsbL_step L ltac:(lia)) as Hstep.
  assert (EB : s2_CellID_ChildBegin c = child c L 0).
  { unfold s2_CellID_ChildBegin. rewrite Hl, go_shr_lsbL by lia.
    rewrite (wrap_u64_small c) by lia. rewrite (wrap_u64_small (c - lsbL L)) by lia.
    rewrite wrap_u64_idem, wrap_u64_small by lia. unfold child. lia. }
  assert (EE : s2_CellID_ChildEnd c = c + 5 * lsbL (L + 1)).
  { unfold s2_CellID_ChildEnd. rewrite Hl, go_shr_lsbL by lia.
    rewrite (wrap_u64_small c) by lia. rewrite (wrap_u64_small (c + lsbL L)) by lia.
    rewrite wrap_u64_idem, wrap_u64_small by lia. lia. }
  unfold children4. rewrite EB, EE.
  assert (N0 : s2_CellID_Next (child c L 0) = child c L 1) by (rewrite (next_spec _ _ V0); unfold child; lia).
  assert (N1 : s2_CellID_Next (child c L 1) = child c L 2) by (rewrite (next_spec _ _ V1); unfold child; lia).
  assert (N2 : s2_CellID_Next (child c L 2) = child c L 3) by (rewrite (next_spec _ _ V2); unfold child; lia).
  cbn [cells_from_to]. rewrite N0, N1, N2.
  replace (child c L 0 =? c + 5 * lsbL (L + 1)) with false by (symmetry; apply Z.eqb_neq; unfold child; lia).
  replace (child c L 1 =? c + 5 * lsbL (L + 1)) with false by (symmetry; apply Z.eqb_neq; unfold child; lia).
  replace (child c L 2 =? c + 5 * lsbL (L + 1)) with false by (symmetry; apply Z.eqb_neq; unfold child; lia).
  replace (child c L 3 =? c + 5 * lsbL (L + 1)) with false by (symmetry; apply Z.eqb_neq; unfold child; lia).
  reflexivity.
Qed.

(* ---------------------------------------------------------------------- *)
(** * Parent *)

Lemma parent_formula : forall c t j, 0 <= c < 2^64 -> 0 <= j <= 60 -> t = 2^j ->
  Z.lor (Z.land c (wrap_u64 (- t))) t = c - c mod (2 * t) + t.
Proof.
  intros c t j Hc Hj ->. pows.
  assert (0 < 2^j) by (apply Z.pow_pos_nonneg; lia).
  assert (2^j <= 2^60) by (apply Z.pow_le_mono_r; lia).
  rewrite wrap_u64_opp by lia. rewrite land_neg_pow2 by lia. apply lor_pow2; lia.
Qed.

Lemma parent_spec : forall c L l, valid_at c L -> 0 <= l <= L ->
  s2_CellID_Parent c l = c - c mod (2 * lsbL l) + lsbL l.
Proof.
  intros c L l Hv Hl. pose proof (valid_at_range64 _ _ Hv) as H64. destruct Hv as (HL & Hc & Hm).
  unfold s2_CellID_Parent. rewrite lsbForLevel_spec by lia. rewrite (wrap_u64_small c) by lia.
  rewrite (parent_formula c (lsbL l) (2 * (30 - l))); try lia; [|apply lsbL_pow2; lia].
  pose proof (lsbL_pos l ltac:(lia)). pose proof (lsbL_le_2_60 l ltac:(lia)). pows.
  pose proof (Z.mod_pos_bound c (2 * lsbL l) ltac:(lia)).
  pose proof (Z.mod_le c (2 * lsbL l) ltac:(lia) ltac:(lia)).
  apply wrap_u64_small. lia.
Qed.

Lemma six_2_61_multiple : forall l, 0 <= l <= 30 -> exists m, 6 * 2^61 = 2 * lsbL l * m.
Proof.
  intros l Hl. rewrite lsbL_pow2 by lia.
  exists (6 * 2^(61 - 1 - 2 * (30 - l))).
  replace (2^61) with (2^1 * 2^(2 * (30 - l)) * 2^(61 - 1 - 2 * (30 - l))).
  - change (2^1) with 2. ring.
  - rewrite <- !Z.pow_add_r by lia. f_equal. lia.
Qed.

Lemma parent_valid : forall c L l, valid_at c L -> 0 <= l <= L -> valid_at (s2_CellID_Parent c l) l.
Proof.
  intros c L l Hv Hl. rewrite (parent_spec c L l Hv Hl). destruct Hv as (HL & Hc & Hm).
  pose proof (lsbL_pos l ltac:(lia)) as Ht. set (t := lsbL l) in *.
  pose proof (Z.div_mod c (2 * t) ltac:(lia)) as Hd.
  pose proof (Z.mod_pos_bound c (2 * t) ltac:(lia)) as Hb.
  set (k := c / (2 * t)) in *.
  assert (Hk : 0 <= k) by (subst k; apply Z.div_pos; lia).
  destruct (six_2_61_multiple l ltac:(lia)) as (m & Hmm). fold t in Hmm.
  assert (k < m) by nia.
  split; [lia|]. split; [split; nia|].
  symmetry. apply Z.mod_unique with (q := k); lia.
Qed.

Lemma parent_self : forall c L, valid_at c L -> s2_CellID_Parent c L = c.
Proof.
  intros c L Hv. rewrite (parent_spec c L L Hv) by (destruct Hv; lia).
  destruct Hv as (HL & Hc & Hm). lia.
Qed.

(** the residue of a valid cell modulo a coarser block *)
Lemma residue_bounds : forall c L l, valid_at c L -> 0 <= l <= L ->
  lsbL L <= c mod (2 * lsbL l) <= 2 * lsbL l - lsbL L.
Proof.
  intros c L l (HL & Hc & Hm) Hl.
  pose proof (lsbL_pos L HL) as Hs. pose proof (lsbL_pos l ltac:(lia)) as Ht.
  assert (Hr : lsbL l = lsbL L * 4^(L - l)).
  { unfold lsbL. rewrite <- Z.pow_add_r by lia. f_equal. lia. }
  assert (Hr1 : 1 <= 4^(L - l)) by (pose proof (Z.pow_pos_nonneg 4 (L - l)); lia).
  set (r := 4^(L - l)) in *. set (s := lsbL L) in *. set (t := lsbL l) in *.
  assert (Hmm : (c mod (2 * t)) mod (2 * s) = s).
  { rewrite <- Zmod_div_mod; try lia. exists r. lia. }
  pose proof (Z.mod_pos_bound c (2 * t) ltac:(lia)) as Hb.
  set (y := c mod (2 * t)) in *.
  pose proof (Z.div_mod y (2 * s) ltac:(lia)) as Hd. rewrite Hmm in Hd.
  assert (0 <= y / (2 * s)) by (apply Z.div_pos; lia).
  assert (y / (2 * s) < r) by nia.
  split; nia.
Qed.

Lemma parent_range : forall c L l, valid_at c L -> 0 <= l <= L ->
  s2_CellID_RangeMin (s2_CellID_Parent c l) <= s2_CellID_RangeMin c /\
  s2_CellID_RangeMax c <= s2_CellID_RangeMax (s2_CellID_Parent c l).
Proof.
  intros c L l Hv Hl.
  pose proof (parent_valid c L l Hv Hl) as Hpv.
  rewrite (rangemin_spec _ _ Hpv), (rangemax_spec _ _ Hpv), (rangemin_spec _ _ Hv), (rangemax_spec _ _ Hv).
  rewrite (parent_spec c L l Hv Hl).
  pose proof (residue_bounds c L l Hv Hl). lia.
Qed.

Lemma immediateParent_spec : forall c L, valid_at c L -> 0 < L ->
  s2_CellID_immediateParent c = s2_CellID_Parent c (L - 1).
Proof.
  intros c L Hv HL0. rewrite (parent_spec c L (L - 1) Hv) by (destruct Hv; lia).
  pose proof (valid_at_range64 _ _ Hv) as H64. pose proof (lsb_spec _ _ Hv) as Hl.
  destruct Hv as (HL & Hc & Hm).
  unfold s2_CellID_immediateParent. rewrite Hl.
  pose proof (lsbL_step (L - 1) ltac:(lia)) as Hstep. replace (L - 1 + 1) with L in Hstep by ring.
  pose proof (lsbL_pos L HL). pose proof (lsbL_le_2_60 (L - 1) ltac:(lia)). pows.
  assert (E : go_shl (lsbL L) 2 = lsbL (L - 1)).
  { unfold go_shl. change (2 <? 0) with false. cbv iota. rewrite Z.shiftl_mul_pow2 by lia.
    change (2^2) with 4. lia. }
  rewrite E. rewrite !wrap_u64_idem. rewrite !(wrap_u64_small (lsbL (L - 1))) by lia.
  apply (parent_formula c (lsbL (L - 1)) (2 * (30 - (L - 1)))); try lia. apply lsbL_pow2; lia.
Qed.

Lemma parent_child : forall c L i, valid_at c L -> L < 30 -> 0 <= i <= 3 ->
  s2_CellID_Parent (child c L i) L = c.
Proof.
  intros c L i Hv HL30 Hi.
  pose proof (child_valid c L i Hv HL30 Hi) as Hcv.
  rewrite (parent_spec _ (L + 1) L Hcv) by (destruct Hv; lia).
  destruct Hv as (HL & Hc & Hm). unfold child in *.
  rewrite (lsbL_step L) in * by lia.
  assert (Ht : 0 < lsbL (L + 1)) by (apply lsbL_pos; lia).
  set (t := lsbL (L + 1)) in *.
  pose proof (Z.div_mod c (2 * (4 * t)) ltac:(lia)) as Hd. rewrite Hm in Hd.
  set (k := c / (2 * (4 * t))) in *.
  assert (E : (c + (2 * i - 3) * t) mod (2 * (4 * t)) = (2 * i + 1) * t).
  { symmetry. apply Z.mod_unique with (q := k); nia. }
  rewrite E. lia.
Qed.

Lemma child_of_parent : forall c L, valid_at c L -> 0 < L ->
  exists i, 0 <= i <= 3 /\ c = child (s2_CellID_Parent c (L - 1)) (L - 1) i.
Proof.
  intros c L Hv HL0. rewrite (parent_spec c L (L - 1) Hv) by (destruct Hv; lia).
  pose proof (residue_bounds c L (L - 1) Hv ltac:(destruct Hv; lia)) as Hrb.
  destruct Hv as (HL & Hc & Hm). unfold child. replace (L - 1 + 1) with L by ring.
  pose proof (lsbL_step (L - 1) ltac:(lia)) as Hstep. replace (L - 1 + 1) with L in Hstep by ring.
  rewrite Hstep in *. pose proof (lsbL_pos L HL) as Hs. set (s := lsbL L) in *.
  set (y := c mod (2 * (4 * s))) in *.
  assert (Hy : y mod (2 * s) = s).
  { unfold y. rewrite <- Zmod_div_mod; try lia. exists 4. lia. }
  pose proof (Z.div_mod y (2 * s) ltac:(lia)) as Hd. rewrite Hy in Hd.
  exists (y / (2 * s)).
  assert (0 <= y / (2 * s)) by (apply Z.div_pos; lia).
  assert (y / (2 * s) < 4) by nia.
  split; [lia|]. nia.
Qed.

(* ---------------------------------------------------------------------- *)
(** * Laminar family *)

Lemma laminar_aux : forall a La b Lb, valid_at a La -> valid_at b Lb -> Lb <= La ->
  (a + lsbL La - 1 < b - lsbL Lb + 1) \/ (b + lsbL Lb - 1 < a - lsbL La + 1) \/
  (b - lsbL Lb + 1 <= a - lsbL La + 1 /\ a + lsbL La - 1 <= b + lsbL Lb - 1).
Proof.
  intros a La b Lb Ha Hb Hle.
  pose proof (residue_bounds a La Lb Ha ltac:(destruct Hb; lia)) as Hr.
  destruct Ha as (HLa & Hca & Hma). destruct Hb as (HLb & Hcb & Hmb).
  pose proof (lsbL_pos La HLa) as Hs. pose proof (lsbL_pos Lb HLb) as Ht.
  set (s := lsbL La) in *. set (t := lsbL Lb) in *.
  pose proof (Z.div_mod a (2 * t) ltac:(lia)) as Hda.
  pose proof (Z.div_mod b (2 * t) ltac:(lia)) as Hdb. rewrite Hmb in Hdb.
  set (y := a mod (2 * t)) in *. set (q := a / (2 * t)) in *. set (m := b / (2 * t)) in *.
  destruct (Z.lt_trichotomy q m) as [Hlt|[Heq|Hgt]].
  - left. nia.
  - right; right. subst q. rewrite Heq in Hda. lia.
  - right; left. nia.
Qed.

Lemma laminar : forall a La b Lb, valid_at a La -> valid_at b Lb ->
  (a + lsbL La - 1 < b - lsbL Lb + 1) \/ (b + lsbL Lb - 1 < a - lsbL La + 1) \/
  (a - lsbL La + 1 <= b - lsbL Lb + 1 /\ b + lsbL Lb - 1 <= a + lsbL La - 1) \/
  (b - lsbL Lb + 1 <= a - lsbL La + 1 /\ a + lsbL La - 1 <= b + lsbL Lb - 1).
Proof.
  intros a La b Lb Ha Hb. destruct (Z.le_gt_cases Lb La) as [Hle|Hgt].
  - destruct (laminar_aux a La b Lb Ha Hb Hle) as [H|[H|H]]; auto.
  - destruct (laminar_aux b Lb a La Hb Ha ltac:(lia)) as [H|[H|H]]; auto.
Qed.

Lemma id_in_range_nested : forall a La b Lb, valid_at a La -> valid_at b Lb ->
  a - lsbL La + 1 <= b <= a + lsbL La - 1 ->
  La <= Lb /\ a - lsbL La + 1 <= b - lsbL Lb + 1 /\ b + lsbL Lb - 1 <= a + lsbL La - 1.
Proof.
  intros a La b Lb Ha Hb Hin.
  pose proof (lsbL_pos La ltac:(destruct Ha; lia)) as Hs. pose proof (lsbL_pos Lb ltac:(destruct Hb; lia)) as Ht.
  destruct (Z.le_gt_cases La Lb) as [Hle|Hgt].
  - split; [exact Hle|].
    destruct (laminar_aux b Lb a La Hb Ha Hle) as [H|[H|H]]; lia.
  - exfalso.
    (* b is coarser: its id is a multiple of 2 * lsbL La, but the open block of a has none *)
    destruct Ha as (HLa & Hca & Hma). destruct Hb as (HLb & Hcb & Hmb).
    assert (Hr : lsbL Lb = lsbL La * 4 * 4^(La - Lb - 1)).
    { unfold lsbL. replace (30 - Lb) with ((30 - La) + 1 + (La - Lb - 1)) by lia.
      rewrite !Z.pow_add_r by lia. reflexivity. }
    assert (Hr1 : 1 <= 4^(La - Lb - 1)) by (pose proof (Z.pow_pos_nonneg 4 (La - Lb - 1)); lia).
    set (r := 4^(La - Lb - 1)) in *. set (s := lsbL La) in *. set (t := lsbL Lb) in *.
    pose proof (Z.div_mod a (2 * s) ltac:(lia)) as Hda. rewrite Hma in Hda.
    pose proof (Z.div_mod b (2 * t) ltac:(lia)) as Hdb. rewrite Hmb in Hdb.
    set (k := a / (2 * s)) in *. set (m := b / (2 * t)) in *.
    (* b = 2 s * u with u = 2 r (2 m + 1) *)
    assert (Hb2 : b = 2 * s * (2 * r * (2 * m + 1))) by nia.
    set (u := 2 * r * (2 * m + 1)) in *.
    assert (k < u) by nia. assert (u < k + 1) by nia. lia.
Qed.

(* ---------------------------------------------------------------------- *)
(** * areSiblings *)

Lemma sib_mask_land : forall a L, 0 <= a < 2^64 -> 0 <= L <= 30 ->
  Z.land a (2^64 - 1 - 6 * lsbL L) = a - ((a / (2 * lsbL L)) mod 4) * (2 * lsbL L).
Proof.
  intros a L Ha HL.
  assert (E : 2 * lsbL L = 2^(2 * (30 - L) + 1)).
  { rewrite lsbL_pow2 by lia. rewrite Z.pow_add_r by lia. change (2^1) with 2. ring. }
  rewrite E. replace (6 * lsbL L) with ((2^2 - 1) * 2^(2 * (30 - L) + 1)) by (rewrite <- E; change (2^2) with 4; ring).
  rewrite land_window by lia. reflexivity.
Qed.

Lemma sib_mask_spec : forall d L, valid_at d L ->
  wrap_u64 (Z.lnot (wrap_u64 (Z.add (wrap_u64 (go_shl (s2_CellID_lsb d) 1))
                                    (wrap_u64 (go_shl (wrap_u64 (go_shl (s2_CellID_lsb d) 1)) 1))))) =
  2^64 - 1 - 6 * lsbL L.
Proof.
  intros d L Hv. rewrite (lsb_spec _ _ Hv). destruct Hv as (HL & _ & _).
  enum_level L; vm_compute; reflexivity.
Qed.

Lemma isFace_valid : forall d L, valid_at d L -> s2_CellID_isFace d = (L =? 0).
Proof.
  intros d L Hv. pose proof (valid_at_range64 _ _ Hv) as H64. destruct Hv as (HL & Hc & Hm).
  unfold s2_CellID_isFace. rewrite (wrap_u64_small d) by lia.
  replace (wrap_u64 (s2_lsbForLevel 0 - 1)) with (Z.ones 60) by (vm_compute; reflexivity).
  rewrite Z.land_ones by lia.
  destruct (Z.eqb_spec L 0) as [->|Hne].
  - change (lsbL 0) with (2^60) in Hm. apply Z.eqb_eq.
    replace (2 * 2^60) with (2^60 * 2) in Hm by ring.
    rewrite Z.rem_mul_r in Hm by lia.
    pose proof (Z.mod_pos_bound d (2^60) ltac:(lia)). pose proof (Z.mod_pos_bound (d / 2^60) 2 ltac:(lia)). nia.
  - apply Z.eqb_neq. intro H0.
    assert (Hdiv : (2 * lsbL L | 2^60)).
    { exists (2^(60 - 1 - 2 * (30 - L))). rewrite lsbL_pow2 by lia.
      replace (2 * 2^(2 * (30 - L))) with (2^(1 + 2 * (30 - L))) by (rewrite Z.pow_add_r by lia; reflexivity).
      rewrite <- Z.pow_add_r by lia. f_equal. lia. }
    pose proof (lsbL_pos L HL).
    rewrite (Zmod_div_mod (2 * lsbL L) (2^60) d) in Hm; try lia; try assumption.
    rewrite H0 in Hm. rewrite Z.mod_0_l in Hm by lia. lia.
Qed.

Lemma areSiblings_spec : forall a b c d L,
  0 <= a < 2 ^ 64 -> 0 <= b < 2 ^ 64 -> 0 <= c < 2 ^ 64 ->
  valid_at d L -> s2_areSiblings a b c d = true ->
  0 < L /\ Z.lxor (Z.lxor a b) c = d /\
  (forall e, e = a \/ e = b \/ e = c ->
     valid_at e L /\ s2_CellID_Parent e (L - 1) = s2_CellID_Parent d (L - 1)).
Proof.
  intros a b c d L Ha Hb Hc Hv Hsib.
  pose proof (valid_at_range64 _ _ Hv) as H64.
  unfold s2_areSiblings in Hsib.
  destruct (Z.eqb_spec (Z.lxor (Z.lxor a b) c) d) as [Hx|Hx]; [|discriminate Hsib].
  cbn [negb] in Hsib. cbv zeta in Hsib.
  rewrite (sib_mask_spec d L Hv) in Hsib. rewrite (isFace_valid d L Hv) in Hsib.
  rewrite !wrap_u64_small in Hsib by lia.
  apply andb_prop in Hsib. destruct Hsib as [Hsib HnF].
  apply andb_prop in Hsib. destruct Hsib as [Hsib Hec].
  apply andb_prop in Hsib. destruct Hsib as [Hea Heb].
  assert (HL0 : 0 < L) by (destruct Hv as (HL & _); destruct (Z.eqb_spec L 0); [discriminate HnF|lia]).
  split; [exact HL0|]. split; [exact Hx|].
  assert (Key : forall e, 0 <= e < 2^64 ->
            Z.land e (2^64 - 1 - 6 * lsbL L) = Z.land d (2^64 - 1 - 6 * lsbL L) ->
            valid_at e L /\ s2_CellID_Parent e (L - 1) = s2_CellID_Parent d (L - 1)).
  { intros e He Heq.
    rewrite !sib_mask_land in Heq by (destruct Hv; lia).
    assert (Hve : valid_at e L).
    { destruct Hv as (HL & Hcd & Hmd). pose proof (lsbL_pos L HL) as Hs.
      destruct (six_2_61_multiple (L - 1) ltac:(lia)) as (m & Hmm).
      rewrite (lsbL_step (L - 1)) in Hmm by lia. replace (L - 1 + 1) with L in Hmm by ring.
      set (s := lsbL L) in *.
      pose proof (Z.div_mod e (2 * s) ltac:(lia)) as Hde. pose proof (Z.mod_pos_bound e (2 * s) ltac:(lia)) as Hbe.
      pose proof (Z.div_mod d (2 * s) ltac:(lia)) as Hdd. rewrite Hmd in Hdd.
      pose proof (Z.div_mod (e / (2 * s)) 4 ltac:(lia)) as Hqe. pose proof (Z.mod_pos_bound (e / (2 * s)) 4 ltac:(lia)) as Hbqe.
      pose proof (Z.div_mod (d / (2 * s)) 4 ltac:(lia)) as Hqd. pose proof (Z.mod_pos_bound (d / (2 * s)) 4 ltac:(lia)) as Hbqd.
      set (qe := e / (2 * s)) in *. set (qd := d / (2 * s)) in *.
      set (A := qe / 4) in *. set (D := qd / 4) in *.
      set (xe := qe mod 4) in *. set (xd := qd mod 4) in *. set (re := e mod (2 * s)) in *.
      (* 8 s A + re = 8 s D + s *)
      assert (E1 : 8 * s * A + re = 8 * s * D + s) by nia.
      assert (EA : A = D) by nia.
      assert (Er : re = s) by nia.
      assert (0 <= D) by (unfold D; apply Z.div_pos; [apply Z.div_pos; lia|lia]).
      assert (D < m) by nia.
      split; [exact HL|]. split; [split; nia|]. fold re. exact Er. }
    split; [exact Hve|].
    rewrite (parent_spec e L (L - 1) Hve) by (destruct Hv; lia).
    rewrite (parent_spec d L (L - 1) Hv) by (destruct Hv; lia).
    destruct Hv as (HL & Hcd & Hmd). destruct Hve as (_ & Hce & Hme).
    rewrite (lsbL_step (L - 1)) by lia. replace (L - 1 + 1) with L by ring.
    pose proof (lsbL_pos L HL) as Hs. set (s := lsbL L) in *.
    (* e mod 8s = xe 2s + s *)
    replace (2 * (4 * s)) with (2 * s * 4) by ring. rewrite (Z.rem_mul_r e (2 * s) 4), (Z.rem_mul_r d (2 * s) 4) by lia.
    rewrite Hme, Hmd. nia. }
  intros e [->|[->| ->]]; apply Key; try lia; apply Z.eqb_eq; assumption.
Qed.

Lemma four_children : forall p L a b c d, valid_at p L -> L < 30 ->
  (forall e, e = a \/ e = b \/ e = c \/ e = d -> valid_at e (L + 1) /\ s2_CellID_Parent e L = p) ->
  a < b -> b < c -> c < d ->
  a = child p L 0 /\ b = child p L 1 /\ c = child p L 2 /\ d = child p L 3.
Proof.
  intros p L a b c d Hp HL30 Hall Hab Hbc Hcd.
  assert (Hrep : forall e, e = a \/ e = b \/ e = c \/ e = d -> exists i, 0 <= i <= 3 /\ e = child p L i).
  { intros e He. destruct (Hall e He) as (Hve & Hpe).
    destruct (child_of_parent e (L + 1) Hve ltac:(destruct Hp; lia)) as (i & Hi & Hei).
    replace (L + 1 - 1) with L in Hei by ring. rewrite Hpe in Hei. exists i; split; assumption. }
  destruct (Hrep a ltac:(auto)) as (ia & Hia & Ea).
  destruct (Hrep b ltac:(auto)) as (ib & Hib & Eb).
  destruct (Hrep c ltac:(auto)) as (ic & Hic & Ec).
  destruct (Hrep d ltac:(auto 6)) as (id & Hid & Ed).
  assert (Ht : 0 < lsbL (L + 1)) by (apply lsbL_pos; destruct Hp; lia).
  unfold child in *. set (t := lsbL (L + 1)) in *.
  assert (ia < ib) by nia. assert (ib < ic) by nia. assert (ic < id) by nia.
  assert (ia = 0) by lia. assert (ib = 1) by lia. assert (ic = 2) by lia. assert (id = 3) by lia.
  subst ia ib ic id. repeat split; assumption.
Qed.

(* ---------------------------------------------------------------------- *)
(** * findMSBSetNonZero64 and CommonAncestorLevel *)

(** bits inside a window *)
Lemma land_in_window : forall a p w, 0 <= a -> 0 <= p -> 0 <= w ->
  Z.land a ((2^w - 1) * 2^p) = ((a / 2^p) mod 2^w) * 2^p.
Proof.
  intros a p w Ha Hp Hw.
  assert (EW : (2^w - 1) * 2^p = Z.shiftl (Z.ones w) p).
  { rewrite Z.shiftl_mul_pow2 by lia. rewrite Z.ones_equiv. unfold Z.pred. ring. }
  rewrite EW.
  assert (E5 : Z.land a (Z.shiftl (Z.ones w) p) = Z.shiftl (Z.land (Z.shiftr a p) (Z.ones w)) p).
  { apply Z.bits_inj'. intros n Hn. rewrite Z.land_spec. rewrite !Z.shiftl_spec by lia.
    destruct (Z.leb_spec p n).
    - rewrite Z.land_spec, Z.shiftr_spec by lia. replace (n - p + p) with n by ring. reflexivity.
    - rewrite !(Z.testbit_neg_r _ (n - p)) by lia. apply andb_false_r. }
  rewrite E5. rewrite Z.land_ones by lia. rewrite Z.shiftr_div_pow2 by lia.
  rewrite Z.shiftl_mul_pow2 by lia. reflexivity.
Qed.

(** one halving step of the most-significant-bit search *)
Lemma msb_step : forall x s, 0 < s -> 0 < x < 2^(2*s) ->
  (Z.land x (2^(2*s) - 2^s) =? 0) = (x <? 2^s) /\
  (2^s <= x -> 0 < Z.shiftr x s < 2^s /\ Z.log2 x = s + Z.log2 (Z.shiftr x s)).
Proof.
  intros x s Hs Hx.
  assert (Hp : 0 < 2^s) by (apply Z.pow_pos_nonneg; lia).
  assert (E2 : 2^(2*s) = 2^s * 2^s) by (rewrite <- Z.pow_add_r by lia; f_equal; lia).
  replace (2^(2*s) - 2^s) with ((2^s - 1) * 2^s) by (rewrite E2; ring).
  rewrite land_in_window by lia.
  assert (Hq : 0 <= x / 2^s < 2^s).
  { split; [apply Z.div_pos; lia|]. apply Z.div_lt_upper_bound; lia. }
  rewrite (Z.mod_small (x / 2^s) (2^s)) by lia.
  split.
  - destruct (Z.ltb_spec x (2^s)) as [Hlt|Hge].
    + rewrite Z.div_small by lia. reflexivity.
    + apply Z.eqb_neq. assert (1 <= x / 2^s) by (apply Z.div_le_lower_bound; lia). nia.
  - intros Hge. rewrite Z.shiftr_div_pow2 by lia.
    assert (H1 : 1 <= x / 2^s) by (apply Z.div_le_lower_bound; lia).
    split; [lia|].
    set (q := x / 2^s) in *.
    pose proof (Z.log2_spec q ltac:(lia)) as Lq.
    assert (0 <= Z.log2 q) by apply Z.log2_nonneg.
    apply Z.log2_unique; [lia|].
    pose proof (Z.div_mod x (2^s) ltac:(lia)) as Hd. pose proof (Z.mod_pos_bound x (2^s) ltac:(lia)) as Hb. fold q in Hd.
    rewrite Z.pow_add_r by lia. replace (Z.succ (s + Z.log2 q)) with (s + Z.succ (Z.log2 q)) by lia.
    rewrite Z.pow_add_r by lia. nia.
Qed.

Definition mstep (s : Z) (st : Z * Z) : Z * Z :=
  let '(x, pos) := st in
  if negb (Z.land x (2^(2*s) - 2^s) =? 0) then (go_shr x s, Z.lor pos s) else (x, pos).

Lemma findMSB_unfold : forall x,
  s2_findMSBSetNonZero64 x =
  wrap_i64 (snd (mstep 1 (mstep 2 (mstep 4 (mstep 8 (mstep 16 (mstep 32 (x, 0)))))))).
Proof.
  intros x. unfold s2_findMSBSetNonZero64. cbv zeta.
  change (zrange_down 5 0) with [5; 4; 3; 2; 1; 0].
  match goal with |- context [fold_left ?f _ _] => set (F := f) end.
  assert (HF : forall st, F st 5 = mstep 32 st /\ F st 4 = mstep 16 st /\ F st 3 = mstep 8 st /\
                          F st 2 = mstep 4 st /\ F st 1 = mstep 2 st /\ F st 0 = mstep 1 st).
  { intros (y, pos). unfold F, mstep.
    change (nthZ [2; 12; 240; 65280; 4294901760; 18446744069414584320] 5 0) with (2^(2*32) - 2^32).
    change (nthZ [2; 12; 240; 65280; 4294901760; 18446744069414584320] 4 0) with (2^(2*16) - 2^16).
    change (nthZ [2; 12; 240; 65280; 4294901760; 18446744069414584320] 3 0) with (2^(2*8) - 2^8).
    change (nthZ [2; 12; 240; 65280; 4294901760; 18446744069414584320] 2 0) with (2^(2*4) - 2^4).
    change (nthZ [2; 12; 240; 65280; 4294901760; 18446744069414584320] 1 0) with (2^(2*2) - 2^2).
    change (nthZ [2; 12; 240; 65280; 4294901760; 18446744069414584320] 0 0) with (2^(2*1) - 2^1).
    change (nthZ [1; 2; 4; 8; 16; 32] 5 0) with 32. change (nthZ [1; 2; 4; 8; 16; 32] 4 0) with 16.
    change (nthZ [1; 2; 4; 8; 16; 32] 3 0) with 8. change (nthZ [1; 2; 4; 8; 16; 32] 2 0) with 4.
    change (nthZ [1; 2; 4; 8; 16; 32] 1 0) with 2. change (nthZ [1; 2; 4; 8; 16; 32] 0 0) with 1.
    repeat split; match goal with |- context [if ?b then _ else _] => destruct b end; reflexivity. }
  cbn [fold_left].
  destruct (HF (x, 0)) as (E5 & _). rewrite E5.
  destruct (HF (mstep 32 (x, 0))) as (_ & E4 & _). rewrite E4.
  destruct (HF (mstep 16 (mstep 32 (x, 0)))) as (_ & _ & E3 & _). rewrite E3.
  destruct (HF (mstep 8 (mstep 16 (mstep 32 (x, 0))))) as (_ & _ & _ & E2 & _). rewrite E2.
  destruct (HF (mstep 4 (mstep 8 (mstep 16 (mstep 32 (x, 0)))))) as (_ & _ & _ & _ & E1 & _). rewrite E1.
  destruct (HF (mstep 2 (mstep 4 (mstep 8 (mstep 16 (mstep 32 (x, 0))))))) as (_ & _ & _ & _ & _ & E0). rewrite E0.
  destruct (mstep 1 _) as (y, pos). reflexivity.
Qed.

Lemma mstep_inv : forall e x pos orig, 0 <= e <= 5 -> 0 < x < 2^(2 * 2^e) -> 0 <= pos < 64 ->
  pos mod (2 * 2^e) = 0 -> Z.log2 orig = pos + Z.log2 x ->
  let '(x', pos') := mstep (2^e) (x, pos) in
  0 < x' < 2^(2^e) /\ 0 <= pos' < 64 /\ pos' mod (2^e) = 0 /\ Z.log2 orig = pos' + Z.log2 x'.
Proof.
  intros e x pos orig He Hx Hpos Hmod Hlog.
  assert (Hs : 0 < 2^e) by (apply Z.pow_pos_nonneg; lia).
  destruct (msb_step x (2^e) Hs Hx) as (Hz & Hbig).
  unfold mstep. rewrite Hz.
  destruct (Z.ltb_spec x (2^(2^e))) as [Hlt|Hge]; cbn [negb].
  - split; [lia|]. split; [lia|]. split; [|exact Hlog].
    rewrite (Z.mul_comm 2) in Hmod. rewrite Z.rem_mul_r in Hmod by lia.
    pose proof (Z.mod_pos_bound pos (2^e) ltac:(lia)). pose proof (Z.mod_pos_bound (pos / 2^e) 2 ltac:(lia)). nia.
  - destruct (Hbig Hge) as (Hx' & Hl).
    unfold go_shr. replace (2^e <? 0) with false by lia.
    assert (Hlor : Z.lor pos (2^e) = pos + 2^e).
    { pose proof (lor_pow2 pos e ltac:(lia) ltac:(lia)) as H.
      assert (Hm1 : pos mod 2^e = 0).
      { rewrite (Z.mul_comm 2) in Hmod. rewrite Z.rem_mul_r in Hmod by lia.
        pose proof (Z.mod_pos_bound pos (2^e) ltac:(lia)). pose proof (Z.mod_pos_bound (pos / 2^e) 2 ltac:(lia)). nia. }
      rewrite Hm1, Hmod in H. rewrite Z.sub_0_r in H. lia. }
    rewrite Hlor. split; [exact Hx'|].
    assert (Hle : pos + 2 * 2^e <= 64).
    { assert (Hdiv : (2 * 2^e | 64)).
      { exists (2^(5 - e)). replace (2 * 2^e) with (2^(1 + e)) by (rewrite Z.pow_add_r by lia; reflexivity).
        rewrite <- Z.pow_add_r by lia. replace (5 - e + (1 + e)) with 6 by lia. reflexivity. }
      destruct Hdiv as (k & Hk). pose proof (Z.div_mod pos (2 * 2^e) ltac:(lia)) as Hd. rewrite Hmod in Hd.
      assert (pos / (2 * 2^e) < k) by nia. nia. }
    split; [lia|]. split; [|lia].
    rewrite <- Zplus_mod_idemp_r, Z.mod_same, Z.add_0_r by lia.
    rewrite (Z.mul_comm 2) in Hmod. rewrite Z.rem_mul_r in Hmod by lia.
    pose proof (Z.mod_pos_bound pos (2^e) ltac:(lia)). pose proof (Z.mod_pos_bound (pos / 2^e) 2 ltac:(lia)). nia.
Qed.

Lemma findMSB_spec : forall x, 0 < x < 2^64 -> s2_findMSBSetNonZero64 x = Z.log2 x.
Proof.
  intros x Hx. rewrite findMSB_unfold.
  pose proof (mstep_inv 5 x 0 x ltac:(lia) Hx ltac:(lia) eq_refl ltac:(lia)) as H5.
  change (2^5) with 32 in H5. destruct (mstep 32 (x, 0)) as (x5, p5). destruct H5 as (A5 & B5 & C5 & D5).
  pose proof (mstep_inv 4 x5 p5 x ltac:(lia) A5 B5 C5 D5) as H4.
  change (2^4) with 16 in H4. destruct (mstep 16 (x5, p5)) as (x4, p4). destruct H4 as (A4 & B4 & C4 & D4).
  pose proof (mstep_inv 3 x4 p4 x ltac:(lia) A4 B4 C4 D4) as H3.
  change (2^3) with 8 in H3. destruct (mstep 8 (x4, p4)) as (x3, p3). destruct H3 as (A3 & B3 & C3 & D3).
  pose proof (mstep_inv 2 x3 p3 x ltac:(lia) A3 B3 C3 D3) as H2.
  change (2^2) with 4 in H2. destruct (mstep 4 (x3, p3)) as (x2, p2). destruct H2 as (A2 & B2 & C2 & D2).
  pose proof (mstep_inv 1 x2 p2 x ltac:(lia) A2 B2 C2 D2) as H1.
  change (2^1) with 2 in H1. destruct (mstep 2 (x2, p2)) as (x1, p1). destruct H1 as (A1 & B1 & C1 & D1).
  pose proof (mstep_inv 0 x1 p1 x ltac:(lia) A1 B1 C1 D1) as H0.
  change (2^0) with 1 in H0. destruct (mstep 1 (x1, p1)) as (x0, p0). destruct H0 as (A0 & B0 & C0 & D0).
  cbn [snd]. change (2^1) with 2 in A0. assert (x0 = 1) by lia. subst x0. cbn in D0.
  unfold wrap_i64, wrap_i. rewrite Z.mod_small by lia. replace (p0 <? 2^(64 - 1)) with true by lia. lia.
Qed.

Lemma lxor_lt_2_64 : forall a b, 0 <= a < 2^64 -> 0 <= b < 2^64 -> 0 <= Z.lxor a b < 2^64.
Proof.
  intros a b Ha Hb. split; [apply Z.lxor_nonneg; lia|].
  destruct (Z.eq_dec (Z.lxor a b) 0) as [->|Hnz]; [lia|].
  assert (Hpos : 0 < Z.lxor a b) by (pose proof (proj2 (Z.lxor_nonneg a b) ltac:(lia)); lia).
  apply Z.log2_lt_pow2; [exact Hpos|].
  pose proof (Z.log2_lxor a b ltac:(lia) ltac:(lia)) as Hl.
  assert (La : Z.log2 a < 64) by (destruct (Z.eq_dec a 0) as [->|]; [cbn; lia|apply Z.log2_lt_pow2; lia]).
  assert (Lb : Z.log2 b < 64) by (destruct (Z.eq_dec b 0) as [->|]; [cbn; lia|apply Z.log2_lt_pow2; lia]).
  lia.
Qed.

(** CommonAncestorLevel never exceeds the level of either cell *)
Lemma cal_spec : forall a La b Lb l, valid_at a La -> valid_at b Lb ->
  s2_CellID_CommonAncestorLevel a b = (l, true) -> 0 <= l <= La /\ l <= Lb.
Proof.
  intros a La b Lb l Ha Hb H.
  pose proof (valid_at_range64 _ _ Ha) as Ra. pose proof (valid_at_range64 _ _ Hb) as Rb.
  unfold s2_CellID_CommonAncestorLevel in H. cbv zeta in H.
  rewrite (lsb_spec _ _ Ha), (lsb_spec _ _ Hb) in H.
  pose proof (lxor_lt_2_64 a b Ra Rb) as Hx. rewrite (wrap_u64_small (Z.lxor a b)) in H by lia.
  pose proof (lsbL_pos La ltac:(destruct Ha; lia)) as Pa. pose proof (lsbL_pos Lb ltac:(destruct Hb; lia)) as Pb.
  pose proof (lsbL_le_2_60 La ltac:(destruct Ha; lia)) as Ua. pose proof (lsbL_le_2_60 Lb ltac:(destruct Hb; lia)) as Ub.
  pows.
  set (b1 := if Z.lxor a b <? lsbL La then lsbL La else Z.lxor a b) in H.
  set (b2 := if b1 <? lsbL Lb then lsbL Lb else b1) in H.
  assert (H1 : lsbL La <= b1 < 2^64) by (unfold b1; destruct (Z.ltb_spec (Z.lxor a b) (lsbL La)); lia).
  assert (H2 : lsbL La <= b2 < 2^64 /\ lsbL Lb <= b2) by (unfold b2; destruct (Z.ltb_spec b1 (lsbL Lb)); lia).
  clearbody b2. clear b1 H1.
  rewrite findMSB_spec in H by lia.
  destruct (Z.ltb_spec 60 (Z.log2 b2)) as [Hgt|Hle]; [discriminate|].
  assert (El : l = go_shr (wrap_i64 (60 - Z.log2 b2)) 1) by congruence. clear H. subst l.
  assert (Ja : 2 * (30 - La) <= Z.log2 b2).
  { rewrite <- (Z.log2_pow2 (2 * (30 - La))) by (destruct Ha; lia). apply Z.log2_le_mono.
    rewrite <- lsbL_pow2 by (destruct Ha; lia). lia. }
  assert (Jb : 2 * (30 - Lb) <= Z.log2 b2).
  { rewrite <- (Z.log2_pow2 (2 * (30 - Lb))) by (destruct Hb; lia). apply Z.log2_le_mono.
    rewrite <- lsbL_pow2 by (destruct Hb; lia). lia. }
  pose proof (Z.log2_nonneg b2) as Hnn.
  unfold wrap_i64, wrap_i. rewrite Z.mod_small by lia.
  replace (60 - Z.log2 b2 <? 2^(64 - 1)) with true by (change (2^(64-1)) with 9223372036854775808; lia).
  unfold go_shr. change (1 <? 0) with false. cbv iota. rewrite Z.shiftr_div_pow2 by lia. change (2^1) with 2.
  pose proof (Z.div_mod (60 - Z.log2 b2) 2 ltac:(lia)). pose proof (Z.mod_pos_bound (60 - Z.log2 b2) 2 ltac:(lia)).
  lia.
Qed.
