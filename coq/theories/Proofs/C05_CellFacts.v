(** C05 — arithmetic meaning of the translated integer functions of s2/cellid.go
    (Gen/CellIDCov.v) on valid cell ids.  Everything later (cell unions, the coverer) uses
    only the statements of this file.

    A valid cell id at level L is a number c in (0, 6*2^61) whose lowest set bit is
    lsbL L = 4^(30-L):   c mod (2 * lsbL L) = lsbL L.
    Its leaf range is [c - lsbL L + 1, c + lsbL L - 1]; leaf cells are the odd ids. *)
From Coq Require Import ZArith List Bool Lia.
From Coq Require Import ZifyBool.
From Geo Require Import Base.GoPrim Gen.CellIDCov Model.Coverer.
Import ListNotations.
Local Open Scope Z_scope.

Definition lsbL (L : Z) : Z := 4 ^ (30 - L).

Definition valid_at (c L : Z) : Prop :=
  0 <= L <= 30 /\ 0 < c < 6 * 2 ^ 61 /\ c mod (2 * lsbL L) = lsbL L.
Definition valid (c : Z) : Prop := exists L, valid_at c L.

(** leaf cells and leaf ranges *)
Definition is_leaf (x : Z) : Prop := valid_at x 30.
Definition leaf_in (x c : Z) : Prop := s2_CellID_RangeMin c <= x <= s2_CellID_RangeMax c.
Definition covered (l : list Z) (x : Z) : Prop := exists c, In c l /\ leaf_in x c.

(** the four children of c (level L < 30), in id order: c-3t, c-t, c+t, c+3t with t = lsbL (L+1) *)
Definition child (c L i : Z) : Z := c + (2 * i - 3) * lsbL (L + 1).

(* ---------------------------------------------------------------------- *)
(** * Statements (interface) *)

Lemma lsbL_pos : forall L, 0 <= L <= 30 -> 0 < lsbL L.
Admitted.
Lemma lsbL_step : forall L, 0 <= L < 30 -> lsbL L = 4 * lsbL (L + 1).
Admitted.
Lemma lsbL_30 : lsbL 30 = 1.
Admitted.
Lemma lsbL_le_2_60 : forall L, 0 <= L <= 30 -> lsbL L <= 2 ^ 60.
Admitted.

Lemma lsb_spec : forall c L, valid_at c L -> s2_CellID_lsb c = lsbL L.
Admitted.
Lemma level_spec : forall c L, valid_at c L -> s2_CellID_Level c = L.
Admitted.
Lemma valid_at_unique : forall c L L', valid_at c L -> valid_at c L' -> L = L'.
Admitted.
Lemma rangemin_spec : forall c L, valid_at c L -> s2_CellID_RangeMin c = c - lsbL L + 1.
Admitted.
Lemma rangemax_spec : forall c L, valid_at c L -> s2_CellID_RangeMax c = c + lsbL L - 1.
Admitted.
(** Contains is a range test (for any operands in uint64 range) *)
Lemma contains_spec : forall a b, 0 <= a < 2 ^ 64 -> 0 <= b < 2 ^ 64 ->
  s2_CellID_Contains a b = (s2_CellID_RangeMin a <=? b) && (b <=? s2_CellID_RangeMax a).
Admitted.
Lemma valid_range64 : forall c, valid c -> 0 <= c < 2 ^ 64.
Admitted.
Lemma is_leaf_odd : forall x, is_leaf x -> x mod 2 = 1.
Admitted.

(** children *)
Lemma children4_spec : forall c L, valid_at c L -> L < 30 ->
  children4 c = [child c L 0; child c L 1; child c L 2; child c L 3].
Admitted.
Lemma child_valid : forall c L i, valid_at c L -> L < 30 -> 0 <= i <= 3 -> valid_at (child c L i) (L + 1).
Admitted.

(** Parent *)
Lemma parent_spec : forall c L l, valid_at c L -> 0 <= l <= L ->
  s2_CellID_Parent c l = c - c mod (2 * lsbL l) + lsbL l.
Admitted.
Lemma parent_valid : forall c L l, valid_at c L -> 0 <= l <= L -> valid_at (s2_CellID_Parent c l) l.
Admitted.
Lemma parent_self : forall c L, valid_at c L -> s2_CellID_Parent c L = c.
Admitted.
(** the parent's leaf range contains the cell's *)
Lemma parent_range : forall c L l, valid_at c L -> 0 <= l <= L ->
  s2_CellID_RangeMin (s2_CellID_Parent c l) <= s2_CellID_RangeMin c /\
  s2_CellID_RangeMax c <= s2_CellID_RangeMax (s2_CellID_Parent c l).
Admitted.
Lemma immediateParent_spec : forall c L, valid_at c L -> 0 < L ->
  s2_CellID_immediateParent c = s2_CellID_Parent c (L - 1).
Admitted.
(** a child's parent is the cell *)
Lemma parent_child : forall c L i, valid_at c L -> L < 30 -> 0 <= i <= 3 ->
  s2_CellID_Parent (child c L i) L = c.
Admitted.
(** every non-face cell is a child of its parent *)
Lemma child_of_parent : forall c L, valid_at c L -> 0 < L ->
  exists i, 0 <= i <= 3 /\ c = child (s2_CellID_Parent c (L - 1)) (L - 1) i.
Admitted.

(** laminar family: two valid cells are nested or disjoint *)
Lemma laminar : forall a La b Lb, valid_at a La -> valid_at b Lb ->
  (a + lsbL La - 1 < b - lsbL Lb + 1) \/ (b + lsbL Lb - 1 < a - lsbL La + 1) \/
  (a - lsbL La + 1 <= b - lsbL Lb + 1 /\ b + lsbL Lb - 1 <= a + lsbL La - 1) \/
  (b - lsbL Lb + 1 <= a - lsbL La + 1 /\ a + lsbL La - 1 <= b + lsbL Lb - 1).
Admitted.
(** if the id of b lies in the range of a then the whole range of b does, and b is at least as deep *)
Lemma id_in_range_nested : forall a La b Lb, valid_at a La -> valid_at b Lb ->
  a - lsbL La + 1 <= b <= a + lsbL La - 1 ->
  La <= Lb /\ a - lsbL La + 1 <= b - lsbL Lb + 1 /\ b + lsbL Lb - 1 <= a + lsbL La - 1.
Admitted.

(** areSiblings: all four are at the level of d (> 0) and have d's parent *)
Lemma areSiblings_spec : forall a b c d L,
  0 <= a < 2 ^ 64 -> 0 <= b < 2 ^ 64 -> 0 <= c < 2 ^ 64 ->
  valid_at d L -> s2_areSiblings a b c d = true ->
  0 < L /\ Z.lxor (Z.lxor a b) c = d /\
  (forall e, e = a \/ e = b \/ e = c ->
     valid_at e L /\ s2_CellID_Parent e (L - 1) = s2_CellID_Parent d (L - 1)).
Admitted.
(** four strictly increasing cells with the same parent are its four children *)
Lemma four_children : forall p L a b c d, valid_at p L -> L < 30 ->
  (forall e, e = a \/ e = b \/ e = c \/ e = d -> valid_at e (L + 1) /\ s2_CellID_Parent e L = p) ->
  a < b -> b < c -> c < d ->
  a = child p L 0 /\ b = child p L 1 /\ c = child p L 2 /\ d = child p L 3.
Admitted.
