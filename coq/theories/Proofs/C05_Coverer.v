(** C05 — the priority-queue refinement of regioncoverer.go (Model/Coverer.v): candidates,
    expandChildren, addCandidate and the main loop, for an arbitrary region given by
    [intersects], [contains] and a leaf-set semantics [pts].
    Results of this file are about the raw result list of the loop, started from an arbitrary
    list of initial cells; Proofs/C05_Main.v composes them with Normalize/Denormalize/FastCovering. *)
From Coq Require Import ZArith List Bool Lia Sorting.Permutation.
From Coq Require Import ZifyBool.
From Geo Require Import Base.GoPrim Gen.CellIDCov Model.Coverer.
From Geo Require Import Proofs.C05_CellFacts Proofs.C05_CellUnion Proofs.C05_Heap.
From Geo Require Import Gen.CellID.  (* s2_CellID_Next *)
Import ListNotations.
Local Open Scope Z_scope.

(* ---------------------------------------------------------------------- *)
(** * Generic list facts *)

Lemma covered_app : forall l1 l2 x, covered (l1 ++ l2) x <-> covered l1 x \/ covered l2 x.
Proof.
  intros l1 l2 x. unfold covered. split.
  - intros (c & Hin & Hx). apply in_app_or in Hin. destruct Hin; [left|right]; exists c; auto.
  - intros [(c & Hin & Hx)|(c & Hin & Hx)]; exists c; split; auto; apply in_or_app; auto.
Qed.
Lemma covered_perm : forall l1 l2 x, Permutation l1 l2 -> covered l1 x -> covered l2 x.
Proof. intros l1 l2 x P (c & Hin & Hx). exists c. split; [eapply Permutation_in; eauto|exact Hx]. Qed.
Lemma covered_single : forall c x, covered [c] x <-> leaf_in x c.
Proof.
  intros c x. split.
  - intros (c' & [<-|[]] & Hx). exact Hx.
  - intros Hx. exists c. split; [left; reflexivity|exact Hx].
Qed.
Lemma leaf_in_sub : forall x c o, leaf_in x c -> cell_sub c o -> leaf_in x o.
Proof. unfold leaf_in, cell_sub. intros. lia. Qed.
Lemma cell_sub_refl : forall c, cell_sub c c.
Proof. unfold cell_sub. intros. lia. Qed.
Lemma cell_sub_trans : forall a b c, cell_sub a b -> cell_sub b c -> cell_sub a c.
Proof. unfold cell_sub. intros. lia. Qed.

Lemma fold_left_fst_app : forall {A B C} (f : list A * C -> B -> list A * C) (g : B -> list A),
  (forall st x, fst (f st x) = fst st ++ g x) ->
  forall l st, fst (fold_left f l st) = fst st ++ flat_map g l.
Proof.
  intros A B C f g Hf. induction l as [|b l IH]; intros st; cbn.
  - rewrite app_nil_r. reflexivity.
  - rewrite IH, Hf, app_assoc. reflexivity.
Qed.

(* ---------------------------------------------------------------------- *)
(** * Children of a valid cell *)

Lemma children4_props : forall c L, valid_at c L -> L < 30 ->
  (forall k, In k (children4 c) -> valid_at k (L + 1) /\ cell_sub k c) /\
  (forall x, is_leaf x -> leaf_in x c -> exists k, In k (children4 c) /\ leaf_in x k) /\
  (length (children4 c) = 4)%nat.
Proof.
  intros c L Hv HL. rewrite (children4_spec c L Hv HL).
  pose proof (child_valid c L 0 Hv HL ltac:(lia)) as V0.
  pose proof (child_valid c L 1 Hv HL ltac:(lia)) as V1.
  pose proof (child_valid c L 2 Hv HL ltac:(lia)) as V2.
  pose proof (child_valid c L 3 Hv HL ltac:(lia)) as V3.
  pose proof (lsbL_step L ltac:(destruct Hv; lia)) as Hstep.
  assert (Ht : 0 < lsbL (L + 1)) by (apply lsbL_pos; destruct Hv; lia).
  split; [|split; [|reflexivity]].
  - intros k Hk. cbn in Hk.
    assert (Hsub : forall i, 0 <= i <= 3 -> valid_at (child c L i) (L + 1) -> cell_sub (child c L i) c).
    { intros i Hi Vi. unfold cell_sub.
      rewrite (rangemin_spec _ _ Vi), (rangemax_spec _ _ Vi), (rangemin_spec _ _ Hv), (rangemax_spec _ _ Hv).
      unfold child. nia. }
    destruct Hk as [<-|[<-|[<-|[<-|[]]]]]; (split; [assumption|apply Hsub; [lia|assumption]]).
  - intros x Hx Hin. pose proof (is_leaf_odd x Hx) as Hodd.
    unfold leaf_in in *. rewrite (rangemin_spec _ _ Hv), (rangemax_spec _ _ Hv) in Hin.
    assert (Hc2 : c mod 2 = 0).
    { destruct Hv as (HL' & Hc & Hm). rewrite Hstep in Hm.
      pose proof (Z.div_mod c (2 * (4 * lsbL (L + 1))) ltac:(lia)) as Hd. rewrite Hm in Hd.
      rewrite Hd. rewrite Z.add_comm.
      replace (2 * (4 * lsbL (L + 1)) * (c / (2 * (4 * lsbL (L + 1)))))
        with ((4 * lsbL (L + 1) * (c / (2 * (4 * lsbL (L + 1))))) * 2) by ring.
      rewrite Z.mod_add by lia.
      replace (4 * lsbL (L + 1)) with ((2 * lsbL (L + 1)) * 2) by ring. apply Z.mod_mul. lia. }
    set (t := lsbL (L + 1)) in *.
    assert (Ht2 : (2 * t) mod 2 = 0) by (rewrite Z.mul_comm; apply Z.mod_mul; lia).
    (* x is odd; c - 2t, c, c + 2t are even *)
    assert (Hx1 : x <> c) by (intro; subst; lia).
    assert (Hx2 : x <> c - 2 * t).
    { intro E. subst x. rewrite <- Zminus_mod_idemp_r, Ht2, Z.sub_0_r in Hodd. lia. }
    assert (Hx3 : x <> c + 2 * t).
    { intro E. subst x. rewrite <- Zplus_mod_idemp_r, Ht2, Z.add_0_r in Hodd. lia. }
    assert (Hcase : x < c - 2 * t \/ c - 2 * t < x < c \/ c < x < c + 2 * t \/ c + 2 * t < x) by lia.
    destruct Hcase as [H|[H|[H|H]]].
    + exists (child c L 0). split; [cbn; auto|].
      rewrite (rangemin_spec _ _ V0), (rangemax_spec _ _ V0). unfold child. fold t. lia.
    + exists (child c L 1). split; [cbn; auto|].
      rewrite (rangemin_spec _ _ V1), (rangemax_spec _ _ V1). unfold child. fold t. lia.
    + exists (child c L 2). split; [cbn; auto|].
      rewrite (rangemin_spec _ _ V2), (rangemax_spec _ _ V2). unfold child. fold t. lia.
    + exists (child c L 3). split; [cbn; auto 6|].
      rewrite (rangemin_spec _ _ V3), (rangemax_spec _ _ V3). unfold child. fold t. lia.
Qed.

Lemma children4_length_le : forall c, (length (children4 c) <= 4)%nat.
Proof.
  intros c. unfold children4.
  assert (H : forall fuel a b, (length (cells_from_to fuel a b) <= fuel)%nat).
  { induction fuel as [|f IH]; intros a b; cbn; [lia|]. destruct (a =? b); cbn; [lia|]. specialize (IH (s2_CellID_Next a) b). lia. }
  apply H.
Qed.

(* ---------------------------------------------------------------------- *)
Definition wf_cv (cv : coverer) : Prop :=
  0 <= minLevel cv <= 30 /\ 0 <= maxLevel cv <= 30 /\ 1 <= levelMod cv <= 3.

Section Core.
  Variable intersects contains : Z -> bool.
  Variable pts : Z -> Prop.
  Variable cv : coverer.
  Hypothesis Hwf : wf_cv cv.

  Definition SoundI : Prop :=
    forall c, valid c -> (exists x, is_leaf x /\ leaf_in x c /\ pts x) -> intersects c = true.
  Definition SoundC : Prop :=
    forall c, valid c -> contains c = true -> forall x, is_leaf x -> leaf_in x c -> pts x.

  Notation newCand := (newCandidate intersects contains cv).

  Lemma newCandidate_id : forall id id' t, newCand id = Some (id', t) -> id' = id.
  Proof.
    intros id id' t. unfold newCandidate.
    repeat match goal with |- context [if ?b then _ else _] => destruct b end;
      intro H; try discriminate H; injection H; auto.
  Qed.
  Lemma newCandidate_intersects : forall id p, newCand id = Some p -> intersects id = true.
  Proof. intros id p. unfold newCandidate. destruct (intersects id); [auto|discriminate]. Qed.

  (** the number of levels addCandidate descends below a non-terminal candidate *)
  Definition numLevels (L : Z) : Z := if L <? minLevel cv then 1 else levelMod cv.

  Lemma nonterminal_room : forall id L, valid_at id L -> newCand id = Some (id, false) ->
    1 <= numLevels L <= 3 /\ L + numLevels L <= 30 /\ L + numLevels L <= Z.max (maxLevel cv) (minLevel cv).
  Proof.
    intros id L Hv H. destruct Hwf as (Hmin & Hmax & Hmod). unfold numLevels.
    unfold newCandidate in H. rewrite (level_spec _ _ Hv) in H.
    destruct (negb (intersects id)); [discriminate|].
    destruct (Z.ltb_spec L (minLevel cv)) as [Hlt|Hge]; [lia|].
    rewrite (proj2 (Z.geb_le L (minLevel cv)) Hge) in H.
    destruct (interior cv).
    - destruct (contains id); [discriminate|].
      destruct (Z.gtb_spec (L + levelMod cv) (maxLevel cv)); [discriminate|]. lia.
    - destruct (Z.gtb_spec (L + levelMod cv) (maxLevel cv)); cbn [orb] in H; [discriminate|].
      destruct (contains id); [discriminate|]. lia.
  Qed.

  Lemma terminal_level : forall id L t, valid_at id L -> newCand id = Some (id, t) ->
    (t = true -> minLevel cv <= L) /\ (interior cv = true -> t = true -> contains id = true).
  Proof.
    intros id L t Hv H. unfold newCandidate in H. rewrite (level_spec _ _ Hv) in H.
    destruct (negb (intersects id)); [discriminate|].
    destruct (Z.geb_spec L (minLevel cv)) as [Hge|Hlt].
    - destruct (interior cv).
      + destruct (contains id); [split; intros; auto; lia|].
        destruct (L + levelMod cv >? maxLevel cv); [discriminate|]. injection H as <-. split; intros; discriminate.
      + split; [intros; lia|intros; discriminate].
    - injection H as <-. split; intros; discriminate.
  Qed.

  (** ** expandChildren as a pure function *)
  Fixpoint kidsOf (n : nat) (cell : Z) : list (Z * bool) :=
    match n with
    | O => flat_map (fun ci => match newCand ci with Some ch => [ch] | None => [] end) (children4 cell)
    | S n' => flat_map (fun ci => if intersects ci then kidsOf n' ci else []) (children4 cell)
    end.

  Lemma expandChildren_kids : forall n cell st,
    fst (expandChildren intersects contains cv n cell st) = fst st ++ kidsOf n cell.
  Proof.
    induction n as [|n IH]; intros cell st.
    - cbn [expandChildren kidsOf]. apply fold_left_fst_app. intros st' ci.
      destruct (newCand ci) as [ch|]; cbn; [reflexivity|rewrite app_nil_r; reflexivity].
    - cbn [expandChildren kidsOf]. apply fold_left_fst_app. intros st' ci.
      destruct (intersects ci); [apply IH|rewrite app_nil_r; reflexivity].
  Qed.

  (** what a kid is: a valid descendant cell, flagged the way newCandidate flags it *)
  Definition kid_ok (cell : Z) (Lk : Z) (p : Z * bool) : Prop :=
    valid_at (fst p) Lk /\ cell_sub (fst p) cell /\ newCand (fst p) = Some p.

  Lemma kidsOf_ok : forall n cell L, valid_at cell L -> L + Z.of_nat n + 1 <= 30 ->
    Forall (kid_ok cell (L + Z.of_nat n + 1)) (kidsOf n cell).
  Proof.
    induction n as [|n IH]; intros cell L Hv HL.
    - cbn [kidsOf]. destruct (children4_props cell L Hv ltac:(lia)) as (Hk & _ & _).
      apply Forall_forall. intros p Hp. apply in_flat_map in Hp. destruct Hp as (ci & Hci & Hp).
      destruct (Hk ci Hci) as (Vci & Sci).
      destruct (newCand ci) as [ch|] eqn:E; [|destruct Hp].
      destruct Hp as [<-|[]]. destruct ch as (id', t). pose proof (newCandidate_id _ _ _ E) as ->.
      unfold kid_ok. cbn [fst]. replace (L + Z.of_nat 0 + 1) with (L + 1) by lia. auto.
    - cbn [kidsOf]. destruct (children4_props cell L Hv ltac:(lia)) as (Hk & _ & _).
      apply Forall_forall. intros p Hp. apply in_flat_map in Hp. destruct Hp as (ci & Hci & Hp).
      destruct (Hk ci Hci) as (Vci & Sci).
      destruct (intersects ci); [|destruct Hp].
      pose proof (IH ci (L + 1) Vci ltac:(lia)) as HF. rewrite Forall_forall in HF.
      destruct (HF p Hp) as (Vp & Sp & Np).
      unfold kid_ok. replace (L + Z.of_nat (S n) + 1) with (L + 1 + Z.of_nat n + 1) by lia.
      split; [exact Vp|]. split; [eapply cell_sub_trans; eauto|exact Np].
  Qed.

  Lemma kidsOf_length : forall n cell, (length (kidsOf n cell) <= 4 ^ (S n))%nat.
  Proof.
    assert (Hfm : forall {A B} (f : A -> list B) (l : list A) (k : nat),
               (forall a, length (f a) <= k)%nat -> (length (flat_map f l) <= length l * k)%nat).
    { intros A B f l k Hf. induction l as [|a l IH]; cbn; [lia|]. rewrite app_length. specialize (Hf a). lia. }
    induction n as [|n IH]; intros cell; cbn [kidsOf].
    - eapply Nat.le_trans; [apply (Hfm _ _ _ _ 1%nat)|].
      + intros a. destruct (newCand a); cbn; lia.
      + rewrite Nat.mul_1_r. change (4 ^ 1)%nat with 4%nat. apply children4_length_le.
    - eapply Nat.le_trans; [apply (Hfm _ _ _ _ (4 ^ S n)%nat)|].
      + intros a. destruct (intersects a); [apply IH|cbn; lia].
      + pose proof (children4_length_le cell) as H4. change (4 ^ S (S n))%nat with (4 * 4 ^ S n)%nat.
        apply Nat.mul_le_mono_r. exact H4.
  Qed.

  (** coverage by the kids (exterior coverings): no region leaf of the cell is lost *)
  Lemma kidsOf_covers : SoundI -> interior cv = false ->
    forall n cell L, valid_at cell L -> L + Z.of_nat n + 1 <= 30 ->
    forall x, is_leaf x -> pts x -> leaf_in x cell -> covered (map fst (kidsOf n cell)) x.
  Proof.
    intros HI Hext. induction n as [|n IH]; intros cell L Hv HL x Hx Hp Hin.
    - destruct (children4_props cell L Hv ltac:(lia)) as (Hk & Hpart & _).
      destruct (Hpart x Hx Hin) as (k & Hkin & Hxk). destruct (Hk k Hkin) as (Vk & Sk).
      assert (Hint : intersects k = true) by (apply HI; [exists (L + 1); exact Vk|exists x; auto]).
      assert (exists t, newCand k = Some (k, t)) as (t & Ht).
      { unfold newCandidate. rewrite Hint, Hext. cbn [negb].
        repeat match goal with |- context [if ?b then _ else _] => destruct b end; eauto. }
      exists k. split; [|exact Hxk].
      cbn [kidsOf]. apply in_map_iff. exists (k, t). split; [reflexivity|].
      apply in_flat_map. exists k. split; [exact Hkin|]. rewrite Ht. left; reflexivity.
    - destruct (children4_props cell L Hv ltac:(lia)) as (Hk & Hpart & _).
      destruct (Hpart x Hx Hin) as (k & Hkin & Hxk). destruct (Hk k Hkin) as (Vk & Sk).
      assert (Hint : intersects k = true) by (apply HI; [exists (L + 1); exact Vk|exists x; auto]).
      destruct (IH k (L + 1) Vk ltac:(lia) x Hx Hp Hxk) as (c & Hc & Hxc).
      exists c. split; [|exact Hxc].
      apply in_map_iff in Hc. destruct Hc as (p & <- & Hpin).
      apply in_map_iff. exists p. split; [reflexivity|].
      cbn [kidsOf]. apply in_flat_map. exists k. split; [exact Hkin|]. rewrite Hint. exact Hpin.
  Qed.

  (** ** Queue entries and states *)
  Definition wf_q (q : qcand) : Prop :=
    exists L, valid_at (q_id q) L /\
      Forall (fun p => exists Lk, L < Lk /\ kid_ok (q_id q) Lk p) (q_children q) /\
      (length (q_children q) <= 64)%nat.
  Definition kids (pq : list qcand) : list Z := flat_map (fun q => map fst (q_children q)) pq.
  Definition wf_st (st : list Z * list qcand) : Prop := Forall valid (fst st) /\ Forall wf_q (snd st).

  Lemma kids_perm : forall p1 p2, Permutation p1 p2 -> Permutation (kids p1) (kids p2).
  Proof. intros. unfold kids. apply Permutation_flat_map. assumption. Qed.

  (** the three possible outcomes of addCandidate *)
  Lemma addCandidate_cases : forall res pq id t L, valid_at id L -> newCand id = Some (id, t) ->
    let st' := addCandidate intersects contains cv (res, pq) (id, t) in
    (st' = (res ++ [id], pq) /\ minLevel cv <= L /\ (interior cv = true -> contains id = true)) \/
    (st' = (res, pq) /\ t = false /\ kidsOf (Z.to_nat (numLevels L - 1)) id = []) \/
    (exists q, st' = (res, heap_Push pq q) /\ t = false /\ q_id q = id /\
               q_children q = kidsOf (Z.to_nat (numLevels L - 1)) id).
  Proof.
    intros res pq id t L Hv Hn st'. subst st'. unfold addCandidate.
    destruct (terminal_level id L t Hv Hn) as (Hmin & Hcont).
    destruct t.
    - left. split; [reflexivity|]. split; [auto|auto].
    - rewrite (level_spec _ _ Hv). fold (numLevels L).
      destruct (expandChildren intersects contains cv (Z.to_nat (numLevels L - 1)) id ([], 0)) as (children, nt) eqn:E.
      assert (Ek : children = kidsOf (Z.to_nat (numLevels L - 1)) id).
      { pose proof (expandChildren_kids (Z.to_nat (numLevels L - 1)) id ([], 0)) as H. rewrite E in H. exact H. }
      destruct (Z.eqb_spec (len children) 0) as [H0|H0].
      + right; left. split; [reflexivity|]. split; [reflexivity|].
        rewrite <- Ek. unfold len in H0. destruct children; [reflexivity|cbn in H0; lia].
      + destruct (negb (interior cv) && (nt =? Z.shiftl 1 (2 * levelMod cv)) && (L >=? minLevel cv)) eqn:Eb.
        * left. split; [reflexivity|].
          apply andb_prop in Eb. destruct Eb as [Eb1 Eb2]. apply andb_prop in Eb1. destruct Eb1 as [Eb1 _].
          split; [lia|]. intro Hi. rewrite Hi in Eb1. discriminate.
        * right; right. eexists. split; [reflexivity|]. cbn [q_id q_children]. auto.
  Qed.

  Lemma kidsOf_wf_q : forall id L t q, valid_at id L -> newCand id = Some (id, false) -> t = false ->
    q_id q = id -> q_children q = kidsOf (Z.to_nat (numLevels L - 1)) id -> wf_q q.
  Proof.
    intros id L t q Hv Hn _ Hid Hch. destruct (nonterminal_room id L Hv Hn) as (Hnl & Hroom & HroomM).
    exists L. rewrite Hid, Hch. split; [exact Hv|]. split.
    - pose proof (kidsOf_ok (Z.to_nat (numLevels L - 1)) id L Hv ltac:(lia)) as HF.
      eapply Forall_impl; [|exact HF]. intros p Hp. exists (L + Z.of_nat (Z.to_nat (numLevels L - 1)) + 1).
      split; [lia|exact Hp].
    - pose proof (kidsOf_length (Z.to_nat (numLevels L - 1)) id) as Hlen.
      assert (Hpow : (4 ^ S (Z.to_nat (numLevels L - 1)) <= 64)%nat).
      { assert (Hc : (Z.to_nat (numLevels L - 1) = 0 \/ Z.to_nat (numLevels L - 1) = 1 \/ Z.to_nat (numLevels L - 1) = 2)%nat) by lia.
        destruct Hc as [->|[->| ->]]; cbn; lia. }
      lia.
  Qed.

  Lemma addCandidate_wf : forall st id t L, wf_st st -> valid_at id L -> newCand id = Some (id, t) ->
    wf_st (addCandidate intersects contains cv st (id, t)).
  Proof.
    intros (res, pq) id t L (Hres & Hpq) Hv Hn.
    destruct (addCandidate_cases res pq id t L Hv Hn) as [(-> & _)|[(-> & _)|(q & -> & Ht & Hid & Hch)]].
    - split; cbn [fst snd]; [|exact Hpq]. apply Forall_app. split; [exact Hres|]. constructor; [exists L; exact Hv|constructor].
    - split; assumption.
    - split; cbn [fst snd]; [exact Hres|]. subst t.
      eapply Permutation_Forall; [apply heap_Push_perm|]. constructor; [|exact Hpq].
      eapply kidsOf_wf_q; eauto.
  Qed.

  (** coverage: nothing covered is lost, and the region leaves of the candidate become covered *)
  Definition cov_of (st : list Z * list qcand) (x : Z) : Prop := covered (fst st ++ kids (snd st)) x.

  Lemma addCandidate_mono : forall st id t L x, valid_at id L -> newCand id = Some (id, t) ->
    cov_of st x -> cov_of (addCandidate intersects contains cv st (id, t)) x.
  Proof.
    intros (res, pq) id t L x Hv Hn Hc. unfold cov_of in *. cbn [fst snd] in *.
    destruct (addCandidate_cases res pq id t L Hv Hn) as [(-> & _)|[(-> & _)|(q & -> & Ht & Hid & Hch)]]; cbn [fst snd].
    - apply covered_app in Hc. apply covered_app. destruct Hc; [left; apply covered_app; auto|auto].
    - exact Hc.
    - apply covered_app in Hc. apply covered_app. destruct Hc as [Hc|Hc]; [auto|right].
      eapply covered_perm; [apply kids_perm, heap_Push_perm|]. unfold kids. cbn [flat_map]. apply covered_app. auto.
  Qed.

  Lemma addCandidate_covers : SoundI -> interior cv = false ->
    forall st id t L x, valid_at id L -> newCand id = Some (id, t) ->
    is_leaf x -> pts x -> leaf_in x id -> cov_of (addCandidate intersects contains cv st (id, t)) x.
  Proof.
    intros HI Hext (res, pq) id t L x Hv Hn Hx Hp Hin. unfold cov_of.
    destruct (addCandidate_cases res pq id t L Hv Hn) as [(-> & _)|[(-> & Ht & Hnil)|(q & -> & Ht & Hid & Hch)]]; cbn [fst snd].
    - apply covered_app. left. apply covered_app. right. apply covered_single. exact Hin.
    - exfalso. subst t. destruct (nonterminal_room id L Hv Hn) as (Hnl & Hroom & HroomM).
      pose proof (kidsOf_covers HI Hext (Z.to_nat (numLevels L - 1)) id L Hv ltac:(lia) x Hx Hp Hin) as Hc.
      rewrite Hnil in Hc. destruct Hc as (c & [] & _).
    - subst t. destruct (nonterminal_room id L Hv Hn) as (Hnl & Hroom & HroomM).
      pose proof (kidsOf_covers HI Hext (Z.to_nat (numLevels L - 1)) id L Hv ltac:(lia) x Hx Hp Hin) as Hc.
      apply covered_app. right.
      eapply covered_perm; [apply kids_perm, heap_Push_perm|]. unfold kids. cbn [flat_map]. apply covered_app. left.
      rewrite Hch. exact Hc.
  Qed.

  (** ** The fold over the children of a popped candidate *)
  Definition child_fold (st : list Z * list qcand) (children : list (Z * bool)) : list Z * list qcand :=
    fold_left (fun st child =>
                 if negb (interior cv) || (len (fst st) <? maxCells cv)
                 then addCandidate intersects contains cv st child else st) children st.

  Lemma child_fold_cons : forall st p ch,
    child_fold st (p :: ch) =
    child_fold (if negb (interior cv) || (len (fst st) <? maxCells cv)
                then addCandidate intersects contains cv st p else st) ch.
  Proof. reflexivity. Qed.

  Lemma child_fold_wf : forall cell children st,
    Forall (fun p => exists Lk, kid_ok cell Lk p) children -> wf_st st -> wf_st (child_fold st children).
  Proof.
    intros cell. induction children as [|(k, t) ch IH]; intros st HF Hst; cbn; [exact Hst|].
    inversion HF as [|? ? (Lk & Vk & Sk & Nk) HF']; subst. cbn [fst] in *.
    apply IH; [exact HF'|].
    destruct (negb (interior cv) || (len (fst st) <? maxCells cv)); [|exact Hst].
    eapply addCandidate_wf; eauto.
  Qed.

  Lemma child_fold_mono : forall cell children st x,
    Forall (fun p => exists Lk, kid_ok cell Lk p) children -> cov_of st x -> cov_of (child_fold st children) x.
  Proof.
    intros cell. induction children as [|(k, t) ch IH]; intros st x HF Hc; cbn; [exact Hc|].
    inversion HF as [|? ? (Lk & Vk & Sk & Nk) HF']; subst. cbn [fst] in *.
    apply IH; [exact HF'|].
    destruct (negb (interior cv) || (len (fst st) <? maxCells cv)); [|exact Hc].
    eapply addCandidate_mono; eauto.
  Qed.

  Lemma child_fold_covers : SoundI -> interior cv = false ->
    forall cell children st x,
    Forall (fun p => exists Lk, kid_ok cell Lk p) children ->
    is_leaf x -> pts x -> covered (map fst children) x -> cov_of (child_fold st children) x.
  Proof.
    intros HI Hext cell. induction children as [|(k, t) ch IH]; intros st x HF Hx Hp Hc.
    - destruct Hc as (c & [] & _).
    - inversion HF as [|? ? (Lk & Vk & Sk & Nk) HF']; subst. cbn [fst] in *.
      rewrite child_fold_cons. rewrite Hext. cbn [negb orb].
      destruct Hc as (c & [<-|Hc] & Hxc).
      + eapply child_fold_mono; [exact HF'|]. eapply addCandidate_covers; eauto.
      + apply IH; auto. exists c. auto.
  Qed.

  (** ** One iteration of the main loop *)
  Notation step := (cover_step intersects contains cv).

  Lemma wf_q_kids_sub : forall q x, wf_q q -> covered (map fst (q_children q)) x -> leaf_in x (q_id q).
  Proof.
    intros q x (L & Hv & HF & _) (c & Hc & Hx). apply in_map_iff in Hc. destruct Hc as (p & <- & Hp).
    rewrite Forall_forall in HF. destruct (HF p Hp) as (Lk & _ & _ & Hsub & _).
    eapply leaf_in_sub; eauto.
  Qed.

  Lemma wf_q_children : forall q, wf_q q -> Forall (fun p => exists Lk, kid_ok (q_id q) Lk p) (q_children q).
  Proof.
    intros q (L & Hv & HF & _). eapply Forall_impl; [|exact HF]. intros p (Lk & _ & H). exists Lk. exact H.
  Qed.

  Lemma step_wf : forall st, wf_st st -> match step st with inl st' => wf_st st' | inr st' => wf_st st' end.
  Proof.
    intros (res, pq) Hst. unfold cover_step.
    destruct ((len pq >? 0) && (negb (interior cv) || (len res <? maxCells cv))); [|exact Hst].
    destruct (heap_Pop pq) as [(cand, pq')|] eqn:Epop; [|exact Hst].
    pose proof (heap_Pop_perm _ _ _ Epop) as Pm. destruct Hst as (Hres & Hpq). cbn [fst snd] in *.
    pose proof (Permutation_Forall Pm Hpq) as Hpq2. inversion Hpq2 as [|? ? Hcand Hpq']; subst.
    destruct (interior cv || (s2_CellID_Level (q_id cand) <? minLevel cv) || (q_nch cand =? 1)
              || (len res + len pq' + q_nch cand <=? maxCells cv)).
    - fold (child_fold (res, pq') (q_children cand)).
      eapply child_fold_wf; [apply wf_q_children; exact Hcand|]. split; assumption.
    - split; cbn [fst snd]; [|exact Hpq']. apply Forall_app. split; [exact Hres|].
      destruct Hcand as (L & Hv & _). constructor; [exists L; exact Hv|constructor].
  Qed.

  (** exterior coverings: coverage of region leaves is invariant; at exit the queue is empty *)
  Lemma step_cov : SoundI -> interior cv = false ->
    forall st x, wf_st st -> is_leaf x -> pts x -> cov_of st x ->
    match step st with inl st' => cov_of st' x | inr st' => covered (fst st') x end.
  Proof.
    intros HI Hext (res, pq) x Hst Hx Hp Hc. unfold cover_step.
    replace ((len pq >? 0) && (negb (interior cv) || (len res <? maxCells cv))) with (len pq >? 0)
      by (rewrite Hext; cbn [negb orb]; rewrite andb_true_r; reflexivity).
    destruct (Z.gtb_spec (len pq) 0) as [Hpos|Hzero].
    2:{ cbn [fst]. destruct pq; [|unfold len in Hzero; cbn in Hzero; lia].
        unfold cov_of in Hc. cbn in Hc. rewrite app_nil_r in Hc. exact Hc. }
    destruct (heap_Pop pq) as [(cand, pq')|] eqn:Epop.
    2:{ apply heap_Pop_none in Epop. subst pq. unfold len in Hpos. cbn in Hpos. lia. }
    pose proof (heap_Pop_perm _ _ _ Epop) as Pm. destruct Hst as (Hres & Hpq). cbn [fst snd] in *.
    pose proof (Permutation_Forall Pm Hpq) as Hpq2. inversion Hpq2 as [|? ? Hcand Hpq']; subst.
    (* split the coverage of x *)
    unfold cov_of in Hc. cbn [fst snd] in Hc. apply covered_app in Hc.
    assert (Hc3 : covered res x \/ covered (map fst (q_children cand)) x \/ covered (kids pq') x).
    { destruct Hc as [Hc|Hc]; [auto|]. pose proof (covered_perm _ _ x (kids_perm _ _ Pm) Hc) as Hc'.
      unfold kids in Hc'. cbn [flat_map] in Hc'. apply covered_app in Hc'. tauto. }
    destruct (interior cv || (s2_CellID_Level (q_id cand) <? minLevel cv) || (q_nch cand =? 1)
              || (len res + len pq' + q_nch cand <=? maxCells cv)).
    - fold (child_fold (res, pq') (q_children cand)).
      destruct Hc3 as [Hr|[Hk|Hq]].
      + eapply child_fold_mono; [apply wf_q_children; exact Hcand|]. unfold cov_of. cbn [fst snd]. apply covered_app. auto.
      + eapply child_fold_covers; eauto. apply wf_q_children; exact Hcand.
      + eapply child_fold_mono; [apply wf_q_children; exact Hcand|]. unfold cov_of. cbn [fst snd]. apply covered_app. auto.
    - unfold cov_of. cbn [fst snd]. apply covered_app.
      destruct Hc3 as [Hr|[Hk|Hq]].
      + left. apply covered_app. auto.
      + left. apply covered_app. right. apply covered_single. eapply wf_q_kids_sub; eauto.
      + auto.
  Qed.

  (** interior coverings: every result cell is reported as contained *)
  Definition res_contained (st : list Z * list qcand) : Prop :=
    Forall (fun c => contains c = true) (fst st).

  Lemma addCandidate_contained : interior cv = true ->
    forall st id t L, valid_at id L -> newCand id = Some (id, t) ->
    res_contained st -> res_contained (addCandidate intersects contains cv st (id, t)).
  Proof.
    intros Hint (res, pq) id t L Hv Hn Hc. unfold res_contained in *. cbn [fst] in *.
    destruct (addCandidate_cases res pq id t L Hv Hn) as [(-> & _ & Hcont)|[(-> & _)|(q & -> & _)]]; cbn [fst]; auto.
    apply Forall_app. split; [exact Hc|]. constructor; [auto|constructor].
  Qed.

  Lemma step_contained : interior cv = true ->
    forall st, wf_st st -> res_contained st ->
    match step st with inl st' => res_contained st' | inr st' => res_contained st' end.
  Proof.
    intros Hint (res, pq) Hst Hc. unfold cover_step. rewrite Hint. cbn [orb].
    destruct ((len pq >? 0) && (negb true || (len res <? maxCells cv))); [|exact Hc].
    destruct (heap_Pop pq) as [(cand, pq')|] eqn:Epop; [|exact Hc].
    pose proof (heap_Pop_perm _ _ _ Epop) as Pm. destruct Hst as (Hres & Hpq). cbn [fst snd] in *.
    pose proof (Permutation_Forall Pm Hpq) as Hpq2. inversion Hpq2 as [|? ? Hcand Hpq']; subst.
    pose proof (wf_q_children _ Hcand) as HF.
    assert (Hgen : forall children st0, Forall (fun p => exists Lk, kid_ok (q_id cand) Lk p) children ->
              res_contained st0 ->
              res_contained (fold_left (fun st child =>
                 if negb true || (len (fst st) <? maxCells cv)
                 then addCandidate intersects contains cv st child else st) children st0)).
    { induction children as [|(k, t) ch IH]; intros st0 HF0 Hc0; cbn; [exact Hc0|].
      inversion HF0 as [|? ? (Lk & Vk & Sk & Nk) HF']; subst. cbn [fst] in *.
      apply IH; [exact HF'|]. destruct (len (fst st0) <? maxCells cv); [|exact Hc0].
      eapply addCandidate_contained; eauto. }
    apply Hgen; assumption.
  Qed.

  (** ** Level discipline of candidates: at or above minLevel the level is minLevel + k * levelMod *)
  Definition lvl_ok (L : Z) : Prop :=
    (minLevel cv <= L -> (L - minLevel cv) mod levelMod cv = 0) /\ L <= Z.max (maxLevel cv) (minLevel cv).

  Definition lvl_q (q : qcand) : Prop :=
    (forall L, valid_at (q_id q) L -> lvl_ok L) /\
    Forall (fun p => forall Lk, valid_at (fst p) Lk -> lvl_ok Lk) (q_children q).
  Definition lvl_st (st : list Z * list qcand) : Prop :=
    Forall (fun c => forall L, valid_at c L -> lvl_ok L /\ minLevel cv <= L) (fst st) /\ Forall lvl_q (snd st).

  Lemma lvl_ok_kids : forall id L, valid_at id L -> lvl_ok L -> newCand id = Some (id, false) ->
    Forall (fun p => forall Lk, valid_at (fst p) Lk -> lvl_ok Lk) (kidsOf (Z.to_nat (numLevels L - 1)) id).
  Proof.
    intros id L Hv Hl Hn. destruct (nonterminal_room id L Hv Hn) as (Hnl & Hroom & HroomM).
    pose proof (kidsOf_ok (Z.to_nat (numLevels L - 1)) id L Hv ltac:(lia)) as HF.
    eapply Forall_impl; [|exact HF]. intros p (Vp & _ & _) Lk Vk.
    pose proof (valid_at_unique _ _ _ Vp Vk) as <-.
    replace (L + Z.of_nat (Z.to_nat (numLevels L - 1)) + 1) with (L + numLevels L) by lia.
    unfold lvl_ok in *. split; [|exact HroomM]. destruct Hl as (Hl & _).
    unfold numLevels in *. destruct Hwf as (Hmin & Hmax & Hmod).
    destruct (Z.ltb_spec L (minLevel cv)) as [Hlt|Hge]; intro Hge'.
    - replace (L + 1 - minLevel cv) with 0 by lia. apply Z.mod_0_l. lia.
    - specialize (Hl Hge). replace (L + levelMod cv - minLevel cv) with ((L - minLevel cv) + 1 * levelMod cv) by ring.
      rewrite Z.mod_add by lia. exact Hl.
  Qed.

  Lemma addCandidate_lvl : forall st id t L, valid_at id L -> lvl_ok L -> newCand id = Some (id, t) ->
    lvl_st st -> lvl_st (addCandidate intersects contains cv st (id, t)).
  Proof.
    intros (res, pq) id t L Hv Hl Hn (Hres & Hpq).
    destruct (addCandidate_cases res pq id t L Hv Hn) as [(-> & Hmin & _)|[(-> & _)|(q & -> & Ht & Hid & Hch)]].
    - split; cbn [fst snd]; [|exact Hpq]. apply Forall_app. split; [exact Hres|]. constructor; [|constructor].
      intros L' V'. pose proof (valid_at_unique _ _ _ Hv V') as <-. auto.
    - split; assumption.
    - split; cbn [fst snd]; [exact Hres|]. subst t.
      eapply Permutation_Forall; [apply heap_Push_perm|]. constructor; [|exact Hpq].
      split.
      + rewrite Hid. intros L' V'. pose proof (valid_at_unique _ _ _ Hv V') as <-. exact Hl.
      + rewrite Hch. apply lvl_ok_kids; assumption.
  Qed.

  Lemma step_lvl : forall st, wf_st st -> lvl_st st ->
    match step st with inl st' => lvl_st st' | inr st' => lvl_st st' end.
  Proof.
    intros (res, pq) Hst Hl. unfold cover_step.
    destruct ((len pq >? 0) && (negb (interior cv) || (len res <? maxCells cv))); [|exact Hl].
    destruct (heap_Pop pq) as [(cand, pq')|] eqn:Epop; [|exact Hl].
    pose proof (heap_Pop_perm _ _ _ Epop) as Pm. destruct Hst as (Hres & Hpq). destruct Hl as (Lres & Lpq). cbn [fst snd] in *.
    pose proof (Permutation_Forall Pm Hpq) as Hpq2. inversion Hpq2 as [|? ? Hcand Hpq']; subst.
    pose proof (Permutation_Forall Pm Lpq) as Lpq2. inversion Lpq2 as [|? ? Lcand Lpq']; subst.
    destruct (interior cv || (s2_CellID_Level (q_id cand) <? minLevel cv) || (q_nch cand =? 1)
              || (len res + len pq' + q_nch cand <=? maxCells cv)) eqn:Econd.
    - pose proof (wf_q_children _ Hcand) as HF. destruct Lcand as (_ & LF).
      assert (Hgen : forall children st0, Forall (fun p => exists Lk, kid_ok (q_id cand) Lk p) children ->
                Forall (fun p => forall Lk, valid_at (fst p) Lk -> lvl_ok Lk) children ->
                lvl_st st0 ->
                lvl_st (fold_left (fun st child =>
                   if negb (interior cv) || (len (fst st) <? maxCells cv)
                   then addCandidate intersects contains cv st child else st) children st0)).
      { induction children as [|(k, t) ch IH]; intros st0 HF0 LF0 Hl0; cbn; [exact Hl0|].
        inversion HF0 as [|? ? (Lk & Vk & Sk & Nk) HF']; subst. inversion LF0 as [|? ? Lk0 LF']; subst. cbn [fst] in *.
        apply IH; [exact HF'|exact LF'|]. destruct (negb (interior cv) || (len (fst st0) <? maxCells cv)); [|exact Hl0].
        eapply addCandidate_lvl; eauto. }
      apply Hgen; try assumption. split; assumption.
    - split; cbn [fst snd]; [|exact Lpq']. apply Forall_app. split; [exact Lres|]. constructor; [|constructor].
      intros L V. destruct Lcand as (Lid & _). split; [apply Lid; exact V|].
      rewrite (level_spec _ _ V) in Econd.
      destruct (Z.ltb_spec L (minLevel cv)); [|lia].
      rewrite orb_true_r in Econd. cbn in Econd. discriminate.
  Qed.

  (** ** Termination: a weight that strictly decreases *)
  Definition W (L : Z) : Z := 65 ^ (31 - L).
  Definition q_weight (q : qcand) : Z := W (s2_CellID_Level (q_id q)).
  Definition mu (st : list Z * list qcand) : Z := fold_right (fun q a => q_weight q + a) 0 (snd st).

  Lemma W_pos : forall L, 0 <= L <= 31 -> 1 <= W L.
  Proof. intros L H. unfold W. pose proof (Z.pow_pos_nonneg 65 (31 - L)). lia. Qed.
  Lemma W_step : forall L, 0 <= L <= 30 -> W L = 65 * W (L + 1).
  Proof.
    intros L H. unfold W. replace (31 - L) with (Z.succ (31 - (L + 1))) by lia.
    rewrite Z.pow_succ_r by lia. reflexivity.
  Qed.
  Lemma W_mono : forall L L', 0 <= L <= L' -> L' <= 31 -> W L' <= W L.
  Proof. intros L L' H H'. unfold W. apply Z.pow_le_mono_r; lia. Qed.

  Definition sumw (pq : list qcand) : Z := fold_right (fun q a => q_weight q + a) 0 pq.
  Lemma sumw_perm : forall p1 p2, Permutation p1 p2 -> sumw p1 = sumw p2.
  Proof. induction 1; unfold sumw in *; cbn [fold_right]; lia. Qed.
  Lemma sumw_nonneg : forall pq, Forall wf_q pq -> 0 <= sumw pq.
  Proof.
    induction 1 as [|q pq (L & Hv & _) _ IH]; [unfold sumw; cbn [fold_right]; lia|]. unfold sumw in IH |- *. cbn [fold_right].
    set (S := fold_right _ 0 pq) in IH |- *.
    unfold q_weight. rewrite (level_spec _ _ Hv).
    assert (HL : 0 <= L <= 31) by (destruct Hv as (HL & _); lia).
    pose proof (W_pos L HL). lia.
  Qed.

  (** adding a candidate at level Lk pushes at most one queue entry, of weight W Lk *)
  Lemma addCandidate_weight : forall st id t L, valid_at id L -> newCand id = Some (id, t) ->
    sumw (snd (addCandidate intersects contains cv st (id, t))) <= sumw (snd st) + W L.
  Proof.
    intros (res, pq) id t L Hv Hn. pose proof (W_pos L ltac:(destruct Hv; lia)).
    destruct (addCandidate_cases res pq id t L Hv Hn) as [(-> & _)|[(-> & _)|(q & -> & Ht & Hid & Hch)]]; cbn [snd]; try lia.
    rewrite <- (sumw_perm _ _ (heap_Push_perm pq q)). unfold sumw. cbn [fold_right]. set (S := fold_right _ 0 pq).
    unfold q_weight. rewrite Hid, (level_spec _ _ Hv). lia.
  Qed.

  Lemma child_fold_weight : forall cell L0 children st,
    Forall (fun p => exists Lk, L0 < Lk /\ kid_ok cell Lk p) children -> 0 <= L0 ->
    sumw (snd (child_fold st children)) <= sumw (snd st) + Z.of_nat (length children) * W (L0 + 1).
  Proof.
    intros cell L0. induction children as [|(k, t) ch IH]; intros st HF HL0; cbn [child_fold fold_left length]; [lia|].
    inversion HF as [|? ? (Lk & HLk & Vk & Sk & Nk) HF']; subst. cbn [fst] in *.
    fold (child_fold (if negb (interior cv) || (len (fst st) <? maxCells cv)
                      then addCandidate intersects contains cv st (k, t) else st) ch).
    eapply Z.le_trans; [apply IH; assumption|].
    assert (HW : W Lk <= W (L0 + 1)) by (apply W_mono; destruct Vk; lia).
    pose proof (W_pos Lk ltac:(destruct Vk; lia)).
    destruct (negb (interior cv) || (len (fst st) <? maxCells cv)).
    - pose proof (addCandidate_weight st k t Lk Vk Nk). lia.
    - lia.
  Qed.

  Lemma step_measure : forall st, wf_st st ->
    match step st with inl st' => sumw (snd st') + 1 <= sumw (snd st) | inr _ => True end.
  Proof.
    intros (res, pq) Hst. unfold cover_step.
    destruct ((len pq >? 0) && (negb (interior cv) || (len res <? maxCells cv))); [|exact I].
    destruct (heap_Pop pq) as [(cand, pq')|] eqn:Epop; [|exact I].
    pose proof (heap_Pop_perm _ _ _ Epop) as Pm. destruct Hst as (Hres & Hpq). cbn [fst snd] in *.
    pose proof (Permutation_Forall Pm Hpq) as Hpq2. inversion Hpq2 as [|? ? Hcand Hpq']; subst.
    rewrite (sumw_perm _ _ Pm). cbn [sumw fold_right]. fold (sumw pq').
    destruct Hcand as (L & Hv & HF & Hlen). unfold q_weight. rewrite (level_spec _ _ Hv).
    pose proof (W_pos L ltac:(destruct Hv; lia)).
    destruct (interior cv || (L <? minLevel cv) || (q_nch cand =? 1) || (len res + len pq' + q_nch cand <=? maxCells cv)).
    - fold (child_fold (res, pq') (q_children cand)).
      pose proof (child_fold_weight (q_id cand) L (q_children cand) (res, pq') HF ltac:(destruct Hv; lia)) as Hw.
      cbn [snd] in Hw. rewrite (W_step L) by (destruct Hv; lia).
      pose proof (W_pos (L + 1) ltac:(destruct Hv; lia)). nia.
    - cbn [snd]. lia.
  Qed.
End Core.
