(** C02. The cos triage (cosDistance, triageCompareCosDistances) against the exact comparison.
    RESULT: [cos_triage_sound_param] — the triage is sound on normalized points ([norm_pt]) for ANY
    pair of error constants with  C95 >= 19/2 u (1 + 250u)  and  C15 >= 3/2 u (1 + 250u).
    The constants of predicates.go (read from the generated code, [cos95], [cos15]) are
    9.5*dblError and 1.5*dblError with dblError = 1.110223024625156e-16 < u = 2^-53: they are BELOW
    even the first-order coefficients 19/2 u and 3/2 u ([cos_const_gap], closed). Since 19/2 u |cos|
    + 3/2 u is exactly the first-order error of the float dot product of vectors normalized to
    | |p|^2 - 1 | <= 8u (8u from the two norms + 3/2 u from the dot product; 3/2 u absolute), the
    second-order terms have no room: H_TRIAGE_COS cannot be derived by error analysis for the
    constants as they are. The missing inequality is  3/2 u (1 + 250u) <= cos15  (and the same
    for cos95); with e.g. dblError := 1.1102230246252e-16 in predicates.go both hold and
    [cos_triage_sound_param] applies verbatim. *)
From Coq Require Import ZArith Reals Floats Lra Lia Bool Psatz.
From Flocq Require Import Core.Core.
From Geo Require Import Base.GoPrim Base.F64 Base.Exact Gen.R3 Gen.S2Pred Model.Pred
  Proofs.C02_Exact Proofs.C02_Float Proofs.C02_RelErr Proofs.C02_TriageReal Proofs.C02_TriageDet
  Proofs.C02_StableReal Proofs.C02_CosReal.
Local Open Scope R_scope.

Notation Rsqrt := R_sqrt.sqrt.

(** * The code with its two constants abstracted *)
Definition cos_with (C95 C15 : PrimFloat.float) (x y : s2_Point) : PrimFloat.float * PrimFloat.float :=
  let c := fdot x y in (c, PrimFloat.add (PrimFloat.mul C95 (PrimFloat.abs c)) C15).
Definition triage_cos_with (C95 C15 : PrimFloat.float) (x a b : s2_Point) : Z :=
  let '(cA, eA) := cos_with C95 C15 a x in
  let '(cB, eB) := cos_with C95 C15 b x in
  let diff := PrimFloat.sub cA cB in
  let err := PrimFloat.add eA eB in
  if PrimFloat.ltb err diff then (-1)%Z else if PrimFloat.ltb diff (PrimFloat.opp err) then 1%Z else 0%Z.

Definition cos_shape : { C95 : PrimFloat.float & { C15 : PrimFloat.float |
  forall x a b, s2_triageCompareCosDistances x a b = triage_cos_with C95 C15 x a b } }.
Proof. eexists. eexists. intros x a b. reflexivity. Defined.
Definition cos95 : PrimFloat.float := projT1 cos_shape.
Definition cos15 : PrimFloat.float := proj1_sig (projT2 cos_shape).
Lemma cos_is x a b : s2_triageCompareCosDistances x a b = triage_cos_with cos95 cos15 x a b.
Proof. exact (proj2_sig (projT2 cos_shape) x a b). Qed.

(** the constants in the source are below the first-order coefficients *)
Lemma cos_const_gap : FR cos95 < 19 / 2 * u /\ FR cos15 < 3 / 2 * u.
Proof.
  assert (H95 : 19 / 2 * u = D2R (Dy 19 (-54))).
  { unfold D2R, u. cbn [dm de]. replace (-54)%Z with (-53 + -1)%Z by lia. rewrite bpow_plus. simpl (bpow radix2 (-1)). lra. }
  assert (H15 : 3 / 2 * u = D2R (Dy 3 (-54))).
  { unfold D2R, u. cbn [dm de]. replace (-54)%Z with (-53 + -1)%Z by lia. rewrite bpow_plus. simpl (bpow radix2 (-1)). lra. }
  rewrite H95, H15, !of_float_correct. split.
  - assert (E : dcmp (of_float cos95) (Dy 19 (-54)) = (-1)%Z) by (vm_compute; reflexivity).
    rewrite dcmp_correct in E. apply sgnR_neg_iff in E. lra.
  - assert (E : dcmp (of_float cos15) (Dy 3 (-54)) = (-1)%Z) by (vm_compute; reflexivity).
    rewrite dcmp_correct in E. apply sgnR_neg_iff in E. lra.
Qed.

(** * One cosine *)
Definition cosR (a x : s2_Point) : R := dotR a x / (Rsqrt (norm2R a) * Rsqrt (norm2R x)).
Definition cos_bound (t : R) : R := 19 / 2 * u * (1 + 100 * u) * t + 3 / 2 * u * (1 + 100 * u).

Lemma u8 : 8 * u = / 2 ^ 50.
Proof. rewrite u_val. lra. Qed.

Lemma sqrt_le_of_sq t T : 0 <= t -> 0 <= T -> t <= T * T -> Rsqrt t <= T.
Proof.
  intros H0 HT H. rewrite <- (sqrt_square T HT). now apply sqrt_le_1_alt.
Qed.

Section OneCos.
  Variables a x : s2_Point.
  Hypothesis Na : norm_pt a.
  Hypothesis Nx : norm_pt x.
  Variables C95 C15 : PrimFloat.float.
  Hypothesis F95 : ffinite C95 = true.
  Hypothesis F15 : ffinite C15 = true.
  Hypothesis H95 : 19 / 2 * u * (1 + 250 * u) <= FR C95 <= 1.
  Hypothesis H15 : 3 / 2 * u * (1 + 250 * u) <= FR C15 <= 1.

  Lemma cos_point :
    let c := fst (cos_with C95 C15 a x) in let e := snd (cos_with C95 C15 a x) in
    ffinite c = true /\ ffinite e = true /\ Rabs (FR c) <= 4 /\ 0 <= FR e <= 100 /\
    Rabs (FR c - cosR a x) <= cos_bound (Rabs (FR c)) /\
    cos_bound (Rabs (FR c)) * (1 + 100 * u) <= FR e.
  Proof.
    pose proof (norm_unit a Na) as Ua. pose proof (norm_unit x Nx) as Ux.
    destruct (unit_coords a Ua) as (Fa1 & Fa2 & Fa3 & Ba1 & Ba2 & Ba3).
    destruct (unit_coords x Ux) as (Fx1 & Fx2 & Fx3 & Bx1 & Bx2 & Bx3).
    destruct Na as [_ Na2]. destruct Nx as [_ Nx2].
    unfold cos_with, cosR, fdot, r3_Vector_Dot. cbv zeta. cbn [fst snd].
    destruct a as [[a1 a2 a3]], x as [[x1 x2 x3]].
    unfold norm2R, dotR, PX, PY, PZ in *. cbn [s2_Point_Vector r3_Vector_X r3_Vector_Y r3_Vector_Z] in *.
    destruct (mul_step a1 x1 _ _ Fa1 Fx1 Ba1 Bx1 ltac:(lra)) as (F1 & N1 & M1).
    destruct (mul_step a2 x2 _ _ Fa2 Fx2 Ba2 Bx2 ltac:(lra)) as (F2 & N2 & M2).
    destruct (mul_step a3 x3 _ _ Fa3 Fx3 Ba3 Bx3 ltac:(lra)) as (F3 & N3' & M3).
    destruct (add_step _ _ _ _ F1 F2 M1 M2 ltac:(lra)) as (Fs & Ns & Ms).
    destruct (add_step _ _ _ _ Fs F3 Ms M3 ltac:(lra)) as (Fc & Nc & Mc).
    set (fc := (a1 * x1 + a2 * x2 + a3 * x3)%float) in *.
    set (A2 := FR a1 * FR a1 + FR a2 * FR a2 + FR a3 * FR a3) in *.
    set (X2 := FR x1 * FR x1 + FR x2 * FR x2 + FR x3 * FR x3) in *.
    pose proof u_small as [U0 U1]. pose proof u_tiny as Ut. destruct eta_bounds as [Et0 Et1].
    pose proof u8 as U8. rewrite <- U8 in Na2, Nx2. apply Rabs_le_inv in Na2, Nx2.
    set (nu := Rsqrt A2 * Rsqrt X2).
    assert (A2p : 0 <= A2) by lra. assert (X2p : 0 <= X2) by lra.
    assert (Enu : nu = Rsqrt (A2 * X2)) by (unfold nu; symmetry; apply sqrt_mult; assumption).
    assert (nunu : nu * nu = A2 * X2).
    { rewrite Enu. apply sqrt_sqrt. apply Rmult_le_pos; assumption. }
    assert (PL : (1 - 8 * u) * (1 - 8 * u) <= A2 * X2) by (apply Rmult_le_compat; lra).
    assert (PU : A2 * X2 <= (1 + 8 * u) * (1 + 8 * u)) by (apply Rmult_le_compat; lra).
    assert (Hnu : Rabs (nu - 1) <= 8 * u).
    { apply Rabs_le. split.
      - assert (1 - 8 * u <= nu) by (rewrite Enu; apply sqrt_ge_of_sq; lra). lra.
      - assert (nu <= 1 + 8 * u) by (rewrite Enu; apply sqrt_le_of_sq; try lra; apply Rmult_le_pos; assumption). lra. }
    assert (nu0 : 0 <= nu) by (apply Rabs_le_inv in Hnu; lra).
    (* Cauchy-Schwarz *)
    assert (CS : Rabs (FR a1) * Rabs (FR x1) + Rabs (FR a2) * Rabs (FR x2) + Rabs (FR a3) * Rabs (FR x3) <= nu).
    { apply (abs_dot_le (FR a1) (FR a2) (FR a3) (FR x1) (FR x2) (FR x3) A2 X2 nu); try lra.
      - unfold A2. right. ring.
      - unfold X2. right. ring. }
    rewrite <- !Rabs_mult in CS.
    assert (nu2 : nu <= 2) by (apply Rabs_le_inv in Hnu; lra).
    pose proof (dot3_half u eta U0 Ut Et0 Et1 _ _ _ _ _ _ _ _ nu CS nu2 N1 N2 N3' Ns Nc) as HD.
    set (d := FR a1 * FR x1 + FR a2 * FR x2 + FR a3 * FR x3) in *.
    assert (Hd : Rabs d <= nu).
    { eapply Rle_trans; [|exact CS]. unfold d.
      pose proof (Rabs_triang (FR a1 * FR x1 + FR a2 * FR x2) (FR a3 * FR x3)).
      pose proof (Rabs_triang (FR a1 * FR x1) (FR a2 * FR x2)). lra. }
    pose proof (cos_err u eta U0 Ut Et0 Et1 d nu (FR fc) Hnu Hd HD) as HC.
    fold (cos_bound (Rabs (FR fc))) in HC.
    (* the error term *)
    destruct (fabs_fin fc Fc) as (Fab & Eab).
    pose proof (Rabs_le_inv _ _ Hnu) as Hnu'.
    assert (Bab : Rabs (FR (PrimFloat.abs fc)) <= 2).
    { rewrite Eab, Rabs_Rabsolu.
      assert (Rabs (FR fc) <= Rabs d + Rabs (FR fc - d)).
      { replace (FR fc) with (d + (FR fc - d)) at 1 by ring. apply Rabs_triang. }
      assert (u * nu <= u * 2) by (apply Rmult_le_compat_l; lra).
      assert (u * Rabs d <= u * 2) by (apply Rmult_le_compat_l; lra).
      assert (u * u <= u) by nra. lra. }
    assert (B95 : Rabs (FR C95) <= 1) by (apply Rabs_le; nra).
    assert (B15 : Rabs (FR C15) <= 1) by (apply Rabs_le; nra).
    destruct (mul_step C95 _ _ _ F95 Fab B95 Bab ltac:(lra)) as (Fm & Nm & Mm).
    destruct (add_step _ _ _ _ Fm F15 Mm B15 ltac:(lra)) as (Fe & Ne & Me).
    rewrite Eab in Nm.
    assert (ac0 : 0 <= Rabs (FR fc)) by apply Rabs_pos.
    assert (ac2 : Rabs (FR fc) <= 2) by (rewrite Eab, Rabs_Rabsolu in Bab; exact Bab).
    pose proof (err_lower u eta U0 Ut Et0 Et1 (FR C95) (FR C15) (Rabs (FR fc)) _ _ ac0 ac2
      (proj1 H95) (proj2 H95) (proj1 H15) (proj2 H15) Nm Ne) as HE.
    fold (cos_bound (Rabs (FR fc))) in HE.
    split; [exact Fc|]. split; [exact Fe|]. split; [lra|]. split.
    { split.
      - eapply Rle_trans; [|exact HE]. unfold cos_bound. nra.
      - apply Rabs_le_inv in Me. lra. }
    split; [|exact HE].
    replace (FR a1 * FR x1 + FR a2 * FR x2 + FR a3 * FR x3) with d by reflexivity.
    exact HC.
  Qed.
End OneCos.

(** * The triage with adequate constants is sound *)
Theorem cos_triage_sound_param (C95 C15 : PrimFloat.float) :
  ffinite C95 = true -> ffinite C15 = true ->
  19 / 2 * u * (1 + 250 * u) <= FR C95 <= 1 -> 3 / 2 * u * (1 + 250 * u) <= FR C15 <= 1 ->
  forall x a b, norm_pt x -> norm_pt a -> norm_pt b ->
  triage_cos_with C95 C15 x a b <> 0%Z -> triage_cos_with C95 C15 x a b = cmp_distances_R x a b.
Proof.
  intros F95 F15 H95 H15 x a b Nx Na Nb.
  pose proof (cos_point a x Na Nx C95 C15 F95 F15 H95 H15) as PA.
  pose proof (cos_point b x Nb Nx C95 C15 F95 F15 H95 H15) as PB.
  unfold triage_cos_with.
  destruct (cos_with C95 C15 a x) as [cA eA]. destruct (cos_with C95 C15 b x) as [cB eB].
  cbv zeta in PA, PB. cbn [fst snd] in PA, PB. cbv zeta.
  destruct PA as (FcA & FeA & BcA & BeA & EA & LA). destruct PB as (FcB & FeB & BcB & BeB & EB & LB).
  pose proof u_small as [U0 U1]. pose proof u_tiny as Ut. destruct eta_bounds as [Et0 Et1].
  set (BA := cos_bound (Rabs (FR cA))) in *. set (BB := cos_bound (Rabs (FR cB))) in *.
  assert (uu0 : 0 <= u * u) by (apply Rmult_le_pos; lra).
  assert (BA3 : 3 / 2 * u <= BA).
  { unfold BA, cos_bound. pose proof (Rabs_pos (FR cA)).
    assert (0 <= 19 / 2 * u * (1 + 100 * u) * Rabs (FR cA)) by (apply Rmult_le_pos; [nra|lra]). nra. }
  assert (BB3 : 3 / 2 * u <= BB).
  { unfold BB, cos_bound. pose proof (Rabs_pos (FR cB)).
    assert (0 <= 19 / 2 * u * (1 + 100 * u) * Rabs (FR cB)) by (apply Rmult_le_pos; [nra|lra]). nra. }
  (* diff and err *)
  destruct (fsub_rnd cA cB FcA FcB) as (Fd & Ed).
  { apply ok1000. unfold Rminus. eapply Rle_trans; [apply Rabs_triang|]. rewrite Rabs_Ropp. lra. }
  assert (BeA' : Rabs (FR eA) <= 100) by (apply Rabs_le; lra).
  assert (BeB' : Rabs (FR eB) <= 100) by (apply Rabs_le; lra).
  destruct (add_step eA eB _ _ FeA FeB BeA' BeB' ltac:(lra)) as (Fe & Ne & _).
  assert (eS0 : 0 <= FR eA + FR eB) by lra.
  unfold near in Ne. rewrite (Rabs_pos_eq _ eS0) in Ne. apply Rabs_le_inv in Ne.
  set (S_ := BA + BB) in *.
  assert (S3 : 3 * u <= S_) by (unfold S_; lra).
  assert (Lerr : S_ <= FR (eA + eB)%float).
  { assert (H1 : S_ * (1 + 100 * u) <= FR eA + FR eB).
    { unfold S_. rewrite Rmult_plus_distr_r. lra. }
    assert (H2 : S_ * (1 + 100 * u) * (1 - u) <= (FR eA + FR eB) * (1 - u)) by (apply Rmult_le_compat_r; lra).
    replace (S_ * (1 + 100 * u) * (1 - u)) with (S_ + 99 * (u * S_) - 100 * (u * u * S_)) in H2 by ring.
    assert (uS : 3 * (u * u) <= u * S_).
    { replace (3 * (u * u)) with (u * (3 * u)) by ring. apply Rmult_le_compat_l; lra. }
    assert (uuS : u * u * S_ <= / 1000000 * (u * S_)).
    { replace (u * u * S_) with (u * (u * S_)) by ring. apply Rmult_le_compat_r; [apply Rmult_le_pos; lra|lra]. }
    lra. }
  destruct (ffinite_rank _ Fe) as [_ Re]. destruct (ffinite_rank _ Fd) as [_ Rd].
  destruct (fopp_fin _ Fe) as (Foe & Eoe). destruct (ffinite_rank _ Foe) as [_ Roe].
  apply Rabs_le_inv in EA, EB.
  (* sign of the exact quantity *)
  pose proof (norm_norm_pos a Na) as na0. pose proof (norm_norm_pos b Nb) as nb0. pose proof (norm_norm_pos x Nx) as nx0.
  pose proof (sqrt_lt_R0 _ na0) as sa0. pose proof (sqrt_lt_R0 _ nb0) as sb0. pose proof (sqrt_lt_R0 _ nx0) as sx0.
  assert (Ecmp : dotR x b * Rsqrt (norm2R a) - dotR x a * Rsqrt (norm2R b)
               = Rsqrt (norm2R a) * Rsqrt (norm2R b) * Rsqrt (norm2R x) * (cosR b x - cosR a x)).
  { unfold cosR. replace (dotR x b) with (dotR b x) by (unfold dotR; ring).
    replace (dotR x a) with (dotR a x) by (unfold dotR; ring). field. lra. }
  assert (Ppos : 0 < Rsqrt (norm2R a) * Rsqrt (norm2R b) * Rsqrt (norm2R x)).
  { apply Rmult_lt_0_compat; [apply Rmult_lt_0_compat|]; assumption. }
  unfold cmp_distances_R. rewrite Ecmp.
  destruct (PrimFloat.ltb (eA + eB) (cA - cB)) eqn:L1.
  - intros _. apply ltb_true_R in L1. rewrite Re, Rd, Ed in L1.
    apply rnd_gt_inv in L1; [|apply FR_generic].
    symmetry. apply sgnR_neg.
    assert (cosR b x - cosR a x < 0) by (unfold S_ in *; lra).
    replace 0 with (Rsqrt (norm2R a) * Rsqrt (norm2R b) * Rsqrt (norm2R x) * 0) by ring.
    apply Rmult_lt_compat_l; assumption.
  - destruct (PrimFloat.ltb (cA - cB) (- (eA + eB))) eqn:L2; [|intros H; exfalso; apply H; reflexivity].
    intros _. apply ltb_true_R in L2. rewrite Roe, Rd, Ed, Eoe in L2.
    apply rnd_lt_inv in L2; [|rewrite <- Eoe; apply FR_generic].
    symmetry. apply sgnR_pos.
    assert (0 < cosR b x - cosR a x) by (unfold S_ in *; lra).
    apply Rmult_lt_0_compat; assumption.
Qed.

(** * What this means for the code as it is *)
Definition cos_consts_adequate : Prop :=
  19 / 2 * u * (1 + 250 * u) <= FR cos95 /\ 3 / 2 * u * (1 + 250 * u) <= FR cos15.

Lemma cos_consts_fin : ffinite cos95 = true /\ ffinite cos15 = true /\ FR cos95 <= 1 /\ FR cos15 <= 1.
Proof.
  split; [vm_compute; reflexivity|]. split; [vm_compute; reflexivity|].
  destruct cos_const_gap as [G1 G2]. pose proof u_small. lra.
Qed.

(** H_TRIAGE_COS is a THEOREM as soon as the two constants have a relative margin of 250 u = 2.8e-14 *)
Theorem H_TRIAGE_COS_from_consts : cos_consts_adequate -> H_TRIAGE_COS.
Proof.
  intros [A95 A15] x a b Nx Na Nb. rewrite cos_is.
  destruct cos_consts_fin as (F95 & F15 & L95 & L15).
  apply cos_triage_sound_param; auto.
Qed.

(** ... which the source constants do not have (dblError = 1.110223024625156e-16 < 2^-53) *)
Theorem cos_consts_not_adequate : ~ cos_consts_adequate.
Proof.
  intros [_ A15]. destruct cos_const_gap as [_ G]. pose proof u_small as [U0 _].
  assert (0 <= u * u) by (apply Rmult_le_pos; lra). lra.
Qed.
