(** C19, s1.Interval (Intersection). See Proofs/C19_S1.v for the specification side. *)
From Coq Require Import ZArith Reals Floats Lra Bool List.
From Flocq Require Import Core.Core IEEE754.BinarySingleNaN IEEE754.PrimFloat.
From Geo Require Import Base.GoPrim Base.F64 Gen.S1 Proofs.C19_S1.
Local Open Scope R_scope.

(** * Intersection: contains every common point, and nothing outside both operands.
    (When the operands overlap at both ends the common points are two arcs; the code then
    returns the shorter operand — see [s1_intersection_not_exact].) *)
Lemma s1_intersection_valid a b : valid_s1 a -> valid_s1 b -> valid_s1 (s1_Interval_Intersection a b).
Proof.
  open2 a b. s1_unfold. if_reflect; finish.
Qed.

Lemma s1_intersection_complete a b x : valid_s1 a -> valid_s1 b -> inrange x ->
  mem_s1 a x -> mem_s1 b x -> mem_s1 (s1_Interval_Intersection a b) x.
Proof.
  open2 a b. intros Hx. norm_point x Hx. intros Hm1 Hm2. s1_unfold. if_reflect; finish.
Qed.

Lemma s1_intersection_within a b x : valid_s1 a -> valid_s1 b -> inrange x ->
  mem_s1 (s1_Interval_Intersection a b) x -> mem_s1 a x \/ mem_s1 b x.
Proof.
  open2 a b. intros Hx. norm_point x Hx. s1_unfold. if_reflect; intros Hm; finish.
Qed.

Lemma s1_intersection_not_exact : exists a b p,
  s1_Interval_IsValid a = true /\ s1_Interval_IsValid b = true /\
  s1_Interval_Contains (s1_Interval_Intersection a b) p = true /\
  s1_Interval_Contains b p = false.
Proof.
  exists (mk_s1_Interval (-2)%float 2%float), (mk_s1_Interval 1%float (-1)%float), 0%float.
  vm_compute. repeat split; reflexivity.
Qed.

Lemma s1_intersection_exact_unless_two_arcs a b x : valid_s1 a -> valid_s1 b -> inrange x ->
  ~ (mem_s1f a (s1_Interval_Lo b) /\ mem_s1f a (s1_Interval_Hi b)) ->
  (mem_s1 (s1_Interval_Intersection a b) x <-> mem_s1 a x /\ mem_s1 b x).
Proof.
  intros Ha Hb Hx Hno.
  split; [|intros [? ?]; apply s1_intersection_complete; assumption].
  assert (F : s1_Interval_fastContains a (s1_Interval_Lo b) = false \/ s1_Interval_fastContains a (s1_Interval_Hi b) = false \/ s1_Interval_IsEmpty b = true).
  { destruct (s1_Interval_IsEmpty b) eqn:Eb; [auto|].
    destruct (s1_Interval_fastContains a (s1_Interval_Lo b)) eqn:F1; [|auto].
    destruct (s1_Interval_fastContains a (s1_Interval_Hi b)) eqn:F2; [|auto].
    exfalso. apply Hno. unfold mem_s1f, mem_s1.
    destruct b as [bl bh]. cbn [s1_Interval_Lo s1_Interval_Hi] in *.
    assert (Nl : nonnan bl) by apply Hb. assert (Nh : nonnan bh) by apply Hb.
    apply fastContains_iff in F1; auto. apply fastContains_iff in F2; auto.
    destruct a as [al ah]. open_valid. s1_unfold. reflectR Eb. cbn [s1_Interval_Lo s1_Interval_Hi] in *.
    unfold memR in *.
    destruct (normR_cases (rank bl)) as [[? ->]|[? ->]];
    destruct (normR_cases (rank bh)) as [[? ->]|[? ->]]; lra. }
  clear Hno. revert Ha Hb F. open2 a b. intros F. norm_point x Hx. s1_unfold.
  if_reflect; intros Hm; finish.
Qed.

