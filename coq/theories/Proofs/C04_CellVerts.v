(** C04 — the tiling sentence, [P] part: the loops LoopFromCell builds for cells that meet at a
    corner use bit-identical vertices.  [s2_Cell_Vertex] is the translation of Cell.Vertex
    regenerated from /repo on every run: it reads only the face and the uv rectangle. *)
From Coq Require Import ZArith List Bool Floats.
From Geo Require Import Base.GoPrim Gen.C04Cell.
Import ListNotations.
Local Open Scope Z_scope.

(* the vertex list LoopFromCell gives to the loop *)
Definition loop_from_cell_vertices (c : s2_Cell) : list s2_Point :=
  [s2_Cell_Vertex c 0; s2_Cell_Vertex c 1; s2_Cell_Vertex c 2; s2_Cell_Vertex c 3].

Definition uv_vertex (c : s2_Cell) (k : Z) : r2_Point :=
  nthZ (r2_Rect_Vertices (s2_Cell_uv c)) k (mk_r2_Point 0%float 0%float).

(** Cell.Vertex depends on (face, u, v) only — not on level, orientation or id — so two cells
    of one face whose uv rectangles share a corner (same two floats) get the same point,
    bit for bit. *)
Lemma vertex_function_of_face_uv : forall c1 c2 k1 k2,
  s2_Cell_face c1 = s2_Cell_face c2 -> uv_vertex c1 k1 = uv_vertex c2 k2 ->
  s2_Cell_Vertex c1 k1 = s2_Cell_Vertex c2 k2.
Proof.
  intros c1 c2 k1 k2 Hf Huv. unfold s2_Cell_Vertex, s2_Cell_VertexRaw.
  fold (uv_vertex c1 k1). fold (uv_vertex c2 k2). rewrite Hf, Huv. reflexivity.
Qed.

Definition cell_on (face : Z) (ulo uhi vlo vhi : float) (level orientation id : Z) : s2_Cell :=
  mk_s2_Cell face level orientation id (mk_r2_Rect (mk_r1_Interval ulo uhi) (mk_r1_Interval vlo vhi)).

(** The four cells around an interior corner (u1,v1) of a face — whatever their levels,
    orientations and ids — : the upper-right vertex of the lower-left cell, the upper-left of
    the lower-right, the lower-left of the upper-right and the lower-right of the upper-left
    are one and the same point. *)
Theorem cell_loops_share_vertices_same_face :
  forall face u0 u1 u2 v0 v1 v2 l1 o1 i1 l2 o2 i2 l3 o3 i3 l4 o4 i4,
    let ll := cell_on face u0 u1 v0 v1 l1 o1 i1 in
    let lr := cell_on face u1 u2 v0 v1 l2 o2 i2 in
    let ur := cell_on face u1 u2 v1 v2 l3 o3 i3 in
    let ul := cell_on face u0 u1 v1 v2 l4 o4 i4 in
    nth 2 (loop_from_cell_vertices ll) (s2_Cell_Vertex ll 0) = nth 3 (loop_from_cell_vertices lr) (s2_Cell_Vertex lr 0)
    /\ nth 3 (loop_from_cell_vertices lr) (s2_Cell_Vertex lr 0) = nth 0 (loop_from_cell_vertices ur) (s2_Cell_Vertex ur 0)
    /\ nth 0 (loop_from_cell_vertices ur) (s2_Cell_Vertex ur 0) = nth 1 (loop_from_cell_vertices ul) (s2_Cell_Vertex ul 0).
Proof.
  intros. cbn [nth loop_from_cell_vertices].
  repeat split; apply vertex_function_of_face_uv; reflexivity.
Qed.

(** and the two cells on either side of an edge share both of its endpoints *)
Theorem cell_loops_share_edge_same_face :
  forall face u0 u1 u2 v0 v1 l1 o1 i1 l2 o2 i2,
    let a := cell_on face u0 u1 v0 v1 l1 o1 i1 in
    let b := cell_on face u1 u2 v0 v1 l2 o2 i2 in
    s2_Cell_Vertex a 1 = s2_Cell_Vertex b 0 /\ s2_Cell_Vertex a 2 = s2_Cell_Vertex b 3.
Proof. intros. split; apply vertex_function_of_face_uv; reflexivity. Qed.
