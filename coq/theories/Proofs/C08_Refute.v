(** C08 — witnesses (by computation) that the UNREPAIRED variants of the code violate the
    property, and a concrete instance on which the repaired model agrees with brute force. *)
From Coq Require Import ZArith List Bool Lia.
From Geo Require Import Model.EdgeQuery.
Import ListNotations.
Local Open Scope Z_scope.

(** integer distances; [sub] clamped at zero as s1.ChordAngle.Sub (and the identity below zero) *)
Definition zops : dist_ops Z := mkOps Z Z.ltb (fun a b => Z.min a (Z.max 0 (a - b))) 0 (10 ^ 9) Z.eqb 0.
(** the distance arithmetic before bd38ae9: raw subtraction *)
Definition zops_raw : dist_ops Z := mkOps Z Z.ltb Z.sub 0 (10 ^ 9) Z.eqb 0.

Definition exact_target (edist : eid -> Z) (cdist : Z -> Z) (uses : bool) (maxbrute : Z) : target Z :=
  mkTarget (fun e lim => if edist e <? lim then Some (edist e) else None)
           (fun c lim => if cdist c <? lim then Some (cdist c) else None)
           uses maxbrute [] false 1 (fun _ => []).

(** two level-1 cells of face 0 with one edge each *)
Definition idx2 : index := mkIndex [(2 ^ 58, [(0, 0)]); (3 * 2 ^ 58, [(0, 1)])] [(0, 2)].
Definition dist2 (e : eid) : Z := if snd e =? 0 then 5 else 7.
Definition opts_err : options Z := mkOptions 2 (10 ^ 9) 1 true false.   (* MaxResults 2, MaxError 1 *)

(** F4 (repaired by 11e5dc5): with duplicate avoidance on, the inverted testedEdges test
    skips every edge — zero results although both edges qualify. *)
Theorem opt_old_refuted : exists (o : options Z) (t : target Z) (x : index),
  find_edges zops o t x true false = [] /\
  find_edges zops o t x false false = [mkR 5 0 0; mkR 7 0 1] /\
  used_optimized zops o t x false false = true.
Proof.
  exists opts_err, (exact_target dist2 (fun _ => 0) true 0), idx2.
  vm_compute. repeat split.
Qed.

(** a8394b9: with the stray [break] in initCovering an index spanning three faces loses
    every cell after the first top-level cell *)
Definition idx3 : index :=
  mkIndex [(2 ^ 60, [(0, 0)]); (3 * 2 ^ 60, [(0, 1)]); (5 * 2 ^ 60, [(0, 2)])] [(0, 3)].
Theorem init_covering_old_refuted : exists (o : options Z) (t : target Z) (x : index),
  map fst (init_covering x true) = [2 ^ 60; 3 * 2 ^ 60] /\
  map fst (init_covering x false) = [2 ^ 60; 3 * 2 ^ 60; 5 * 2 ^ 60] /\
  length (find_edges zops o t x false true) = 1%nat /\
  length (find_edges zops o t x false false) = 3%nat /\
  length (find_edges zops (mkOptions (o_max_results o) (o_limit o) (o_max_error o) (o_interiors o) true) t x false true) = 3%nat.
Proof.
  exists (mkOptions 100 (10 ^ 9) 0 true false), (exact_target (fun e => 3 + snd e) (fun _ => 0) false 0), idx3.
  vm_compute. repeat split.
Qed.

(** 1a52cec (antipodal cap of the closest-edge index target): when the initial cells do not
    cover the index cells within the limit — the premise [CoverSound] fails — results are lost *)
Theorem cover_unsound_refuted : exists (o : options Z) (t : target Z) (x : index),
  find_edges zops o t x false false = [] /\
  length (find_edges zops (mkOptions (o_max_results o) (o_limit o) (o_max_error o) (o_interiors o) true) t x false false) = 2%nat.
Proof.
  (* finite limit 100; the search cap's covering is (wrongly) on face 3, disjoint from the index *)
  exists (mkOptions 100 100 0 true false),
         (mkTarget (fun e lim => if dist2 e <? lim then Some (dist2 e) else None)
                   (fun c lim => if 0 <? lim then Some 0 else None) false 0 [] false 1 (fun _ => [])),
         idx2.
  vm_compute. repeat split.
Qed.

(** bd38ae9: an edge target answers updateDistanceToEdge(crossing edge, limit) with
    (limit, true) whenever limit <> 0; with raw subtraction the limit after the first zero
    result is negative and the next crossing edge is reported at a NEGATIVE distance *)
Definition crossing_target : target Z :=
  mkTarget (fun e lim => if lim =? 0 then None else Some (if 0 <? lim then 0 else lim))
           (fun c lim => if 0 <? lim then Some 0 else None) false 100 [] false 1 (fun _ => []).
Theorem sub_unclamped_refuted : exists (o : options Z) (x : index),
  find_edges zops_raw o crossing_target x false false = [mkR (-3) 0 1] /\
  find_edges zops o crossing_target x false false = [mkR 0 0 0].
Proof.
  exists (mkOptions 1 (10 ^ 9) 3 true false), idx2. vm_compute. repeat split.
Qed.

(** on the same data the repaired model's optimized path agrees with brute force *)
Example opt_agrees_on_witnesses :
  find_edges zops opts_err (exact_target dist2 (fun _ => 0) true 0) idx2 false false =
  find_edges zops (mkOptions 2 (10 ^ 9) 1 true true) (exact_target dist2 (fun _ => 0) true 0) idx2 false false.
Proof. vm_compute. reflexivity. Qed.
