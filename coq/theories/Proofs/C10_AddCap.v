(** C10 — Cap.AddCap really rounds the radius up: the new radius is strictly above the
    float sum dist = ChordAngleBetweenPoints + other.radius whenever 2^-1000 <= dist < 4. *)
From Coq Require Import ZArith Reals Floats Lra Lia Bool Psatz.
From Flocq Require Import Core.Core IEEE754.BinarySingleNaN IEEE754.PrimFloat.
From Geo Require Import Base.GoPrim Base.F64 Base.F64Arith Gen.S1 Gen.S2Cap.
Local Open Scope R_scope.

Lemma RV_2m52 : RV (0x1p-52)%float = bpow radix2 (-52).
Proof. rewrite (lit_RV (0x1p-52)%float _ _ _ eq_refl). unfold F2R. simpl.
  repeat match goal with
  | |- context [Z.pow_pos ?a ?b] =>
      let v := eval vm_compute in (Z.pow_pos a b) in change (Z.pow_pos a b) with v
  end. lra. Qed.
Lemma RV_2m1000 : RV (0x1p-1000)%float = bpow radix2 (-1000).
Proof. rewrite (lit_RV (0x1p-1000)%float _ _ _ eq_refl). unfold F2R. simpl.
  repeat match goal with
  | |- context [Z.pow_pos ?a ?b] =>
      let v := eval vm_compute in (Z.pow_pos a b) in change (Z.pow_pos a b) with v
  end. lra. Qed.
Lemma RV_4 : RV (0x1p+2)%float = 4.
Proof. lit_value. Qed.
Lemma fin_2m52 : fin (0x1p-52)%float. Proof. exact (lit_fin (0x1p-52)%float _ _ _ eq_refl). Qed.
Lemma fin_2m1000 : fin (0x1p-1000)%float. Proof. exact (lit_fin (0x1p-1000)%float _ _ _ eq_refl). Qed.
Lemma fin_4 : fin (0x1p+2)%float. Proof. exact (lit_fin (0x1p+2)%float _ _ _ eq_refl). Qed.

(** the two comparisons already force a finite (non-NaN, non-infinite) value *)
Lemma range_fin d : PrimFloat.leb (0x1p-1000)%float d = true -> PrimFloat.ltb d (0x1p+2)%float = true -> fin d.
Proof.
  unfold fin. rewrite leb_equiv, ltb_equiv.
  destruct (Prim2B d) as [s|s| |s m e H]; try reflexivity.
  - destruct s; vm_compute; congruence.
  - vm_compute; congruence.
Qed.

(** real-number core: for a representable x in [2^-1000, 4), rounding x + rnd(2^-52 x) lands on
    at least succ x = x + ulp x, hence strictly above x. *)
Lemma ulp_le_scaled x : repr x -> bpow radix2 (-1000) <= x ->
  repr (ulp radix2 fexp64 x) /\ 0 < ulp radix2 fexp64 x <= bpow radix2 (-52) * x.
Proof.
  intros Fx Hx.
  assert (P1000 : 0 < bpow radix2 (-1000)) by apply bpow_gt_0.
  assert (Hx0 : x <> 0) by lra.
  assert (Hmag : (-999 <= mag radix2 x)%Z).
  { replace (-999)%Z with (mag radix2 (bpow radix2 (-1000)) : Z) by (rewrite mag_bpow; reflexivity).
    apply mag_le; lra. }
  rewrite ulp_neq_0 by exact Hx0. unfold cexp.
  assert (E : fexp64 (mag radix2 x) = (mag radix2 x - 53)%Z).
  { unfold SpecFloat.fexp, SpecFloat.emin, prec, emax. lia. }
  rewrite E. split; [|split].
  - apply generic_format_bpow. unfold SpecFloat.fexp, SpecFloat.emin, prec, emax. lia.
  - apply bpow_gt_0.
  - replace (mag radix2 x - 53)%Z with (-52 + (mag radix2 x - 1))%Z by lia.
    rewrite bpow_plus. apply Rmult_le_compat_l; [apply bpow_ge_0|].
    pose proof (bpow_mag_le radix2 x Hx0) as B. rewrite Rabs_pos_eq in B by lra. exact B.
Qed.

Lemma rnd_sum_strict x : repr x -> bpow radix2 (-1000) <= x ->
  x < rnd (x + rnd (bpow radix2 (-52) * x)).
Proof.
  intros Fx Hx. destruct (ulp_le_scaled x Fx Hx) as [Fu [Pu Lu]].
  assert (P1000 : 0 < bpow radix2 (-1000)) by apply bpow_gt_0.
  assert (M : ulp radix2 fexp64 x <= rnd (bpow radix2 (-52) * x)).
  { rewrite <- (rnd_repr _ Fu) at 1. apply rnd_le. exact Lu. }
  assert (S : repr (x + ulp radix2 fexp64 x)).
  { rewrite <- succ_eq_pos by lra. apply generic_format_succ; auto with typeclass_instances. }
  apply Rlt_le_trans with (x + ulp radix2 fexp64 x); [lra|].
  rewrite <- (rnd_repr _ S) at 1. apply rnd_le. lra.
Qed.

(** the float-level statement *)
Lemma chordangle_roundup_strict : forall d : PrimFloat.float,
  PrimFloat.leb (0x1p-1000)%float d = true -> PrimFloat.ltb d (0x1p+2)%float = true ->
  PrimFloat.ltb d (s1_ChordAngle_Expanded d (PrimFloat.mul (0x1p-52)%float d)) = true.
Proof.
  intros d Hlo Hhi.
  pose proof (range_fin d Hlo Hhi) as Fd.
  pose proof (fin_nonnan d Fd) as Nd.
  pose proof (fin_nonnan _ fin_2m1000) as N1. pose proof (fin_nonnan _ fin_4) as N4.
  apply (proj1 (leb_true_iff _ _ N1 Nd)) in Hlo. apply (proj1 (ltb_true_iff _ _ Nd N4)) in Hhi.
  rewrite (rank_fin _ fin_2m1000), (rank_fin d Fd), RV_2m1000 in Hlo.
  rewrite (rank_fin _ fin_4), (rank_fin d Fd), RV_4 in Hhi.
  assert (P1000 : 0 < bpow radix2 (-1000)) by apply bpow_gt_0.
  assert (P52 : 0 < bpow radix2 (-52)) by apply bpow_gt_0.
  assert (L52 : bpow radix2 (-52) <= 1) by (change 1 with (bpow radix2 0); apply bpow_le; lia).
  assert (OK8 : okbound (IZR 8)) by (apply okbound_IZR; lia).
  assert (B1 : Rabs (RV (0x1p-52)%float * RV d) <= IZR 8).
  { rewrite RV_2m52. apply Rabs_le. split; nra. }
  destruct (mul_fin _ d fin_2m52 Fd (below_top _ _ OK8 B1)) as [Fm Em].
  assert (Bm : Rabs (RV (PrimFloat.mul (0x1p-52)%float d)) <= IZR 4).
  { rewrite Em. apply rnd_bounded; [apply repr_IZR; lia|]. rewrite RV_2m52. apply Rabs_le. split; nra. }
  apply Rabs_le_inv in Bm.
  assert (B2 : Rabs (RV d + RV (PrimFloat.mul (0x1p-52)%float d)) <= IZR 8).
  { apply Rabs_le. split; lra. }
  destruct (add_fin d _ Fd Fm (below_top _ _ OK8 B2)) as [Fs Es].
  pose proof (rnd_sum_strict (RV d) (repr_RV d) Hlo) as Hs.
  rewrite <- RV_2m52, <- Em, <- Es in Hs.
  set (s := PrimFloat.add d (PrimFloat.mul (0x1p-52)%float d)) in *.
  pose proof (fin_nonnan s Fs) as Ns.
  pose proof (fin_nonnan _ zero_fin) as N0.
  unfold s1_ChordAngle_Expanded, s1_ChordAngle_isSpecial, s1_ChordAngle_IsInfinity, go_isinf.
  assert (E0 : PrimFloat.ltb d (0x0p+00)%float = false).
  { apply (proj2 (ltb_false_iff _ _ Nd N0)). rewrite (rank_fin _ zero_fin), (rank_fin d Fd), zero_RV. lra. }
  assert (E1 : PrimFloat.eqb d infinity = false).
  { apply (proj2 (eqb_false_iff _ _ Nd nonnan_infinity)). rewrite rank_infinity, (rank_fin d Fd).
    pose proof (RV_lt_top d) as T. apply Rabs_lt_inv in T. unfold top. lra. }
  rewrite E0, E1. cbn [orb andb Z.leb Z.compare]. fold s.
  destruct (go_fmin_rank (0x1p+2)%float s N4 Ns) as [Nmin Rmin_].
  destruct (go_fmax_rank (0x0p+00)%float _ N0 Nmin) as [Nmax Rmax_].
  apply (proj2 (ltb_true_iff _ _ Nd Nmax)).
  rewrite Rmax_, Rmin_, (rank_fin d Fd), (rank_fin _ fin_4), (rank_fin s Fs), RV_4.
  apply Rlt_le_trans with (Rmin 4 (RV s)); [|apply Rmax_r].
  apply Rmin_glb_lt; lra.
Qed.

Lemma ltb_true_nonnan_r x y : PrimFloat.ltb x y = true -> nonnan y.
Proof.
  intros H. unfold nonnan. rewrite go_isnan_equiv. rewrite ltb_equiv in H.
  destruct (Prim2B y); try reflexivity. destruct (Prim2B x); discriminate.
Qed.

(** Cap.AddCap: the resulting radius is strictly above the float sum dist. *)
Lemma addcap_radius_strictly_above_sum : forall a b : s2_Cap,
  s2_Cap_IsEmpty a = false -> s2_Cap_IsEmpty b = false -> nonnan (s2_Cap_radius a) ->
  let dist := s1_ChordAngle_Add (s2_ChordAngleBetweenPoints (s2_Cap_center a) (s2_Cap_center b))
                (s2_Cap_radius b) in
  PrimFloat.leb (0x1p-1000)%float dist = true -> PrimFloat.ltb dist (0x1p+2)%float = true ->
  PrimFloat.ltb dist (s2_Cap_radius (s2_Cap_AddCap a b)) = true.
Proof.
  intros a b Ha Hb Na dist Hlo Hhi.
  pose proof (chordangle_roundup_strict dist Hlo Hhi) as H.
  pose proof (ltb_true_nonnan_r _ _ H) as Nn.
  pose proof (fin_nonnan _ (range_fin dist Hlo Hhi)) as Nd.
  unfold s2_Cap_AddCap. rewrite Ha, Hb. cbv zeta. fold dist.
  destruct (PrimFloat.ltb (s2_Cap_radius a) (s1_ChordAngle_Expanded dist (PrimFloat.mul (0x1p-52)%float dist))) eqn:E.
  - cbn [s2_Cap_radius set_s2_Cap_radius]. exact H.
  - apply (proj1 (ltb_false_iff _ _ Na Nn)) in E.
    apply (proj1 (ltb_true_iff _ _ Nd Nn)) in H.
    apply (proj2 (ltb_true_iff _ _ Nd Na)). lra.
Qed.

(** the hypotheses are satisfiable (and the conclusion computes to true on the instance) *)
Definition ex_cap_a : s2_Cap := mk_s2_Cap (mk_s2_Point (mk_r3_Vector 1 0 0)) (0x1p-1)%float.
Definition ex_cap_b : s2_Cap := mk_s2_Cap (mk_s2_Point (mk_r3_Vector 0 1 0)) (0x1p-2)%float.
Example addcap_hypotheses_satisfiable :
  let dist := s1_ChordAngle_Add (s2_ChordAngleBetweenPoints (s2_Cap_center ex_cap_a) (s2_Cap_center ex_cap_b))
                (s2_Cap_radius ex_cap_b) in
  s2_Cap_IsEmpty ex_cap_a = false /\ s2_Cap_IsEmpty ex_cap_b = false /\ nonnan (s2_Cap_radius ex_cap_a) /\
  PrimFloat.leb (0x1p-1000)%float dist = true /\ PrimFloat.ltb dist (0x1p+2)%float = true /\
  PrimFloat.ltb dist (s2_Cap_radius (s2_Cap_AddCap ex_cap_a ex_cap_b)) = true.
Proof. vm_compute. repeat split; reflexivity. Qed.

(** the non-NaN premise on the old radius is needed: with a NaN radius the cap is "non-empty",
    the comparison fails and the radius stays NaN *)
Example addcap_nan_radius_stays_nan :
  let a := mk_s2_Cap (mk_s2_Point (mk_r3_Vector 1 0 0)) nan in
  s2_Cap_IsEmpty a = false /\ go_isnan (s2_Cap_radius (s2_Cap_AddCap a ex_cap_b)) = true.
Proof. vm_compute. split; reflexivity. Qed.
