(** C04 — the tiling sentence, as far as parity arguments go without H-JORDAN.

    1. [cell_loops_share_vertices_across_faces]: on each of the 24 face sides (u or v = +-1)
       the translated faceUVToXYZ of the two adjacent faces produce bit-identical vectors, so
       cell loops on different faces of the cube share their vertices exactly.
    2. [paired_family_parity]: in a family of loops that uses every edge once in each direction
       the number of loops containing a point has the same parity for EVERY point (that of
       OriginPoint): all crossing contributions cancel by the symmetry law alone.
    3. [loops_around_vertex_exactly_one]: of the loops that meet at a vertex o, listed CCW
       around o and each presented with o as its vertex 1 (as initOriginAndBound sees it),
       exactly one contains o (C03's AngleContainsVertex property (3), over the GUARDED
       cyclic-order law [law_occw_split_ne] and the guard refdir o <> o). *)
From Coq Require Import ZArith List Bool Floats Lia Permutation.
From Geo Require Import Base.GoPrim Gen.C04Cell Model.Crosser Model.Contain
  Proofs.C03_Extra Proofs.C04_Brute Proofs.C04_Dispatch Proofs.C04_Polygon Proofs.C04_Tracker
  Proofs.C04_CellVerts.
Import ListNotations.

(** * 1. cell vertices across cube faces *)
Lemma fopp_involutive : forall x : float, PrimFloat.opp (PrimFloat.opp x) = x.
Proof.
  intro x. apply Prim2SF_inj. rewrite !opp_spec.
  destruct (Prim2SF x) as [[]|[]| |[] m e]; reflexivity.
Qed.

(* the uv coordinates of the point at parameter t on a side of a face: the fixed coordinate is
   U (then u = sg, v = t) or V (then u = t, v = sg), sg = +-1 *)
Definition side_uv (fixed_u : bool) (sg t : float) : float * float :=
  if fixed_u then (sg, t) else (t, sg).

(* (face, fixedU, sg,   adjacent face, fixedU', sg',  the parameter is negated) *)
Definition sgf (positive : bool) : float := if positive then 1%float else (-1)%float.
Definition mk_side (f : Z) (fu pos : bool) (f' : Z) (fu' pos' ng : bool)
  : Z * bool * float * Z * bool * float * bool := (f, fu, sgf pos, f', fu', sgf pos', ng).
Definition cube_sides : list (Z * bool * float * Z * bool * float * bool) :=
  [ mk_side 0 true false 4 false true true;
    mk_side 0 true true 1 true false false;
    mk_side 0 false false 5 false true false;
    mk_side 0 false true 2 true false true;
    mk_side 1 true false 0 true true false;
    mk_side 1 true true 3 false false true;
    mk_side 1 false false 5 true true true;
    mk_side 1 false true 2 false false false;
    mk_side 2 true false 0 false true true;
    mk_side 2 true true 3 true false false;
    mk_side 2 false false 1 false true false;
    mk_side 2 false true 4 true false true;
    mk_side 3 true false 2 true true false;
    mk_side 3 true true 5 false false true;
    mk_side 3 false false 1 true true true;
    mk_side 3 false true 4 false false false;
    mk_side 4 true false 2 false true true;
    mk_side 4 true true 5 true false false;
    mk_side 4 false false 3 false true false;
    mk_side 4 false true 0 true false true;
    mk_side 5 true false 4 true true false;
    mk_side 5 true true 1 false false true;
    mk_side 5 false false 3 true true true;
    mk_side 5 false true 0 false false false ].

Definition side_point (f : Z) (fixed_u : bool) (sg t : float) : r3_Vector :=
  s2_faceUVToXYZ f (fst (side_uv fixed_u sg t)) (snd (side_uv fixed_u sg t)).

(** all 24 face sides: both faces compute the same vector, for every float parameter *)
Theorem face_sides_agree : forall f fu sg f' fu' sg' ng,
  In (f, fu, sg, f', fu', sg', ng) cube_sides -> forall t : float,
    side_point f fu sg t = side_point f' fu' sg' (if ng then PrimFloat.opp t else t).
Proof.
  intros f fu sg f' fu' sg' ng H t. unfold cube_sides, mk_side, sgf in H.
  repeat (destruct H as [H|H];
          [ injection H as <- <- <- <- <- <- <-; vm_compute; rewrite ?fopp_involutive; reflexivity | ]).
  contradiction.
Qed.

(** every side of every face is in the table (so the 12 cube edges are covered from both sides) *)
Lemma cube_sides_complete :
  forallb (fun f => forallb (fun fu => forallb (fun sg =>
     existsb (fun e => let '(g, gu, s, _, _, _, _) := e in
                       (g =? f)%Z && Bool.eqb gu fu && PrimFloat.eqb s sg) cube_sides)
     [(-1)%float; 1%float]) [true; false]) [0; 1; 2; 3; 4; 5]%Z = true.
Proof. vm_compute. reflexivity. Qed.

(** hence two cells on adjacent faces whose uv rectangles have corners at corresponding places
    of the common cube edge get the same vertex, bit for bit *)
Theorem cell_loops_share_vertices_across_faces : forall f fu sg f' fu' sg' ng,
  In (f, fu, sg, f', fu', sg', ng) cube_sides ->
  forall (t : float) (c1 c2 : s2_Cell) (k1 k2 : Z),
    s2_Cell_face c1 = f -> s2_Cell_face c2 = f' ->
    uv_vertex c1 k1 = mk_r2_Point (fst (side_uv fu sg t)) (snd (side_uv fu sg t)) ->
    uv_vertex c2 k2 = (let t' := if ng then PrimFloat.opp t else t in
                       mk_r2_Point (fst (side_uv fu' sg' t')) (snd (side_uv fu' sg' t'))) ->
    s2_Cell_Vertex c1 k1 = s2_Cell_Vertex c2 k2.
Proof.
  intros f fu sg f' fu' sg' ng Hin t c1 c2 k1 k2 Hf1 Hf2 H1 H2.
  pose proof (face_sides_agree _ _ _ _ _ _ _ Hin t) as Hs. unfold side_point in Hs.
  unfold s2_Cell_Vertex, s2_Cell_VertexRaw.
  fold (uv_vertex c1 k1). fold (uv_vertex c2 k2). rewrite H1, H2, Hf1, Hf2. cbv zeta.
  cbn [r2_Point_X r2_Point_Y].
  assert (Hw : forall g, In g [0; 1; 2; 3; 4; 5]%Z -> wrap_i64 g = g).
  { intros g Hg. repeat (destruct Hg as [<-|Hg]; [reflexivity|]). contradiction. }
  assert (Hf : In f [0; 1; 2; 3; 4; 5]%Z /\ In f' [0; 1; 2; 3; 4; 5]%Z).
  { unfold cube_sides, mk_side, sgf in Hin.
    repeat (destruct Hin as [Hin|Hin];
            [ injection Hin as <- <- <- <- <- <- <-; split; cbn; tauto | ]).
    contradiction. }
  rewrite (Hw f (proj1 Hf)), (Hw f' (proj2 Hf)), Hs. reflexivity.
Qed.

(** * 2. families of loops whose edges are paired *)
Section Paired.
  Variable point : Type.
  Variable eov : point -> point -> point -> point -> bool.
  Variable origin : point.
  Variable zeroPt : point.
  Local Notation cross_parity := (cross_parity point eov).
  Local Notation polygon_brute := (polygon_brute point eov origin zeroPt).
  Local Notation brute_contains := (brute_contains point eov origin zeroPt).

  Definition swap_edge (e : edge point) : edge point := (snd e, fst e).

  Lemma cross_parity_perm : forall a b E F, Permutation E F -> cross_parity a b E = cross_parity a b F.
  Proof.
    intros a b E F H. induction H.
    - reflexivity.
    - rewrite !(cross_parity_cons point eov), IHPermutation. reflexivity.
    - rewrite !(cross_parity_cons point eov), <- !xorb_assoc.
      rewrite (xorb_comm (eov a b (fst y) (snd y))). reflexivity.
    - rewrite IHPermutation1. exact IHPermutation2.
  Qed.

  Hypothesis eov_sym : eov_sym_cd_law point eov.

  Lemma cross_parity_swap : forall a b E, cross_parity a b (map swap_edge E) = cross_parity a b E.
  Proof.
    intros a b E. induction E as [|e E IH]; [reflexivity|].
    cbn [map]. rewrite !(cross_parity_cons point eov), IH. unfold swap_edge. cbn [fst snd].
    rewrite (eov_sym a b (snd e) (fst e)). reflexivity.
  Qed.

  (** a family (here: a list of loops with an ignored flag) in which every edge is used once
      in each direction: its directed edges are a permutation of E ++ reversed E *)
  Definition edges_paired (P : polygon point) : Prop :=
    exists E, Permutation (all_loop_edges point P) (E ++ map swap_edge E).

  (** the XOR of the loops' answers is the same at every point: the XOR of their originInside *)
  Theorem paired_family_parity : forall (P : polygon point), edges_paired P ->
    forall p, polygon_brute P p = xor_inside point P.
  Proof.
    intros P [E HE] p. rewrite (polygon_brute_parity point eov origin zeroPt). unfold Contain.parity.
    rewrite (cross_parity_perm origin p _ _ HE), (cross_parity_app point eov), cross_parity_swap.
    rewrite xorb_nilpotent, xorb_false_r. reflexivity.
  Qed.

  (* XOR of answers = parity of the number of loops that contain the point *)
  Lemma polygon_brute_count : forall (P : polygon point) p,
    polygon_brute P p = Nat.odd (length (filter (fun lh => brute_contains (fst lh) p) P)).
  Proof.
    intros P p. induction P as [|lh P IH]; [reflexivity|].
    rewrite (polygon_brute_cons point eov origin zeroPt), IH. cbn [filter].
    destruct (brute_contains (fst lh) p); cbn [length].
    - rewrite Nat.odd_succ, <- Nat.negb_odd. destruct (Nat.odd _); reflexivity.
    - rewrite xorb_false_l. reflexivity.
  Qed.

  (** "every point is contained in an odd number of the loops iff OriginPoint is": a tiling
      family cannot contain one point once and another point twice or not at all. *)
  Corollary paired_family_count : forall (P : polygon point), edges_paired P ->
    forall p q,
      Nat.odd (length (filter (fun lh => brute_contains (fst lh) p) P))
      = Nat.odd (length (filter (fun lh => brute_contains (fst lh) q) P)).
  Proof.
    intros P HP p q. rewrite <- !polygon_brute_count, !(paired_family_parity P HP). reflexivity.
  Qed.
End Paired.

(** the premise is satisfiable: the two triangles 0-1-2 and 2-1-0 split the sphere *)
Example edges_paired_two_triangles :
  edges_paired nat [(mk_loop nat [0; 1; 2] false, false); (mk_loop nat [2; 1; 0] true, false)].
Proof.
  exists [(0, 1); (1, 2); (2, 0)]. cbn.
  (* [(0,1);(1,2);(2,0);(2,1);(1,0);(0,2)]  ~  [(0,1);(1,2);(2,0);(1,0);(2,1);(0,2)] *)
  do 3 apply perm_skip. apply perm_swap.
Qed.

(** * 3. the loops meeting at a vertex *)
Section AroundVertex.
  Variable point : Type.
  Variable peq : point -> point -> bool.
  Variable sign : point -> point -> point -> Z.
  Variable refdir : point -> point.
  Variable eov : point -> point -> point -> point -> bool.
  Variable south : point -> bool.
  Variable origin : point.
  Variable zeroPt : point.

  Hypothesis peq_sym : law_peq_sym point peq.
  Hypothesis sign_swap : law_sign_swap point sign.
  Hypothesis sign_range : law_sign_range point sign.
  Hypothesis sign_zero_iff : law_sign_zero_iff point peq sign.
  (* the cyclic-order law WITH its guard (start ray different from the vertex): the unguarded
     law is false of RobustSign (Proofs/Link_C02_C03_Cyclic.v, occw_split_unguarded_refuted) *)
  Hypothesis occw_split_ne : law_occw_split_ne point peq sign.

  Local Notation acv := (angle_contains_vertex point sign refdir).
  Local Notation lfp := (loop_from_points point peq eov acv south origin zeroPt).
  Local Notation brute_contains := (brute_contains point eov origin zeroPt).

  Variable o : point.
  (* Point.referenceDir never returns the point itself *)
  Hypothesis refdir_ne : peq (refdir o) o = false.
  (* the remaining vertices of the loop that fills the wedge from ray x CCW to ray y *)
  Variable rest : point -> point -> list point.

  (** the loop in the wedge from x to y (CCW around o) runs ... y, o, x ...; presented with o
      as vertex 1 it is LoopFromPoints(y :: o :: x :: rest).  Does it contain o? *)
  Definition wedge_loop_contains (x y : point) : bool :=
    brute_contains (lfp (y :: o :: x :: rest x y)) o.

  Lemma wedge_loop_is_wedge : forall x y, peq x o = false -> peq y o = false ->
    Z.b2z (wedge_loop_contains x y) = wedge point sign refdir o x y.
  Proof.
    intros x y Hx Hy. unfold wedge_loop_contains, wedge.
    rewrite (origin_inside_vertex1 point peq eov acv south origin zeroPt).
    unfold v1_inside. rewrite Hx, Hy. reflexivity.
  Qed.

  Fixpoint loop_count (l : list point) : Z :=
    match l with
    | u :: (v :: _) as t => Z.b2z (wedge_loop_contains u v) + loop_count t
    | _ => 0%Z
    end.

  Lemma loop_count_open_count : forall l, ccw_listed point peq sign o l ->
    loop_count l = open_count point sign refdir o l.
  Proof.
    induction l as [|u l IH]; intro H; [reflexivity|].
    destruct l as [|v l]; [reflexivity|].
    assert (Hu : peq u o = false) by (cbn in H; tauto).
    assert (Ht : ccw_listed point peq sign o (v :: l)) by (cbn in H; cbn; tauto).
    assert (Hv : peq v o = false) by (cbn in Ht; tauto).
    change (loop_count (u :: v :: l)) with (Z.b2z (wedge_loop_contains u v) + loop_count (v :: l))%Z.
    change (open_count point sign refdir o (u :: v :: l))
      with (wedge point sign refdir o u v + open_count point sign refdir o (v :: l))%Z.
    rewrite (IH Ht), (wedge_loop_is_wedge u v Hu Hv). reflexivity.
  Qed.

  Lemma last_in_cons : forall (l : list point) v, In (last l v) (v :: l).
  Proof.
    intros l v. destruct l as [|w l]; [left; reflexivity|].
    right. set (m := w :: l).
    assert (Hm : m <> []) by discriminate.
    rewrite (app_removelast_last v Hm) at 2. apply in_or_app. right. left. reflexivity.
  Qed.

  Lemma ccw_listed_in : forall l x, ccw_listed point peq sign o l -> In x l -> peq x o = false.
  Proof.
    induction l as [|y l IH]; intros x H Hin; [contradiction|].
    destruct Hin as [<-|Hin]; [cbn in H; tauto|]. apply IH; [cbn in H; tauto|exact Hin].
  Qed.

  (** [loops_around_vertex_exactly_one]: rays u, v, l... listed CCW around o; the k loops
      filling the k wedges (each built by LoopFromPoints with o as vertex 1): exactly one of
      them contains o.  For the four LoopFromCell loops around a cell corner: k = 4. *)
  Theorem loops_around_vertex_exactly_one : forall u v l,
    ccw_listed point peq sign o (u :: v :: l) ->
    (loop_count (u :: v :: l) + Z.b2z (wedge_loop_contains (last l v) u) = 1)%Z.
  Proof.
    intros u v l H.
    rewrite (loop_count_open_count _ H).
    assert (Hu : peq u o = false) by (cbn in H; tauto).
    assert (Hz : peq (last l v) o = false).
    { apply (ccw_listed_in (u :: v :: l)); [exact H|]. right. apply last_in_cons. }
    rewrite (wedge_loop_is_wedge (last l v) u Hz Hu).
    apply (acv_exactly_one_wedge_at point peq sign refdir peq_sym sign_swap sign_range sign_zero_iff o);
      [|exact H].
    intros x y z Hx Hy Hzo' Hxy Hyz Hxz Hccw.
    exact (occw_split_ne (refdir o) x y z o refdir_ne Hx Hy Hzo' Hxy Hyz Hxz Hccw).
  Qed.
End AroundVertex.
