(** C17: threshold forms vs the computed distance; endpoint branch; antipodal structure.
    Everything here is about the translated functions of Gen/EdgeDist.v. *)
From Coq Require Import ZArith Reals Floats Lra Bool List.
From Geo Require Import Base.GoPrim Base.F64 Gen.EdgeDist Model.PolylineOps.
Import ListNotations.
Local Open Scope R_scope.

(** IsDistanceLess is, by definition, the flag of UpdateMinDistance *)
Lemma isless_is_flag x a b l :
  s2_IsDistanceLess x a b l = snd (s2_UpdateMinDistance x a b l).
Proof. unfold s2_IsDistanceLess. destruct (s2_UpdateMinDistance x a b l); reflexivity. Qed.
