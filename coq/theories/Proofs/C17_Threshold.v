(** C17: decision structure of the translated point-edge distance functions
    (Gen/EdgeDist.v): threshold forms vs the computed value, the endpoint branch,
    the antipodal structure of UpdateMaxDistance. No arithmetic facts are needed here:
    everything follows from the shape of the translated code. *)
From Coq Require Import ZArith Reals Floats Lra Bool List.
From Flocq Require Import Core.Core IEEE754.BinarySingleNaN IEEE754.PrimFloat.
From Geo Require Import Base.GoPrim Base.F64 Gen.EdgeDist Model.PolylineOps.
Import ListNotations.
Local Open Scope R_scope.

(** ** The pieces of interiorDist, named *)
Definition sq_dist (x a : s2_Point) : PrimFloat.float :=
  r3_Vector_Norm2 (r3_Vector_Sub (s2_Point_Vector x) (s2_Point_Vector a)).
(** min(xa2, xb2): the value of the endpoint branch *)
Definition endDist (x a b : s2_Point) : PrimFloat.float :=
  s1_ChordAngleFromSquaredLength (go_fmin (sq_dist x a) (sq_dist x b)).

Definition planar_maxError (x a b : s2_Point) : PrimFloat.float :=
  PrimFloat.add (PrimFloat.mul (0x1.3p-50)%float
     (PrimFloat.add (PrimFloat.add (sq_dist x a) (sq_dist x b)) (sq_dist a b))) (0x1.fffffffffffffp-102)%float.
(** the conservative planar prefilter says "not interior" *)
Definition prefilter_out (x a b : s2_Point) : bool :=
  PrimFloat.leb (PrimFloat.add (sq_dist a b) (planar_maxError x a b))
                (PrimFloat.abs (PrimFloat.sub (sq_dist x a) (sq_dist x b))).
Definition edge_c (a b : s2_Point) : r3_Vector := s2_Point_Vector (s2_Point_PointCross a b).
Definition edge_c2 (a b : s2_Point) : PrimFloat.float := r3_Vector_Norm2 (edge_c a b).
Definition xDotC2 (x a b : s2_Point) : PrimFloat.float :=
  let d := r3_Vector_Dot (s2_Point_Vector x) (edge_c a b) in PrimFloat.mul d d.
(** the pruning test [xDotC2 > c2*minDist] *)
Definition pruned (x a b : s2_Point) (m : PrimFloat.float) : bool :=
  PrimFloat.ltb (PrimFloat.mul (edge_c2 a b) m) (xDotC2 x a b).
Definition edge_cx (x a b : s2_Point) : r3_Vector := r3_Vector_Cross (edge_c a b) (s2_Point_Vector x).
(** the wedge test says "not interior" *)
Definition wedge_out (x a b : s2_Point) : bool :=
  PrimFloat.leb 0%float (r3_Vector_Dot (r3_Vector_Sub (s2_Point_Vector a) (s2_Point_Vector x)) (edge_cx x a b))
  || PrimFloat.leb (r3_Vector_Dot (r3_Vector_Sub (s2_Point_Vector b) (s2_Point_Vector x)) (edge_cx x a b)) 0%float.
(** the value of the interior branch *)
Definition intDist (x a b : s2_Point) : PrimFloat.float :=
  let qr := PrimFloat.sub 1%float (PrimFloat.sqrt (PrimFloat.div (r3_Vector_Norm2 (edge_cx x a b)) (edge_c2 a b))) in
  PrimFloat.add (PrimFloat.div (xDotC2 x a b) (edge_c2 a b)) (PrimFloat.mul qr qr).

Lemma interiorDist_shape x a b m al :
  s2_interiorDist x a b m al =
  if prefilter_out x a b then (m, false)
  else if negb al && pruned x a b m then (m, false)
  else if wedge_out x a b then (m, false)
  else if negb al && PrimFloat.leb m (intDist x a b) then (m, false)
  else (intDist x a b, true).
Proof. reflexivity. Qed.

Lemma updateMinDistance_shape x a b m al :
  s2_updateMinDistance x a b m al =
  let r := s2_interiorDist x a b m al in
  if snd r then (fst r, true)
  else if negb al && PrimFloat.leb m (endDist x a b) then (m, false) else (endDist x a b, true).
Proof.
  unfold s2_updateMinDistance. destruct (s2_interiorDist x a b m al) as [d ok]. reflexivity.
Qed.

(** whether the interior branch decides, and the distance reported with alwaysUpdate *)
Definition interior_taken (x a b : s2_Point) : bool := negb (prefilter_out x a b) && negb (wedge_out x a b).
Definition dist2 (x a b : s2_Point) : PrimFloat.float := if interior_taken x a b then intDist x a b else endDist x a b.

Lemma always_value x a b m : s2_updateMinDistance x a b m true = (dist2 x a b, true).
Proof.
  rewrite updateMinDistance_shape, interiorDist_shape. unfold dist2, interior_taken. simpl.
  destruct (prefilter_out x a b); simpl; [reflexivity|].
  destruct (wedge_out x a b); reflexivity.
Qed.

Lemma always_interior x a b m :
  s2_interiorDist x a b m true = if interior_taken x a b then (intDist x a b, true) else (m, false).
Proof.
  rewrite interiorDist_shape. unfold interior_taken. simpl.
  destruct (prefilter_out x a b); simpl; [reflexivity|].
  destruct (wedge_out x a b); reflexivity.
Qed.

(** DistanceFromSegment is the angle of that chord length *)
Lemma distance_from_segment x a b : s2_DistanceFromSegment x a b = s1_ChordAngle_Angle (dist2 x a b).
Proof. unfold s2_DistanceFromSegment. rewrite always_value. reflexivity. Qed.

(** ** never_above_endpoints, endpoint branch: the result is min(xa2, xb2) exactly *)
Lemma endpoint_branch_exact x a b m :
  snd (s2_interiorDist x a b m true) = false ->
  s2_updateMinDistance x a b m true = (endDist x a b, true).
Proof.
  intros H. rewrite always_value. rewrite always_interior in H. unfold dist2.
  destruct (interior_taken x a b); [discriminate | reflexivity].
Qed.

(** the endpoint branch never returns more than StraightChordAngle = 4 (the clamp of
    ChordAngleFromSquaredLength): |x-a|^2 of unit-length floats can round to 4.000000000000002 *)
Lemma rank_four : rank 4%float = 4.
Proof.
  unfold rank, rankB. destruct (Prim2B 4%float) as [s|s| |s m e He] eqn:E;
  apply (f_equal (@B2SF _ _)) in E; rewrite B2SF_Prim2B in E; vm_compute in E; try discriminate.
  inversion E; subst. unfold B2R, F2R, Defs.F2R. simpl. lra.
Qed.

Lemma endDist_le_four x a b : nonnan (endDist x a b) -> rank (endDist x a b) <= 4.
Proof.
  unfold endDist, s1_ChordAngleFromSquaredLength.
  set (v := go_fmin (sq_dist x a) (sq_dist x b)).
  destruct (PrimFloat.ltb 4%float v) eqn:E; intros Hn.
  - rewrite rank_four. lra.
  - apply ltb_false_iff in E; auto; [|reflexivity]. rewrite rank_four in E. exact E.
Qed.

(** ** threshold forms *)
Lemma isless_is_flag x a b l :
  s2_IsDistanceLess x a b l = snd (s2_UpdateMinDistance x a b l).
Proof. unfold s2_IsDistanceLess. destruct (s2_UpdateMinDistance x a b l); reflexivity. Qed.

Lemma isinteriorless_is_flag x a b l :
  s2_IsInteriorDistanceLess x a b l = snd (s2_UpdateMinInteriorDistance x a b l).
Proof. unfold s2_IsInteriorDistanceLess. destruct (s2_UpdateMinInteriorDistance x a b l); reflexivity. Qed.

(** an update happens only with a value that is not >= the threshold, and that value is the interior
    value or the endpoint value; no update leaves the threshold unchanged *)
Lemma update_min_cases x a b m d ok :
  s2_UpdateMinDistance x a b m = (d, ok) ->
  (ok = true /\ PrimFloat.leb m d = false /\
     ((interior_taken x a b = true /\ d = intDist x a b) \/ d = endDist x a b)) \/
  (ok = false /\ d = m /\ PrimFloat.leb m (endDist x a b) = true).
Proof.
  unfold s2_UpdateMinDistance. rewrite updateMinDistance_shape, interiorDist_shape. unfold interior_taken. simpl.
  destruct (prefilter_out x a b) eqn:E1; simpl.
  { destruct (PrimFloat.leb m (endDist x a b)) eqn:E; intros H; inversion H; subst; auto 10. }
  destruct (pruned x a b m) eqn:E2; simpl.
  { destruct (PrimFloat.leb m (endDist x a b)) eqn:E; intros H; inversion H; subst; auto 10. }
  destruct (wedge_out x a b) eqn:E3; simpl.
  { destruct (PrimFloat.leb m (endDist x a b)) eqn:E; intros H; inversion H; subst; auto 10. }
  destruct (PrimFloat.leb m (intDist x a b)) eqn:E4; simpl.
  { destruct (PrimFloat.leb m (endDist x a b)) eqn:E; intros H; inversion H; subst; auto 10. }
  intros H; inversion H; subst. left. auto 10.
Qed.

Lemma ltb_true_nonnan u v : PrimFloat.ltb u v = true -> nonnan u /\ nonnan v.
Proof.
  unfold nonnan. rewrite !go_isnan_equiv, ltb_equiv.
  destruct (Prim2B u) as [s|[|]| |s m e He], (Prim2B v) as [s'|[|]| |s' m' e' He']; simpl; intros H;
    try discriminate; split; reflexivity.
Qed.

Lemma ltb_leb_false u v : PrimFloat.ltb u v = true -> PrimFloat.leb v u = false.
Proof.
  intros H. destruct (ltb_true_nonnan _ _ H) as [Hu Hv].
  apply leb_false_iff; auto. apply ltb_true_iff in H; auto.
Qed.

Lemma leb_false_ltb u v : nonnan u -> nonnan v -> PrimFloat.leb v u = false -> PrimFloat.ltb u v = true.
Proof. intros Hu Hv H. apply ltb_true_iff; auto. apply leb_false_iff in H; auto. Qed.

(** soundness: "less" implies a computed value strictly below the limit — the value reported with
    alwaysUpdate or the endpoint value *)
Lemma threshold_sound x a b l :
  nonnan l -> nonnan (dist2 x a b) -> nonnan (endDist x a b) ->
  s2_IsDistanceLess x a b l = true ->
  rank (dist2 x a b) < rank l \/ rank (endDist x a b) < rank l.
Proof.
  intros Hl Hd He H. rewrite isless_is_flag in H.
  destruct (s2_UpdateMinDistance x a b l) as [d ok] eqn:E. simpl in H. subst ok.
  destruct (update_min_cases _ _ _ _ _ _ E) as [[_ [Hlt Hv]] | [Hf _]]; [|discriminate].
  destruct Hv as [[Hi Hv] | Hv]; subst d.
  - left. unfold dist2 in *. rewrite Hi in *. apply leb_false_iff in Hlt; auto.
  - right. apply leb_false_iff in Hlt; auto.
Qed.

(** completeness: if the distance reported with alwaysUpdate is below the limit and the pruning
    test does not fire, the threshold form says "less" and returns exactly that distance *)
Lemma threshold_complete x a b l :
  PrimFloat.ltb (dist2 x a b) l = true -> pruned x a b l = false ->
  s2_UpdateMinDistance x a b l = (dist2 x a b, true) /\ s2_IsDistanceLess x a b l = true.
Proof.
  intros Hlt Hp. apply ltb_leb_false in Hlt.
  assert (E : s2_UpdateMinDistance x a b l = (dist2 x a b, true)).
  { unfold s2_UpdateMinDistance. rewrite updateMinDistance_shape, interiorDist_shape.
    unfold dist2, interior_taken in *. rewrite Hp. simpl.
    destruct (prefilter_out x a b); simpl in *; [rewrite Hlt; reflexivity|].
    destruct (wedge_out x a b); simpl in *; rewrite Hlt; reflexivity. }
  split; [exact E|]. rewrite isless_is_flag, E. reflexivity.
Qed.

(** where the endpoint branch decides, the threshold form is exactly the comparison *)
Lemma threshold_exact_endpoint_branch x a b l :
  interior_taken x a b = false -> nonnan l -> nonnan (dist2 x a b) ->
  s2_IsDistanceLess x a b l = PrimFloat.ltb (dist2 x a b) l.
Proof.
  intros Hi Hl Hd. rewrite isless_is_flag. unfold s2_UpdateMinDistance.
  rewrite updateMinDistance_shape, interiorDist_shape. unfold dist2, interior_taken in *. rewrite Hi in *.
  simpl.
  assert (K : snd (if PrimFloat.leb l (endDist x a b) then (l, false) else (endDist x a b, true)) = PrimFloat.ltb (endDist x a b) l).
  { destruct (PrimFloat.leb l (endDist x a b)) eqn:E; simpl; symmetry.
    - apply ltb_false_iff; auto. apply leb_true_iff in E; auto.
    - apply leb_false_ltb; auto. }
  destruct (prefilter_out x a b); simpl in *; [exact K|].
  destruct (pruned x a b l); simpl; [exact K|].
  destruct (wedge_out x a b); simpl in *; [exact K | discriminate].
Qed.

(** the full-strength sentence "IsDistanceLess x a b l = (dist2 x a b < l)" is false of the code:
    x two ulp from b, the interior value exceeds the endpoint value *)
Definition w_x := mk_s2_Point (mk_r3_Vector (-0x1.f78ef83d19825p-1)%float (-0x1.67e661bcf7a4ap-3)%float (-0x1.5d942a060694dp-5)%float).
Definition w_a := mk_s2_Point (mk_r3_Vector (0x1.f645c9043b80ep-1)%float (0x1.564635b28e383p-3)%float (-0x1.93866b4f9d2p-4)%float).
Definition w_b := mk_s2_Point (mk_r3_Vector (-0x1.f78ef83d19827p-1)%float (-0x1.67e661bcf7a4ap-3)%float (-0x1.5d942a060694dp-5)%float).

Lemma threshold_exact_refuted :
  exists x a b l, nonnan l /\ nonnan (dist2 x a b) /\
    s2_IsDistanceLess x a b l = true /\ PrimFloat.ltb (dist2 x a b) l = false.
Proof.
  exists w_x, w_a, w_b, (dist2 w_x w_a w_b). vm_compute. repeat split; reflexivity.
Qed.

(** ** UpdateMaxDistance goes through the antipode *)
Definition vertex_max (x a b : s2_Point) : PrimFloat.float :=
  s2_maxChordAngle (s2_ChordAngleBetweenPoints x a) [s2_ChordAngleBetweenPoints x b].

Definition max_dist2 (x a b : s2_Point) : PrimFloat.float :=
  if PrimFloat.ltb 2%float (vertex_max x a b)
  then PrimFloat.sub 4%float (dist2 (neg_point x) a b) else vertex_max x a b.

Lemma max_via_antipode x a b m :
  m_UpdateMaxDistance x a b m =
  if PrimFloat.ltb m (max_dist2 x a b) then (max_dist2 x a b, true) else (m, false).
Proof.
  unfold m_UpdateMaxDistance, max_dist2, vertex_max. rewrite always_value. reflexivity.
Qed.

Lemma vertex_max_is_max x a b :
  vertex_max x a b = if PrimFloat.ltb (s2_ChordAngleBetweenPoints x a) (s2_ChordAngleBetweenPoints x b)
                     then s2_ChordAngleBetweenPoints x b else s2_ChordAngleBetweenPoints x a.
Proof. reflexivity. Qed.

(** ** edge pairs: zero when crossing, otherwise the four vertex-edge updates in order *)
Lemma edge_pair_crossing a0 a1 b0 b1 m :
  PrimFloat.eqb m 0%float = false ->
  m_updateEdgePairMinDistance true a0 a1 b0 b1 m = (0%float, true).
Proof. intros H. unfold m_updateEdgePairMinDistance. rewrite H. reflexivity. Qed.

Lemma edge_pair_monotone a0 a1 b0 b1 m d ok :
  nonnan m ->
  m_updateEdgePairMinDistance false a0 a1 b0 b1 m = (d, ok) ->
  (ok = false -> d = m \/ PrimFloat.eqb m 0%float = true).
Proof.
  intros Hm. unfold m_updateEdgePairMinDistance.
  destruct (PrimFloat.eqb m 0%float) eqn:E0; [intros; right; reflexivity|].
  destruct (s2_UpdateMinDistance a0 b0 b1 m) as [m1 o1] eqn:E1.
  destruct (s2_UpdateMinDistance a1 b0 b1 m1) as [m2 o2] eqn:E2.
  destruct (s2_UpdateMinDistance b0 a0 a1 m2) as [m3 o3] eqn:E3.
  destruct (s2_UpdateMinDistance b1 a0 a1 m3) as [m4 o4] eqn:E4.
  intros H. inversion H; subst d ok. clear H. intros Hok. left.
  apply orb_false_iff in Hok. destruct Hok as [Hok ?]. apply orb_false_iff in Hok. destruct Hok as [Hok ?].
  apply orb_false_iff in Hok. destruct Hok as [? ?]. subst.
  destruct (update_min_cases _ _ _ _ _ _ E1) as [[? _]|[_ [? _]]]; [discriminate|].
  destruct (update_min_cases _ _ _ _ _ _ E2) as [[? _]|[_ [? _]]]; [discriminate|].
  destruct (update_min_cases _ _ _ _ _ _ E3) as [[? _]|[_ [? _]]]; [discriminate|].
  destruct (update_min_cases _ _ _ _ _ _ E4) as [[? _]|[_ [? _]]]; [discriminate|].
  congruence.
Qed.
