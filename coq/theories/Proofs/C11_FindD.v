(** C11 — s2intersect.Find, part D: overlapsToIntersections.  Given a sound and complete list
    of overlaps for a membership function [M], the result has one entry per index set, whose
    cells are normalized, non-empty and cover exactly the leaves x with [M x] = that set. *)
From Coq Require Import ZArith List Bool Lia ZifyBool Sorted Permutation.
From Geo Require Import Base.GoPrim Gen.CellID Model.CellUnion Model.Intersect Proofs.C11_Bits Proofs.C11_Cells
  Proofs.C11_Normalize Proofs.C11_Unique Proofs.C11_Search Proofs.C11_Range Proofs.C11_FindA Proofs.C11_FindC.
Import ListNotations.
Local Open Scope Z_scope.

Lemma list_eqb_Z : forall a b, list_eqb Z.eqb a b = true <-> a = b.
Proof.
  induction a as [|x a IH]; intros [|y b]; cbn [list_eqb]; try (split; [discriminate|discriminate]).
  - split; reflexivity.
  - rewrite andb_true_iff, IH, Z.eqb_eq. split; [intros [-> ->]; reflexivity|intros H; inversion H; auto].
Qed.

Definition entries := list (list Z * list Z).

Lemma group_add_spec key cells : forall acc : entries, NoDup (map fst acc) ->
  let acc' := group_add key cells acc in
  NoDup (map fst acc') /\
  (forall K cs', In (K, cs') acc' ->
     (K <> key /\ In (K, cs') acc) \/
     (K = key /\ ((cs' = cells /\ ~ In key (map fst acc)) \/
                  exists cs, In (key, cs) acc /\ cs' = cs ++ cells))) /\
  (forall K cs, In (K, cs) acc -> exists cs', In (K, cs') acc') /\
  (exists cs', In (key, cs') acc') /\
  (forall K, In K (map fst acc') -> K = key \/ In K (map fst acc)).
Proof.
  induction acc as [|[k cs0] t IH]; intros ND; cbn zeta.
  - cbn [group_add map fst]. split; [constructor; [intros []|constructor]|].
    split.
    { intros K cs' [H|[]]. inversion H; subst. right. split; [reflexivity|]. left. split; [reflexivity|intros []]. }
    split; [intros K cs []|]. split; [exists cells; left; reflexivity|].
    intros K [<-|[]]. left; reflexivity.
  - cbn [map fst] in ND. inversion ND as [|? ? Hnk NDt]; subst.
    cbn [group_add]. destruct (list_eqb Z.eqb k key) eqn:E.
    + apply list_eqb_Z in E. subst k. cbn [map fst].
      split; [exact ND|]. split.
      { intros K cs' [H|H].
        - inversion H; subst. right. split; [reflexivity|]. right. exists cs0. split; [left; reflexivity|reflexivity].
        - left. split; [|right; exact H]. intros ->. apply Hnk. apply in_map_iff. exists (key, cs'). split; [reflexivity|exact H]. }
      split.
      { intros K cs [H|H].
        - inversion H; subst. exists (cs ++ cells). left; reflexivity.
        - exists cs. right; exact H. }
      split; [exists (cs0 ++ cells); left; reflexivity|].
      intros K HK. right. exact HK.
    + assert (Hne : k <> key) by (intros ->; rewrite (proj2 (list_eqb_Z key key) eq_refl) in E; discriminate).
      destruct (IH NDt) as (N1 & N2 & N3 & N4 & N5). cbn [map fst].
      split.
      { constructor; [|exact N1]. intros Hin. destruct (N5 k Hin) as [->|Hin']; [congruence|exact (Hnk Hin')]. }
      split.
      { intros K cs' [H|H].
        - inversion H; subst. left. split; [exact Hne|left; reflexivity].
        - destruct (N2 K cs' H) as [[Hk Hin]|[-> [[-> Hni]|(cs & Hin & ->)]]].
          + left. split; [exact Hk|right; exact Hin].
          + right. split; [reflexivity|]. left. split; [reflexivity|]. intros [Hk|Hk]; [congruence|exact (Hni Hk)].
          + right. split; [reflexivity|]. right. exists cs. split; [right; exact Hin|reflexivity]. }
      split.
      { intros K cs [H|H].
        - inversion H; subst. exists cs. left; reflexivity.
        - destruct (N3 K cs H) as (cs' & Hc). exists cs'. right; exact Hc. }
      split; [destruct N4 as (cs' & Hc); exists cs'; right; exact Hc|].
      intros K [<-|HK]; [right; left; reflexivity|]. destruct (N5 K HK) as [->|Hin]; [left; reflexivity|right; right; exact Hin].
Qed.

Definition ov_range_ok (o : overlap) : Prop := vleaf (ov_s o) /\ vleaf (ov_e o) /\ ov_s o <= ov_e o.

Lemma ov_range_cells o : ov_range_ok o ->
  let cells := cu_FromRange (ov_s o) (s2_CellID_Next (ov_e o)) in
  Forall valid cells /\ forall x, leaf x -> (cov cells x <-> ov_s o <= x <= ov_e o).
Proof.
  intros (Vs & Ve & Hse). cbn zeta. rewrite (next_leaf _ Ve).
  destruct Vs as [Ls Bs]. destruct Ve as [Le Be].
  destruct (from_range_spec (ov_s o) (ov_e o + 2)) as [N C].
  - apply vleaf_valid. split; assumption.
  - exact Ls.
  - split; [unfold leaf in *; Z.div_mod_to_equations; lia|lia].
  - lia.
  - split; [exact (proj1 N)|]. intros x Lx. rewrite (C x Lx).
    unfold leaf in *. Z.div_mod_to_equations. lia.
Qed.

Definition o2i_step (acc : entries) (o : overlap) : entries :=
  let '(idx, s, e) := o in group_add idx (cu_FromRange s (s2_CellID_Next e)) acc.

Lemma o2i_step_eq acc o :
  o2i_step acc o = group_add (ov_idx o) (cu_FromRange (ov_s o) (s2_CellID_Next (ov_e o))) acc.
Proof. destruct o as [[idx s] e]. reflexivity. Qed.

Definition covered_by (ovs : list overlap) (K : list Z) (x : Z) : Prop :=
  exists o, In o ovs /\ ov_idx o = K /\ ov_s o <= x <= ov_e o.

Definition Gspec (ovs : list overlap) (G : entries) : Prop :=
  NoDup (map fst G) /\
  (forall K cs, In (K, cs) G -> Forall valid cs /\ (exists o, In o ovs /\ ov_idx o = K) /\
     forall x, leaf x -> (cov cs x <-> covered_by ovs K x)) /\
  (forall o, In o ovs -> exists cs, In (ov_idx o, cs) G).

Lemma groups_spec : forall ovs, (forall o, In o ovs -> ov_range_ok o) -> Gspec ovs (fold_left o2i_step ovs []).
Proof.
  induction ovs as [|o ovs IH] using rev_ind; intros Hok.
  - cbn [fold_left]. split; [constructor|]. split; [intros K cs []|intros o []].
  - rewrite fold_left_app. cbn [fold_left]. rewrite o2i_step_eq.
    destruct IH as (G1 & G2 & G3); [intros o' Ho'; apply Hok; apply in_or_app; left; exact Ho'|].
    set (G := fold_left o2i_step ovs []) in *.
    assert (Oko : ov_range_ok o) by (apply Hok; apply in_or_app; right; left; reflexivity).
    destruct (ov_range_cells o Oko) as [Vc Cc].
    set (cells := cu_FromRange (ov_s o) (s2_CellID_Next (ov_e o))) in *.
    destruct (group_add_spec (ov_idx o) cells G G1) as (N1 & N2 & N3 & N4 & _).
    assert (Hcb : forall K x, covered_by (ovs ++ [o]) K x <->
                   covered_by ovs K x \/ (ov_idx o = K /\ ov_s o <= x <= ov_e o)).
    { intros K x. unfold covered_by. split.
      - intros (o' & Hin & Hk & Hx). apply in_app_or in Hin. destruct Hin as [Hin|[<-|[]]].
        + left. exists o'. split; [exact Hin|]. split; assumption.
        + right. split; assumption.
      - intros [(o' & Hin & Hk & Hx)|[Hk Hx]].
        + exists o'. split; [apply in_or_app; left; exact Hin|]. split; assumption.
        + exists o. split; [apply in_or_app; right; left; reflexivity|]. split; assumption. }
    split; [exact N1|]. split.
    + intros K cs' Hin. destruct (N2 K cs' Hin) as [[Hk Hin']|[-> [[-> Hni]|(cs & Hin' & ->)]]].
      * destruct (G2 K cs' Hin') as (V & (o' & Ho' & Hk') & C).
        split; [exact V|]. split; [exists o'; split; [apply in_or_app; left; exact Ho'|exact Hk']|].
        intros x Lx. rewrite (C x Lx), Hcb. split; [intros H; left; exact H|intros [H|[H _]]; [exact H|congruence]].
      * split; [exact Vc|]. split; [exists o; split; [apply in_or_app; right; left; reflexivity|reflexivity]|].
        intros x Lx. rewrite (Cc x Lx), Hcb. split; [intros H; right; split; [reflexivity|exact H]|].
        intros [(o' & Ho' & Hk' & _)|[_ H]]; [|exact H]. exfalso. apply Hni.
        destruct (G3 o' Ho') as (cs & Hcs). rewrite Hk' in Hcs.
        apply in_map_iff. exists (ov_idx o, cs). split; [reflexivity|exact Hcs].
      * destruct (G2 (ov_idx o) cs Hin') as (V & _ & C).
        split; [apply Forall_app; split; assumption|].
        split; [exists o; split; [apply in_or_app; right; left; reflexivity|reflexivity]|].
        intros x Lx. rewrite cov_app, (C x Lx), (Cc x Lx), Hcb. split.
        -- intros [H|H]; [left; exact H|right; split; [reflexivity|exact H]].
        -- intros [H|[_ H]]; [left; exact H|right; exact H].
    + intros o' Hin. apply in_app_or in Hin. destruct Hin as [Hin|[<-|[]]].
      * destruct (G3 o' Hin) as (cs & Hcs). exact (N3 _ _ Hcs).
      * exact N4.
Qed.

Lemma o2i_unfold ovs :
  overlaps_to_intersections ovs = map (fun kc => (fst kc, cu_Normalize (snd kc))) (fold_left o2i_step ovs []).
Proof. reflexivity. Qed.

Theorem o2i_spec (M : Z -> list Z) ovs :
  (forall o, In o ovs -> ov_range_ok o /\ (2 <= length (ov_idx o))%nat /\
                         forall x, leaf x -> ov_s o <= x <= ov_e o -> M x = ov_idx o) ->
  (forall x, leaf x -> (2 <= length (M x))%nat -> exists o, In o ovs /\ ov_s o <= x <= ov_e o) ->
  let R := overlaps_to_intersections ovs in
  (forall S cells, In (S, cells) R ->
      (2 <= length S)%nat /\ normal cells /\ cells <> [] /\
      forall x, leaf x -> (cov cells x <-> M x = S)) /\
  (forall x, leaf x -> (2 <= length (M x))%nat -> exists cells, In (M x, cells) R) /\
  NoDup (map fst R).
Proof.
  intros Hsound Hcomp. cbn zeta. rewrite o2i_unfold.
  destruct (groups_spec ovs) as (G1 & G2 & G3); [intros o Ho; exact (proj1 (Hsound o Ho))|].
  set (G := fold_left o2i_step ovs []) in *.
  split; [|split].
  - intros S cells Hin. apply in_map_iff in Hin. destruct Hin as ([K cs] & Heq & Hin).
    cbn [fst snd] in Heq. inversion Heq; subst S cells. clear Heq.
    destruct (G2 K cs Hin) as (V & (o & Ho & Hk) & C).
    destruct (Hsound o Ho) as ((Vs & Ve & Hse) & H2 & HM).
    destruct (normalize_spec cs V) as [Nn Cn].
    split; [rewrite <- Hk; exact H2|]. split; [exact Nn|].
    assert (Hiff : forall x, leaf x -> (cov (cu_Normalize cs) x <-> M x = K)).
    { intros x Lx. rewrite (Cn x Lx), (C x Lx). split.
      - intros (o' & Ho' & Hk' & Hx). rewrite <- Hk'. exact (proj2 (proj2 (Hsound o' Ho')) x Lx Hx).
      - intros HMx. destruct (Hcomp x Lx) as (o' & Ho' & Hx); [rewrite HMx, <- Hk; exact H2|].
        exists o'. split; [exact Ho'|]. split; [|exact Hx].
        rewrite <- HMx. symmetry. exact (proj2 (proj2 (Hsound o' Ho')) x Lx Hx). }
    split; [|exact Hiff].
    intros Hnil. assert (Hc : cov (cu_Normalize cs) (ov_s o)).
    { apply (Hiff _ (proj1 Vs)). rewrite <- Hk. apply HM; [exact (proj1 Vs)|lia]. }
    rewrite Hnil in Hc. exact (cov_nil _ Hc).
  - intros x Lx H2. destruct (Hcomp x Lx H2) as (o & Ho & Hx).
    destruct (G3 o Ho) as (cs & Hcs).
    rewrite (proj2 (proj2 (Hsound o Ho)) x Lx Hx).
    exists (cu_Normalize cs). apply in_map_iff. exists (ov_idx o, cs). split; [reflexivity|exact Hcs].
  - rewrite map_map. cbn [fst]. exact G1.
Qed.
