(** C03 — (a) the interface laws are jointly satisfiable (a concrete instance),
    (b) the vertex a two-argument call passes may replace the cached == vertex,
    (c) AngleContainsVertex property (3): around a vertex exactly one wedge contains it. *)
From Coq Require Import ZArith List Bool Lia ZifyBool.
From Geo Require Import Model.Crosser Proofs.C03_Crosser Proofs.C03_Vertex.
Import ListNotations.
Local Open Scope Z_scope.
Local Open Scope bool_scope.

(** * (a) An instance of all the laws: points on a convex curve, indexed by integers *)
Module Instance.
Definition point := Z.
Definition peq := Z.eqb.
Definition sign (a b c : Z) : Z := Z.sgn ((b - a) * (c - b) * (c - a)).
Definition triage (a b c : Z) : Z := 0.
Definition tangent (a b c d : Z) : bool := false.
Definition refdir (p : Z) : Z := p + 1.

Lemma peq_refl : law_peq_refl point peq. Proof. intro a. apply Z.eqb_refl. Qed.
Lemma peq_sym : law_peq_sym point peq. Proof. intros a b. apply Z.eqb_sym. Qed.
Lemma peq_trans : law_peq_trans point peq.
Proof. unfold law_peq_trans, peq. intros. lia. Qed.
Lemma sign_rotate : law_sign_rotate point sign.
Proof. intros a b c. unfold sign. f_equal. ring. Qed.
Lemma sign_swap : law_sign_swap point sign.
Proof.
  intros a b c. unfold sign. rewrite <- Z.sgn_opp. f_equal. ring.
Qed.
Lemma sign_range : law_sign_range point sign.
Proof. intros a b c. unfold sign. lia. Qed.
Lemma sign_zero_iff : law_sign_zero_iff point peq sign.
Proof.
  intros a b c. unfold sign, peq. rewrite Z.sgn_null_iff, !Z.mul_eq_0, !Z.eqb_eq. lia.
Qed.
Lemma sign_peq : law_sign_peq point peq sign.
Proof. intros a b c c' H. apply Z.eqb_eq in H. now subst. Qed.
Lemma triage_sound : law_triage_sound point sign triage.
Proof. intros a b c H. now elim H. Qed.
Lemma tangent_sound : law_tangent_sound point peq sign tangent.
Proof. intros a b c d H. discriminate. Qed.
End Instance.

(** the premises of the main theorems can all be met at once *)
Example laws_satisfiable :
  let point := Instance.point in let peq := Instance.peq in let sign := Instance.sign in
  let triage := Instance.triage in let tangent := Instance.tangent in
    law_peq_refl point peq /\ law_peq_sym point peq /\ law_peq_trans point peq /\
    law_sign_rotate point sign /\ law_sign_swap point sign /\ law_sign_range point sign /\
    law_sign_zero_iff point peq sign /\ law_sign_peq point peq sign /\
    law_triage_sound point sign triage /\ law_tangent_sound point peq sign tangent /\
    (* and the instance is not trivial: edges 0-2 and 1-3 on the curve cross, 0-1 and 2-3 do not *)
    crossing_spec point peq sign 0 2 1 3 = Cross /\ crossing_spec point peq sign 0 1 2 3 = DoNotCross.
Proof.
  cbv zeta.
  split; [exact Instance.peq_refl|]. split; [exact Instance.peq_sym|].
  split; [exact Instance.peq_trans|]. split; [exact Instance.sign_rotate|].
  split; [exact Instance.sign_swap|]. split; [exact Instance.sign_range|].
  split; [exact Instance.sign_zero_iff|]. split; [exact Instance.sign_peq|].
  split; [exact Instance.triage_sound|]. split; [exact Instance.tangent_sound|].
  split; vm_compute; reflexivity.
Qed.

Section Congruence.
Variable point : Type.
Variable peq : point -> point -> bool.
Variable sign : point -> point -> point -> Z.
Variable refdir : point -> point.

Hypothesis peq_sym : forall a b, peq a b = peq b a.
Hypothesis peq_trans : forall a b c, peq a b = true -> peq b c = true -> peq a c = true.
Hypothesis sign_rotate : forall a b c, sign b c a = sign a b c.
Hypothesis sign_peq : forall a b c c', peq c c' = true -> sign a b c = sign a b c'.

Notation spec := (crossing_spec point peq sign).
Notation espec := (eov_spec point peq sign refdir).
Notation occw := (ordered_ccw point sign).

Lemma peq_congr_r a c c' : peq c c' = true -> peq a c = peq a c'.
Proof.
  intro H. destruct (peq a c) eqn:E1, (peq a c') eqn:E2; auto.
  - rewrite (peq_trans a c c' E1 H) in E2. discriminate.
  - rewrite (peq_sym c c') in H. rewrite (peq_trans a c' c E2 H) in E1. discriminate.
Qed.
Lemma peq_congr_l a c c' : peq c c' = true -> peq c a = peq c' a.
Proof. intro H. rewrite (peq_sym c a), (peq_sym c' a). now apply peq_congr_r. Qed.

Lemma sign_peq3 a b c c' : peq c c' = true -> sign a b c = sign a b c'.
Proof. apply sign_peq. Qed.
Lemma sign_peq2 a b c c' : peq c c' = true -> sign a c b = sign a c' b.
Proof. intro H. rewrite (sign_rotate b a c), (sign_rotate b a c'). now apply sign_peq. Qed.
Lemma sign_peq1 a b c c' : peq c c' = true -> sign c a b = sign c' a b.
Proof. intro H. rewrite <- (sign_rotate c a b), <- (sign_rotate c' a b). now apply sign_peq. Qed.

Lemma occw_congr2 r c c' x o : peq c c' = true -> occw r c x o = occw r c' x o.
Proof.
  intro H. unfold ordered_ccw.
  now rewrite (sign_peq1 o r c c' H), (sign_peq3 x o c c' H).
Qed.

Lemma spec_congr a b c c' d : peq c c' = true -> spec a b c d = spec a b c' d.
Proof.
  intro H. unfold crossing_spec, shared, degenerate, four_agree.
  rewrite (peq_congr_r a c c' H), (peq_congr_r b c c' H), (peq_congr_l d c c' H).
  now rewrite (sign_peq2 a b c c' H), (sign_peq1 b d c c' H), (sign_peq3 d a c c' H).
Qed.

Lemma vc_congr a b c c' d : peq c c' = true ->
  vertex_crossing point peq sign refdir a b c d = vertex_crossing point peq sign refdir a b c' d.
Proof.
  intro H. unfold vertex_crossing.
  rewrite (peq_congr_r a c c' H), (peq_congr_r b c c' H), (peq_congr_l d c c' H).
  now rewrite (occw_congr2 (refdir b) c c' a b H), (occw_congr2 (refdir a) c c' b a H).
Qed.

(** the cached vertex a two-argument call keeps (because it is == to the argument) gives the
    same answers as the argument itself *)
Theorem eff_irrelevant a b p c d :
  spec a b (eff point peq p c) d = spec a b c d /\
  espec a b (eff point peq p c) d = espec a b c d.
Proof.
  unfold eff. destruct (peq c p) eqn:E; cbn [negb]; [|split; reflexivity].
  rewrite (peq_sym c p) in E.
  unfold eov_spec. rewrite (spec_congr a b p c d E), (vc_congr a b p c d E). split; reflexivity.
Qed.

End Congruence.

(** * (c) exactly one wedge around a vertex contains it *)
Lemma last_cons_cons {A} : forall (t : list A) (w v : A), last (w :: t) v = last t w.
Proof.
  induction t as [|a t IH]; intros w v; [reflexivity|].
  change (last (w :: a :: t) v) with (last (a :: t) v). rewrite (IH a v), (IH a w). reflexivity.
Qed.
Lemma last_in {A} : forall (t : list A) (w : A), In (last t w) (w :: t).
Proof.
  induction t as [|a t IH]; intro w; [left; reflexivity|].
  right. rewrite last_cons_cons. apply IH.
Qed.

Section Wedges.
Variable point : Type.
Variable peq : point -> point -> bool.
Variable sign : point -> point -> point -> Z.
Variable refdir : point -> point.

Hypothesis peq_sym : forall a b, peq a b = peq b a.
Hypothesis sign_swap : forall a b c, sign c b a = - sign a b c.
Hypothesis sign_range : forall a b c, sign a b c = -1 \/ sign a b c = 0 \/ sign a b c = 1.
Hypothesis sign_zero_iff : forall a b c,
  sign a b c = 0 <-> (peq a b = true \/ peq b c = true \/ peq c a = true).

Notation occw := (ordered_ccw point sign).
Notation acv := (angle_contains_vertex point sign refdir).

Variable o : point.

(** the cyclic-order law of OrderedCCW, as far as it is used here: four rays r,u,v,w around o
    with r = refdir o: if u,v,w are met in this order sweeping CCW, the wedge (u,w] is the
    disjoint union of (u,v] and (v,w]. *)
Hypothesis split_o : forall u v w,
  peq u o = false -> peq v o = false -> peq w o = false ->
  peq u v = false -> peq v w = false -> peq u w = false ->
  occw u v w o = true ->
  Z.b2z (negb (occw (refdir o) u w o)) =
  Z.b2z (negb (occw (refdir o) u v o)) + Z.b2z (negb (occw (refdir o) v w o)).


(** the wedge from u CCW to v contains the vertex: AngleContainsVertex(v, o, u) *)
Definition wedge (u v : point) : Z := Z.b2z (acv v o u).

(** v_1 .. v_k listed in CCW order around o: pairwise distinct, different from o, and every
    three of them (in list order) are OrderedCCW *)
Fixpoint pairs_ok (x : point) (l : list point) : Prop :=
  match l with
  | [] => True
  | y :: t => (peq x y = false /\ Forall (fun z => peq y z = false /\ peq x z = false /\ occw x y z o = true) t)
              /\ pairs_ok x t
  end.
Fixpoint ccw_listed (l : list point) : Prop :=
  match l with
  | [] => True
  | x :: t => peq x o = false /\ pairs_ok x t /\ ccw_listed t
  end.

(** number of consecutive wedges (v_i, v_{i+1}], i < k, that contain the vertex *)
Fixpoint open_count (l : list point) : Z :=
  match l with
  | u :: (v :: _) as t => wedge u v + open_count t
  | _ => 0
  end.

Lemma pairs_ok_head x y t : pairs_ok x (y :: t) -> peq x y = false.
Proof. cbn. tauto. Qed.

Lemma pairs_ok_in x y t z : pairs_ok x (y :: t) -> In z t ->
  peq y z = false /\ peq x z = false /\ occw x y z o = true.
Proof.
  cbn. intros [[_ F] _] I. rewrite Forall_forall in F. exact (F z I).
Qed.

Lemma ccw_listed_ne l x : ccw_listed l -> In x l -> peq x o = false.
Proof.
  induction l as [|y t IH]; cbn; [tauto|]. intros (H1 & _ & H3) [->|I]; auto.
Qed.

Lemma open_count_chain : forall l u v, ccw_listed (u :: v :: l) ->
  open_count (u :: v :: l) = wedge u (last l v).
Proof.
  induction l as [|w t IH]; intros u v H.
  - cbn. lia.
  - change (open_count (u :: v :: w :: t)) with (wedge u v + open_count (v :: w :: t)).
    assert (Hv : ccw_listed (v :: w :: t)) by (cbn in H; cbn; tauto).
    rewrite (IH v w Hv).
    rewrite (last_cons_cons t w v).
    set (z := last t w).
    assert (Iz : In z (w :: t)) by apply last_in.
    destruct H as (Hu & Hp & _).
    pose proof (pairs_ok_head _ _ _ Hp) as Huv.
    pose proof (pairs_ok_in _ _ _ _ Hp Iz) as (Hvz & Huz & Ho).
    assert (Hvo : peq v o = false) by (apply (ccw_listed_ne _ v Hv); left; reflexivity).
    assert (Hzo : peq z o = false) by (apply (ccw_listed_ne _ z Hv); right; exact Iz).
    unfold wedge, angle_contains_vertex.
    pose proof (split_o u v z Hu Hvo Hzo Huv Hvz Huz Ho). lia.
Qed.

(** AngleContainsVertex property (3): given v_1 .. v_k (k >= 2) in CCW order around o, exactly
    one of the k wedges (v_i, v_{i+1}] (cyclically) contains the vertex, i.e.
    AngleContainsVertex(v_{i+1}, o, v_i) is true for exactly one i. *)
Theorem acv_exactly_one_wedge_at : forall u v l, ccw_listed (u :: v :: l) ->
  open_count (u :: v :: l) + wedge (last l v) u = 1.
Proof.
  intros u v l H. rewrite (open_count_chain l u v H).
  set (z := last l v).
  assert (Iz : In z (v :: l)) by apply last_in.
  destruct H as (Hu & Hp & Hv).
  assert (Huz : peq u z = false).
  { destruct Iz as [<-|I]; [exact (pairs_ok_head _ _ _ Hp)|].
    exact (proj1 (proj2 (pairs_ok_in _ _ _ _ Hp I))). }
  assert (Hzo : peq z o = false) by (apply (ccw_listed_ne _ z Hv); exact Iz).
  unfold wedge.
  rewrite (acv_flip point peq sign refdir peq_sym sign_swap sign_range sign_zero_iff z o u Hzo Hu).
  - destruct (acv u o z); reflexivity.
  - rewrite (peq_sym z u). exact Huz.
Qed.

End Wedges.

(** from the unguarded law (kept for its users; the law itself needs a guard to hold of the real
    predicate, see Proofs/C03_Cyclic.v [acv_exactly_one_wedge_ne]) *)
Theorem acv_exactly_one_wedge (point : Type) (peq : point -> point -> bool)
    (sign : point -> point -> point -> Z) (refdir : point -> point)
    (peq_sym : forall a b, peq a b = peq b a)
    (sign_swap : forall a b c, sign c b a = - sign a b c)
    (sign_range : forall a b c, sign a b c = -1 \/ sign a b c = 0 \/ sign a b c = 1)
    (sign_zero_iff : forall a b c,
       sign a b c = 0 <-> (peq a b = true \/ peq b c = true \/ peq c a = true))
    (occw_split : law_occw_split point peq sign) (o : point) :
  forall u v l, ccw_listed point peq sign o (u :: v :: l) ->
    open_count point sign refdir o (u :: v :: l) + wedge point sign refdir o (last l v) u = 1.
Proof.
  apply (acv_exactly_one_wedge_at point peq sign refdir peq_sym sign_swap sign_range sign_zero_iff o).
  intros u v w. apply occw_split.
Qed.

(** sanity check of [law_occw_split] on the instance above: all five-tuples with coordinates
    in 0..6 (r may coincide with u, v, w or o) *)
Definition occw_split_check (r u v w o : Z) : bool :=
  let occw := ordered_ccw Instance.point Instance.sign in
  if negb (u =? o) && negb (v =? o) && negb (w =? o) && negb (u =? v) && negb (v =? w) && negb (u =? w)
     && occw u v w o
  then Z.b2z (negb (occw r u w o)) =? Z.b2z (negb (occw r u v o)) + Z.b2z (negb (occw r v w o))
  else true.
Definition range7 : list Z := [0; 1; 2; 3; 4; 5; 6].
Example occw_split_instance_0_6 :
  forallb (fun r => forallb (fun u => forallb (fun v => forallb (fun w => forallb (fun o =>
    occw_split_check r u v w o) range7) range7) range7) range7) range7 = true.
Proof. vm_compute. reflexivity. Qed.
