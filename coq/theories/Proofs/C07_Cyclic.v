(** C07 — lemmas on the cyclic edge and wedge lists of Model/Relations.v: membership by index,
    behaviour under reversal (Loop.Invert), uniqueness and distinctness for duplicate-free
    vertex lists. Pure list reasoning, no geometric premise. *)
From Coq Require Import List Bool Arith Lia.
From Geo Require Import Model.Relations.
Import ListNotations.

Lemma succ_i_lt n i : i < n -> succ_i n i < n.
Proof. unfold succ_i. destruct (Nat.eqb (S i) n) eqn:E; [|apply Nat.eqb_neq in E]; lia. Qed.
Lemma pred_i_lt n i : i < n -> pred_i n i < n.
Proof. unfold pred_i. destruct (Nat.eqb i 0); lia. Qed.

Section Cyclic.
  Variable point : Type.
  Notation cyc_edges := (cyc_edges point).
  Notation cyc_wedges := (cyc_wedges point).

  Lemma in_cyc_edges (l : list point) d e :
    In e (cyc_edges l) <->
    exists i, i < length l /\ e = (nth i l d, nth (succ_i (length l) i) l d).
  Proof.
    destruct l as [|x t]; [simpl; split; [tauto|intros [i [H _]]; lia]|].
    unfold Relations.cyc_edges. rewrite in_map_iff. split.
    - intros [i [E Hi]]. apply in_seq in Hi. exists i. split; [lia|]. subst e.
      f_equal; apply nth_indep; [lia|apply succ_i_lt; lia].
    - intros [i [Hi E]]. exists i. split; [|apply in_seq; lia]. subst e.
      f_equal; apply nth_indep; [lia|apply succ_i_lt; lia].
  Qed.

  Lemma in_cyc_wedges (l : list point) d w :
    In w (cyc_wedges l) <->
    exists i, i < length l /\
      w = (nth (pred_i (length l) i) l d, nth i l d, nth (succ_i (length l) i) l d).
  Proof.
    destruct l as [|x t]; [simpl; split; [tauto|intros [i [H _]]; lia]|].
    unfold Relations.cyc_wedges. rewrite in_map_iff. split.
    - intros [i [E Hi]]. apply in_seq in Hi. exists i. split; [lia|]. subst w.
      f_equal; [f_equal|]; apply nth_indep; try lia; [apply pred_i_lt|apply succ_i_lt]; lia.
    - intros [i [Hi E]]. exists i. split; [|apply in_seq; lia]. subst w.
      f_equal; [f_equal|]; apply nth_indep; try lia; [apply pred_i_lt|apply succ_i_lt]; lia.
  Qed.

  (** reversal of the vertex list reverses every edge and flips every wedge *)
  Lemma in_cyc_edges_rev (l : list point) a b :
    In (a, b) (cyc_edges (rev l)) <-> In (b, a) (cyc_edges l).
  Proof.
    destruct l as [|x t]; [simpl; tauto|].
    set (l := x :: t). assert (Hn : 0 < length l) by (simpl; lia).
    rewrite (in_cyc_edges (rev l) x), (in_cyc_edges l x).
    assert (K : forall (l1 l2 : list point) a b, length l1 = length l2 -> 0 < length l1 ->
              (forall i, i < length l1 -> nth i l1 x = nth (length l1 - S i) l2 x) ->
              (exists i, i < length l1 /\ (a, b) = (nth i l1 x, nth (succ_i (length l1) i) l1 x)) ->
              exists j, j < length l2 /\ (b, a) = (nth j l2 x, nth (succ_i (length l2) j) l2 x)).
    { clear. intros l1 l2 a b HL Hn R [i [Hi E]]. injection E as Ea Eb.
      pose proof (succ_i_lt _ _ Hi) as Hs.
      exists (length l1 - S (succ_i (length l1) i)). split; [lia|].
      rewrite Ea, Eb, (R i Hi), (R _ Hs), <- HL. f_equal. f_equal.
      unfold succ_i in *. destruct (Nat.eqb (S i) (length l1)) eqn:E1.
      - apply Nat.eqb_eq in E1.
        replace (Nat.eqb (S (length l1 - 1)) (length l1)) with true
          by (symmetry; apply Nat.eqb_eq; lia). lia.
      - apply Nat.eqb_neq in E1.
        replace (Nat.eqb (S (length l1 - S (S i))) (length l1)) with false
          by (symmetry; apply Nat.eqb_neq; lia). lia. }
    split.
    - intro H. apply (K (rev l) l a b); [apply rev_length|rewrite rev_length; exact Hn| |exact H].
      intros i Hi. rewrite rev_length in *. now apply rev_nth.
    - intro H. apply (K l (rev l) b a); [now rewrite rev_length|exact Hn| |exact H].
      intros i Hi. rewrite <- (rev_involutive l) at 1. rewrite rev_nth; rewrite rev_length; [reflexivity|lia].
  Qed.

  Lemma in_cyc_wedges_rev (l : list point) p v n :
    In (p, v, n) (cyc_wedges (rev l)) <-> In (n, v, p) (cyc_wedges l).
  Proof.
    destruct l as [|x t]; [simpl; tauto|].
    set (l := x :: t). assert (Hn : 0 < length l) by (simpl; lia).
    rewrite (in_cyc_wedges (rev l) x), (in_cyc_wedges l x).
    assert (K : forall (l1 l2 : list point) p v n, length l1 = length l2 -> 0 < length l1 ->
              (forall i, i < length l1 -> nth i l1 x = nth (length l1 - S i) l2 x) ->
              (exists i, i < length l1 /\
                 (p, v, n) = (nth (pred_i (length l1) i) l1 x, nth i l1 x, nth (succ_i (length l1) i) l1 x)) ->
              exists j, j < length l2 /\
                 (n, v, p) = (nth (pred_i (length l2) j) l2 x, nth j l2 x, nth (succ_i (length l2) j) l2 x)).
    { clear. intros l1 l2 p v n HL Hn R [i [Hi E]]. injection E as Ep Ev En.
      pose proof (succ_i_lt _ _ Hi) as Hs. pose proof (pred_i_lt _ _ Hi) as Hp.
      exists (length l1 - S i). split; [lia|].
      rewrite Ep, Ev, En, (R i Hi), (R _ Hs), (R _ Hp), <- HL.
      f_equal; [f_equal|]; f_equal; unfold succ_i, pred_i in *.
      - destruct (Nat.eqb (S i) (length l1)) eqn:E1.
        + apply Nat.eqb_eq in E1. replace (Nat.eqb (length l1 - S i) 0) with true
            by (symmetry; apply Nat.eqb_eq; lia). lia.
        + apply Nat.eqb_neq in E1. replace (Nat.eqb (length l1 - S i) 0) with false
            by (symmetry; apply Nat.eqb_neq; lia). lia.
      - destruct (Nat.eqb i 0) eqn:E1.
        + apply Nat.eqb_eq in E1. replace (Nat.eqb (S (length l1 - S i)) (length l1)) with true
            by (symmetry; apply Nat.eqb_eq; lia). lia.
        + apply Nat.eqb_neq in E1. replace (Nat.eqb (S (length l1 - S i)) (length l1)) with false
            by (symmetry; apply Nat.eqb_neq; lia). lia. }
    split.
    - intro H. apply (K (rev l) l p v n); [apply rev_length|rewrite rev_length; exact Hn| |exact H].
      intros i Hi. rewrite rev_length in *. now apply rev_nth.
    - intro H. apply (K l (rev l) n v p); [now rewrite rev_length|exact Hn| |exact H].
      intros i Hi. rewrite <- (rev_involutive l) at 1. rewrite rev_nth; rewrite rev_length; [reflexivity|lia].
  Qed.

  (** the wedge around a vertex of a duplicate-free list is unique, its three points distinct *)
  Lemma cyc_wedges_unique (l : list point) p v n p' n' :
    NoDup l -> In (p, v, n) (cyc_wedges l) -> In (p', v, n') (cyc_wedges l) -> p = p' /\ n = n'.
  Proof.
    intros ND H1 H2. destruct l as [|x t]; [simpl in H1; tauto|].
    apply (in_cyc_wedges _ x) in H1. apply (in_cyc_wedges _ x) in H2.
    destruct H1 as [i [Hi E1]], H2 as [j [Hj E2]].
    assert (i = j) by (apply (proj1 (NoDup_nth (x :: t) x) ND); [assumption..|congruence]).
    subst j. split; congruence.
  Qed.

  Lemma cyc_wedges_distinct (l : list point) p v n :
    NoDup l -> 3 <= length l -> In (p, v, n) (cyc_wedges l) -> p <> v /\ n <> v /\ p <> n.
  Proof.
    intros ND H3 H1. destruct l as [|x t]; [simpl in H1; tauto|].
    apply (in_cyc_wedges _ x) in H1. destruct H1 as [i [Hi E1]]. injection E1 as -> -> ->.
    pose proof (succ_i_lt _ _ Hi) as Hs. pose proof (pred_i_lt _ _ Hi) as Hp.
    pose proof (proj1 (NoDup_nth (x :: t) x) ND) as U.
    assert (Dp : pred_i (length (x :: t)) i <> i)
      by (unfold pred_i; destruct (Nat.eqb i 0) eqn:E; [apply Nat.eqb_eq in E|apply Nat.eqb_neq in E]; lia).
    assert (Ds : succ_i (length (x :: t)) i <> i)
      by (unfold succ_i; destruct (Nat.eqb (S i) (length (x :: t))) eqn:E; [apply Nat.eqb_eq in E|apply Nat.eqb_neq in E]; lia).
    assert (Dps : pred_i (length (x :: t)) i <> succ_i (length (x :: t)) i).
    { unfold pred_i, succ_i.
      destruct (Nat.eqb i 0) eqn:E; [apply Nat.eqb_eq in E|apply Nat.eqb_neq in E];
      destruct (Nat.eqb (S i) (length (x :: t))) eqn:E'; [apply Nat.eqb_eq in E'|apply Nat.eqb_neq in E'|apply Nat.eqb_eq in E'|apply Nat.eqb_neq in E']; lia. }
    repeat split; intro Q; [apply Dp|apply Ds|apply Dps]; apply U; assumption.
  Qed.

  Lemma cyc_wedges_vertex (l : list point) v :
    In v l <-> exists p n, In (p, v, n) (cyc_wedges l).
  Proof.
    destruct l as [|x t]; [simpl; split; [tauto|intros [? [? []]]]|]. split.
    - intro H. destruct (In_nth _ _ x H) as [i [Hi E]].
      eexists _, _. apply (in_cyc_wedges _ x). exists i. split; [exact Hi|]. rewrite E. reflexivity.
    - intros [p [n H]]. apply (in_cyc_wedges _ x) in H. destruct H as [i [Hi E]].
      injection E as _ Ev _. rewrite Ev. exact (nth_In (x :: t) x Hi).
  Qed.

  Lemma cyc_edges_vertex (l : list point) a b : In (a, b) (cyc_edges l) -> In a l /\ In b l.
  Proof.
    destruct l as [|x t]; [simpl; tauto|]. intro H. apply (in_cyc_edges _ x) in H.
    destruct H as [i [Hi E]]. injection E as Ea Eb. rewrite Ea, Eb.
    split; [exact (nth_In (x :: t) x Hi)|exact (nth_In (x :: t) x (succ_i_lt _ _ Hi))].
  Qed.
End Cyclic.
