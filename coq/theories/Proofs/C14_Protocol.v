(** C14: the lazy-update protocol of ShapeIndex.maybeApplyUpdates under every interleaving of
    N >= 1 reader goroutines (Model/Conc.v): mutual exclusion, no data race on the cell map,
    pending updates applied exactly once, every read sees the final version (= the serial
    answer), progress and termination. All by one inductive invariant over the step function. *)
From Coq Require Import List Bool Arith Lia.
From Geo Require Import Model.Conc.
Import ListNotations.

Definition early_pc (p : pc) : bool := match p with L0 | L1 | L2 | L3 | L3w | Done => true | _ => false end.
Definition synced_pc (p : pc) : bool := match p with L3 | L3w | L4 | L5 | R | Rd => true | _ => false end.
Definition entry_pc (p : pc) : bool := match p with L0 | L1 => true | _ => false end.

Section Invariant.
  Variable b0 : nat.      (* version of the cell map when the goroutines start *)
  Variable p0 : bool.     (* something was pending when they start *)
  Definition final : nat := b0 + b2n p0.

  (** per goroutine *)
  Record tinv (s : state) (u : nat) (th : thread) : Prop := {
    t_entry : entry_pc (entry th) = true;
    t_crit  : in_critical (tpc th) = true <-> mu s = Some u;
    t_pend  : pending s = true -> early_pc (tpc th) = true /\ reads th = [] /\ seen th = built s;
    t_w     : tpc th = L3w -> pending s = true;
    t_le    : seen th <= built s;
    t_eq    : synced_pc (tpc th) = true -> seen th = built s;
    t_reads : forall v, In v (reads th) -> v = final
  }.

  (** shared *)
  Record sinv (s : state) : Prop := {
    s_mu    : forall h, mu s = Some h -> h < nthr s;
    s_pend  : pending s = true -> fresh s = false;
    s_smsg  : fresh s = true -> smsg s = built s;
    s_mmsg  : mu s = None -> mmsg s = built s;
    s_wr    : writes s + b2n (pending s) = b2n p0;
    s_built : built s + b2n (pending s) = final;
    s_log   : length (writers s) = writes s
  }.

  Definition inv (s : state) : Prop := sinv s /\ forall u, u < nthr s -> tinv s u (thr s u).

  Lemma inv_init n fresh0 entries todos earlies :
    (p0 = true -> fresh0 = false) -> (forall t, entry_pc (entries t) = true) ->
    inv (init n b0 fresh0 p0 entries todos earlies).
  Proof.
    intros Hp He. split.
    - constructor; cbn; auto; try discriminate; try (unfold final; reflexivity).
    - intros u Hu. cbn. specialize (He u). constructor; cbn; auto; try lia.
      + destruct (entries u); cbn in *; try discriminate; split; discriminate.
      + intros _. destruct (entries u); cbn in *; try discriminate; auto.
      + destruct (entries u); cbn in *; discriminate.
  Qed.

  Ltac close := first [ solve [auto] | solve [intros; congruence] | solve [intros; lia] | solve [intros; discriminate]
                      | solve [split; intros; congruence] | solve [intros; auto] | idtac ].
  Ltac pcs := repeat match goal with
    | H : tpc ?x = _ |- context [tpc ?x] => rewrite H
    | H : tpc ?x = _, H' : context [tpc ?x] |- _ => rewrite H in H'
    end.

  (** the invariant is preserved by every step of every goroutine *)
  Lemma step_inv s t s' : inv s -> step s t = Some s' -> inv s'.
  Proof.
    intros [HS HT]. unfold step. destruct (Nat.leb_spec (nthr s) t) as [|Ht]; [discriminate|].
    pose proof (HT t Ht) as Tt. destruct HS as [Smu Spend Ssmsg Smmsg Swr Sbuilt Slog].
    destruct Tt as [Te Tc Tp Tw Tle Teq Tr].
    destruct (tpc (thr s t)) eqn:Epc; cbn [in_critical early_pc synced_pc] in *.
    - (* L0 *)
      destruct (negb (fresh s) && early (thr s t)) eqn:Ee; intros E; inversion E; subst s'; clear E;
      (split; [constructor; cbn; auto|]); intros u Hu; cbn in Hu |- *; unfold upd;
      destruct (Nat.eqb_spec u t) as [->|Hne]; try (destruct (HT u Hu); constructor; cbn; auto; fail);
      constructor; cbn; auto; try (intros Hp; destruct (Tp Hp) as (_ & ? & ?); rewrite (Spend Hp); auto);
      try discriminate;
      try (destruct (fresh s) eqn:Ef; [rewrite (Ssmsg eq_refl); lia|assumption]).
    - (* L1 *)
      destruct (fresh s) eqn:Ef; intros E; inversion E; subst s'; clear E;
      (split; [constructor; cbn; auto; rewrite ?Ef; auto|]); intros u Hu; cbn in Hu |- *; unfold upd;
      destruct (Nat.eqb_spec u t) as [->|Hne]; try (destruct (HT u Hu); constructor; cbn; rewrite ?Ef; auto; fail);
      constructor; cbn; auto; try discriminate; rewrite ?Ef in *;
      try (intros Hp; specialize (Spend Hp); discriminate);
      try (rewrite (Ssmsg eq_refl); lia);
      try (intros Hp; destruct (Tp Hp) as (_ & ? & ?); auto).
    - (* L2 *)
      destruct (mu s) as [h|] eqn:Emu; [discriminate|]. intros E; inversion E; subst s'; clear E.
      split.
      + constructor; cbn; auto; try discriminate. intros h Hh. inversion Hh; subst; exact Ht.
      + intros u Hu. cbn in Hu |- *. unfold upd. destruct (Nat.eqb_spec u t) as [->|Hne].
        * constructor; cbn; auto; try discriminate.
          -- split; auto.
          -- intros Hp. destruct (Tp Hp) as (_ & ? & ?). rewrite (Smmsg eq_refl). split; [reflexivity|split; [assumption|lia]].
          -- rewrite (Smmsg eq_refl). lia.
          -- intros _. rewrite (Smmsg eq_refl). lia.
        * destruct (HT u Hu) as [Ue Uc Up Uw Ule Ueq Ur]. constructor; cbn; auto.
          split.
          -- intros Hc. apply Uc in Hc. congruence.
          -- intros Hc. inversion Hc. congruence.
    - (* L3 *)
      destruct (pending s) eqn:Ep; intros E; inversion E; subst s'; clear E;
      (split; [constructor; cbn; rewrite ?Ep; auto|]); intros u Hu; cbn in Hu |- *; unfold upd;
      destruct (Nat.eqb_spec u t) as [->|Hne]; try (destruct (HT u Hu); constructor; cbn; rewrite ?Ep in *; auto; fail);
      constructor; cbn; rewrite ?Ep in *; auto; try discriminate;
      try (intros _; destruct (Tp eq_refl) as (_ & ? & ?); auto).
    - (* L3w: the write *)
      intros E; inversion E; subst s'; clear E.
      pose proof (Tw eq_refl) as Ep. pose proof (proj1 Tc eq_refl) as Emu.
      split.
      + constructor; cbn; auto; try discriminate.
        * rewrite Ep in Spend. rewrite (Spend eq_refl). discriminate.
        * rewrite Emu. discriminate.
        * rewrite Ep in Swr. unfold b2n in *. destruct p0; lia.
        * rewrite Ep in Sbuilt. unfold final, b2n in *. destruct p0; lia.
        * rewrite app_length. cbn. lia.
      + intros u Hu. cbn in Hu |- *. unfold upd. destruct (Nat.eqb_spec u t) as [->|Hne].
        * constructor; cbn; auto; try discriminate.
        * destruct (HT u Hu) as [Ue Uc Up Uw Ule Ueq Ur]. destruct (Up Ep) as (Uearly & Ureads & Useen).
          constructor; cbn; auto; try discriminate.
          -- intros Hw. destruct (tpc (thr s u)) eqn:Eu; try discriminate.
             assert (mu s = Some u) by (apply Uc; reflexivity). congruence.
          -- intros Hs. destruct (tpc (thr s u)) eqn:Eu; cbn in *; try discriminate;
             assert (mu s = Some u) by (apply Uc; reflexivity); congruence.
    - (* L4: the store *)
      intros E; inversion E; subst s'; clear E.
      assert (Ep : pending s = false).
      { destruct (pending s) eqn:Ep; [|reflexivity]. destruct (Tp eq_refl) as (Hc & _). discriminate. }
      pose proof (Teq eq_refl) as Hseen.
      split.
      + constructor; cbn; close.
      + intros u Hu. cbn in Hu |- *. unfold upd. destruct (Nat.eqb_spec u t) as [->|Hne].
        * constructor; cbn; close.
        * destruct (HT u Hu). constructor; cbn; close.
    - (* L5: unlock *)
      intros E; inversion E; subst s'; clear E.
      assert (Ep : pending s = false).
      { destruct (pending s) eqn:Ep; [|reflexivity]. destruct (Tp eq_refl) as (Hc & _). discriminate. }
      assert (Emu : mu s = Some t) by (apply Tc; reflexivity).
      pose proof (Teq eq_refl) as Hseen.
      split.
      + constructor; cbn; close.
      + intros u Hu. cbn in Hu |- *. unfold upd. destruct (Nat.eqb_spec u t) as [->|Hne].
        * constructor; cbn; close.
        * destruct (HT u Hu) as [Ue Uc Up Uw Ule Ueq Ur]. constructor; cbn; close.
          split; [|discriminate]. intros Hc. apply Uc in Hc. congruence.
    - (* R *)
      intros E; inversion E; subst s'; clear E.
      assert (Ep : pending s = false).
      { destruct (pending s) eqn:Ep; [|reflexivity]. destruct (Tp eq_refl) as (Hc & _). discriminate. }
      pose proof (Teq eq_refl) as Hseen.
      split.
      + constructor; cbn; close.
      + intros u Hu. cbn in Hu |- *. unfold upd. destruct (Nat.eqb_spec u t) as [->|Hne].
        * constructor; cbn; close.
        * destruct (HT u Hu). constructor; cbn; close.
    - (* Rd: the read completes and records the version it saw *)
      assert (Ep : pending s = false).
      { destruct (pending s) eqn:Ep; [|reflexivity]. destruct (Tp eq_refl) as (Hc & _). discriminate. }
      assert (Hb : built s = final) by (rewrite Ep in Sbuilt; cbn in Sbuilt; lia).
      destruct (todo (thr s t)) eqn:Etodo; intros E; inversion E; subst s'; clear E;
      (split; [constructor; cbn; auto|]); intros u Hu; cbn in Hu |- *; unfold upd;
      destruct (Nat.eqb_spec u t) as [->|Hne]; try (destruct (HT u Hu); constructor; cbn; auto; fail);
      constructor; cbn; auto; try discriminate; rewrite ?Ep; try discriminate;
      try (intros v [Hv|Hv]; [congruence|auto]);
      try (destruct (entry (thr s t)); cbn in *; try discriminate; split; try discriminate; intros Hm; exfalso;
           assert (in_critical Rd = true) by (apply Tc; exact Hm); discriminate);
      try (destruct (entry (thr s t)); cbn in *; discriminate).
    - (* Done *) discriminate.
  Qed.

  Lemma exec_inv sched : forall s s', inv s -> exec s sched = Some s' -> inv s'.
  Proof.
    induction sched as [|t r IH]; intros s s' Hi; cbn [exec].
    - intros E. inversion E. subst. exact Hi.
    - destruct (step s t) as [s1|] eqn:Es; [|discriminate]. intros E. exact (IH _ _ (step_inv _ _ _ Hi Es) E).
  Qed.

  (** ** consequences of the invariant *)

  (** at most one goroutine between Lock and Unlock *)
  Lemma inv_mutex s : inv s -> forall t u, t < nthr s -> u < nthr s ->
    in_critical (tpc (thr s t)) = true -> in_critical (tpc (thr s u)) = true -> t = u.
  Proof.
    intros [_ HT] t u Ht Hu Ct Cu. apply (t_crit _ _ _ (HT t Ht)) in Ct. apply (t_crit _ _ _ (HT u Hu)) in Cu. congruence.
  Qed.

  Lemma inv_race_free s : inv s -> ~ race s.
  Proof.
    intros [HS HT] [(t & u & [Ht Wt] & [Hu Ru])|[(t & u & Hne & [Ht Wt] & [Hu Wu])|(t & [Ht Rt] & Hlt)]].
    - pose proof (t_w _ _ _ (HT t Ht) Wt) as Hp. destruct (t_pend _ _ _ (HT u Hu) Hp) as (He & _). rewrite Ru in He. discriminate.
    - apply Hne. apply (inv_mutex s (conj HS HT)); auto; rewrite ?Wt, ?Wu; reflexivity.
    - pose proof (t_eq _ _ _ (HT t Ht)) as He. rewrite Rt in He. specialize (He eq_refl). lia.
  Qed.

  (** every write happens under the lock, with something pending, while no goroutine has yet
      observed "fresh" for this version (none is past L3) *)
  Lemma inv_write_exclusive s t : inv s -> writing s t ->
    mu s = Some t /\ pending s = true /\ fresh s = false /\
    forall u, u < nthr s -> u <> t -> early_pc (tpc (thr s u)) = true /\ in_critical (tpc (thr s u)) = false.
  Proof.
    intros [HS HT] [Ht Wt]. pose proof (t_w _ _ _ (HT t Ht) Wt) as Hp.
    assert (Hm : mu s = Some t) by (apply (t_crit _ _ _ (HT t Ht)); rewrite Wt; reflexivity).
    repeat split; auto. exact (s_pend _ HS Hp).
    - destruct (t_pend _ _ _ (HT u H) Hp) as (He & _). exact He.
    - destruct (in_critical (tpc (thr s u))) eqn:Ec; [|reflexivity].
      apply (t_crit _ _ _ (HT u H)) in Ec. congruence.
  Qed.

  Lemma inv_applied_once s : inv s -> writes s = b2n p0 - b2n (pending s) /\ writes s <= 1 /\
    length (writers s) = writes s /\ built s = final - b2n (pending s).
  Proof.
    intros [[_ _ _ _ Hw Hb Hl] _]. unfold final in *. destruct p0, (pending s); cbn in *; repeat split; lia.
  Qed.

  Lemma inv_serial s : inv s -> forall t, t < nthr s -> forall v, In v (reads (thr s t)) -> v = final.
  Proof. intros [_ HT] t Ht. exact (t_reads _ _ _ (HT t Ht)). Qed.

  (** a goroutine holding the lock is always enabled; with the lock free everyone not finished is *)
  Lemma inv_progress s : inv s -> (exists t, t < nthr s /\ tpc (thr s t) <> Done) ->
    exists t s', step s t = Some s'.
  Proof.
    intros [HS HT] (t & Ht & Hnd).
    destruct (mu s) as [h|] eqn:Emu.
    - pose proof (s_mu _ HS h Emu) as Hh.
      assert (Hc : in_critical (tpc (thr s h)) = true) by (apply (t_crit _ _ _ (HT h Hh)); exact Emu).
      exists h. unfold step. destruct (Nat.leb_spec (nthr s) h); [lia|].
      destruct (tpc (thr s h)); try discriminate; try (eexists; reflexivity).
      destruct (pending s); eexists; reflexivity.
    - exists t. unfold step. destruct (Nat.leb_spec (nthr s) t); [lia|]. rewrite Emu.
      destruct (tpc (thr s t)); try congruence; try (eexists; reflexivity).
      + destruct (negb (fresh s) && early (thr s t)); eexists; reflexivity.
      + destruct (fresh s); eexists; reflexivity.
      + destruct (pending s); eexists; reflexivity.
      + destruct (todo (thr s t)); eexists; reflexivity.
  Qed.
End Invariant.

(** ** termination: every step lowers the measure *)
Lemma sum_upto_ext n f g : (forall t, t < n -> f t = g t) -> sum_upto n f = sum_upto n g.
Proof. induction n; intros H; cbn; [reflexivity|]. rewrite IHn, (H n) by (intros; auto; apply H; lia). reflexivity. Qed.

Lemma sum_upto_upd n (f : nat -> thread) t x : t < n ->
  sum_upto n (fun u => tmeasure (upd f t x u)) + tmeasure (f t) = sum_upto n (fun u => tmeasure (f u)) + tmeasure x.
Proof.
  induction n; intros Ht; [lia|]. cbn [sum_upto]. unfold upd at 2. destruct (Nat.eqb_spec n t) as [->|Hne].
  - rewrite (sum_upto_ext t (fun u => tmeasure (upd f t x u)) (fun u => tmeasure (f u))); [lia|].
    intros u Hu. unfold upd. destruct (Nat.eqb_spec u t); [lia|reflexivity].
  - assert (t < n) by lia. specialize (IHn H). lia.
Qed.

Lemma step_measure s t s' : (forall u, u < nthr s -> entry_pc (entry (thr s u)) = true) ->
  step s t = Some s' -> measure s' < measure s /\ nthr s' = nthr s /\
  (forall u, u < nthr s' -> entry_pc (entry (thr s' u)) = true).
Proof.
  intros He. unfold step. destruct (Nat.leb_spec (nthr s) t) as [|Ht]; [discriminate|].
  assert (Hgen : forall x, tmeasure x < tmeasure (thr s t) -> entry x = entry (thr s t) ->
            forall fr sm m mm p b w ws,
            let s1 := mkSt (nthr s) (upd (thr s) t x) fr sm m mm p b w ws in
            measure s1 < measure s /\ nthr s1 = nthr s /\ (forall u, u < nthr s1 -> entry_pc (entry (thr s1 u)) = true)).
  { intros x Hx Hent fr sm m mm p b w ws. cbn. unfold measure. cbn [nthr thr].
    pose proof (sum_upto_upd (nthr s) (thr s) t x Ht). split; [lia|]. split; [reflexivity|].
    intros u Hu. unfold upd. destruct (Nat.eqb_spec u t) as [->|]; [rewrite Hent|]; apply He; assumption. }
  unfold with_thr. destruct (tpc (thr s t)) eqn:Epc.
  - destruct (negb (fresh s) && early (thr s t)); intros E; inversion E; apply Hgen; unfold tmeasure; cbn; rewrite ?Epc; cbn; try lia; reflexivity.
  - destruct (fresh s); intros E; inversion E; apply Hgen; unfold tmeasure; cbn; rewrite ?Epc; cbn; try lia; reflexivity.
  - destruct (mu s); [discriminate|]. intros E; inversion E; apply Hgen; unfold tmeasure; cbn; rewrite ?Epc; cbn; try lia; reflexivity.
  - destruct (pending s); intros E; inversion E; apply Hgen; unfold tmeasure; cbn; rewrite ?Epc; cbn; try lia; reflexivity.
  - intros E; inversion E; apply Hgen; unfold tmeasure; cbn; rewrite ?Epc; cbn; try lia; reflexivity.
  - intros E; inversion E; apply Hgen; unfold tmeasure; cbn; rewrite ?Epc; cbn; try lia; reflexivity.
  - intros E; inversion E; apply Hgen; unfold tmeasure; cbn; rewrite ?Epc; cbn; try lia; reflexivity.
  - intros E; inversion E; apply Hgen; unfold tmeasure; cbn; rewrite ?Epc; cbn; try lia; reflexivity.
  - pose proof (He t Ht) as Hent.
    destruct (todo (thr s t)) eqn:Etodo; intros E; inversion E; apply Hgen; unfold tmeasure; cbn; rewrite ?Epc, ?Etodo; cbn; try lia; try reflexivity.
    destruct (entry (thr s t)); cbn in *; try discriminate; lia.
  - discriminate.
Qed.

Lemma exec_bounded sched : forall s s', (forall u, u < nthr s -> entry_pc (entry (thr s u)) = true) ->
  exec s sched = Some s' -> length sched + measure s' <= measure s.
Proof.
  induction sched as [|t r IH]; intros s s' He; cbn [exec length].
  - intros E. inversion E. lia.
  - destruct (step s t) as [s1|] eqn:Es; [|discriminate]. intros E.
    destruct (step_measure _ _ _ He Es) as (Hm & Hn & He1). specialize (IH _ _ He1 E). lia.
Qed.

(** ** the theorems, for every N, every initial status and every schedule *)
Section Theorems.
  Variable n b0 : nat.
  Variable fresh0 pending0 : bool.
  Variable entries : nat -> pc.
  Variable todos : nat -> nat.
  Variable earlies : nat -> bool.
  Hypothesis Hstart : pending0 = true -> fresh0 = false.     (* Add sets the status stale *)
  Hypothesis Hentry : forall t, entry_pc (entries t) = true.
  Let s0 := init n b0 fresh0 pending0 entries todos earlies.

  Lemma reach_inv sched s : exec s0 sched = Some s -> inv b0 pending0 s.
  Proof. apply exec_inv. apply inv_init; assumption. Qed.

  Theorem mutex sched s : exec s0 sched = Some s -> forall t u, t < nthr s -> u < nthr s ->
    in_critical (tpc (thr s t)) = true -> in_critical (tpc (thr s u)) = true -> t = u.
  Proof. intros H. exact (inv_mutex _ _ _ (reach_inv _ _ H)). Qed.

  Theorem race_free sched s : exec s0 sched = Some s -> ~ race s.
  Proof. intros H. exact (inv_race_free _ _ _ (reach_inv _ _ H)). Qed.

  Theorem write_exclusive sched s t : exec s0 sched = Some s -> writing s t ->
    mu s = Some t /\ pending s = true /\ fresh s = false /\
    forall u, u < nthr s -> u <> t -> early_pc (tpc (thr s u)) = true /\ in_critical (tpc (thr s u)) = false.
  Proof. intros H. exact (inv_write_exclusive _ _ _ _ (reach_inv _ _ H)). Qed.

  Theorem applied_once sched s : exec s0 sched = Some s ->
    writes s = b2n pending0 - b2n (pending s) /\ writes s <= 1 /\ length (writers s) = writes s /\
    built s = final b0 pending0 - b2n (pending s).
  Proof. intros H. exact (inv_applied_once _ _ _ (reach_inv _ _ H)). Qed.

  (** every finished read saw the final version of the cell map: the version a single
      goroutine running alone reads ([serial_run]) *)
  Theorem serial_answers sched s : exec s0 sched = Some s ->
    forall t, t < nthr s -> forall v, In v (reads (thr s t)) -> v = final b0 pending0.
  Proof. intros H. exact (inv_serial _ _ _ (reach_inv _ _ H)). Qed.

  Theorem no_deadlock sched s : exec s0 sched = Some s ->
    (exists t, t < nthr s /\ tpc (thr s t) <> Done) -> exists t s', step s t = Some s'.
  Proof. intros H. exact (inv_progress _ _ _ (reach_inv _ _ H)). Qed.

  (** no schedule is longer than the initial measure: every execution terminates, and by
      [no_deadlock] it can only stop with every goroutine finished *)
  Theorem terminates sched s : exec s0 sched = Some s -> length sched <= measure s0.
  Proof.
    intros H. assert (He : forall u, u < nthr s0 -> entry_pc (entry (thr s0 u)) = true) by (intros; apply Hentry).
    pose proof (exec_bounded _ _ _ He H). lia.
  Qed.
End Theorems.

(** a second goroutine that saw "stale" and then got the lock: its applyUpdatesInternal is a
    no-op on the cell map *)
Lemma apply_nothing_pending_noop s t s' :
  t < nthr s -> tpc (thr s t) = L3 -> pending s = false -> step s t = Some s' ->
  built s' = built s /\ writes s' = writes s /\ writers s' = writers s /\ tpc (thr s' t) = L4.
Proof.
  intros Ht Hpc Hp. unfold step. destruct (Nat.leb_spec (nthr s) t); [lia|]. rewrite Hpc, Hp.
  intros E. inversion E. cbn. unfold upd. rewrite Nat.eqb_refl. auto.
Qed.

(** the serial run: one goroutine, index not yet built *)
Example serial_run :
  exists s, exec (init 1 0 false true (fun _ => L1) (fun _ => 0) (fun _ => false)) [0; 0; 0; 0; 0; 0; 0; 0] = Some s /\
            reads (thr s 0) = [1] /\ writes s = 1 /\ tpc (thr s 0) = Done.
Proof. eexists. vm_compute. repeat split. Qed.

(** the double-apply interleaving: both see stale, 0 builds, 1 waits, then re-runs apply *)
Example double_apply :
  exists s, exec (init 2 0 false true (fun _ => L1) (fun _ => 0) (fun _ => false))
              [0; 1; 0; 0; 0; 0; 0; 1; 1; 1; 1; 0; 1; 0; 1] = Some s /\
            writes s = 1 /\ writers s = [0] /\ reads (thr s 0) = [1] /\ reads (thr s 1) = [1].
Proof. eexists. vm_compute. repeat split. Qed.

(** ** mutations of the protocol, refuted in the same semantics *)

(** "store fresh BEFORE applyUpdatesInternal": L2 L4 L3 L3w L5 *)
Definition step_store_first (s : state) (t : nat) : option state :=
  if nthr s <=? t then None else
  let th := thr s t in
  match tpc th with
  | L3 => (* after Lock: store first *)
      Some (mkSt (nthr s) (upd (thr s) t (set_pc th L4)) true (seen th) (mu s) (mmsg s) (pending s) (built s) (writes s) (writers s))
  | L4 => if pending s then Some (with_thr s t (set_pc th L3w)) else Some (with_thr s t (set_pc th L5))
  | L3w => Some (mkSt (nthr s) (upd (thr s) t (set_pc_seen th L5 (S (built s))))
                      (fresh s) (smsg s) (mu s) (mmsg s) false (S (built s)) (S (writes s)) (writers s ++ [t]))
  | _ => step s t
  end.
Fixpoint exec_with (stp : state -> nat -> option state) (s : state) (sched : list nat) : option state :=
  match sched with [] => Some s | t :: r => match stp s t with Some s' => exec_with stp s' r | None => None end end.

Definition race_b (s : state) : bool :=
  existsb (fun t => pc_eqb (tpc (thr s t)) L3w && existsb (fun u => pc_eqb (tpc (thr s u)) Rd) (seq 0 (nthr s))) (seq 0 (nthr s)) ||
  existsb (fun t => pc_eqb (tpc (thr s t)) Rd && (seen (thr s t) <? built s)) (seq 0 (nthr s)).

Theorem store_before_apply_refuted :
  exists sched s, exec_with step_store_first (init 2 0 false true (fun _ => L1) (fun _ => 0) (fun _ => false)) sched = Some s /\
                  race_b s = true.
Proof. exists [0; 0; 0; 1; 1; 0]. eexists. vm_compute. split; reflexivity. Qed.

(** "drop the Lock": L2 always enabled *)
Definition step_no_lock (s : state) (t : nat) : option state :=
  if nthr s <=? t then None else
  let th := thr s t in
  match tpc th with
  | L2 => Some (with_thr s t (set_pc th L3))
  | _ => step s t
  end.
Definition two_writers (s : state) : bool :=
  1 <? length (filter (fun t => pc_eqb (tpc (thr s t)) L3w) (seq 0 (nthr s))).
Theorem no_lock_refuted :
  exists sched s, exec_with step_no_lock (init 2 0 false true (fun _ => L1) (fun _ => 0) (fun _ => false)) sched = Some s /\
                  two_writers s = true.
Proof. exists [0; 1; 0; 1; 0; 1]. eexists. vm_compute. split; reflexivity. Qed.

(** ** Executable check for the correspondence: replay of an observed schedule.
    An event (t, k): goroutine t was released and next stopped at schedule point k of
    s2/hooks_verif.go (7 L0, 1 L1, 2 L2, 3 L3, 8 L3w, 4 L4, 5 L5, 6 R, 0 finished). A release at
    point 6 performs R and Rd. *)
Definition pc_of_point (k : nat) : pc :=
  match k with 7 => L0 | 1 => L1 | 2 => L2 | 3 => L3 | 8 => L3w | 4 => L4 | 5 => L5 | 6 => R | _ => Done end.
Fixpoint replay (s : state) (ev : list (nat * nat)) : option state :=
  match ev with
  | [] => Some s
  | (t, k) :: r =>
      let s1 := match tpc (thr s t) with
                | R => match step s t with Some s' => step s' t | None => None end
                | _ => step s t
                end in
      match s1 with
      | Some s' => if pc_eqb (tpc (thr s' t)) (pc_of_point k) then replay s' r else None
      | None => None
      end
  end.
Fixpoint list_nat_eqb (a b : list nat) : bool :=
  match a, b with [] , [] => true | x :: a', y :: b' => (x =? y) && list_nat_eqb a' b' | _, _ => false end.
Definition all_done (s : state) : bool := forallb (fun t => pc_eqb (tpc (thr s t)) Done) (seq 0 (nthr s)).
(** [entries]/[todos]/[earlies] as lists indexed by goroutine; [wr]: who wrote cell-map entries *)
Definition sched_case (n : nat) (fresh0 pending0 : bool) (entries : list nat) (todos : list nat) (earlies : list bool)
           (ev : list (nat * nat)) (wr : list nat) : bool :=
  match replay (init n 0 fresh0 pending0 (fun t => pc_of_point (nth t entries 1)) (fun t => nth t todos 0)
                     (fun t => nth t earlies false)) ev with
  | Some s => list_nat_eqb (writers s) wr && all_done s && negb (race_b s)
  | None => false
  end.
