(** C19, s1.Interval (ContainsInterval, Intersects). See Proofs/C19_S1.v for the specification side. *)
From Coq Require Import ZArith Reals Floats Lra Bool List.
From Flocq Require Import Core.Core IEEE754.BinarySingleNaN IEEE754.PrimFloat.
From Geo Require Import Base.GoPrim Base.F64 Gen.S1 Proofs.C19_S1.
Local Open Scope R_scope.

(** * ContainsInterval is the subset relation on real points of the circle *)
Lemma s1_contains_interval_sound a b x : valid_s1 a -> valid_s1 b -> inrange x ->
  s1_Interval_ContainsInterval a b = true -> mem_s1 b x -> mem_s1 a x.
Proof.
  open2 a b. intros Hx. norm_point x Hx. intros Hc Hm. s1_unfold. if_reflect; finish.
Qed.

(** a witness for non-containment: try a list of candidate points *)
Ltac try_w w :=
  exists w; split; [unfold inrange; lra|];
  unfold mem_s1; rewrite (normR_idem w) by lra;
  spec_unfold; rewrite ?rank_NPI in *; fold rpi in *; lra.

Lemma s1_not_contains_witness a b : valid_s1 a -> valid_s1 b ->
  s1_Interval_ContainsInterval a b = false ->
  exists x, inrange x /\ (mem_s1 b x /\ ~ mem_s1 a x).
Proof.
  open2 a b. intros Hc. s1_unfold. if_reflect.
  all: destruct (Rle_lt_dec (rank bl) (rank ah)); destruct (Rle_lt_dec (rank bh) (rank al));
       destruct (Rle_lt_dec (rank al) (rank bh)).
  all: repeat match goal with H : _ \/ _ |- _ => destruct H end.
  all: first
    [ try_w (rank bh) | try_w rpi | try_w (rank bl)
    | try_w ((rank bl + rank al) / 2) | try_w ((rank ah + rank al) / 2)
    | try_w ((rank ah + rank bh) / 2) | try_w ((rank bl + rank bh) / 2)
    | try_w ((- rpi + rank bh) / 2) | try_w ((- rpi + rank al) / 2) ].
Qed.

Lemma s1_contains_interval_spec a b : valid_s1 a -> valid_s1 b ->
  (s1_Interval_ContainsInterval a b = true <-> forall x, inrange x -> mem_s1 b x -> mem_s1 a x).
Proof.
  intros Ha Hb. split.
  - intros Hc x Hx. apply s1_contains_interval_sound; assumption.
  - intros Hall. destruct (s1_Interval_ContainsInterval a b) eqn:C; [reflexivity|exfalso].
    destruct (s1_not_contains_witness a b Ha Hb C) as [x [Hx [Hm Hn]]].
    apply Hn. apply Hall; assumption.
Qed.

(** * Intersects is existence of a common point *)
Lemma s1_intersects_complete a b x : valid_s1 a -> valid_s1 b -> inrange x ->
  mem_s1 a x -> mem_s1 b x -> s1_Interval_Intersects a b = true.
Proof.
  open2 a b. intros Hx. norm_point x Hx. intros Hm1 Hm2. s1_unfold.
  if_reflect; try reflexivity; reflectG; finish.
Qed.

Lemma s1_intersects_witness a b : valid_s1 a -> valid_s1 b ->
  s1_Interval_Intersects a b = true ->
  exists x, inrange x /\ (mem_s1 a x /\ mem_s1 b x).
Proof.
  open2 a b. intros Hc. s1_unfold. if_reflect; try discriminate.
  all: repeat match goal with H : _ \/ _ |- _ => destruct H end.
  all: destruct (Rle_lt_dec (rank al) (rank ah)); destruct (Rle_lt_dec (rank bl) (rank bh));
       destruct (Req_dec (rank al) (- rpi)); destruct (Req_dec (rank bl) (- rpi));
       destruct (Rle_lt_dec (rank al) (rank bl)).
  all: first [ try_w (rank bl) | try_w (rank al) | try_w (rank bh) | try_w (rank ah) | try_w rpi ].
Qed.

Lemma s1_intersects_spec a b : valid_s1 a -> valid_s1 b ->
  (s1_Interval_Intersects a b = true <-> exists x, inrange x /\ (mem_s1 a x /\ mem_s1 b x)).
Proof.
  intros Ha Hb. split.
  - apply s1_intersects_witness; assumption.
  - intros [x [Hx [H1 H2]]]. apply (s1_intersects_complete a b x); assumption.
Qed.

