(** C06 — proofs about the query-side model (Model/Index.v): cell location on a sorted disjoint
    cell list, and the reduction of the index answers to brute force under [index_ok] and the
    named geometric hypotheses H-JORDAN / H-CLIP. *)
From Coq Require Import ZArith List Bool Lia.
From Geo Require Import Base.GoPrim Model.Index.
Import ListNotations.
Local Open Scope Z_scope.

(** * Cell ids *)
Lemma lsbZ_pos id : 0 < id -> 1 <= lsbZ id.
Proof. destruct id; cbn; lia. Qed.

Lemma range_bounds id : 0 < id -> range_min id <= id <= range_max id.
Proof. intros H. pose proof (lsbZ_pos id H). unfold range_min, range_max. lia. Qed.

(** [id = (2k+1) * lsb] and [lsb] is a power of two *)
Lemma lsb_pos_spec p : exists k l, Zpos p = (2 * k + 1) * 2 ^ l /\ Zpos (lsb_pos p) = 2 ^ l /\ 0 <= l /\ 0 <= k.
Proof.
  induction p as [p IH | p IH |].
  - exists (Zpos p), 0. cbn [lsb_pos]. rewrite Z.pow_0_r. lia.
  - destruct IH as (k & l & H1 & H2 & Hl & Hk). exists k, (l + 1).
    cbn [lsb_pos]. rewrite Z.pow_add_r by lia. change (2 ^ 1) with 2. lia.
  - exists 0, 0. cbn. lia.
Qed.

(** * sort.Search *)
Section Search.
  Variable f : Z -> bool.
  Variables lo hi : Z.
  Hypothesis mono : forall k k', lo <= k <= k' -> k' < hi -> f k = true -> f k' = true.

  Lemma go_search_spec fuel : forall i j,
    lo <= i <= j -> j <= hi -> j - i <= Z.of_nat fuel - 1 ->
    (forall k, lo <= k < i -> f k = false) ->
    (forall k, j <= k < hi -> f k = true) ->
    let r := go_search fuel f i j in
    i <= r <= j /\ (forall k, lo <= k < r -> f k = false) /\ (forall k, r <= k < hi -> f k = true).
  Proof.
    induction fuel as [|fu IH]; intros i j Hij Hj Hfuel Hlow Hhigh; [lia|].
    cbn [go_search]. destruct (i <? j) eqn:E.
    - apply Z.ltb_lt in E.
      assert (i <= (i + j) / 2 < j) as Hh
        by (pose proof (Z.div_mod (i + j) 2 ltac:(lia)); pose proof (Z.mod_pos_bound (i + j) 2 ltac:(lia)); lia).
      set (h := (i + j) / 2) in *.
      destruct (f h) eqn:Fh; cbn [negb].
      + specialize (IH i h ltac:(lia) ltac:(lia) ltac:(lia) Hlow).
        assert (forall k, h <= k < hi -> f k = true) as Hh2.
        { intros k Hk. apply (mono h k); [lia|lia|exact Fh]. }
        specialize (IH Hh2). cbv zeta in IH |- *. destruct IH as (A & B & C). split; [lia|split; assumption].
      + assert (forall k, lo <= k < h + 1 -> f k = false) as Hl2.
        { intros k Hk. destruct (f k) eqn:Fk; [|reflexivity].
          rewrite (mono k h) in Fh; [discriminate|lia|lia|exact Fk]. }
        specialize (IH (h + 1) j ltac:(lia) ltac:(lia) ltac:(lia) Hl2 Hhigh). cbv zeta in IH |- *.
        destruct IH as (A & B & C). split; [lia|split; assumption].
    - apply Z.ltb_ge in E. assert (i = j) by lia. subst j. cbv zeta.
      split; [lia|]. split; assumption.
  Qed.
End Search.

(** * Sorted, pairwise disjoint cells *)
Definition cells_ok (cells : list Z) : Prop :=
  (forall i, 0 <= i < lenZ cells -> 0 < nthZ cells i 0 < sentinel) /\
  (forall i j, 0 <= i < j -> j < lenZ cells -> range_max (nthZ cells i 0) < range_min (nthZ cells j 0)).

Lemma lenZ_nonneg {A} (l : list A) : 0 <= lenZ l.
Proof. unfold lenZ; lia. Qed.

Lemma cells_ok_sorted cells i j : cells_ok cells -> 0 <= i < j -> j < lenZ cells ->
  nthZ cells i 0 < nthZ cells j 0.
Proof.
  intros (Hv & Hd) Hij Hj.
  pose proof (range_bounds _ (proj1 (Hv i ltac:(lia)))).
  pose proof (range_bounds _ (proj1 (Hv j ltac:(lia)))).
  specialize (Hd i j Hij Hj). lia.
Qed.

Lemma seek_spec cells t : cells_ok cells ->
  let pos := seek cells t in
  0 <= pos <= lenZ cells /\
  (forall k, 0 <= k < pos -> nthZ cells k 0 < t) /\
  (forall k, pos <= k < lenZ cells -> t <= nthZ cells k 0).
Proof.
  intros Hok. unfold seek, sort_search.
  pose proof (lenZ_nonneg cells) as Hn.
  pose proof (go_search_spec (fun i => nthZ cells i 0 >=? t) 0 (lenZ cells)) as H.
  assert (forall k k', 0 <= k <= k' -> k' < lenZ cells ->
            (nthZ cells k 0 >=? t) = true -> (nthZ cells k' 0 >=? t) = true) as Hmono.
  { intros k k' Hk Hk' Hf. rewrite Z.geb_leb in *. apply Z.leb_le in Hf. apply Z.leb_le.
    destruct (Z.eq_dec k k') as [->|Hne]; [assumption|].
    pose proof (cells_ok_sorted cells k k' Hok ltac:(lia) Hk'). lia. }
  specialize (H Hmono (S (Z.to_nat (lenZ cells))) 0 (lenZ cells) ltac:(lia) ltac:(lia) ltac:(lia)
                ltac:(intros; lia) ltac:(intros; lia)).
  cbv zeta in H. destruct H as (Hr & Hlow & Hhigh).
  split; [lia|]. split.
  - intros k Hk. specialize (Hlow k Hk). cbv beta in Hlow. rewrite Z.geb_leb in Hlow. apply Z.leb_gt in Hlow. lia.
  - intros k Hk. specialize (Hhigh k Hk). cbv beta in Hhigh. rewrite Z.geb_leb in Hhigh. apply Z.leb_le in Hhigh. lia.
Qed.

Definition in_cell (c t : Z) : Prop := range_min c <= t <= range_max c.

Theorem locate_point_sound cells t k : cells_ok cells ->
  locate_point cells t = Some k -> 0 <= k < lenZ cells /\ in_cell (nthZ cells k 0) t.
Proof.
  intros Hok. pose proof (seek_spec cells t Hok) as Hs. cbv zeta in Hs.
  destruct Hs as (Hpos & Hlow & Hhigh). destruct Hok as (Hv & Hd).
  unfold locate_point, id_at, in_cell. set (pos := seek cells t) in *.
  destruct (pos <? lenZ cells) eqn:E1.
  - apply Z.ltb_lt in E1. pose proof (Hv pos ltac:(lia)) as Hvp.
    destruct (nthZ cells pos 0 =? sentinel) eqn:E2; [apply Z.eqb_eq in E2; lia|]. cbn [negb andb].
    destruct (range_min (nthZ cells pos 0) <=? t) eqn:E3.
    + apply Z.leb_le in E3. intros H; inversion H; subst k.
      pose proof (range_bounds _ (proj1 Hvp)). specialize (Hhigh pos ltac:(lia)). lia.
    + destruct (0 <? pos) eqn:E4; cbn [andb]; [|discriminate]. apply Z.ltb_lt in E4.
      destruct (pos - 1 <? lenZ cells) eqn:E5; [|apply Z.ltb_ge in E5; lia].
      destruct (range_max (nthZ cells (pos - 1) 0) >=? t) eqn:E6; [|discriminate].
      rewrite Z.geb_leb in E6. apply Z.leb_le in E6. intros H; inversion H; subst k.
      pose proof (range_bounds _ (proj1 (Hv (pos - 1) ltac:(lia)))). specialize (Hlow (pos - 1) ltac:(lia)). lia.
  - apply Z.ltb_ge in E1. rewrite Z.eqb_refl. cbn [negb andb].
    destruct (0 <? pos) eqn:E4; cbn [andb]; [|discriminate]. apply Z.ltb_lt in E4.
    destruct (pos - 1 <? lenZ cells) eqn:E5; [|apply Z.ltb_ge in E5; lia].
    destruct (range_max (nthZ cells (pos - 1) 0) >=? t) eqn:E6; [|discriminate].
    rewrite Z.geb_leb in E6. apply Z.leb_le in E6. intros H; inversion H; subst k.
    pose proof (range_bounds _ (proj1 (Hv (pos - 1) ltac:(lia)))). specialize (Hlow (pos - 1) ltac:(lia)). lia.
Qed.

Theorem locate_point_complete cells t k : cells_ok cells ->
  0 <= k < lenZ cells -> in_cell (nthZ cells k 0) t -> locate_point cells t = Some k.
Proof.
  intros Hok Hk Hin. pose proof (seek_spec cells t Hok) as Hs. cbv zeta in Hs.
  destruct Hs as (Hpos & Hlow & Hhigh). destruct Hok as (Hv & Hd).
  unfold locate_point, id_at. unfold in_cell in Hin. set (pos := seek cells t) in *.
  pose proof (range_bounds _ (proj1 (Hv k Hk))) as Hrk.
  destruct (Z_lt_le_dec (nthZ cells k 0) t) as [Hlt | Hge].
  - (* the cell id is below the target: it is the predecessor of the seek position *)
    assert (k < pos) as Hkp.
    { destruct (Z_lt_le_dec k pos); [assumption|]. specialize (Hhigh k ltac:(lia)). lia. }
    assert (k = pos - 1) as Hk1.
    { destruct (Z.eq_dec k (pos - 1)); [assumption|exfalso].
      specialize (Hd k (pos - 1) ltac:(lia) ltac:(lia)). specialize (Hlow (pos - 1) ltac:(lia)).
      pose proof (range_bounds _ (proj1 (Hv (pos - 1) ltac:(lia)))). lia. }
    assert ((negb ((if pos <? lenZ cells then nthZ cells pos 0 else sentinel) =? sentinel) &&
             (range_min (if pos <? lenZ cells then nthZ cells pos 0 else sentinel) <=? t)) = false) as ->.
    { destruct (pos <? lenZ cells) eqn:E1.
      - apply Z.ltb_lt in E1. specialize (Hd k pos ltac:(lia) E1).
        destruct (range_min (nthZ cells pos 0) <=? t) eqn:E3; [apply Z.leb_le in E3; lia|].
        apply andb_false_r.
      - rewrite Z.eqb_refl. reflexivity. }
    destruct (0 <? pos) eqn:E4; [|apply Z.ltb_ge in E4; lia]. cbn [andb].
    destruct (pos - 1 <? lenZ cells) eqn:E5; [|apply Z.ltb_ge in E5; lia].
    rewrite <- Hk1.
    destruct (range_max (nthZ cells k 0) >=? t) eqn:E6; [reflexivity|].
    rewrite Z.geb_leb in E6. apply Z.leb_gt in E6. lia.
  - (* the cell id is at or above the target: it is the seek position *)
    assert (pos <= k) as Hpk.
    { destruct (Z_lt_le_dec k pos); [|assumption]. specialize (Hlow k ltac:(lia)). lia. }
    assert (k = pos) as Hk1.
    { destruct (Z.eq_dec k pos); [assumption|exfalso].
      specialize (Hd pos k ltac:(lia) ltac:(lia)). specialize (Hhigh pos ltac:(lia)).
      pose proof (range_bounds _ (proj1 (Hv pos ltac:(lia)))). lia. }
    subst k. destruct (pos <? lenZ cells) eqn:E1; [|apply Z.ltb_ge in E1; lia].
    destruct (nthZ cells pos 0 =? sentinel) eqn:E2; [apply Z.eqb_eq in E2; specialize (Hv pos Hk); lia|].
    cbn [negb andb].
    destruct (range_min (nthZ cells pos 0) <=? t) eqn:E3; [reflexivity|apply Z.leb_gt in E3; lia].
Qed.

(** * Point containment through the index = brute force *)
Section Contains.
  Variable point : Type.
  Variable pt_eqb : point -> point -> bool.
  Variable crossing_sign : point -> point -> point -> point -> crossing.
  Variable vertex_crossing : point -> point -> point -> point -> bool.
  Variable cell_center : Z -> point.
  Variable leaf_of_point : point -> Z.

  Notation eov := (edge_or_vertex_crossing point crossing_sign vertex_crossing).
  Notation parity := (parity_crossings point crossing_sign vertex_crossing).
  Notation sc_loop := (shape_contains_loop point pt_eqb crossing_sign vertex_crossing).
  Notation sc := (shape_contains point pt_eqb crossing_sign vertex_crossing).
  Notation brute := (brute_contains point crossing_sign vertex_crossing).
  Notation brute_model := (brute_contains_model point pt_eqb crossing_sign vertex_crossing).
  Notation qshape := (qshape point).
  Notation pedge := (pedge point).

  Lemma parity_acc a b (es : list pedge) acc :
    fold_left (fun acc (e : pedge) => xorb acc (eov a b (fst e) (snd e))) es acc = xorb acc (parity a b es).
  Proof.
    unfold parity_crossings. revert acc. induction es as [|e t IH]; intros acc; cbn [fold_left].
    - rewrite xorb_false_r. reflexivity.
    - rewrite IH. rewrite (IH (xorb false _)). rewrite xorb_false_l, xorb_assoc. reflexivity.
  Qed.

  Lemma parity_cons a b (e : pedge) t : parity a b (e :: t) = xorb (eov a b (fst e) (snd e)) (parity a b t).
  Proof. unfold parity_crossings at 1. cbn [fold_left]. rewrite parity_acc, xorb_false_l. reflexivity. Qed.

  (** the semi-open edge loop is the crossing parity of centre -> p over the listed edges *)
  Lemma sc_loop_semiopen center p (es : list pedge) inside :
    sc_loop VertexModelSemiOpen center p es inside = xorb inside (parity center p es).
  Proof.
    revert inside. induction es as [|[v0 v1] t IH]; intros inside.
    - cbn. rewrite xorb_false_r. reflexivity.
    - rewrite parity_cons. cbn [shape_contains_loop fst snd model_eqb negb andb].
      unfold edge_or_vertex_crossing.
      destruct (crossing_sign center p v0 v1); rewrite IH.
      + rewrite xorb_assoc. reflexivity.
      + rewrite xorb_assoc. reflexivity.
      + rewrite xorb_false_l. reflexivity.
  Qed.

  Definition has_endpoint (p : point) (e : pedge) : bool := pt_eqb (fst e) p || pt_eqb (snd e) p.

  (** open and closed differ from semi-open only when p is an endpoint of a listed edge *)
  Lemma sc_loop_no_vertex model center p (es : list pedge) inside :
    existsb (has_endpoint p) es = false ->
    sc_loop model center p es inside = sc_loop VertexModelSemiOpen center p es inside.
  Proof.
    revert inside. induction es as [|[v0 v1] t IH]; intros inside Hno; [reflexivity|].
    cbn [existsb] in Hno. apply orb_false_elim in Hno as (Hh & Ht). unfold has_endpoint in Hh. cbn [fst snd] in Hh.
    cbn [shape_contains_loop]. rewrite Hh, andb_false_r. cbn [model_eqb negb andb].
    destruct (crossing_sign center p v0 v1); apply IH; assumption.
  Qed.

  (** ... and when it is (and CrossingSign reports the shared vertex as MaybeCross), closed says
      "contained" and open says "not contained" *)
  Lemma sc_loop_vertex model center p (es : list pedge) inside :
    model <> VertexModelSemiOpen ->
    existsb (has_endpoint p) es = true ->
    (forall e, In e es -> has_endpoint p e = true -> crossing_sign center p (fst e) (snd e) = MaybeCross) ->
    sc_loop model center p es inside = model_eqb model VertexModelClosed.
  Proof.
    intros Hm. revert inside. induction es as [|[v0 v1] t IH]; intros inside Hex Hsign; [discriminate|].
    cbn [shape_contains_loop].
    assert (negb (model_eqb model VertexModelSemiOpen) = true) as Hnm by (destruct model; [reflexivity|congruence|reflexivity]).
    rewrite Hnm. cbn [andb].
    destruct (has_endpoint p (v0, v1)) eqn:Hh.
    - pose proof (Hsign (v0, v1) (or_introl eq_refl) Hh) as Hs0. cbn [fst snd] in Hs0. rewrite Hs0. unfold has_endpoint in Hh. cbn [fst snd] in Hh. rewrite Hh. reflexivity.
    - cbn [existsb] in Hex. rewrite Hh in Hex. cbn [orb] in Hex.
      unfold has_endpoint in Hh. cbn [fst snd] in Hh. rewrite Hh.
      assert (forall e, In e t -> has_endpoint p e = true -> crossing_sign center p (fst e) (snd e) = MaybeCross) as Hs'
        by (intros e He; apply Hsign; right; exact He).
      destruct (crossing_sign center p v0 v1); apply IH; assumption.
  Qed.

  (** One located cell, one shape. [listed] are the shape's edges the cell lists.
      H1: containsCenter is brute force at the centre;
      H-CLIP (as used): an edge the cell does not list is not crossed by centre -> p, so the parity
      over all edges equals the parity over the listed ones;
      H-JORDAN (as used): crossing parities along ref -> centre -> p and ref -> p agree. *)
  Theorem shape_contains_semiopen_eq_brute (s : qshape) (cl : clipped) ref ref_inside center p :
    cl_containsCenter cl = brute s ref ref_inside center ->
    (q_dim s = 2 -> parity center p (q_edges s) = parity center p (edges_of point s (cl_edges cl))) ->
    (q_dim s = 2 -> xorb (parity ref center (q_edges s)) (parity center p (q_edges s)) = parity ref p (q_edges s)) ->
    sc VertexModelSemiOpen s cl center p = brute s ref ref_inside p.
  Proof.
    intros H1 Hclip Hjordan. unfold shape_contains, brute_contains in *.
    destruct (q_dim s =? 2) eqn:Ed; cbn [negb] in *.
    - apply Z.eqb_eq in Ed. specialize (Hclip Ed). specialize (Hjordan Ed).
      assert (xorb (cl_containsCenter cl) (parity center p (edges_of point s (cl_edges cl))) =
              xorb ref_inside (parity ref p (q_edges s))) as Hmain.
      { rewrite H1, <- Hclip, <- Hjordan. rewrite xorb_assoc. reflexivity. }
      destruct (lenZ (cl_edges cl) <=? 0) eqn:El.
      + assert (cl_edges cl = []) as Hnil by (apply Z.leb_le in El; unfold lenZ in El; destruct (cl_edges cl); [reflexivity|cbn in El; lia]).
        rewrite Hnil in Hmain. cbn in Hmain. rewrite xorb_false_r in Hmain. exact Hmain.
      + rewrite sc_loop_semiopen. exact Hmain.
    - destruct (lenZ (cl_edges cl) <=? 0); [exact H1|reflexivity].
  Qed.

  (** the same cell and shape under the open and closed models *)
  Theorem shape_contains_models_eq_brute (model : vertex_model) (s : qshape) (cl : clipped) ref ref_inside center p :
    sc VertexModelSemiOpen s cl center p = brute s ref ref_inside p ->
    cl_containsCenter cl = brute s ref ref_inside center ->
    (* an edge with endpoint p meets the cell holding p, so it is listed (completeness) *)
    (is_vertex point pt_eqb s p = existsb (has_endpoint p) (edges_of point s (cl_edges cl))) ->
    (* CrossingSign on a shared vertex *)
    (forall e, In e (q_edges s) -> has_endpoint p e = true -> crossing_sign center p (fst e) (snd e) = MaybeCross) ->
    sc model s cl center p = brute_model model s ref ref_inside p.
  Proof.
    intros Hsemi H1 Hvert Hsign.
    destruct model; [| exact Hsemi |]; unfold brute_contains_model.
    - (* open *)
      unfold shape_contains in *. destruct (lenZ (cl_edges cl) <=? 0) eqn:El.
      + assert (cl_edges cl = []) as Hnil by (apply Z.leb_le in El; unfold lenZ in El; destruct (cl_edges cl); [reflexivity|cbn in El; lia]).
        rewrite Hnil in Hvert. cbn in Hvert. rewrite Hvert. cbn [negb andb].
        destruct (q_dim s =? 2) eqn:Ed; [exact Hsemi|].
        rewrite H1. unfold brute_contains. rewrite Ed. reflexivity.
      + destruct (q_dim s =? 2) eqn:Ed; cbn [negb] in *; [|reflexivity].
        rewrite Hvert. destruct (existsb (has_endpoint p) (edges_of point s (cl_edges cl))) eqn:Ev; cbn [negb andb].
        * apply sc_loop_vertex; [discriminate|exact Ev|].
          intros e He. apply Hsign. unfold edges_of in He. apply in_flat_map in He as (i & _ & He).
          destruct ((0 <=? i) && (i <? lenZ (q_edges s))); [|contradiction].
          destruct (nth_error (q_edges s) (Z.to_nat i)) eqn:En; [|contradiction].
          destruct He as [<-|[]]. eapply nth_error_In; eassumption.
        * rewrite sc_loop_no_vertex by exact Ev. exact Hsemi.
    - (* closed *)
      unfold shape_contains in *. destruct (lenZ (cl_edges cl) <=? 0) eqn:El.
      + assert (cl_edges cl = []) as Hnil by (apply Z.leb_le in El; unfold lenZ in El; destruct (cl_edges cl); [reflexivity|cbn in El; lia]).
        rewrite Hnil in Hvert. cbn in Hvert. rewrite Hvert. cbn [orb]. exact Hsemi.
      + rewrite Hvert. destruct (q_dim s =? 2) eqn:Ed; cbn [negb model_eqb] in *.
        * destruct (existsb (has_endpoint p) (edges_of point s (cl_edges cl))) eqn:Ev; cbn [orb].
          -- apply sc_loop_vertex; [discriminate|exact Ev|].
             intros e He. apply Hsign. unfold edges_of in He. apply in_flat_map in He as (i & _ & He).
             destruct ((0 <=? i) && (i <? lenZ (q_edges s))); [|contradiction].
             destruct (nth_error (q_edges s) (Z.to_nat i)) eqn:En; [|contradiction].
             destruct He as [<-|[]]. eapply nth_error_In; eassumption.
          -- rewrite sc_loop_no_vertex by exact Ev. exact Hsemi.
        * unfold brute_contains. rewrite Ed. cbn [negb]. rewrite orb_false_r. reflexivity.
  Qed.
End Contains.

(** * The whole query against brute force, for any index value satisfying [index_ok] *)
Section Whole.
  Variable point : Type.
  Variable pt_eqb : point -> point -> bool.
  Variable crossing_sign : point -> point -> point -> point -> crossing.
  Variable vertex_crossing : point -> point -> point -> point -> bool.
  Variable cell_center : Z -> point.
  Variable leaf_of_point : point -> Z.
  Variable shapes : list (qshape point).
  (** the reference point of each shape (Shape.ReferencePoint) *)
  Variable ref_of : Z -> point.
  Variable ref_inside_of : Z -> bool.

  Notation eov := (edge_or_vertex_crossing point crossing_sign vertex_crossing).
  Notation parity := (parity_crossings point crossing_sign vertex_crossing).
  Notation brute := (brute_contains point crossing_sign vertex_crossing).
  Notation brute_model := (brute_contains_model point pt_eqb crossing_sign vertex_crossing).
  Notation shape sid := (nth_shape point shapes sid).

  Definition cell_id (idx : index) (pos : Z) : Z := fst (nth_cell idx pos).
  Definition entry (idx : index) (pos sid : Z) : option clipped := find_by_shape (snd (nth_cell idx pos)) sid.
  (** the edges of shape [sid] that cell [pos] lists *)
  Definition listed (idx : index) (pos sid : Z) : list (pedge point) :=
    match entry idx pos sid with Some cl => edges_of point (shape sid) (cl_edges cl) | None => [] end.

  Fixpoint increasing (l : list Z) : Prop :=
    match l with
    | [] => True
    | x :: t => match t with [] => True | y :: _ => x < y end /\ increasing t
    end.

  (** what the harness validates on every index the implementation builds *)
  Record index_ok (idx : index) : Prop := {
    ok_cells : cells_ok (cell_ids idx);
    ok_edges : forall pos cl, 0 <= pos < lenZ idx -> In cl (snd (nth_cell idx pos)) ->
      0 <= cl_shape cl < lenZ shapes /\ increasing (cl_edges cl) /\
      Forall (fun e => 0 <= e < lenZ (q_edges (shape (cl_shape cl)))) (cl_edges cl);
    ok_center : forall pos sid, 0 <= pos < lenZ idx -> 0 <= sid < lenZ shapes ->
      match entry idx pos sid with Some cl => cl_containsCenter cl | None => false end =
      brute (shape sid) (ref_of sid) (ref_inside_of sid) (cell_center (cell_id idx pos)) }.

  (** H-JORDAN, in the form used: for every polygonal shape the crossing parities along
      ref -> a -> b and along ref -> b agree (even number of crossings around a closed path) *)
  Definition H_JORDAN : Prop := forall sid a b, 0 <= sid < lenZ shapes -> q_dim (shape sid) = 2 ->
    xorb (parity (ref_of sid) a (q_edges (shape sid))) (parity a b (q_edges (shape sid))) =
    parity (ref_of sid) b (q_edges (shape sid)).
  (** H-CLIP, in the form used: in the cell holding p, the edges the cell does not list are not
      crossed by centre -> p, so all edges and listed edges have the same crossing parity *)
  Definition H_CLIP (idx : index) : Prop := forall pos sid p, 0 <= pos < lenZ idx -> 0 <= sid < lenZ shapes ->
    in_cell (cell_id idx pos) (leaf_of_point p) -> q_dim (shape sid) = 2 ->
    parity (cell_center (cell_id idx pos)) p (q_edges (shape sid)) =
    parity (cell_center (cell_id idx pos)) p (listed idx pos sid).
  (** the cells cover every shape: a point in no index cell is in no shape *)
  Definition H_COVER (idx : index) : Prop := forall p sid, 0 <= sid < lenZ shapes ->
    (forall pos, 0 <= pos < lenZ idx -> ~ in_cell (cell_id idx pos) (leaf_of_point p)) ->
    brute (shape sid) (ref_of sid) (ref_inside_of sid) p = false.
  (** an edge ending at p meets the cell holding p, hence is listed there *)
  Definition H_CLIP_VERTEX (idx : index) : Prop := forall pos sid p, 0 <= pos < lenZ idx -> 0 <= sid < lenZ shapes ->
    in_cell (cell_id idx pos) (leaf_of_point p) ->
    is_vertex point pt_eqb (shape sid) p = existsb (has_endpoint point pt_eqb p) (listed idx pos sid).
  (** CrossingSign(a, p, c, d) with p one of c, d is MaybeCross *)
  Definition H_SHARED_VERTEX : Prop := forall a p c d, pt_eqb c p || pt_eqb d p = true -> crossing_sign a p c d = MaybeCross.
  (** a point in no index cell is no vertex *)
  Definition H_COVER_VERTEX (idx : index) : Prop := forall p sid, 0 <= sid < lenZ shapes ->
    (forall pos, 0 <= pos < lenZ idx -> ~ in_cell (cell_id idx pos) (leaf_of_point p)) ->
    is_vertex point pt_eqb (shape sid) p = false.

  Lemma cell_ids_len idx : lenZ (cell_ids idx) = lenZ idx.
  Proof. unfold cell_ids, lenZ. rewrite map_length. reflexivity. Qed.
  Lemma cell_ids_nth idx pos : nthZ (cell_ids idx) pos 0 = cell_id idx pos.
  Proof.
    unfold cell_ids, cell_id, nth_cell, nthZ. destruct (pos <? 0); [reflexivity|].
    apply (map_nth fst idx (0, []) (Z.to_nat pos)).
  Qed.

  Lemma locate_cases idx p :
    index_ok idx ->
    match locate_point (cell_ids idx) (leaf_of_point p) with
    | Some pos => 0 <= pos < lenZ idx /\ in_cell (cell_id idx pos) (leaf_of_point p)
    | None => forall pos, 0 <= pos < lenZ idx -> ~ in_cell (cell_id idx pos) (leaf_of_point p)
    end.
  Proof.
    intros Hok. destruct (locate_point (cell_ids idx) (leaf_of_point p)) as [pos|] eqn:El.
    - apply locate_point_sound in El; [|apply Hok]. rewrite cell_ids_len, cell_ids_nth in El. exact El.
    - intros pos Hpos Hin. rewrite <- cell_ids_nth in Hin.
      rewrite (locate_point_complete (cell_ids idx) _ pos) in El; [discriminate|apply Hok|rewrite cell_ids_len; exact Hpos|exact Hin].
  Qed.

  Lemma entry_shape idx pos sid cl : entry idx pos sid = Some cl -> cl_shape cl = sid /\ In cl (snd (nth_cell idx pos)).
  Proof.
    unfold entry, find_by_shape. intros H. apply find_some in H as (Hin & He). apply Z.eqb_eq in He. auto.
  Qed.

  (** ContainsPointQuery.ShapeContains under the semi-open model = brute force over all edges *)
  Theorem query_eq_brute_semiopen idx : index_ok idx -> H_JORDAN -> H_CLIP idx -> H_COVER idx ->
    forall sid p, 0 <= sid < lenZ shapes ->
    query_shape_contains point pt_eqb crossing_sign vertex_crossing cell_center leaf_of_point
      VertexModelSemiOpen shapes idx sid p =
    brute (shape sid) (ref_of sid) (ref_inside_of sid) p.
  Proof.
    intros Hok Hj Hc Hcov sid p Hsid. unfold query_shape_contains.
    pose proof (locate_cases idx p Hok) as Hl.
    destruct (locate_point (cell_ids idx) (leaf_of_point p)) as [pos|].
    - destruct Hl as (Hpos & Hin).
      pose proof (ok_center idx Hok pos sid Hpos Hsid) as H1.
      pose proof (Hc pos sid p Hpos Hsid Hin) as Hclip. unfold listed in Hclip.
      unfold cell_id, entry in *. destruct (nth_cell idx pos) as [id cell] eqn:En. cbn [fst snd] in *.
      destruct (find_by_shape cell sid) as [cl|] eqn:Ef.
      + apply (shape_contains_semiopen_eq_brute point pt_eqb crossing_sign vertex_crossing); [exact H1|exact Hclip|].
        intros Hd. apply Hj; assumption.
      + symmetry.
        rewrite <- (shape_contains_semiopen_eq_brute point pt_eqb crossing_sign vertex_crossing
                      (shape sid) (mkClipped sid false []) (ref_of sid) (ref_inside_of sid) (cell_center id) p).
        * reflexivity.
        * exact H1.
        * exact Hclip.
        * intros Hd. apply Hj; assumption.
    - symmetry. apply Hcov; assumption.
  Qed.

  (** ... and under the open and closed models: they differ from semi-open exactly on vertices *)
  Theorem query_eq_brute idx : index_ok idx -> H_JORDAN -> H_CLIP idx -> H_COVER idx ->
    H_CLIP_VERTEX idx -> H_COVER_VERTEX idx -> H_SHARED_VERTEX ->
    forall model sid p, 0 <= sid < lenZ shapes ->
    query_shape_contains point pt_eqb crossing_sign vertex_crossing cell_center leaf_of_point
      model shapes idx sid p =
    brute_model model (shape sid) (ref_of sid) (ref_inside_of sid) p.
  Proof.
    intros Hok Hj Hc Hcov Hcv Hcovv Hsh model sid p Hsid.
    pose proof (query_eq_brute_semiopen idx Hok Hj Hc Hcov sid p Hsid) as Hsemi.
    unfold query_shape_contains in *.
    pose proof (locate_cases idx p Hok) as Hl.
    destruct (locate_point (cell_ids idx) (leaf_of_point p)) as [pos|].
    - destruct Hl as (Hpos & Hin).
      pose proof (ok_center idx Hok pos sid Hpos Hsid) as H1.
      pose proof (Hcv pos sid p Hpos Hsid Hin) as Hvert. unfold listed in Hvert.
      unfold cell_id, entry in *. destruct (nth_cell idx pos) as [id cell] eqn:En. cbn [fst snd] in *.
      destruct (find_by_shape cell sid) as [cl|] eqn:Ef.
      + apply (shape_contains_models_eq_brute point pt_eqb crossing_sign vertex_crossing); try assumption.
        intros e _ He. apply Hsh. exact He.
      + (* no entry: no listed edge, the centre is outside *)
        cbn [existsb] in Hvert.
        destruct model; unfold brute_contains_model; rewrite ?Hvert, <- ?Hsemi; cbn [negb andb orb];
          try reflexivity.
        destruct (q_dim (shape sid) =? 2); reflexivity.
    - pose proof (Hcovv p sid Hsid Hl) as Hv. pose proof (Hcov p sid Hsid Hl) as Hb.
      destruct model; unfold brute_contains_model; rewrite ?Hv, ?Hb; cbn [negb andb orb];
        try reflexivity.
      destruct (q_dim (shape sid) =? 2); reflexivity.
  Qed.
End Whole.

(** * CrossingEdgeQuery: filtering a sorted duplicate-free superset of the crossing edges gives
      exactly the brute-force answer *)
Lemma increasing_head_lt x l : increasing (x :: l) -> forall y, In y l -> x < y.
Proof.
  revert x. induction l as [|z t IH]; intros x H y Hy; [contradiction|].
  cbn in H. destruct H as (Hxz & Ht). destruct Hy as [<-|Hy]; [assumption|].
  specialize (IH z Ht y Hy). lia.
Qed.

Lemma increasing_tail x l : increasing (x :: l) -> increasing l.
Proof. cbn. tauto. Qed.

Lemma increasing_ext l1 : forall l2, increasing l1 -> increasing l2 -> (forall x, In x l1 <-> In x l2) -> l1 = l2.
Proof.
  induction l1 as [|a t1 IH]; intros [|b t2] H1 H2 Hext.
  - reflexivity.
  - exfalso. apply (proj2 (Hext b)). left; reflexivity.
  - exfalso. apply (proj1 (Hext a)). left; reflexivity.
  - pose proof (increasing_head_lt a t1 H1) as Ha. pose proof (increasing_head_lt b t2 H2) as Hb.
    assert (a = b) as Hab.
    { destruct (proj1 (Hext a) (or_introl eq_refl)) as [E|Hin]; [symmetry; exact E|].
      destruct (proj2 (Hext b) (or_introl eq_refl)) as [E|Hin2]; [exact E|].
      specialize (Ha b Hin2). specialize (Hb a Hin). lia. }
    subst b.
    f_equal. apply IH; [eapply increasing_tail; eassumption|eapply increasing_tail; eassumption|].
    intros x. split; intros Hx.
    + destruct (proj1 (Hext x) (or_intror Hx)) as [E|]; [|assumption]. subst x. specialize (Ha a Hx). lia.
    + destruct (proj2 (Hext x) (or_intror Hx)) as [E|]; [|assumption]. subst x. specialize (Hb a Hx). lia.
Qed.

Lemma increasing_cons_intro x l : (forall y, In y l -> x < y) -> increasing l -> increasing (x :: l).
Proof. intros H Hl. cbn. split; [|assumption]. destruct l; [trivial|]. apply H. left; reflexivity. Qed.

Lemma increasing_filter f l : increasing l -> increasing (filter f l).
Proof.
  induction l as [|x t IH]; intros H; [exact I|].
  pose proof (increasing_head_lt x t H) as Hx. specialize (IH (increasing_tail x t H)).
  cbn [filter]. destruct (f x); [|assumption].
  apply increasing_cons_intro; [|assumption]. intros y Hy. apply filter_In in Hy. apply Hx. tauto.
Qed.

Lemma insert_uniq_In x l y : In y (insert_uniq x l) <-> y = x \/ In y l.
Proof.
  induction l as [|z t IH]; cbn [insert_uniq].
  - cbn. intuition.
  - destruct (x <? z) eqn:E1; [cbn; intuition|]. destruct (x =? z) eqn:E2.
    + apply Z.eqb_eq in E2. subst z. cbn. intuition.
    + cbn [In]. rewrite IH. intuition.
Qed.

Lemma insert_uniq_increasing x l : increasing l -> increasing (insert_uniq x l).
Proof.
  induction l as [|z t IH]; intros H; [cbn; auto|].
  pose proof (increasing_head_lt z t H) as Hz. cbn [insert_uniq].
  destruct (x <? z) eqn:E1.
  - apply Z.ltb_lt in E1. apply increasing_cons_intro; [|assumption].
    intros y [<-|Hy]; [assumption|]. specialize (Hz y Hy). lia.
  - apply Z.ltb_ge in E1. destruct (x =? z) eqn:E2; [assumption|]. apply Z.eqb_neq in E2.
    apply increasing_cons_intro; [|apply IH; eapply increasing_tail; eassumption].
    intros y Hy. apply insert_uniq_In in Hy as [->|Hy]; [lia|apply Hz; assumption].
Qed.

Lemma unique_ints_increasing l : increasing (unique_ints l).
Proof. induction l; cbn; [exact I|apply insert_uniq_increasing; assumption]. Qed.

Lemma unique_ints_In l y : In y (unique_ints l) <-> In y l.
Proof. induction l as [|x t IH]; cbn; [tauto|]. rewrite insert_uniq_In, IH. intuition. Qed.

Lemma zrange_up_increasing lo hi : increasing (zrange_up lo hi).
Proof.
  unfold zrange_up. generalize (Z.to_nat (hi - lo)) as n. intros n.
  assert (forall s, increasing (map (fun k : nat => lo + Z.of_nat k) (seq s n))) as H.
  { induction n as [|n IH]; intros s; [exact I|]. cbn [seq map].
    apply increasing_cons_intro; [|apply IH].
    intros y Hy. apply in_map_iff in Hy as (k & <- & Hk). apply in_seq in Hk. lia. }
  apply H.
Qed.

Lemma zrange_up_In lo hi y : In y (zrange_up lo hi) <-> lo <= y < hi.
Proof.
  unfold zrange_up. rewrite in_map_iff. split.
  - intros (k & <- & Hk). apply in_seq in Hk. lia.
  - intros Hy. exists (Z.to_nat (y - lo)). split; [lia|]. apply in_seq. lia.
Qed.

Section Crossings.
  Variable point : Type.
  Variable crossing_sign : point -> point -> point -> point -> crossing.
  Notation crossings := (crossings point crossing_sign).
  Notation brute_crossings := (brute_crossings point crossing_sign).

  (** does edge [e] of [s] pass the filter of Crossings(a, b, s, crossType)? *)
  Definition crosses (all : bool) (s : qshape point) (a b : point) (e : Z) : bool :=
    match nth_error (q_edges s) (Z.to_nat e) with
    | Some (v0, v1) => keep_crossing all (crossing_sign a b v0 v1)
    | None => false
    end.

  (** the candidates are increasing (one cell: the cell's edge list; several: uniqueInts), lie in
      range, and contain every edge that passes the filter (completeness of the index plus H-CLIP
      for the query edge's own descent) *)
  Theorem crossings_eq_brute all (s : qshape point) a b cands :
    increasing cands ->
    (forall e, In e cands -> 0 <= e < lenZ (q_edges s)) ->
    (forall e, 0 <= e < lenZ (q_edges s) -> crosses all s a b e = true -> In e cands) ->
    crossings all s a b cands = brute_crossings all s a b.
  Proof.
    intros Hinc Hrange Hsup. unfold Index.brute_crossings, Index.crossings.
    fold (crosses all s a b).
    apply increasing_ext.
    - apply increasing_filter; assumption.
    - apply increasing_filter, zrange_up_increasing.
    - intros e. rewrite !filter_In, zrange_up_In. split.
      + intros (Hin & Hc). split; [apply Hrange; assumption|assumption].
      + intros (Hr & Hc). split; [apply Hsup; assumption|assumption].
  Qed.

  (** the gathering step always produces an increasing list when the cells' lists are *)
  Theorem crossing_candidates_increasing (idx : index) visited sid :
    (forall pos cl, In pos visited -> find_by_shape (snd (nth_cell idx pos)) sid = Some cl -> increasing (cl_edges cl)) ->
    increasing (crossing_candidates idx visited sid).
  Proof.
    intros Hinc. unfold crossing_candidates.
    destruct (1 <? lenZ visited) eqn:E; [apply unique_ints_increasing|].
    apply Z.ltb_ge in E. unfold lenZ in E.
    destruct visited as [|pos [|pos2 t]]; [exact I| |cbn [length] in E; lia].
    cbn [flat_map]. rewrite app_nil_r.
    destruct (find_by_shape (snd (nth_cell idx pos)) sid) as [cl|] eqn:Ef; [|exact I].
    apply (Hinc pos cl); [left; reflexivity|assumption].
  Qed.

  (** and it is exactly the union of the visited cells' lists *)
  Theorem crossing_candidates_In (idx : index) visited sid e :
    In e (crossing_candidates idx visited sid) <->
    exists pos cl, In pos visited /\ find_by_shape (snd (nth_cell idx pos)) sid = Some cl /\ In e (cl_edges cl).
  Proof.
    unfold crossing_candidates.
    assert (In e (flat_map (fun pos => match find_by_shape (snd (nth_cell idx pos)) sid with
                                       | Some cl => cl_edges cl | None => [] end) visited) <->
            exists pos cl, In pos visited /\ find_by_shape (snd (nth_cell idx pos)) sid = Some cl /\ In e (cl_edges cl)) as H.
    { rewrite in_flat_map. split.
      - intros (pos & Hp & He). destruct (find_by_shape (snd (nth_cell idx pos)) sid) as [cl|] eqn:Ef; [|contradiction].
        exists pos, cl. auto.
      - intros (pos & cl & Hp & Ef & He). exists pos. rewrite Ef. auto. }
    destruct (1 <? lenZ visited); [rewrite unique_ints_In|]; exact H.
  Qed.
End Crossings.

(** * LocateCellID: the documented Indexed / Subdivided / Disjoint relation *)

(** cell ranges are laminar: equal, disjoint, or one lies in the lower or upper half of the other *)
Definition in_half (a b : Z) : Prop :=   (* range a is inside one half of range b, away from b *)
  (range_min b <= range_min a /\ range_max a < b) \/ (b < range_min a /\ range_max a <= range_max b).

Lemma laminar_le a b : 0 < a -> 0 < b -> lsbZ a <= lsbZ b ->
  a = b \/ range_max a < range_min b \/ range_max b < range_min a \/ in_half a b.
Proof.
  intros Ha Hb Hl. destruct a as [|pa|pa]; try lia. destruct b as [|pb|pb]; try lia.
  unfold in_half, range_min, range_max. cbn [lsbZ] in *.
  destruct (lsb_pos_spec pa) as (m & x & Ea & Ela & Hx & Hm).
  destruct (lsb_pos_spec pb) as (k & y & Eb & Elb & Hy & Hk).
  rewrite Ela, Elb in *. rewrite Ea, Eb.
  assert (x <= y) as Hxy.
  { destruct (Z_le_gt_dec x y); [assumption|exfalso].
    assert (2 ^ y < 2 ^ x) by (apply Z.pow_lt_mono_r; lia). lia. }
  assert (0 < 2 ^ x) as HM by (apply Z.pow_pos_nonneg; lia).
  set (M := 2 ^ x) in *.
  destruct (Z.eq_dec x y) as [<-|Hne].
  - (* same level *)
    fold M. destruct (Z.lt_trichotomy m k) as [Hlt|[->|Hgt]]; [right; left; nia|left; reflexivity|right; right; left; nia].
  - (* a is deeper: L = 2M * q *)
    assert (2 ^ y = M * (2 * 2 ^ (y - x - 1))) as EL.
    { unfold M. replace y with (x + (1 + (y - x - 1))) at 1 by lia.
      rewrite Z.pow_add_r by lia. rewrite Z.pow_add_r by lia. reflexivity. }
    assert (0 < 2 ^ (y - x - 1)) as Hq by (apply Z.pow_pos_nonneg; lia).
    set (q := 2 ^ (y - x - 1)) in *. rewrite EL. clear EL Ela Elb Ea Eb Hl.
    (* thresholds in units of D = 2M *)
    destruct (Z_lt_le_dec m (2 * k * q)) as [H1|H1].
    + right; left. nia.
    + destruct (Z_lt_le_dec m ((2 * k + 1) * q)) as [H2|H2].
      * right; right; right. left. nia.
      * destruct (Z_lt_le_dec m ((2 * k + 2) * q)) as [H3|H3].
        -- right; right; right. right. nia.
        -- right; right; left. nia.
Qed.

Lemma laminar a b : 0 < a -> 0 < b ->
  (a = b /\ range_min a = range_min b /\ range_max a = range_max b) \/
  range_max a < range_min b \/ range_max b < range_min a \/ in_half a b \/ in_half b a.
Proof.
  intros Ha Hb. destruct (Z_le_gt_dec (lsbZ a) (lsbZ b)) as [H|H].
  - destruct (laminar_le a b Ha Hb H) as [->|[?|[?|?]]]; auto.
  - destruct (laminar_le b a Hb Ha ltac:(lia)) as [->|[?|[?|?]]]; auto.
Qed.

Theorem locate_cellid_spec cells T : cells_ok cells -> 0 < T ->
  match locate_cellid cells T with
  | Indexed k => 0 <= k < lenZ cells /\
      range_min (nthZ cells k 0) <= range_min T /\ range_max T <= range_max (nthZ cells k 0)
  | Subdivided k => 0 <= k < lenZ cells /\
      range_min T <= range_min (nthZ cells k 0) /\ range_max (nthZ cells k 0) <= range_max T /\
      nthZ cells k 0 <> T /\
      (forall k', 0 <= k' < k -> range_max (nthZ cells k' 0) < range_min T)
  | Disjoint => forall k, 0 <= k < lenZ cells ->
      range_max (nthZ cells k 0) < range_min T \/ range_max T < range_min (nthZ cells k 0)
  end.
Proof.
  intros Hok HT. pose proof (seek_spec cells (range_min T) Hok) as Hs. cbv zeta in Hs.
  destruct Hs as (Hpos & Hlow & Hhigh). pose proof Hok as (Hv & Hd).
  pose proof (range_bounds T HT) as HrT.
  assert (forall k, 0 <= k < lenZ cells ->
            0 < nthZ cells k 0 /\ range_min (nthZ cells k 0) <= nthZ cells k 0 <= range_max (nthZ cells k 0)) as Hb.
  { intros k Hk. pose proof (Hv k Hk). split; [lia|apply range_bounds; lia]. }
  unfold locate_cellid, id_at. set (pos := seek cells (range_min T)) in *.
  destruct (pos <? lenZ cells) eqn:E1.
  - apply Z.ltb_lt in E1. pose proof (Hv pos ltac:(lia)) as Hvp. pose proof (Hb pos ltac:(lia)) as (HI0 & HbI).
    pose proof (Hhigh pos ltac:(lia)) as HIge.
    pose proof (laminar (nthZ cells pos 0) T HI0 HT) as HlamI. unfold in_half in HlamI.
    destruct ((nthZ cells pos 0) =? sentinel) eqn:E2; [apply Z.eqb_eq in E2; lia|]. cbn [negb andb].
    destruct ((nthZ cells pos 0) >=? T) eqn:E3; rewrite Z.geb_leb in E3;
      [apply Z.leb_le in E3|apply Z.leb_gt in E3]; cbn [andb].
    + destruct (range_min (nthZ cells pos 0) <=? T) eqn:E4; [apply Z.leb_le in E4|apply Z.leb_gt in E4].
      * (* Indexed at pos *) split; [lia|]. lia.
      * destruct ((nthZ cells pos 0) <=? range_max T) eqn:E5; [apply Z.leb_le in E5|apply Z.leb_gt in E5].
        -- (* Subdivided *) split; [lia|]. split; [lia|]. split; [lia|]. split; [lia|].
           intros k' Hk'. pose proof (Hlow k' ltac:(lia)) as Hk'lt. pose proof (Hb k' ltac:(lia)) as (Hk0 & Hbk).
           pose proof (Hd k' pos ltac:(lia) ltac:(lia)) as Hdk.
           pose proof (laminar (nthZ cells k' 0) T Hk0 HT) as Hlk. unfold in_half in Hlk. lia.
        -- (* try the predecessor, else disjoint *)
           destruct (0 <? pos) eqn:E6; [apply Z.ltb_lt in E6|apply Z.ltb_ge in E6]; cbn [andb].
           ++ destruct (pos - 1 <? lenZ cells) eqn:E7; [|apply Z.ltb_ge in E7; lia].
              pose proof (Hb (pos - 1) ltac:(lia)) as (HP0 & HbP). pose proof (Hlow (pos - 1) ltac:(lia)) as HPlt.
              pose proof (laminar (nthZ cells (pos - 1) 0) T HP0 HT) as HlamP. unfold in_half in HlamP.
              pose proof (Hd (pos - 1) pos ltac:(lia) ltac:(lia)) as HdP.
              destruct (range_max (nthZ cells (pos - 1) 0) >=? T) eqn:E8; rewrite Z.geb_leb in E8;
                [apply Z.leb_le in E8|apply Z.leb_gt in E8].
              ** split; [lia|]. lia.
              ** intros k Hk. pose proof (Hb k Hk) as (Hk0 & Hbk).
                 pose proof (laminar (nthZ cells k 0) T Hk0 HT) as Hlk. unfold in_half in Hlk.
                 destruct (Z_lt_le_dec k pos) as [Hkp|Hkp].
                 --- pose proof (Hlow k ltac:(lia)).
                     destruct (Z.eq_dec k (pos - 1)) as [->|Hne]; [lia|].
                     pose proof (Hd k (pos - 1) ltac:(lia) ltac:(lia)). lia.
                 --- pose proof (Hhigh k ltac:(lia)).
                     destruct (Z.eq_dec k pos) as [->|Hne]; [lia|].
                     pose proof (Hd pos k ltac:(lia) ltac:(lia)) as Hdk. lia.
           ++ intros k Hk. pose proof (Hb k Hk) as (Hk0 & Hbk).
              pose proof (laminar (nthZ cells k 0) T Hk0 HT) as Hlk. unfold in_half in Hlk.
              pose proof (Hhigh k ltac:(lia)).
              destruct (Z.eq_dec k pos) as [->|Hne]; [lia|].
              pose proof (Hd pos k ltac:(lia) ltac:(lia)) as Hdk. lia.
    + (* the cell at pos is below T *)
      destruct ((nthZ cells pos 0) <=? range_max T) eqn:E5; [apply Z.leb_le in E5|apply Z.leb_gt in E5; lia].
      (* Subdivided *) split; [lia|]. split; [lia|]. split; [lia|]. split; [lia|].
      intros k' Hk'. pose proof (Hlow k' ltac:(lia)) as Hk'lt. pose proof (Hb k' ltac:(lia)) as (Hk0 & Hbk).
      pose proof (Hd k' pos ltac:(lia) ltac:(lia)) as Hdk.
      pose proof (laminar (nthZ cells k' 0) T Hk0 HT) as Hlk. unfold in_half in Hlk. lia.
  - apply Z.ltb_ge in E1. rewrite Z.eqb_refl. cbn [negb andb].
    destruct (0 <? pos) eqn:E6; [apply Z.ltb_lt in E6|apply Z.ltb_ge in E6]; cbn [andb].
    + destruct (pos - 1 <? lenZ cells) eqn:E7; [|apply Z.ltb_ge in E7; lia].
      pose proof (Hb (pos - 1) ltac:(lia)) as (HP0 & HbP). pose proof (Hlow (pos - 1) ltac:(lia)) as HPlt.
      pose proof (laminar (nthZ cells (pos - 1) 0) T HP0 HT) as HlamP. unfold in_half in HlamP.
      destruct (range_max (nthZ cells (pos - 1) 0) >=? T) eqn:E8; rewrite Z.geb_leb in E8;
        [apply Z.leb_le in E8|apply Z.leb_gt in E8].
      * split; [lia|]. lia.
      * intros k Hk. pose proof (Hb k Hk) as (Hk0 & Hbk).
        pose proof (laminar (nthZ cells k 0) T Hk0 HT) as Hlk. unfold in_half in Hlk.
        pose proof (Hlow k ltac:(lia)).
        destruct (Z.eq_dec k (pos - 1)) as [->|Hne]; [lia|].
        pose proof (Hd k (pos - 1) ltac:(lia) ltac:(lia)). lia.
    + intros k Hk. lia.
Qed.

(** * Statements in the form used by Props/C06.v *)
Theorem locate_point_iff cells target k : cells_ok cells ->
  (locate_point cells target = Some k <-> 0 <= k < lenZ cells /\ in_cell (nthZ cells k 0) target).
Proof.
  intros Hok. split.
  - apply locate_point_sound; assumption.
  - intros (Hk & Hin). apply locate_point_complete; assumption.
Qed.

Theorem crossing_candidates_spec (idx : index) visited sid :
  (forall pos cl, In pos visited -> find_by_shape (snd (nth_cell idx pos)) sid = Some cl -> increasing (cl_edges cl)) ->
  increasing (crossing_candidates idx visited sid) /\
  forall e, In e (crossing_candidates idx visited sid) <->
            exists pos cl, In pos visited /\ find_by_shape (snd (nth_cell idx pos)) sid = Some cl /\ In e (cl_edges cl).
Proof.
  intros H. split; [apply crossing_candidates_increasing; exact H|].
  intros e. apply crossing_candidates_In.
Qed.

(** * The hypotheses of [query_eq_brute] are satisfiable (and [index_ok] is inhabited): one
      polygonal shape without edges containing everything ("full"), indexed by the six face cells *)
Section Example.
  Let point := Z.
  Let sign (a b c d : point) := DoNotCross.
  Let vc (a b c d : point) := false.
  Let center (id : Z) : point := id.
  (* every point lies on face 0: its leaf cell is the first leaf of face 0 *)
  Let leaf (p : point) : Z := 1.
  Let shapes : list (qshape point) := [mkQShape 2 []].
  Let ref_of (sid : Z) : point := 0.
  Let ref_in (sid : Z) : bool := true.
  Let face (f : Z) : Z := (2 * f + 1) * 2 ^ 60.
  Let idx : index := map (fun f => (face f, [mkClipped 0 true []])) [0; 1; 2; 3; 4; 5].

  Example index_ok_inhabited : index_ok point sign vc center shapes ref_of ref_in idx.
  Proof.
    constructor.
    - split.
      + intros i Hi. assert (i = 0 \/ i = 1 \/ i = 2 \/ i = 3 \/ i = 4 \/ i = 5) as H by (change (lenZ (cell_ids idx)) with 6 in Hi; lia).
        destruct H as [->|[->|[->|[->|[->| ->]]]]]; vm_compute; split; reflexivity.
      + intros i j Hij Hj.
        assert (j = 1 \/ j = 2 \/ j = 3 \/ j = 4 \/ j = 5) as H by (change (lenZ (cell_ids idx)) with 6 in Hj; lia).
        assert (i = 0 \/ i = 1 \/ i = 2 \/ i = 3 \/ i = 4) as H' by lia.
        destruct H as [->|[->|[->|[->| ->]]]]; destruct H' as [->|[->|[->|[->| ->]]]]; try lia; vm_compute; reflexivity.
    - intros pos cl Hpos Hin.
      assert (pos = 0 \/ pos = 1 \/ pos = 2 \/ pos = 3 \/ pos = 4 \/ pos = 5) as H by (change (lenZ idx) with 6 in Hpos; lia).
      assert (cl = mkClipped 0 true []) as ->.
      { destruct H as [->|[->|[->|[->|[->| ->]]]]]; cbn in Hin; destruct Hin as [<-|[]]; reflexivity. }
      cbn. repeat split; try lia. constructor.
    - intros pos sid Hpos Hsid.
      assert (pos = 0 \/ pos = 1 \/ pos = 2 \/ pos = 3 \/ pos = 4 \/ pos = 5) as H by (change (lenZ idx) with 6 in Hpos; lia).
      assert (sid = 0) as -> by (change (lenZ shapes) with 1 in Hsid; lia).
      destruct H as [->|[->|[->|[->|[->| ->]]]]]; reflexivity.
  Qed.

  Example hypotheses_satisfiable :
    H_JORDAN point sign vc shapes ref_of /\ H_CLIP point sign vc center leaf shapes idx /\
    H_COVER point sign vc leaf shapes ref_of ref_in idx /\
    H_CLIP_VERTEX point Z.eqb leaf shapes idx /\ H_COVER_VERTEX point Z.eqb leaf shapes idx.
  Proof.
    assert (forall sid, 0 <= sid < lenZ shapes -> sid = 0) as Hs by (intros sid H; change (lenZ shapes) with 1 in H; lia).
    assert (forall pos, 0 <= pos < lenZ idx -> pos = 0 \/ pos = 1 \/ pos = 2 \/ pos = 3 \/ pos = 4 \/ pos = 5) as Hp
      by (intros pos H; change (lenZ idx) with 6 in H; lia).
    repeat split.
    - intros sid a b Hsid _. rewrite (Hs sid Hsid). reflexivity.
    - intros pos sid p Hpos Hsid _ _. rewrite (Hs sid Hsid).
      destruct (Hp pos Hpos) as [->|[->|[->|[->|[->| ->]]]]]; reflexivity.
    - intros p sid Hsid Hno. exfalso. apply (Hno 0); [change (lenZ idx) with 6; lia|].
      vm_compute. split; congruence.
    - intros pos sid p Hpos Hsid _. rewrite (Hs sid Hsid).
      destruct (Hp pos Hpos) as [->|[->|[->|[->|[->| ->]]]]]; reflexivity.
    - intros p sid Hsid _. rewrite (Hs sid Hsid). reflexivity.
  Qed.
End Example.

(** * H-CLIP in the form used follows from its per-edge form: if every edge a cell does NOT list is
      not crossed by centre -> p, the crossing parity over all edges equals the parity over the
      listed ones (the listed ids being increasing and in range, as [index_ok] demands). *)
Section ClipFromEdges.
  Variable point : Type.
  Variable crossing_sign : point -> point -> point -> point -> crossing.
  Variable vertex_crossing : point -> point -> point -> point -> bool.
  Notation eov := (edge_or_vertex_crossing point crossing_sign vertex_crossing).
  Notation parity := (parity_crossings point crossing_sign vertex_crossing).

  Lemma parity_app a b (l1 l2 : list (pedge point)) : parity a b (l1 ++ l2) = xorb (parity a b l1) (parity a b l2).
  Proof.
    induction l1 as [|e t IH]; [cbn [app]; change (parity a b []) with false; rewrite xorb_false_l; reflexivity|].
    rewrite <- app_comm_cons, !(parity_cons point crossing_sign vertex_crossing), IH, xorb_assoc. reflexivity.
  Qed.

  Lemma parity_all_false a b (l : list (pedge point)) :
    (forall e, In e l -> eov a b (fst e) (snd e) = false) -> parity a b l = false.
  Proof.
    induction l as [|e t IH]; intros H; [reflexivity|].
    rewrite (parity_cons point crossing_sign vertex_crossing), (H e (or_introl eq_refl)), IH; [reflexivity|].
    intros e' He'. apply H. right; exact He'.
  Qed.

  Lemma In_firstn_skipn {A} (es : list A) : forall lo m e, In e (firstn m (skipn lo es)) ->
    exists k, (lo <= k < lo + m)%nat /\ nth_error es k = Some e.
  Proof.
    induction es as [|h t IH]; intros lo m e Hin.
    - destruct lo, m; cbn in Hin; contradiction.
    - destruct lo as [|lo].
      + cbn [skipn] in Hin. destruct m as [|m]; [contradiction|]. cbn [firstn] in Hin.
        destruct Hin as [<-|Hin]; [exists O; split; [lia|reflexivity]|].
        destruct (IH O m e) as (k & Hk & Hn); [cbn [skipn]; exact Hin|]. exists (S k). split; [lia|exact Hn].
      + cbn [skipn] in Hin. destruct (IH lo m e Hin) as (k & Hk & Hn). exists (S k). split; [lia|exact Hn].
  Qed.

  Lemma skipn_skipn' {A} (l : list A) : forall x y, skipn x (skipn y l) = skipn (x + y) l.
  Proof.
    induction l as [|h t IH]; intros x y.
    - destruct x, y; reflexivity.
    - destruct y as [|y].
      + cbn [skipn]. rewrite Nat.add_0_r. reflexivity.
      + cbn [skipn]. rewrite IH. replace (x + S y)%nat with (S (x + y)) by lia. reflexivity.
  Qed.

  Lemma skipn_nth_cons {A} (es : list A) : forall k x, nth_error es k = Some x -> skipn k es = x :: skipn (S k) es.
  Proof.
    induction es as [|h t IH]; intros k x H; destruct k; cbn in H; try discriminate.
    - inversion H; reflexivity.
    - cbn [skipn]. rewrite (IH k x H). reflexivity.
  Qed.

  Lemma edges_of_cons (s : qshape point) x t ex : 0 <= x < lenZ (q_edges s) ->
    nth_error (q_edges s) (Z.to_nat x) = Some ex -> edges_of point s (x :: t) = ex :: edges_of point s t.
  Proof.
    intros Hx Hn. unfold edges_of. cbn [flat_map].
    destruct (0 <=? x) eqn:E1; [|apply Z.leb_gt in E1; lia].
    destruct (x <? lenZ (q_edges s)) eqn:E2; [|apply Z.ltb_ge in E2; lia].
    cbn [andb]. rewrite Hn. reflexivity.
  Qed.

  Theorem parity_listed_eq_all (s : qshape point) a b : forall ids (lo : nat),
    increasing ids ->
    (forall e, In e ids -> Z.of_nat lo <= e < lenZ (q_edges s)) ->
    (forall k ex, (lo <= k)%nat -> ~ In (Z.of_nat k) ids -> nth_error (q_edges s) k = Some ex ->
                  eov a b (fst ex) (snd ex) = false) ->
    parity a b (skipn lo (q_edges s)) = parity a b (edges_of point s ids).
  Proof.
    induction ids as [|x t IH]; intros lo Hinc Hrange Hun.
    - cbn. apply parity_all_false. intros e He.
      rewrite <- (firstn_all (skipn lo (q_edges s))) in He.
      apply In_firstn_skipn in He as (k & Hk & Hn). apply (Hun k e); [lia|tauto|exact Hn].
    - pose proof (Hrange x (or_introl eq_refl)) as Hx.
      set (xn := Z.to_nat x).
      assert (xn < length (q_edges s))%nat as Hxl by (unfold lenZ in Hx; lia).
      destruct (nth_error (q_edges s) xn) as [ex|] eqn:Hn; [|apply nth_error_None in Hn; lia].
      rewrite (edges_of_cons s x t ex) by (lia || exact Hn).
      rewrite <- (firstn_skipn (xn - lo) (skipn lo (q_edges s))), skipn_skipn'.
      replace (xn - lo + lo)%nat with xn by lia.
      rewrite (skipn_nth_cons _ _ _ Hn), parity_app, !(parity_cons point crossing_sign vertex_crossing).
      pose proof (increasing_head_lt x t Hinc) as Hlt.
      rewrite parity_all_false, xorb_false_l.
      + f_equal. apply IH.
        * eapply increasing_tail; eassumption.
        * intros e He. specialize (Hlt e He). specialize (Hrange e (or_intror He)). lia.
        * intros k ex' Hk Hnot Hn'. apply (Hun k ex'); [lia| |exact Hn'].
          intros [Heq|Hin]; [lia|contradiction].
      + intros e He. apply In_firstn_skipn in He as (k & Hk & Hn').
        apply (Hun k e); [lia| |exact Hn'].
        intros [Heq|Hin]; [lia|]. specialize (Hlt _ Hin). lia.
  Qed.

  (** the form in which it feeds H_CLIP: all edges vs the edges one cell lists *)
  Corollary clip_parity_from_edges (s : qshape point) a b ids :
    increasing ids ->
    (forall e, In e ids -> 0 <= e < lenZ (q_edges s)) ->
    (forall k ex, ~ In (Z.of_nat k) ids -> nth_error (q_edges s) k = Some ex -> eov a b (fst ex) (snd ex) = false) ->
    parity a b (q_edges s) = parity a b (edges_of point s ids).
  Proof.
    intros Hinc Hr Hun. apply (parity_listed_eq_all s a b ids O); [assumption|exact Hr|].
    intros k ex _. apply Hun.
  Qed.
End ClipFromEdges.
