(** C06 — proofs about the query-side model (Model/Index.v): cell location on a sorted disjoint
    cell list, and the reduction of the index answers to brute force under [index_ok] and the
    named geometric hypotheses H-JORDAN / H-CLIP. *)
From Coq Require Import ZArith List Bool Lia.
From Geo Require Import Base.GoPrim Model.Index.
Import ListNotations.
Local Open Scope Z_scope.

(** * Cell ids *)
Lemma lsbZ_pos id : 0 < id -> 1 <= lsbZ id.
Proof. destruct id; cbn; lia. Qed.

Lemma range_bounds id : 0 < id -> range_min id <= id <= range_max id.
Proof. intros H. pose proof (lsbZ_pos id H). unfold range_min, range_max. lia. Qed.

(** [id = (2k+1) * lsb] and [lsb] is a power of two *)
Lemma lsb_pos_spec p : exists k l, Zpos p = (2 * k + 1) * 2 ^ l /\ Zpos (lsb_pos p) = 2 ^ l /\ 0 <= l /\ 0 <= k.
Proof.
  induction p as [p IH | p IH |].
  - exists (Zpos p), 0. cbn [lsb_pos]. rewrite Z.pow_0_r. lia.
  - destruct IH as (k & l & H1 & H2 & Hl & Hk). exists k, (l + 1).
    cbn [lsb_pos]. rewrite Z.pow_add_r by lia. change (2 ^ 1) with 2. lia.
  - exists 0, 0. cbn. lia.
Qed.

(** * sort.Search *)
Section Search.
  Variable f : Z -> bool.
  Variables lo hi : Z.
  Hypothesis mono : forall k k', lo <= k <= k' -> k' < hi -> f k = true -> f k' = true.

  Lemma go_search_spec fuel : forall i j,
    lo <= i <= j -> j <= hi -> j - i <= Z.of_nat fuel - 1 ->
    (forall k, lo <= k < i -> f k = false) ->
    (forall k, j <= k < hi -> f k = true) ->
    let r := go_search fuel f i j in
    i <= r <= j /\ (forall k, lo <= k < r -> f k = false) /\ (forall k, r <= k < hi -> f k = true).
  Proof.
    induction fuel as [|fu IH]; intros i j Hij Hj Hfuel Hlow Hhigh; [lia|].
    cbn [go_search]. destruct (i <? j) eqn:E.
    - apply Z.ltb_lt in E.
      assert (i <= (i + j) / 2 < j) as Hh
        by (pose proof (Z.div_mod (i + j) 2 ltac:(lia)); pose proof (Z.mod_pos_bound (i + j) 2 ltac:(lia)); lia).
      set (h := (i + j) / 2) in *.
      destruct (f h) eqn:Fh; cbn [negb].
      + specialize (IH i h ltac:(lia) ltac:(lia) ltac:(lia) Hlow).
        assert (forall k, h <= k < hi -> f k = true) as Hh2.
        { intros k Hk. apply (mono h k); [lia|lia|exact Fh]. }
        specialize (IH Hh2). cbv zeta in IH |- *. destruct IH as (A & B & C). split; [lia|split; assumption].
      + assert (forall k, lo <= k < h + 1 -> f k = false) as Hl2.
        { intros k Hk. destruct (f k) eqn:Fk; [|reflexivity].
          rewrite (mono k h) in Fh; [discriminate|lia|lia|exact Fk]. }
        specialize (IH (h + 1) j ltac:(lia) ltac:(lia) ltac:(lia) Hl2 Hhigh). cbv zeta in IH |- *.
        destruct IH as (A & B & C). split; [lia|split; assumption].
    - apply Z.ltb_ge in E. assert (i = j) by lia. subst j. cbv zeta.
      split; [lia|]. split; assumption.
  Qed.
End Search.

(** * Sorted, pairwise disjoint cells *)
Definition cells_ok (cells : list Z) : Prop :=
  (forall i, 0 <= i < lenZ cells -> 0 < nthZ cells i 0 < sentinel) /\
  (forall i j, 0 <= i < j -> j < lenZ cells -> range_max (nthZ cells i 0) < range_min (nthZ cells j 0)).

Lemma lenZ_nonneg {A} (l : list A) : 0 <= lenZ l.
Proof. unfold lenZ; lia. Qed.

Lemma cells_ok_sorted cells i j : cells_ok cells -> 0 <= i < j -> j < lenZ cells ->
  nthZ cells i 0 < nthZ cells j 0.
Proof.
  intros (Hv & Hd) Hij Hj.
  pose proof (range_bounds _ (proj1 (Hv i ltac:(lia)))).
  pose proof (range_bounds _ (proj1 (Hv j ltac:(lia)))).
  specialize (Hd i j Hij Hj). lia.
Qed.

Lemma seek_spec cells t : cells_ok cells ->
  let pos := seek cells t in
  0 <= pos <= lenZ cells /\
  (forall k, 0 <= k < pos -> nthZ cells k 0 < t) /\
  (forall k, pos <= k < lenZ cells -> t <= nthZ cells k 0).
Proof.
  intros Hok. unfold seek, sort_search.
  pose proof (lenZ_nonneg cells) as Hn.
  pose proof (go_search_spec (fun i => nthZ cells i 0 >=? t) 0 (lenZ cells)) as H.
  assert (forall k k', 0 <= k <= k' -> k' < lenZ cells ->
            (nthZ cells k 0 >=? t) = true -> (nthZ cells k' 0 >=? t) = true) as Hmono.
  { intros k k' Hk Hk' Hf. rewrite Z.geb_leb in *. apply Z.leb_le in Hf. apply Z.leb_le.
    destruct (Z.eq_dec k k') as [->|Hne]; [assumption|].
    pose proof (cells_ok_sorted cells k k' Hok ltac:(lia) Hk'). lia. }
  specialize (H Hmono (S (Z.to_nat (lenZ cells))) 0 (lenZ cells) ltac:(lia) ltac:(lia) ltac:(lia)
                ltac:(intros; lia) ltac:(intros; lia)).
  cbv zeta in H. destruct H as (Hr & Hlow & Hhigh).
  split; [lia|]. split.
  - intros k Hk. specialize (Hlow k Hk). cbv beta in Hlow. rewrite Z.geb_leb in Hlow. apply Z.leb_gt in Hlow. lia.
  - intros k Hk. specialize (Hhigh k Hk). cbv beta in Hhigh. rewrite Z.geb_leb in Hhigh. apply Z.leb_le in Hhigh. lia.
Qed.

Definition in_cell (c t : Z) : Prop := range_min c <= t <= range_max c.

Theorem locate_point_sound cells t k : cells_ok cells ->
  locate_point cells t = Some k -> 0 <= k < lenZ cells /\ in_cell (nthZ cells k 0) t.
Proof.
  intros Hok. pose proof (seek_spec cells t Hok) as Hs. cbv zeta in Hs.
  destruct Hs as (Hpos & Hlow & Hhigh). destruct Hok as (Hv & Hd).
  unfold locate_point, id_at, in_cell. set (pos := seek cells t) in *.
  destruct (pos <? lenZ cells) eqn:E1.
  - apply Z.ltb_lt in E1. pose proof (Hv pos ltac:(lia)) as Hvp.
    destruct (nthZ cells pos 0 =? sentinel) eqn:E2; [apply Z.eqb_eq in E2; lia|]. cbn [negb andb].
    destruct (range_min (nthZ cells pos 0) <=? t) eqn:E3.
    + apply Z.leb_le in E3. intros H; inversion H; subst k.
      pose proof (range_bounds _ (proj1 Hvp)). specialize (Hhigh pos ltac:(lia)). lia.
    + destruct (0 <? pos) eqn:E4; cbn [andb]; [|discriminate]. apply Z.ltb_lt in E4.
      destruct (pos - 1 <? lenZ cells) eqn:E5; [|apply Z.ltb_ge in E5; lia].
      destruct (range_max (nthZ cells (pos - 1) 0) >=? t) eqn:E6; [|discriminate].
      rewrite Z.geb_leb in E6. apply Z.leb_le in E6. intros H; inversion H; subst k.
      pose proof (range_bounds _ (proj1 (Hv (pos - 1) ltac:(lia)))). specialize (Hlow (pos - 1) ltac:(lia)). lia.
  - apply Z.ltb_ge in E1. rewrite Z.eqb_refl. cbn [negb andb].
    destruct (0 <? pos) eqn:E4; cbn [andb]; [|discriminate]. apply Z.ltb_lt in E4.
    destruct (pos - 1 <? lenZ cells) eqn:E5; [|apply Z.ltb_ge in E5; lia].
    destruct (range_max (nthZ cells (pos - 1) 0) >=? t) eqn:E6; [|discriminate].
    rewrite Z.geb_leb in E6. apply Z.leb_le in E6. intros H; inversion H; subst k.
    pose proof (range_bounds _ (proj1 (Hv (pos - 1) ltac:(lia)))). specialize (Hlow (pos - 1) ltac:(lia)). lia.
Qed.

Theorem locate_point_complete cells t k : cells_ok cells ->
  0 <= k < lenZ cells -> in_cell (nthZ cells k 0) t -> locate_point cells t = Some k.
Proof.
  intros Hok Hk Hin. pose proof (seek_spec cells t Hok) as Hs. cbv zeta in Hs.
  destruct Hs as (Hpos & Hlow & Hhigh). destruct Hok as (Hv & Hd).
  unfold locate_point, id_at. unfold in_cell in Hin. set (pos := seek cells t) in *.
  pose proof (range_bounds _ (proj1 (Hv k Hk))) as Hrk.
  destruct (Z_lt_le_dec (nthZ cells k 0) t) as [Hlt | Hge].
  - (* the cell id is below the target: it is the predecessor of the seek position *)
    assert (k < pos) as Hkp.
    { destruct (Z_lt_le_dec k pos); [assumption|]. specialize (Hhigh k ltac:(lia)). lia. }
    assert (k = pos - 1) as Hk1.
    { destruct (Z.eq_dec k (pos - 1)); [assumption|exfalso].
      specialize (Hd k (pos - 1) ltac:(lia) ltac:(lia)). specialize (Hlow (pos - 1) ltac:(lia)).
      pose proof (range_bounds _ (proj1 (Hv (pos - 1) ltac:(lia)))). lia. }
    assert ((negb ((if pos <? lenZ cells then nthZ cells pos 0 else sentinel) =? sentinel) &&
             (range_min (if pos <? lenZ cells then nthZ cells pos 0 else sentinel) <=? t)) = false) as ->.
    { destruct (pos <? lenZ cells) eqn:E1.
      - apply Z.ltb_lt in E1. specialize (Hd k pos ltac:(lia) E1).
        destruct (range_min (nthZ cells pos 0) <=? t) eqn:E3; [apply Z.leb_le in E3; lia|].
        apply andb_false_r.
      - rewrite Z.eqb_refl. reflexivity. }
    destruct (0 <? pos) eqn:E4; [|apply Z.ltb_ge in E4; lia]. cbn [andb].
    destruct (pos - 1 <? lenZ cells) eqn:E5; [|apply Z.ltb_ge in E5; lia].
    rewrite <- Hk1.
    destruct (range_max (nthZ cells k 0) >=? t) eqn:E6; [reflexivity|].
    rewrite Z.geb_leb in E6. apply Z.leb_gt in E6. lia.
  - (* the cell id is at or above the target: it is the seek position *)
    assert (pos <= k) as Hpk.
    { destruct (Z_lt_le_dec k pos); [|assumption]. specialize (Hlow k ltac:(lia)). lia. }
    assert (k = pos) as Hk1.
    { destruct (Z.eq_dec k pos); [assumption|exfalso].
      specialize (Hd pos k ltac:(lia) ltac:(lia)). specialize (Hhigh pos ltac:(lia)).
      pose proof (range_bounds _ (proj1 (Hv pos ltac:(lia)))). lia. }
    subst k. destruct (pos <? lenZ cells) eqn:E1; [|apply Z.ltb_ge in E1; lia].
    destruct (nthZ cells pos 0 =? sentinel) eqn:E2; [apply Z.eqb_eq in E2; specialize (Hv pos Hk); lia|].
    cbn [negb andb].
    destruct (range_min (nthZ cells pos 0) <=? t) eqn:E3; [reflexivity|apply Z.leb_gt in E3; lia].
Qed.
