(** C02. H-STABLE-DET DISCHARGED for the repaired stableSign: a non-zero answer is the sign of
    the exact determinant on unit-length inputs ([stable_sound_closed], closed).
    The constants of the Go source enter through closed side conditions only
    ([stable_consts_ok]): detErrorMultiplier >= K_STABLE = 3.232097 * 2^-52, <= 1, and the
    no-underflow limit is at least detErrorMultiplier * 2^-501. *)
From Coq Require Import ZArith Reals Floats Lra Lia Bool Psatz.
From Flocq Require Import Core.Core.
From Geo Require Import Base.GoPrim Base.F64 Base.Exact Gen.R3 Gen.S2Pred Model.Pred
  Proofs.C02_Exact Proofs.C02_Float Proofs.C02_RelErr Proofs.C02_TriageReal Proofs.C02_TriageDet
  Proofs.C02_IsUnit Proofs.C02_StableReal.
Local Open Scope R_scope.

Notation Rsqrt := R_sqrt.sqrt.

(** * |v|^2 as Norm2 computes it *)
Lemma g_le_4u : (1 + u) * (1 + u) * (1 + u) - 1 <= 4 * u.
Proof. pose proof u_small as [U0 U1]. nra. Qed.

Lemma norm2_step (a b c : PrimFloat.float) :
  ffinite a = true -> ffinite b = true -> ffinite c = true ->
  Rabs (FR a) <= 4 -> Rabs (FR b) <= 4 -> Rabs (FR c) <= 4 ->
  let n := (a * a + b * b + c * c)%float in
  ffinite n = true /\ 0 <= FR n /\
  Rabs (FR n - sq3 (FR a) (FR b) (FR c)) <= sq3 (FR a) (FR b) (FR c) * (4 * u) + 9 * eta.
Proof.
  intros Fa Fb Fc Ba Bb Bc n.
  assert (Hsq : forall x, Rabs x <= 4 -> Rabs (x * x) <= 16).
  { intros x Hx. rewrite Rabs_mult. pose proof (Rabs_pos x). nra. }
  destruct (fmul_err a a Fa Fa) as (Faa & d1 & h1 & D1 & H1 & E1); [apply ok1000; pose proof (Hsq _ Ba); lra|].
  destruct (fmul_err b b Fb Fb) as (Fbb & d2 & h2 & D2 & H2 & E2); [apply ok1000; pose proof (Hsq _ Bb); lra|].
  destruct (fmul_err c c Fc Fc) as (Fcc & d3 & h3 & D3 & H3 & E3); [apply ok1000; pose proof (Hsq _ Bc); lra|].
  destruct (fmul_rnd a a Fa Fa) as (_ & Raa); [apply ok1000; pose proof (Hsq _ Ba); lra|].
  destruct (fmul_rnd b b Fb Fb) as (_ & Rbb); [apply ok1000; pose proof (Hsq _ Bb); lra|].
  destruct (fmul_rnd c c Fc Fc) as (_ & Rcc); [apply ok1000; pose proof (Hsq _ Bc); lra|].
  assert (Paa : 0 <= FR (a * a)%float) by (rewrite Raa; apply rnd_nonneg; nra).
  assert (Pbb : 0 <= FR (b * b)%float) by (rewrite Rbb; apply rnd_nonneg; nra).
  assert (Pcc : 0 <= FR (c * c)%float) by (rewrite Rcc; apply rnd_nonneg; nra).
  destruct (mul_step a a 4 4 Fa Fa Ba Ba ltac:(lra)) as (_ & _ & Maa).
  destruct (mul_step b b 4 4 Fb Fb Bb Bb ltac:(lra)) as (_ & _ & Mbb).
  destruct (mul_step c c 4 4 Fc Fc Bc Bc ltac:(lra)) as (_ & _ & Mcc).
  destruct (add_step _ _ _ _ Faa Fbb Maa Mbb ltac:(lra)) as (Fs & _ & Ms).
  destruct (fadd_err _ _ Faa Fbb) as (_ & d4 & h4 & D4 & H4 & E4).
  { apply ok1000. eapply Rle_trans; [apply Rabs_triang|]. lra. }
  destruct (fadd_rnd _ _ Faa Fbb) as (_ & Rs).
  { apply ok1000. eapply Rle_trans; [apply Rabs_triang|]. lra. }
  assert (Ps : 0 <= FR (a * a + b * b)%float) by (rewrite Rs; apply rnd_nonneg; lra).
  destruct (fadd_err _ _ Fs Fcc) as (Fn & d5 & h5 & D5 & H5 & E5).
  { apply ok1000. eapply Rle_trans; [apply Rabs_triang|]. lra. }
  destruct (fadd_rnd _ _ Fs Fcc) as (_ & Rn).
  { apply ok1000. eapply Rle_trans; [apply Rabs_triang|]. lra. }
  split; [exact Fn|]. split; [unfold n; rewrite Rn; apply rnd_nonneg; lra|].
  fold u in D1, D2, D3, D4, D5. fold eta in H1, H2, H3, H4, H5.
  pose proof (sum3_real_eta (FR a * FR a) (FR b * FR b) (FR c * FR c) d1 d2 d3 d4 d5 h1 h2 h3 h4 h5
    D1 D2 D3 D4 D5 H1 H2 H3 H4 H5) as S.
  rewrite <- E1, <- E2, <- E3, <- E4, <- E5 in S.
  assert (A0 : 0 <= FR a * FR a) by nra. assert (B0 : 0 <= FR b * FR b) by nra. assert (C0 : 0 <= FR c * FR c) by nra.
  rewrite (Rabs_pos_eq _ A0), (Rabs_pos_eq _ B0), (Rabs_pos_eq _ C0) in S.
  unfold n, sq3. eapply Rle_trans; [exact S|]. pose proof g_le_4u.
  assert ((FR a * FR a + FR b * FR b + FR c * FR c) * ((1 + u) * (1 + u) * (1 + u) - 1)
          <= (FR a * FR a + FR b * FR b + FR c * FR c) * (4 * u)) by (apply Rmult_le_compat_l; lra).
  lra.
Qed.

(** * Closed side conditions on the two constants of the generated stableSign *)
Lemma stable_consts_ok :
  ffinite detErrMul = true /\ ffinite minNoUnderflowErr = true /\
  847275 / 2 ^ 17 * u <= FR detErrMul <= 1 /\ FR detErrMul <= 2 ^ 501 * FR minNoUnderflowErr.
Proof.
  destruct stable_const_ok as (FM & LM & FN & LN). split; [exact FM|]. split; [exact FN|].
  assert (Hk : D2R K_STABLE = 847275 / 2 ^ 17 * u).
  { unfold D2R, K_STABLE, u. cbn [dm de]. replace (-70)%Z with (-53 + -17)%Z by lia. rewrite bpow_plus.
    simpl (bpow radix2 (-17)). lra. }
  rewrite Hk in LM. split; [split; [exact LM|]|].
  - replace 1 with (D2R done) by apply D2R_one. rewrite of_float_correct. apply dle_by_compute.
    vm_compute. reflexivity.
  - (* M <= 2^501 * Mmin, as dyadics *)
    replace (2 ^ 501 * FR minNoUnderflowErr) with (D2R (dmul (Dy 1 501) (of_float minNoUnderflowErr))).
    + rewrite of_float_correct. apply dle_by_compute. vm_compute. reflexivity.
    + rewrite D2R_mul, <- of_float_correct. f_equal. unfold D2R. cbn [dm de].
      rewrite Rmult_1_l. rewrite <- (IZR_Zpower radix2 501) by lia. rewrite pow_IZR. reflexivity.
Qed.

Lemma near_pos_form v e : 0 <= e -> near u eta v e -> Rabs (v - e) <= u * e + eta.
Proof. unfold near. intros He H. rewrite (Rabs_pos_eq e He) in H. exact H. Qed.

Lemma sqrt_le_50 t : 0 <= t -> t <= 2601 -> Rsqrt t <= 51.
Proof.
  intros H0 H. replace 51 with (Rsqrt (51 * 51)) by (apply sqrt_square; lra).
  apply sqrt_le_1_alt. lra.
Qed.

(** * One of the three symmetric cases of stableSign: e1 = p - q, e2 = q - r, op = q *)
Section Generic.
  Variables p q r : s2_Point.
  Hypothesis Up : unit_pt p.
  Hypothesis Uq : unit_pt q.
  Hypothesis Ur : unit_pt r.
  Variables M Mmin : PrimFloat.float.
  Hypothesis FM : ffinite M = true.
  Hypothesis FN : ffinite Mmin = true.
  Hypothesis HM : 847275 / 2 ^ 17 * u <= FR M <= 1.
  Hypothesis HMm : FR M <= 2 ^ 501 * FR Mmin.

  Let e1 := r3_Vector_Sub (s2_Point_Vector p) (s2_Point_Vector q).
  Let e2 := r3_Vector_Sub (s2_Point_Vector q) (s2_Point_Vector r).
  Let op := s2_Point_Vector q.
  Let fdet_ := PrimFloat.opp (r3_Vector_Dot (r3_Vector_Cross e1 e2) op).
  Let maxErr := PrimFloat.mul M (PrimFloat.sqrt (PrimFloat.mul (r3_Vector_Norm2 e1) (r3_Vector_Norm2 e2))).

  Theorem stable_generic : PrimFloat.ltb maxErr Mmin = false ->
    (PrimFloat.ltb maxErr fdet_ = true -> 0 < detR p r q) /\
    (PrimFloat.ltb fdet_ (PrimFloat.opp maxErr) = true -> detR p r q < 0).
  Proof.
    destruct (unit_coords p Up) as (Fp1 & Fp2 & Fp3 & Bp1 & Bp2 & Bp3).
    destruct (unit_coords q Uq) as (Fq1 & Fq2 & Fq3 & Bq1 & Bq2 & Bq3).
    destruct (unit_coords r Ur) as (Fr1 & Fr2 & Fr3 & Br1 & Br2 & Br3).
    pose proof (unit_norm_le q Uq) as NQ.
    subst e1 e2 op fdet_ maxErr.
    destruct p as [[px py pz]], q as [[qx qy qz]], r as [[rx ry rz]].
    unfold detR, det3, PX, PY, PZ in *. cbn [s2_Point_Vector r3_Vector_X r3_Vector_Y r3_Vector_Z] in *.
    unfold r3_Vector_Norm2, r3_Vector_Dot, r3_Vector_Cross, r3_Vector_Sub.
    cbn [s2_Point_Vector r3_Vector_X r3_Vector_Y r3_Vector_Z].
    (* the two edges *)
    destruct (sub_step px qx _ _ Fp1 Fq1 Bp1 Bq1 ltac:(lra)) as (Fx1 & _ & Bx1).
    destruct (sub_step py qy _ _ Fp2 Fq2 Bp2 Bq2 ltac:(lra)) as (Fx2 & _ & Bx2).
    destruct (sub_step pz qz _ _ Fp3 Fq3 Bp3 Bq3 ltac:(lra)) as (Fx3 & _ & Bx3).
    destruct (sub_step qx rx _ _ Fq1 Fr1 Bq1 Br1 ltac:(lra)) as (Fy1 & _ & By1).
    destruct (sub_step qy ry _ _ Fq2 Fr2 Bq2 Br2 ltac:(lra)) as (Fy2 & _ & By2).
    destruct (sub_step qz rz _ _ Fq3 Fr3 Bq3 Br3 ltac:(lra)) as (Fy3 & _ & By3).
    assert (Hd : forall a b, Rabs a <= 3 / 2 -> Rabs b <= 3 / 2 -> Rabs (a - b) <= bpow radix2 1023).
    { intros a b Ha Hb. apply ok1000. unfold Rminus. eapply Rle_trans; [apply Rabs_triang|]. rewrite Rabs_Ropp. lra. }
    destruct (fsub_exact_rel px qx Fp1 Fq1 (Hd _ _ Bp1 Bq1)) as (_ & a1 & A1 & EA1).
    destruct (fsub_exact_rel py qy Fp2 Fq2 (Hd _ _ Bp2 Bq2)) as (_ & a2 & A2 & EA2).
    destruct (fsub_exact_rel pz qz Fp3 Fq3 (Hd _ _ Bp3 Bq3)) as (_ & a3 & A3 & EA3).
    destruct (fsub_exact_rel qx rx Fq1 Fr1 (Hd _ _ Bq1 Br1)) as (_ & b1 & B1 & EB1).
    destruct (fsub_exact_rel qy ry Fq2 Fr2 (Hd _ _ Bq2 Br2)) as (_ & b2 & B2 & EB2).
    destruct (fsub_exact_rel qz rz Fq3 Fr3 (Hd _ _ Bq3 Br3)) as (_ & b3 & B3 & EB3).
    fold u in A1, A2, A3, B1, B2, B3.
    set (fx1 := (px - qx)%float) in *. set (fx2 := (py - qy)%float) in *. set (fx3 := (pz - qz)%float) in *.
    set (fy1 := (qx - rx)%float) in *. set (fy2 := (qy - ry)%float) in *. set (fy3 := (qz - rz)%float) in *.
    replace (3 / 2 + 3 / 2 + 1) with 4 in * by lra.
    (* cross product and dot product *)
    destruct (mul_step fx2 fy3 _ _ Fx2 Fy3 Bx2 By3 ltac:(lra)) as (F23 & N23 & M23).
    destruct (mul_step fx3 fy2 _ _ Fx3 Fy2 Bx3 By2 ltac:(lra)) as (F32 & N32 & M32).
    destruct (mul_step fx3 fy1 _ _ Fx3 Fy1 Bx3 By1 ltac:(lra)) as (F31 & N31 & M31).
    destruct (mul_step fx1 fy3 _ _ Fx1 Fy3 Bx1 By3 ltac:(lra)) as (F13 & N13 & M13).
    destruct (mul_step fx1 fy2 _ _ Fx1 Fy2 Bx1 By2 ltac:(lra)) as (F12 & N12 & M12).
    destruct (mul_step fx2 fy1 _ _ Fx2 Fy1 Bx2 By1 ltac:(lra)) as (F21 & N21 & M21).
    destruct (sub_step _ _ _ _ F23 F32 M23 M32 ltac:(lra)) as (Fp1' & Np1 & Mp1).
    destruct (sub_step _ _ _ _ F31 F13 M31 M13 ltac:(lra)) as (Fp2' & Np2 & Mp2).
    destruct (sub_step _ _ _ _ F12 F21 M12 M21 ltac:(lra)) as (Fp3' & Np3 & Mp3).
    destruct (mul_step _ qx _ _ Fp1' Fq1 Mp1 Bq1 ltac:(lra)) as (Fq1' & Nq1 & Mq1).
    destruct (mul_step _ qy _ _ Fp2' Fq2 Mp2 Bq2 ltac:(lra)) as (Fq2' & Nq2 & Mq2).
    destruct (mul_step _ qz _ _ Fp3' Fq3 Mp3 Bq3 ltac:(lra)) as (Fq3' & Nq3 & Mq3).
    destruct (add_step _ _ _ _ Fq1' Fq2' Mq1 Mq2 ltac:(lra)) as (Fs & Ns & Ms).
    set (fsm := ((fx2 * fy3 - fx3 * fy2) * qx + (fx3 * fy1 - fx1 * fy3) * qy)%float) in *.
    set (fq3 := ((fx1 * fy2 - fx2 * fy1) * qz)%float) in *.
    destruct (fadd_rnd fsm fq3 Fs Fq3') as (Fd & Ed).
    { apply ok1000. eapply Rle_trans; [apply Rabs_triang|]. lra. }
    destruct (fopp_fin _ Fd) as (Fdet & Edet).
    (* the error scale *)
    destruct (norm2_step fx1 fx2 fx3 Fx1 Fx2 Fx3 Bx1 Bx2 Bx3) as (Fn1 & Pn1 & En1).
    destruct (norm2_step fy1 fy2 fy3 Fy1 Fy2 Fy3 By1 By2 By3) as (Fn2 & Pn2 & En2).
    set (fn1 := (fx1 * fx1 + fx2 * fx2 + fx3 * fx3)%float) in *.
    set (fn2 := (fy1 * fy1 + fy2 * fy2 + fy3 * fy3)%float) in *.
    set (x1 := FR fx1) in *. set (x2 := FR fx2) in *. set (x3 := FR fx3) in *.
    set (y1 := FR fy1) in *. set (y2 := FR fy2) in *. set (y3 := FR fy3) in *.
    set (X2 := sq3 x1 x2 x3) in *. set (Y2 := sq3 y1 y2 y3) in *.
    pose proof u_small as [U0 U1]. pose proof u_val as Uv. destruct eta_bounds as [Et0 Et1].
    assert (Et2 : eta <= / 1000000) by nra.
    assert (HX2 : 0 <= X2 <= 50).
    { split; [apply sq3_nonneg|]. unfold X2, sq3.
      assert (Q : forall t, Rabs t <= 4 -> t * t <= 16) by (intros t Ht; apply Rabs_le_inv in Ht; nra).
      pose proof (Q _ Bx1). pose proof (Q _ Bx2). pose proof (Q _ Bx3). lra. }
    assert (HY2 : 0 <= Y2 <= 50).
    { split; [apply sq3_nonneg|]. unfold Y2, sq3.
      assert (Q : forall t, Rabs t <= 4 -> t * t <= 16) by (intros t Ht; apply Rabs_le_inv in Ht; nra).
      pose proof (Q _ By1). pose proof (Q _ By2). pose proof (Q _ By3). lra. }
    assert (Bn1 : Rabs (FR fn1) <= 51).
    { rewrite Rabs_pos_eq by exact Pn1. apply Rabs_le_inv in En1.
      assert (X2 * (4 * u) <= 50 * (4 * u)) by (apply Rmult_le_compat_r; lra). lra. }
    assert (Bn2 : Rabs (FR fn2) <= 51).
    { rewrite Rabs_pos_eq by exact Pn2. apply Rabs_le_inv in En2.
      assert (Y2 * (4 * u) <= 50 * (4 * u)) by (apply Rmult_le_compat_r; lra). lra. }
    destruct (mul_step fn1 fn2 _ _ Fn1 Fn2 Bn1 Bn2 ltac:(lra)) as (Fpr & Npr & Mpr).
    destruct (fmul_rnd fn1 fn2 Fn1 Fn2) as (_ & Rpr).
    { apply ok1000. rewrite Rabs_mult. assert (Rabs (FR fn1) * Rabs (FR fn2) <= 51 * 51) by (apply Rmult_le_compat; try apply Rabs_pos; lra). lra. }
    assert (Ppr : 0 <= FR (fn1 * fn2)%float) by (rewrite Rpr; apply rnd_nonneg; apply Rmult_le_pos; assumption).
    destruct (fsqrt_err _ Fpr Ppr) as (Fsq & Psq & dq & hq & Dq & Hq & Esq).
    fold u in Dq. fold eta in Hq.
    assert (Nsq : near u eta (FR (PrimFloat.sqrt (fn1 * fn2))) (Rsqrt (FR (fn1 * fn2)%float))) by (rewrite Esq; now apply err_near).
    assert (Bpr : FR (fn1 * fn2)%float <= 2601).
    { replace (51 * 51 + 1) with 2602 in Mpr by lra. apply Rabs_le_inv in Mpr.
      (* sharper: n1, n2 <= 49.1 *)
      apply Rabs_le_inv in En1, En2.
      assert (X2 * (4 * u) <= 50 * (4 * u)) by (apply Rmult_le_compat_r; lra).
      assert (Y2 * (4 * u) <= 50 * (4 * u)) by (apply Rmult_le_compat_r; lra).
      assert (FR fn1 * FR fn2 <= (501 / 10) * (501 / 10)) by (apply Rmult_le_compat; lra).
      apply near_pos_form in Npr; [|apply Rmult_le_pos; assumption]. apply Rabs_le_inv in Npr.
      assert (u * (FR fn1 * FR fn2) <= / 1024 * (501 / 10 * (501 / 10))) by (apply Rmult_le_compat; try lra; apply Rmult_le_pos; assumption).
      lra. }
    assert (Bsq : Rabs (FR (PrimFloat.sqrt (fn1 * fn2))) <= 52).
    { replace 52 with (51 + 1) by lra. apply (near_abs _ _ _ Nsq); [|lra].
      rewrite Rabs_pos_eq by apply sqrt_pos. now apply sqrt_le_50. }
    assert (BM : Rabs (FR M) <= 1) by (apply Rabs_le; lra).
    destruct (mul_step M _ _ _ FM Fsq BM Bsq ltac:(lra)) as (FE & NE & _).
    set (fE := (M * PrimFloat.sqrt (fn1 * fn2))%float) in *.
    destruct (fopp_fin _ FE) as (FoE & EoE).
    (* the guard *)
    intros Hg.
    destruct (ffinite_rank _ FE) as [NnE RE]. destruct (ffinite_rank _ FN) as [NnN RN].
    apply ltb_false_iff in Hg; auto. rewrite RE, RN in Hg.
    (* lower bound of maxErr *)
    assert (M0 : 0 <= FR M) by lra.
    destruct (maxerr_lower X2 Y2 (FR fn1) (FR fn2) (FR (fn1 * fn2)%float) (FR (PrimFloat.sqrt (fn1 * fn2))) (FR fE) (FR M) (FR Mmin)
      HX2 HY2 Pn1 Pn2 Ppr Psq En1 En2
      (near_pos_form _ _ (Rmult_le_pos _ _ Pn1 Pn2) Npr)
      (near_pos_form _ _ (sqrt_pos _) Nsq)
      (near_pos_form _ _ (Rmult_le_pos _ _ M0 Psq) NE)
      HM HMm Hg) as (Rl & EL).
    set (R_ := nrm x1 x2 x3 * nrm y1 y2 y3).
    assert (ER : Rsqrt (X2 * Y2) = R_).
    { unfold R_, nrm. fold X2 Y2. apply sqrt_mult; lra. }
    rewrite ER in Rl, EL.
    assert (P2504 : 0 < / 2 ^ 504) by (apply Rinv_0_lt_compat; apply pow_lt; lra).
    assert (XYpos : 0 < X2 /\ 0 < Y2).
    { destruct (Req_dec X2 0) as [Z|Z].
      - exfalso. unfold R_, nrm in Rl. fold X2 in Rl. rewrite Z, sqrt_0, Rmult_0_l in Rl. lra.
      - destruct (Req_dec Y2 0) as [Z'|Z'].
        + exfalso. unfold R_, nrm in Rl. fold Y2 in Rl. rewrite Z', sqrt_0, Rmult_0_r in Rl. lra.
        + lra. }
    destruct XYpos as [X2p Y2p].
    assert (HetaR : eta <= R_ * / 1000000).
    { rewrite eta_val, Uv. lra. }
    (* determinant error, edge perturbation *)
    pose proof (det_scaled x1 x2 x3 y1 y2 y3 (FR qx) (FR qy) (FR qz) _ _ _ _ _ _ _ _ _ _ _ _ _
      X2p Y2p NQ HetaR N23 N32 N31 N13 N12 N21 Np1 Np2 Np3 Nq1 Nq2 Nq3 Ns) as HT.
    fold R_ in HT.
    pose proof (pert_real x1 x2 x3 y1 y2 y3 (FR qx) (FR qy) (FR qz) a1 a2 a3 b1 b2 b3 A1 A2 A3 B1 B2 B3) as HP.
    fold R_ in HP.
    rewrite <- EA1, <- EA2, <- EA3, <- EB1, <- EB2, <- EB3 in HP.
    set (Z := nrm (FR qx) (FR qy) (FR qz)) in *.
    assert (HZ : 0 <= Z <= 1 + / 1000000).
    { split; [apply nrm_nonneg|]. unfold Z, nrm.
      replace (1 + / 1000000) with (Rsqrt ((1 + / 1000000) * (1 + / 1000000))) by (apply sqrt_square; lra).
      apply sqrt_le_1_alt. unfold sq3. pose proof theta_ok as [T0 T1]. simpl in NQ. nra. }
    assert (R0 : 0 <= R_) by (unfold R_; apply Rmult_le_pos; apply nrm_nonneg).
    destruct (stable_sign_real R_ Z (FR fsm + FR fq3) _ _ (FR fE) R0 HZ HT HP EL) as [Sneg Spos].
    assert (Edet3 : FR px * (FR ry * FR qz - FR rz * FR qy) + FR py * (FR rz * FR qx - FR rx * FR qz) +
                    FR pz * (FR rx * FR qy - FR ry * FR qx)
                  = - triple (FR px - FR qx) (FR py - FR qy) (FR pz - FR qz) (FR qx - FR rx) (FR qy - FR ry) (FR qz - FR rz)
                      (FR qx) (FR qy) (FR qz)) by (unfold triple; ring).
    rewrite Edet3.
    destruct (ffinite_rank _ Fdet) as [Nnd Rd]. destruct (ffinite_rank _ FoE) as [NnoE RoE].
    split; intros L.
    - apply ltb_true_R in L. rewrite RE, Rd, Edet, Ed in L.
      assert (rnd64 (FR fsm + FR fq3) < - FR fE) by lra.
      apply rnd_lt_inv in H; [|rewrite <- EoE; apply FR_generic].
      specialize (Sneg H). lra.
    - apply ltb_true_R in L. rewrite Rd, RoE, Edet, EoE, Ed in L.
      assert (FR fE < rnd64 (FR fsm + FR fq3)) by lra.
      apply rnd_gt_inv in H; [|apply FR_generic].
      specialize (Spos H). lra.
  Qed.
End Generic.

(** STABLESIGN IS SOUND — closed *)
Ltac stable_case G :=
  cbv beta iota zeta in *; revert G;
  repeat match goal with |- context [if ?c then _ else _] => destruct c end;
  intros G;
  first [ intros H; exfalso; apply H; reflexivity
        | destruct (G eq_refl) as [Gp Gn]; intros _; symmetry;
          first [ apply sgnR_pos; apply Gp; reflexivity | apply sgnR_neg; apply Gn; reflexivity ] ].

Theorem stable_sound_closed a b c : unit_pt a -> unit_pt b -> unit_pt c ->
  s2_stableSign a b c <> 0%Z -> s2_stableSign a b c = sgnR (detR a b c).
Proof.
  intros Ua Ub Uc. rewrite stable_is.
  destruct stable_consts_ok as (FM & FN & HM & HMm).
  unfold stable_with, stable_core. cbv zeta.
  destruct (PrimFloat.leb _ _ && PrimFloat.leb _ _).
  - (* e1 = a - c, e2 = c - b, op = c *)
    pose proof (stable_generic a c b Ua Uc Ub detErrMul minNoUnderflowErr FM FN HM HMm) as G.
    stable_case G.
  - destruct (PrimFloat.leb _ _).
    + (* e1 = b - a, e2 = a - c, op = a *)
      pose proof (stable_generic b a c Ub Ua Uc detErrMul minNoUnderflowErr FM FN HM HMm) as G.
      rewrite (detR_rot a b c) in G. stable_case G.
    + (* e1 = c - b, e2 = b - a, op = b *)
      pose proof (stable_generic c b a Uc Ub Ua detErrMul minNoUnderflowErr FM FN HM HMm) as G.
      rewrite (detR_rot b c a), (detR_rot a b c) in G. stable_case G.
Qed.
