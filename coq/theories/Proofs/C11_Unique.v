(** C11 — the normal form is unique: a normalized union is exactly the set of maximal
    cells inside its leaf set, so two normalized unions with equal leaf sets are equal. *)
From Coq Require Import ZArith List Bool Lia ZifyBool Sorted Permutation.
From Geo Require Import Base.GoPrim Gen.CellID Model.CellUnion Proofs.C11_Bits Proofs.C11_Cells Proofs.C11_Normalize.
Import ListNotations.
Local Open Scope Z_scope.

(** * Strongly sorted lists of cells *)
Lemma SS_suffix (R : Z -> Z -> Prop) l1 l2 : StronglySorted R (l1 ++ l2) -> StronglySorted R l2.
Proof. induction l1; cbn; [auto|]. intros H. inversion H; subst. auto. Qed.

Lemma SS_split (R : Z -> Z -> Prop) l1 a l2 : StronglySorted R (l1 ++ a :: l2) ->
  (forall x, In x l1 -> R x a) /\ (forall y, In y l2 -> R a y).
Proof.
  induction l1 as [|z l1 IH]; cbn; intros S; inversion S as [|? ? S' F]; subst.
  - split; [intros ? []|]. rewrite Forall_forall in F. exact F.
  - destruct (IH S') as [H1 H2]. split; [|exact H2].
    intros x [<-|Hx]; [|auto]. rewrite Forall_forall in F. apply F. apply in_or_app. right. left. reflexivity.
Qed.

Lemma SS_pair l c c' : StronglySorted before l -> In c l -> In c' l -> c <> c' -> before c c' \/ before c' c.
Proof.
  intros S Hc Hc' Hne. apply in_split in Hc. destruct Hc as (l1 & l2 & ->).
  destruct (SS_split _ _ _ _ S) as [H1 H2].
  apply in_app_or in Hc'. destruct Hc' as [Hc'|[Hc'|Hc']]; [right; auto | congruence | left; auto].
Qed.

Lemma after_in l1 a l2 b : StronglySorted before (l1 ++ a :: l2) -> valid a -> valid b ->
  In b (l1 ++ a :: l2) -> rmax a < rmin b -> In b l2.
Proof.
  intros S Va Vb Hin Hlt. destruct (SS_split _ _ _ _ S) as [H1 _].
  pose proof (valid_le _ Va). pose proof (valid_le _ Vb).
  apply in_app_or in Hin. destruct Hin as [Hin|[<-|Hin]]; [|lia|exact Hin].
  specialize (H1 b Hin). unfold before in H1. lia.
Qed.

Lemma next_is a l2 b : StronglySorted before (a :: l2) -> Forall valid (a :: l2) ->
  In b l2 -> rmax a + 2 = rmin b -> exists l3, l2 = b :: l3.
Proof.
  intros S V Hin E. destruct l2 as [|y l3]; [destruct Hin|].
  destruct Hin as [->|Hin]; [eexists; reflexivity|]. exfalso.
  inversion S as [|? ? S' F]; subst. inversion S' as [|? ? _ F']; subst.
  rewrite Forall_forall in F, F', V.
  pose proof (F y ltac:(left; reflexivity)) as B1. pose proof (F' b Hin) as B2. unfold before in *.
  pose proof (valid_range y ltac:(apply V; right; left; reflexivity)) as (_ & ? & _ & Ly & _).
  pose proof (valid_range a ltac:(apply V; left; reflexivity)) as (_ & ? & _ & _ & La).
  assert (rmin y = rmax a + 1) by lia. unfold leaf in *. Z.div_mod_to_equations. lia.
Qed.

(** four tiles of one parent, all present in a sorted disjoint list, are consecutive *)
Lemma tiles_consecutive l p a b c d : StronglySorted before l -> Forall valid l -> tiles4 p a b c d ->
  In a l -> In b l -> In c l -> In d l -> exists l1 l2, l = l1 ++ a :: b :: c :: d :: l2.
Proof.
  intros S V T Ha Hb Hc Hd. destruct T.
  pose proof (valid_le _ t4_a). pose proof (valid_le _ t4_b). pose proof (valid_le _ t4_c). pose proof (valid_le _ t4_d).
  apply in_split in Ha. destruct Ha as (l1 & l2 & ->).
  pose proof (after_in _ _ _ b S t4_a t4_b Hb ltac:(lia)) as Hb2.
  assert (S2 : StronglySorted before (a :: l2)) by (eapply SS_suffix; exact S).
  assert (V2 : Forall valid (a :: l2)) by (apply Forall_app in V; tauto).
  destruct (next_is a l2 b S2 V2 Hb2 t4_ab) as (l3 & ->).
  pose proof (after_in _ _ _ c S t4_a t4_c Hc ltac:(lia)) as Hc2.
  destruct Hc2 as [Hc2|Hc2]; [rewrite Hc2 in *; lia|].
  assert (S3 : StronglySorted before (b :: l3)) by (inversion S2; assumption).
  assert (V3 : Forall valid (b :: l3)) by (inversion V2; assumption).
  destruct (next_is b l3 c S3 V3 Hc2 t4_bc) as (l4 & ->).
  pose proof (after_in _ _ _ d S t4_a t4_d Hd ltac:(lia)) as Hd2.
  destruct Hd2 as [Hd2|[Hd2|Hd2]]; [rewrite Hd2 in *; lia|rewrite Hd2 in *; lia|].
  assert (S4 : StronglySorted before (c :: l4)) by (inversion S3; assumption).
  assert (V4 : Forall valid (c :: l4)) by (inversion V3; assumption).
  destruct (next_is c l4 d S4 V4 Hd2 t4_cd) as (l5 & ->).
  exists l1, l5. reflexivity.
Qed.

(** * No parent has all four children in a normalized union *)
Definition NSset (l : list Z) : Prop :=
  forall p, valid p -> ~ leaf p -> ~ (forall k, In k (s2_CellID_Children p) -> In k l).

Lemma normal_NSset l : normal l -> NSset l.
Proof.
  intros (V & S & N) p Vp NL Hall.
  destruct (children_spec p Vp NL) as (a & b & c & d & E & T & Sib & _).
  rewrite E in Hall.
  destruct (tiles_consecutive l p a b c d S V T) as (l1 & l2 & El);
    try (apply Hall; cbn; tauto).
  rewrite (N l1 a b c d l2 El) in Sib. discriminate.
Qed.

(** * Tiling: a cell covered by the union but not inside one of its cells forces four siblings *)
Lemma tiles4_child p a b c d k : valid p -> tiles4 p a b c d -> In k [a; b; c; d] ->
  valid k /\ nested_in k p /\ rmax k - rmin k < rmax p - rmin p /\
  s2_CellID_isFace k = false /\ s2_CellID_immediateParent k = p.
Proof.
  intros Vp T Hk.
  pose proof (valid_le _ (t4_a _ _ _ _ _ T)). pose proof (valid_le _ (t4_b _ _ _ _ _ T)).
  pose proof (valid_le _ (t4_c _ _ _ _ _ T)). pose proof (valid_le _ (t4_d _ _ _ _ _ T)).
  assert (Hk' : valid k /\ nested_in k p /\ rmax k - rmin k < rmax p - rmin p /\ s2_CellID_immediateParent k = p).
  { destruct T. unfold nested_in. destruct Hk as [<-|[<-|[<-|[<-|[]]]]]; (split; [assumption|]; split; [split; lia|]; split; [lia|assumption]). }
  destruct Hk' as (Vk & Nk & Sz & Pk). split; [assumption|]. split; [assumption|]. split; [assumption|]. split; [|assumption].
  destruct (s2_CellID_isFace k) eqn:F; [|reflexivity]. exfalso.
  pose proof (face_top k p Vk F Vp Nk) as Epk. rewrite Epk in Sz. lia.
Qed.

Lemma classic_leaf p : leaf p \/ ~ leaf p.
Proof. unfold leaf. lia. Qed.

Lemma tiling N : Forall valid N -> forall (n : nat) p, valid p -> (rmax p - rmin p <= Z.of_nat n) ->
  (forall x, leaf x -> covers p x -> cov N x) ->
  (forall c, In c N -> ~ nested_in p c) ->
  exists q, valid q /\ ~ leaf q /\ (forall k, In k (s2_CellID_Children q) -> In k N).
Proof.
  intros VN. induction n as [|n IH]; intros p Vp Sz Hcov Hno.
  - (* a single leaf *)
    exfalso. pose proof (valid_range _ Vp) as (_ & Hp & _ & Lp & _).
    assert (rmin p = rmax p) by lia. pose proof (single_leaf p Vp H) as L.
    destruct (Hcov p L ltac:(unfold covers; lia)) as (c & Hin & Hc).
    apply (Hno c Hin). rewrite Forall_forall in VN.
    apply contains_nested; [auto|assumption|]. apply contains_spec; [auto|apply valid_u64; assumption|exact Hc].
  - destruct (classic_leaf p) as [L|NL].
    + exfalso. destruct (leaf_cell p Vp L) as [E1 E2].
      destruct (Hcov p L ltac:(unfold covers; lia)) as (c & Hin & Hc).
      apply (Hno c Hin). rewrite Forall_forall in VN.
      apply contains_nested; [auto|assumption|]. apply contains_spec; [auto|apply valid_u64; assumption|exact Hc].
    + destruct (children_spec p Vp NL) as (a & b & c & d & E & T & _).
      destruct (Forall_Exists_dec (fun k => In k N) (fun k => in_dec Z.eq_dec k N) [a; b; c; d]) as [All|Ex].
      * exists p. split; [exact Vp|]. split; [exact NL|]. rewrite E. rewrite Forall_forall in All. exact All.
      * apply Exists_exists in Ex. destruct Ex as (k & Hk & Hnot).
        destruct (tiles4_child p a b c d k Vp T Hk) as (Vk & Nk & Szk & Fk & Pk).
        apply (IH k Vk ltac:(lia)).
        -- intros x Lx Hx. apply Hcov; [exact Lx|]. unfold covers, nested_in in *. lia.
        -- intros c' Hin Nc'.
           destruct (parent_spec k Vk Fk) as (_ & _ & _ & Hmin). rewrite Pk in Hmin.
           rewrite Forall_forall in VN.
           apply (Hno c' Hin). apply Hmin; [auto|exact Nc'|]. intro; subst c'. contradiction.
Qed.

(** * Membership in a normalized union is determined by its leaf set *)
Definition covered (N : list Z) (c : Z) : Prop := forall x, leaf x -> covers c x -> cov N x.

Lemma nested_dec c d : {nested_in c d} + {~ nested_in c d}.
Proof.
  unfold nested_in. destruct (Z_le_dec (rmin d) (rmin c)); [|right; lia].
  destruct (Z_le_dec (rmax c) (rmax d)); [left; lia|right; lia].
Qed.

Lemma normal_no_overlap N c c' : normal N -> In c N -> In c' N -> nested_in c c' -> c' = c.
Proof.
  intros (V & S & _) Hc Hc' Nn. destruct (Z.eq_dec c' c) as [|Hne]; [assumption|]. exfalso.
  rewrite Forall_forall in V. pose proof (valid_le _ (V c Hc)). pose proof (valid_le _ (V c' Hc')).
  destruct (SS_pair N c c' S Hc Hc' ltac:(congruence)) as [B|B]; unfold before, nested_in in *; lia.
Qed.

Lemma member_char N c : normal N -> valid c ->
  (In c N <-> covered N c /\ (s2_CellID_isFace c = true \/ ~ covered N (s2_CellID_immediateParent c))).
Proof.
  intros Nm Vc. pose proof (normal_NSset N Nm) as NS. pose proof Nm as (VN & SN & _).
  split.
  - intros Hin. split; [intros x _ Hx; exists c; auto|].
    destruct (s2_CellID_isFace c) eqn:F; [left; reflexivity|right]. intros Hcov.
    destruct (parent_spec c Vc F) as (Vp & Ncp & Hne & _).
    set (p := s2_CellID_immediateParent c) in *.
    destruct (tiling N VN (Z.to_nat (rmax p - rmin p)) p Vp ltac:(pose proof (valid_le _ Vp); lia) Hcov) as (q & Vq & NLq & Hall).
    + intros c' Hc' Npc'.
      assert (nested_in c c') by (unfold nested_in in *; lia).
      pose proof (normal_no_overlap N c c' Nm Hin Hc' H). subst c'.
      apply Hne. apply same_range; unfold nested_in in *; try assumption; lia.
    + exact (NS q Vq NLq Hall).
  - intros [Hcov Hmax].
    destruct (Forall_Exists_dec (fun c' => ~ nested_in c c')
                (fun c' => match nested_dec c c' with left y => right (fun f => f y) | right n => left n end) N) as [All|Ex].
    + exfalso. rewrite Forall_forall in All.
      destruct (tiling N VN (Z.to_nat (rmax c - rmin c)) c Vc ltac:(pose proof (valid_le _ Vc); lia) Hcov All) as (q & Vq & NLq & Hall).
      exact (NS q Vq NLq Hall).
    + apply Exists_exists in Ex. destruct Ex as (c' & Hc' & Hnn).
      assert (Nn : nested_in c c') by (destruct (nested_dec c c'); [assumption|contradiction]).
      rewrite Forall_forall in VN.
      destruct (Z.eq_dec c' c) as [->|Hne]; [exact Hc'|]. exfalso.
      destruct Hmax as [F|Hnc].
      * apply Hne. apply (face_top c c' Vc F (VN c' Hc') Nn).
      * destruct (s2_CellID_isFace c) eqn:F; [apply Hne; apply (face_top c c' Vc F (VN c' Hc') Nn)|].
        destruct (parent_spec c Vc F) as (_ & _ & _ & Hmin).
        pose proof (Hmin c' (VN c' Hc') Nn Hne) as Npc'.
        apply Hnc. intros x _ Hx. exists c'. split; [exact Hc'|]. unfold covers, nested_in in *. lia.
Qed.

Lemma sorted_same_members : forall l1 l2, StronglySorted Z.lt l1 -> StronglySorted Z.lt l2 ->
  (forall c, In c l1 <-> In c l2) -> l1 = l2.
Proof.
  induction l1 as [|h1 t1 IH]; intros l2 S1 S2 H.
  - destruct l2 as [|h2 t2]; [reflexivity|]. exfalso. apply (H h2). left; reflexivity.
  - destruct l2 as [|h2 t2]; [exfalso; apply (H h1); left; reflexivity|].
    inversion S1 as [|? ? S1' F1]; subst. inversion S2 as [|? ? S2' F2]; subst.
    rewrite Forall_forall in F1, F2.
    assert (h1 = h2).
    { destruct (proj1 (H h1) ltac:(left; reflexivity)) as [E|Hin1]; [congruence|].
      destruct (proj2 (H h2) ltac:(left; reflexivity)) as [E|Hin2]; [congruence|].
      specialize (F1 h2 Hin2). specialize (F2 h1 Hin1). lia. }
    subst h2. f_equal. apply IH; try assumption.
    intros c. split; intros Hc.
    + destruct (proj1 (H c) ltac:(right; exact Hc)) as [E|Hin]; [|exact Hin]. specialize (F1 c Hc). lia.
    + destruct (proj2 (H c) ltac:(right; exact Hc)) as [E|Hin]; [|exact Hin]. specialize (F2 c Hc). lia.
Qed.

Lemma normal_sorted_lt N : normal N -> StronglySorted Z.lt N.
Proof.
  intros (V & S & _). induction N as [|a N IH]; [constructor|].
  inversion V as [|? ? Va VN]; subst. inversion S as [|? ? SN F]; subst.
  constructor; [apply IH; assumption|].
  rewrite Forall_forall in *. intros b Hb. specialize (F b Hb). unfold before in F.
  pose proof (valid_range _ Va). pose proof (valid_range _ (VN b Hb)). lia.
Qed.

Theorem normal_unique N1 N2 : normal N1 -> normal N2 ->
  (forall x, leaf x -> (cov N1 x <-> cov N2 x)) -> N1 = N2.
Proof.
  intros Nm1 Nm2 H.
  assert (Hc : forall c, covered N1 c <-> covered N2 c).
  { intros c. unfold covered. split; intros Hcv x Lx Hx; apply H; auto. }
  apply sorted_same_members; try (apply normal_sorted_lt; assumption).
  intros c. pose proof Nm1 as (V1 & _). pose proof Nm2 as (V2 & _). rewrite Forall_forall in V1, V2.
  split; intros Hin.
  - pose proof (V1 c Hin) as Vc. apply (member_char N2 c Nm2 Vc). apply (member_char N1 c Nm1 Vc) in Hin.
    rewrite <- !Hc. exact Hin.
  - pose proof (V2 c Hin) as Vc. apply (member_char N1 c Nm1 Vc). apply (member_char N2 c Nm2 Vc) in Hin.
    rewrite !Hc. exact Hin.
Qed.

Theorem normalize_canonical a b : Forall valid a -> Forall valid b ->
  (forall x, leaf x -> (cov a x <-> cov b x)) -> cu_Normalize a = cu_Normalize b.
Proof.
  intros Va Vb H. destruct (normalize_spec a Va) as [Na Ca]. destruct (normalize_spec b Vb) as [Nb Cb].
  apply normal_unique; try assumption. intros x Lx. rewrite (Ca x Lx), (Cb x Lx). apply H. exact Lx.
Qed.

Theorem normalize_fixpoint l : normal l -> cu_Normalize l = l.
Proof.
  intros Nl. pose proof Nl as (V & _). destruct (normalize_spec l V) as [Nn C].
  apply normal_unique; assumption.
Qed.

Theorem normalize_idempotent cu : Forall valid cu -> cu_Normalize (cu_Normalize cu) = cu_Normalize cu.
Proof. intros V. apply normalize_fixpoint. apply normalize_spec. exact V. Qed.
