(** C11 — CellIndex iterators: range partition, contents of a range, non-empty iteration,
    sweeps with one shared contents iterator. *)
From Coq Require Import ZArith List Bool Lia ZifyBool Sorted Permutation.
From Geo Require Import Base.GoPrim Gen.CellID Model.CellUnion Model.CellIndex
  Proofs.C11_Bits Proofs.C11_Cells Proofs.C11_Normalize Proofs.C11_Unique Proofs.C11_Search Proofs.C11_SetOps Proofs.C11_Range
  Proofs.C11_Index Proofs.C11_Index2.
Import ListNotations.
Local Open Scope Z_scope.

Lemma bracket : forall l x, StronglySorted Z.lt l -> hd 0 l <= x < last l 0 ->
  exists l1 a b l2, l = l1 ++ a :: b :: l2 /\ a <= x < b.
Proof.
  induction l as [|h t IH]; intros x S Hx; [cbn in Hx; lia|].
  destruct t as [|h2 t']; [cbn in Hx; lia|].
  destruct (Z_lt_le_dec x h2) as [Hlt|Hge].
  - exists [], h, h2, t'. cbn in *. split; [reflexivity|lia].
  - inversion S as [|? ? S' _]; subst.
    destruct (IH x S' ltac:(change (last (h :: h2 :: t') 0) with (last (h2 :: t') 0) in Hx; cbn [hd]; lia)) as (l1 & a & b & l2 & E & Hab).
    exists (h :: l1), a, b, l2. split; [cbn; f_equal; exact E|exact Hab].
Qed.

Lemma NoDup_app_intro' {A} (l1 l2 : list A) : NoDup l1 -> NoDup l2 -> (forall x, In x l1 -> In x l2 -> False) -> NoDup (l1 ++ l2).
Proof.
  induction l1 as [|a l1 IH]; intros N1 N2 H; [exact N2|]. inversion N1; subst. cbn. constructor.
  - intros Hin. apply in_app_or in Hin. destruct Hin as [Hin|Hin]; [contradiction|]. apply (H a); [left; reflexivity|exact Hin].
  - apply IH; try assumption. intros x Hx. apply H. right. exact Hx.
Qed.

Lemma map_split {A B} (f : A -> B) l m1 b m2 : map f l = m1 ++ b :: m2 ->
  exists l1 a l2, l = l1 ++ a :: l2 /\ map f l1 = m1 /\ f a = b /\ map f l2 = m2.
Proof.
  revert m1. induction l as [|x l IH]; intros m1 E; [destruct m1; discriminate|].
  destruct m1 as [|y m1]; cbn in E; injection E as E1 E2.
  - exists [], x, l. auto.
  - destruct (IH m1 E2) as (l1 & a & l2 & -> & H1 & H2 & H3). exists (x :: l1), a, l2. cbn. rewrite H1, E1. auto.
Qed.

Section Iter.
  Variable adds : list pair.
  Variable tree : list node.
  Variable rs : list rnode.
  Hypothesis Hadds : Forall good_pair adds.
  Hypothesis B : built adds tree rs.

  (** ** The range nodes partition the leaf ids *)
  Theorem ranges_partition x : first_leaf <= x < end_leaf ->
    exists l1 rn rn' l2, rs = l1 ++ rn :: rn' :: l2 /\ fst rn <= x < fst rn'.
  Proof.
    intros Hx. destruct (bracket (map fst rs) x (b_sorted _ _ _ B)) as (m1 & a & b & m2 & E & Hab).
    { rewrite (b_first _ _ _ B), (b_last _ _ _ B). exact Hx. }
    destruct (map_split fst rs m1 a (b :: m2) E) as (l1 & rn & l2' & -> & H1 & H2 & H3).
    destruct l2' as [|rn' l2]; [discriminate|]. cbn in H3. injection H3 as H3 H4.
    exists l1, rn, rn', l2. split; [reflexivity|lia].
  Qed.

  Lemma starts_increasing l1 rn l2 rn' : rs = l1 ++ rn :: l2 -> In rn' l2 -> fst rn < fst rn'.
  Proof.
    intros E Hin. pose proof (b_sorted _ _ _ B) as S. rewrite E, map_app in S. cbn [map] in S.
    destruct (SS_split Z.lt _ _ _ S) as [_ H2]. apply H2. apply in_map. exact Hin.
  Qed.

  Lemma starts_before l1 rn l2 rn' : rs = l1 ++ rn :: l2 -> In rn' l1 -> fst rn' < fst rn.
  Proof.
    intros E Hin. pose proof (b_sorted _ _ _ B) as S. rewrite E, map_app in S. cbn [map] in S.
    destruct (SS_split Z.lt _ _ _ S) as [H1 _]. apply H1. apply in_map. exact Hin.
  Qed.

  (** no delta position lies strictly between two consecutive range nodes *)
  Lemma no_start_between l1 rn rn' l2 s : rs = l1 ++ rn :: rn' :: l2 -> In s (map fst rs) -> s <= fst rn \/ fst rn' <= s.
  Proof.
    intros E Hs. apply in_map_iff in Hs. destruct Hs as (r & <- & Hr). rewrite E in Hr.
    apply in_app_or in Hr. destruct Hr as [Hr|[<-|[<-|Hr]]].
    - left. pose proof (starts_before l1 rn (rn' :: l2) r E Hr). lia.
    - left; lia.
    - right; lia.
    - right. assert (E' : rs = (l1 ++ [rn]) ++ rn' :: l2) by (rewrite <- app_assoc; exact E).
      pose proof (starts_increasing _ rn' l2 r E' Hr). lia.
  Qed.

  (** ** The contents of a range are exactly the added pairs covering each of its leaves *)
  Theorem range_contents l1 rn rn' l2 x : rs = l1 ++ rn :: rn' :: l2 -> leaf x -> fst rn <= x < fst rn' ->
    exists stk, is_chain tree (snd rn) stk /\ StronglySorted nested_pair (pairs_of tree stk) /\
                Permutation (pairs_of tree stk) (filter (covers_pair x) adds).
  Proof.
    intros E Lx Hx. pose proof (b_ranges _ _ _ B) as F. rewrite Forall_forall in F.
    destruct (F rn ltac:(rewrite E; apply in_or_app; right; left; reflexivity)) as (stk & H1 & H2 & H3).
    exists stk. split; [exact H1|]. split; [exact H2|].
    replace (filter (covers_pair x) adds) with (open_at adds (fst rn)); [exact H3|].
    unfold open_at. apply filter_ext_in. intros a Ha. pose proof Hadds as HA. rewrite Forall_forall in HA.
    destruct (HA a Ha) as [V _]. pose proof (valid_range _ V) as (_ & R & _ & Lmin & Lmax).
    destruct (b_starts _ _ _ B a Ha) as [So Sc].
    pose proof (no_start_between l1 rn rn' l2 _ E So) as Ho. pose proof (no_start_between l1 rn rn' l2 _ E Sc) as Hc.
    unfold covers_pair, p_open, p_close in *.
    assert (Hgap : x <= rmax (fst a) \/ rmax (fst a) + 2 <= x).
    { destruct (Z_le_gt_dec x (rmax (fst a))); [left; assumption|right]. apply odd_gap; [exact Lx|exact Lmax|lia]. }
    lia.
  Qed.

  (** ** Indexing the range nodes *)
  Let n := Z.of_nat (length rs).
  Definition start_at (j : Z) : Z := ri_StartID rs j.
  Definition cont_at (j : Z) : Z := ri_contents rs j.

  Lemma nth_rnode_split l1 rn l2 : rs = l1 ++ rn :: l2 -> nth_rnode rs (Z.of_nat (length l1)) = rn.
  Proof.
    intros E. unfold nth_rnode, nthZ. destruct (Z.ltb_spec (Z.of_nat (length l1)) 0); [lia|].
    rewrite Nat2Z.id, E, app_nth2, Nat.sub_diag by lia. reflexivity.
  Qed.

  Lemma split_at j : 0 <= j < n -> exists l1 l2, rs = l1 ++ nth_rnode rs j :: l2 /\ Z.of_nat (length l1) = j.
  Proof.
    intros Hj. unfold n in Hj. destruct (nth_split rs (0, -1) (n := Z.to_nat j) ltac:(lia)) as (l1 & l2 & E & Hl).
    exists l1, l2. unfold nth_rnode, nthZ. destruct (Z.ltb_spec j 0); [lia|]. split; [exact E|lia].
  Qed.

  Lemma later_in j j' l1 l2 : rs = l1 ++ nth_rnode rs j :: l2 -> Z.of_nat (length l1) = j -> j < j' < n -> In (nth_rnode rs j') l2.
  Proof.
    intros E Hl Hj. unfold nth_rnode at 1, nthZ. destruct (Z.ltb_spec j' 0); [lia|].
    rewrite E at 1. rewrite app_nth2 by lia.
    replace (Z.to_nat j' - length l1)%nat with (S (Z.to_nat j' - length l1 - 1)) by lia. cbn [nth].
    apply nth_In. assert (length rs = (length l1 + S (length l2))%nat) by (rewrite E at 1; rewrite app_length; reflexivity).
    unfold n in Hj. lia.
  Qed.

  Lemma start_mono j j' : 0 <= j -> j < j' -> j' < n -> start_at j < start_at j'.
  Proof.
    intros H0 Hlt Hn. destruct (split_at j ltac:(lia)) as (l1 & l2 & E & Hl).
    apply (starts_increasing l1 _ l2 _ E). apply (later_in j j' l1 l2 E Hl). lia.
  Qed.

  Lemma start_0 : 0 < n -> start_at 0 = first_leaf.
  Proof.
    intros Hn. pose proof (b_first _ _ _ B) as F. unfold start_at, ri_StartID, nth_rnode, nthZ.
    destruct rs as [|r0 rs']; [unfold n in Hn; cbn [length] in Hn; lia|]. cbn [map hd] in F.
    cbn [Z.ltb Z.compare Z.to_nat nth]. exact F.
  Qed.

  Lemma start_ge_first j : 0 <= j < n -> first_leaf <= start_at j.
  Proof.
    intros Hj. pose proof (start_0 ltac:(lia)) as E0. destruct (Z.eq_dec j 0) as [->|Hne]; [lia|].
    pose proof (start_mono 0 j ltac:(lia) ltac:(lia) ltac:(lia)). lia.
  Qed.

  Lemma chain_exists j : 0 <= j < n -> exists s, is_chain tree (cont_at j) s /\
    Permutation (pairs_of tree s) (open_at adds (start_at j)).
  Proof.
    intros Hj. destruct (split_at j Hj) as (l1 & l2 & E & _).
    pose proof (b_ranges _ _ _ B) as F. rewrite Forall_forall in F.
    destruct (F (nth_rnode rs j) ltac:(rewrite E at 2; apply in_or_app; right; left; reflexivity)) as (s & H1 & _ & H3).
    exists s. split; assumption.
  Qed.

  Lemma chain_mono_idx j j' s s' i : 0 <= j -> j < j' -> j' < n ->
    is_chain tree (cont_at j) s -> is_chain tree (cont_at j') s' -> In i s' -> i <= cont_at j -> In i s.
  Proof.
    intros H0 Hlt Hn Hs Hs' Hi Hle. destruct (split_at j ltac:(lia)) as (l1 & l2 & E & Hl).
    apply (b_mono _ _ _ B l1 (nth_rnode rs j) l2 E (nth_rnode rs j') (later_in j j' l1 l2 E Hl ltac:(lia)) s s' Hs Hs' i Hi Hle).
  Qed.

  (** ** Reading a chain *)
  Lemma chain_len k s : is_chain tree k s -> Z.of_nat (length s) <= k + 1.
  Proof.
    induction 1 as [|k s Hk Hc IH]; [cbn; lia|]. pose proof (b_wf _ _ _ B k Hk). cbn [length]. lia.
  Qed.

  Lemma chain_nodup k s : is_chain tree k s -> NoDup s.
  Proof.
    induction 1 as [|k s Hk Hc IH]; constructor; [|exact IH].
    intros Hin. pose proof (chain_decreasing tree (b_wf _ _ _ B) _ _ Hc k Hin). pose proof (b_wf _ _ _ B k Hk). lia.
  Qed.

  Lemma node_label_ok k : 0 <= k < nlen tree -> 0 <= n_label (nth_node tree k).
  Proof.
    intros Hk. pose proof (b_labels _ _ _ B) as L. unfold labels_ok in L. rewrite Forall_forall in L. apply L.
    unfold nth_node, nthZ, nlen in *. destruct (Z.ltb_spec k 0); [lia|]. apply nth_In. lia.
  Qed.

  Lemma drain_chain : forall k s, is_chain tree k s -> forall (fuel : nat) kappa nc ps,
    -1 <= kappa < k -> (length s < fuel)%nat ->
    let r := ci_drain fuel tree (mk_citer kappa nc ps (nth_node tree k)) in
    fst r = pairs_of tree (filter (fun i => kappa <? i) s) /\
    ci_cutoff (snd r) = nc /\ ci_nextCutoff (snd r) = nc /\ ci_prevStart (snd r) = ps.
  Proof.
    induction 1 as [|k s Hk Hc IH]; intros fuel kappa nc ps Hkap Hf; [lia|].
    destruct fuel as [|f]; [cbn in Hf; lia|]. cbn [ci_drain]. cbv zeta.
    unfold ci_Done. cbn [ci_node]. pose proof (node_label_ok k Hk) as Hl.
    destruct (Z.eqb_spec (n_label (nth_node tree k)) doneContents) as [E|_]; [unfold doneContents in E; lia|].
    unfold ci_Next. cbn [ci_node ci_cutoff ci_nextCutoff ci_prevStart].
    cbn [filter]. destruct (Z.ltb_spec kappa k); [|lia].
    destruct (Z.leb_spec (n_parent (nth_node tree k)) kappa) as [Hp|Hp].
    - (* every ancestor has been reported *)
      assert (Ef : filter (fun i => kappa <? i) s = []).
      { apply filter_false. intros i Hi. pose proof (chain_decreasing tree (b_wf _ _ _ B) _ _ Hc i Hi). lia. }
      rewrite Ef. destruct f as [|f']; cbn [ci_drain].
      + cbn in Hf. lia.
      + unfold ci_Done, set_label, n_label. cbn [ci_node fst snd]. rewrite Z.eqb_refl. cbn. repeat split; reflexivity.
    - specialize (IH f kappa nc ps ltac:(pose proof (b_wf _ _ _ B k Hk); lia) ltac:(cbn in Hf; lia)). cbv zeta in IH.
      destruct (ci_drain f tree (mk_citer kappa nc ps (nth_node tree (n_parent (nth_node tree k))))) as [l c'].
      cbn [fst snd] in *. destruct IH as (I1 & I2 & I3 & I4). rewrite I1. cbn. repeat split; assumption.
  Qed.

  (** ** One visit (StartUnion, then read until Done) *)
  Lemma visit_spec st j s : 0 <= j < n -> is_chain tree (cont_at j) s -> -1 <= ci_cutoff st ->
    let kappa := if start_at j <? ci_prevStart st then -1 else ci_cutoff st in
    let r := ci_visit tree rs st j in
    fst r = pairs_of tree (filter (fun i => kappa <? i) s) /\
    ci_cutoff (snd r) = Z.max kappa (cont_at j) /\ ci_prevStart (snd r) = start_at j.
  Proof.
    intros Hj Hs Hcut. cbv zeta. unfold ci_visit, ci_StartUnion. fold (start_at j). fold (cont_at j).
    set (kappa := if start_at j <? ci_prevStart st then -1 else ci_cutoff st).
    assert (Hk : -1 <= kappa) by (unfold kappa; destruct (start_at j <? ci_prevStart st); lia).
    destruct (Z.leb_spec (cont_at j) kappa) as [Hle|Hgt].
    - cbn [ci_drain]. unfold ci_Done. cbn [ci_node set_label n_label fst snd]. cbn [fst snd ci_cutoff ci_prevStart].
      rewrite filter_false; [cbn; split; [reflexivity|split; [lia|reflexivity]]|].
      intros i Hi. pose proof (chain_decreasing tree (b_wf _ _ _ B) _ _ Hs i Hi). lia.
    - pose proof (chain_len _ _ Hs). destruct (is_chain_bound _ _ _ Hs) as [Hb _].
      destruct (drain_chain _ _ Hs (S (length tree)) kappa (cont_at j) (start_at j) ltac:(lia) ltac:(unfold nlen in *; lia)) as (D1 & D2 & _ & D4).
      split; [exact D1|]. split; [rewrite D2; lia|exact D4].
  Qed.

  (** a fresh or cleared iterator, or one that last visited a later range, reports the whole contents *)
  Theorem visit_full st j s : 0 <= j < n -> is_chain tree (cont_at j) s ->
    ci_cutoff st = -1 \/ start_at j < ci_prevStart st ->
    -1 <= ci_cutoff st -> fst (ci_visit tree rs st j) = pairs_of tree s.
  Proof.
    intros Hj Hs Hc Hcut. destruct (visit_spec st j s Hj Hs Hcut) as (V1 & _). cbv zeta in V1. rewrite V1. f_equal.
    apply filter_true. intros i Hi. destruct (is_chain_bound _ _ _ Hs) as [_ Hb]. specialize (Hb i Hi).
    destruct (Z.ltb_spec (start_at j) (ci_prevStart st)); lia.
  Qed.

  (** ** Sweeps with one shared iterator over non-decreasing positions *)
  Definition in_chains (V : list Z) (i : Z) : Prop := exists v s, In v V /\ is_chain tree (cont_at v) s /\ In i s.

  Lemma sweep_gen : forall poss st V,
    (forall p, In p poss -> 0 <= p < n) -> (forall v, In v V -> 0 <= v < n) ->
    StronglySorted Z.le poss -> (forall v p, In v V -> In p poss -> v <= p) ->
    -1 <= ci_cutoff st -> (forall v, In v V -> cont_at v <= ci_cutoff st) ->
    (ci_cutoff st = -1 \/ exists v, In v V /\ cont_at v = ci_cutoff st) ->
    (forall p, In p poss -> ci_prevStart st <= start_at p) ->
    exists idxs, ci_sweep tree rs st poss = map (pairs_of tree) idxs /\ NoDup (concat idxs) /\
      (forall i, In i (concat idxs) -> ~ in_chains V i) /\
      (forall i, in_chains poss i -> In i (concat idxs) \/ in_chains V i) /\
      (forall i, In i (concat idxs) -> in_chains poss i).
  Proof.
    induction poss as [|p t IH]; intros st V Hposs HV Hsorted Hord Hcut Hmax Hwit Hprev.
    - exists []. cbn. split; [reflexivity|]. split; [constructor|]. split; [intros ? []|]. split; [|intros ? []].
      intros i (v & s & [] & _).
    - cbn [ci_sweep]. pose proof (Hposs p ltac:(left; reflexivity)) as Hp.
      destruct (chain_exists p Hp) as (s & Hs & _).
      destruct (visit_spec st p s Hp Hs Hcut) as (V1 & V2 & V3). cbv zeta in V1, V2, V3.
      pose proof (Hprev p ltac:(left; reflexivity)) as Hpp.
      destruct (Z.ltb_spec (start_at p) (ci_prevStart st)) as [|_]; [lia|].
      set (kappa := ci_cutoff st) in *.
      destruct (ci_visit tree rs st p) as [l st']. cbn [fst snd] in *.
      apply StronglySorted_inv in Hsorted. destruct Hsorted as [Hsorted' Fp]. rewrite Forall_forall in Fp.
      destruct (IH st' (V ++ [p])) as (idxs & E & ND & D1 & D2 & D3).
      + intros; apply Hposs; right; assumption.
      + intros v Hv. apply in_app_or in Hv. destruct Hv as [Hv|[<-|[]]]; auto.
      + exact Hsorted'.
      + intros v p' Hv Hp'. apply in_app_or in Hv. destruct Hv as [Hv|[<-|[]]]; [apply Hord; [exact Hv|right; exact Hp']|apply Fp; exact Hp'].
      + lia.
      + intros v Hv. apply in_app_or in Hv. destruct Hv as [Hv|[<-|[]]]; [specialize (Hmax v Hv)|]; lia.
      + destruct (Z_le_gt_dec (cont_at p) kappa) as [Hle|Hgt].
        * destruct Hwit as [Hw|(v & Hv & Hw)]; [left; lia|right; exists v; split; [apply in_or_app; left; exact Hv|lia]].
        * right. exists p. split; [apply in_or_app; right; left; reflexivity|lia].
      + intros p' Hp'. rewrite V3. specialize (Fp p' Hp').
        destruct (Z.eq_dec p p') as [->|Hne]; [lia|]. pose proof (Hposs p' ltac:(right; exact Hp')).
        pose proof (start_mono p p' ltac:(lia) ltac:(lia) ltac:(lia)). lia.
      + set (L := filter (fun i => kappa <? i) s) in *.
        assert (HLs : forall i, In i L -> In i s /\ kappa < i) by (intros i Hi; apply filter_In in Hi; destruct Hi; split; [assumption|lia]).
        (* an index of this chain that is not above the cutoff was reported by an earlier visit *)
        assert (Hold : forall i, In i s -> i <= kappa -> in_chains V i).
        { intros i Hi Hle. destruct (is_chain_bound _ _ _ Hs) as [_ Hb]. specialize (Hb i Hi).
          destruct Hwit as [Hw|(v & Hv & Hw)]; [lia|].
          specialize (Hord v p Hv ltac:(left; reflexivity)). pose proof (HV v Hv) as Hvn.
          destruct (Z.eq_dec v p) as [->|Hne]; [exists p, s; auto|].
          destruct (chain_exists v Hvn) as (sv & Hsv & _).
          exists v, sv. split; [exact Hv|]. split; [exact Hsv|].
          apply (chain_mono_idx v p sv s i ltac:(lia) ltac:(lia) ltac:(lia) Hsv Hs Hi). lia. }
        exists (L :: idxs). cbn [map concat]. rewrite V1, E. split; [reflexivity|]. split; [|split; [|split]].
        * apply NoDup_app_intro'; [apply NoDup_filter; apply (chain_nodup _ _ Hs)|exact ND|].
          intros i Hi Hi2. apply (D1 i Hi2). exists p, s. split; [apply in_or_app; right; left; reflexivity|]. split; [exact Hs|apply HLs; exact Hi].
        * intros i Hi (v & sv & Hv & Hsv & Hiv). apply in_app_or in Hi. destruct Hi as [Hi|Hi].
          -- destruct (HLs i Hi) as [_ Hk]. pose proof (chain_decreasing tree (b_wf _ _ _ B) _ _ Hsv i Hiv). specialize (Hmax v Hv). lia.
          -- apply (D1 i Hi). exists v, sv. split; [apply in_or_app; left; exact Hv|auto].
        * intros i (v & sv & Hv & Hsv & Hiv).
          assert (Hfromp : forall i, In i s -> In i (L ++ concat idxs) \/ in_chains V i).
          { intros i0 Hi0. destruct (Z_lt_le_dec kappa i0); [left; apply in_or_app; left; apply filter_In; split; [exact Hi0|lia]|right; apply Hold; assumption]. }
          destruct Hv as [<-|Hv].
          -- rewrite (is_chain_fun _ _ _ Hsv _ Hs) in Hiv. apply Hfromp. exact Hiv.
          -- destruct (D2 i ltac:(exists v, sv; auto)) as [Hc|(v' & sv' & Hv' & Hsv' & Hiv')]; [left; apply in_or_app; right; exact Hc|].
             apply in_app_or in Hv'. destruct Hv' as [Hv'|[<-|[]]]; [right; exists v', sv'; auto|].
             rewrite (is_chain_fun _ _ _ Hsv' _ Hs) in Hiv'. apply Hfromp. exact Hiv'.
        * intros i Hi. apply in_app_or in Hi. destruct Hi as [Hi|Hi].
          -- exists p, s. split; [left; reflexivity|]. split; [exact Hs|apply HLs; exact Hi].
          -- destruct (D3 i Hi) as (v & sv & Hv & Hsv & Hiv). exists v, sv. split; [right; exact Hv|auto].
  Qed.

  (** over a non-decreasing sweep every (cell, label) node covering a visited range is reported exactly once *)
  Theorem sweep_exactly_once poss : (forall p, In p poss -> 0 <= p < n) -> StronglySorted Z.le poss ->
    exists idxs, ci_sweep tree rs ci_new poss = map (pairs_of tree) idxs /\ NoDup (concat idxs) /\
      forall i, In i (concat idxs) <-> in_chains poss i.
  Proof.
    intros Hposs Hsorted.
    destruct (sweep_gen poss ci_new [] Hposs ltac:(intros ? []) Hsorted ltac:(intros ? ? []) ltac:(cbn; lia)
                ltac:(intros ? []) ltac:(left; reflexivity)) as (idxs & E & ND & _ & D2 & D3).
    { intros p Hp. cbn [ci_new ci_prevStart]. pose proof (start_ge_first p (Hposs p Hp)). rewrite first_leaf_eq in H. lia. }
    exists idxs. split; [exact E|]. split; [exact ND|]. intros i. split; [apply D3|].
    intros Hi. destruct (D2 i Hi) as [H|(v & s & [] & _)]. exact H.
  Qed.

  (** ** The range iterator *)
  Lemma last_nth' (l : list Z) d : l <> [] -> last l d = nth (length l - 1) l d.
  Proof.
    induction l as [|a t IH]; intros H; [contradiction|]. destruct t as [|b t']; [reflexivity|].
    change (last (a :: b :: t') d) with (last (b :: t') d). rewrite IH by discriminate. cbn [length].
    replace (S (S (length t')) - 1)%nat with (S (S (length t') - 1)) by lia. reflexivity.
  Qed.

  Lemma n_ge_2 : 2 <= n.
  Proof.
    pose proof (b_first _ _ _ B) as F. pose proof (b_last _ _ _ B) as L. unfold n.
    rewrite first_leaf_eq in F. rewrite end_leaf_eq in L.
    destruct rs as [|r0 [|r1 t]]; cbn [map hd last length] in *; lia.
  Qed.

  Lemma start_first : start_at 0 = first_leaf.
  Proof. apply start_0. pose proof n_ge_2. lia. Qed.

  Lemma start_last : start_at (n - 1) = end_leaf.
  Proof.
    pose proof (b_last _ _ _ B) as L. pose proof n_ge_2 as H. unfold n in *.
    rewrite last_nth' in L by (destruct rs; [cbn in H; lia|discriminate]).
    rewrite map_length in L. unfold start_at, ri_StartID, nth_rnode, nthZ.
    destruct (Z.ltb_spec (Z.of_nat (length rs) - 1) 0); [lia|].
    replace (Z.to_nat (Z.of_nat (length rs) - 1)) with (length rs - 1)%nat by lia.
    rewrite <- L. change 0 with (fst (0, -1)) at 2. rewrite map_nth. reflexivity.
  Qed.

  (** the last range node is the sentinel: nothing is open there *)
  Lemma sentinel_empty : cont_at (n - 1) = -1.
  Proof.
    pose proof n_ge_2. destruct (chain_exists (n - 1) ltac:(lia)) as (s & Hs & Hp).
    rewrite start_last in Hp.
    assert (E : open_at adds end_leaf = []).
    { unfold open_at. apply filter_false. intros a Ha. pose proof Hadds as HA. rewrite Forall_forall in HA.
      destruct (HA a Ha) as [V _]. pose proof (valid_range _ V). unfold p_close, p_open. rewrite end_leaf_eq. lia. }
    rewrite E in Hp. apply Permutation_sym, Permutation_nil in Hp. destruct Hs as [|k s0 Hk Hc]; [reflexivity|discriminate].
  Qed.

  Lemma skip_plain fuel pos : ri_skip rs false fuel pos = pos.
  Proof. destruct fuel; reflexivity. Qed.

  (** [ri_skip] of the non-empty iterator stops at the first non-empty range, or at the sentinel *)
  Lemma skip_spec : forall (fuel : nat) pos, 0 <= pos <= n - 1 -> n - 1 - pos <= Z.of_nat fuel ->
    let q := ri_skip rs true fuel pos in
    pos <= q <= n - 1 /\ (forall j, pos <= j < q -> cont_at j = -1) /\ (q < n - 1 -> cont_at q <> -1).
  Proof.
    induction fuel as [|f IH]; intros pos Hp Hf; cbn [ri_skip]; cbv zeta.
    - assert (pos = n - 1) by lia. split; [lia|]. split; intros; lia.
    - unfold ri_IsEmpty, ri_Done. fold n. fold (cont_at pos). unfold doneContents. cbn [andb].
      destruct (Z.eqb_spec (cont_at pos) (-1)) as [E|NE]; cbn [andb].
      + destruct (Z.leb_spec (n - 1) pos) as [Hd|Hd]; cbn [negb].
        * split; [lia|]. split; intros; lia.
        * destruct (IH (pos + 1) ltac:(lia) ltac:(lia)) as (H1 & H2 & H3). split; [lia|]. split; [|exact H3].
          intros j Hj. destruct (Z.eq_dec j pos) as [->|]; [exact E|]. apply H2. lia.
      + split; [lia|]. split; [intros; lia|intros _; exact NE].
  Qed.

  Definition stop_point (q : Z) : Prop := 0 <= q <= n - 1 /\ (q < n - 1 -> cont_at q <> -1).

  Theorem nonempty_begin : let q := ri_Begin rs true in
    stop_point q /\ forall j, 0 <= j < q -> cont_at j = -1.
  Proof.
    pose proof n_ge_2. cbv zeta. unfold ri_Begin.
    destruct (skip_spec (length rs) 0 ltac:(lia) ltac:(unfold n; lia)) as (H1 & H2 & H3).
    split; [split; [lia|exact H3]|exact H2].
  Qed.

  Theorem nonempty_next pos : 0 <= pos < n - 1 -> let q := ri_Next rs true pos in
    stop_point q /\ pos < q /\ forall j, pos < j < q -> cont_at j = -1.
  Proof.
    intros Hp. cbv zeta. unfold ri_Next.
    destruct (skip_spec (length rs) (pos + 1) ltac:(lia) ltac:(unfold n; lia)) as (H1 & H2 & H3).
    split; [split; [lia|exact H3]|]. split; [lia|]. intros j Hj. apply H2. lia.
  Qed.

  (** Begin, then Next until Done, with the non-empty iterator: exactly the non-empty ranges, in order *)
  Fixpoint visit_all (fuel : nat) (pos : Z) : list Z :=
    match fuel with
    | O => []
    | S k => if ri_Done rs pos then [] else pos :: visit_all k (ri_Next rs true pos)
    end.

  Lemma visit_all_spec : forall (fuel : nat) pos, stop_point pos -> n - 1 - pos <= Z.of_nat fuel ->
    StronglySorted Z.lt (visit_all fuel pos) /\
    (forall j, In j (visit_all fuel pos) <-> pos <= j < n - 1 /\ cont_at j <> -1) /\
    (forall j, In j (visit_all fuel pos) -> pos <= j).
  Proof.
    induction fuel as [|f IH]; intros pos [Hp Hne] Hf; cbn [visit_all].
    - split; [constructor|]. split; [|intros ? []]. intros j. split; [intros []|lia].
    - unfold ri_Done. fold n. destruct (Z.leb_spec (n - 1) pos) as [Hd|Hd].
      + split; [constructor|]. split; [|intros ? []]. intros j. split; [intros []|lia].
      + destruct (nonempty_next pos ltac:(lia)) as (Sq & Hlt & Hempty). cbv zeta in *.
        set (q := ri_Next rs true pos) in *.
        destruct (IH q Sq ltac:(lia)) as (I1 & I2 & I3).
        split; [|split].
        * constructor; [exact I1|]. rewrite Forall_forall. intros j Hj. specialize (I3 j Hj). lia.
        * intros j. cbn [In]. rewrite I2. split.
          -- intros [<-|[H1 H2]]; [split; [lia|apply Hne; lia]|split; [lia|exact H2]].
          -- intros [H1 H2]. destruct (Z.eq_dec pos j) as [|Hn]; [left; assumption|right].
             split; [|exact H2]. destruct (Z_lt_le_dec j q); [|lia]. exfalso. apply H2. apply Hempty. lia.
        * intros j [<-|Hj]; [lia|]. specialize (I3 j Hj). lia.
  Qed.

  Theorem nonempty_iteration :
    let l := visit_all (length rs) (ri_Begin rs true) in
    StronglySorted Z.lt l /\ forall j, In j l <-> 0 <= j < n - 1 /\ cont_at j <> -1.
  Proof.
    cbv zeta. destruct nonempty_begin as [Sq Hempty]. cbv zeta in *. set (q := ri_Begin rs true) in *.
    destruct (visit_all_spec (length rs) q Sq ltac:(destruct Sq; unfold n; lia)) as (I1 & I2 & _).
    split; [exact I1|]. intros j. rewrite I2. split; [intros [H1 H2]; destruct Sq; split; [lia|exact H2]|].
    intros [H1 H2]. split; [|exact H2]. destruct (Z_lt_le_dec j q); [|lia]. exfalso. apply H2. apply Hempty. lia.
  Qed.

  (** Seek positions the iterator on the range that contains the target leaf *)
  Theorem seek_plain t : first_leaf <= t < end_leaf ->
    let p := ri_Seek rs false t in 0 <= p < n - 1 /\ start_at p <= t < start_at (p + 1).
  Proof.
    intros Ht. cbv zeta. unfold ri_Seek. fold n. rewrite skip_plain. pose proof n_ge_2 as Hn.
    set (f := fun i => t <? fst (nth_rnode rs i)).
    assert (Mono : forall i j, 0 <= i <= j -> j < n -> f i = true -> f j = true).
    { intros i j Hij Hj Hi. unfold f in *. destruct (Z.eq_dec i j) as [->|]; [exact Hi|].
      pose proof (start_mono i j ltac:(lia) ltac:(lia) Hj). unfold start_at, ri_StartID in H. lia. }
    destruct (sort_Search_spec f n ltac:(lia) Mono) as (H1 & H2 & H3). cbv zeta in *.
    set (r := sort_Search n f) in *.
    assert (Hr1 : 1 <= r).
    { destruct (Z_lt_le_dec r 1); [|assumption]. exfalso. specialize (H3 0 ltac:(lia)). unfold f in H3.
      pose proof start_first. unfold start_at, ri_StartID in H. lia. }
    assert (Hr2 : r <= n - 1).
    { destruct (Z_le_gt_dec r (n - 1)); [assumption|]. exfalso. specialize (H2 (n - 1) ltac:(lia)). unfold f in H2.
      pose proof start_last. unfold start_at, ri_StartID in H. lia. }
    destruct (Z.ltb_spec (r - 1) 0); [lia|].
    split; [lia|]. replace (r - 1 + 1) with r by lia.
    specialize (H2 (r - 1) ltac:(lia)). specialize (H3 r ltac:(lia)). unfold f in H2, H3. unfold start_at, ri_StartID. lia.
  Qed.

  Theorem seek_nonempty t : first_leaf <= t < end_leaf ->
    let p := ri_Seek rs false t in let q := ri_Seek rs true t in
    stop_point q /\ p <= q /\ forall j, p <= j < q -> cont_at j = -1.
  Proof.
    intros Ht. cbv zeta. destruct (seek_plain t Ht) as [Hp _]. cbv zeta in Hp.
    unfold ri_Seek in Hp |- *. fold n in Hp |- *. rewrite skip_plain in Hp.
    set (p := if sort_Search n (fun i => t <? fst (nth_rnode rs i)) - 1 <? 0 then 0 else sort_Search n (fun i => t <? fst (nth_rnode rs i)) - 1) in *.
    rewrite skip_plain.
    destruct (skip_spec (length rs) p ltac:(lia) ltac:(unfold n; lia)) as (H1 & H2 & H3).
    split; [split; [lia|exact H3]|]. split; [lia|exact H2].
  Qed.
End Iter.
