(** C12 bridge: the translated, table-driven [s2_CellID_faceIJOrientation] (Gen/CellIDFull.v,
    8 look-ups of 4 levels each in s2_lookupIJ) equals the level-by-level Hilbert recursion
    [hd_faceIJOrientation] (Model/HilbertDecode.v) for every uint64 id.
    One table entry = four steps of the recursion (finite check over the 1024 keys), then the
    8 chunks are chained with C01's fold lemmas (faceIJ_fold, Ifold_clean). *)
From Coq Require Import ZArith List Bool Lia.
From Geo Require Import Base.GoPrim Gen.CellIDFull Model.CellIDTables Model.HilbertDecode
  Proofs.C01_Bits Proofs.C01_Tables Proofs.C01_Algebra Proofs.C01_IJ Proofs.C12_Hilbert.
Import ListNotations.
Local Open Scope Z_scope.

Ltac Zify.zify_post_hook ::= Z.div_mod_to_equations.

Definition hd_run4 (st : Z * Z * Z) (d : Z) : Z * Z * Z :=
  hd_step (hd_step (hd_step (hd_step st ((d / 64) mod 4)) ((d / 16) mod 4)) ((d / 4) mod 4)) (d mod 4).

(** one table entry = four levels *)
Definition chunk_ok_at (key : Z) : bool :=
  let w := nthZ s2_lookupIJ key 0 in
  let '(a, b, o') := hd_run4 (0, 0, key mod 4) (key / 4) in
  (a =? w / 64) && (b =? (w / 4) mod 16) && (o' =? w mod 4).
Lemma chunk_ok_all : forallb chunk_ok_at keys1024 = true.
Proof. vm_compute. reflexivity. Qed.

Lemma chunk_ok o d : 0 <= o < 4 -> 0 <= d < 256 ->
  hd_run4 (0, 0, o) d = (LIJ o d / 64, (LIJ o d / 4) mod 16, LIJ o d mod 4).
Proof.
  intros Ho Hd. pose proof chunk_ok_all as H. rewrite forallb_forall in H.
  assert (Hkey : 0 <= d * 4 + o < 1024) by lia.
  specialize (H _ (in_keys1024 _ Hkey)). unfold chunk_ok_at in H.
  replace ((d * 4 + o) mod 4) with o in H by lia. replace ((d * 4 + o) / 4) with d in H by lia.
  fold (LIJ o d) in H. destruct (hd_run4 (0, 0, o) d) as [[a b] o'].
  apply andb_true_iff in H. destruct H as [H H3]. apply andb_true_iff in H. destruct H as [H1 H2].
  apply Z.eqb_eq in H1, H2, H3. subst. reflexivity.
Qed.

Lemma hd_run4_linear i j o d :
  hd_run4 (i, j, o) d =
  (16 * i + fst (fst (hd_run4 (0, 0, o) d)), 16 * j + snd (fst (hd_run4 (0, 0, o) d)), snd (hd_run4 (0, 0, o) d)).
Proof. unfold hd_run4. rewrite !hd_step_eq. cbn [fst snd]. apply triple_eq; ring. Qed.

Lemma hd_state_chunk n Y : hd_state (4 + n) Y = hd_run4 (hd_state n (Y / 256)) (Y mod 256).
Proof.
  change (4 + n)%nat with (S (S (S (S n)))). cbn [hd_state]. unfold hd_run4.
  rewrite !Z.shiftr_div_pow2 by lia. change (2 ^ 2) with 4. rewrite !land3.
  replace (Y / 4 / 4 / 4 / 4) with (Y / 256) by lia.
  replace (Y / 4 / 4 / 4 mod 4) with (Y mod 256 / 64 mod 4) by lia.
  replace (Y / 4 / 4 mod 4) with (Y mod 256 / 16 mod 4) by lia.
  replace (Y / 4 mod 4) with (Y mod 256 / 4 mod 4) by lia.
  replace (Y mod 4) with (Y mod 256 mod 4) by lia. reflexivity.
Qed.

Definition pack (k : Z) (st : Z * Z * Z) : Z * Z * Z * Z :=
  let '(i, j, o) := st in (o, i * 2 ^ (4 * k), j * 2 ^ (4 * k), 4).

Lemma Iclean_chunk ci k n : u64 ci -> 0 <= k <= 6 ->
  Iclean ci (pack (k + 1) (hd_state n (ci / 2 / 2 ^ (8 * (k + 1))))) k =
  pack k (hd_state (4 + n) (ci / 2 / 2 ^ (8 * k))).
Proof.
  intros Hci Hk. set (Y := ci / 2 / 2 ^ (8 * k)).
  assert (P8 : 0 < 2 ^ (8 * k)) by (apply pow2_pos; lia).
  assert (E1 : ci / 2 / 2 ^ (8 * (k + 1)) = Y / 256).
  { unfold Y. replace (8 * (k + 1)) with (8 * k + 8) by ring. rewrite Z.pow_add_r by lia.
    change (2 ^ 8) with 256. rewrite <- Z.div_div by lia. reflexivity. }
  rewrite E1. rewrite hd_state_chunk.
  pose proof (hd_state_ok n (Y / 256)) as Hok.
  destruct (hd_state n (Y / 256)) as [[i' j'] o']. destruct Hok as (_ & _ & Ho).
  unfold pack at 1. unfold Iclean.
  assert (Ed : (ci / 2 ^ (8 * k + 1)) mod 2 ^ (2 * 4) = Y mod 256).
  { unfold Y. replace (8 * k + 1) with (1 + 8 * k) by ring. rewrite Z.pow_add_r by lia.
    change (2 ^ 1) with 2. rewrite <- Z.div_div by lia. reflexivity. }
  rewrite Ed. assert (Hd : 0 <= Y mod 256 < 256) by (apply Z.mod_pos_bound; lia).
  rewrite hd_run4_linear, (chunk_ok o' (Y mod 256) Ho Hd). cbn [fst snd]. unfold pack.
  replace (4 * (k + 1)) with (4 + 4 * k) by ring. rewrite Z.pow_add_r by lia. change (2 ^ 4) with 16.
  apply quad_eq; ring.
Qed.

Lemma Iclean_first ci : u64 ci ->
  Iclean ci (Z.land (ci / 2 ^ 61) 1, 0, 0, 2) 7 = pack 7 (hd_state 2 (ci / 2 / 2 ^ (8 * 7))).
Proof.
  intros Hci. unfold Iclean. change (2 ^ (2 * 2)) with 16. change (8 * 7 + 1) with 57. change (8 * 7) with 56.
  set (Y := ci / 2 / 2 ^ 56).
  assert (EY : ci / 2 ^ 57 = Y) by (unfold Y; rewrite Z.div_div by lia; reflexivity).
  assert (EF : ci / 2 ^ 61 = Y / 16).
  { unfold Y. rewrite !Z.div_div by lia. reflexivity. }
  rewrite EY, EF. rewrite land1.
  assert (Ho : 0 <= (Y / 16) mod 2 < 2) by (apply Z.mod_pos_bound; lia).
  assert (Hd : 0 <= Y mod 16 < 16) by (apply Z.mod_pos_bound; lia).
  set (o := (Y / 16) mod 2) in *. set (d := Y mod 16) in *.
  pose proof (chunk_ok o d ltac:(lia) ltac:(lia)) as C.
  (* with two leading zero levels the four-level entry is the two-level decode *)
  assert (R : hd_run4 (0, 0, o) d = hd_step (hd_step (0, 0, o) (d / 4)) (d mod 4)).
  { unfold hd_run4. replace ((d / 64) mod 4) with 0 by lia. replace ((d / 16) mod 4) with 0 by lia.
    replace ((d / 4) mod 4) with (d / 4) by lia.
    assert (Z0 : hd_step (hd_step (0, 0, o) 0) 0 = (0, 0, o)).
    { assert (Co : o = 0 \/ o = 1) by lia. destruct Co as [-> | ->]; reflexivity. }
    rewrite Z0. reflexivity. }
  change (hd_state 2 Y) with (hd_step (hd_step (0, 0, Z.land (Z.shiftr (Z.shiftr Y 2) 2) 1) (Z.land (Z.shiftr Y 2) 3)) (Z.land Y 3)).
  rewrite !Z.shiftr_div_pow2 by lia. change (2 ^ 2) with 4. rewrite land1, !land3.
  replace (Y / 4 / 4) with (Y / 16) by lia. fold o.
  replace ((Y / 4) mod 4) with (d / 4) by (unfold d; lia). replace (Y mod 4) with (d mod 4) by (unfold d; lia).
  rewrite <- R, C. unfold pack. apply quad_eq; ring.
Qed.

Theorem faceIJOrientation_bridge ci : u64 ci ->
  s2_CellID_faceIJOrientation ci = hd_faceIJOrientation ci.
Proof.
  intros Hci. rewrite faceIJ_fold. cbv zeta.
  assert (EF : s2_CellID_Face ci = ci / 2 ^ 61).
  { unfold s2_CellID_Face. rewrite (wrap_u64_small ci Hci). rewrite go_shr_div by lia.
    apply wrap_i64_small. unfold u64 in Hci.
    assert (0 <= ci / 2 ^ 61 < 8) by (split; [apply Z.div_pos; lia | apply Z.div_lt_upper_bound; lia]). lia. }
  rewrite EF.
  rewrite Ifold_clean; try assumption.
  2:{ assert (0 <= (ci / 2 ^ 61) mod 2 < 2) by (apply Z.mod_pos_bound; lia). rewrite land1. lia. }
  2:{ left. reflexivity. }
  2:{ intros k Hk. cbn in Hk. lia. }
  2:{ cbn [length]. change (2 ^ 40) with 1099511627776. change (2 ^ 32) with 4294967296. lia. }
  2:{ cbn [length]. change (2 ^ 40) with 1099511627776. change (2 ^ 32) with 4294967296. lia. }
  cbn [fold_left]. rewrite (Iclean_first ci Hci).
  pose proof (Iclean_chunk ci 6 2 Hci ltac:(lia)) as E6. change (6 + 1) with 7 in E6. change (4 + 2)%nat with 6%nat in E6.
  pose proof (Iclean_chunk ci 5 6 Hci ltac:(lia)) as E5. change (5 + 1) with 6 in E5. change (4 + 6)%nat with 10%nat in E5.
  pose proof (Iclean_chunk ci 4 10 Hci ltac:(lia)) as E4. change (4 + 1) with 5 in E4. change (4 + 10)%nat with 14%nat in E4.
  pose proof (Iclean_chunk ci 3 14 Hci ltac:(lia)) as E3. change (3 + 1) with 4 in E3. change (4 + 14)%nat with 18%nat in E3.
  pose proof (Iclean_chunk ci 2 18 Hci ltac:(lia)) as E2. change (2 + 1) with 3 in E2. change (4 + 18)%nat with 22%nat in E2.
  pose proof (Iclean_chunk ci 1 22 Hci ltac:(lia)) as E1. change (1 + 1) with 2 in E1. change (4 + 22)%nat with 26%nat in E1.
  pose proof (Iclean_chunk ci 0 26 Hci ltac:(lia)) as E0. change (0 + 1) with 1 in E0.
  rewrite E6, E5, E4, E3, E2, E1, E0.
  change (4 + 26)%nat with 30%nat. change (2 ^ (8 * 0)) with 1. rewrite Z.div_1_r.
  unfold hd_faceIJOrientation. rewrite !Z.shiftr_div_pow2 by lia. change (2 ^ 1) with 2.
  destruct (hd_state 30 (ci / 2)) as [[i j] o]. unfold pack. change (2 ^ (4 * 0)) with 1. rewrite !Z.mul_1_r.
  assert (EL : s2_CellID_lsb ci = Z.land ci (- ci)).
  { unfold s2_CellID_lsb. rewrite !(wrap_u64_small ci Hci).
    destruct (Z.eq_dec ci 0) as [->|N0]; [reflexivity|].
    unfold wrap_u64, wrap_u. rewrite <- Z.land_ones by lia.
    rewrite (Z.land_comm (- ci)), Z.land_assoc. rewrite (Z.land_ones ci) by lia.
    rewrite Z.mod_small by exact Hci. reflexivity. }
  rewrite EL. destruct (Z.land (Z.land ci (- ci)) 1229782938247303440 =? 0); reflexivity.
Qed.
