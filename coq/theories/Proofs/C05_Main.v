(** C05 — Covering / InteriorCovering / CellUnion / FastCovering of Model/Coverer.v:
    coverage, containment of interior coverings, level limits and termination, for an arbitrary
    region described by [intersects], [contains], [bound] and a leaf set [pts]. *)
From Coq Require Import ZArith List Bool Lia Sorting.Permutation.
From Coq Require Import ZifyBool.
From Geo Require Import Base.GoPrim Gen.CellIDCov Model.Coverer.
From Geo Require Import Proofs.C05_CellFacts Proofs.C05_CellUnion Proofs.C05_Heap Proofs.C05_Coverer Proofs.C05_Fast.
From Geo Require Import Gen.CellID.  (* s2_CellID_Level *)
Import ListNotations.
Local Open Scope Z_scope.

Section Main.
  Variable intersects contains : Z -> bool.
  Variable bound : list Z.
  Variable fallback : coverer -> list Z -> option (list Z).
  Variable pts : Z -> Prop.

  (** every region leaf lies in a cell of the region's CellUnionBound, which consists of valid cells *)
  Definition SoundB : Prop := forall x, is_leaf x -> pts x -> covered bound x.
  Definition ValidB : Prop := all_valid bound.

  Notation SoundI := (SoundI intersects pts).
  Notation SoundC := (SoundC contains pts).
  Notation FallbackSound := (FallbackSound fallback).
  Notation FallbackTotal := (FallbackTotal fallback).

  Section WithCv.
  Variable cv : coverer.
  Hypothesis Hwf : wf_cv cv.
  Hypothesis HVB : ValidB.
  Hypothesis HFS : FallbackSound.

  Notation newCand := (newCandidate intersects contains cv).
  Notation addCand := (addCandidate intersects contains cv).

  (** the temporary coverer of initialCandidates *)
  Definition temp_opts : opts := mkOpts 0 (maxLevel cv) 1 (s2_minInt 4 [maxCells cv]).
  Lemma temp_wf : wf_cv (newCoverer temp_opts false).
  Proof.
    destruct Hwf as (Hmin & Hmax & Hmod). unfold wf_cv, newCoverer, temp_opts. cbn [minLevel maxLevel levelMod].
    unfold clampMinLevel, clampMaxLevel, clampLevelMod. cbn [o_MinLevel o_MaxLevel o_LevelMod].
    rewrite !minInt1, !maxInt1. lia.
  Qed.

  (** ** initialCandidates *)
  Definition init_fold (cells : list Z) (st : list Z * list qcand) : list Z * list qcand :=
    fold_left (fun st ci => match newCand ci with Some cand => addCand st cand | None => st end) cells st.

  Lemma init_fold_inv : forall cells st,
    all_valid cells -> Forall (fun c => forall L, valid_at c L -> lvl_ok cv L) cells ->
    wf_st intersects contains cv st -> lvl_st cv st ->
    wf_st intersects contains cv (init_fold cells st) /\ lvl_st cv (init_fold cells st).
  Proof.
    induction cells as [|ci cells IH]; intros st HV HL Hst Hl; cbn; [auto|].
    inversion HV as [|? ? (L & Vci) HV']; subst. inversion HL as [|? ? Lci HL']; subst.
    apply IH; auto.
    - destruct (newCand ci) as [(id, t)|] eqn:E; [|exact Hst].
      pose proof (newCandidate_id _ _ _ _ _ _ E) as ->. eapply addCandidate_wf; eauto.
    - destruct (newCand ci) as [(id, t)|] eqn:E; [|exact Hl].
      pose proof (newCandidate_id _ _ _ _ _ _ E) as ->. eapply addCandidate_lvl; eauto.
  Qed.

  Lemma init_fold_contained : interior cv = true -> forall cells st,
    all_valid cells -> res_contained contains st -> res_contained contains (init_fold cells st).
  Proof.
    intros Hint. induction cells as [|ci cells IH]; intros st HV Hc; cbn; [auto|].
    inversion HV as [|? ? (L & Vci) HV']; subst. apply IH; auto.
    destruct (newCand ci) as [(id, t)|] eqn:E; [|exact Hc].
    pose proof (newCandidate_id _ _ _ _ _ _ E) as ->. eapply addCandidate_contained; eauto.
  Qed.

  Lemma init_fold_mono : forall cells st x, all_valid cells ->
    cov_of st x -> cov_of (init_fold cells st) x.
  Proof.
    induction cells as [|ci cells IH]; intros st x HV Hc; cbn; [auto|].
    inversion HV as [|? ? (L & Vci) HV']; subst. apply IH; auto.
    destruct (newCand ci) as [(id, t)|] eqn:E; [|exact Hc].
    pose proof (newCandidate_id _ _ _ _ _ _ E) as ->. eapply addCandidate_mono; eauto.
  Qed.

  Lemma init_fold_covers : SoundI -> interior cv = false -> forall cells st x, all_valid cells ->
    is_leaf x -> pts x -> covered cells x -> cov_of (init_fold cells st) x.
  Proof.
    intros HI Hext. induction cells as [|ci cells IH]; intros st x HV Hx Hp Hc; cbn.
    - destruct Hc as (c & [] & _).
    - inversion HV as [|? ? (L & Vci) HV']; subst.
      destruct Hc as (c & [<-|Hin] & Hxc).
      + apply init_fold_mono; [exact HV'|].
        assert (Hint : intersects ci = true) by (apply HI; [exists L; exact Vci|exists x; auto]).
        assert (exists t, newCand ci = Some (ci, t)) as (t & Ht).
        { unfold newCandidate. rewrite Hint, Hext. cbn [negb].
          repeat match goal with |- context [if ?b then _ else _] => destruct b end; eauto. }
        rewrite Ht. eapply addCandidate_covers; eauto.
      + apply IH; auto. exists c; auto.
  Qed.

  (** ** The loop *)
  Lemma loop_result : forall st0, wf_st intersects contains cv st0 ->
    exists r, iter2 (loop_fuel st0) (cover_step intersects contains cv) st0 = inr r.
  Proof.
    intros st0 Hst0.
    apply (iter2_terminates (cover_step intersects contains cv) (wf_st intersects contains cv) (fun st => sumw (snd st))).
    - intros st (Hr & Hq). apply (sumw_nonneg intersects contains pts cv). exact Hq.
    - intros st Hst. pose proof (step_wf intersects contains pts cv Hwf st Hst) as H1.
      pose proof (step_measure intersects contains pts cv st Hst) as H2.
      destruct (cover_step intersects contains cv st); [split; assumption|exact I].
    - exact Hst0.
    - (* the initial weight is below 2^(200 + number of queue entries) *)
      destruct Hst0 as (_ & Hq). unfold loop_fuel.
      assert (Hb : sumw (snd st0) <= Z.of_nat (length (snd st0)) * 65 ^ 31).
      { induction Hq as [|q pq (L & Hv & _) _ IH]; [cbn; lia|].
        unfold sumw in *. cbn [fold_right length]. set (S := fold_right _ 0 pq) in *.
        unfold q_weight. rewrite (level_spec _ _ Hv).
        assert (W L <= 65 ^ 31) by (unfold W; apply Z.pow_le_mono_r; destruct Hv; lia).
        rewrite Nat2Z.inj_succ. lia. }
      rewrite Nat2Z.inj_add, Z.pow_add_r by lia.
      assert (H65 : 65 ^ 31 < 2 ^ Z.of_nat 200) by (vm_compute; reflexivity).
      pose proof (Z.pow_gt_lin_r 2 (Z.of_nat (length (snd st0))) ltac:(lia) ltac:(lia)).
      assert (0 < 65 ^ 31) by (vm_compute; reflexivity).
      nia.
  Qed.

  (** ** Post-processing of the raw result: Normalize, then Denormalize when needed *)
  Definition post (raw : list Z) : list Z :=
    let r := cu_Normalize raw in
    if (minLevel cv >? 0) || (levelMod cv >? 1) then cu_Denormalize (minLevel cv) (levelMod cv) r else r.

  Lemma post_valid : forall raw, all_valid raw -> all_valid (post raw).
  Proof.
    intros raw HV. destruct Hwf as (Hmin & Hmax & Hmod). unfold post.
    destruct ((minLevel cv >? 0) || (levelMod cv >? 1)); [apply denormalize_valid; auto|]; apply normalize_valid; auto.
  Qed.
  Lemma post_covers : forall raw x, all_valid raw -> is_leaf x -> covered raw x -> covered (post raw) x.
  Proof.
    intros raw x HV Hx Hc. destruct Hwf as (Hmin & Hmax & Hmod). unfold post.
    destruct ((minLevel cv >? 0) || (levelMod cv >? 1)).
    - apply denormalize_covers; auto; [apply normalize_valid; auto|apply normalize_covers; auto].
    - apply normalize_covers; auto.
  Qed.
  Lemma post_sub : forall raw x, all_valid raw -> is_leaf x -> covered (post raw) x -> covered raw x.
  Proof.
    intros raw x HV Hx Hc. destruct Hwf as (Hmin & Hmax & Hmod). unfold post in Hc.
    destruct ((minLevel cv >? 0) || (levelMod cv >? 1)).
    - apply normalize_sub; auto.
      apply (denormalize_sub (minLevel cv) (levelMod cv) (cu_Normalize raw)); auto. apply normalize_valid; auto.
    - apply normalize_sub; auto.
  Qed.

  (** ** coveringInternal *)
  Lemma coveringInternal_core : forall cells0, FastCovering bound fallback temp_opts = Some cells0 ->
    exists cells raw,
      coveringInternal intersects contains bound fallback cv = Some (post raw) /\
      all_valid cells /\ (forall x, is_leaf x -> covered bound x -> covered cells x) /\
      all_valid raw /\
      Forall (fun c => forall L, valid_at c L -> lvl_ok cv L /\ minLevel cv <= L) raw /\
      (SoundI -> interior cv = false -> forall x, is_leaf x -> pts x -> covered cells x -> covered raw x) /\
      (interior cv = true -> Forall (fun c => contains c = true) raw).
  Proof.
    intros cells0 E0. unfold coveringInternal, initialCandidates. fold temp_opts.
    destruct (FastCovering_sound bound fallback temp_opts cells0 HFS HVB E0) as (V0 & C0 & L0).
    rewrite E0.
    set (cells := adjustCellLevels cv cells0).
    assert (Hlev0 : forall o, In o cells0 -> s2_CellID_Level o <= Z.max (maxLevel cv) (minLevel cv)).
    { intros o Ho. rewrite Forall_forall in L0. specialize (L0 o Ho). unfold cv_good, good_level, newCoverer, temp_opts in L0.
      cbn [minLevel maxLevel] in L0.
      unfold clampMinLevel, clampMaxLevel in L0. cbn [o_MinLevel o_MaxLevel] in L0.
      rewrite !minInt1, !maxInt1 in L0. destruct Hwf as (Hmin & Hmax & Hmod). lia. }
    destruct (adjustCellLevels_spec cv Hwf cells0 V0 Hlev0) as (V1 & C1 & L1).
    fold cells in V1, C1, L1.
    fold (init_fold cells ([], [])).
    set (st0 := init_fold cells ([], [])).
    assert (Hst0 : wf_st intersects contains cv st0 /\ lvl_st cv st0).
    { apply init_fold_inv; auto; split; constructor. }
    destruct Hst0 as (Hwf0 & Hl0).
    destruct (loop_result st0 Hwf0) as ((raw, pqf) & Eloop).
    rewrite Eloop. exists cells, raw. split; [reflexivity|].
    split; [exact V1|]. split; [intros x Hx Hc; apply C1; auto|].
    (* invariants through the loop *)
    pose proof (iter2_inv (cover_step intersects contains cv)
                  (fun st => wf_st intersects contains cv st /\ lvl_st cv st)
                  (fun st => wf_st intersects contains cv st /\ lvl_st cv st)) as Hinv.
    specialize (Hinv ltac:(intros st (H1 & H2);
       pose proof (step_wf intersects contains pts cv Hwf st H1);
       pose proof (step_lvl intersects contains pts cv Hwf st H1 H2);
       destruct (cover_step intersects contains cv st); split; assumption) (loop_fuel st0) st0 (conj Hwf0 Hl0)).
    rewrite Eloop in Hinv. destruct Hinv as ((Vraw & _) & (Lraw & _)). cbn [fst] in Vraw, Lraw.
    split; [exact Vraw|]. split; [exact Lraw|]. split.
    - intros HI Hext x Hx Hp Hc.
      pose proof (iter2_inv (cover_step intersects contains cv)
                    (fun st => wf_st intersects contains cv st /\ cov_of st x)
                    (fun st => covered (fst st) x)) as Hcv.
      specialize (Hcv ltac:(intros st (H1 & H2);
         pose proof (step_wf intersects contains pts cv Hwf st H1);
         pose proof (step_cov intersects contains pts cv Hwf HI Hext st x H1 Hx Hp H2);
         destruct (cover_step intersects contains cv st); [split; assumption|assumption]) (loop_fuel st0) st0).
      rewrite Eloop in Hcv. apply Hcv. split; [exact Hwf0|].
      apply init_fold_covers; auto.
    - intros Hint.
      pose proof (iter2_inv (cover_step intersects contains cv)
                    (fun st => wf_st intersects contains cv st /\ res_contained contains st)
                    (fun st => res_contained contains st)) as Hcn.
      specialize (Hcn ltac:(intros st (H1 & H2);
         pose proof (step_wf intersects contains pts cv Hwf st H1);
         pose proof (step_contained intersects contains pts cv Hint st H1 H2);
         destruct (cover_step intersects contains cv st); [split; assumption|assumption]) (loop_fuel st0) st0).
      rewrite Eloop in Hcn. apply Hcn. split; [exact Hwf0|].
      apply init_fold_contained; auto. constructor.
  Qed.

  Lemma coveringInternal_sound : forall res,
    coveringInternal intersects contains bound fallback cv = Some res ->
    exists cells raw,
      res = post raw /\
      all_valid cells /\ (forall x, is_leaf x -> covered bound x -> covered cells x) /\
      all_valid raw /\
      Forall (fun c => forall L, valid_at c L -> lvl_ok cv L /\ minLevel cv <= L) raw /\
      (SoundI -> interior cv = false -> forall x, is_leaf x -> pts x -> covered cells x -> covered raw x) /\
      (interior cv = true -> Forall (fun c => contains c = true) raw).
  Proof.
    intros res Hres.
    destruct (FastCovering bound fallback temp_opts) as [cells0|] eqn:E0.
    - destruct (coveringInternal_core cells0 E0) as (cells & raw & E & H).
      exists cells, raw. split; [congruence|exact H].
    - unfold coveringInternal, initialCandidates in Hres. fold temp_opts in Hres. rewrite E0 in Hres. discriminate.
  Qed.

  Lemma coveringInternal_total : FallbackTotal ->
    exists res, coveringInternal intersects contains bound fallback cv = Some res.
  Proof.
    intros HFT. destruct (FastCovering_total bound fallback temp_opts HFT HVB) as (cells0 & E0).
    destruct (coveringInternal_core cells0 E0) as (cells & raw & E & _). eauto.
  Qed.
  End WithCv.

  (** * The four entry points *)
  Lemma newCoverer_wf : forall rc b, wf_cv (newCoverer rc b).
  Proof.
    intros rc b. unfold wf_cv, newCoverer. cbn [minLevel maxLevel levelMod].
    unfold clampMinLevel, clampMaxLevel, clampLevelMod. rewrite !minInt1, !maxInt1. lia.
  Qed.

  Section Results.
  Variable rc : opts.
  Hypothesis HVB : ValidB.
  Hypothesis HFS : FallbackSound.

  Notation minL := (clampMinLevel rc).
  Notation maxL := (clampMaxLevel rc).
  Notation md := (clampLevelMod rc).

  Lemma clamp_bounds : 0 <= minL <= 30 /\ 0 <= maxL <= 30 /\ 1 <= md <= 3.
  Proof. exact (newCoverer_wf rc false). Qed.

  (** Covering = Denormalize (Normalize (post raw)) *)
  Lemma Covering_shape : forall inter r,
    option_map (cu_Denormalize minL md) (option_map cu_Normalize
        (coveringInternal intersects contains bound fallback (newCoverer rc inter))) = Some r ->
    exists raw,
      r = cu_Denormalize minL md (cu_Normalize (post (newCoverer rc inter) raw)) /\
      all_valid raw /\
      Forall (fun c => forall L, valid_at c L -> lvl_ok (newCoverer rc inter) L /\ minL <= L) raw /\
      (SoundI -> inter = false -> forall x, is_leaf x -> pts x -> covered bound x -> covered raw x) /\
      (inter = true -> Forall (fun c => contains c = true) raw).
  Proof.
    intros inter r Hr.
    destruct (coveringInternal intersects contains bound fallback (newCoverer rc inter)) as [res|] eqn:Eres; [|discriminate].
    destruct (coveringInternal_sound (newCoverer rc inter) (newCoverer_wf rc inter) HVB HFS res Eres)
      as (cells & raw & E & Vc & Cc & Vr & Lr & Cov & Cont).
    exists raw. cbn [option_map] in Hr. split; [congruence|].
    split; [exact Vr|]. split; [exact Lr|]. split.
    - intros HI Hi x Hx Hp Hb. apply Cov; auto.
    - intros Hi. apply Cont. exact Hi.
  Qed.

  Lemma covering_covers_lemma : SoundI -> SoundB ->
    forall r, Covering intersects contains bound fallback rc = Some r ->
    forall x, is_leaf x -> pts x -> covered r x.
  Proof.
    intros HI HB r Hr x Hx Hp. unfold Covering, CellUnion in Hr.
    destruct (Covering_shape false r Hr) as (raw & -> & Vr & _ & Cov & _).
    destruct clamp_bounds as (Hmin & Hmax & Hmd).
    pose proof (post_valid (newCoverer rc false) (newCoverer_wf rc false) raw Vr) as Vp.
    apply denormalize_covers; auto; [apply normalize_valid; exact Vp|].
    apply normalize_covers; [exact Vp|].
    apply (post_covers _ (newCoverer_wf rc false) raw x Vr Hx). apply Cov; auto.
  Qed.

  Lemma cellunion_covers_lemma : SoundI -> SoundB ->
    forall r, CellUnion intersects contains bound fallback rc = Some r ->
    forall x, is_leaf x -> pts x -> covered r x.
  Proof.
    intros HI HB r Hr x Hx Hp. unfold CellUnion in Hr.
    destruct (coveringInternal intersects contains bound fallback (newCoverer rc false)) as [res|] eqn:Eres; [|discriminate].
    destruct (coveringInternal_sound (newCoverer rc false) (newCoverer_wf rc false) HVB HFS res Eres)
      as (cells & raw & -> & Vc & Cc & Vr & Lr & Cov & Cont).
    cbn [option_map] in Hr. injection Hr as <-.
    pose proof (post_valid (newCoverer rc false) (newCoverer_wf rc false) raw Vr) as Vp.
    apply normalize_covers; [exact Vp|].
    apply (post_covers _ (newCoverer_wf rc false) raw x Vr Hx). apply Cov; auto.
  Qed.

  Lemma interior_contained_lemma : SoundC ->
    forall r, InteriorCovering intersects contains bound fallback rc = Some r ->
    forall c, In c r -> forall x, is_leaf x -> leaf_in x c -> pts x.
  Proof.
    intros HC r Hr c Hc x Hx Hxc. unfold InteriorCovering, InteriorCellUnion in Hr.
    destruct (Covering_shape true r Hr) as (raw & -> & Vr & _ & _ & Cont).
    destruct clamp_bounds as (Hmin & Hmax & Hmd).
    pose proof (post_valid (newCoverer rc true) (newCoverer_wf rc true) raw Vr) as Vp.
    assert (Hcov : covered raw x).
    { apply (post_sub (newCoverer rc true) (newCoverer_wf rc true) raw x Vr Hx).
      apply (normalize_sub _ Vp x Hx).
      apply (denormalize_sub minL md _ Hmin Hmd (normalize_valid _ Vp)). exists c; auto. }
    destruct Hcov as (c0 & Hin0 & Hx0).
    specialize (Cont eq_refl). unfold all_valid in Vr. rewrite Forall_forall in Cont, Vr.
    eapply HC; eauto.
  Qed.

  Lemma interior_cellunion_contained_lemma : SoundC ->
    forall r, InteriorCellUnion intersects contains bound fallback rc = Some r ->
    forall c, In c r -> forall x, is_leaf x -> leaf_in x c -> pts x.
  Proof.
    intros HC r Hr c Hc x Hx Hxc. unfold InteriorCellUnion in Hr.
    destruct (coveringInternal intersects contains bound fallback (newCoverer rc true)) as [res|] eqn:Eres; [|discriminate].
    destruct (coveringInternal_sound (newCoverer rc true) (newCoverer_wf rc true) HVB HFS res Eres)
      as (cells & raw & -> & Vc & Cc & Vr & Lr & Cov & Cont).
    cbn [option_map] in Hr. injection Hr as <-.
    pose proof (post_valid (newCoverer rc true) (newCoverer_wf rc true) raw Vr) as Vp.
    assert (Hcov : covered raw x).
    { apply (post_sub (newCoverer rc true) (newCoverer_wf rc true) raw x Vr Hx).
      apply (normalize_sub _ Vp x Hx). exists c; auto. }
    destruct Hcov as (c0 & Hin0 & Hx0).
    specialize (Cont eq_refl). unfold all_valid in Vr. rewrite Forall_forall in Cont, Vr.
    eapply HC; eauto.
  Qed.

  (** levels: every returned cell is valid, at a level minL + k*md within [minL, max maxL minL] *)
  Definition level_ok (c : Z) : Prop :=
    valid c /\ minL <= s2_CellID_Level c <= Z.max maxL minL /\ (s2_CellID_Level c - minL) mod md = 0.

  Lemma levels_shape : forall inter r,
    option_map (cu_Denormalize minL md) (option_map cu_Normalize
        (coveringInternal intersects contains bound fallback (newCoverer rc inter))) = Some r ->
    Forall level_ok r.
  Proof.
    intros inter r Hr. destruct (Covering_shape inter r Hr) as (raw & -> & Vr & Lr & _ & _).
    destruct clamp_bounds as (Hmin & Hmax & Hmd).
    set (M := Z.max maxL minL). assert (HM : M <= 30) by (unfold M; lia).
    (* "some good level at or above the cell's level" is preserved by every stage *)
    set (upok := fun c : Z => exists G, good_level minL md M G /\ s2_CellID_Level c <= G).
    assert (Uraw : Forall upok raw).
    { pose proof Vr as Vr'. unfold all_valid in Vr'. rewrite Forall_forall in Vr', Lr. apply Forall_forall. intros c Hc. destruct (Vr' c Hc) as (L & Vc).
      destruct (Lr c Hc L Vc) as ((Hmod & HleM) & Hge). cbn [minLevel maxLevel levelMod newCoverer] in *.
      exists L. rewrite (level_spec _ _ Vc). split; [|lia]. split; [fold M in HleM; lia|auto]. }
    assert (Unorm : forall l, all_valid l -> Forall upok l -> Forall upok (cu_Normalize l)).
    { intros l Vl Ul. rewrite Forall_forall in Ul. apply Forall_forall. intros o Ho.
      destruct (normalize_level l Vl o Ho) as (c & Hc & _ & Hlev). destruct (Ul c Hc) as (G & HG & HcG).
      exists G. split; [exact HG|lia]. }
    assert (Gden : forall l, all_valid l -> Forall upok l ->
              Forall (fun o => valid o /\ good_level minL md M (s2_CellID_Level o)) (cu_Denormalize minL md l)).
    { intros l Vl Ul. pose proof (denormalize_valid minL md l Hmin Hmd Vl) as Vd.
      pose proof Vl as Vl'. unfold all_valid in Vd, Vl'. rewrite Forall_forall in Vd, Vl', Ul. apply Forall_forall.
      intros o Ho. split; [apply Vd; exact Ho|].
      destruct (denormalize_level minL md l Hmin Hmd Vl o Ho) as (c & Hc & _ & Hlev).
      rewrite Hlev. destruct (Vl' c Hc) as (L & Vc). rewrite (level_spec _ _ Vc).
      apply denorm_level_good; auto; [destruct Vc; lia|].
      destruct (Ul c Hc) as (G & HG & HcG). rewrite (level_spec _ _ Vc) in HcG. exists G; auto. }
    assert (Upost : Forall upok (post (newCoverer rc inter) raw) /\ all_valid (post (newCoverer rc inter) raw)).
    { split; [|apply post_valid; [apply newCoverer_wf|exact Vr]].
      unfold post. cbn [minLevel levelMod newCoverer].
      destruct ((minL >? 0) || (md >? 1)).
      - pose proof (Gden (cu_Normalize raw) (normalize_valid raw Vr) (Unorm raw Vr Uraw)) as H.
        eapply Forall_impl; [|exact H]. intros o (_ & HG). exists (s2_CellID_Level o). split; [exact HG|lia].
      - apply Unorm; auto. }
    destruct Upost as (Up & Vp).
    pose proof (Gden (cu_Normalize (post (newCoverer rc inter) raw)) (normalize_valid _ Vp) (Unorm _ Vp Up)) as H.
    eapply Forall_impl; [|exact H]. intros o (Vo & (HG1 & HG2)). unfold level_ok. fold M. auto.
  Qed.

  Lemma levels_ok_lemma : forall r,
    (Covering intersects contains bound fallback rc = Some r \/
     InteriorCovering intersects contains bound fallback rc = Some r) -> Forall level_ok r.
  Proof. intros r [H|H]; [apply (levels_shape false)|apply (levels_shape true)]; exact H. Qed.

  (** termination: every entry point returns (the loop's fuel is never exhausted) *)
  Lemma terminates_lemma : FallbackTotal ->
    (exists r, Covering intersects contains bound fallback rc = Some r) /\
    (exists r, InteriorCovering intersects contains bound fallback rc = Some r) /\
    (exists r, CellUnion intersects contains bound fallback rc = Some r) /\
    (exists r, InteriorCellUnion intersects contains bound fallback rc = Some r) /\
    (exists r, FastCovering bound fallback rc = Some r).
  Proof.
    intros HFT.
    destruct (coveringInternal_total (newCoverer rc false) (newCoverer_wf rc false) HVB HFS HFT) as (r1 & E1).
    destruct (coveringInternal_total (newCoverer rc true) (newCoverer_wf rc true) HVB HFS HFT) as (r2 & E2).
    destruct (FastCovering_total bound fallback rc HFT HVB) as (f & Ef).
    unfold Covering, InteriorCovering, CellUnion, InteriorCellUnion. rewrite E1, E2. cbn [option_map].
    repeat split; eauto.
  Qed.

  Lemma fast_covering_covers_lemma : SoundB ->
    forall r, FastCovering bound fallback rc = Some r -> forall x, is_leaf x -> pts x -> covered r x.
  Proof.
    intros HB r Hr x Hx Hp.
    destruct (FastCovering_sound bound fallback rc r HFS HVB Hr) as (Vf & Cf & _). apply Cf; auto.
  Qed.

  (** FastCovering honours the level limits as well *)
  Lemma fast_levels_ok_lemma : forall r, FastCovering bound fallback rc = Some r -> Forall level_ok r.
  Proof.
    intros r Hr. destruct (FastCovering_sound bound fallback rc r HFS HVB Hr) as (Vf & _ & Gf).
    unfold all_valid in Vf. rewrite Forall_forall in *. intros o Ho. specialize (Gf o Ho).
    unfold cv_good, good_level, newCoverer in Gf. cbn [minLevel maxLevel levelMod] in Gf.
    unfold level_ok. split; [apply Vf; exact Ho|]. lia.
  Qed.
  End Results.
End Main.

(** the premises of the partial-correctness theorems are satisfiable *)
Lemma hyps_example :
  let face0 := s2_CellIDFromFace 0 in
  let pts := fun x => leaf_in x face0 in
  ValidB [face0] /\ FallbackSound (fun _ _ => None) /\ SoundB [face0] pts.
Proof.
  cbv zeta. split; [|split].
  - constructor; [|constructor]. exists 0. unfold valid_at. repeat split; try lia; vm_compute; reflexivity.
  - intros cv l r _ _ _ H. discriminate.
  - intros x Hx Hp. exists (s2_CellIDFromFace 0). split; [left; reflexivity|exact Hp].
Qed.

(** FINDING on /repo before 81ed250 (now repaired): FastCovering did not honour MinLevel / LevelMod when
    normalizeCovering took its "very large covering" branch, which covered with
    NewRegionCoverer() defaults.  [cu_fallback_old] is that old branch.  Witness observed on the old
    implementation (cap of radius 6.96e-6, RegionCoverer{10, 24, 3, -2600}) and replayed on the old model:
    the bound's four level-16 cells come back as their level-15 parent, and (15 - 10) mod 3 = 2. *)
Definition cu_fallback_old (cubound : list Z -> list Z) (_ : coverer) (cu : list Z) : option (list Z) :=
  Covering (cu_IntersectsCellID cu) (cu_ContainsCellID cu) (cubound cu) (fun _ _ => None) default_opts.
Definition refute_bound : list Z :=
  [12776500542427889664; 12776500541891018752; 12776500540817276928; 12776500541354147840].
Definition refute_cubound : list Z :=
  [12776500538401357824; 12776500985077956608; 12776500572761096192; 12776500950718218240].
Definition refute_opts : opts := mkOpts 10 24 3 (-2600).

Lemma valid_at_compute : forall c L,
  ((0 <=? L) && (L <=? 30) && (0 <? c) && (c <? 6 * 2 ^ 61) && (c mod (2 * lsbL L) =? lsbL L)) = true -> valid_at c L.
Proof. intros c L H. unfold valid_at. lia. Qed.

Lemma fast_levels_refuted_lemma :
  ValidB refute_bound /\ all_valid refute_cubound /\
  exists r c, FastCovering refute_bound (cu_fallback_old (fun _ => refute_cubound)) refute_opts = Some r /\
    In c r /\ valid c /\ (s2_CellID_Level c - clampMinLevel refute_opts) mod clampLevelMod refute_opts <> 0.
Proof.
  split; [|split].
  - unfold ValidB, all_valid, refute_bound. repeat constructor; exists 16; apply valid_at_compute; vm_compute; reflexivity.
  - unfold all_valid, refute_cubound. repeat constructor; exists 13; apply valid_at_compute; vm_compute; reflexivity.
  - exists [12776500541622583296], 12776500541622583296.
    split; [vm_compute; reflexivity|]. split; [left; reflexivity|]. split.
    + exists 15. apply valid_at_compute. vm_compute. reflexivity.
    + vm_compute. discriminate.
Qed.
