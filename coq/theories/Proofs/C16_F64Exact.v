(** C16: bit-exact facts about binary64 arithmetic (no error analysis).  Leibniz equalities
    between primitive floats, obtained through Flocq's PrimFloat bridge. *)
From Coq Require Import ZArith Reals Floats Lra Bool Psatz.
From Flocq Require Import Core.Core IEEE754.BinarySingleNaN IEEE754.PrimFloat.
From Geo Require Import Base.GoPrim Base.F64.
Local Open Scope R_scope.

Definition finite (x : PrimFloat.float) : Prop := is_finite (Prim2B x) = true.
Definition is_zero (x : PrimFloat.float) : Prop := exists s, Prim2B x = B754_zero s.

Lemma finite_nonnan x : finite x -> nonnan x.
Proof.
  unfold finite, nonnan. rewrite go_isnan_equiv. destruct (Prim2B x); simpl; congruence.
Qed.

Lemma B2R_neg1 : B2R (Prim2B (-1)%float) = -1.
Proof.
  unfold Prim2B. rewrite B2R_SF2B.
  replace (Prim2SF (-1)%float) with (S754_finite true 4503599627370496 (-52)) by (vm_compute; reflexivity).
  unfold SF2R, F2R. simpl. lra.
Qed.

(** [(-1) * x = -x], bit for bit, for finite x  (r3.Vector.Mul(-1)) *)
Lemma mul_neg1 x : finite x -> PrimFloat.mul (-1)%float x = PrimFloat.opp x.
Proof.
  unfold finite. intros Fx. apply Prim2B_inj. rewrite mul_equiv, opp_equiv.
  set (bx := Prim2B x) in *. set (m1 := Prim2B (-1)%float).
  assert (F1 : is_finite m1 = true) by (vm_compute; reflexivity).
  assert (S1 : Bsign m1 = true) by (vm_compute; reflexivity).
  pose proof (Bmult_correct prec emax Hprec Hmax mode_NE m1 bx) as H.
  unfold m1 in H at 1 3. rewrite B2R_neg1 in H.
  replace (-1 * B2R bx) with (- B2R bx) in H by ring.
  assert (G : generic_format radix2 (fexp prec emax) (- B2R bx)).
  { apply generic_format_opp, generic_format_B2R. }
  rewrite round_generic in H; [|apply valid_rnd_round_mode|exact G].
  rewrite Rabs_Ropp in H.
  rewrite Rlt_bool_true in H by apply abs_B2R_lt_emax.
  destruct H as (HR & HF & HS). fold m1 in HF, HS, HR.
  rewrite F1, Fx in HF. simpl in HF.
  apply B2R_Bsign_inj.
  - exact HF.
  - now rewrite is_finite_Bopp.
  - now rewrite B2R_Bopp.
  - rewrite HS, S1, Bsign_Bopp.
    + reflexivity.
    + destruct bx; simpl in *; congruence.
    + destruct (Bmult mode_NE m1 bx); simpl in *; congruence.
Qed.

(** [x + (+0)]: the same real value, never a negative zero *)
Lemma add_zero_B x : Prim2B (PrimFloat.add x 0%float) =
  match Prim2B x with B754_zero _ => B754_zero false | b => b end.
Proof.
  rewrite add_equiv. replace (Prim2B 0%float) with (B754_zero false : bfloat).
  - destruct (Prim2B x) as [s|s| |s m e H]; simpl; try reflexivity. destruct s; reflexivity.
  - symmetry. apply B2SF_inj. unfold Prim2B. rewrite B2SF_SF2B. reflexivity.
Qed.

Lemma add_zero_B2R x : B2R (Prim2B (PrimFloat.add x 0%float)) = B2R (Prim2B x).
Proof. rewrite add_zero_B. destruct (Prim2B x); reflexivity. Qed.

Lemma opp_B2R x : B2R (Prim2B (PrimFloat.opp x)) = - B2R (Prim2B x).
Proof. rewrite opp_equiv. apply B2R_Bopp. Qed.

(** Go [==] on non-NaN values: both zero, or the very same float *)
Lemma eqb_cases x y : nonnan x -> nonnan y -> PrimFloat.eqb x y = true ->
  x = y \/ (is_zero x /\ is_zero y).
Proof.
  unfold nonnan. rewrite !go_isnan_equiv, eqb_equiv. unfold is_zero.
  intros Nx Ny E.
  destruct (Prim2B x) as [sx|sx| |sx mx ex Hx] eqn:Ex; try discriminate;
  destruct (Prim2B y) as [sy|sy| |sy my ey Hy] eqn:Ey; try discriminate;
  try (right; split; eexists; reflexivity);
  unfold Beqb, SpecFloat.SFeqb in E; simpl in E.
  all: try (destruct sx, sy; discriminate).
  - destruct sx, sy; try discriminate; left; apply Prim2B_inj; congruence.
  - assert (K : ex = ey /\ mx = my).
    { destruct sx, sy; try discriminate;
      destruct (Z.compare_spec ex ey) as [Ee|Ee|Ee]; try discriminate;
      change (Pos.compare_cont Eq mx my) with (Pos.compare mx my) in E;
      destruct (Pos.compare_spec mx my) as [Em|Em|Em]; try discriminate; auto. }
    destruct K as [-> ->]. left. apply Prim2B_inj. rewrite Ex, Ey.
    assert (sx = sy) as -> by (destruct sx, sy; auto; discriminate).
    f_equal. apply Eqdep_dec.UIP_dec. decide equality.
Qed.

(** hence [x == y] implies that x + 0 and y + 0 are the same float *)
Lemma eqb_add_zero x y : nonnan x -> nonnan y -> PrimFloat.eqb x y = true ->
  PrimFloat.add x 0%float = PrimFloat.add y 0%float.
Proof.
  intros Nx Ny E. destruct (eqb_cases x y Nx Ny E) as [->|[[sx Zx] [sy Zy]]]; [reflexivity|].
  apply Prim2B_inj. rewrite !add_zero_B, Zx, Zy. reflexivity.
Qed.
