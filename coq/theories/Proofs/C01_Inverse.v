(** C01 — cellIDFromFaceIJ o faceIJOrientation = id on valid leaves (with ij_roundtrip: a bijection
    between {f<6} x [0,2^30)^2 and the valid leaves), and the prefix property: the (i,j) returned for
    an ancestor agrees with the (i,j) of the leaf on the bits above the ancestor's level. *)
From Coq Require Import ZArith List Bool Lia.
From Geo Require Import Base.GoPrim Gen.CellIDFull Model.HilbertDecode
  Proofs.C01_Bits Proofs.C01_Algebra Proofs.C01_IJ Proofs.C12_Hilbert Proofs.C12_Ids Proofs.C12_Children
  Proofs.C01_Hilbert.
Import ListNotations.
Local Open Scope Z_scope.

(** one level of the recursion is injective in the digit, and keeps the parent recoverable *)
Lemma hd_digit_inj : forall o d d', 0 <= o < 4 -> 0 <= d < 4 -> 0 <= d' < 4 ->
  hd_a o d = hd_a o d' -> hd_b o d = hd_b o d' -> d = d'.
Proof.
  intros o d d' Ho Hd Hd'.
  by_cases o Ho; by_cases d Hd; by_cases d' Hd'; hd_eval; intros E1 E2; try reflexivity; discriminate.
Qed.

Lemma hd_step_inj : forall i j o d i' j' o' d', 0 <= o < 4 -> 0 <= d < 4 -> 0 <= o' < 4 -> 0 <= d' < 4 ->
  fst (fst (hd_step (i, j, o) d)) = fst (fst (hd_step (i', j', o') d')) ->
  snd (fst (hd_step (i, j, o) d)) = snd (fst (hd_step (i', j', o') d')) ->
  i = i' /\ j = j' /\ (o = o' -> d = d').
Proof.
  intros i j o d i' j' o' d' Ho Hd Ho' Hd'. rewrite !hd_step_eq. cbn [fst snd]. intros E1 E2.
  pose proof (hd_ab_range o d Ho Hd) as (Ha & Hb). pose proof (hd_ab_range o' d' Ho' Hd') as (Ha' & Hb').
  split; [lia|]. split; [lia|]. intros <-. apply (hd_digit_inj o); try assumption; lia.
Qed.

Lemma state_inj : forall n K K', 0 <= K -> 0 <= K' -> K / 4 ^ Z.of_nat n = K' / 4 ^ Z.of_nat n ->
  fst (fst (hd_state n K)) = fst (fst (hd_state n K')) ->
  snd (fst (hd_state n K)) = snd (fst (hd_state n K')) -> K = K'.
Proof.
  induction n as [|n IH]; intros K K' HK HK' HF E1 E2.
  - change (4 ^ Z.of_nat 0) with 1 in HF. rewrite !Z.div_1_r in HF. exact HF.
  - pose proof (Z.div_mod K 4 ltac:(lia)) as EK. pose proof (Z.mod_pos_bound K 4 ltac:(lia)) as Hp.
    pose proof (Z.div_mod K' 4 ltac:(lia)) as EK'. pose proof (Z.mod_pos_bound K' 4 ltac:(lia)) as Hp'.
    set (Q := K / 4) in *. set (p := K mod 4) in *. set (Q' := K' / 4) in *. set (p' := K' mod 4) in *.
    assert (HQ : 0 <= Q) by (unfold Q; apply Z.div_pos; lia).
    assert (HQ' : 0 <= Q') by (unfold Q'; apply Z.div_pos; lia).
    assert (HFQ : Q / 4 ^ Z.of_nat n = Q' / 4 ^ Z.of_nat n).
    { unfold Q, Q'. rewrite !Z.div_div by (try apply C12_Ids.pow4_pos; lia).
      rewrite Nat2Z.inj_succ, Z.pow_succ_r in HF by lia. exact HF. }
    rewrite EK, EK' in E1, E2. rewrite !hd_state_digit in E1, E2 by lia.
    pose proof (hd_state_ok n Q) as Hok. pose proof (hd_state_ok n Q') as Hok'.
    destruct (hd_state n Q) as [[i j] o] eqn:ES. destruct (hd_state n Q') as [[i' j'] o'] eqn:ES'.
    destruct Hok as (_ & _ & Ho). destruct Hok' as (_ & _ & Ho').
    destruct (hd_step_inj _ _ _ _ _ _ _ _ Ho Hp Ho' Hp' E1 E2) as (Ei & Ej & Ed).
    assert (EQ : Q = Q').
    { apply IH; try assumption; rewrite ES, ES'; cbn [fst snd]; assumption. }
    assert (Eo : o = o') by (rewrite EQ in ES; rewrite ES in ES'; congruence).
    rewrite EK, EK', EQ, (Ed Eo). reflexivity.
Qed.

Lemma index_div : forall f l k, 0 <= l -> 0 <= k < 4 ^ l -> index f l k / 4 ^ l = f.
Proof.
  intros f l k Hl Hk. unfold index. symmetry. apply (Z.div_unique _ (4 ^ l) f k); [left; exact Hk|ring].
Qed.

(** [face_ij_inverse] *)
Theorem face_ij_inverse : forall c f k, rep c f 30 k ->
  exists i j o, s2_CellID_faceIJOrientation c = (f, i, j, o) /\ 0 <= i < 2 ^ 30 /\ 0 <= j < 2 ^ 30 /\
    s2_cellIDFromFaceIJ f i j = c.
Proof.
  intros c f k H. pose proof H as (Hf & _ & Hk & _).
  destruct (cell_state (Z.to_nat 30) (index f 30 k)) as [[ci cj] co] eqn:ES.
  destruct (faceIJ_cell _ _ _ _ H ci cj co ES) as (i & j & D & Ei & Ej & Ri & Rj).
  exists i, j, co. split; [exact D|]. split; [exact Ri|]. split; [exact Rj|].
  destruct (ij_roundtrip f i j Hf Ri Rj) as (o' & k' & _ & H' & D').
  destruct (cell_state (Z.to_nat 30) (index f 30 k')) as [[ci' cj'] co'] eqn:ES'.
  destruct (faceIJ_cell _ _ _ _ H' ci' cj' co' ES') as (i' & j' & D2 & Ei' & Ej' & _).
  rewrite D' in D2. injection D2 as <- <- _.
  change (2 ^ (30 - 30)) with 1 in *. rewrite !Z.div_1_r in *.
  pose proof H' as (_ & _ & Hk' & _).
  assert (EK : index f 30 k = index f 30 k').
  { unfold cell_state in ES, ES'.
    apply (state_inj (Z.to_nat 30)).
    - pose proof (index_bounds f 30 k Hf ltac:(lia) Hk). lia.
    - pose proof (index_bounds f 30 k' Hf ltac:(lia) Hk'). lia.
    - rewrite Z2Nat.id by lia. rewrite !index_div by (try assumption; lia). reflexivity.
    - rewrite ES, ES'. cbn [fst snd]. congruence.
    - rewrite ES, ES'. cbn [fst snd]. congruence. }
  assert (k = k') by (unfold index in EK; lia). subst k'.
  destruct H as (_ & _ & _ & E1). destruct H' as (_ & _ & _ & E2). rewrite E1, E2. reflexivity.
Qed.

(** ** prefix property *)
Lemma state_prefix : forall m n K, 0 <= K ->
  fst (fst (hd_state (m + n) K)) / 2 ^ Z.of_nat m = fst (fst (hd_state n (K / 4 ^ Z.of_nat m))) /\
  snd (fst (hd_state (m + n) K)) / 2 ^ Z.of_nat m = snd (fst (hd_state n (K / 4 ^ Z.of_nat m))).
Proof.
  induction m as [|m IH]; intros n K HK.
  - cbn [Nat.add]. change (2 ^ Z.of_nat 0) with 1. change (4 ^ Z.of_nat 0) with 1. rewrite !Z.div_1_r. split; reflexivity.
  - pose proof (Z.div_mod K 4 ltac:(lia)) as EK. pose proof (Z.mod_pos_bound K 4 ltac:(lia)) as Hp.
    set (Q := K / 4) in *. set (p := K mod 4) in *.
    assert (HQ : 0 <= Q) by (unfold Q; apply Z.div_pos; lia).
    destruct (IH n Q HQ) as (I1 & I2).
    assert (EQ : K / 4 ^ Z.of_nat (S m) = Q / 4 ^ Z.of_nat m).
    { rewrite Nat2Z.inj_succ, Z.pow_succ_r by lia. unfold Q. rewrite Z.div_div by (try apply C12_Ids.pow4_pos; lia). reflexivity. }
    rewrite EQ, <- I1, <- I2. rewrite EK at 1 2. change (S m + n)%nat with (S (m + n)).
    rewrite hd_state_digit by lia.
    pose proof (hd_state_ok (m + n) Q) as Hok.
    destruct (hd_state (m + n) Q) as [[i j] o]. destruct Hok as (_ & _ & Ho).
    rewrite hd_step_eq. cbn [fst snd]. rewrite Nat2Z.inj_succ, Z.pow_succ_r by lia.
    pose proof (hd_ab_range o p Ho Hp) as (Ha & Hb).
    assert (HP : 0 < 2 ^ Z.of_nat m) by (apply Z.pow_pos_nonneg; lia).
    rewrite <- !Z.div_div by lia.
    replace ((2 * i + hd_a o p) / 2) with i by (apply (Z.div_unique _ 2 i (hd_a o p)); [left|]; lia).
    replace ((2 * j + hd_b o p) / 2) with j by (apply (Z.div_unique _ 2 j (hd_b o p)); [left|]; lia).
    split; reflexivity.
Qed.

(** [ancestor_prefix]: for a cell c of level l and l' <= l, the (i,j) returned for the ancestor
    Parent c l' lies in the same level-l' square as the (i,j) returned for c *)
Theorem ancestor_prefix : forall c f l k l', rep c f l k -> 0 <= l' <= l ->
  exists i j o i' j' o',
    s2_CellID_faceIJOrientation c = (f, i, j, o) /\
    s2_CellID_faceIJOrientation (s2_CellID_Parent c l') = (f, i', j', o') /\
    i' / 2 ^ (30 - l') = i / 2 ^ (30 - l') /\ j' / 2 ^ (30 - l') = j / 2 ^ (30 - l').
Proof.
  intros c f l k l' H Hl'. pose proof H as (Hf & Hl & Hk & _).
  pose proof (Parent_rep _ _ _ _ _ H Hl') as HP.
  destruct (cell_state (Z.to_nat l) (index f l k)) as [[ci cj] co] eqn:ES.
  destruct (cell_state (Z.to_nat l') (index f l' (k / 4 ^ (l - l')))) as [[ci' cj'] co'] eqn:ES'.
  destruct (faceIJ_cell _ _ _ _ H ci cj co ES) as (i & j & D & Ei & Ej & Ri & Rj).
  destruct (faceIJ_cell _ _ _ _ HP ci' cj' co' ES') as (i' & j' & D' & Ei' & Ej' & _).
  exists i, j, co, i', j', co'. split; [exact D|]. split; [exact D'|].
  (* the ancestor's coordinates are the prefix of the cell's coordinates *)
  set (m := Z.to_nat (l - l')). assert (Em : (m + Z.to_nat l' = Z.to_nat l)%nat) by (clear - Hl Hl'; lia).
  pose proof (index_bounds f l k Hf ltac:(lia) Hk) as Hi.
  destruct (state_prefix m (Z.to_nat l') (index f l k) ltac:(clear - Hi; lia)) as (P1 & P2).
  rewrite Em in P1, P2. unfold cell_state in ES, ES'. rewrite ES in P1, P2. cbn [fst snd] in P1, P2.
  assert (EI : index f l k / 4 ^ Z.of_nat m = index f l' (k / 4 ^ (l - l'))).
  { unfold index, m. rewrite Z2Nat.id by lia.
    pose proof (C01_Algebra.pow4_pos (l - l') ltac:(lia)) as HD.
    replace (4 ^ l) with (4 ^ l' * 4 ^ (l - l')) by (rewrite <- Z.pow_add_r by lia; f_equal; lia).
    rewrite Z.mul_assoc, Z.div_add_l by lia. reflexivity. }
  rewrite EI, ES' in P1, P2. cbn [fst snd] in P1, P2.
  unfold m in P1, P2. rewrite Z2Nat.id in P1, P2 by lia.
  assert (E2 : 2 ^ (30 - l') = 2 ^ (30 - l) * 2 ^ (l - l')) by (rewrite <- Z.pow_add_r by lia; f_equal; lia).
  pose proof (pow2_pos (30 - l) ltac:(lia)). pose proof (pow2_pos (l - l') ltac:(lia)).
  rewrite Ei', Ej'. rewrite E2, <- !Z.div_div by lia. rewrite Ei, Ej. split; symmetry; assumption.
Qed.
