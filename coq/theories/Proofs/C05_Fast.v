(** C05 — normalizeCovering / FastCovering / adjustCellLevels of Model/Coverer.v. *)
From Coq Require Import ZArith List Bool Lia Sorting.Sorted Sorting.Permutation.
From Coq Require Import ZifyBool.
From Geo Require Import Base.GoPrim Gen.CellIDCov Model.Coverer.
From Geo Require Import Proofs.C05_CellFacts Proofs.C05_CellUnion Proofs.C05_Coverer.
From Geo Require Import Gen.CellID.  (* s2_CellID_Level *)
From Geo Require Import Gen.CellIDFull.  (* s2_CellID_CommonAncestorLevel *)
Import ListNotations.
Local Open Scope Z_scope.

Lemma minInt1 : forall x y, s2_minInt x [y] = Z.min x y.
Proof. intros. unfold s2_minInt. cbn. destruct (Z.ltb_spec y x); lia. Qed.
Lemma maxInt1 : forall x y, s2_maxInt x [y] = Z.max x y.
Proof. intros. unfold s2_maxInt. cbn. destruct (Z.ltb_spec x y); lia. Qed.

  (** level conditions that survive Normalize and are re-established by Denormalize *)
Definition good_level (minL md M L : Z) : Prop := minL <= L <= M /\ (L - minL) mod md = 0.
Definition cv_good (cv : coverer) (o : Z) : Prop :=
  good_level (minLevel cv) (levelMod cv) (Z.max (minLevel cv) (maxLevel cv)) (s2_CellID_Level o).

(** What the theorems need of normalizeCovering's "very large covering" branch
    ([rc.Covering(&covering)] with the coverer's own options), split into partial correctness
    and totality: a returned list consists of valid cells at admissible levels that cover the argument. *)
Definition fb_post (cv : coverer) (l r : list Z) : Prop :=
  all_valid r /\ (forall x, is_leaf x -> covered l x -> covered r x) /\ Forall (cv_good cv) r.
Definition FallbackSound (fallback : coverer -> list Z -> option (list Z)) : Prop :=
  forall cv l r, wf_cv cv -> all_valid l -> normal l -> fallback cv l = Some r -> fb_post cv l r.
Definition FallbackTotal (fallback : coverer -> list Z -> option (list Z)) : Prop :=
  forall cv l, wf_cv cv -> all_valid l -> normal l -> exists r, fallback cv l = Some r.

Local Ltac Zify.zify_post_hook ::= Z.div_mod_to_equations.
Lemma denorm_level_good : forall minL md M L, 0 <= minL <= 30 -> 1 <= md <= 3 -> 0 <= L <= 30 -> M <= 30 ->
  (exists G, good_level minL md M G /\ L <= G) -> good_level minL md M (denorm_level minL md L).
Proof.
  intros minL md M L Hmin Hmd HL HM (G & (HG1 & HG2) & HLG). unfold good_level, denorm_level.
  set (nl := if L <? minL then minL else L).
  assert (Hnl : minL <= nl <= G /\ L <= nl) by (unfold nl; destruct (Z.ltb_spec L minL); lia).
  clearbody nl.
  destruct (Z.gtb_spec md 1) as [Hgt|Hle].
  - (* rounding up to the next level congruent to minL stays at or below G *)
    assert (Hmd23 : md = 2 \/ md = 3) by lia.
    destruct Hmd23 as [-> | ->]; rewrite Z.rem_mod_nonneg by lia;
      match goal with |- context [?a >? 30] => destruct (Z.gtb_spec a 30) end;
      (split; [|]); lia.
  - assert (md = 1) by lia. subst md. split; [lia|]. apply Z.mod_1_r.
Qed.


(* ---------------------------------------------------------------------- *)
(** * adjustLevel and lifting a cell to its adjusted level *)
Section Adjust.
  Variable cv : coverer.
  Hypothesis Hwf : wf_cv cv.

  Lemma adjustLevel_spec : forall L, 0 <= L <= 30 ->
    0 <= adjustLevel cv L <= L /\
    (minLevel cv <= adjustLevel cv L -> (adjustLevel cv L - minLevel cv) mod levelMod cv = 0).
  Proof using Hwf.
    intros L HL. destruct Hwf as (Hmin & Hmax & Hmod). unfold adjustLevel.
    assert (Hm : levelMod cv = 1 \/ levelMod cv = 2 \/ levelMod cv = 3) by lia.
    destruct Hm as [-> | [-> | ->]]; cbn [Z.gtb Z.compare Pos.compare Pos.compare_cont andb];
      destruct (Z.gtb_spec L (minLevel cv)) as [Hl|Hl]; try rewrite Z.rem_mod_nonneg by lia; lia.
  Qed.

  Definition lift (ci : Z) (nl : Z) : Z :=
    if negb (nl =? s2_CellID_Level ci) then s2_CellID_Parent ci nl else ci.

  Lemma lift_spec : forall ci L nl, valid_at ci L -> 0 <= nl <= L ->
    valid_at (lift ci nl) nl /\ cell_sub ci (lift ci nl).
  Proof.
    intros ci L nl Hv Hnl. unfold lift. rewrite (level_spec _ _ Hv).
    destruct (Z.eqb_spec nl L) as [->|Hne]; cbn [negb].
    - split; [exact Hv|unfold cell_sub; lia].
    - split; [apply (parent_valid ci L); assumption|].
      unfold cell_sub. apply (parent_range ci L nl Hv Hnl).
  Qed.

  (** ** adjustCellLevels *)
  Lemma pop_contained_covers : forall ci rout, valid ci -> Forall valid rout ->
    Forall valid (pop_contained ci rout) /\
    (forall x, covered rout x -> leaf_in x ci \/ covered (pop_contained ci rout) x) /\
    (forall o, In o (pop_contained ci rout) -> In o rout).
  Proof.
    intros ci rout Vci. induction rout as [|o r IH]; intros Vr; cbn [pop_contained].
    - repeat split; auto.
    - inversion Vr as [|? ? Vo Vr']; subst. destruct (s2_CellID_Contains ci o) eqn:Ec.
      + destruct (IH Vr') as (I1 & I2 & I3). split; [exact I1|]. split.
        * intros x Hx. apply covered_cons in Hx. destruct Hx as [Hx|Hx]; [|apply I2; exact Hx].
          left. destruct (nested' ci o Vci Vo (contains_true ci o Vci Vo Ec)) as (Sub & _).
          eapply cell_sub_leaf; eauto.
        * intros o' Ho'. right. apply I3. exact Ho'.
      + repeat split; auto.
  Qed.

  Definition lvl_cell (c : Z) : Prop := forall L, valid_at c L -> lvl_ok cv L.

  Lemma adjust_step_spec : forall rout ci M, valid ci -> s2_CellID_Level ci <= M -> M = Z.max (maxLevel cv) (minLevel cv) ->
    Forall valid rout -> Forall lvl_cell rout ->
    Forall valid (adjust_step cv rout ci) /\ Forall lvl_cell (adjust_step cv rout ci) /\
    (forall x, covered rout x \/ leaf_in x ci -> covered (adjust_step cv rout ci) x).
  Proof using Hwf.
    intros rout ci M (L & Vci) HM EM Vr Lr. unfold adjust_step. cbv zeta.
    fold (lift ci (adjustLevel cv (s2_CellID_Level ci))). rewrite (level_spec _ _ Vci) in *.
    destruct (adjustLevel_spec L ltac:(destruct Vci; lia)) as (Hnl & Hmodl).
    destruct (lift_spec ci L (adjustLevel cv L) Vci Hnl) as (Vl & Sl).
    set (ci' := lift ci (adjustLevel cv L)) in *.
    assert (Vci' : valid ci') by (eexists; exact Vl).
    assert (Lci' : lvl_cell ci').
    { intros L' V'. pose proof (valid_at_unique _ _ _ Vl V') as <-. split; [exact Hmodl|lia]. }
    destruct rout as [|o r].
    - split; [constructor; [exact Vci'|constructor]|]. split; [constructor; [exact Lci'|constructor]|].
      intros x [(c & [] & _)|Hx]. apply covered_cons. left. eapply cell_sub_leaf; eauto.
    - inversion Vr as [|? ? Vo Vr']; subst.
      destruct (s2_CellID_Contains o ci') eqn:Ec.
      + split; [exact Vr|]. split; [exact Lr|].
        intros x [Hx|Hx]; [exact Hx|]. apply covered_cons. left.
        destruct (nested' o ci' Vo Vci' (contains_true o ci' Vo Vci' Ec)) as (Sub & _).
        eapply cell_sub_leaf; [|exact Sub]. eapply cell_sub_leaf; eauto.
      + destruct (pop_contained_covers ci' (o :: r) Vci' Vr) as (P1 & P2 & P3).
        split; [constructor; assumption|]. split.
        * constructor; [exact Lci'|]. rewrite Forall_forall in *. intros o' Ho'. apply Lr. apply P3. exact Ho'.
        * intros x [Hx|Hx]; apply covered_cons.
          -- destruct (P2 x Hx) as [H|H]; [left; exact H|right; exact H].
          -- left. eapply cell_sub_leaf; eauto.
  Qed.

  Lemma adjustCellLevels_spec0 : forall cells, all_valid cells ->
    (forall o, In o cells -> s2_CellID_Level o <= Z.max (maxLevel cv) (minLevel cv)) ->
    all_valid (adjustCellLevels cv cells) /\
    (forall x, is_leaf x -> covered cells x -> covered (adjustCellLevels cv cells) x) /\
    Forall (fun c => forall L, valid_at c L -> lvl_ok cv L) (adjustCellLevels cv cells).
  Proof using Hwf.
    intros cells Vc Hlev. unfold adjustCellLevels.
    destruct (Z.eqb_spec (levelMod cv) 1) as [Hm1|Hm1].
    - split; [exact Vc|]. split; [auto|].
      unfold all_valid in Vc. rewrite Forall_forall in *. intros c Hc L Vcl. split.
      + intros _. rewrite Hm1. apply Z.mod_1_r.
      + specialize (Hlev c Hc). rewrite (level_spec _ _ Vcl) in Hlev. exact Hlev.
    - assert (Gen : forall cs rout, Forall valid cs ->
                (forall o, In o cs -> s2_CellID_Level o <= Z.max (maxLevel cv) (minLevel cv)) ->
                Forall valid rout -> Forall lvl_cell rout ->
                let out := fold_left (adjust_step cv) cs rout in
                Forall valid out /\ Forall lvl_cell out /\ (forall x, covered rout x \/ covered cs x -> covered out x)).
      { induction cs as [|ci cs IH]; intros rout Vcs Hl Vr Lr; cbn [fold_left].
        - split; [exact Vr|]. split; [exact Lr|]. intros x [Hx|(c & [] & _)]; exact Hx.
        - inversion Vcs as [|? ? Vci Vcs']; subst.
          destruct (adjust_step_spec rout ci _ Vci (Hl ci ltac:(left; reflexivity)) eq_refl Vr Lr) as (S1 & S2 & S3).
          destruct (IH (adjust_step cv rout ci) Vcs' ltac:(intros; apply Hl; right; assumption) S1 S2) as (J1 & J2 & J3).
          split; [exact J1|]. split; [exact J2|].
          intros x [Hx|Hx]; apply J3.
          + left. apply S3. left; exact Hx.
          + apply covered_cons in Hx. destruct Hx as [Hx|Hx]; [left; apply S3; right; exact Hx|right; exact Hx]. }
      destruct (Gen cells [] Vc Hlev (Forall_nil _) (Forall_nil _)) as (J1 & J2 & J3).
      split; [|split].
      + unfold all_valid. apply Forall_forall. intros o Ho. rewrite <- in_rev in Ho. rewrite Forall_forall in J1. auto.
      + intros x _ Hx. destruct (J3 x (or_intror Hx)) as (o & Ho & Hxo). exists o. split; [rewrite <- in_rev; exact Ho|exact Hxo].
      + apply Forall_forall. intros o Ho. rewrite <- in_rev in Ho. rewrite Forall_forall in J2. apply J2. exact Ho.
  Qed.
End Adjust.

Lemma adjustCellLevels_spec : forall cv, wf_cv cv -> forall cells, all_valid cells ->
  (forall o, In o cells -> s2_CellID_Level o <= Z.max (maxLevel cv) (minLevel cv)) ->
  all_valid (adjustCellLevels cv cells) /\
  (forall x, is_leaf x -> covered cells x -> covered (adjustCellLevels cv cells) x) /\
  Forall (fun c => forall L, valid_at c L -> lvl_ok cv L) (adjustCellLevels cv cells).
Proof. exact adjustCellLevels_spec0. Qed.

(* ---------------------------------------------------------------------- *)
(** * sort.Search on a monotone predicate *)
Lemma search_loop_spec : forall (f : Z -> bool) n fuel i j,
  (forall a b, 0 <= a <= b -> b < n -> f a = true -> f b = true) ->
  0 <= i <= j -> j <= n -> (Z.to_nat (j - i) < fuel)%nat ->
  (forall k, 0 <= k < i -> f k = false) -> (forall k, j <= k < n -> f k = true) ->
  let r := search_loop fuel f i j in
  0 <= r <= n /\ (forall k, 0 <= k < r -> f k = false) /\ (forall k, r <= k < n -> f k = true).
Proof.
  intros f n. induction fuel as [|fuel IH]; intros i j Hmono Hij Hjn Hfuel Hlo Hhi; [lia|].
  cbn [search_loop]. destruct (Z.ltb_spec i j) as [Hlt|Hge].
  - rewrite Z.shiftr_div_pow2 by lia. change (2^1) with 2.
    assert (Hh : i <= (i + j) / 2 < j) by (split; [apply Z.div_le_lower_bound; lia|apply Z.div_lt_upper_bound; lia]).
    set (h := (i + j) / 2) in *.
    destruct (f h) eqn:Efh; cbn [negb].
    + apply IH; auto; try lia.
      intros k Hk. apply (Hmono h k); try lia. exact Efh.
    + apply IH; auto; try lia.
      intros k Hk. destruct (f k) eqn:Efk; [|reflexivity].
      destruct (Z.le_gt_cases i k) as [Hik|Hik]; [|rewrite <- Efk; apply Hlo; lia].
      rewrite <- Efh. symmetry. apply (Hmono k h); try lia. exact Efk.
  - assert (i = j) by lia. subst j. repeat split; auto; try lia.
Qed.

Lemma sort_Search_spec : forall (f : Z -> bool) n, 0 <= n ->
  (forall a b, 0 <= a <= b -> b < n -> f a = true -> f b = true) ->
  let r := sort_Search n f in
  0 <= r <= n /\ (forall k, 0 <= k < r -> f k = false) /\ (forall k, r <= k < n -> f k = true).
Proof.
  intros f n Hn Hmono. unfold sort_Search. apply search_loop_spec; auto; try lia.
Qed.

(* ---------------------------------------------------------------------- *)
(** * Lists by index *)
Lemma nthZ_nth : forall (l : list Z) i, 0 <= i -> nthZ l i 0 = nth (Z.to_nat i) l 0.
Proof. intros l i Hi. unfold nthZ. replace (i <? 0) with false by lia. reflexivity. Qed.
Lemma nthZ_in : forall (l : list Z) i, 0 <= i < len l -> In (nthZ l i 0) l.
Proof. intros l i Hi. rewrite nthZ_nth by lia. apply nth_In. unfold len in Hi. lia. Qed.
Lemma in_nthZ : forall (l : list Z) c, In c l -> exists i, 0 <= i < len l /\ nthZ l i 0 = c.
Proof.
  intros l c Hc. destruct (In_nth l c 0 Hc) as (k & Hk & E). exists (Z.of_nat k).
  split; [unfold len; lia|]. rewrite nthZ_nth by lia. rewrite Nat2Z.id. exact E.
Qed.
Lemma in_firstn_nthZ : forall (l : list Z) m c, In c (firstn m l) ->
  exists i, 0 <= i < Z.of_nat m /\ i < len l /\ nthZ l i 0 = c.
Proof.
  induction l as [|a l IH]; intros [|m] c Hc; cbn in Hc; try contradiction.
  destruct Hc as [<-|Hc].
  - exists 0. unfold len. cbn [length]. split; [lia|]. split; [lia|reflexivity].
  - destruct (IH m c Hc) as (i & Hi & Hl & E). exists (i + 1). unfold len in *. cbn [length].
    split; [lia|]. split; [lia|]. rewrite nthZ_nth in * by lia.
    replace (Z.to_nat (i + 1)) with (S (Z.to_nat i)) by lia. exact E.
Qed.
Lemma nthZ_in_firstn : forall (l : list Z) m i, 0 <= i < Z.of_nat m -> i < len l -> In (nthZ l i 0) (firstn m l).
Proof.
  induction l as [|a l IH]; intros m i Hi Hl; unfold len in *; cbn [length] in *; [lia|].
  destruct m as [|m]; [lia|]. cbn [firstn]. rewrite nthZ_nth by lia.
  destruct (Z.eq_dec i 0) as [->|Hne]; [left; reflexivity|right].
  replace (Z.to_nat i) with (S (Z.to_nat (i - 1))) by lia. cbn [nth].
  rewrite <- nthZ_nth by lia. apply IH; lia.
Qed.
Lemma in_skipn_nthZ : forall (l : list Z) m c, In c (skipn m l) ->
  exists i, Z.of_nat m <= i < len l /\ nthZ l i 0 = c.
Proof.
  induction l as [|a l IH]; intros [|m] c Hc; cbn [skipn] in Hc; try contradiction.
  - destruct (in_nthZ (a :: l) c Hc) as (i & Hi & E). exists i. split; [lia|exact E].
  - destruct (IH m c Hc) as (i & Hi & E). exists (i + 1). unfold len in *. cbn [length].
    split; [lia|]. rewrite nthZ_nth in * by lia.
    replace (Z.to_nat (i + 1)) with (S (Z.to_nat i)) by lia. exact E.
Qed.
Lemma nthZ_in_skipn : forall (l : list Z) m i, Z.of_nat m <= i < len l -> In (nthZ l i 0) (skipn m l).
Proof.
  induction l as [|a l IH]; intros m i Hi; unfold len in *; cbn [length] in *; [lia|].
  destruct m as [|m]; cbn [skipn].
  - apply nthZ_in. unfold len. cbn [length]. lia.
  - rewrite nthZ_nth by lia. replace (Z.to_nat i) with (S (Z.to_nat (i - 1))) by lia. cbn [nth].
    rewrite <- nthZ_nth by lia. apply IH; lia.
Qed.

Definition sorted_ids (l : list Z) : Prop := StronglySorted Z.le l.

Lemma sorted_nthZ_le : forall l i j, sorted_ids l -> 0 <= i <= j -> j < len l -> nthZ l i 0 <= nthZ l j 0.
Proof.
  induction l as [|a l IH]; intros i j Hs Hij Hj; unfold len in *; cbn [length] in *; [lia|].
  inversion Hs as [|? ? Hs' Fa]; subst.
  destruct (Z.eq_dec i 0) as [->|Hi].
  - destruct (Z.eq_dec j 0) as [->|Hj0]; [lia|].
    rewrite (nthZ_nth _ 0) by lia. cbn [nth Z.to_nat].
    rewrite nthZ_nth by lia. replace (Z.to_nat j) with (S (Z.to_nat (j - 1))) by lia. cbn [nth].
    rewrite Forall_forall in Fa. apply Fa. apply nth_In. lia.
  - rewrite !nthZ_nth by lia.
    replace (Z.to_nat i) with (S (Z.to_nat (i - 1))) by lia. replace (Z.to_nat j) with (S (Z.to_nat (j - 1))) by lia.
    cbn [nth]. rewrite <- !nthZ_nth by lia. apply IH; auto; unfold len; lia.
Qed.

Lemma SS_app_inv : forall {A} (R : A -> A -> Prop) l1 l2, StronglySorted R (l1 ++ l2) ->
  StronglySorted R l1 /\ StronglySorted R l2.
Proof.
  intros A R. induction l1 as [|a l1 IH]; intros l2 H; cbn in *; [split; [constructor|exact H]|].
  inversion H as [|? ? H' Fa]; subst. destruct (IH l2 H') as (S1 & S2).
  apply Forall_app in Fa. split; [constructor; tauto|exact S2].
Qed.

Lemma normal_sorted : forall l, all_valid l -> normal l -> sorted_ids l.
Proof.
  unfold all_valid, normal, sorted_ids. induction l as [|a l IH]; intros V N; [constructor|].
  inversion V as [|? ? Va V']; subst. inversion N as [|? ? N' Fa]; subst.
  constructor; [apply IH; assumption|].
  rewrite Forall_forall in *. intros b Hb. specialize (Fa b Hb).
  pose proof (valid_lo_hi a Va). pose proof (valid_lo_hi b (V' b Hb)). lia.
Qed.

(* ---------------------------------------------------------------------- *)
(** * replaceCellsWithAncestor *)
Section Replace.
  Variable cv : coverer.
  Hypothesis Hwf : wf_cv cv.

  Lemma replace_spec : forall cov id, all_valid cov -> sorted_ids cov -> valid id ->
    let new := replaceCellsWithAncestor cov id in
    all_valid new /\ sorted_ids new /\
    (forall x, covered cov x -> covered new x) /\
    (forall o, In o new -> o = id \/ In o cov).
  Proof.
    intros cov id Vc Sc Vid. unfold replaceCellsWithAncestor.
    pose proof (valid_lo_hi id Vid) as Rid.
    set (n := len cov).
    assert (Hn : 0 <= n) by (unfold n, len; lia).
    assert (Mono : forall K a b, 0 <= a <= b -> b < n -> (nthZ cov a 0 >? K) = true -> (nthZ cov b 0 >? K) = true).
    { intros K a b Hab Hb Ha. pose proof (sorted_nthZ_le cov a b Sc Hab Hb). lia. }
    destruct (sort_Search_spec (fun i => nthZ cov i 0 >? lo id) n Hn (Mono (lo id))) as (Hb & Hb1 & Hb2).
    destruct (sort_Search_spec (fun i => nthZ cov i 0 >? hi id) n Hn (Mono (hi id))) as (He & He1 & He2).
    set (b := sort_Search n (fun i => nthZ cov i 0 >? lo id)) in *.
    set (e := sort_Search n (fun i => nthZ cov i 0 >? hi id)) in *.
    cbv beta in Hb1, Hb2, He1, He2.
    assert (Fpre : forall c, In c (firstn (Z.to_nat b) cov) -> c <= lo id /\ In c cov).
    { intros c Hc. destruct (in_firstn_nthZ cov _ c Hc) as (i & Hi & Hl & E).
      specialize (Hb1 i ltac:(lia)). split; [lia|]. rewrite <- E. apply nthZ_in. lia. }
    assert (Fsuf : forall c, In c (skipn (Z.to_nat e) cov) -> hi id < c /\ In c cov).
    { intros c Hc. destruct (in_skipn_nthZ cov _ c Hc) as (i & Hi & E).
      specialize (He2 i ltac:(fold n; lia)). split; [lia|]. rewrite <- E. apply nthZ_in. lia. }
    unfold all_valid in *. rewrite Forall_forall in Vc.
    split; [|split; [|split]].
    - apply Forall_forall. intros o Ho. apply in_app_or in Ho. destruct Ho as [Ho|[<-|Ho]].
      + apply Vc. apply Fpre; exact Ho.
      + exact Vid.
      + apply Vc. apply Fsuf; exact Ho.
    - unfold sorted_ids in *.
      pose proof Sc as Sc1. rewrite <- (firstn_skipn (Z.to_nat b) cov) in Sc1. apply SS_app_inv in Sc1.
      pose proof Sc as Sc2. rewrite <- (firstn_skipn (Z.to_nat e) cov) in Sc2. apply SS_app_inv in Sc2.
      apply SS_app; [tauto| |].
      + cbn [app]. constructor; [tauto|]. apply Forall_forall. intros c Hc. destruct (Fsuf c Hc). lia.
      + intros a c Ha Hc. destruct (Fpre a Ha) as (Ha1 & _). destruct Hc as [<-|Hc]; [lia|].
        destruct (Fsuf c Hc). lia.
    - intros x (c & Hc & Hx). destruct (in_nthZ cov c Hc) as (i & Hi & E). fold n in Hi.
      destruct (Z.lt_ge_cases i b) as [Hib|Hib].
      + exists c. split; [|exact Hx]. apply in_or_app. left. rewrite <- E. apply nthZ_in_firstn; lia.
      + destruct (Z.lt_ge_cases i e) as [Hie|Hie].
        * (* dropped: its id lies in (lo id, hi id], so the whole cell is inside id *)
          specialize (Hb2 i ltac:(lia)). specialize (He1 i ltac:(lia)). rewrite E in Hb2, He1.
          destruct (nested' id c Vid (Vc c Hc) ltac:(lia)) as (Sub & _).
          exists id. split; [apply in_or_app; right; left; reflexivity|]. eapply cell_sub_leaf; eauto.
        * exists c. split; [|exact Hx]. apply in_or_app. right. right. rewrite <- E. apply nthZ_in_skipn. fold n. lia.
    - intros o Ho. apply in_app_or in Ho. destruct Ho as [Ho|[<-|Ho]]; [right; apply Fpre; exact Ho|left; reflexivity|right; apply Fsuf; exact Ho].
  Qed.

  (** the invariant of the greedy merging loop *)
  Definition ginv (cov0 cov : list Z) : Prop :=
    all_valid cov /\ sorted_ids cov /\ (forall x, covered cov0 x -> covered cov x) /\
    Forall (cv_good cv) cov.

  Lemma replace_ginv : forall cov0 cov id L, ginv cov0 cov -> valid_at id L -> cv_good cv id ->
    ginv cov0 (replaceCellsWithAncestor cov id).
  Proof.
    intros cov0 cov id L (V & S & C & Lv) Vid HL.
    destruct (replace_spec cov id V S ltac:(exists L; exact Vid)) as (R1 & R2 & R3 & R4).
    split; [exact R1|]. split; [exact R2|]. split; [intros x Hx; apply R3, C, Hx|].
    apply Forall_forall. intros o Ho. rewrite Forall_forall in Lv.
    destruct (R4 o Ho) as [->|Ho']; [exact HL|apply Lv; exact Ho'].
  Qed.

  Lemma merge_up_ginv : forall cov0 fuel cov id L, ginv cov0 cov -> valid_at id L -> cv_good cv id ->
    ginv cov0 (merge_up cv fuel cov id L).
  Proof using Hwf.
    intros cov0. destruct Hwf as (Hmin & Hmax & Hmod).
    induction fuel as [|fuel IH]; intros cov id L G Vid HL; cbn [merge_up]; [exact G|].
    destruct (Z.gtb_spec L (minLevel cv)) as [Hgt|Hle]; [|exact G].
    pose proof HL as HL0. unfold cv_good, good_level in HL. rewrite (level_spec _ _ Vid) in HL. destruct HL as (HLr & Hc).
    assert (Hstep : minLevel cv <= L - levelMod cv).
    { pose proof (Z.div_mod (L - minLevel cv) (levelMod cv) ltac:(lia)) as Hd. rewrite Hc in Hd.
      assert (1 <= (L - minLevel cv) / levelMod cv) by nia. nia. }
    assert (Vp : valid_at (s2_CellID_Parent id (L - levelMod cv)) (L - levelMod cv)).
    { apply (parent_valid id L); [exact Vid|lia]. }
    assert (Gp : cv_good cv (s2_CellID_Parent id (L - levelMod cv))).
    { unfold cv_good, good_level. rewrite (level_spec _ _ Vp). split; [lia|].
      replace (L - levelMod cv - minLevel cv) with ((L - minLevel cv) + (-1) * levelMod cv) by ring.
      rewrite Z.mod_add by lia. exact Hc. }
    destruct (containsAllChildren cv cov (s2_CellID_Parent id (L - levelMod cv))); cbn [negb]; [|exact G].
    apply IH; [eapply replace_ginv; eauto|exact Vp|exact Gp].
  Qed.

  Lemma best_pair_spec : forall cov, all_valid cov ->
    let '(bi, bl) := best_pair cv cov in
    bl = -1 \/ (0 <= bi < len cov /\ exists l L, valid_at (nthZ cov bi 0) L /\ 0 <= l <= L /\ bl = adjustLevel cv l).
  Proof.
    intros cov Vc. unfold best_pair.
    set (P := fun p : Z * Z => snd p = -1 \/ (0 <= fst p < len cov /\
                exists l L, valid_at (nthZ cov (fst p) 0) L /\ 0 <= l <= L /\ snd p = adjustLevel cv l)).
    assert (Gen : forall is st, (forall i, In i is -> 0 <= i < len cov - 1) -> P st ->
              P (fold_left (fun '(bestIndex, bestLevel) i =>
                   let '(level, ok) := s2_CellID_CommonAncestorLevel (nthZ cov i 0) (nthZ cov (i + 1) 0) in
                   if negb ok then (bestIndex, bestLevel) else
                   let level := adjustLevel cv level in
                   if level >? bestLevel then (i, level) else (bestIndex, bestLevel)) is st)).
    { induction is as [|i is IH]; intros (bi, bl) His Hst; cbn [fold_left]; [exact Hst|].
      apply IH; [intros; apply His; right; assumption|].
      specialize (His i ltac:(left; reflexivity)).
      destruct (s2_CellID_CommonAncestorLevel (nthZ cov i 0) (nthZ cov (i + 1) 0)) as (l, ok) eqn:Ecal.
      destruct ok; cbn [negb]; [|exact Hst].
      destruct (adjustLevel cv l >? bl); [|exact Hst].
      unfold all_valid in Vc. rewrite Forall_forall in Vc.
      destruct (Vc _ (nthZ_in cov i ltac:(lia))) as (La & Va).
      destruct (Vc _ (nthZ_in cov (i + 1) ltac:(lia))) as (Lb & Vb).
      destruct (cal_spec _ La _ Lb l Va Vb Ecal) as (Hl & _).
      right. cbn [fst snd]. split; [lia|]. exists l, La. auto. }
    specialize (Gen (zrange_up 0 (len cov - 1)) (-1, -1)).
    destruct (fold_left _ (zrange_up 0 (len cov - 1)) (-1, -1)) as (bi, bl).
    apply Gen.
    - intros i Hi. unfold zrange_up in Hi. apply in_map_iff in Hi. destruct Hi as (k & <- & Hk).
      apply in_seq in Hk. lia.
    - left. reflexivity.
  Qed.

  Lemma greedy_ginv : forall cov0 fuel cov, ginv cov0 cov -> ginv cov0 (greedy_merge cv fuel cov).
  Proof using Hwf.
    intros cov0. induction fuel as [|fuel IH]; intros cov G; cbn [greedy_merge]; [exact G|].
    destruct (len cov >? maxCells cv); [|exact G].
    pose proof (best_pair_spec cov ltac:(destruct G; assumption)) as Hbp.
    destruct (best_pair cv cov) as (bi, bl).
    destruct (Z.ltb_spec bl (minLevel cv)) as [Hlt|Hge]; [exact G|].
    destruct Hbp as [->|(Hbi & l & L & Vb & Hl & ->)]; [destruct Hwf; lia|].
    destruct (adjustLevel_spec cv Hwf l ltac:(destruct Vb; lia)) as (Hal & Hmodl).
    set (bl := adjustLevel cv l) in *.
    assert (Vid : valid_at (s2_CellID_Parent (nthZ cov bi 0) bl) bl) by (apply (parent_valid _ L); [exact Vb|lia]).
    assert (Gid : cv_good cv (s2_CellID_Parent (nthZ cov bi 0) bl)).
    { destruct G as (_ & _ & _ & Lv). rewrite Forall_forall in Lv. specialize (Lv _ (nthZ_in cov bi Hbi)).
      unfold cv_good, good_level in *. rewrite (level_spec _ _ Vb) in Lv. rewrite (level_spec _ _ Vid).
      split; [lia|apply Hmodl; lia]. }
    apply IH. apply merge_up_ginv; [eapply replace_ginv; eauto|exact Vid|exact Gid].
  Qed.
End Replace.

(* ---------------------------------------------------------------------- *)
(** * normalizeCovering and FastCovering *)
(** the three preparatory stages of normalizeCovering *)
Definition nc_cov3 (cv : coverer) (covering : list Z) : list Z :=
  let cov1 := if (maxLevel cv <? 30) || (levelMod cv >? 1) then
                map (fun ci => let level := s2_CellID_Level ci in
                               let newLevel := adjustLevel cv (s2_minInt level [maxLevel cv]) in
                               if negb (newLevel =? level) then s2_CellID_Parent ci newLevel else ci) covering
              else covering in
  let cov2 := cu_Normalize cov1 in
  if (minLevel cv >? 0) || (levelMod cv >? 1) then cu_Denormalize (minLevel cv) (levelMod cv) cov2 else cov2.

Lemma normalizeCovering_unfold : forall fallback cv l,
  normalizeCovering fallback cv l =
  let cov3 := nc_cov3 cv l in
  if (len cov3 - maxCells cv <=? 0) || isCanonical cv cov3 then Some cov3
  else if (len cov3 - maxCells cv) * len cov3 >? 10000 then fallback cv cov3
  else Some (greedy_merge cv (length cov3) cov3).
Proof. reflexivity. Qed.

Lemma nc_cov3_spec : forall cv l, wf_cv cv -> all_valid l ->
  all_valid (nc_cov3 cv l) /\ normal (nc_cov3 cv l) /\
  (forall x, is_leaf x -> covered l x -> covered (nc_cov3 cv l) x) /\ Forall (cv_good cv) (nc_cov3 cv l).
Proof.
  intros cv l Hwf Vl. pose proof Hwf as (Hmin & Hmax & Hmod).
  set (M := Z.max (minLevel cv) (maxLevel cv)).
  unfold nc_cov3.
  set (f := fun ci => let level := s2_CellID_Level ci in
                      let newLevel := adjustLevel cv (s2_minInt level [maxLevel cv]) in
                      if negb (newLevel =? level) then s2_CellID_Parent ci newLevel else ci).
  set (cov1 := if (maxLevel cv <? 30) || (levelMod cv >? 1) then map f l else l).
  set (upok := fun c : Z => exists G, good_level (minLevel cv) (levelMod cv) M G /\ s2_CellID_Level c <= G).
  assert (H1 : all_valid cov1 /\ (forall x, covered l x -> covered cov1 x) /\
               Forall upok cov1 /\ (forall o, In o cov1 -> s2_CellID_Level o <= maxLevel cv)).
  { assert (Hf : forall ci, valid ci -> valid (f ci) /\ cell_sub ci (f ci) /\
                   s2_CellID_Level (f ci) <= maxLevel cv /\
                   (minLevel cv <= s2_CellID_Level (f ci) -> (s2_CellID_Level (f ci) - minLevel cv) mod levelMod cv = 0)).
    { intros ci (L & Vci). unfold f. cbv zeta. rewrite (level_spec _ _ Vci), minInt1.
      destruct (adjustLevel_spec cv Hwf (Z.min L (maxLevel cv)) ltac:(destruct Vci; lia)) as (Ha & Hm).
      set (nl := adjustLevel cv (Z.min L (maxLevel cv))) in *.
      destruct (lift_spec ci L nl Vci ltac:(lia)) as (Vlift & Slift). unfold lift in *. rewrite (level_spec _ _ Vci) in *.
      split; [eexists; exact Vlift|]. split; [exact Slift|]. rewrite (level_spec _ _ Vlift). split; [lia|exact Hm]. }
    assert (Hup : forall c, valid c -> s2_CellID_Level c <= maxLevel cv ->
                   (minLevel cv <= s2_CellID_Level c -> (s2_CellID_Level c - minLevel cv) mod levelMod cv = 0) -> upok c).
    { intros c (L & Vc) Hle Hm. rewrite (level_spec _ _ Vc) in *. unfold upok. rewrite (level_spec _ _ Vc).
      destruct (Z.le_gt_cases (minLevel cv) L) as [Hge|Hlt].
      - exists L. unfold good_level. split; [split; [unfold M; lia|auto]|lia].
      - exists (minLevel cv). unfold good_level. split; [split; [unfold M; lia|]|lia]. rewrite Z.sub_diag. apply Z.mod_0_l. lia. }
    unfold cov1. destruct ((maxLevel cv <? 30) || (levelMod cv >? 1)) eqn:Ecut.
    - unfold all_valid in *. rewrite Forall_forall in Vl. split; [|split; [|split]].
      + apply Forall_forall. intros o Ho. apply in_map_iff in Ho. destruct Ho as (ci & <- & Hci). apply Hf, Vl, Hci.
      + intros x (c & Hc & Hx). exists (f c). split; [apply in_map; exact Hc|]. eapply cell_sub_leaf; [exact Hx|apply Hf, Vl, Hc].
      + apply Forall_forall. intros o Ho. apply in_map_iff in Ho. destruct Ho as (ci & <- & Hci).
        destruct (Hf ci (Vl ci Hci)) as (V & _ & Hle & Hm). apply Hup; assumption.
      + intros o Ho. apply in_map_iff in Ho. destruct Ho as (ci & <- & Hci). apply Hf, Vl, Hci.
    - assert (maxLevel cv = 30 /\ levelMod cv = 1) as (E30 & E1) by lia.
      unfold all_valid in *. rewrite Forall_forall in Vl. split; [apply Forall_forall; exact Vl|]. split; [auto|]. split.
      + apply Forall_forall. intros c Hc. destruct (Vl c Hc) as (L & Vc). apply Hup; [eexists; exact Vc| |].
        * rewrite (level_spec _ _ Vc). destruct Vc; lia.
        * intros _. rewrite E1. apply Z.mod_1_r.
      + intros o Ho. destruct (Vl o Ho) as (L & Vc). rewrite (level_spec _ _ Vc). destruct Vc; lia. }
  clearbody cov1. destruct H1 as (V1 & C1 & U1 & Lv1).
  set (cov2 := cu_Normalize cov1).
  pose proof (normalize_valid cov1 V1) as V2. pose proof (normalize_normal cov1 V1) as N2.
  assert (C2 : forall x, covered l x -> covered cov2 x) by (intros x Hx; apply normalize_covers; auto).
  assert (U2 : Forall upok cov2).
  { apply Forall_forall. intros o Ho. destruct (normalize_level cov1 V1 o Ho) as (c & Hc & _ & Hlev).
    rewrite Forall_forall in U1. destruct (U1 c Hc) as (G & HG & HcG). exists G. split; [exact HG|lia]. }
  assert (Lv2 : forall o, In o cov2 -> s2_CellID_Level o <= maxLevel cv).
  { intros o Ho. destruct (normalize_level cov1 V1 o Ho) as (c & Hc & _ & Hlev). specialize (Lv1 c Hc). lia. }
  fold cov2 in V2, N2. clearbody cov2.
  destruct ((minLevel cv >? 0) || (levelMod cv >? 1)) eqn:Eden.
  - split; [exact (denormalize_valid _ _ cov2 Hmin Hmod V2)|]. split; [exact (denormalize_normal _ _ cov2 Hmin Hmod V2 N2)|]. split.
    + intros x Hx Hc. apply (denormalize_covers _ _ cov2 Hmin Hmod V2 x Hx). apply C2. exact Hc.
    + apply Forall_forall. intros o Ho. destruct (denormalize_level _ _ cov2 Hmin Hmod V2 o Ho) as (c & Hc & _ & Hlev).
      unfold cv_good. rewrite Hlev. unfold all_valid in V2. rewrite Forall_forall in V2, U2. destruct (V2 c Hc) as (L & Vc).
      rewrite (level_spec _ _ Vc). fold M.
      apply denorm_level_good; auto; [destruct Vc; lia|unfold M; lia|].
      destruct (U2 c Hc) as (G & HG & HcG). rewrite (level_spec _ _ Vc) in HcG. exists G; auto.
  - assert (minLevel cv = 0 /\ levelMod cv = 1) as (E0 & E1) by lia.
    split; [exact V2|]. split; [exact N2|]. split; [auto|].
    apply Forall_forall. intros o Ho. specialize (Lv2 o Ho). unfold cv_good, good_level. fold M.
    unfold all_valid in V2. rewrite Forall_forall in V2. destruct (V2 o Ho) as (L & Vo). rewrite (level_spec _ _ Vo) in *.
    split; [destruct Vo; unfold M; lia|]. rewrite E1. apply Z.mod_1_r.
Qed.

(** partial correctness of normalizeCovering *)
Lemma normalizeCovering_sound : forall fallback cv l r, wf_cv cv -> FallbackSound fallback -> all_valid l ->
  normalizeCovering fallback cv l = Some r -> fb_post cv l r.
Proof.
  intros fallback cv l r Hwf HFS Vl Hr. rewrite normalizeCovering_unfold in Hr. cbv zeta in Hr.
  destruct (nc_cov3_spec cv l Hwf Vl) as (V3 & N3 & C3 & G3).
  set (cov3 := nc_cov3 cv l) in *.
  destruct ((len cov3 - maxCells cv <=? 0) || isCanonical cv cov3).
  - injection Hr as <-. split; [exact V3|]. split; [exact C3|exact G3].
  - destruct ((len cov3 - maxCells cv) * len cov3 >? 10000).
    + destruct (HFS cv cov3 r Hwf V3 N3 Hr) as (Vr & Cr & Gr).
      split; [exact Vr|]. split; [|exact Gr]. intros x Hx Hc. apply Cr; auto.
    + injection Hr as <-.
      destruct (greedy_ginv cv Hwf cov3 (length cov3) cov3) as (Vg & _ & Cg & Lg).
      { split; [exact V3|]. split; [apply normal_sorted; assumption|]. split; auto. }
      split; [exact Vg|]. split; [intros x Hx Hc; apply Cg, C3; auto|exact Lg].
Qed.

Lemma normalizeCovering_total : forall fallback cv l, wf_cv cv -> FallbackTotal fallback -> all_valid l ->
  exists r, normalizeCovering fallback cv l = Some r.
Proof.
  intros fallback cv l Hwf HFT Vl. rewrite normalizeCovering_unfold. cbv zeta.
  destruct (nc_cov3_spec cv l Hwf Vl) as (V3 & N3 & _).
  set (cov3 := nc_cov3 cv l) in *.
  destruct ((len cov3 - maxCells cv <=? 0) || isCanonical cv cov3); [eexists; reflexivity|].
  destruct ((len cov3 - maxCells cv) * len cov3 >? 10000); [apply HFT; assumption|eexists; reflexivity].
Qed.

Lemma newCoverer_wf0 : forall rc b, wf_cv (newCoverer rc b).
Proof.
  intros rc b. unfold wf_cv, newCoverer. cbn [minLevel maxLevel levelMod].
  unfold clampMinLevel, clampMaxLevel, clampLevelMod. rewrite !minInt1, !maxInt1. lia.
Qed.

Lemma FastCovering_sound : forall bound fallback rc r, FallbackSound fallback -> all_valid bound ->
  FastCovering bound fallback rc = Some r -> fb_post (newCoverer rc false) bound r.
Proof.
  intros bound fallback rc r HFS Vb Hr. unfold FastCovering in Hr.
  eapply normalizeCovering_sound; eauto. apply newCoverer_wf0.
Qed.
Lemma FastCovering_total : forall bound fallback rc, FallbackTotal fallback -> all_valid bound ->
  exists r, FastCovering bound fallback rc = Some r.
Proof.
  intros bound fallback rc HFT Vb. unfold FastCovering. apply normalizeCovering_total; auto. apply newCoverer_wf0.
Qed.
