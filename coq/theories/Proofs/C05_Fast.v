(** C05 — normalizeCovering / FastCovering / adjustCellLevels of Model/Coverer.v. *)
From Coq Require Import ZArith List Bool Lia Sorting.Sorted Sorting.Permutation.
From Coq Require Import ZifyBool.
From Geo Require Import Base.GoPrim Gen.CellIDCov Model.Coverer.
From Geo Require Import Proofs.C05_CellFacts Proofs.C05_CellUnion Proofs.C05_Coverer.
Import ListNotations.
Local Open Scope Z_scope.

Lemma minInt1 : forall x y, s2_minInt x [y] = Z.min x y.
Proof. intros. unfold s2_minInt. cbn. destruct (Z.ltb_spec y x); lia. Qed.
Lemma maxInt1 : forall x y, s2_maxInt x [y] = Z.max x y.
Proof. intros. unfold s2_maxInt. cbn. destruct (Z.ltb_spec x y); lia. Qed.

(** What the theorems need of normalizeCovering's "very large covering" branch
    ([NewRegionCoverer().Covering(&covering)]): it returns valid cells that cover its argument and
    are not deeper than the deepest cell of the argument. *)
Definition FallbackOK (fallback : list Z -> option (list Z)) : Prop :=
  forall l, all_valid l -> exists r, fallback l = Some r /\ all_valid r /\
    (forall x, is_leaf x -> covered l x -> covered r x) /\
    (forall o, In o r -> exists c, In c l /\ s2_CellID_Level o <= s2_CellID_Level c).

Lemma adjustCellLevels_spec : forall cv, wf_cv cv -> forall cells, all_valid cells ->
  (forall o, In o cells -> s2_CellID_Level o <= Z.max (maxLevel cv) (minLevel cv)) ->
  all_valid (adjustCellLevels cv cells) /\
  (forall x, is_leaf x -> covered cells x -> covered (adjustCellLevels cv cells) x) /\
  Forall (fun c => forall L, valid_at c L -> lvl_ok cv L) (adjustCellLevels cv cells).
Admitted.

Lemma FastCovering_spec : forall bound fallback rc, FallbackOK fallback -> all_valid bound ->
  exists r, FastCovering bound fallback rc = Some r /\ all_valid r /\
    (forall x, is_leaf x -> covered bound x -> covered r x) /\
    (forall o, In o r -> s2_CellID_Level o <= Z.max (minLevel (newCoverer rc false)) (maxLevel (newCoverer rc false))).
Admitted.
