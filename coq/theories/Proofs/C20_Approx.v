(** C20 — proofs about the models of Model/Approx.v and the translated functions of Gen/Approx.v. *)
From Coq Require Import ZArith Reals Floats Lra Lia Bool List Sorted.
From Flocq Require Import Core.Core IEEE754.BinarySingleNaN IEEE754.PrimFloat.
From Geo Require Import Base.GoPrim Base.F64 Gen.Approx Model.Approx.
From Geo Require Import Gen.CellIDFull.  (* s2_xyzToFaceUV *)
Import ListNotations.

(** * 1. Go's [==] on points: symmetric and transitive where it holds *)

Lemma feqb_true_nonnan x y : PrimFloat.eqb x y = true -> nonnan x /\ nonnan y.
Proof.
  unfold nonnan. rewrite !go_isnan_equiv, eqb_equiv. intros H.
  destruct (Prim2B x) as [sx|sx| |sx mx ex Hx]; destruct (Prim2B y) as [sy|sy| |sy my ey Hy];
    try discriminate H; split; reflexivity.
Qed.

Lemma fleb_true_nonnan x y : PrimFloat.leb x y = true -> nonnan x /\ nonnan y.
Proof.
  unfold nonnan. rewrite !go_isnan_equiv, leb_equiv. intros H.
  destruct (Prim2B x) as [sx|sx| |sx mx ex Hx]; destruct (Prim2B y) as [sy|sy| |sy my ey Hy];
    try discriminate H; split; reflexivity.
Qed.

Lemma feqb_sym x y : PrimFloat.eqb x y = true -> PrimFloat.eqb y x = true.
Proof.
  intros H. destruct (feqb_true_nonnan _ _ H) as [Hx Hy].
  apply (eqb_true_iff y x Hy Hx). apply (eqb_true_iff x y Hx Hy) in H. lra.
Qed.

Lemma feqb_trans x y z : PrimFloat.eqb x y = true -> PrimFloat.eqb y z = true -> PrimFloat.eqb x z = true.
Proof.
  intros H1 H2. destruct (feqb_true_nonnan _ _ H1) as [Hx Hy]. destruct (feqb_true_nonnan _ _ H2) as [_ Hz].
  apply (eqb_true_iff x z Hx Hz). apply (eqb_true_iff x y Hx Hy) in H1. apply (eqb_true_iff y z Hy Hz) in H2. lra.
Qed.

Lemma pt_eqb_split a b : s2_Point_eqb a b = true <->
  PrimFloat.eqb (r3_Vector_X (s2_Point_Vector a)) (r3_Vector_X (s2_Point_Vector b)) = true /\
  PrimFloat.eqb (r3_Vector_Y (s2_Point_Vector a)) (r3_Vector_Y (s2_Point_Vector b)) = true /\
  PrimFloat.eqb (r3_Vector_Z (s2_Point_Vector a)) (r3_Vector_Z (s2_Point_Vector b)) = true.
Proof.
  unfold s2_Point_eqb, r3_Vector_eqb. rewrite !andb_true_iff. tauto.
Qed.

Lemma pt_eqb_sym a b : s2_Point_eqb a b = true -> s2_Point_eqb b a = true.
Proof. rewrite !pt_eqb_split. intros (H1 & H2 & H3). auto using feqb_sym. Qed.

Lemma pt_eqb_trans a b c : s2_Point_eqb a b = true -> s2_Point_eqb b c = true -> s2_Point_eqb a c = true.
Proof. rewrite !pt_eqb_split. intros (H1 & H2 & H3) (K1 & K2 & K3). repeat split; eapply feqb_trans; eassumption. Qed.

(** "same vertex" as Go sees it, made reflexive (a point with a NaN coordinate is not [==] to itself) *)
Definition same_vertex (v w : s2_Point) : Prop := v = w \/ s2_Point_eqb v w = true.

Lemma same_vertex_refl v : same_vertex v v. Proof. left; reflexivity. Qed.
Lemma same_vertex_sym v w : same_vertex v w -> same_vertex w v.
Proof. intros [->|H]; [left; reflexivity | right; apply pt_eqb_sym, H]. Qed.
Lemma same_vertex_trans u v w : same_vertex u v -> same_vertex v w -> same_vertex u w.
Proof. intros [->|H1] [<-|H2]; try (left; reflexivity); try (right; assumption). right; eapply pt_eqb_trans; eauto. Qed.
Lemma differs_transport x v w : same_vertex v w -> s2_Point_eqb x w = false -> s2_Point_eqb x v = false.
Proof.
  intros [->|H] Hx; [assumption|]. destruct (s2_Point_eqb x v) eqn:E; [|reflexivity].
  rewrite (pt_eqb_trans _ _ _ E H) in Hx. discriminate.
Qed.

(** * 2. SubsampleVertices: shape of the result for any end-vertex function that makes progress *)

Definition fe_ok (fe : Z -> Z) (n : Z) : Prop := forall i, (0 <= i)%Z -> (i + 1 < n)%Z -> (i < fe i <= n - 1)%Z.

Section Subsample.
Variable p : list s2_Point.
Let n := Z.of_nat (length p).

(** no emitted vertex is [==] to the previously emitted one; [v] is the previously emitted vertex *)
Fixpoint adj_distinct (v : s2_Point) (r : list Z) : Prop :=
  match r with
  | [] => True
  | x :: r' => s2_Point_eqb (nthp p x) v = false /\ adj_distinct (nthp p x) r'
  end.
(** the last emitted vertex, [v] if nothing more was emitted *)
Definition last_vertex (v : s2_Point) (r : list Z) : s2_Point :=
  match r with [] => v | _ => nthp p (last r 0%Z) end.

Lemma subsample_loop_spec fe : fe_ok fe n ->
  forall fuel index, (0 <= index < n)%Z -> (n - 1 - index <= Z.of_nat fuel)%Z ->
  exists r, subsample_loop fe p n fuel index = Some r /\
    StronglySorted Z.lt r /\ Forall (fun x => index < x <= n - 1)%Z r /\
    forall v, same_vertex v (nthp p index) ->
      adj_distinct v r /\ same_vertex (last_vertex v r) (nthp p (n - 1)).
Proof.
  intros Hfe. induction fuel as [|f IH]; intros index Hi Hf.
  - assert (index = n - 1)%Z by lia. subst index. simpl.
    replace (n - 1 + 1 <? n)%Z with false by (symmetry; apply Z.ltb_ge; lia).
    exists []. split; [reflexivity|]. split; [constructor|]. split; [constructor|].
    intros v Hv. split; [exact I|exact Hv].
  - simpl. destruct (index + 1 <? n)%Z eqn:E.
    + apply Z.ltb_lt in E. pose proof (Hfe index ltac:(lia) E) as Hn.
      destruct (IH (fe index) ltac:(lia) ltac:(lia)) as (r' & Er & Hs & Hall & Hv). rewrite Er.
      assert (Hall' : Forall (fun x => index < x <= n - 1)%Z r').
      { eapply Forall_impl; [|exact Hall]. simpl. intros; lia. }
      destruct (s2_Point_eqb (nthp p (fe index)) (nthp p index)) eqn:Eq; simpl.
      * exists r'. split; [reflexivity|]. split; [assumption|]. split; [assumption|].
        intros v Hsv. apply Hv. eapply same_vertex_trans; [exact Hsv|]. right. apply pt_eqb_sym, Eq.
      * exists (fe index :: r'). split; [reflexivity|]. split; [|split].
        -- constructor; [assumption|]. eapply Forall_impl; [|exact Hall]. simpl. intros; lia.
        -- constructor; [lia|assumption].
        -- intros v Hsv. destruct (Hv (nthp p (fe index)) (same_vertex_refl _)) as [Ha Hl]. split.
           ++ simpl. split; [|assumption]. eapply differs_transport; eauto.
           ++ unfold last_vertex in *. destruct r' as [|y r'']; [exact Hl|]. exact Hl.
    + apply Z.ltb_ge in E. assert (index = n - 1)%Z by lia. subst index.
      exists []. split; [reflexivity|]. split; [constructor|]. split; [constructor|].
      intros v Hv. split; [exact I|exact Hv].
Qed.

(** the property's sentence about SubsampleVertices, for every tolerance (it only enters through [fe]) *)
Definition subsample_shape_of (res : option (list Z)) : Prop :=
  (n = 0%Z -> res = Some []) /\
  ((1 <= n)%Z -> exists r, res = Some (0 :: r)%Z /\
           StronglySorted Z.lt (0 :: r)%Z /\ Forall (fun x => 0 <= x <= n - 1)%Z (0 :: r)%Z /\
           adj_distinct (nthp p 0) r /\ same_vertex (last_vertex (nthp p 0) r) (nthp p (n - 1))).

Lemma subsample_with_shape fe : fe_ok fe n -> subsample_shape_of (subsample_with fe p).
Proof.
  intros Hfe. unfold subsample_shape_of, subsample_with. fold n. split.
  - intros Hn. replace (n <? 1)%Z with true by (symmetry; apply Z.ltb_lt; lia). reflexivity.
  - intros Hn. replace (n <? 1)%Z with false by (symmetry; apply Z.ltb_ge; lia).
    destruct (subsample_loop_spec fe Hfe (length p) 0%Z ltac:(lia) ltac:(fold n; lia)) as (r & Er & Hs & Hall & Hv).
    rewrite Er. exists r. split; [reflexivity|].
    destruct (Hv (nthp p 0) (same_vertex_refl _)) as [Ha Hl].
    split; [|split; [|split; assumption]].
    + constructor; [assumption|]. eapply Forall_impl; [|exact Hall]. simpl. intros; lia.
    + constructor; [lia|]. eapply Forall_impl; [|exact Hall]. simpl. intros; lia.
Qed.
End Subsample.

(** * 3. findEndVertex: range and progress *)

Lemma fev_count_range step : forall cands st, (0 <= fev_count step st cands <= Z.of_nat (length cands))%Z.
Proof.
  induction cands as [|c r IH]; intros st; [simpl; lia|].
  change (length (c :: r)) with (S (length r)). rewrite Nat2Z.inj_succ. cbn [fev_count].
  destruct (step st c) as [st'|]; [specialize (IH st')|]; lia.
Qed.

Lemma find_end_vertex_range p tol index : (0 <= index < Z.of_nat (length p))%Z ->
  (index <= findEndVertex p tol index <= Z.of_nat (length p) - 1)%Z.
Proof.
  intros Hi. unfold findEndVertex.
  match goal with |- context [fev_count ?s ?st ?l] => pose proof (fev_count_range s l st) as H end.
  rewrite skipn_length in H. lia.
Qed.

(** the first candidate is not rejected (it never is for a vertex without NaN coordinates: the wedge is
    still the full circle and atan2 of non-NaN arguments lies in [-pi, pi]) *)
Definition first_ok (p : list s2_Point) (tol : PrimFloat.float) (index : Z) : bool :=
  match skipn (Z.to_nat (index + 1)) p with
  | [] => true
  | c :: _ =>
    let origin := nthp p index in
    match fev_step tol origin (frame_col0 origin) (frame_col1 origin) (s1_FullInterval, 0%float) c with
    | Some _ => true
    | None => false
    end
  end.

Lemma find_end_vertex_progress p tol index : (0 <= index)%Z -> (index + 1 < Z.of_nat (length p))%Z ->
  first_ok p tol index = true -> (index < findEndVertex p tol index)%Z.
Proof.
  intros H0 Hi Hok. unfold findEndVertex, first_ok in *.
  destruct (skipn (Z.to_nat (index + 1)) p) as [|c r] eqn:Es.
  - apply (f_equal (@length _)) in Es. rewrite skipn_length in Es. simpl in Es. lia.
  - cbv zeta in Hok. cbn [fev_count].
    set (step := fev_step tol (nthp p index) (frame_col0 (nthp p index)) (frame_col1 (nthp p index))) in *.
    destruct (step (s1_FullInterval, 0%float) c) as [st'|]; [|discriminate].
    pose proof (fev_count_range step r st'). lia.
Qed.

Lemma find_end_vertex_fe_ok p tol : (forall i, first_ok p tol i = true) ->
  fe_ok (findEndVertex p tol) (Z.of_nat (length p)).
Proof.
  intros Hok i H0 Hi. pose proof (find_end_vertex_range p tol i ltac:(lia)).
  pose proof (find_end_vertex_progress p tol i H0 Hi (Hok i)). lia.
Qed.

Theorem subsample_shape p tolerance : (forall i, first_ok p (clampedTolerance tolerance) i = true) ->
  subsample_shape_of p (SubsampleVertices p tolerance).
Proof. intros H. apply subsample_with_shape, find_end_vertex_fe_ok, H. Qed.

(** tolerance clamped at 0: a non-positive tolerance behaves exactly like tolerance 0 *)
Lemma clamped_tolerance_nonneg tol : nonnan tol ->
  nonnan (clampedTolerance tol) /\ rank (clampedTolerance tol) = Rmax (rank tol) 0.
Proof.
  intros H. unfold clampedTolerance, s1_Angle_Radians.
  destruct (go_fmax_rank tol 0%float H ltac:(reflexivity)) as [A B]. split; [exact A|].
  rewrite B. f_equal.
Qed.

(** a polyline with a NaN vertex makes no progress: the Go loop would not terminate; the model says OutOfFuel *)
Definition nan_pt : s2_Point := mk_s2_Point (mk_r3_Vector nan 0 0).
Definition pt100 : s2_Point := mk_s2_Point (mk_r3_Vector 1 0 0).
Lemma subsample_nan_vertex_no_progress : SubsampleVertices [pt100; nan_pt; pt100] (0x1p-10)%float = None.
Proof. vm_compute. reflexivity. Qed.
Example first_ok_satisfiable :
  forallb (first_ok [pt100; mk_s2_Point (mk_r3_Vector 0 1 0); mk_s2_Point (mk_r3_Vector 0 0 1)] (0x1p-10)%float)
          [0; 1; 2; 3]%Z = true.
Proof. vm_compute. reflexivity. Qed.

(** * 4. wrapDestination *)

Lemma wrap_coord_off w a x : PrimFloat.ltb 0 w = false -> wrap_coord w a x = x.
Proof. intros H. unfold wrap_coord. rewrite H. reflexivity. Qed.

Lemma wrap_destination_off a b : wrapDestination (mk_r2_Point 0 0) a b = b.
Proof. destruct b. unfold wrapDestination. simpl. rewrite !wrap_coord_off by reflexivity. reflexivity. Qed.

(** each coordinate is either untouched (already within half a wrap) or a + Remainder(x - a, w) *)
Lemma wrap_coord_cases w a x :
  (wrap_coord w a x = x /\ (PrimFloat.ltb 0 w = false \/ PrimFloat.ltb (PrimFloat.mul (0x1p-1)%float w) (PrimFloat.abs (PrimFloat.sub x a)) = false)) \/
  (wrap_coord w a x = PrimFloat.add a (go_remainder (PrimFloat.sub x a) w) /\
   PrimFloat.ltb 0 w = true /\ PrimFloat.ltb (PrimFloat.mul (0x1p-1)%float w) (PrimFloat.abs (PrimFloat.sub x a)) = true).
Proof.
  unfold wrap_coord. destruct (PrimFloat.ltb 0 w); simpl; [|left; auto].
  destruct (PrimFloat.ltb _ (PrimFloat.abs _)); [right|left]; auto.
Qed.

(** the exact integer core of math.Remainder (its two finite operands on a common exponent):
    the result is congruent to the dividend and at most half the divisor in magnitude *)
Lemma round_half_even_core X Y : (0 < Y)%Z ->
  let R := (X - round_half_even X Y * Y)%Z in
  ((X - R) mod Y = 0 /\ 2 * Z.abs R <= Y)%Z.
Proof.
  intros HY. unfold round_half_even. cbv zeta.
  pose proof (Z.div_mod X Y ltac:(lia)) as Hd. pose proof (Z.mod_pos_bound X Y HY) as Hm.
  set (f := (X / Y)%Z) in *. set (m := (X mod Y)%Z) in *.
  assert (Hr : (X - f * Y = m)%Z) by lia. rewrite Hr.
  destruct (2 * m <? Y)%Z eqn:E1; [apply Z.ltb_lt in E1|apply Z.ltb_ge in E1].
  - split; [|lia]. replace (X - (X - f * Y))%Z with (f * Y)%Z by lia. apply Z_mod_mult.
  - destruct (Y <? 2 * m)%Z eqn:E2; [apply Z.ltb_lt in E2|apply Z.ltb_ge in E2].
    + split; [|lia]. replace (X - (X - (f + 1) * Y))%Z with ((f + 1) * Y)%Z by lia. apply Z_mod_mult.
    + destruct (Z.even f).
      * split; [|lia]. replace (X - (X - f * Y))%Z with (f * Y)%Z by lia. apply Z_mod_mult.
      * split; [|lia]. replace (X - (X - (f + 1) * Y))%Z with ((f + 1) * Y)%Z by lia. apply Z_mod_mult.
Qed.

(** * 5. Snapping *)

Lemma center_siti_grid level i : (0 <= level <= 30)%Z ->
  let k := (30 - level)%Z in
  let si := center_siti level i in
  (si mod 2 ^ (k + 1) = 2 ^ k /\ si - 2 ^ k <= 2 * i < si + 2 ^ k)%Z.
Proof.
  intros Hl k si. unfold si, center_siti. fold k.
  assert (Hk : (0 <= k)%Z) by (unfold k; lia).
  rewrite Z.shiftr_div_pow2, Z.shiftl_mul_pow2 by assumption.
  assert (HP : (0 < 2 ^ k)%Z) by (apply Z.pow_pos_nonneg; lia).
  rewrite Z.pow_add_r, Z.pow_1_r by lia. set (P := (2 ^ k)%Z) in *.
  pose proof (Z.div_mod i P ltac:(lia)) as Hd. pose proof (Z.mod_pos_bound i P HP) as Hm.
  split.
  - replace (2 * (i / P * P) + P)%Z with (P + (i / P) * (P * 2))%Z by ring.
    rewrite Z_mod_plus_full. apply Z.mod_small. lia.
  - replace (i / P * P)%Z with (P * (i / P))%Z by ring. lia.
Qed.

(** CellIDSnapper.SnapPoint lands on the centre grid of its level, in the cell containing the input's leaf *)
Theorem cellid_snap_on_grid level p : (0 <= level <= 30)%Z ->
  exists f u v si ti,
    s2_xyzToFaceUV (s2_Point_Vector p) = (f, u, v) /\
    cellid_snap level p =
      mk_s2_Point (r3_Vector_Normalize (s2_faceUVToXYZ f
        (s2_stToUV (PrimFloat.mul (0x1p-31)%float (float_of_Z si)))
        (s2_stToUV (PrimFloat.mul (0x1p-31)%float (float_of_Z ti))))) /\
    (si mod 2 ^ (31 - level) = 2 ^ (30 - level) /\ ti mod 2 ^ (31 - level) = 2 ^ (30 - level) /\
     si - 2 ^ (30 - level) <= 2 * s2_stToIJ (s2_uvToST u) < si + 2 ^ (30 - level) /\
     ti - 2 ^ (30 - level) <= 2 * s2_stToIJ (s2_uvToST v) < ti + 2 ^ (30 - level))%Z.
Proof.
  intros Hl. unfold cellid_snap. destruct (s2_xyzToFaceUV (s2_Point_Vector p)) as [[f u] v].
  exists f, u, v, (center_siti level (s2_stToIJ (s2_uvToST u))), (center_siti level (s2_stToIJ (s2_uvToST v))).
  split; [reflexivity|]. split; [reflexivity|].
  destruct (center_siti_grid level (s2_stToIJ (s2_uvToST u)) Hl) as [A B].
  destruct (center_siti_grid level (s2_stToIJ (s2_uvToST v)) Hl) as [C D].
  replace (31 - level)%Z with (30 - level + 1)%Z by lia. auto.
Qed.

(** math.RoundToEven returns an integer-valued float (carried; attacked bit for bit by [T]) *)
Definition H_RTE_INT : Prop := forall x, go_isnan x = false -> go_isinf x 0 = false ->
  exists k : Z, PrimFloat.eqb (math_RoundToEven x) (float_of_Z k) = true.

Theorem intlatlng_snap_on_grid : H_RTE_INT -> forall sf p,
  let ll := s2_LatLngFromPoint p in
  let slat := PrimFloat.mul (s1_Angle_Degrees (s2_LatLng_Lat ll)) (s2_IntLatLngSnapper_from sf) in
  let slng := PrimFloat.mul (s1_Angle_Degrees (s2_LatLng_Lng ll)) (s2_IntLatLngSnapper_from sf) in
  go_isnan slat = false -> go_isinf slat 0 = false -> go_isnan slng = false -> go_isinf slng 0 = false ->
  exists L G (k m : Z),
    s2_IntLatLngSnapper_SnapPoint sf p =
      s2_PointFromLatLng (s2_LatLngFromDegrees (PrimFloat.mul L (s2_IntLatLngSnapper_to sf)) (PrimFloat.mul G (s2_IntLatLngSnapper_to sf))) /\
    PrimFloat.eqb L (float_of_Z k) = true /\ PrimFloat.eqb G (float_of_Z m) = true.
Proof.
  intros H sf p ll slat slng N1 I1 N2 I2.
  destruct (H slat N1 I1) as [k Hk]. destruct (H slng N2 I2) as [m Hm].
  exists (math_RoundToEven slat), (math_RoundToEven slng), k, m. repeat split; assumption.
Qed.

Example rte_int_instances :
  forallb (fun xk => PrimFloat.eqb (math_RoundToEven (fst xk)) (float_of_Z (snd xk)))
    [((0x1.4p+1)%float, 2%Z); ((0x1.cp+1)%float, 4%Z); ((-0x1p-2)%float, 0%Z); ((0x1.6fc2ecp+36)%float, 98720202752%Z); ((-0x1.8p+0)%float, (-2)%Z)] = true.
Proof. vm_compute. reflexivity. Qed.

(** the constructors: grid unit and its inverse, radius of the default CellIDSnapper *)
Lemma intlatlng_snapper_fields : forallb (fun e =>
    let sf := s2_NewIntLatLngSnapper e in
    fbiteq (s2_IntLatLngSnapper_from sf) (math_Pow10 e) &&
    fbiteq (s2_IntLatLngSnapper_to sf) (PrimFloat.div 1 (math_Pow10 e)) &&
    PrimFloat.eqb (s2_IntLatLngSnapper_from sf) (float_of_Z (10 ^ e)) &&
    PrimFloat.ltb (PrimFloat.mul (0x1.1df46a2529d39p-06)%float (PrimFloat.div (0x1.6a09e667f3bcdp-01)%float (math_Pow10 e)))
                  (s2_IntLatLngSnapper_SnapRadius sf)) (zrange_up 0 11) = true.
Proof. vm_compute. reflexivity. Qed.

Lemma new_cellid_snapper_radius :
  s2_NewCellIDSnapper = s2_CellIDSnapperForLevel 30 /\
  PrimFloat.ltb 0 (s2_CellIDSnapper_SnapRadius s2_NewCellIDSnapper) = true.
Proof. split; [reflexivity | vm_compute; reflexivity]. Qed.

(** every level's radius is strictly above half the maximum cell diagonal (the rounding-error term is present) *)
Lemma cellid_radius_table : forallb (fun l =>
    let sf := s2_CellIDSnapperForLevel l in
    Z.eqb (s2_CellIDSnapper_level sf) l &&
    PrimFloat.ltb (PrimFloat.mul (0x1p-1)%float (s2_Metric_Value s2_MaxDiagMetric l)) (s2_CellIDSnapper_SnapRadius sf) &&
    PrimFloat.leb (PrimFloat.add (PrimFloat.mul (0x1p-1)%float (s2_Metric_Value s2_MaxDiagMetric l)) (0x1p-50)%float) (s2_CellIDSnapper_SnapRadius sf))
  (zrange_up 0 31) = true.
Proof. vm_compute. reflexivity. Qed.

Lemma in_zrange_up lo hi x : (lo <= x < hi)%Z -> In x (zrange_up lo hi).
Proof.
  intros H. unfold zrange_up. apply in_map_iff. exists (Z.to_nat (x - lo)). split; [lia|].
  apply in_seq. lia.
Qed.

Section SnapRadius.
(** [max_move l]: the supremum over the sphere of the distance from a point to the centre of its level-l cell.
    H_SNAP: it is at most half the maximum diagonal as the float metric table states it, plus 4 ulp. *)
Variable max_move : Z -> R.
Definition H_SNAP : Prop := forall l, (0 <= l <= 30)%Z ->
  (max_move l <= rank (PrimFloat.add (PrimFloat.mul (0x1p-1)%float (s2_Metric_Value s2_MaxDiagMetric l)) (0x1p-50)%float))%R.

Theorem cellid_snap_radius_covers : H_SNAP -> forall l, (0 <= l <= 30)%Z ->
  (max_move l <= rank (s2_CellIDSnapper_SnapRadius (s2_CellIDSnapperForLevel l)))%R /\
  s2_CellIDSnapper_SnapRadius (if (l =? 30)%Z then s2_NewCellIDSnapper else s2_CellIDSnapperForLevel l) =
  s2_CellIDSnapper_SnapRadius (s2_CellIDSnapperForLevel l).
Proof.
  intros H l Hl. split.
  - specialize (H l Hl). pose proof cellid_radius_table as T. rewrite forallb_forall in T.
    specialize (T l (in_zrange_up 0 31 l ltac:(lia))). cbv zeta in T.
    apply andb_true_iff in T. destruct T as [_ T].
    destruct (fleb_true_nonnan _ _ T) as [N1 N2].
    apply (leb_true_iff _ _ N1 N2) in T. lra.
  - destruct (l =? 30)%Z eqn:E; [|reflexivity]. apply Z.eqb_eq in E. subst l. reflexivity.
Qed.
End SnapRadius.

(** the unrepaired IntLatLngSnapper.SnapPoint (before 6543c40) leaves the snap radius by far; the repaired one does not *)
Definition pt_04_04 : s2_Point := s2_PointFromLatLng (mk_s2_LatLng (0x1.999999999999ap-2)%float (0x1.999999999999ap-2)%float).
Theorem intlatlng_old_refuted : exists p,
  let sf := s2_NewIntLatLngSnapper 0 in
  PrimFloat.ltb (0x1p-3)%float (s2_ChordAngleBetweenPoints p (intlatlng_snap_old sf p)) = true /\
  PrimFloat.leb (s2_ChordAngleBetweenPoints p (s2_IntLatLngSnapper_SnapPoint sf p))
                (s1_ChordAngleFromAngle (s2_IntLatLngSnapper_SnapRadius sf)) = true /\
  PrimFloat.ltb (s1_ChordAngleFromAngle (s2_IntLatLngSnapper_SnapRadius sf)) (0x1p-12)%float = true.
Proof. exists pt_04_04. vm_compute. repeat split. Qed.

(** * 6. Tessellation *)

Definition seg_passes (P : projection) (thr : PrimFloat.float) (s : seg) : Prop :=
  PrimFloat.leb (estimateMaxError P (seg_pa s) (seg_a s) (seg_pb s) (seg_b s)) thr = true.

(** the geodesic pieces follow one another exactly from [a] to [b] *)
Fixpoint chain_from (a : s2_Point) (l : list seg) (b : s2_Point) : Prop :=
  match l with
  | [] => a = b
  | s :: r => seg_a s = a /\ chain_from (seg_b s) r b
  end.

Lemma chain_from_app a l1 m l2 b : chain_from a l1 m -> chain_from m l2 b -> chain_from a (l1 ++ l2) b.
Proof.
  revert a. induction l1 as [|s r IH]; simpl; intros a H1 H2; [subst; assumption|].
  destruct H1 as [E H1]. split; [assumption|]. apply IH; assumption.
Qed.

Lemma chain_from_last a l b d : chain_from a l b -> l <> [] -> seg_b (last l d) = b.
Proof.
  revert a. induction l as [|s r IH]; intros a H Hn; [congruence|].
  destruct H as [_ H]. destruct r as [|s' r']; [simpl in *; assumption|].
  change (last (s :: s' :: r') d) with (last (s' :: r') d). eapply IH; [exact H|discriminate].
Qed.

Definition leaves_ok (P : projection) (thr : PrimFloat.float) (pa : r2_Point) (a b : s2_Point) (l : list seg) : Prop :=
  l <> [] /\ Forall (seg_passes P thr) l /\ chain_from a l b /\ seg_pa (hd (mk_seg pa a pa a) l) = pa.

Lemma projected_leaves_ok P thr : forall fuel pa a pbIn b l,
  projected_leaves fuel P thr pa a pbIn b = Some l -> leaves_ok P thr pa a b l.
Proof.
  induction fuel as [|f IH]; intros pa a pbIn b l H; [discriminate|]. simpl in H.
  destruct (PrimFloat.leb _ thr) eqn:E.
  - inversion H; subst. unfold leaves_ok. repeat split; try discriminate; try reflexivity.
    constructor; [exact E|constructor].
  - match type of H with match ?x with _ => _ end = _ => destruct x as [l1|] eqn:E1; [|discriminate] end.
    match type of H with match ?x with _ => _ end = _ => destruct x as [l2|] eqn:E2; [|discriminate] end.
    inversion H; subst. destruct (IH _ _ _ _ _ E1) as (N1 & F1 & C1 & P1). destruct (IH _ _ _ _ _ E2) as (N2 & F2 & C2 & P2).
    unfold leaves_ok. repeat split.
    + destruct l1; [congruence|discriminate].
    + apply Forall_app; split; assumption.
    + eapply chain_from_app; eassumption.
    + destruct l1; [congruence|exact P1].
Qed.

Lemma unprojected_leaves_ok P thr : forall fuel pa a pbIn b l,
  unprojected_leaves fuel P thr pa a pbIn b = Some l -> leaves_ok P thr pa a b l.
Proof.
  induction fuel as [|f IH]; intros pa a pbIn b l H; [discriminate|]. simpl in H.
  destruct (PrimFloat.leb _ thr) eqn:E.
  - inversion H; subst. unfold leaves_ok. repeat split; try discriminate; try reflexivity.
    constructor; [exact E|constructor].
  - match type of H with match ?x with _ => _ end = _ => destruct x as [l1|] eqn:E1; [|discriminate] end.
    match type of H with match ?x with _ => _ end = _ => destruct x as [l2|] eqn:E2; [|discriminate] end.
    inversion H; subst. destruct (IH _ _ _ _ _ E1) as (N1 & F1 & C1 & P1). destruct (IH _ _ _ _ _ E2) as (N2 & F2 & C2 & P2).
    unfold leaves_ok. repeat split.
    + destruct l1; [congruence|discriminate].
    + apply Forall_app; split; assumption.
    + eapply chain_from_app; eassumption.
    + destruct l1; [congruence|exact P1].
Qed.

(** more fuel never changes a result that was reached *)
Lemma projected_leaves_fuel_mono P thr : forall f f' pa a pbIn b l, (f <= f')%nat ->
  projected_leaves f P thr pa a pbIn b = Some l -> projected_leaves f' P thr pa a pbIn b = Some l.
Proof.
  induction f as [|f IH]; intros f' pa a pbIn b l Hle H; [discriminate|].
  destruct f' as [|f']; [lia|]. simpl in *. destruct (PrimFloat.leb _ thr); [assumption|].
  match type of H with match ?x with _ => _ end = _ => destruct x as [l1|] eqn:E1; [|discriminate] end.
  match type of H with match ?x with _ => _ end = _ => destruct x as [l2|] eqn:E2; [|discriminate] end.
  rewrite (IH f' _ _ _ _ _ ltac:(lia) E1), (IH f' _ _ _ _ _ ltac:(lia) E2). assumption.
Qed.

Lemma unprojected_leaves_fuel_mono P thr : forall f f' pa a pbIn b l, (f <= f')%nat ->
  unprojected_leaves f P thr pa a pbIn b = Some l -> unprojected_leaves f' P thr pa a pbIn b = Some l.
Proof.
  induction f as [|f IH]; intros f' pa a pbIn b l Hle H; [discriminate|].
  destruct f' as [|f']; [lia|]. simpl in *. destruct (PrimFloat.leb _ thr); [assumption|].
  match type of H with match ?x with _ => _ end = _ => destruct x as [l1|] eqn:E1; [|discriminate] end.
  match type of H with match ?x with _ => _ end = _ => destruct x as [l2|] eqn:E2; [|discriminate] end.
  rewrite (IH f' _ _ _ _ _ ltac:(lia) E1), (IH f' _ _ _ _ _ ltac:(lia) E2). assumption.
Qed.

Lemma last_app_nonempty {A} (l1 l2 : list A) d : l2 <> [] -> last (l1 ++ l2) d = last l2 d.
Proof.
  intros H. induction l1 as [|x r IH]; [reflexivity|]. simpl app.
  destruct (r ++ l2) eqn:E; [destruct r; simpl in E; congruence|]. rewrite <- IH. reflexivity.
Qed.

(** without coordinate wrapping the planar chain ends exactly at the given planar endpoint *)
Lemma projected_leaves_last_pb P thr : proj_wrap P = mk_r2_Point 0 0 ->
  forall fuel pa a pbIn b l d, projected_leaves fuel P thr pa a pbIn b = Some l -> seg_pb (last l d) = pbIn.
Proof.
  intros HW. induction fuel as [|f IH]; intros pa a pbIn b l d H; [discriminate|]. simpl in H.
  rewrite HW, !wrap_destination_off in H. destruct (PrimFloat.leb _ thr).
  - inversion H; subst. reflexivity.
  - match type of H with match ?x with _ => _ end = _ => destruct x as [l1|] eqn:E1; [|discriminate] end.
    match type of H with match ?x with _ => _ end = _ => destruct x as [l2|] eqn:E2; [|discriminate] end.
    inversion H; subst. destruct (projected_leaves_ok _ _ _ _ _ _ _ _ E2) as (N2 & _).
    rewrite last_app_nonempty by assumption. eapply IH; eassumption.
Qed.

Lemma last_map_nonempty {A B} (g : A -> B) l d d' : l <> [] -> last (map g l) d' = g (last l d).
Proof.
  induction l as [|x r IH]; intros H; [congruence|]. destruct r as [|y r']; [reflexivity|].
  change (last (map g (x :: y :: r')) d') with (last (map g (y :: r')) d'). rewrite IH by discriminate. reflexivity.
Qed.

Theorem append_unprojected_shape fuel P thr pa pb vs d :
  AppendUnprojected fuel P thr pa pb [] = Some vs ->
  exists l, unprojected_leaves fuel P thr pa (proj_unproject P pa) pb (proj_unproject P pb) = Some l /\
    vs = proj_unproject P pa :: map seg_b l /\ Forall (seg_passes P thr) l /\
    chain_from (proj_unproject P pa) l (proj_unproject P pb) /\
    hd d vs = proj_unproject P pa /\ last vs d = proj_unproject P pb /\ (2 <= length vs)%nat.
Proof.
  unfold AppendUnprojected. intros H.
  destruct (unprojected_leaves fuel P thr pa _ pb _) as [l|] eqn:E; [|discriminate].
  inversion H; subst. destruct (unprojected_leaves_ok _ _ _ _ _ _ _ _ E) as (N & F & C & _).
  exists l. repeat split; try assumption; try reflexivity.
  - simpl. destruct l as [|s r]; [congruence|].
    change (last (proj_unproject P pa :: map seg_b (s :: r)) d) with (last (map seg_b (s :: r)) d).
    rewrite (last_map_nonempty seg_b (s :: r) s d) by discriminate.
    eapply chain_from_last; [exact C|discriminate].
  - destruct l; [congruence|simpl; lia].
Qed.

Theorem append_projected_shape fuel P thr a b vs d :
  AppendProjected fuel P thr a b [] = Some vs ->
  exists l, projected_leaves fuel P thr (proj_project P a) a (proj_project P b) b = Some l /\
    vs = proj_project P a :: map seg_pb l /\ Forall (seg_passes P thr) l /\ chain_from a l b /\
    hd d vs = proj_project P a /\ (2 <= length vs)%nat /\
    (proj_wrap P = mk_r2_Point 0 0 -> last vs d = proj_project P b).
Proof.
  unfold AppendProjected. intros H.
  destruct (projected_leaves fuel P thr _ a _ b) as [l|] eqn:E; [|discriminate].
  inversion H; subst. destruct (projected_leaves_ok _ _ _ _ _ _ _ _ E) as (N & F & C & _).
  exists l. repeat split; try assumption; try reflexivity.
  - destruct l; [congruence|simpl; lia].
  - intros HW. destruct l as [|s r]; [congruence|].
    change (last (proj_project P a :: map seg_pb (s :: r)) d) with (last (map seg_pb (s :: r)) d).
    rewrite (last_map_nonempty seg_pb (s :: r) s d) by discriminate.
    eapply projected_leaves_last_pb; eassumption.
Qed.

Section TessTolerance.
(** [dev P s]: the true maximum distance (radians, on the sphere) between the planar segment of [s],
    mapped back to the sphere, and its geodesic. H_TESS: a segment whose two-point estimate is at most
    the threshold deviates by at most [tol]. H_TESS_TERM: the recursion bottoms out within the fuel. *)
Variable dev : projection -> seg -> R.
Variable P : projection.
Variable thr : PrimFloat.float.
Variable tol : R.
Variable fuel : nat.
Definition H_TESS : Prop := forall s, seg_passes P thr s -> (dev P s <= tol)%R.
Definition H_TESS_TERM : Prop := forall pa a pb b,
  projected_leaves fuel P thr pa a pb b <> None /\ unprojected_leaves fuel P thr pa a pb b <> None.

Theorem tessellation_within_tolerance : H_TESS -> H_TESS_TERM ->
  (forall a b, exists vs l, AppendProjected fuel P thr a b [] = Some vs /\
      vs = proj_project P a :: map seg_pb l /\ chain_from a l b /\ Forall (fun s => (dev P s <= tol)%R) l) /\
  (forall pa pb, exists vs l, AppendUnprojected fuel P thr pa pb [] = Some vs /\
      vs = proj_unproject P pa :: map seg_b l /\ chain_from (proj_unproject P pa) l (proj_unproject P pb) /\
      Forall (fun s => (dev P s <= tol)%R) l).
Proof.
  intros HT HTerm. split.
  - intros a b. destruct (HTerm (proj_project P a) a (proj_project P b) b) as [Hp _].
    destruct (AppendProjected fuel P thr a b []) as [vs|] eqn:E.
    + destruct (append_projected_shape _ _ _ _ _ _ (proj_project P a) E) as (l & _ & Ev & F & C & _).
      exists vs, l. repeat split; try assumption. eapply Forall_impl; [|exact F]. exact HT.
    + exfalso. unfold AppendProjected in E.
      destruct (projected_leaves fuel P thr (proj_project P a) a (proj_project P b) b) eqn:E2; [discriminate E|exact (Hp eq_refl)].
  - intros pa pb. destruct (HTerm pa (proj_unproject P pa) pb (proj_unproject P pb)) as [_ Hu].
    destruct (AppendUnprojected fuel P thr pa pb []) as [vs|] eqn:E.
    + destruct (append_unprojected_shape _ _ _ _ _ _ (proj_unproject P pa) E) as (l & _ & Ev & F & C & _).
      exists vs, l. repeat split; try assumption. eapply Forall_impl; [|exact F]. exact HT.
    + exfalso. unfold AppendUnprojected in E.
      destruct (unprojected_leaves fuel P thr pa (proj_unproject P pa) pb (proj_unproject P pb)) eqn:E2; [discriminate E|exact (Hu eq_refl)].
Qed.
End TessTolerance.

(** FINDING (repaired in /repo by ea2b899): NewEdgeTessellator compared the estimate with the unscaled tolerance;
    the algorithm description (and H_TESS) need tessellationScaleFactor * tolerance. The old threshold is
    strictly larger than the one the repaired code uses. *)
Theorem tess_unscaled_old_refuted : exists tol,
  PrimFloat.ltb (scaledTolerance tol) (scaledTolerance_old tol) = true.
Proof. exists (0x1.47ae147ae147bp-7)%float. vm_compute. reflexivity. Qed.

(** a concrete run: plate carree in degrees, an edge across the antimeridian; the chain wraps past 180 *)
Example tess_example :
  match AppendProjected tess_fuel (pc_projection (new_plate_carree (0x1.68p+7)%float)) (scaledTolerance (0x1p-10)%float)
          (s2_PointFromLatLng (s2_LatLngFromDegrees 0 (0x1.54p+7)%float))
          (s2_PointFromLatLng (s2_LatLngFromDegrees (0x1.4p+3)%float (-0x1.54p+7)%float)) [] with
  | Some vs => (2 <=? Z.of_nat (length vs))%Z && forallb (fun v => PrimFloat.leb (0x1.54p+7)%float (r2_Point_X v)) vs
  | None => false
  end = true.
Proof. vm_compute. reflexivity. Qed.

(** * 7. Mercator at the poles: the exp overflow / underflow branches of ToLatLng
    ([fexp] stands for math.Exp, amd64 assembly without a model; the correspondence hands the model the value
    the Go run computed). Whenever exp overflows to +Inf the latitude is pi/2 exactly and the unprojected point
    has z = 1 (no NaN); whenever it underflows to 0 the latitude is -pi/2 and z = -1. *)
Definition merc_exp_arg (p : plate_carree) (pt : r2_Point) : PrimFloat.float :=
  PrimFloat.mul (PrimFloat.mul 2 (pc_toRadians p)) (r2_Point_Y pt).

Lemma merc_to_latlng_overflow fexp p pt : fexp (merc_exp_arg p pt) = infinity ->
  s2_LatLng_Lat (merc_ToLatLng fexp p pt) = f_pi_2 /\
  r3_Vector_Z (s2_Point_Vector (s2_PointFromLatLng (merc_ToLatLng fexp p pt))) = 1%float.
Proof.
  unfold merc_exp_arg. intros H. unfold merc_ToLatLng. rewrite H. cbv zeta.
  change (go_isinf infinity 0) with true. cbv iota. split; [reflexivity|].
  unfold s2_PointFromLatLng. cbn [s2_LatLng_Lat s2_LatLng_Lng s2_Point_Vector r3_Vector_Z s1_Angle_Radians].
  unfold s1_Angle_Radians. vm_compute. reflexivity.
Qed.

Lemma merc_to_latlng_underflow fexp p pt : fexp (merc_exp_arg p pt) = 0%float ->
  s2_LatLng_Lat (merc_ToLatLng fexp p pt) = PrimFloat.opp f_pi_2 /\
  r3_Vector_Z (s2_Point_Vector (s2_PointFromLatLng (merc_ToLatLng fexp p pt))) = (-1)%float.
Proof.
  unfold merc_exp_arg. intros H. unfold merc_ToLatLng. rewrite H. cbv zeta.
  change (go_isinf 0 0) with false. cbv iota.
  assert (E : math_Asin (PrimFloat.div (PrimFloat.sub 0 1) (PrimFloat.add 0 1)) = PrimFloat.opp f_pi_2)
    by (vm_compute; reflexivity).
  rewrite E. split; [reflexivity|].
  unfold s2_PointFromLatLng. cbn [s2_LatLng_Lat s2_LatLng_Lng s2_Point_Vector r3_Vector_Z s1_Angle_Radians].
  unfold s1_Angle_Radians. vm_compute. reflexivity.
Qed.

(** without the overflow branch (seeded mutant C20-mut3) the latitude at k = +Inf is NaN *)
Lemma merc_without_overflow_branch_refuted :
  go_isnan (math_Asin (PrimFloat.div (PrimFloat.sub infinity 1) (PrimFloat.add infinity 1))) = true.
Proof. vm_compute. reflexivity. Qed.
