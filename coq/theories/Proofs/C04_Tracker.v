(** C04 — the interior tracker of the index build computes, for every cell it creates, the
    containment of the cell centre ([tracker_correct]); initOriginAndBound's originInside
    makes vertex 1 contained exactly when its wedge says so ([origin_inside_correct]). *)
From Coq Require Import List Bool Arith ZArith Lia.
From Geo Require Import Model.Contain Proofs.C04_Brute Proofs.C04_Dispatch.
Import ListNotations.

Section Tracker.
  Variable point : Type.
  Variable peq : point -> point -> bool.
  Variable eov : point -> point -> point -> point -> bool.
  Variable acv : point -> point -> point -> bool.
  Variable south : point -> bool.
  Variable origin : point.
  Variable zeroPt : point.

  Local Notation edge := (edge point).
  Local Notation tedge := (tedge point).
  Local Notation shape := (shape point).
  Local Notation tracker := (tracker point).
  Local Notation tcell := (tcell point).
  Local Notation parity := (parity point eov).
  Local Notation cross_parity := (cross_parity point eov).
  Local Notation brute_contains := (brute_contains point eov origin zeroPt).
  Local Notation contains_brute_force := (contains_brute_force point peq eov origin zeroPt).
  Local Notation test_all_edges := (test_all_edges point eov).
  Local Notation test_edge := (test_edge point eov).
  Local Notation make_index_cell := (make_index_cell point eov).
  Local Notation tracker_run := (tracker_run point eov).
  Local Notation add_shapes := (add_shapes point peq eov origin zeroPt).
  Local Notation loop_edges := (loop_edges point).

  (** *** toggleShape on a sorted id list *)
  Definition mem (x : nat) (l : list nat) : bool := existsb (Nat.eqb x) l.

  (* strictly increasing *)
  Fixpoint ss (l : list nat) : Prop :=
    match l with
    | [] => True
    | s :: t => (forall x, mem x t = true -> s < x) /\ ss t
    end.

  Lemma toggle_mem : forall id ids x, ss ids ->
    mem x (toggle id ids) = xorb (x =? id) (mem x ids).
  Proof.
    intros id ids x. induction ids as [|s t IH]; intro Hss.
    - cbn. destruct (x =? id); reflexivity.
    - destruct Hss as [Hlt Ht]. cbn [toggle].
      destruct (Nat.ltb_spec s id) as [Hs|Hs].
      + cbn [mem existsb]. fold (mem x (toggle id t)). fold (mem x t). rewrite IH by exact Ht.
        destruct (Nat.eqb_spec x s) as [E|NE]; destruct (Nat.eqb_spec x id) as [E'|NE'];
          try lia; destruct (mem x t); reflexivity.
      + destruct (Nat.eqb_spec s id) as [E|NE].
        * subst s. cbn [mem existsb]. fold (mem x t).
          destruct (Nat.eqb_spec x id) as [E'|NE'].
          -- subst x. destruct (mem id t) eqn:M; [specialize (Hlt id M); lia|reflexivity].
          -- destruct (mem x t); reflexivity.
        * cbn [mem existsb]. fold (mem x t).
          destruct (Nat.eqb_spec x id) as [E'|NE'].
          -- subst x. destruct (Nat.eqb_spec id s) as [E''|_]; [lia|].
             destruct (mem id t) eqn:M; [specialize (Hlt id M); lia|reflexivity].
          -- destruct (x =? s), (mem x t); reflexivity.
  Qed.

  Lemma toggle_ss : forall id ids, ss ids -> ss (toggle id ids).
  Proof.
    intros id ids. induction ids as [|s t IH]; intro Hss.
    - cbn. split; [intros x H; discriminate|exact I].
    - destruct Hss as [Hlt Ht]. cbn [toggle].
      destruct (Nat.ltb_spec s id) as [Hs|Hs].
      + cbn [ss]. split; [|apply IH; exact Ht].
        intros x Hx. rewrite toggle_mem in Hx by exact Ht.
        destruct (Nat.eqb_spec x id) as [E|NE]; [lia|].
        apply Hlt. destruct (mem x t); [reflexivity|discriminate].
      + destruct (Nat.eqb_spec s id) as [E|NE]; [exact Ht|].
        cbn [ss]. split; [|split; assumption].
        intros x Hx. cbn [mem existsb] in Hx. fold (mem x t) in Hx.
        destruct (Nat.eqb_spec x s) as [E'|NE']; [lia|].
        cbn in Hx. specialize (Hlt x Hx). lia.
  Qed.

  (** *** testAllEdges *)
  Definition edges_of (id : nat) (es : list tedge) : list edge :=
    map (fun x : tedge => snd x)
        (filter (fun x : tedge => snd (fst x) && (fst (fst x) =? id)) es).

  Lemma test_all_edges_spec : forall es (t : tracker), ss (tr_ids _ t) ->
    let t' := test_all_edges t es in
    tr_a _ t' = tr_a _ t /\ tr_b _ t' = tr_b _ t /\ tr_active _ t' = tr_active _ t
    /\ tr_next _ t' = tr_next _ t /\ ss (tr_ids _ t')
    /\ forall id, mem id (tr_ids _ t')
                  = xorb (mem id (tr_ids _ t)) (cross_parity (tr_a _ t) (tr_b _ t) (edges_of id es)).
  Proof.
    induction es as [|x es IH]; intros t Hss; cbv zeta.
    - cbn. repeat split; try assumption. intro id. rewrite xorb_false_r. reflexivity.
    - destruct x as [[sid hi] e]. unfold Contain.test_all_edges. cbn [fold_left].
      set (t1 := if hi then test_edge t sid e else t).
      assert (H1 : tr_a _ t1 = tr_a _ t /\ tr_b _ t1 = tr_b _ t /\ tr_active _ t1 = tr_active _ t
                   /\ tr_next _ t1 = tr_next _ t /\ ss (tr_ids _ t1)
                   /\ forall id, mem id (tr_ids _ t1)
                                 = xorb (mem id (tr_ids _ t))
                                        (hi && (sid =? id) && eov (tr_a _ t) (tr_b _ t) (fst e) (snd e))).
      { unfold t1, Contain.test_edge. destruct hi; cbn [andb].
        - destruct (eov (tr_a _ t) (tr_b _ t) (fst e) (snd e)).
          + unfold toggle_shape. cbn [tr_a tr_b tr_active tr_next tr_ids].
            repeat split; try reflexivity; [apply toggle_ss; exact Hss|].
            intro id. rewrite toggle_mem by exact Hss. rewrite andb_true_r, xorb_comm, Nat.eqb_sym.
            reflexivity.
          + repeat split; try reflexivity; [exact Hss|].
            intro id. rewrite andb_false_r, xorb_false_r. reflexivity.
        - repeat split; try reflexivity; [exact Hss|]. intro id. rewrite xorb_false_r. reflexivity. }
      destruct H1 as [Ha1 [Hb1 [Hact1 [Hn1 [Hss1 Hm1]]]]].
      change (fold_left _ es t1) with (test_all_edges t1 es).
      destruct (IH t1 Hss1) as [Ha [Hb [Hact [Hn [Hss' Hm]]]]].
      repeat split; try congruence.
      intro id. rewrite Hm, Hm1, Ha1, Hb1. unfold edges_of. cbn [filter fst snd].
      destruct hi; cbn [andb].
      + destruct (Nat.eqb_spec sid id) as [E|NE]; cbn [andb map].
        * rewrite (cross_parity_cons point eov). cbn [snd]. rewrite xorb_assoc. reflexivity.
        * rewrite xorb_false_r. reflexivity.
      + rewrite xorb_false_r. reflexivity.
  Qed.

  (** *** what the tracker is supposed to know: containment by parity from OriginPoint *)
  Definition sh_contains (S : shape) (q : point) : bool :=
    parity origin (sh_ref_inside _ S) (sh_edges _ S) q.

  Variable shapes : list shape.
  Let dS : shape := mk_shape point [] false.
  Definition shape_at (id : nat) : shape := nth id shapes dS.

  Definition Inv (t : tracker) : Prop :=
    ss (tr_ids _ t)
    /\ forall id, id < length shapes -> mem id (tr_ids _ t) = sh_contains (shape_at id) (tr_b _ t).

  (** The geometric premises, one cell at a time.
      H-CLIP (segment form): the edges of a shape that are NOT among the cell's clipped edges
      do not change the crossing parity of the tracker's segment a->b (both segments stay
      inside the padded cell).
      H-JORDAN (path form, derived below from [H_JORDAN]): containment at b is containment
      at a XOR the crossing parity of a->b.
      H-SKIP: containment does not change where the tracker jumps without testing edges
      (from the previous exit vertex to this cell's entry vertex; inside an edge-free cell). *)
  Definition H_CLIP_seg (es : list tedge) (a b : point) : Prop :=
    forall id, id < length shapes ->
      cross_parity a b (edges_of id es) = cross_parity a b (sh_edges _ (shape_at id)).
  Definition H_JORDAN_seg (a b : point) : Prop :=
    forall id, id < length shapes ->
      sh_contains (shape_at id) b
      = xorb (sh_contains (shape_at id) a) (cross_parity a b (sh_edges _ (shape_at id))).
  Definition H_SKIP (a b : point) : Prop :=
    forall id, id < length shapes -> sh_contains (shape_at id) b = sh_contains (shape_at id) a.

  Definition cell_ok (focus : point) (next : Z) (c : tcell) : Prop :=
    match tc_edges _ c with
    | [] => H_SKIP focus (tc_center _ c)
    | es =>
      let a := if Z.eqb (tc_range_min _ c) next then focus else tc_entry _ c in
      H_SKIP focus a
      /\ H_CLIP_seg es a (tc_center _ c) /\ H_JORDAN_seg a (tc_center _ c)
      /\ H_CLIP_seg es (tc_center _ c) (tc_exit _ c) /\ H_JORDAN_seg (tc_center _ c) (tc_exit _ c)
    end.

  Definition focus_after (focus : point) (c : tcell) : point :=
    match tc_edges _ c with [] => focus | _ => tc_exit _ c end.
  Definition next_after (next : Z) (c : tcell) : Z :=
    match tc_edges _ c with [] => next | _ => tc_next_range_min _ c end.

  Fixpoint run_ok (focus : point) (next : Z) (cells : list tcell) : Prop :=
    match cells with
    | [] => True
    | c :: cs => cell_ok focus next c /\ run_ok (focus_after focus c) (next_after next c) cs
    end.

  (* what one created cell records *)
  Definition out_ok (c : tcell) (out : option (list nat)) : Prop :=
    forall id, id < length shapes ->
      match out with
      | Some cc => mem id cc = sh_contains (shape_at id) (tc_center _ c)
      | None => sh_contains (shape_at id) (tc_center _ c) = false
      end.

  Lemma draw_test : forall (t : tracker) b es,
    Inv t -> H_CLIP_seg es (tr_b _ t) b -> H_JORDAN_seg (tr_b _ t) b ->
    let t' := test_all_edges (draw_to _ t b) es in
    Inv t' /\ tr_b _ t' = b /\ tr_active _ t' = tr_active _ t /\ tr_next _ t' = tr_next _ t.
  Proof.
    intros t b es [Hss Hm] Hclip Hj. cbv zeta.
    destruct (test_all_edges_spec es (draw_to _ t b) Hss) as [Ha [Hb [Hact [Hn [Hss' Hm']]]]].
    cbn [draw_to tr_a tr_b tr_active tr_next tr_ids] in *.
    repeat split; try assumption.
    intros id Hid. rewrite Hm', Hb, (Hm id Hid), (Hclip id Hid), (Hj id Hid). reflexivity.
  Qed.

  Lemma make_index_cell_correct : forall (t : tracker) c,
    tr_active _ t = true -> Inv t -> cell_ok (tr_b _ t) (tr_next _ t) c ->
    let r := make_index_cell t c in
    Inv (fst r) /\ tr_active _ (fst r) = true
    /\ tr_b _ (fst r) = focus_after (tr_b _ t) c /\ tr_next _ (fst r) = next_after (tr_next _ t) c
    /\ out_ok c (snd r).
  Proof.
    intros t c Hact HI Hok. cbv zeta. unfold Contain.make_index_cell, cell_ok, focus_after, next_after in *.
    destruct (tc_edges _ c) as [|e es] eqn:Ees.
    - (* no edges: the tracker does not move; the cell records the current state *)
      assert (Hout : forall id, id < length shapes ->
                mem id (tr_ids _ t) = sh_contains (shape_at id) (tc_center _ c)).
      { intros id Hid. destruct HI as [_ Hm]. rewrite (Hok id Hid), <- (Hm id Hid). reflexivity. }
      destruct (tr_ids _ t) as [|i ids] eqn:Eids; cbn [fst snd].
      + split; [exact HI|]. split; [exact Hact|]. split; [reflexivity|]. split; [reflexivity|].
        intros id Hid. rewrite <- (Hout id Hid). reflexivity.
      + rewrite Hact. cbn [andb length Nat.eqb negb]. cbn [fst snd].
        split; [exact HI|]. split; [exact Hact|]. split; [reflexivity|]. split; [reflexivity|].
        intros id Hid. rewrite Eids. apply Hout. exact Hid.
    - destruct Hok as [Hskip [Hc1 [Hj1 [Hc2 Hj2]]]].
      cbv beta iota.
      set (es' := e :: es) in *.
      assert (Hmoving : tr_active _ t && negb (length es' =? 0) = true) by (rewrite Hact; reflexivity).
      rewrite Hmoving.
      set (t0 := if Z.eqb (tc_range_min _ c) (tr_next _ t) then t else move_to _ t (tc_entry _ c)).
      assert (H0 : Inv t0 /\ tr_active _ t0 = true
                   /\ tr_b _ t0 = (if Z.eqb (tc_range_min _ c) (tr_next _ t) then tr_b _ t else tc_entry _ c)).
      { unfold t0. destruct (Z.eqb (tc_range_min _ c) (tr_next _ t)).
        - split; [exact HI|split; [exact Hact|reflexivity]].
        - destruct HI as [Hss Hm]. unfold move_to. cbn [tr_b tr_active].
          split; [|split; [exact Hact|reflexivity]].
          split; cbn [tr_ids tr_b]; [exact Hss|].
          intros id Hid. rewrite (Hm id Hid), (Hskip id Hid). reflexivity. }
      destruct H0 as [HI0 [Hact0 Hb0]].
      rewrite <- Hb0 in Hc1, Hj1.
      destruct (draw_test t0 (tc_center _ c) es' HI0 Hc1 Hj1) as [HI1 [Hb1 [Hact1 Hn1]]].
      set (t1 := test_all_edges (draw_to _ t0 (tc_center _ c)) es') in *.
      rewrite <- Hb1 in Hc2, Hj2.
      destruct (draw_test t1 (tc_exit _ c) es' HI1 Hc2 Hj2) as [HI2 [Hb2 [Hact2 Hn2]]].
      set (t2 := test_all_edges (draw_to _ t1 (tc_exit _ c)) es') in *.
      cbn [fst snd]. unfold set_next. cbn [tr_active tr_b tr_next].
      split; [|split; [|split; [|split]]].
      + destruct HI2 as [Hss2 Hm2]. split; cbn [tr_ids tr_b]; assumption.
      + congruence.
      + exact Hb2.
      + reflexivity.
      + intros id Hid. destruct HI1 as [_ Hm1]. rewrite (Hm1 id Hid), Hb1. reflexivity.
  Qed.

  (** [tracker_correct]: along the whole sequence of cells the index build creates, every
      recorded containsCenter is the containment of that cell's centre. *)
  Theorem tracker_correct : forall cells (t : tracker),
    tr_active _ t = true -> Inv t -> run_ok (tr_b _ t) (tr_next _ t) cells ->
    Forall2 out_ok cells (snd (tracker_run t cells)) /\ Inv (fst (tracker_run t cells)).
  Proof.
    intros cells t Hact HI Hrun. unfold Contain.tracker_run.
    assert (G : forall cells (t : tracker) (outs : list (option (list nat))) (done : list tcell),
               tr_active _ t = true -> Inv t -> run_ok (tr_b _ t) (tr_next _ t) cells ->
               Forall2 out_ok done outs ->
               let r := fold_left (fun (st : tracker * list (option (list nat))) c =>
                                     let r := make_index_cell (fst st) c in (fst r, snd st ++ [snd r]))
                                  cells (t, outs) in
               Forall2 out_ok (done ++ cells) (snd r) /\ Inv (fst r)).
    { clear. induction cells as [|c cs IH]; intros t outs done Hact HI Hrun Hdone; cbv zeta.
      - cbn [fold_left fst snd]. rewrite app_nil_r. split; assumption.
      - destruct Hrun as [Hc Hrest]. cbn [fold_left fst snd].
        destruct (make_index_cell_correct t c Hact HI Hc) as [HI' [Hact' [Hb' [Hn' Hout]]]].
        change (done ++ c :: cs) with (done ++ [c] ++ cs). rewrite app_assoc.
        apply IH; try assumption.
        + rewrite Hb', Hn'. exact Hrest.
        + apply Forall2_app; [exact Hdone|]. constructor; [exact Hout|constructor]. }
    apply (G cells t [] []); try assumption. constructor.
  Qed.

  (** H-JORDAN gives the path form used above. *)
  Variable ok : point -> point -> Prop.
  Lemma jordan_seg_from_jordan : forall a b,
    (forall id, id < length shapes -> H_JORDAN point eov ok (sh_edges _ (shape_at id))) ->
    ok origin a -> ok a b -> ok b origin -> ok origin b ->
    H_JORDAN_seg a b.
  Proof.
    intros a b HJ Hoa Hab Hbo Hob id Hid. unfold sh_contains, Contain.parity.
    rewrite (jordan_path point eov ok _ origin a b (HJ id Hid) Hoa Hab Hbo Hob).
    rewrite xorb_assoc. reflexivity.
  Qed.
End Tracker.

Section TrackerInit.
  Variable point : Type.
  Variable peq : point -> point -> bool.
  Variable eov : point -> point -> point -> point -> bool.
  Variable origin : point.
  Variable zeroPt : point.
  Local Notation shape := (shape point).
  Local Notation tracker := (tracker point).
  Local Notation contains_brute_force := (contains_brute_force point peq eov origin zeroPt).
  Local Notation add_shapes := (add_shapes point peq eov origin zeroPt).
  Local Notation sh_contains := (sh_contains point eov origin).

  (** addShapeInternal for shapes 0..n-1 on a new tracker establishes the invariant, as soon
      as containsBruteForce at the start focus is the parity from OriginPoint (true whenever
      the focus is not OriginPoint itself: [contains_brute_force_parity]). *)
  Theorem add_shapes_inv : forall (shapes : list shape) (t : tracker),
    tr_ids _ t = [] ->
    (forall S, In S shapes -> contains_brute_force S (tr_b _ t) = sh_contains S (tr_b _ t)) ->
    let t' := add_shapes t shapes in
    Inv point eov origin shapes t' /\ tr_b _ t' = tr_b _ t /\ tr_next _ t' = tr_next _ t
    /\ (shapes <> [] -> tr_active _ t' = true).
  Proof.
    intros shapes t Hids Hbf. cbv zeta. unfold Contain.add_shapes.
    assert (G : forall rest done (t1 : tracker),
      tr_b _ t1 = tr_b _ t -> tr_next _ t1 = tr_next _ t ->
      (done <> [] -> tr_active _ t1 = true) ->
      ss (tr_ids _ t1) ->
      (forall id, id < length done -> mem id (tr_ids _ t1) = sh_contains (nth id done (mk_shape _ [] false)) (tr_b _ t)) ->
      (forall id, length done <= id -> mem id (tr_ids _ t1) = false) ->
      (forall S, In S rest -> contains_brute_force S (tr_b _ t) = sh_contains S (tr_b _ t)) ->
      let t' := fst (fold_left
                       (fun (st : tracker * nat) sh =>
                          (add_shape _ (fst st) (snd st) (contains_brute_force sh (tr_b _ (fst st))), S (snd st)))
                       rest (t1, length done)) in
      ss (tr_ids _ t')
      /\ (forall id, id < length (done ++ rest) ->
                     mem id (tr_ids _ t') = sh_contains (nth id (done ++ rest) (mk_shape _ [] false)) (tr_b _ t))
      /\ tr_b _ t' = tr_b _ t /\ tr_next _ t' = tr_next _ t
      /\ (done ++ rest <> [] -> tr_active _ t' = true)).
    { induction rest as [|sh rest IH]; intros done t1 Hb Hn Hact Hss Hlow Hhigh Hbf'; cbv zeta.
      - cbn [fold_left fst]. rewrite app_nil_r. repeat split; assumption.
      - cbn [fold_left fst snd].
        set (t2 := add_shape _ t1 (length done) (contains_brute_force sh (tr_b _ t1))).
        assert (H2 : tr_b _ t2 = tr_b _ t /\ tr_next _ t2 = tr_next _ t /\ tr_active _ t2 = true
                     /\ ss (tr_ids _ t2)
                     /\ forall id, mem id (tr_ids _ t2)
                                   = xorb (mem id (tr_ids _ t1))
                                          ((id =? length done) && sh_contains sh (tr_b _ t))).
        { unfold t2, add_shape. rewrite Hb, (Hbf' sh (or_introl eq_refl)).
          destruct (sh_contains sh (tr_b _ t)).
          - unfold toggle_shape. cbn [tr_b tr_next tr_active tr_ids].
            repeat split; try assumption; [apply toggle_ss; exact Hss|].
            intro id. rewrite toggle_mem by exact Hss. rewrite andb_true_r, xorb_comm. reflexivity.
          - cbn [tr_b tr_next tr_active tr_ids]. repeat split; try assumption.
            intro id. rewrite andb_false_r, xorb_false_r. reflexivity. }
        destruct H2 as [Hb2 [Hn2 [Hact2 [Hss2 Hm2]]]].
        replace (S (length done)) with (length (done ++ [sh])) by (rewrite app_length; cbn; lia).
        replace (done ++ sh :: rest) with ((done ++ [sh]) ++ rest) by (rewrite <- app_assoc; reflexivity).
        apply IH; try assumption.
        + intros _. exact Hact2.
        + intros id Hid. rewrite app_length in Hid. cbn [length] in Hid. rewrite Hm2.
          destruct (Nat.eqb_spec id (length done)) as [E|NE].
          * subst id. rewrite Hhigh by lia. rewrite app_nth2 by lia. rewrite Nat.sub_diag. cbn [nth andb].
            rewrite xorb_false_l. reflexivity.
          * rewrite Hlow by lia. rewrite app_nth1 by lia. cbn [andb]. rewrite xorb_false_r. reflexivity.
        + intros id Hid. rewrite app_length in Hid. cbn [length] in Hid. rewrite Hm2, Hhigh by lia.
          destruct (Nat.eqb_spec id (length done)); [lia|reflexivity].
        + intros S' HS'. apply Hbf'. right. exact HS'. }
    specialize (G shapes [] t eq_refl eq_refl).
    cbn [length app] in G.
    destruct G as [Hss [Hm [Hb [Hn Hact]]]].
    - intro H. contradiction.
    - rewrite Hids. exact I.
    - intros id Hid. lia.
    - intros id _. rewrite Hids. reflexivity.
    - exact Hbf.
    - repeat split; try assumption.
      intros id Hid. rewrite Hb. apply Hm. exact Hid.
  Qed.
End TrackerInit.

Section OriginInside.
  Variable point : Type.
  Variable peq : point -> point -> bool.
  Variable eov : point -> point -> point -> point -> bool.
  Variable acv : point -> point -> point -> bool.
  Variable south : point -> bool.
  Variable origin : point.
  Variable zeroPt : point.
  Local Notation brute_contains := (brute_contains point eov origin zeroPt).
  Local Notation loop_from_points := (loop_from_points point peq eov acv south origin zeroPt).
  Local Notation cross_parity := (cross_parity point eov).
  Local Notation loop_edges := (loop_edges point).

  (* the wedge test initOriginAndBound applies at vertex 1 *)
  Definition v1_inside (v0 v1 v2 : point) : bool :=
    negb (peq v0 v1) && negb (peq v2 v1) && acv v0 v1 v2.

  (** [origin_inside_correct] (closed): with the originInside that initOriginAndBound
      computes, the loop contains its vertex 1 exactly when AngleContainsVertex says so. *)
  Theorem origin_inside_vertex1 : forall v0 v1 v2 rest,
    brute_contains (loop_from_points (v0 :: v1 :: v2 :: rest)) v1 = v1_inside v0 v1 v2.
  Proof.
    intros v0 v1 v2 rest. unfold Contain.loop_from_points.
    rewrite (brute_flag point eov origin zeroPt).
    unfold Contain.init_origin_inside, Contain.loop_contains_point. fold (v1_inside v0 v1 v2).
    cbn [negb andb Nat.eqb orb].
    destruct (v1_inside v0 v1 v2), (brute_contains (mk_loop _ (v0 :: v1 :: v2 :: rest) false) v1);
      reflexivity.
  Qed.

  (** Under H-JORDAN the answer at every point is the parity of crossings from vertex 1
      starting at the wedge value: OriginPoint plays no role in what the loop contains. *)
  Variable ok : point -> point -> Prop.
  Theorem origin_inside_correct : forall v0 v1 v2 rest q,
    let L := loop_from_points (v0 :: v1 :: v2 :: rest) in
    H_JORDAN point eov ok (loop_edges L) ->
    ok origin v1 -> ok v1 q -> ok q origin -> ok origin q ->
    brute_contains L q = xorb (v1_inside v0 v1 v2) (cross_parity v1 q (loop_edges L)).
  Proof.
    intros v0 v1 v2 rest q L HJ Ho1 H1q Hqo Hoq.
    rewrite <- (origin_inside_vertex1 v0 v1 v2 rest). fold L.
    rewrite !(parity_def point eov origin zeroPt). unfold Contain.parity.
    rewrite (jordan_path point eov ok _ origin v1 q HJ Ho1 H1q Hqo Hoq).
    rewrite xorb_assoc. reflexivity.
  Qed.
End OriginInside.
