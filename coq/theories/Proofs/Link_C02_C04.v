(** C02 -> C03 -> C04 composed: the containment theorems of C04 that rest only on the two
    interface laws of EdgeOrVertexCrossing, for the REAL crossing predicate on unit points

      point := { p : s2_Point | unit_pt p },  peq := Go ==,  sign := RobustSign,
      triage := the translated triageSign,  tangent := the crosser's tangent early exit,

    with only H_TANGENT (C03) left as a premise (H-STABLE-DET is a closed C02 theorem). *)
From Coq Require Import ZArith List Bool Permutation.
From Geo Require Import Model.Crosser Model.CrosserExec Model.Contain
  Proofs.C02_Float Proofs.C04_Brute Proofs.C04_Polygon Proofs.Link_C02_C03 Proofs.Link_C03_C04.
Import ListNotations.

Section Real.
  Hypothesis HT : H_TANGENT.
  Variable refdir : upoint -> upoint.           (* Point.referenceDir; no law needed *)
  Variables origin emptyPt fullPt zeroPt : upoint.

  (** EdgeOrVertexCrossing of the real edge crosser (stateless form) *)
  Definition u_eov : upoint -> upoint -> upoint -> upoint -> bool :=
    Link_C03_C04.eov upoint u_peq u_sign u_triage u_tangent refdir.

  Lemma u_eov_sym_cd : eov_sym_cd_law upoint u_eov.
  Proof.
    unfold u_eov. apply Link_C03_C04.eov_sym_cd;
      first [ exact u_peq_refl | exact u_peq_sym | exact u_peq_trans
            | exact u_sign_rotate | exact u_sign_swap | exact u_sign_zero_iff
            | exact u_triage_sound | exact HT ].
  Qed.

  Lemma u_eov_degenerate_cd : eov_degenerate_cd_law upoint u_eov.
  Proof.
    unfold u_eov. apply Link_C03_C04.eov_degenerate_cd;
      first [ exact u_peq_refl | exact u_peq_sym | exact u_peq_trans
            | exact u_sign_rotate | exact u_sign_swap | exact u_sign_zero_iff
            | exact u_triage_sound | exact HT ].
  Qed.

  (** a loop and its inverse contain every unit point exactly once *)
  Theorem invert_complement_real : forall (L : loop upoint) (p : upoint),
    brute_contains upoint u_eov origin zeroPt (invert upoint emptyPt fullPt L) p
    = negb (brute_contains upoint u_eov origin zeroPt L p).
  Proof. apply invert_complement; [exact u_eov_sym_cd | exact u_eov_degenerate_cd]. Qed.

  (** a polygon and its complement *)
  Theorem polygon_invert_complement_real :
    forall (P Q : polygon upoint) (L : loop upoint) (rest : list (loop upoint)) (p : upoint),
      Permutation (map fst P) (L :: rest) ->
      Permutation (map fst Q) (invert upoint emptyPt fullPt L :: rest) ->
      polygon_brute upoint u_eov origin zeroPt Q p = negb (polygon_brute upoint u_eov origin zeroPt P p).
  Proof.
    exact (polygon_invert_complement upoint u_eov origin emptyPt fullPt zeroPt
             u_eov_sym_cd u_eov_degenerate_cd).
  Qed.

  (** XOR over the loops = parity over the polygon's own oriented edges *)
  Theorem polygon_xor_real : forall (P : polygon upoint) (p : upoint),
    polygon_brute upoint u_eov origin zeroPt P p
    = parity upoint u_eov origin (sh_ref_inside upoint (polygon_shape upoint zeroPt P))
             (sh_edges upoint (polygon_shape upoint zeroPt P)) p.
  Proof. exact (polygon_xor upoint u_eov origin zeroPt u_eov_sym_cd u_eov_degenerate_cd). Qed.
End Real.
