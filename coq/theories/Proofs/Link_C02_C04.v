(** C02 -> C03 -> C04 composed: the containment theorems of C04 that rest only on the two
    interface laws of EdgeOrVertexCrossing, for the REAL crossing predicate on unit points

      point := { p : s2_Point | unit_pt p },  peq := Go ==,  sign := RobustSign,
      triage := the translated triageSign,  tangent := the crosser's tangent early exit,

    with only H_TANGENT (C03) left as a premise (H-STABLE-DET is a closed C02 theorem). *)
From Coq Require Import ZArith List Bool Permutation.
From Geo Require Import Model.Crosser Model.CrosserExec Model.Contain
  Proofs.C02_Float Proofs.C03_Crosser Proofs.C03_Vertex Proofs.C04_Brute Proofs.C04_Polygon
  Proofs.Link_C02_C03 Proofs.Link_C03_C04.
Import ListNotations.

Section Real.
  Hypothesis HT : H_TANGENT.
  Variable refdir : upoint -> upoint.           (* Point.referenceDir; no law needed *)
  Variables origin emptyPt fullPt zeroPt : upoint.

  (** EdgeOrVertexCrossing of the real edge crosser (stateless form) *)
  Definition u_eov : upoint -> upoint -> upoint -> upoint -> bool :=
    Link_C03_C04.eov upoint u_peq u_sign u_triage u_tangent refdir.

  Lemma u_eov_sym_cd : eov_sym_cd_law upoint u_eov.
  Proof.
    unfold u_eov. apply Link_C03_C04.eov_sym_cd;
      first [ exact u_peq_refl | exact u_peq_sym | exact u_peq_trans
            | exact u_sign_rotate | exact u_sign_swap | exact u_sign_zero_iff
            | exact u_triage_sound | exact HT ].
  Qed.

  Lemma u_eov_degenerate_cd : eov_degenerate_cd_law upoint u_eov.
  Proof.
    unfold u_eov. apply Link_C03_C04.eov_degenerate_cd;
      first [ exact u_peq_refl | exact u_peq_sym | exact u_peq_trans
            | exact u_sign_rotate | exact u_sign_swap | exact u_sign_zero_iff
            | exact u_triage_sound | exact HT ].
  Qed.

  (** a loop and its inverse contain every unit point exactly once *)
  Theorem invert_complement_real : forall (L : loop upoint) (p : upoint),
    brute_contains upoint u_eov origin zeroPt (invert upoint emptyPt fullPt L) p
    = negb (brute_contains upoint u_eov origin zeroPt L p).
  Proof. apply invert_complement; [exact u_eov_sym_cd | exact u_eov_degenerate_cd]. Qed.

  (** a polygon and its complement *)
  Theorem polygon_invert_complement_real :
    forall (P Q : polygon upoint) (L : loop upoint) (rest : list (loop upoint)) (p : upoint),
      Permutation (map fst P) (L :: rest) ->
      Permutation (map fst Q) (invert upoint emptyPt fullPt L :: rest) ->
      polygon_brute upoint u_eov origin zeroPt Q p = negb (polygon_brute upoint u_eov origin zeroPt P p).
  Proof.
    exact (polygon_invert_complement upoint u_eov origin emptyPt fullPt zeroPt
             u_eov_sym_cd u_eov_degenerate_cd).
  Qed.

  (** XOR over the loops = parity over the polygon's own oriented edges *)
  Theorem polygon_xor_real : forall (P : polygon upoint) (p : upoint),
    polygon_brute upoint u_eov origin zeroPt P p
    = parity upoint u_eov origin (sh_ref_inside upoint (polygon_shape upoint zeroPt P))
             (sh_edges upoint (polygon_shape upoint zeroPt P)) p.
  Proof. exact (polygon_xor upoint u_eov origin zeroPt u_eov_sym_cd u_eov_degenerate_cd). Qed.
End Real.

(** * The specification-level predicate needs no tangent hypothesis

    [eov_spec] is EdgeOrVertexCrossing as the exact four-orientation criterion plus the vertex
    rule (Model/Crosser.v).  Its two interface laws follow from the orientation laws alone;
    H_TANGENT is only what ties the crosser's float shortcut to this specification
    ([Link_C03_C04.eov_is_spec]).  For the real RobustSign all orientation laws are closed C02
    theorems, so the containment theorems below carry NO premise. *)
Section SpecLaws.
  Variable point : Type.
  Variable peq : point -> point -> bool.
  Variable sign : point -> point -> point -> Z.
  Variable refdir : point -> point.
  Hypothesis peq_refl : forall a, peq a a = true.
  Hypothesis peq_sym : forall a b, peq a b = peq b a.
  Hypothesis peq_trans : forall a b c, peq a b = true -> peq b c = true -> peq a c = true.
  Hypothesis sign_rotate : forall a b c, sign b c a = sign a b c.
  Hypothesis sign_swap : forall a b c, sign c b a = Z.opp (sign a b c).

  Lemma eov_spec_sym_cd : eov_sym_cd_law point (eov_spec point peq sign refdir).
  Proof.
    intros a b c d. unfold eov_spec.
    destruct (crossing_spec_sym point peq sign peq_sym sign_rotate sign_swap a b c d) as [_ [H _]].
    rewrite H.
    rewrite (vc_reverse_cd point peq sign refdir peq_sym peq_trans a b c d).
    reflexivity.
  Qed.

  Lemma eov_spec_degenerate_cd : eov_degenerate_cd_law point (eov_spec point peq sign refdir).
  Proof.
    intros a b c. unfold eov_spec, crossing_spec.
    rewrite (vc_degenerate_cd point peq sign refdir peq_refl a b c).
    destruct (shared point peq a b c c); [reflexivity|].
    unfold degenerate. rewrite (peq_refl c), orb_true_r. reflexivity.
  Qed.
End SpecLaws.

Section RealSpec.
  Variable refdir : upoint -> upoint.
  Variables origin emptyPt fullPt zeroPt : upoint.

  (** the exact crossing predicate on unit points *)
  Definition u_eov_spec : upoint -> upoint -> upoint -> upoint -> bool :=
    eov_spec upoint u_peq u_sign refdir.

  Lemma u_eov_spec_sym_cd : eov_sym_cd_law upoint u_eov_spec.
  Proof.
    exact (eov_spec_sym_cd upoint u_peq u_sign refdir u_peq_sym u_peq_trans u_sign_rotate u_sign_swap).
  Qed.
  Lemma u_eov_spec_degenerate_cd : eov_degenerate_cd_law upoint u_eov_spec.
  Proof. exact (eov_spec_degenerate_cd upoint u_peq u_sign refdir u_peq_refl). Qed.

  (** under H_TANGENT the crosser computes exactly this predicate *)
  Lemma u_eov_is_spec : H_TANGENT -> forall a b c d, u_eov refdir a b c d = u_eov_spec a b c d.
  Proof.
    intros HT a b c d. unfold u_eov, u_eov_spec. apply Link_C03_C04.eov_is_spec;
      first [ exact u_peq_refl | exact u_peq_sym | exact u_peq_trans
            | exact u_sign_rotate | exact u_sign_swap | exact u_sign_zero_iff
            | exact u_triage_sound | exact HT ].
  Qed.

  Theorem invert_complement_spec_real : forall (L : loop upoint) (p : upoint),
    brute_contains upoint u_eov_spec origin zeroPt (invert upoint emptyPt fullPt L) p
    = negb (brute_contains upoint u_eov_spec origin zeroPt L p).
  Proof. apply invert_complement; [exact u_eov_spec_sym_cd | exact u_eov_spec_degenerate_cd]. Qed.

  Theorem polygon_invert_complement_spec_real :
    forall (P Q : polygon upoint) (L : loop upoint) (rest : list (loop upoint)) (p : upoint),
      Permutation (map fst P) (L :: rest) ->
      Permutation (map fst Q) (invert upoint emptyPt fullPt L :: rest) ->
      polygon_brute upoint u_eov_spec origin zeroPt Q p
      = negb (polygon_brute upoint u_eov_spec origin zeroPt P p).
  Proof.
    exact (polygon_invert_complement upoint u_eov_spec origin emptyPt fullPt zeroPt
             u_eov_spec_sym_cd u_eov_spec_degenerate_cd).
  Qed.

  Theorem polygon_xor_spec_real : forall (P : polygon upoint) (p : upoint),
    polygon_brute upoint u_eov_spec origin zeroPt P p
    = parity upoint u_eov_spec origin (sh_ref_inside upoint (polygon_shape upoint zeroPt P))
             (sh_edges upoint (polygon_shape upoint zeroPt P)) p.
  Proof.
    exact (polygon_xor upoint u_eov_spec origin zeroPt u_eov_spec_sym_cd u_eov_spec_degenerate_cd).
  Qed.
End RealSpec.
