(** C17: EdgePairClosestPoints (model m_closestVertex / m_EdgePairClosestPoints of
    Model/PolylineOps.v, tied to the Go code by correspondence): the four vertex-edge probes
    thread one running minimum, so the winning vertex is the one whose probe returned the
    minimum of the four probe values. *)
From Coq Require Import ZArith Reals Floats Lra Lia Bool List.
From Geo Require Import Base.GoPrim Base.F64 Gen.EdgeDist Model.PolylineOps Proofs.C17_Threshold.
Import ListNotations.
Local Open Scope R_scope.

(** the running minimum after each probe: probe 0 is a0 against B with alwaysUpdate *)
Definition cp_m0 (a0 a1 b0 b1 : s2_Point) : PrimFloat.float := dist2 a0 b0 b1.
Definition cp_r1 (a0 a1 b0 b1 : s2_Point) := s2_UpdateMinDistance a1 b0 b1 (cp_m0 a0 a1 b0 b1).
Definition cp_r2 (a0 a1 b0 b1 : s2_Point) := s2_UpdateMinDistance b0 a0 a1 (fst (cp_r1 a0 a1 b0 b1)).
Definition cp_r3 (a0 a1 b0 b1 : s2_Point) := s2_UpdateMinDistance b1 a0 a1 (fst (cp_r2 a0 a1 b0 b1)).

(** the running minimum held when probe k has been made *)
Definition cp_value (a0 a1 b0 b1 : s2_Point) (k : Z) : PrimFloat.float :=
  if (k =? 0)%Z then cp_m0 a0 a1 b0 b1
  else if (k =? 1)%Z then fst (cp_r1 a0 a1 b0 b1)
  else if (k =? 2)%Z then fst (cp_r2 a0 a1 b0 b1)
  else fst (cp_r3 a0 a1 b0 b1).

Lemma closestVertex_shape a0 a1 b0 b1 :
  m_closestVertex a0 a1 b0 b1 =
  (if snd (cp_r3 a0 a1 b0 b1) then 3 else if snd (cp_r2 a0 a1 b0 b1) then 2
   else if snd (cp_r1 a0 a1 b0 b1) then 1 else 0)%Z.
Proof.
  unfold m_closestVertex, cp_r3, cp_r2, cp_r1, cp_m0. rewrite always_value.
  destruct (s2_UpdateMinDistance a1 b0 b1 (dist2 a0 b0 b1)) as [m1 o1]. simpl fst.
  destruct (s2_UpdateMinDistance b0 a0 a1 m1) as [m2 o2]. simpl fst.
  destruct (s2_UpdateMinDistance b1 a0 a1 m2) as [m3 o3]. simpl.
  destruct o3, o2, o1; reflexivity.
Qed.

Lemma update_min_rank v e0 e1 m : nonnan m -> nonnan (fst (s2_UpdateMinDistance v e0 e1 m)) ->
  (snd (s2_UpdateMinDistance v e0 e1 m) = true -> rank (fst (s2_UpdateMinDistance v e0 e1 m)) < rank m) /\
  (snd (s2_UpdateMinDistance v e0 e1 m) = false -> fst (s2_UpdateMinDistance v e0 e1 m) = m).
Proof.
  destruct (s2_UpdateMinDistance v e0 e1 m) as [d ok] eqn:E. simpl. intros Hm Hd.
  destruct (update_min_cases _ _ _ _ _ _ E) as [[Hok [Hlt _]] | [Hok [Hv _]]]; subst ok.
  - split; [intros _ | discriminate]. apply leb_false_iff in Hlt; auto.
  - split; [discriminate | intros _; exact Hv].
Qed.

(** the probes thread the running minimum: it never increases, the winning vertex is the last
    probe that lowered it, and the value held at the winner is the final minimum — the minimum of
    the four probe values. In particular a later probe wins only against the minimum left by
    all earlier ones. *)
Lemma closest_vertex_argmin a0 a1 b0 b1 :
  nonnan (cp_m0 a0 a1 b0 b1) -> nonnan (fst (cp_r1 a0 a1 b0 b1)) ->
  nonnan (fst (cp_r2 a0 a1 b0 b1)) -> nonnan (fst (cp_r3 a0 a1 b0 b1)) ->
  let cv := m_closestVertex a0 a1 b0 b1 in
  let M := fst (cp_r3 a0 a1 b0 b1) in
  (0 <= cv <= 3)%Z /\
  cp_value a0 a1 b0 b1 cv = M /\
  (forall k, (0 <= k <= 3)%Z -> rank M <= rank (cp_value a0 a1 b0 b1 k)) /\
  (forall k, (0 <= k < cv)%Z -> rank M < rank (cp_value a0 a1 b0 b1 k)).
Proof.
  intros N0 N1 N2 N3. cbv zeta. rewrite closestVertex_shape.
  destruct (update_min_rank a1 b0 b1 _ N0 N1) as [L1 K1].
  destruct (update_min_rank b0 a0 a1 _ N1 N2) as [L2 K2].
  destruct (update_min_rank b1 a0 a1 _ N2 N3) as [L3 K3].
  fold (cp_r1 a0 a1 b0 b1) in L1, K1. fold (cp_r2 a0 a1 b0 b1) in L2, K2. fold (cp_r3 a0 a1 b0 b1) in L3, K3.
  set (m0 := cp_m0 a0 a1 b0 b1) in *. set (r1 := cp_r1 a0 a1 b0 b1) in *.
  set (r2 := cp_r2 a0 a1 b0 b1) in *. set (r3 := cp_r3 a0 a1 b0 b1) in *.
  assert (C1 : rank (fst r1) <= rank m0) by (destruct (snd r1); [apply Rlt_le; auto | rewrite K1; auto; lra]).
  assert (C2 : rank (fst r2) <= rank (fst r1)) by (destruct (snd r2); [apply Rlt_le; auto | rewrite K2; auto; lra]).
  assert (C3 : rank (fst r3) <= rank (fst r2)) by (destruct (snd r3); [apply Rlt_le; auto | rewrite K3; auto; lra]).
  assert (V : forall k, (0 <= k <= 3)%Z -> rank (fst r3) <= rank (cp_value a0 a1 b0 b1 k)).
  { intros k Hk. unfold cp_value. fold m0 r1 r2 r3.
    destruct (k =? 0)%Z; [lra|]. destruct (k =? 1)%Z; [lra|]. destruct (k =? 2)%Z; lra. }
  assert (CV : forall k, cp_value a0 a1 b0 b1 k =
     if (k =? 0)%Z then m0 else if (k =? 1)%Z then fst r1 else if (k =? 2)%Z then fst r2 else fst r3) by reflexivity.
  destruct (snd r3) eqn:E3.
  { split; [lia|]. split; [reflexivity|]. split; [exact V|].
    intros k Hk. specialize (L3 eq_refl).
    assert (Hc : (k = 0 \/ k = 1 \/ k = 2)%Z) by lia.
    destruct Hc as [ -> | [ -> | -> ] ]; rewrite CV; simpl; lra. }
  specialize (K3 eq_refl).
  destruct (snd r2) eqn:E2.
  { split; [lia|]. split; [rewrite CV; simpl; symmetry; exact K3|]. split; [exact V|].
    intros k Hk. specialize (L2 eq_refl). rewrite K3.
    assert (Hc : (k = 0 \/ k = 1)%Z) by lia.
    destruct Hc as [ -> | -> ]; rewrite CV; simpl; lra. }
  specialize (K2 eq_refl).
  destruct (snd r1) eqn:E1.
  { split; [lia|]. split; [rewrite CV; simpl; rewrite K3, K2; reflexivity|]. split; [exact V|].
    intros k Hk. specialize (L1 eq_refl). rewrite K3, K2.
    assert (Hc : k = 0%Z) by lia. subst k. rewrite CV; simpl; lra. }
  specialize (K1 eq_refl).
  split; [lia|]. split; [rewrite CV; simpl; rewrite K3, K2, K1; reflexivity|]. split; [exact V|].
  intros k Hk. lia.
Qed.

(** the returned pair: the winning vertex and its projection on the other edge *)
Lemma closest_points_shape a0 a1 b0 b1 isect :
  m_EdgePairClosestPoints false isect a0 a1 b0 b1 =
  let cv := m_closestVertex a0 a1 b0 b1 in
  if (cv =? 0)%Z then (a0, s2_Project a0 b0 b1)
  else if (cv =? 1)%Z then (a1, s2_Project a1 b0 b1)
  else if (cv =? 2)%Z then (s2_Project b0 a0 a1, b0)
  else (s2_Project b1 a0 a1, b1).
Proof. reflexivity. Qed.

Lemma closest_points_crossing a0 a1 b0 b1 isect :
  m_EdgePairClosestPoints true isect a0 a1 b0 b1 = (isect, isect).
Proof. reflexivity. Qed.
