(** C16: the collinear rule of intersectionExact (repaired in /repo 08e0ee9) returns the
    lexicographic minimum of the flagged candidates, for every order in which the candidates
    are presented; the rule as it was before the repair does not. *)
From Coq Require Import ZArith Reals Floats Lra Bool List Permutation.
From Geo Require Import Base.GoPrim Base.F64 Gen.R3 Gen.S2Point Gen.Isect Model.IsectExact.
Import ListNotations.
Local Open Scope R_scope.

(** ** r3.Vector.Cmp and == through ranks *)
Definition nonnan3 (v : r3_Vector) : Prop :=
  nonnan (r3_Vector_X v) /\ nonnan (r3_Vector_Y v) /\ nonnan (r3_Vector_Z v).

Definition key (v : r3_Vector) : R * R * R :=
  (rank (r3_Vector_X v), rank (r3_Vector_Y v), rank (r3_Vector_Z v)).

Definition lexlt (a b : R * R * R) : Prop :=
  let '(x1, y1, z1) := a in let '(x2, y2, z2) := b in
  x1 < x2 \/ (x1 = x2 /\ (y1 < y2 \/ (y1 = y2 /\ z1 < z2))).

Lemma lexlt_dec a b : {lexlt a b} + {~ lexlt a b}.
Proof.
  destruct a as [[x1 y1] z1], b as [[x2 y2] z2]. unfold lexlt.
  destruct (Rlt_dec x1 x2); [left; lra|].
  destruct (Req_EM_T x1 x2); [|right; lra].
  destruct (Rlt_dec y1 y2); [left; lra|].
  destruct (Req_EM_T y1 y2); [|right; lra].
  destruct (Rlt_dec z1 z2); [left; lra| right; lra].
Qed.

Definition lexmin (a b : R * R * R) : R * R * R := if lexlt_dec b a then b else a.

Lemma Cmp_lt_iff v w : nonnan3 v -> nonnan3 w ->
  (r3_Vector_Cmp v w = (-1)%Z <-> lexlt (key v) (key w)).
Proof.
  destruct v as [vx vy vz], w as [wx wy wz]. unfold nonnan3, key, lexlt, r3_Vector_Cmp. simpl.
  intros (Hvx & Hvy & Hvz) (Hwx & Hwy & Hwz).
  destruct (PrimFloat.ltb vx wx) eqn:E1; [float_cmp_to_R; split; [lra|reflexivity]|].
  destruct (PrimFloat.ltb wx vx) eqn:E2; [float_cmp_to_R; split; [discriminate|lra]|].
  destruct (PrimFloat.ltb vy wy) eqn:E3; [float_cmp_to_R; split; [lra|reflexivity]|].
  destruct (PrimFloat.ltb wy vy) eqn:E4; [float_cmp_to_R; split; [discriminate|lra]|].
  destruct (PrimFloat.ltb vz wz) eqn:E5; [float_cmp_to_R; split; [lra|reflexivity]|].
  destruct (PrimFloat.ltb wz vz) eqn:E6; float_cmp_to_R; (split; [discriminate|lra]).
Qed.

Lemma eqb3_iff v w : nonnan3 v -> nonnan3 w ->
  (r3_Vector_eqb v w = true <-> key v = key w).
Proof.
  destruct v as [vx vy vz], w as [wx wy wz]. unfold nonnan3, key, r3_Vector_eqb. simpl.
  intros (Hvx & Hvy & Hvz) (Hwx & Hwy & Hwz). rewrite !andb_true_iff.
  rewrite (eqb_true_iff vx wx), (eqb_true_iff vy wy), (eqb_true_iff vz wz) by assumption.
  split; [intros [[-> ->] ->]; reflexivity | intros H; inversion H; auto].
Qed.

(** ** lexmin is a commutative, associative choice *)
Lemma lexmin_swap k a b : lexmin (lexmin k a) b = lexmin (lexmin k b) a.
Proof.
  destruct k as [[kx ky] kz], a as [[ax ay] az], b as [[bx by_] bz].
  unfold lexmin.
  destruct (lexlt_dec (ax, ay, az) (kx, ky, kz)); destruct (lexlt_dec (bx, by_, bz) (kx, ky, kz));
  repeat match goal with |- context [lexlt_dec ?p ?q] => destruct (lexlt_dec p q) end;
  try reflexivity; unfold lexlt in *; try (exfalso; lra);
  f_equal; try f_equal; lra.
Qed.

(** ** the repaired rule = fold of lexmin over the flagged candidates *)
Definition kstep (k : R * R * R) (c : bool * s2_Point) : R * R * R :=
  if fst c then lexmin k (key (s2_Point_Vector (snd c))) else k.

Definition cands_ok (cands : list (bool * s2_Point)) : Prop :=
  Forall (fun c => nonnan3 (s2_Point_Vector (snd c))) cands.

Lemma coll_step_key x c : nonnan3 x -> nonnan3 (s2_Point_Vector (snd c)) ->
  key (coll_step x c) = kstep (key x) c /\ nonnan3 (coll_step x c).
Proof.
  intros Hx Hc. unfold coll_step, kstep. destruct (fst c); simpl; [|auto].
  unfold lexmin. destruct (lexlt_dec (key (s2_Point_Vector (snd c))) (key x)) as [L|L].
  - apply (Cmp_lt_iff _ _ Hc Hx) in L. rewrite L. simpl. auto.
  - destruct (Z.eqb_spec (r3_Vector_Cmp (s2_Point_Vector (snd c)) x) (-1)) as [E|E]; [|auto].
    apply (Cmp_lt_iff _ _ Hc Hx) in E. contradiction.
Qed.

Lemma fold_coll_key cands : forall x, nonnan3 x -> cands_ok cands ->
  key (fold_left coll_step cands x) = fold_left kstep cands (key x).
Proof.
  induction cands as [|c t IH]; intros x Hx Hc; simpl; [reflexivity|].
  inversion Hc as [|? ? Hc1 Hc2]; subst.
  destruct (coll_step_key x c Hx Hc1) as [E N]. rewrite IH by assumption. now rewrite E.
Qed.

Lemma kstep_swap k c1 c2 : kstep (kstep k c1) c2 = kstep (kstep k c2) c1.
Proof. unfold kstep. destruct (fst c1), (fst c2); try reflexivity. apply lexmin_swap. Qed.

Lemma fold_kstep_perm l l' : Permutation l l' -> forall k, fold_left kstep l k = fold_left kstep l' k.
Proof.
  induction 1; intros k; simpl; auto.
  - now rewrite kstep_swap.
  - now rewrite IHPermutation1.
Qed.

Lemma nonnan3_ten : nonnan3 vec_ten.
Proof. repeat split; reflexivity. Qed.

(** order independence: any two presentations of the same candidates give == results *)
Theorem collinear_perm cands cands' : cands_ok cands -> Permutation cands cands' ->
  r3_Vector_eqb (coll_pick cands) (coll_pick cands') = true.
Proof.
  intros Hc HP. assert (Hc' : cands_ok cands').
  { unfold cands_ok in *. rewrite Forall_forall in *. intros c Hin. apply Hc.
    eapply Permutation_in; [apply Permutation_sym; eassumption | assumption]. }
  unfold coll_pick.
  assert (N : forall l x, nonnan3 x -> cands_ok l -> nonnan3 (fold_left coll_step l x)).
  { induction l as [|c t IH]; intros x Hx Hl; simpl; auto. inversion Hl; subst.
    apply IH; auto. now apply coll_step_key. }
  apply eqb3_iff; try (apply N; auto using nonnan3_ten).
  rewrite !fold_coll_key by auto using nonnan3_ten. now apply fold_kstep_perm.
Qed.

(** it is the minimum: a member (or the sentinel), and no flagged candidate is smaller *)
Theorem collinear_min cands : cands_ok cands ->
  let r := coll_pick cands in
  (r = vec_ten \/ exists c, In c cands /\ fst c = true /\ r = s2_Point_Vector (snd c)) /\
  (forall c, In c cands -> fst c = true -> r3_Vector_Cmp (s2_Point_Vector (snd c)) r <> (-1)%Z).
Proof.
  intros Hc. unfold coll_pick.
  assert (G : forall l x, nonnan3 x -> cands_ok l ->
     let r := fold_left coll_step l x in
     nonnan3 r /\ (r = x \/ exists c, In c l /\ fst c = true /\ r = s2_Point_Vector (snd c)) /\
     ~ lexlt (key x) (key r) /\
     (forall c, In c l -> fst c = true -> ~ lexlt (key (s2_Point_Vector (snd c))) (key r))).
  { induction l as [|c t IH]; intros x Hx Hl; simpl.
    - split; [assumption|]. split; [left; reflexivity|]. split.
      + destruct (key x) as [[a b] d]. unfold lexlt. lra.
      + intros c [].
    - inversion Hl as [|? ? Hc1 Hc2]; subst.
      destruct (coll_step_key x c Hx Hc1) as [E N].
      destruct (IH (coll_step x c) N Hc2) as (Nr & M & Lx & Lc). split; [assumption|].
      assert (Kx : ~ lexlt (key x) (key (coll_step x c)) /\
                   (fst c = true -> ~ lexlt (key (s2_Point_Vector (snd c))) (key (coll_step x c)))).
      { rewrite E. unfold kstep, lexmin. destruct (fst c).
        - destruct (lexlt_dec (key (s2_Point_Vector (snd c))) (key x)) as [L|L].
          + split; [|intros _]; destruct (key x) as [[? ?] ?], (key (s2_Point_Vector (snd c))) as [[? ?] ?];
            unfold lexlt in *; lra.
          + split; [|intros _; assumption]. destruct (key x) as [[? ?] ?]. unfold lexlt. lra.
        - split; [|discriminate]. destruct (key x) as [[? ?] ?]. unfold lexlt. lra. }
      destruct Kx as [Kx Kc].
      assert (T : forall a b d, ~ lexlt a b -> ~ lexlt b d -> ~ lexlt a d).
      { intros [[? ?] ?] [[? ?] ?] [[? ?] ?]. unfold lexlt. lra. }
      split; [|split].
      + destruct M as [M|(c' & I & F & M)].
        * rewrite M. unfold coll_step. destruct (fst c && _) eqn:Ec; [right|left; reflexivity].
          exists c. apply andb_true_iff in Ec. destruct Ec. auto.
        * right. exists c'. auto.
      + exact (T (key x) (key (coll_step x c)) _ Kx Lx).
      + intros c' [<-|I] F; [|now apply Lc]. exact (T _ (key (coll_step x c)) _ (Kc F) Lx). }
  destruct (G cands vec_ten nonnan3_ten Hc) as (Nr & M & _ & L). split; [exact M|].
  intros c I F E. apply (L c I F). apply Cmp_lt_iff; auto.
  unfold cands_ok in Hc. rewrite Forall_forall in Hc. now apply Hc.
Qed.

(** ** the eight argument orders present permutations of one candidate set, provided the
    "inside the other edge" flag of an endpoint does not depend on the order (which is a fact
    about OrderedCCW/RobustSign, property C02) *)
Definition cands_of (inside : s2_Point -> bool) (a0 a1 b0 b1 : s2_Point) : list (bool * s2_Point) :=
  [(inside a0, a0); (inside a1, a1); (inside b0, b0); (inside b1, b1)].

Theorem collinear_symmetric inside a0 a1 b0 b1 :
  cands_ok (cands_of inside a0 a1 b0 b1) ->
  let r := coll_pick (cands_of inside a0 a1 b0 b1) in
  r3_Vector_eqb r (coll_pick (cands_of inside a1 a0 b0 b1)) = true /\
  r3_Vector_eqb r (coll_pick (cands_of inside a0 a1 b1 b0)) = true /\
  r3_Vector_eqb r (coll_pick (cands_of inside b0 b1 a0 a1)) = true.
Proof.
  intros Hc r. unfold r, cands_of. repeat split; apply collinear_perm; auto.
  - apply perm_swap.
  - do 2 apply perm_skip. apply perm_swap.
  - change [(inside b0, b0); (inside b1, b1); (inside a0, a0); (inside a1, a1)]
      with ([(inside b0, b0); (inside b1, b1)] ++ [(inside a0, a0); (inside a1, a1)]).
    change [(inside a0, a0); (inside a1, a1); (inside b0, b0); (inside b1, b1)]
      with ([(inside a0, a0); (inside a1, a1)] ++ [(inside b0, b0); (inside b1, b1)]).
    apply Permutation_app_comm.
Qed.

(** ** the rule before 08e0ee9 ("return the first candidate that passes") is order dependent.
    Witness: points on the equator at angles 0, 0.2 (edge a) and 0.1, 0.3 (edge b). *)
Definition eqpt (c s : PrimFloat.float) : s2_Point := mk_s2_Point (mk_r3_Vector c s 0%float).
Definition w_a0 := eqpt 1%float 0%float.
Definition w_a1 := eqpt (0x1.f5cb49577627ap-1)%float (0x1.96dff233dd2bcp-3)%float.   (* cos 0.2, sin 0.2 *)
Definition w_b0 := eqpt (0x1.fd712f9a817c1p-1)%float (0x1.98eaecb8bcb2cp-4)%float.   (* cos 0.1, sin 0.1 *)
Definition w_b1 := eqpt (0x1.e921dd42f09bap-1)%float (0x1.2e9cd95baba33p-2)%float.   (* cos 0.3, sin 0.3 *)

Theorem collinear_old_refuted :
  isect_exact_collinear w_a0 w_a1 w_b0 w_b1 = true /\
  s2_Point_eqb (s2_intersectionExact_old_first w_a0 w_a1 w_b0 w_b1)
               (s2_intersectionExact_old_first w_b0 w_b1 w_a0 w_a1) = false /\
  s2_Point_eqbits (s2_intersectionExact w_a0 w_a1 w_b0 w_b1)
                  (s2_intersectionExact w_b0 w_b1 w_a0 w_a1) = true.
Proof. vm_compute. repeat split. Qed.
