(** C09 — round trip of the compressed polygon format, byte level.

    [decode_polygon (encode_polygon_compressed level p)] returns, for every loop, the vertex
    list in which each vertex that the encoder classified as a cell centre of [level] is
    replaced by the centre the decoder reconstructs ([recon]), every other vertex comes back
    bit for bit from the off-centre list, and the origin flag, the depth and (from 64
    vertices on) the bound are unchanged.  No float reasoning here: that the reconstructed
    centre is the original vertex is the separate exactness step (C09_Exact.v). *)
From Coq Require Import ZArith List Bool Lia.
From Geo Require Import Base.GoPrim Base.Bytes Gen.Codec Model.Codec.
From Geo Require Import Proofs.C09_Prims Proofs.C09_Interleave Proofs.C09_Lossless.
Import ListNotations.
Local Open Scope Z_scope.

(** what the decoder computes for a vertex *)
Definition centre (level : Z) (x : xfst) : point :=
  point_of_vec (s2_facePiQitoXYZ (x_face x) (s2_siTitoPiQi (x_si x) level) (s2_siTitoPiQi (x_ti x) level) level).
Definition recon (level : Z) (x : xfst) : point :=
  if x_level x =? level then centre level x else x_xyz x.

Definition xfst_ok (x : xfst) : Prop :=
  vertex_ok (x_xyz x) /\ 0 <= x_face x < 6 /\ u32 (x_si x) /\ u32 (x_ti x).

(** * (si,ti) -> (pi,qi) stays below 2^level *)
Lemma piqi_range si level : u32 si -> 0 <= level <= 30 -> 0 <= s2_siTitoPiQi si level < 2 ^ level.
Proof.
  unfold u32. intros Hs Hl. unfold s2_siTitoPiQi.
  assert (Hw : wrap_u64 si = si) by (apply wrap_u64_small; change (2 ^ 32) with 4294967296 in Hs; change (2 ^ 64) with 18446744073709551616; lia).
  rewrite Hw.
  assert (Hwl : wrap_u64 level = level) by (apply wrap_u64_small; change (2 ^ 64) with 18446744073709551616; lia).
  rewrite Hwl.
  assert (Hw2 : wrap_u64 (31 - level) = 31 - level) by (apply wrap_u64_small; change (2 ^ 64) with 18446744073709551616; lia).
  rewrite Hw2. unfold go_shr. replace (31 - level <? 0) with false by (symmetry; apply Z.ltb_ge; lia).
  set (s := if 2147483647 <? si then 2147483647 else si).
  assert (Hs' : 0 <= s < 2 ^ 31).
  { unfold s. change (2 ^ 31) with 2147483648. destruct (2147483647 <? si) eqn:E; [lia|apply Z.ltb_ge in E; lia]. }
  cbv zeta. fold s. rewrite Z.shiftr_div_pow2 by lia.
  assert (Hq : 0 <= s / 2 ^ (31 - level) < 2 ^ level).
  { split. { apply Z.div_pos; [lia|apply Z.pow_pos_nonneg; lia]. }
    apply Z.div_lt_upper_bound. { apply Z.pow_pos_nonneg; lia. }
    rewrite <- Z.pow_add_r by lia. replace (31 - level + level) with 31 by lia. lia. }
  rewrite wrap_u32_id; [exact Hq|]. unfold u32. split; [lia|].
  eapply Z.lt_le_trans; [apply Hq|]. apply Z.pow_le_mono_r; lia.
Qed.

(** * Face runs *)
Fixpoint expand (faces : list (Z * Z)) : list Z :=
  match faces with [] => [] | (f, c) :: r => repeat f (Z.to_nat c) ++ expand r end.
Definition runs_pos (faces : list (Z * Z)) : Prop := Forall (fun fc => 1 <= snd fc) faces.
Fixpoint runs_total (faces : list (Z * Z)) : Z := match faces with [] => 0 | fc :: r => snd fc + runs_total r end.

Lemma face_runs_spec fs :
  expand (face_runs fs) = fs /\ runs_pos (face_runs fs) /\ runs_total (face_runs fs) = len fs
  /\ (forall f c r, face_runs fs = (f, c) :: r -> exists t, fs = f :: t).
Proof.
  induction fs as [|f t (IHe & IHp & IHt & IHh)].
  - cbn. split; [reflexivity|]. split; [constructor|]. split; [reflexivity|]. intros; discriminate.
  - cbn [face_runs]. destruct (face_runs t) as [|[g c] r] eqn:E.
    + cbn in IHe. subst t. cbn. split; [reflexivity|]. split; [repeat constructor; cbn; lia|]. split; [reflexivity|]. intros ? ? ? H; injection H as <- _ _; eauto.
    + destruct (IHh g c r eq_refl) as [t' Ht]. pose proof IHp as IHp'. apply Forall_cons_iff in IHp'. destruct IHp' as [Hc Hr]. cbn [snd] in Hc.
      destruct (f =? g) eqn:Efg.
      * apply Z.eqb_eq in Efg. subst g. repeat split.
        -- cbn [expand] in *. replace (Z.to_nat (c + 1)) with (S (Z.to_nat c)) by lia. cbn [repeat app]. now rewrite IHe.
        -- constructor; [cbn; lia|exact Hr].
        -- cbn [runs_total snd] in *. unfold len in *. cbn [length]. rewrite Nat2Z.inj_succ. lia.
        -- intros ? ? ? H. injection H as <- _ _. eauto.
      * repeat split.
        -- cbn [expand] in *. change (Z.to_nat 1) with 1%nat. cbn [repeat app]. now rewrite IHe.
        -- constructor; [cbn; lia|]. constructor; [cbn; lia|exact Hr].
        -- cbn [runs_total snd] in *. unfold len in *. cbn [length]. rewrite Nat2Z.inj_succ. lia.
        -- intros ? ? ? H. injection H as <- _ _. eauto.
Qed.

Lemma face_runs_faces fs : Forall (fun f => 0 <= f < 6) fs -> Forall (fun fc => 0 <= fst fc < 6) (face_runs fs).
Proof.
  induction fs as [|f t IH]; intros H; cbn [face_runs]; [constructor|].
  apply Forall_cons_iff in H. destruct H as [Hf Ht]. specialize (IH Ht).
  destruct (face_runs t) as [|[g c] r].
  - constructor; [exact Hf|constructor].
  - apply Forall_cons_iff in IH. destruct IH as [Hg Hr]. cbn [fst] in Hg.
    destruct (f =? g).
    + constructor; [exact Hg|exact Hr].
    + constructor; [exact Hf|]. constructor; [exact Hg|exact Hr].
Qed.

Lemma decode_face_run_app f c t lg : 0 <= f < 6 -> 1 <= c <= s2_maxEncodedVertices ->
  decode_face_run ((enc_face_run (f, c) ++ t) @ lg) = ((f, c), t @ lg).
Proof.
  intros Hf Hc. rewrite max_vertices_val in Hc. unfold decode_face_run, enc_face_run. cbn [fst snd].
  change s2_NumFaces with 6.
  rewrite (wrap_u64_small c) by (change (2 ^ 64) with 18446744073709551616; lia).
  rewrite (wrap_u64_small f) by (change (2 ^ 64) with 18446744073709551616; lia).
  rewrite (wrap_u64_small (6 * c + f)) by (change (2 ^ 64) with 18446744073709551616; lia).
  rewrite read_uvarint_write by (change (2 ^ 64) with 18446744073709551616; lia).
  replace ((6 * c + f) mod 6) with f by (Z.div_mod_to_equations; lia).
  replace ((6 * c + f) / 6) with c by (Z.div_mod_to_equations; lia).
  rewrite !wrap_i64_small by (change (2 ^ 63) with 9223372036854775808; lia).
  replace (c <=? 0) with false by (symmetry; apply Z.leb_gt; lia). reflexivity.
Qed.

Lemma runs_total_nonneg runs : runs_pos runs -> 0 <= runs_total runs.
Proof. induction 1; cbn [runs_total] in *; lia. Qed.

Lemma faces_body_app acc np f c t lg : 0 <= f < 6 -> 1 <= c -> 0 <= np -> np + c <= s2_maxEncodedVertices ->
  faces_body (acc, np, (enc_face_run (f, c) ++ t) @ lg) = ((f, c) :: acc, np + c, t @ lg).
Proof.
  intros Hf Hc Hnp Hn. unfold faces_body. rewrite decode_face_run_app by lia. cbn [failed d_st snd].
  rewrite wrap_i64_small by (rewrite max_vertices_val in Hn; change (2 ^ 63) with 9223372036854775808; lia).
  reflexivity.
Qed.

(** the loop of decodeFaces on the encoded runs, with any amount of spare iterations *)
Lemma faces_loop n runs : forall k acc np t lg,
  runs_pos runs -> Forall (fun fc => 0 <= fst fc < 6) runs ->
  0 <= np -> np + runs_total runs = n -> n <= s2_maxEncodedVertices -> (length runs <= k)%nat ->
  iter_n k (step (faces_stop n) faces_body) (acc, np, (flat_map enc_face_run runs ++ t) @ lg)
  = (rev runs ++ acc, n, t @ lg).
Proof.
  induction runs as [|[f c] r IH]; intros k acc np t lg Hp Hf Hnp Hsum Hn Hk.
  - cbn [runs_total] in Hsum. cbn [flat_map app rev]. rewrite iter_step_stop.
    + f_equal. f_equal. lia.
    + unfold faces_stop. cbn [fst snd failed d_st]. apply Z.leb_le. lia.
  - apply Forall_cons_iff in Hp. destruct Hp as [Hc Hr]. apply Forall_cons_iff in Hf. destruct Hf as [Hf1 Hf2]. cbn [fst snd] in *.
    cbn [runs_total snd] in Hsum.
    pose proof (runs_total_nonneg r Hr) as Hr0.
    destruct k as [|k]; [cbn in Hk; lia|]. cbn [iter_n].
    assert (St : faces_stop n (acc, np, (flat_map enc_face_run ((f, c) :: r) ++ t) @ lg) = false).
    { unfold faces_stop. cbn [fst snd failed d_st orb]. apply Z.leb_gt. lia. }
    unfold step at 2. rewrite St. cbn [flat_map]. rewrite <- app_assoc.
    rewrite faces_body_app by lia.
    rewrite (IH k ((f, c) :: acc) (np + c) t lg); auto; try lia.
    + cbn [rev]. now rewrite <- app_assoc.
    + cbn in Hk. lia.
Qed.

Lemma runs_length_le runs : runs_pos runs -> Z.of_nat (length runs) <= runs_total runs.
Proof. induction 1; cbn [length runs_total] in *; [lia|]. rewrite Nat2Z.inj_succ. lia. Qed.

Lemma decode_faces_app runs n t lg :
  runs_pos runs -> Forall (fun fc => 0 <= fst fc < 6) runs -> runs_total runs = n -> n <= s2_maxEncodedVertices ->
  exists lg', decode_faces n ((flat_map enc_face_run runs ++ t) @ lg) = (runs, t @ lg').
Proof.
  intros Hp Hf Hsum Hn. unfold decode_faces. rewrite rep_iter.
  pose proof (runs_length_le runs Hp) as Hl. pose proof (runs_total_nonneg runs Hp) as H0.
  rewrite (faces_loop n runs (Z.to_nat n) [] 0 t lg); auto; try lia.
  rewrite app_nil_r. cbn [failed d_st]. rewrite rev_length, rev_involutive.
  rewrite go_make_ok. { eauto. }
  rewrite max_make_val. rewrite max_vertices_val in Hn. lia.
Qed.

(** * The vertex loop *)
(** the faces still to be shown by the iterator *)
Definition remaining (faces : list (Z * Z)) (shown : Z) : list Z :=
  match faces with [] => [] | (f, c) :: r => repeat f (Z.to_nat (c - shown)) ++ expand r end.
Definition iter_ok (faces : list (Z * Z)) (shown : Z) : Prop :=
  runs_pos faces /\ match faces with [] => shown = 0 | (f, c) :: _ => 0 <= shown < c end.

Definition piqi (level : Z) (x : xfst) : Z * Z := (s2_siTitoPiQi (x_si x) level, s2_siTitoPiQi (x_ti x) level).

Lemma i32_of_small p : 0 <= p < 2 ^ 30 -> i32 p.
Proof. unfold i32. change (2 ^ 30) with 1073741824. change (2 ^ 31) with 2147483648. lia. Qed.

(** decodePointCompressed after encodePointCompressed, coders in step *)
Lemma next_point_app pc qc p q t lg : coder_wf pc -> coder_wf qc -> 0 <= p < 2 ^ 30 -> 0 <= q < 2 ^ 30 ->
  let '(pc', cp) := coder_encode pc (wrap_i32 p) in
  let '(qc', cq) := coder_encode qc (wrap_i32 q) in
  decode_next_point pc qc ((put_uvarint (s2_interleaveUint32 (s2_zigzagEncode cp) (s2_zigzagEncode cq)) ++ t) @ lg)
  = (p, q, pc', qc', t @ lg) /\ coder_wf pc' /\ coder_wf qc'.
Proof.
  intros Wp Wq Hp Hq.
  rewrite (wrap_i32_id p) by (now apply i32_of_small). rewrite (wrap_i32_id q) by (now apply i32_of_small).
  pose proof (coder_step pc p Wp (i32_of_small p Hp)) as Sp. destruct (coder_encode pc p) as [pc' cp]. destruct Sp as (Dp & Wp' & Rp).
  pose proof (coder_step qc q Wq (i32_of_small q Hq)) as Sq. destruct (coder_encode qc q) as [qc' cq]. destruct Sq as (Dq & Wq' & Rq).
  split; [|split; auto]. unfold decode_next_point.
  pose proof (zigzag_encode_range cp Rp) as Zp. pose proof (zigzag_encode_range cq Rq) as Zq.
  rewrite read_uvarint_write by (now apply interleave_range).
  rewrite interleave_roundtrip by auto. rewrite !zigzag_roundtrip by auto. rewrite Dp, Dq.
  rewrite !wrap_u32_id by (unfold u32; change (2 ^ 30) with 1073741824 in *; change (2 ^ 32) with 4294967296; lia).
  reflexivity.
Qed.

(** the first point occupies exactly 2*ceil(level/8) bytes *)
Lemma interleave_small a b c : 0 <= c <= 4 -> 0 <= a < 256 ^ c -> 0 <= b < 256 ^ c ->
  0 <= s2_interleaveUint32 a b < 256 ^ (2 * c).
Proof.
  intros Hc Ha Hb.
  assert (chunk 0 0 = 0) as Hz0 by reflexivity.
  assert (Hc' : c = 0 \/ c = 1 \/ c = 2 \/ c = 3 \/ c = 4) by lia.
  assert (Ua : u32 a). { unfold u32. split; [lia|]. eapply Z.lt_le_trans; [apply Ha|]. change (2 ^ 32) with (256 ^ 4). apply Z.pow_le_mono_r; lia. }
  assert (Ub : u32 b). { unfold u32. split; [lia|]. eapply Z.lt_le_trans; [apply Hb|]. change (2 ^ 32) with (256 ^ 4). apply Z.pow_le_mono_r; lia. }
  rewrite interleave_sum by auto.
  destruct (bytes_range a Ua) as (A0 & A1 & A2 & A3). destruct (bytes_range b Ub) as (B0 & B1 & B2 & B3).
  destruct (chunk_facts _ _ A0 B0) as (C0 & _). destruct (chunk_facts _ _ A1 B1) as (C1 & _).
  destruct (chunk_facts _ _ A2 B2) as (C2 & _). destruct (chunk_facts _ _ A3 B3) as (C3 & _).
  change (2 ^ 16) with 65536. change (2 ^ 32) with 4294967296. change (2 ^ 48) with 281474976710656.
  unfold byte0, byte1, byte2, byte3 in *.
  destruct Hc' as [-> | [-> | [-> | [-> | ->]]]].
  - change (256 ^ 0) with 1 in *. assert (a = 0) by lia. assert (b = 0) by lia. subst. cbn. lia.
  - change (256 ^ 1) with 256 in *. change (256 ^ (2 * 1)) with 65536.
    replace (a / 256 mod 256) with 0 in * by (Z.div_mod_to_equations; lia). replace (b / 256 mod 256) with 0 in * by (Z.div_mod_to_equations; lia).
    replace (a / 65536 mod 256) with 0 in * by (Z.div_mod_to_equations; lia). replace (b / 65536 mod 256) with 0 in * by (Z.div_mod_to_equations; lia).
    replace (a / 16777216) with 0 in * by (Z.div_mod_to_equations; lia). replace (b / 16777216) with 0 in * by (Z.div_mod_to_equations; lia).
    rewrite Hz0. lia.
  - change (256 ^ 2) with 65536 in *. change (256 ^ (2 * 2)) with 4294967296.
    replace (a / 65536 mod 256) with 0 in * by (Z.div_mod_to_equations; lia). replace (b / 65536 mod 256) with 0 in * by (Z.div_mod_to_equations; lia).
    replace (a / 16777216) with 0 in * by (Z.div_mod_to_equations; lia). replace (b / 16777216) with 0 in * by (Z.div_mod_to_equations; lia).
    rewrite Hz0. lia.
  - change (256 ^ 3) with 16777216 in *. change (256 ^ (2 * 3)) with 281474976710656.
    replace (a / 16777216) with 0 in * by (Z.div_mod_to_equations; lia). replace (b / 16777216) with 0 in * by (Z.div_mod_to_equations; lia).
    rewrite Hz0. lia.
  - change (256 ^ (2 * 4)) with 18446744073709551616. lia.
Qed.

Lemma first_point_app level p q t lg : 0 <= level <= 30 -> 0 <= p < 2 ^ level -> 0 <= q < 2 ^ level ->
  let co := coder_new s2_derivativeEncodingOrder in
  let '(pc', cp) := coder_encode co (wrap_i32 p) in
  let '(qc', cq) := coder_encode co (wrap_i32 q) in
  decode_first_point level co co
    ((le_bytes (first_point_bytes level) (s2_interleaveUint32 (wrap_u32 cp) (wrap_u32 cq)) ++ t) @ lg)
  = (p, q, pc', qc', t @ lg) /\ coder_wf pc' /\ coder_wf qc'.
Proof.
  intros Hl Hp Hq co.
  assert (P30 : 2 ^ level <= 2 ^ 30) by (apply Z.pow_le_mono_r; lia).
  assert (Wc : coder_wf co) by (apply coder_new_wf; change s2_derivativeEncodingOrder with 2; lia).
  rewrite (wrap_i32_id p) by (apply i32_of_small; lia). rewrite (wrap_i32_id q) by (apply i32_of_small; lia).
  pose proof (coder_step co p Wc (i32_of_small p ltac:(lia))) as Sp.
  pose proof (coder_step co q Wc (i32_of_small q ltac:(lia))) as Sq.
  (* a fresh coder passes its first input through *)
  assert (E1 : forall k, snd (coder_encode co k) = k) by (intro k; reflexivity).
  pose proof (E1 p) as Ep. pose proof (E1 q) as Eq.
  destruct (coder_encode co p) as [pc' cp]. destruct (coder_encode co q) as [qc' cq].
  cbn [snd] in Ep, Eq. subst cp cq. destruct Sp as (Dp & Wp' & Rp). destruct Sq as (Dq & Wq' & Rq).
  split; [|split; auto]. unfold decode_first_point.
  assert (Up : u32 p) by (unfold u32; change (2 ^ 30) with 1073741824 in *; change (2 ^ 32) with 4294967296; lia).
  assert (Uq : u32 q) by (unfold u32; change (2 ^ 30) with 1073741824 in *; change (2 ^ 32) with 4294967296; lia).
  rewrite !wrap_u32_id by auto.
  set (c := (level + 7) / 8).
  assert (Hc : 0 <= c <= 4) by (unfold c; Z.div_mod_to_equations; lia).
  assert (Hpow : 2 ^ level <= 256 ^ c).
  { change 256 with (2 ^ 8). rewrite <- Z.pow_mul_r by lia. apply Z.pow_le_mono_r; [lia|]. unfold c. Z.div_mod_to_equations. lia. }
  pose proof (interleave_small p q c Hc ltac:(lia) ltac:(lia)) as Hs.
  unfold first_point_bytes. fold c.
  rewrite read_le_app.
  2:{ rewrite Z2Nat.id by lia. replace (c * 2) with (2 * c) by lia. exact Hs. }
  rewrite wrap_u64_small by (split; [lia|]; eapply Z.lt_le_trans; [apply Hs|]; change (2 ^ 64) with (256 ^ (2 * 4)); apply Z.pow_le_mono_r; lia).
  rewrite interleave_roundtrip by auto.
  rewrite !wrap_i32_id by (apply i32_of_small; lia). rewrite Dp, Dq.
  rewrite !wrap_u32_id by auto. reflexivity.
Qed.

Lemma remaining_step f0 fs faces shown : iter_ok faces shown -> remaining faces shown = f0 :: fs ->
  exists c rest, faces = (f0, c) :: rest /\
    ((c <=? shown + 1) = true /\ remaining rest 0 = fs /\ iter_ok rest 0
     \/ (c <=? shown + 1) = false /\ remaining ((f0, c) :: rest) (shown + 1) = fs /\ iter_ok ((f0, c) :: rest) (shown + 1)).
Proof.
  intros (Hp & Hs) Hr. destruct faces as [|[f c] rest]; [discriminate|]. cbn [remaining] in Hr.
  inversion Hp as [|? ? Hc Hrest]; subst. cbn [snd] in Hc.
  replace (Z.to_nat (c - shown)) with (S (Z.to_nat (c - shown - 1))) in Hr by lia. cbn [repeat app] in Hr.
  injection Hr as Hf Hfs. subst f. exists c, rest. split; [reflexivity|].
  destruct (c <=? shown + 1) eqn:E.
  - left. apply Z.leb_le in E. split; [reflexivity|]. replace (c - shown - 1) with 0 in Hfs by lia. cbn [Z.to_nat repeat app] in Hfs.
    split.
    + destruct rest as [|[g e] r2]; [exact Hfs|]. cbn [remaining]. rewrite Z.sub_0_r. exact Hfs.
    + split; [exact Hrest|]. destruct rest as [|[g e] r2]; [reflexivity|]. inversion Hrest as [|? ? He _]; subst. cbn [snd] in He. lia.
  - right. apply Z.leb_gt in E. split; [reflexivity|]. split.
    + cbn [remaining]. replace (c - (shown + 1)) with (c - shown - 1) by lia. exact Hfs.
    + split; [exact Hp|]. lia.
Qed.

Lemma vertex_body_next level i pc qc f c rest shown cur acc D p q pc1 qc1 d1 :
  i <> 0 -> decode_next_point pc qc D = (p, q, pc1, qc1, d1) -> failed d1 = false ->
  vertex_body level (mkvs i pc qc ((f, c) :: rest) shown cur acc D) =
  if c <=? shown + 1 then mkvs (i + 1) pc1 qc1 rest 0 f (point_of_vec (s2_facePiQitoXYZ f p q level) :: acc) d1
  else mkvs (i + 1) pc1 qc1 ((f, c) :: rest) (shown + 1) f (point_of_vec (s2_facePiQitoXYZ f p q level) :: acc) d1.
Proof.
  intros Hi E F. unfold vertex_body. cbn [vs_i vs_pc vs_qc vs_d vs_faces vs_shown vs_cur vs_acc].
  replace (i =? 0) with false by (symmetry; now apply Z.eqb_neq). rewrite E. reflexivity.
Qed.
Lemma vertex_body_first level pc qc f c rest shown cur acc D p q pc1 qc1 d1 :
  decode_first_point level pc qc D = (p, q, pc1, qc1, d1) ->
  vertex_body level (mkvs 0 pc qc ((f, c) :: rest) shown cur acc D) =
  if c <=? shown + 1 then mkvs (0 + 1) pc1 qc1 rest 0 f (point_of_vec (s2_facePiQitoXYZ f p q level) :: acc) d1
  else mkvs (0 + 1) pc1 qc1 ((f, c) :: rest) (shown + 1) f (point_of_vec (s2_facePiQitoXYZ f p q level) :: acc) d1.
Proof.
  intros E. unfold vertex_body. cbn [vs_i vs_pc vs_qc vs_d vs_faces vs_shown vs_cur vs_acc].
  rewrite Z.eqb_refl. rewrite E. reflexivity.
Qed.

(** all vertices after the first *)
Lemma vertex_tail level : forall xs i pc qc faces shown cur acc t lg,
  0 <= level <= 30 -> Forall xfst_ok xs -> 1 <= i -> coder_wf pc -> coder_wf qc ->
  iter_ok faces shown -> remaining faces shown = map x_face xs ->
  exists pc' qc' faces' shown' cur',
    rep vertex_stop (vertex_body level) (len xs)
        (mkvs i pc qc faces shown cur acc ((enc_piqi false level pc qc (map (piqi level) xs) ++ t) @ lg))
    = mkvs (i + len xs) pc' qc' faces' shown' cur' (rev (map (centre level) xs) ++ acc) (t @ lg).
Proof.
  induction xs as [|x xs IH]; intros i pc qc faces shown cur acc t lg Hl Hxs Hi Wp Wq Hit Hrem.
  - cbn. rewrite Z.add_0_r. eauto 10.
  - inversion Hxs as [|? ? Hx Hxs']; subst. destruct Hx as (Hxyz & Hface & Hsi & Hti).
    unfold len. cbn [length]. rewrite rep_of_nat_succ.
    cbn [map enc_piqi]. unfold piqi at 1.
    pose proof (piqi_range (x_si x) level Hsi Hl) as Rp. pose proof (piqi_range (x_ti x) level Hti Hl) as Rq.
    assert (P30 : 2 ^ level <= 2 ^ 30) by (apply Z.pow_le_mono_r; lia).
    pose proof (next_point_app pc qc (s2_siTitoPiQi (x_si x) level) (s2_siTitoPiQi (x_ti x) level) (enc_piqi false level
       (fst (coder_encode pc (wrap_i32 (s2_siTitoPiQi (x_si x) level))))
       (fst (coder_encode qc (wrap_i32 (s2_siTitoPiQi (x_ti x) level)))) (map (piqi level) xs) ++ t) lg Wp Wq
       ltac:(lia) ltac:(lia)) as N.
    destruct (coder_encode pc (wrap_i32 (s2_siTitoPiQi (x_si x) level))) as [pc1 cp].
    destruct (coder_encode qc (wrap_i32 (s2_siTitoPiQi (x_ti x) level))) as [qc1 cq]. cbn [fst] in N.
    destruct N as (N & Wp1 & Wq1).
    cbn [map] in Hrem.
    destruct (remaining_step _ _ _ _ Hit Hrem) as (c & rest & -> & Hcase).
    unfold step. unfold vertex_stop at 2. cbn [vs_d failed d_st].
    rewrite <- app_assoc. rewrite (vertex_body_next level i pc qc (x_face x) c rest shown cur acc _ _ _ _ _ _ ltac:(lia) N eq_refl).
    destruct Hcase as [(E & Hrem' & Hit')|(E & Hrem' & Hit')]; rewrite E.
    + destruct (IH (i + 1) pc1 qc1 rest 0 (x_face x) (centre level x :: acc) t lg Hl Hxs' ltac:(lia) Wp1 Wq1 Hit' Hrem')
        as (pc' & qc' & faces' & shown' & cur' & R).
      exists pc', qc', faces', shown', cur'. unfold len in R. unfold centre at 1 in R. rewrite R.
      f_equal; [rewrite Nat2Z.inj_succ; lia|]. cbn [map rev]. now rewrite <- app_assoc.
    + destruct (IH (i + 1) pc1 qc1 ((x_face x, c) :: rest) (shown + 1) (x_face x) (centre level x :: acc) t lg Hl Hxs' ltac:(lia) Wp1 Wq1 Hit' Hrem')
        as (pc' & qc' & faces' & shown' & cur' & R).
      exists pc', qc', faces', shown', cur'. unfold len in R. unfold centre at 1 in R. rewrite R.
      f_equal; [rewrite Nat2Z.inj_succ; lia|]. cbn [map rev]. now rewrite <- app_assoc.
Qed.

(** the whole vertex loop *)
Lemma vertex_loop level xs faces t lg :
  0 <= level <= 30 -> Forall xfst_ok xs -> runs_pos faces -> expand faces = map x_face xs ->
  let co := coder_new s2_derivativeEncodingOrder in
  exists s, rep vertex_stop (vertex_body level) (len xs)
                (mkvs 0 co co faces 0 0 [] ((enc_piqi true level co co (map (piqi level) xs) ++ t) @ lg)) = s
            /\ rev (vs_acc s) = map (centre level) xs /\ vs_d s = t @ lg.
Proof.
  intros Hl Hxs Hp He co.
  destruct xs as [|x xs].
  - eexists. split; [reflexivity|]. cbn. auto.
  - inversion Hxs as [|? ? Hx Hxs']; subst. destruct Hx as (Hxyz & Hface & Hsi & Hti).
    unfold len. cbn [length]. rewrite rep_of_nat_succ.
    cbn [map enc_piqi]. unfold piqi at 1.
    pose proof (piqi_range (x_si x) level Hsi Hl) as Rp. pose proof (piqi_range (x_ti x) level Hti Hl) as Rq.
    pose proof (first_point_app level (s2_siTitoPiQi (x_si x) level) (s2_siTitoPiQi (x_ti x) level) (enc_piqi false level
       (fst (coder_encode co (wrap_i32 (s2_siTitoPiQi (x_si x) level))))
       (fst (coder_encode co (wrap_i32 (s2_siTitoPiQi (x_ti x) level)))) (map (piqi level) xs) ++ t) lg Hl Rp Rq) as N.
    cbv zeta in N. fold co in N.
    destruct (coder_encode co (wrap_i32 (s2_siTitoPiQi (x_si x) level))) as [pc1 cp].
    destruct (coder_encode co (wrap_i32 (s2_siTitoPiQi (x_ti x) level))) as [qc1 cq]. cbn [fst] in N.
    destruct N as (N & Wp1 & Wq1).
    assert (Hit : iter_ok faces 0).
    { split; [exact Hp|]. destruct faces as [|[f c] r]; [reflexivity|]. inversion Hp as [|? ? Hc _]; subst. cbn [snd] in Hc. lia. }
    assert (Hrem : remaining faces 0 = x_face x :: map x_face xs).
    { cbn [map] in He. destruct faces as [|[f c] r]; [discriminate|]. cbn [remaining]. rewrite Z.sub_0_r. exact He. }
    destruct (remaining_step _ _ _ _ Hit Hrem) as (c & rest & -> & Hcase).
    unfold step. unfold vertex_stop at 2. cbn [vs_d failed d_st].
    rewrite <- app_assoc. rewrite (vertex_body_first level co co (x_face x) c rest 0 0 [] _ _ _ _ _ _ N).
    destruct Hcase as [(E & Hrem' & Hit')|(E & Hrem' & Hit')]; rewrite E.
    + destruct (vertex_tail level xs (0 + 1) pc1 qc1 rest 0 (x_face x) [centre level x] t lg Hl Hxs' ltac:(lia) Wp1 Wq1 Hit' Hrem')
        as (pc' & qc' & faces' & shown' & cur' & R).
      eexists. split; [reflexivity|]. unfold len in R. unfold centre at 1 in R. rewrite R. cbn [vs_acc vs_d].
      split; [|reflexivity]. rewrite rev_app_distr, rev_involutive. reflexivity.
    + destruct (vertex_tail level xs (0 + 1) pc1 qc1 ((x_face x, c) :: rest) (0 + 1) (x_face x) [centre level x] t lg Hl Hxs' ltac:(lia) Wp1 Wq1 Hit' Hrem')
        as (pc' & qc' & faces' & shown' & cur' & R).
      eexists. split; [reflexivity|]. unfold len in R. unfold centre at 1 in R. rewrite R. cbn [vs_acc vs_d].
      split; [|reflexivity]. rewrite rev_app_distr, rev_involutive. reflexivity.
Qed.

(** * The off-centre list *)
Definition apply_offc (pts : list point) (oc : list (Z * point)) : list point :=
  fold_left (fun ps ip => updZ ps (fst ip) (snd ip)) oc pts.
Definition enc_offc (ip : Z * point) : list Z := put_uvarint (wrap_u64 (fst ip)) ++ enc_point (snd ip).

Lemma offc_loop n : forall oc pts t lg,
  Forall (fun ip => 0 <= fst ip < n /\ vertex_ok (snd ip)) oc -> n <= s2_maxEncodedVertices ->
  rep offc_stop (offc_body n) (len oc) (pts, (flat_map enc_offc oc ++ t) @ lg) = (apply_offc pts oc, t @ lg).
Proof.
  induction oc as [|[i p] oc IH]; intros pts t lg H Hn.
  - reflexivity.
  - inversion H as [|? ? (Hi & Hp) H']; subst. cbn [fst snd] in *. rewrite max_vertices_val in Hn.
    unfold len. cbn [length]. rewrite rep_of_nat_succ. unfold step. unfold offc_stop at 2. cbn [snd failed d_st].
    unfold offc_body at 2. cbn [flat_map]. unfold enc_offc at 1. cbn [fst snd]. rewrite <- !app_assoc.
    rewrite wrap_u64_small by (change (2 ^ 64) with 18446744073709551616; lia).
    rewrite read_uvarint_write by (change (2 ^ 64) with 18446744073709551616; lia).
    rewrite wrap_i64_small by (change (2 ^ 63) with 9223372036854775808; lia). cbn [failed d_st].
    replace ((i <? 0) || (n <=? i)) with false.
    2:{ symmetry. apply orb_false_iff. split; [apply Z.ltb_ge|apply Z.leb_gt]; lia. }
    unfold go_index. cbn [failed d_st].
    replace ((i <? 0) || (n <=? i)) with false.
    2:{ symmetry. apply orb_false_iff. split; [apply Z.ltb_ge|apply Z.leb_gt]; lia. }
    rewrite read_vertex_app by auto. fold (len oc). rewrite IH; auto.
Qed.

Lemma upd_nat_app {A} (pre : list A) x rest v : upd_nat (pre ++ x :: rest) (length pre) v = pre ++ v :: rest.
Proof. induction pre; cbn; congruence. Qed.

(** replacing the off-centre vertices in the list of reconstructed centres gives [recon] *)
Lemma apply_offc_spec level : forall xs pre,
  apply_offc (pre ++ map (centre level) xs) (off_centre (len pre) level xs) = pre ++ map (recon level) xs.
Proof.
  induction xs as [|x xs IH]; intros pre; [reflexivity|].
  cbn [off_centre map]. unfold recon at 1. destruct (x_level x =? level) eqn:E.
  - cbn [app]. replace (len pre + 1) with (len (pre ++ [centre level x])).
    2:{ unfold len. rewrite app_length. cbn [length]. lia. }
    replace (pre ++ centre level x :: map (centre level) xs) with ((pre ++ [centre level x]) ++ map (centre level) xs)
      by (rewrite <- app_assoc; reflexivity).
    rewrite IH. now rewrite <- app_assoc.
  - cbn [app]. unfold apply_offc. cbn [fold_left fst snd]. unfold updZ.
    replace (len pre <? 0) with false by (symmetry; apply Z.ltb_ge; unfold len; lia).
    replace (Z.to_nat (len pre)) with (length pre) by (unfold len; now rewrite Nat2Z.id).
    rewrite upd_nat_app.
    replace (len pre + 1) with (len (pre ++ [x_xyz x])).
    2:{ unfold len. rewrite app_length. cbn [length]. lia. }
    replace (pre ++ x_xyz x :: map (centre level) xs) with ((pre ++ [x_xyz x]) ++ map (centre level) xs)
      by (rewrite <- app_assoc; reflexivity).
    change (fold_left (fun (ps : list point) (ip : Z * point) => if fst ip <? 0 then ps else upd_nat ps (Z.to_nat (fst ip)) (snd ip))
              (off_centre (len (pre ++ [x_xyz x])) level xs) ((pre ++ [x_xyz x]) ++ map (centre level) xs))
      with (apply_offc ((pre ++ [x_xyz x]) ++ map (centre level) xs) (off_centre (len (pre ++ [x_xyz x])) level xs)).
    rewrite IH. now rewrite <- app_assoc.
Qed.

Lemma off_centre_ok level : forall xs i0, 0 <= i0 -> Forall xfst_ok xs ->
  Forall (fun ip => 0 <= fst ip < i0 + len xs /\ vertex_ok (snd ip)) (off_centre i0 level xs)
  /\ len (off_centre i0 level xs) <= len xs.
Proof.
  induction xs as [|x xs IH]; intros i0 Hi H; [split; [constructor|cbn; lia]|].
  inversion H as [|? ? Hx Hxs]; subst. destruct (IH (i0 + 1) ltac:(lia) Hxs) as (F & L).
  assert (E : len (x :: xs) = 1 + len xs) by (unfold len; cbn [length]; rewrite Nat2Z.inj_succ; lia).
  cbn [off_centre]. split.
  - apply Forall_app. split.
    + destruct (x_level x =? level); constructor; [|constructor]. cbn [fst snd]. destruct Hx as (Hp & _).
      pose proof (len_nonneg xs). split; [lia|exact Hp].
    + eapply Forall_impl; [|exact F]. intros [i p] (A & B). cbn [fst snd] in *. split; [lia|exact B].
  - unfold len in *. rewrite app_length. destruct (x_level x =? level); cbn [length] in *; lia.
Qed.

(** * decodePointsCompressed after encodePointsCompressed *)
Lemma points_compressed_app level xs t lg : 0 <= level <= 30 -> Forall xfst_ok xs -> len xs <= s2_maxEncodedVertices ->
  exists lg', decode_points_compressed level (len xs) ((encode_points_compressed xs level ++ t) @ lg)
              = (map (recon level) xs, t @ lg').
Proof.
  intros Hl Hxs Hn. unfold decode_points_compressed, encode_points_compressed.
  destruct (face_runs_spec (map x_face xs)) as (He & Hp & Ht & _).
  assert (Hf : Forall (fun fc => 0 <= fst fc < 6) (face_runs (map x_face xs))).
  { apply face_runs_faces. rewrite Forall_map. eapply Forall_impl; [|exact Hxs]. intros x (_ & F & _). exact F. }
  assert (Ht' : runs_total (face_runs (map x_face xs)) = len xs) by (rewrite Ht; unfold len; now rewrite map_length).
  rewrite <- !app_assoc.
  destruct (decode_faces_app _ (len xs) (enc_piqi true level (coder_new s2_derivativeEncodingOrder) (coder_new s2_derivativeEncodingOrder)
              (map (fun x => (s2_siTitoPiQi (x_si x) level, s2_siTitoPiQi (x_ti x) level)) xs)
              ++ put_uvarint (len (off_centre 0 level xs))
              ++ flat_map (fun ip => put_uvarint (wrap_u64 (fst ip)) ++ enc_point (snd ip)) (off_centre 0 level xs) ++ t) lg Hp Hf Ht' Hn) as [lg1 E1].
  rewrite E1.
  destruct (vertex_loop level xs (face_runs (map x_face xs))
              (put_uvarint (len (off_centre 0 level xs))
               ++ flat_map (fun ip => put_uvarint (wrap_u64 (fst ip)) ++ enc_point (snd ip)) (off_centre 0 level xs) ++ t) lg1 Hl Hxs Hp He)
    as (s & Es & Eacc & Ed).
  cbv zeta in Es. change (map (fun x => (s2_siTitoPiQi (x_si x) level, s2_siTitoPiQi (x_ti x) level)) xs) with (map (piqi level) xs).
  rewrite Es, Eacc, Ed. cbn [failed d_st].
  destruct (off_centre_ok level xs 0 ltac:(lia) Hxs) as (Foc & Loc). rewrite Z.add_0_l in Foc.
  pose proof (len_nonneg (off_centre 0 level xs)) as L0. rewrite max_vertices_val in Hn.
  rewrite read_uvarint_write by (change (2 ^ 64) with 18446744073709551616; lia).
  rewrite wrap_i64_small by (change (2 ^ 63) with 9223372036854775808; lia). cbn [failed d_st].
  replace (len xs <? len (off_centre 0 level xs)) with false by (symmetry; apply Z.ltb_ge; lia).
  change (flat_map (fun ip => put_uvarint (wrap_u64 (fst ip)) ++ enc_point (snd ip)) (off_centre 0 level xs))
    with (flat_map enc_offc (off_centre 0 level xs)).
  rewrite offc_loop by (auto; rewrite max_vertices_val; lia).
  exists lg1. f_equal. exact (apply_offc_spec level xs []).
Qed.

(** * Loops and polygons *)
Definition cloop_view (level : Z) (l : loop) : cloop :=
  if len (l_vertices l) =? 0 then
    (if Z.land (loop_props l) s2_boundEncoded =? 0 then empty_cloop
     else mkcloop [] (l_origin_inside l) (l_depth l) (Some (l_bound l)))
  else mkcloop (map (fun v => recon level (xyz_face_siti v)) (l_vertices l)) (l_origin_inside l) (l_depth l)
               (if s2_Loop_compressedEncodingProperties_minVerticesForBound <=? len (l_vertices l)
                then Some (l_bound l) else None).

Definition cloop_ok (l : loop) : Prop :=
  Forall vertex_ok (l_vertices l) /\ Forall (fun v => xfst_ok (xyz_face_siti v)) (l_vertices l)
  /\ - 2 ^ 63 <= l_depth l < 2 ^ 63 /\ rect_ok (l_bound l).

Lemma loop_props_cases l :
  (loop_props l = 0 \/ loop_props l = 1 \/ loop_props l = 2 \/ loop_props l = 3)
  /\ negb (Z.land (loop_props l) s2_originInside =? 0) = l_origin_inside l
  /\ (Z.land (loop_props l) s2_boundEncoded =? 0) = negb (s2_Loop_compressedEncodingProperties_minVerticesForBound <=? len (l_vertices l)).
Proof.
  unfold loop_props. destruct (l_origin_inside l); destruct (_ <=? _); cbn; auto 10.
Qed.

Lemma cloop_app level l bs t lg : 0 <= level <= 30 -> cloop_ok l ->
  encode_cloop level (l, map xyz_face_siti (l_vertices l)) = Some bs ->
  exists lg', decode_cloop_body level ((bs ++ t) @ lg) = (cloop_view level l, t @ lg').
Proof.
  intros Hl (Hv & Hx & Hd & Hb) He. unfold encode_cloop in He.
  destruct (s2_maxEncodedVertices <? len (l_vertices l)) eqn:C; [discriminate|]. apply Z.ltb_ge in C.
  injection He as <-. pose proof (len_nonneg (l_vertices l)) as L0.
  destruct (loop_props_cases l) as (Pc & Po & Pb).
  unfold decode_cloop_body. rewrite <- !app_assoc.
  rewrite read_uvarint_write by (rewrite max_vertices_val in C; change (2 ^ 64) with 18446744073709551616; lia).
  cbn [failed d_st]. replace (s2_maxEncodedVertices <? len (l_vertices l)) with false by (symmetry; apply Z.ltb_ge; lia).
  rewrite go_make_ok by (rewrite max_make_val; rewrite max_vertices_val in C; lia).
  assert (Hlen : len (map xyz_face_siti (l_vertices l)) = len (l_vertices l)) by (unfold len; now rewrite map_length).
  assert (Hxs : Forall xfst_ok (map xyz_face_siti (l_vertices l))) by (rewrite Forall_map; exact Hx).
  destruct (points_compressed_app level (map xyz_face_siti (l_vertices l))
             (put_uvarint (loop_props l) ++ put_uvarint (wrap_u64 (l_depth l))
              ++ (if Z.land (loop_props l) s2_boundEncoded =? 0 then [] else encode_rect (l_bound l)) ++ t)
             ((AVertices, len (l_vertices l)) :: lg) Hl Hxs ltac:(lia)) as [lg1 E1].
  rewrite Hlen in E1. rewrite E1.
  rewrite read_uvarint_write by (change (2 ^ 64) with 18446744073709551616; lia). cbn [failed d_st].
  assert (Hw : 0 <= wrap_u64 (l_depth l) < 2 ^ 64) by (unfold wrap_u64, wrap_u; apply Z.mod_pos_bound; lia).
  rewrite read_uvarint_write by exact Hw.
  assert (Hdep : wrap_i64 (wrap_u64 (l_depth l)) = l_depth l).
  { unfold wrap_i64, wrap_i, wrap_u64, wrap_u. change (2 ^ 64) with 18446744073709551616. change (2 ^ (64 - 1)) with 9223372036854775808.
    change (2 ^ 63) with 9223372036854775808 in Hd.
    destruct (l_depth l mod 18446744073709551616 mod 18446744073709551616 <? 9223372036854775808) eqn:E;
      [apply Z.ltb_lt in E|apply Z.ltb_ge in E]; Z.div_mod_to_equations; lia. }
  rewrite Hdep, Po. unfold cloop_view. rewrite map_map.
  destruct (Z.land (loop_props l) s2_boundEncoded =? 0) eqn:B; cbn [negb].
  - cbn [app]. symmetry in Pb. apply negb_true_iff in Pb. rewrite Pb.
    destruct (len (l_vertices l) =? 0) eqn:Ez0.
    + exists lg1. reflexivity.
    + exists lg1. reflexivity.
  - symmetry in Pb. apply negb_false_iff in Pb. rewrite Pb.
    rewrite decode_rect_body_app by auto.
    destruct (len (l_vertices l) =? 0) eqn:Ez0.
    + apply Z.eqb_eq in Ez0. exists lg1. unfold len in Ez0. destruct (l_vertices l); [reflexivity|cbn in Ez0; lia].
    + exists lg1. reflexivity.
Qed.

Lemma concat_opt_some {A} (f : A -> option (list Z)) xs body : concat_opt (map f xs) = Some body ->
  exists bxs, map f xs = map Some bxs /\ body = concat bxs.
Proof.
  revert body. induction xs as [|x xs IH]; intros body H; cbn [map concat_opt] in H.
  - injection H as <-. exists []. auto.
  - destruct (f x) as [bx|] eqn:E; [|discriminate].
    destruct (concat_opt (map f xs)) as [b|] eqn:E2; [|discriminate]. injection H as <-.
    destruct (IH b eq_refl) as (bxs & M & ->). exists (bx :: bxs). cbn [map concat]. rewrite E. now rewrite M.
Qed.

Lemma read_many_pairs {A} (rd1 : dec -> A * dec) : forall (vs : list A) (bxs : list (list Z)) acc t lg,
  length vs = length bxs ->
  (forall v bx t lg, In (v, bx) (combine vs bxs) -> exists lg', rd1 ((bx ++ t) @ lg) = (v, t @ lg')) ->
  exists lg', rep many_stop (many_body rd1) (Z.of_nat (length vs)) (acc, (concat bxs ++ t) @ lg) = (rev vs ++ acc, t @ lg').
Proof.
  induction vs as [|v vs IH]; intros bxs acc t lg Hlen H; destruct bxs as [|bx bxs]; try discriminate.
  - exists lg. reflexivity.
  - cbn [length]. rewrite rep_of_nat_succ. rewrite many_step. unfold many_body at 2. cbn [fst snd concat].
    rewrite <- app_assoc. destruct (H v bx (concat bxs ++ t) lg (or_introl eq_refl)) as [lg1 E1]. rewrite E1.
    destruct (IH bxs (v :: acc) t lg1) as [lg2 E2]; [cbn in Hlen; lia| |].
    { intros v' bx' t' lg' Hin. apply H. now right. }
    exists lg2. rewrite E2. cbn [rev]. now rewrite <- app_assoc.
Qed.

Definition polygon_okc (p : polygon) : Prop := Forall cloop_ok (p_loops p).

(** Polygon.Decode after Polygon.encodeCompressed *)
Theorem roundtrip_polygon_compressed level p bs : 0 <= level <= 30 -> polygon_okc p ->
  encode_polygon_compressed level p (polygon_xs p) = Some bs ->
  decode_polygon bs = Ok (DCompressed (map (cloop_view level) (p_loops p))).
Proof.
  intros Hl Hp He. unfold encode_polygon_compressed in He.
  destruct (s2_maxEncodedLoops <? len (p_loops p)) eqn:C; [discriminate|]. apply Z.ltb_ge in C.
  destruct (concat_opt (map (encode_cloop level) (combine (p_loops p) (polygon_xs p)))) as [body|] eqn:E; [|discriminate].
  injection He as <-. apply concat_opt_some in E. destruct E as (bxs & M & ->).
  pose proof (len_nonneg (p_loops p)) as L0. rewrite max_loops_val in C.
  apply run_app. intros t lg. unfold decode_polygon_body.
  cbn [app]. rewrite <- ?app_comm_cons. rewrite <- ?app_assoc.
  replace (wrap_u8 level) with level by (unfold wrap_u8, wrap_u; symmetry; apply Z.mod_small; change (2 ^ 8) with 256; lia).
  rewrite read_u8_cons by (change cversion_byte with 4; lia).
  change (wrap_i8 cversion_byte =? s2_encodingVersion) with false.
  change (wrap_i8 cversion_byte =? s2_encodingCompressedVersion) with true. cbv iota.
  unfold decode_polygon_compressed_body. rewrite read_u8_cons by lia.
  replace (s2_MaxLevel <? level) with false by (symmetry; apply Z.ltb_ge; change s2_MaxLevel with 30; lia).
  rewrite read_uvarint_write by (change (2 ^ 64) with 18446744073709551616; lia). cbn [failed d_st].
  replace (s2_maxEncodedLoops <? len (p_loops p)) with false by (symmetry; apply Z.ltb_ge; rewrite max_loops_val; lia).
  rewrite go_make_ok by (rewrite max_make_val; lia).
  (* the loops, one by one *)
  assert (Hm : length (map (cloop_view level) (p_loops p)) = length bxs).
  { rewrite map_length. apply (f_equal (@length _)) in M. rewrite !map_length, combine_length in M.
    unfold polygon_xs in M. rewrite map_length, Nat.min_id in M. exact M. }
  destruct (read_many_pairs (decode_cloop_body level) (map (cloop_view level) (p_loops p)) bxs [] t ((ALoops, len (p_loops p)) :: lg) Hm) as [lg1 E1].
  { intros v bx t' lg' Hin.
    (* (v, bx) comes from one loop l *)
    assert (exists l, In l (p_loops p) /\ v = cloop_view level l /\ encode_cloop level (l, map xyz_face_siti (l_vertices l)) = Some bx) as (l & Hl1 & -> & Hl3).
    { clear - Hin M. unfold polygon_xs in M. revert bxs M Hin. induction (p_loops p) as [|l ls IH]; intros bxs M Hin.
      - destruct bxs; cbn in Hin; contradiction.
      - destruct bxs as [|b bxs]; [discriminate|]. cbn [map combine] in M, Hin. injection M as M1 M2.
        destruct Hin as [Hin|Hin].
        + injection Hin as <- <-. exists l. repeat split; auto. now left.
        + destruct (IH bxs M2 Hin) as (l' & A & B & D). exists l'. repeat split; auto. now right. }
    apply cloop_app; auto. unfold polygon_okc in Hp. rewrite Forall_forall in Hp. now apply Hp. }
  unfold read_many. rewrite map_length in E1. unfold len in *. rewrite E1. cbn [fst snd].
  exists lg1. now rewrite app_nil_r, rev_involutive.
Qed.
