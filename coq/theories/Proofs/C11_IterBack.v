(** C11 — CellIndexRangeIterator: Finish, Advance, Prev (plain and non-empty).
    Statements about the executable model Model/CellIndex.v, Section RangeIter, for an
    arbitrary range list [rs] with at least one entry (the last entry is the sentinel range;
    positions are 0..n-1; [ri_Done pos] <-> n-1 <= pos).  [ri_IsEmpty] is "contents = doneContents". *)
From Coq Require Import ZArith List Bool Lia ZifyBool.
From Geo Require Import Base.GoPrim Model.CellUnion Model.CellIndex.
Import ListNotations.
Local Open Scope Z_scope.

Section IterBack.
  Variable rs : list rnode.
  Let n := Z.of_nat (length rs).
  Hypothesis n_ge_1 : 1 <= Z.of_nat (length rs).

  (** ** [ri_skip]: generic facts (no build hypothesis) *)
  Lemma ib_skip_S nonEmpty k pos : ri_skip rs nonEmpty (S k) pos =
    if nonEmpty && ri_IsEmpty rs pos && negb (ri_Done rs pos) then ri_skip rs nonEmpty k (pos + 1) else pos.
  Proof. reflexivity. Qed.

  Lemma ib_skip_plain fuel pos : ri_skip rs false fuel pos = pos.
  Proof. destruct fuel; reflexivity. Qed.

  Lemma ib_next_plain pos : ri_Next rs false pos = pos + 1.
  Proof. unfold ri_Next. apply ib_skip_plain. Qed.

  (** one more unit of fuel changes nothing once the fuel reaches the sentinel *)
  Lemma ib_skip_fuel nonEmpty : forall (fuel : nat) pos, n - 1 - pos <= Z.of_nat fuel ->
    ri_skip rs nonEmpty (S fuel) pos = ri_skip rs nonEmpty fuel pos.
  Proof.
    induction fuel as [|f IH]; intros pos H.
    - rewrite ib_skip_S. cbn [ri_skip]. unfold ri_Done. fold n.
      destruct (Z.leb_spec (n - 1) pos); [|lia]. cbn [negb]. rewrite Bool.andb_false_r. reflexivity.
    - rewrite (ib_skip_S nonEmpty (S f) pos). rewrite (ib_skip_S nonEmpty f pos).
      destruct (nonEmpty && ri_IsEmpty rs pos && negb (ri_Done rs pos)); [|reflexivity].
      apply IH. lia.
  Qed.

  (** the non-empty skip stops at the first position that is non-empty or Done *)
  Lemma ib_skip_spec : forall (fuel : nat) pos, 0 <= pos <= n - 1 -> n - 1 - pos <= Z.of_nat fuel ->
    let q := ri_skip rs true fuel pos in
    pos <= q <= n - 1 /\ (forall j, pos <= j < q -> ri_IsEmpty rs j = true) /\ (q < n - 1 -> ri_IsEmpty rs q = false).
  Proof.
    induction fuel as [|f IH]; intros pos Hp Hf; cbv zeta.
    - cbn [ri_skip]. assert (pos = n - 1) by lia. split; [lia|]. split; intros; lia.
    - rewrite ib_skip_S. cbn [andb]. unfold ri_Done. fold n.
      destruct (ri_IsEmpty rs pos) eqn:E; cbn [andb].
      + destruct (Z.leb_spec (n - 1) pos) as [Hd|Hd]; cbn [negb].
        * split; [lia|]. split; intros; lia.
        * destruct (IH (pos + 1) ltac:(lia) ltac:(lia)) as (H1 & H2 & H3). split; [lia|]. split; [|exact H3].
          intros j Hj. destruct (Z.eq_dec j pos) as [->|]; [exact E|]. apply H2. lia.
      + split; [lia|]. split; [intros; lia|intros _; exact E].
  Qed.

  Definition ib_stop (q : Z) : Prop := 0 <= q <= n - 1 /\ (q < n - 1 -> ri_IsEmpty rs q = false).

  Lemma ib_begin_spec : let q := ri_Begin rs true in
    ib_stop q /\ forall j, 0 <= j < q -> ri_IsEmpty rs j = true.
  Proof.
    cbv zeta. unfold ri_Begin.
    destruct (ib_skip_spec (length rs) 0 ltac:(lia) ltac:(unfold n; lia)) as (H1 & H2 & H3).
    split; [split; [lia|exact H3]|exact H2].
  Qed.

  Lemma ib_next_spec pos : 0 <= pos < n - 1 -> let q := ri_Next rs true pos in
    ib_stop q /\ pos < q /\ forall j, pos < j < q -> ri_IsEmpty rs j = true.
  Proof.
    intros Hp. cbv zeta. unfold ri_Next.
    destruct (ib_skip_spec (length rs) (pos + 1) ltac:(lia) ltac:(unfold n; lia)) as (H1 & H2 & H3).
    split; [split; [lia|exact H3]|]. split; [lia|]. intros j Hj. apply H2. lia.
  Qed.

  (** a stop point below which everything is empty is where Begin lands *)
  Lemma ib_begin_unique pos : ib_stop pos -> (forall j, 0 <= j < pos -> ri_IsEmpty rs j = true) ->
    ri_Begin rs true = pos.
  Proof.
    intros [Hp Hne] Hbelow. destruct ib_begin_spec as [[Hq Hqne] Hqb]. cbv zeta in *.
    set (q := ri_Begin rs true) in *.
    destruct (Z.lt_trichotomy q pos) as [H|[H|H]]; [|exact H|].
    - specialize (Hqne ltac:(lia)). specialize (Hbelow q ltac:(lia)). congruence.
    - specialize (Hne ltac:(lia)). specialize (Hqb pos ltac:(lia)). congruence.
  Qed.

  (** ** Finish *)
  Theorem ri_Finish_done :
    ri_Done rs (ri_Finish rs) = true /\ 0 <= ri_Finish rs < n /\
    (forall p, ri_Done rs p = true -> ri_Finish rs <= p) /\
    (forall p, ri_Finish rs <= p -> ri_Done rs p = true).
  Proof.
    unfold ri_Done, ri_Finish. fold n. split; [lia|]. split; [unfold n; lia|]. split; intros p H; lia.
  Qed.

  (** ** Advance *)
  Theorem ri_Advance_spec pos k :
    (pos + k < n - 1 -> ri_Advance rs pos k = (pos + k, true)) /\
    (n - 1 <= pos + k -> ri_Advance rs pos k = (pos, false)) /\
    (snd (ri_Advance rs pos k) = true <-> pos + k < n - 1) /\
    (0 <= pos -> 0 <= k -> pos + k < n - 1 ->
       0 <= fst (ri_Advance rs pos k) < n - 1 /\ ri_Done rs (fst (ri_Advance rs pos k)) = false).
  Proof.
    unfold ri_Advance, ri_Done. fold n.
    destruct (Z.leb_spec (n - 1 - pos) k) as [H|H]; cbn [fst snd].
    - split; [intros; lia|]. split; [reflexivity|]. split; [split; [discriminate|lia]|]. intros; lia.
    - split; [reflexivity|]. split; [intros; lia|]. split; [split; [lia|reflexivity]|]. intros; lia.
  Qed.

  Lemma ib_iter_next_plain : forall (m : nat) pos, Nat.iter m (ri_Next rs false) pos = pos + Z.of_nat m.
  Proof.
    induction m as [|m IH]; intros pos; [cbn; lia|].
    cbn [Nat.iter nat_rect]. change (nat_rect (fun _ => Z) pos (fun _ => ri_Next rs false) m) with (Nat.iter m (ri_Next rs false) pos).
    rewrite IH, ib_next_plain. lia.
  Qed.

  (** Advance(k) that succeeds = k times the plain Next *)
  Theorem ri_Advance_iter_Next pos k : 0 <= k -> pos + k < n - 1 ->
    ri_Advance rs pos k = (Nat.iter (Z.to_nat k) (ri_Next rs false) pos, true).
  Proof.
    intros Hk H. destruct (ri_Advance_spec pos k) as [A _]. rewrite (A H), ib_iter_next_plain.
    f_equal. lia.
  Qed.

  (** ** plain Prev *)
  Theorem ri_Prev_plain pos :
    (0 < pos -> ri_Prev rs false pos = (pos - 1, true) /\ ri_Next rs false (pos - 1) = pos) /\
    (pos = 0 -> ri_Prev rs false pos = (0, false)) /\
    (0 <= pos -> ri_Prev rs false (ri_Next rs false pos) = (pos, true)).
  Proof.
    unfold ri_Prev, ri_prev. split; [|split].
    - intros H. destruct (Z.eqb_spec pos 0); [lia|]. split; [reflexivity|]. rewrite ib_next_plain. lia.
    - intros ->. reflexivity.
    - intros H. rewrite ib_next_plain. destruct (Z.eqb_spec (pos + 1) 0); [lia|]. f_equal. lia.
  Qed.

  (** ** non-empty Prev *)
  Lemma ib_loop_found : forall (fuel : nat) pos q, 0 <= q < pos -> pos < Z.of_nat fuel ->
    ri_IsEmpty rs q = false -> (forall j, q < j < pos -> ri_IsEmpty rs j = true) ->
    ri_nonEmptyPrev_loop rs true fuel pos = (q, true).
  Proof.
    induction fuel as [|f IH]; intros pos q Hq Hf He Hj; [lia|].
    cbn [ri_nonEmptyPrev_loop]. unfold ri_prev. destruct (Z.eqb_spec pos 0); [lia|].
    destruct (Z.eq_dec q (pos - 1)) as [->|Hne].
    - rewrite He. reflexivity.
    - rewrite (Hj (pos - 1)) by lia. cbn [negb]. apply IH; [lia|lia|exact He|]. intros j H. apply Hj. lia.
  Qed.

  Lemma ib_loop_none : forall (fuel : nat) pos, 0 <= pos < Z.of_nat fuel ->
    (forall j, 0 <= j < pos -> ri_IsEmpty rs j = true) ->
    ri_nonEmptyPrev_loop rs true fuel pos =
      ((if ri_IsEmpty rs 0 && negb (ri_Done rs 0) then ri_Next rs true 0 else 0), false).
  Proof.
    induction fuel as [|f IH]; intros pos Hp Hj; [lia|].
    cbn [ri_nonEmptyPrev_loop]. unfold ri_prev. destruct (Z.eqb_spec pos 0) as [->|Hne]; [reflexivity|].
    rewrite (Hj (pos - 1)) by lia. cbn [negb]. apply IH; [lia|]. intros j H. apply Hj. lia.
  Qed.

  (** where the failing non-empty Prev leaves the iterator: exactly where Begin would *)
  Lemma ib_restore_is_begin :
    (if ri_IsEmpty rs 0 && negb (ri_Done rs 0) then ri_Next rs true 0 else 0) = ri_Begin rs true.
  Proof.
    unfold ri_Begin, ri_Next.
    assert (L : length rs = S (pred (length rs))) by lia.
    set (m := pred (length rs)) in *. rewrite L.
    rewrite (ib_skip_S true m 0). cbn [andb].
    destruct (ri_IsEmpty rs 0 && negb (ri_Done rs 0)); [|reflexivity].
    apply ib_skip_fuel. unfold n. lia.
  Qed.

  (** the closest non-empty predecessor exists, or everything before [pos] is empty *)
  Lemma ib_last_nonempty : forall (m : nat),
    (exists q, 0 <= q < Z.of_nat m /\ ri_IsEmpty rs q = false /\ forall j, q < j < Z.of_nat m -> ri_IsEmpty rs j = true) \/
    (forall j, 0 <= j < Z.of_nat m -> ri_IsEmpty rs j = true).
  Proof.
    induction m as [|m IH]; [right; intros; lia|].
    destruct (ri_IsEmpty rs (Z.of_nat m)) eqn:E.
    - destruct IH as [(q & Hq & He & Hj)|Hall].
      + left. exists q. split; [lia|]. split; [exact He|]. intros j H.
        destruct (Z.eq_dec j (Z.of_nat m)) as [->|]; [exact E|]. apply Hj. lia.
      + right. intros j H. destruct (Z.eq_dec j (Z.of_nat m)) as [->|]; [exact E|]. apply Hall. lia.
    - left. exists (Z.of_nat m). split; [lia|]. split; [exact E|]. intros; lia.
  Qed.

  Theorem ri_Prev_nonempty_found pos q : 0 <= q < pos -> pos <= n - 1 ->
    ri_IsEmpty rs q = false -> (forall j, q < j < pos -> ri_IsEmpty rs j = true) ->
    ri_Prev rs true pos = (q, true).
  Proof. intros Hq Hp He Hj. unfold ri_Prev. apply ib_loop_found; [lia|unfold n in Hp; lia|exact He|exact Hj]. Qed.

  Theorem ri_Prev_nonempty_none pos : 0 <= pos <= n - 1 ->
    (forall j, 0 <= j < pos -> ri_IsEmpty rs j = true) ->
    ri_Prev rs true pos = (ri_Begin rs true, false).
  Proof.
    intros Hp Hj. unfold ri_Prev. rewrite <- ib_restore_is_begin. apply ib_loop_none; [unfold n in Hp; lia|exact Hj].
  Qed.

  (** the complete description of the non-empty Prev from any position in range *)
  Theorem ri_Prev_nonempty_spec pos : 0 <= pos <= n - 1 ->
    let r := ri_Prev rs true pos in
    (snd r = true ->
       0 <= fst r < pos /\ ri_IsEmpty rs (fst r) = false /\ forall j, fst r < j < pos -> ri_IsEmpty rs j = true) /\
    (snd r = false ->
       (forall j, 0 <= j < pos -> ri_IsEmpty rs j = true) /\ fst r = ri_Begin rs true /\
       (ib_stop pos -> fst r = pos)) /\
    (snd r = true <-> exists q, 0 <= q < pos /\ ri_IsEmpty rs q = false).
  Proof.
    intros Hp. cbv zeta.
    destruct (ib_last_nonempty (Z.to_nat pos)) as [(q & Hq & He & Hj)|Hall]; rewrite Z2Nat.id in * by lia.
    - rewrite (ri_Prev_nonempty_found pos q Hq ltac:(lia) He Hj). cbn [fst snd].
      split; [intros _; split; [lia|split; [exact He|exact Hj]]|]. split; [discriminate|].
      split; [intros _; exists q; split; [lia|exact He]|reflexivity].
    - rewrite (ri_Prev_nonempty_none pos Hp Hall). cbn [fst snd].
      split; [discriminate|]. split.
      + intros _. split; [exact Hall|]. split; [reflexivity|]. intros Hs. apply ib_begin_unique; assumption.
      + split; [discriminate|]. intros (q & Hq & He). rewrite (Hall q Hq) in He. discriminate.
  Qed.

  (** Prev inverts Next on the non-empty enumeration *)
  Theorem ri_Prev_Next_nonempty p : 0 <= p < n - 1 -> ri_IsEmpty rs p = false ->
    p < ri_Next rs true p <= n - 1 /\ ri_Prev rs true (ri_Next rs true p) = (p, true).
  Proof.
    intros Hp He. destruct (ib_next_spec p Hp) as [[Hq _] [Hlt Hj]]. cbv zeta in *.
    split; [lia|]. apply ri_Prev_nonempty_found; [lia|lia|exact He|exact Hj].
  Qed.

  (** and Next inverts a successful Prev taken from a stop point *)
  Theorem ri_Next_Prev_nonempty pos : ib_stop pos -> snd (ri_Prev rs true pos) = true ->
    ri_Next rs true (fst (ri_Prev rs true pos)) = pos.
  Proof.
    intros [Hp Hne] Hb. destruct (ri_Prev_nonempty_spec pos Hp) as [A _]. cbv zeta in A.
    destruct (A Hb) as (Hq & He & Hj). set (q := fst (ri_Prev rs true pos)) in *.
    destruct (ib_next_spec q ltac:(lia)) as [[Hr Hrne] [Hlt Hrj]]. cbv zeta in *.
    set (r := ri_Next rs true q) in *.
    destruct (Z.lt_trichotomy r pos) as [H|[H|H]]; [|exact H|].
    - specialize (Hrne ltac:(lia)). specialize (Hj r ltac:(lia)). congruence.
    - specialize (Hne ltac:(lia)). specialize (Hrj pos ltac:(lia)). congruence.
  Qed.
  (** ** histories: the non-empty iterator stays on non-empty ranges (or Done) *)
  Lemma ib_search_go_bounds (f : Z -> bool) : forall (fuel : nat) i j, i <= j -> i <= search_go fuel f i j <= j.
  Proof.
    induction fuel as [|fuel IH]; intros i j Hij; cbn [search_go]; [lia|].
    destruct (Z.ltb_spec i j) as [Hlt|Hge]; [|lia]. cbv zeta.
    assert (Hh : i <= (i + j) / 2 < j) by (split; [apply Z.div_le_lower_bound|apply Z.div_lt_upper_bound]; lia).
    set (h := (i + j) / 2) in *. destruct (f h).
    - specialize (IH i h ltac:(lia)). lia.
    - specialize (IH (h + 1) j ltac:(lia)). lia.
  Qed.

  (** the position where Seek starts its skip (no sortedness of [rs] is needed for the bound) *)
  Lemma ib_seek_start t :
    let r := sort_Search (Z.of_nat (length rs)) (fun i => t <? fst (nth_rnode rs i)) - 1 in
    0 <= (if r <? 0 then 0 else r) <= n - 1.
  Proof.
    cbv zeta. unfold sort_Search.
    pose proof (ib_search_go_bounds (fun i => t <? fst (nth_rnode rs i)) (Z.to_nat (Z.of_nat (length rs))) 0 (Z.of_nat (length rs)) ltac:(lia)) as B.
    set (r := search_go _ _ _ _) in *. fold n in B. destruct (Z.ltb_spec (r - 1) 0); lia.
  Qed.

  Lemma ib_seek_stop t : ib_stop (ri_Seek rs true t).
  Proof.
    unfold ri_Seek. cbv zeta. pose proof (ib_seek_start t) as B. cbv zeta in B.
    set (p := if _ <? 0 then 0 else _) in *.
    destruct (ib_skip_spec (length rs) p B ltac:(unfold n; lia)) as (H1 & H2 & H3).
    split; [lia|exact H3].
  Qed.

  Lemma ib_seek_plain_range t : 0 <= ri_Seek rs false t <= n - 1.
  Proof.
    unfold ri_Seek. cbv zeta. rewrite ib_skip_plain. exact (ib_seek_start t).
  Qed.

  (** one operation of [ri_run] *)
  Definition ib_step (nonEmpty : bool) (pos : Z) (op : ri_op) : Z * bool :=
    match op with
    | OpBegin => (ri_Begin rs nonEmpty, true)
    | OpNext => (ri_Next rs nonEmpty pos, true)
    | OpPrev => ri_Prev rs nonEmpty pos
    | OpSeek target => (ri_Seek rs nonEmpty target, true)
    | OpFinish => (ri_Finish rs, true)
    | OpAdvance k => ri_Advance rs pos k
    end.

  Lemma ib_run_cons nonEmpty pos op t :
    ri_run rs nonEmpty pos (op :: t) = ib_step nonEmpty pos op :: ri_run rs nonEmpty (fst (ib_step nonEmpty pos op)) t.
  Proof.
    destruct op; cbn [ri_run ib_step fst]; try reflexivity.
    - destruct (ri_Prev rs nonEmpty pos); reflexivity.
    - destruct (ri_Advance rs pos k); reflexivity.
  Qed.

  (** legal use: Next only when not Done; Advance only if [adv], and then with k >= 0 *)
  Definition ib_op_ok (adv : bool) (pos : Z) (op : ri_op) : Prop :=
    match op with
    | OpNext => ri_Done rs pos = false
    | OpAdvance k => adv = true /\ 0 <= k
    | _ => True
    end.
  Fixpoint ib_legal (adv nonEmpty : bool) (pos : Z) (ops : list ri_op) : Prop :=
    match ops with
    | [] => True
    | op :: t => ib_op_ok adv pos op /\ ib_legal adv nonEmpty (fst (ib_step nonEmpty pos op)) t
    end.

  Lemma ib_step_stop pos op : ib_stop pos -> ib_op_ok false pos op -> ib_stop (fst (ib_step true pos op)).
  Proof.
    intros Hs Hok. destruct op; cbn [ib_step fst ib_op_ok] in *.
    - exact (proj1 ib_begin_spec).
    - unfold ri_Done in Hok. fold n in Hok. destruct Hs as [Hp _].
      exact (proj1 (ib_next_spec pos ltac:(lia))).
    - destruct (ri_Prev_nonempty_spec pos (proj1 Hs)) as (A & B & _). cbv zeta in *.
      destruct (snd (ri_Prev rs true pos)) eqn:E.
      + destruct (A eq_refl) as (Hq & He & _). destruct Hs as [Hp _]. split; [lia|intros _; exact He].
      + destruct (B eq_refl) as (_ & _ & R). rewrite (R Hs). exact Hs.
    - apply ib_seek_stop.
    - unfold ri_Finish. fold n. split; [lia|intros; lia].
    - destruct Hok as [Hf _]. discriminate.
  Qed.

  Theorem ib_history_stop : forall ops pos, ib_stop pos -> ib_legal false true pos ops ->
    Forall ib_stop (map fst (ri_run rs true pos ops)).
  Proof.
    induction ops as [|op t IH]; intros pos Hs Hl; [constructor|].
    rewrite ib_run_cons. destruct Hl as [Hok Hl]. cbn [map]. pose proof (ib_step_stop pos op Hs Hok) as H.
    constructor; [exact H|]. apply IH; assumption.
  Qed.

  Lemma ib_step_range pos op : 0 <= pos <= n - 1 -> ib_op_ok true pos op -> 0 <= fst (ib_step false pos op) <= n - 1.
  Proof.
    intros Hp Hok. destruct op; cbn [ib_step fst ib_op_ok] in *.
    - unfold ri_Begin. rewrite ib_skip_plain. lia.
    - rewrite ib_next_plain. unfold ri_Done in Hok. fold n in Hok. lia.
    - destruct (ri_Prev_plain pos) as (A & B & _). destruct (Z.eq_dec pos 0) as [E|E].
      + rewrite (B E). cbn [fst]. lia.
      + rewrite (proj1 (A ltac:(lia))). cbn [fst]. lia.
    - apply ib_seek_plain_range.
    - unfold ri_Finish. fold n. lia.
    - destruct Hok as [_ Hk]. destruct (ri_Advance_spec pos k) as (A & B & _).
      destruct (Z_lt_le_dec (pos + k) (n - 1)) as [H|H]; [rewrite (A H)|rewrite (B H)]; cbn [fst]; lia.
  Qed.

  Theorem ib_history_plain_range : forall ops pos, 0 <= pos <= n - 1 -> ib_legal true false pos ops ->
    Forall (fun p => 0 <= p <= n - 1) (map fst (ri_run rs false pos ops)).
  Proof.
    induction ops as [|op t IH]; intros pos Hs Hl; [constructor|].
    rewrite ib_run_cons. destruct Hl as [Hok Hl]. cbn [map]. pose proof (ib_step_range pos op Hs Hok) as H.
    constructor; [exact H|]. apply IH; assumption.
  Qed.
End IterBack.

(** ** the premises are satisfiable: a range list with empty runs (contents -1 = doneContents) *)
Definition ib_ex : list rnode := [(1, -1); (3, -1); (5, 0); (7, -1); (9, -1); (11, 2); (13, -1); (15, -1)].

Example ib_ex_finish : ri_Finish ib_ex = 7 /\ ri_Done ib_ex (ri_Finish ib_ex) = true /\ ri_Done ib_ex 6 = false.
Proof. vm_compute. repeat split. Qed.

Example ib_ex_advance :
  ri_Advance ib_ex 2 4 = (6, true) /\ ri_Advance ib_ex 2 5 = (2, false) /\ ri_Advance ib_ex 5 (-3) = (2, true) /\
  Nat.iter 4 (ri_Next ib_ex false) 2 = 6.
Proof. vm_compute. repeat split. Qed.

Example ib_ex_prev_plain :
  ri_Prev ib_ex false 3 = (2, true) /\ ri_Next ib_ex false 2 = 3 /\ ri_Prev ib_ex false 0 = (0, false).
Proof. vm_compute. repeat split. Qed.

(** from the sentinel (7) the closest non-empty predecessor is 5; from 5 it is 2; from 2 there is none
    and the iterator is left where Begin puts it (2) *)
Example ib_ex_prev_nonempty :
  map (ri_Prev ib_ex true) [7; 5; 2] = [(5, true); (2, true); (2, false)] /\ ri_Begin ib_ex true = 2 /\
  map (ri_IsEmpty ib_ex) [0; 1; 2; 3; 4; 5; 6; 7] = [true; true; false; true; true; false; true; true].
Proof. vm_compute. repeat split. Qed.

Example ib_ex_prev_next :
  ri_IsEmpty ib_ex 2 = false /\ ri_Next ib_ex true 2 = 5 /\ ri_Prev ib_ex true (ri_Next ib_ex true 2) = (2, true).
Proof. vm_compute. repeat split. Qed.

(** the hypotheses of the two main theorems, instantiated on the example *)
Example ib_ex_found_premises :
  0 <= 2 < 5 /\ 5 <= Z.of_nat (length ib_ex) - 1 /\ ri_IsEmpty ib_ex 2 = false /\
  (forall j, 2 < j < 5 -> ri_IsEmpty ib_ex j = true).
Proof.
  split; [lia|]. split; [cbn; lia|]. split; [reflexivity|]. intros j H.
  assert (j = 3 \/ j = 4) as [-> | ->] by lia; reflexivity.
Qed.

Example ib_ex_none_premises :
  0 <= 2 <= Z.of_nat (length ib_ex) - 1 /\ (forall j, 0 <= j < 2 -> ri_IsEmpty ib_ex j = true).
Proof.
  split; [cbn; lia|]. intros j H. assert (j = 0 \/ j = 1) as [-> | ->] by lia; reflexivity.
Qed.

(** OpAdvance is excluded from [ib_history_stop]: the non-empty iterator inherits Advance unfiltered,
    so from the non-empty position 2 it lands on the empty, non-Done range 3 *)
Example ib_history_advance_refuted :
  ib_stop ib_ex 2 /\ exists p, In p (map fst (ri_run ib_ex true 2 [OpAdvance 1])) /\
    ri_IsEmpty ib_ex p = true /\ ri_Done ib_ex p = false /\ ~ ib_stop ib_ex p.
Proof.
  split; [split; [cbn; lia|intros _; reflexivity]|]. exists 3. split; [vm_compute; auto|].
  split; [reflexivity|]. split; [reflexivity|]. intros [_ H]. specialize (H ltac:(cbn; lia)). discriminate.
Qed.

(** a legal history on the example that uses every allowed operation *)
Example ib_ex_history :
  ib_stop ib_ex 2 /\ ib_legal ib_ex false true 2 [OpNext; OpPrev; OpPrev; OpSeek 8; OpFinish; OpPrev; OpBegin; OpNext] /\
  map fst (ri_run ib_ex true 2 [OpNext; OpPrev; OpPrev; OpSeek 8; OpFinish; OpPrev; OpBegin; OpNext]) = [5; 2; 2; 5; 7; 5; 2; 5].
Proof.
  split; [split; [cbn; lia|intros _; reflexivity]|]. split; [|vm_compute; reflexivity].
  vm_compute. repeat split.
Qed.
