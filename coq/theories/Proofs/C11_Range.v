(** C11 — CellID.MaxTile and CellUnionFromRange: the range [begin, end) of leaf ids is
    tiled exactly, by the normalized (hence unique and shortest) sequence of cells. *)
From Coq Require Import ZArith List Bool Lia ZifyBool Sorted Permutation.
From Geo Require Import Base.GoPrim Gen.CellID Model.CellUnion Proofs.C11_Bits Proofs.C11_Cells
  Proofs.C11_Normalize Proofs.C11_Unique Proofs.C11_Search.
Import ListNotations.
Local Open Scope Z_scope.

(** a limit is a leaf id or the sentinel one past the last leaf of face 5 *)
Definition limit_id (e : Z) : Prop := leaf e /\ 0 < e <= 6 * 2 ^ 61 + 1.

Lemma limit_u64 e : limit_id e -> u64 e.
Proof. intros [_ H]. unfold u64. change (2 ^ 64) with (8 * 2 ^ 61). lia. Qed.

Lemma rangemin_odd e : u64 e -> leaf e -> rmin e = e.
Proof.
  intros Hu L. unfold s2_CellID_RangeMin.
  assert (E : s2_CellID_lsb e = 2 ^ 0).
  { apply (lsb_shape e 0 (e / 2)); [exact Hu|lia|]. unfold leaf in L. pose proof (Z.div_mod e 2 ltac:(lia)). rewrite Z.pow_0_r. lia. }
  rewrite E. change (2 ^ 0 - 1) with 0. change (wrap_u64 0) with 0. rewrite (wrap_small e Hu), Z.sub_0_r, !(wrap_small e Hu). reflexivity.
Qed.

(** [T] is the largest cell starting at RangeMin T that ends before e *)
Definition maxtile_ok (e T : Z) : Prop :=
  valid T /\ rmax T < e /\ forall d, valid d -> rmin d = rmin T -> rmax d < e -> rmax d <= rmax T.

Lemma same_min_nested_or a b : valid a -> valid b -> rmin a = rmin b -> nested_in a b \/ nested_in b a.
Proof.
  intros Va Vb E. pose proof (valid_le _ Va). pose proof (valid_le _ Vb).
  destruct (laminar a b Va Vb) as [N|[N|[N|N]]]; [left; exact N|right; exact N|lia|lia].
Qed.

(** ** the shrinking loop *)
Lemma shrink_spec e : forall (fuel : nat) ci s, cellform ci s -> s <= Z.of_nat fuel ->
  leaf e -> rmin ci < e -> e <= rmax ci ->
  let T := maxtile_shrink fuel ci e in maxtile_ok e T /\ rmin T = rmin ci.
Proof.
  induction fuel as [|fuel IH]; intros ci s H Hs Le Hlo Hhi.
  - exfalso. pose proof (cellform_valid _ _ H) as V.
    assert (s = 0) by (destruct H; lia). subst s.
    destruct (leaf_cell ci V (proj2 (leaf_cellform_0 _ _ H) eq_refl)). lia.
  - pose proof (cellform_valid _ _ H) as V.
    assert (NL : ~ leaf ci) by (intros L; destruct (leaf_cell ci V L); lia).
    assert (Hpos : 0 < s).
    { destruct (Z_lt_le_dec 0 s); [assumption|]. exfalso. apply NL. apply (leaf_cellform_0 _ _ H). destruct H; lia. }
    destruct (children_spec ci V NL) as (a & b & c & d & E & T4 & _).
    cbn [maxtile_shrink]. cbv zeta. rewrite E. change (nthZ [a; b; c; d] 0 0) with a.
    destruct (tiles4_child ci a b c d a V T4 ltac:(left; reflexivity)) as (Va & Na & _ & Fa & Pa).
    assert (Ea : rmin a = rmin ci) by (destruct T4; assumption).
    destruct (Z.ltb_spec (rmax a) e) as [Hfit|Hnofit].
    + split; [|exact Ea]. split; [exact Va|]. split; [exact Hfit|].
      intros d' Vd Ed Hd.
      destruct (same_min_nested_or d' a Vd Va Ed) as [N|N]; [unfold nested_in in N; lia|].
      destruct (Z.eq_dec d' a) as [->|Hne]; [lia|].
      destruct (parent_spec a Va Fa) as (_ & _ & _ & Hmin). rewrite Pa in Hmin.
      specialize (Hmin d' Vd N Hne). unfold nested_in in Hmin. lia.
    + assert (CF : cellform a (s - 1)) by (apply (children_cellform ci s H Hpos); rewrite E; left; reflexivity).
      destruct (IH a (s - 1) CF ltac:(lia) Le ltac:(lia) ltac:(lia)) as [OK Em].
      split; [exact OK|lia].
Qed.

(** ** the growing loop *)
Lemma grow_spec e start : forall (fuel : nat) ci s, cellform ci s -> 30 - s < Z.of_nat fuel ->
  rmin ci = start -> rmax ci < e ->
  let T := maxtile_grow fuel ci start e in maxtile_ok e T /\ rmin T = start.
Proof.
  induction fuel as [|fuel IH]; intros ci s H Hs Hst Hhi; [destruct H; lia|].
  pose proof (cellform_valid _ _ H) as V. cbn [maxtile_grow]. cbv zeta.
  destruct (s2_CellID_isFace ci) eqn:F.
  - split; [|exact Hst]. split; [exact V|]. split; [exact Hhi|]. intros d Vd Ed Hd.
    destruct (same_min_nested_or d ci Vd V Ed) as [N|N]; [unfold nested_in in N; lia|].
    rewrite (face_top ci d V F Vd N). lia.
  - rewrite (isface_form _ _ H) in F. pose proof (proj1 H) as Hs30. assert (Hlt : s < 30) by lia.
    pose proof (parent_form _ _ H Hlt) as HP.
    assert (F' : s2_CellID_isFace ci = false) by (rewrite (isface_form _ _ H); lia).
    destruct (parent_spec ci V F') as (Vp & Np & _ & Hmin).
    set (p := s2_CellID_immediateParent ci) in *.
    destruct (negb (rmin p =? start) || (e <=? rmax p)) eqn:C.
    + split; [|exact Hst]. split; [exact V|]. split; [exact Hhi|]. intros d Vd Ed Hd.
      destruct (same_min_nested_or d ci Vd V Ed) as [N|N]; [unfold nested_in in N; lia|].
      destruct (Z.eq_dec d ci) as [->|Hne]; [lia|].
      specialize (Hmin d Vd N Hne). unfold nested_in in *. lia.
    + apply (IH p (s + 1) HP); lia.
Qed.

Lemma maxtile_at_limit c e : u64 e -> leaf e -> e <= rmin c -> cu_MaxTile c e = e.
Proof.
  intros Hu L Hle. unfold cu_MaxTile. cbv zeta. rewrite (rangemin_odd e Hu L).
  destruct (Z.leb_spec e (rmin c)); [reflexivity|lia].
Qed.

Lemma maxtile_spec c e : valid c -> u64 e -> leaf e -> rmin c < e ->
  maxtile_ok e (cu_MaxTile c e) /\ rmin (cu_MaxTile c e) = rmin c.
Proof.
  intros V Hu L Hlt. destruct (valid_cellform _ V) as [s H].
  unfold cu_MaxTile. cbv zeta. rewrite (rangemin_odd e Hu L).
  destruct (Z.leb_spec e (rmin c)); [lia|].
  destruct (Z.leb_spec e (rmax c)).
  - apply (shrink_spec e 31 c s H); try assumption. destruct H; lia.
  - apply (grow_spec e (rmin c) 31 c s H); try lia. destruct H; lia.
Qed.

(** ** Next *)
Lemma next_rmin T s : cellform T s -> rmin (s2_CellID_Next T) = rmax T + 2.
Proof.
  intros H. rewrite (next_form _ _ H), (rangemax_form _ _ H).
  pose proof (cellform_bounds _ _ H) as Hcb. destruct (cellform_split _ _ H) as [Ec Hq].
  destruct H as (Hs & Hm & Hb). pose proof (pow4_bound s Hs) as Hw.
  set (q := T / (2 * 4 ^ s)) in *.
  assert (Hu : u64 (T + 2 * 4 ^ s)) by (unfold u64; change (2 ^ 64) with (8 * 2 ^ 61); lia).
  unfold s2_CellID_RangeMin.
  assert (E : s2_CellID_lsb (T + 2 * 4 ^ s) = 2 ^ (2 * s)).
  { apply (lsb_shape _ (2 * s) (q + 1)); [exact Hu|lia|]. rewrite <- pow4 by lia. lia. }
  rewrite E, <- pow4 by lia. unfold u64 in Hu.
  rewrite (wrap_small (T + 2 * 4 ^ s)) by exact Hu. rewrite (wrap_small (4 ^ s - 1)) by lia.
  rewrite !(wrap_small (T + 2 * 4 ^ s - (4 ^ s - 1))) by lia. lia.
Qed.

Lemma next_valid T s : cellform T s -> rmax T + 2 < 6 * 2 ^ 61 -> cellform (s2_CellID_Next T) s.
Proof.
  intros H Hlt. rewrite (next_form _ _ H). rewrite (rangemax_form _ _ H) in Hlt.
  destruct (cellform_split _ _ H) as [Ec Hq]. destruct H as (Hs & Hm & Hb). pose proof (pow4_bound s Hs) as Hw.
  split; [exact Hs|]. split.
  - replace (T + 2 * 4 ^ s) with (T + 1 * (2 * 4 ^ s)) by ring. rewrite Z.mod_add by lia. exact Hm.
  - split; [lia|].
    assert (E6 : 6 * 2 ^ 61 = (6 * 4 ^ (30 - s)) * (2 * 4 ^ s)).
    { replace (2 ^ 61) with (2 * 4 ^ 30) by reflexivity.
      replace 30 with ((30 - s) + s) at 1 by lia. rewrite Z.pow_add_r by lia. ring. }
    set (q := T / (2 * 4 ^ s)) in *. set (w := 4 ^ s) in *. set (t := 6 * 4 ^ (30 - s)) in *.
    (* T + w + 1 < t * 2w, T + w = (2q+2) w  =>  q + 1 < t  =>  (2q+4) w <= t 2w *)
    assert (q + 1 < t).
    { destruct (Z_lt_le_dec (q + 1) t); [assumption|]. assert (t * (2 * w) <= (q + 1) * (2 * w)) by (apply Z.mul_le_mono_nonneg_r; lia). lia. }
    assert ((q + 2) * (2 * w) <= t * (2 * w)) by (apply Z.mul_le_mono_nonneg_r; lia). lia.
Qed.

(** ** the loop of CellUnionFromRange *)
Definition st_ok (e id : Z) : Prop := id = e \/ maxtile_ok e id.

Lemma step_ok e id : limit_id e -> id <> e -> maxtile_ok e id ->
  let id' := cu_MaxTile (s2_CellID_Next id) e in st_ok e id' /\ rmin id' = rmax id + 2.
Proof.
  intros He Hne (V & Hlt & _). cbv zeta. pose proof (limit_u64 e He) as Hu. destruct He as [Le Hb].
  destruct (valid_cellform _ V) as [s H]. pose proof (next_rmin _ _ H) as En.
  pose proof (valid_range _ V) as (_ & _ & _ & _ & Lr).
  pose proof (odd_gap e (rmax id) Le Lr Hlt) as Hgap.
  destruct (Z_le_gt_dec e (rmax id + 2)) as [Hend|Hmore].
  - rewrite (maxtile_at_limit _ e Hu Le) by lia. split; [left; reflexivity|]. rewrite (rangemin_odd e Hu Le). lia.
  - assert (L2 : leaf (rmax id + 2)) by (unfold leaf in *; Z.div_mod_to_equations; lia).
    pose proof (odd_gap e (rmax id + 2) Le L2 ltac:(lia)) as Hgap2.
    assert (Vn : valid (s2_CellID_Next id)) by (apply (cellform_valid _ s); apply next_valid; [exact H|lia]).
    destruct (maxtile_spec (s2_CellID_Next id) e Vn Hu Le ltac:(lia)) as [OK Em]. split; [right; exact OK|lia].
Qed.

Fixpoint tiles_from (e : Z) (l : list Z) (a z : Z) : Prop :=
  match l with
  | [] => a = z
  | c :: t => maxtile_ok e c /\ rmin c = a /\ tiles_from e t (rmax c + 2) z
  end.

Lemma tiles_from_app e l1 : forall l2 a m z, tiles_from e l1 a m -> tiles_from e l2 m z -> tiles_from e (l1 ++ l2) a z.
Proof.
  induction l1 as [|c t IH]; intros l2 a m z H1 H2; cbn in *.
  - subst. exact H2.
  - destruct H1 as (OK & E & H1). split; [exact OK|]. split; [exact E|]. eapply IH; eauto.
Qed.

Lemma st_pos e id : limit_id e -> st_ok e id -> rmin id <= e.
Proof.
  intros He [->|(V & Hlt & _)].
  - rewrite (rangemin_odd e (limit_u64 e He) (proj1 He)). lia.
  - pose proof (valid_le _ V). lia.
Qed.

Lemma fr_run_spec e : limit_id e -> forall (n : nat) id, st_ok e id ->
  let r := fr_run n id e in
  st_ok e (snd r) /\ tiles_from e (fst r) (rmin id) (rmin (snd r)) /\
  (snd r = e \/ rmin id + 2 * 2 ^ Z.of_nat n <= rmin (snd r)).
Proof.
  intros He. induction n as [|n IH]; intros id Hst; cbn [fr_run]; cbv zeta.
  - destruct (Z.eqb_spec id e) as [->|Hne]; cbn [fst snd].
    + split; [left; reflexivity|]. split; [reflexivity|left; reflexivity].
    + destruct Hst as [?|OK]; [contradiction|].
      destruct (step_ok e id He Hne OK) as [Hst' Em]. cbv zeta in Hst', Em.
      split; [exact Hst'|]. split; [cbn; split; [exact OK|]; split; [reflexivity|symmetry; exact Em]|].
      right. destruct OK as (V & _). pose proof (valid_le _ V). cbn. lia.
  - destruct (IH id Hst) as (S1 & T1 & P1). destruct (fr_run n id e) as [l1 id1]. cbn [fst snd] in *.
    destruct (Z.eqb_spec id1 e) as [->|Hne]; cbn [fst snd].
    + split; [exact S1|]. split; [exact T1|left; reflexivity].
    + destruct (IH id1 S1) as (S2 & T2 & P2). destruct (fr_run n id1 e) as [l2 id2]. cbn [fst snd] in *.
      split; [exact S2|]. split; [eapply tiles_from_app; eauto|].
      destruct P2 as [->|P2]; [left; reflexivity|right].
      destruct P1 as [?|P1]; [contradiction|].
      rewrite Nat2Z.inj_succ, Z.pow_succ_r by lia. lia.
Qed.

(** ** consequences of a tiling by maximal tiles *)
Lemma tiles_from_le e : forall l a z, tiles_from e l a z -> a <= z /\ (forall c, In c l -> maxtile_ok e c /\ a <= rmin c).
Proof.
  induction l as [|c t IH]; intros a z H; cbn in H.
  - subst. split; [lia|intros ? []].
  - destruct H as (OK & E & H). destruct (IH _ _ H) as [Hle Hin]. pose proof (valid_le _ (proj1 OK)).
    split; [lia|]. intros c' [<-|Hc']; [split; [exact OK|lia]|].
    destruct (Hin c' Hc'). split; [assumption|lia].
Qed.

Lemma tiles_from_sorted e : forall l a z, tiles_from e l a z -> sorted_cu l.
Proof.
  induction l as [|c t IH]; intros a z H; cbn in H; [split; constructor|].
  destruct H as (OK & E & H). destruct (IH _ _ H) as [V S]. destruct (tiles_from_le e _ _ _ H) as [_ Hin].
  split; [constructor; [exact (proj1 OK)|exact V]|]. constructor; [exact S|].
  rewrite Forall_forall. intros c' Hc'. destruct (Hin c' Hc'). unfold before. lia.
Qed.

Lemma tiles_from_cov e : forall l a z, tiles_from e l a z -> forall x, leaf x -> (cov l x <-> a <= x < z).
Proof.
  induction l as [|c t IH]; intros a z H x Lx; cbn in H.
  - subst. pose proof (cov_nil x). split; [tauto|lia].
  - destruct H as (OK & E & H). destruct (tiles_from_le e _ _ _ H) as [Hle _].
    pose proof (valid_range _ (proj1 OK)) as (_ & Rc & _ & _ & Lr).
    rewrite cov_cons, (IH _ _ H x Lx). unfold covers. split.
    + intros [Hc|Hc]; lia.
    + intros Hx. destruct (Z_le_gt_dec x (rmax c)); [left; lia|right].
      pose proof (odd_gap x (rmax c) Lx Lr ltac:(lia)). lia.
Qed.

Lemma tiles_from_NSc e l a z : tiles_from e l a z -> NSc l.
Proof.
  intros H l1 a' b c d l2 E. destruct (s2_areSiblings a' b c d) eqn:Sib; [exfalso|reflexivity].
  destruct (tiles_from_le e _ _ _ H) as [_ Hin]. destruct (tiles_from_sorted e _ _ _ H) as [V S].
  subst l. apply Forall_app in V. destruct V as [_ V].
  inversion V as [|? ? Va V1]; subst. inversion V1 as [|? ? Vb V2]; subst.
  inversion V2 as [|? ? Vc V3]; subst. inversion V3 as [|? ? Vd _]; subst.
  apply SS_suffix in S.
  inversion S as [|? ? S1 F1]; subst. inversion S1 as [|? ? S2 F2]; subst. inversion S2 as [|? ? _ F3]; subst.
  inversion F1 as [|? ? Bab _]; subst. inversion F2 as [|? ? Bbc _]; subst. inversion F3 as [|? ? Bcd _]; subst.
  unfold before in *.
  pose proof (valid_range _ Va) as (_ & Ra & _). pose proof (valid_range _ Vb) as (_ & Rb & _).
  pose proof (valid_range _ Vc) as (_ & Rc & _). pose proof (valid_range _ Vd) as (_ & Rd & _).
  destruct (siblings_tiles a' b c d Va Vb Vc Vd ltac:(lia) ltac:(lia) ltac:(lia) Sib) as [T4 Vp].
  destruct (Hin a' ltac:(apply in_or_app; right; left; reflexivity)) as [(_ & _ & Maxa) _].
  destruct (Hin d ltac:(apply in_or_app; right; right; right; right; left; reflexivity)) as [(_ & Hd & _) _].
  destruct T4. specialize (Maxa _ Vp ltac:(lia) ltac:(lia)). lia.
Qed.

Theorem from_range_spec b e : valid b -> leaf b -> limit_id e -> b <= e ->
  normal (cu_FromRange b e) /\ forall x, leaf x -> (cov (cu_FromRange b e) x <-> b <= x < e).
Proof.
  intros Vb Lb He Hbe. pose proof (limit_u64 e He) as Hu. pose proof (proj1 He) as Le.
  destruct (leaf_cell b Vb Lb) as [Eb _]. unfold cu_FromRange.
  assert (S0 : st_ok e (cu_MaxTile b e) /\ rmin (cu_MaxTile b e) = b).
  { destruct (Z.eq_dec b e) as [->|Hne].
    - rewrite (maxtile_at_limit e e Hu Le) by lia. split; [left; reflexivity|exact Eb].
    - destruct (maxtile_spec b e Vb Hu Le ltac:(lia)) as [OK Em]. split; [right; exact OK|lia]. }
  destruct S0 as [S0 E0].
  destruct (fr_run_spec e He 64 _ S0) as (S1 & T1 & P1). cbv zeta in *.
  destruct (fr_run 64 (cu_MaxTile b e) e) as [l id']. cbn [fst snd] in *.
  assert (id' = e).
  { destruct P1 as [?|P1]; [assumption|]. exfalso. pose proof (st_pos e id' He S1).
    pose proof (valid_range _ Vb). unfold u64 in Hu. rewrite E0 in P1. change (Z.of_nat 64) with 64 in P1. lia. }
  subst id'. rewrite E0, (rangemin_odd e Hu Le) in T1.
  split.
  - destruct (tiles_from_sorted e _ _ _ T1) as [V S]. split; [exact V|]. split; [exact S|]. eapply tiles_from_NSc; exact T1.
  - apply (tiles_from_cov e _ _ _ T1).
Qed.

(** ** Normalize never lengthens a union, so the normal form is the shortest covering *)
Lemma drop_contained_length ci out : (length (drop_contained ci out) <= length out)%nat.
Proof. induction out as [|o t IH]; cbn; [lia|]. destruct (s2_CellID_Contains ci o); cbn; lia. Qed.

Lemma merge_siblings_length : forall (n : nat) out ci, (length out <= n)%nat ->
  (length (merge_siblings ci out) <= S (length out))%nat.
Proof.
  induction n as [|n IH]; intros out ci Hlen.
  - destruct out; [cbn; lia|cbn in Hlen; lia].
  - destruct out as [|o1 [|o2 [|o3 rest]]]; try (cbn; lia).
    cbn [merge_siblings]. destruct (s2_areSiblings o3 o2 o1 ci).
    + specialize (IH rest (s2_CellID_immediateParent ci) ltac:(cbn in Hlen; lia)). cbn. lia.
    + cbn. lia.
Qed.

Lemma normalize_step_length out ci : (length (normalize_step out ci) <= S (length out))%nat.
Proof.
  unfold normalize_step. destruct out as [|o t]; [cbn; lia|].
  destruct (s2_CellID_Contains o ci); [lia|].
  pose proof (drop_contained_length ci (o :: t)).
  pose proof (merge_siblings_length _ (drop_contained ci (o :: t)) ci (le_n _)). lia.
Qed.

Lemma fold_step_length l : forall out, (length (fold_left normalize_step l out) <= length out + length l)%nat.
Proof.
  induction l as [|ci l IH]; intros out; cbn [fold_left length]; [lia|].
  specialize (IH (normalize_step out ci)). pose proof (normalize_step_length out ci). lia.
Qed.

Theorem normalize_length cu : (length (cu_Normalize cu) <= length cu)%nat.
Proof.
  unfold cu_Normalize. rewrite rev_length.
  pose proof (fold_step_length (sort_ids cu) []). rewrite <- (Permutation_length (sort_perm cu)) in H. cbn in H. lia.
Qed.

Theorem normal_shortest N cu : normal N -> Forall valid cu ->
  (forall x, leaf x -> (cov cu x <-> cov N x)) -> (length N <= length cu)%nat.
Proof.
  intros Nm V H. destruct (normalize_spec cu V) as [Nn C].
  assert (cu_Normalize cu = N).
  { apply normal_unique; try assumption. intros x Lx. rewrite (C x Lx). apply H. exact Lx. }
  rewrite <- H0. apply normalize_length.
Qed.

Theorem from_range_minimal b e cu : valid b -> leaf b -> limit_id e -> b <= e -> Forall valid cu ->
  (forall x, leaf x -> (cov cu x <-> b <= x < e)) ->
  cu_Normalize cu = cu_FromRange b e /\ (length (cu_FromRange b e) <= length cu)%nat.
Proof.
  intros Vb Lb He Hbe V H. destruct (from_range_spec b e Vb Lb He Hbe) as [N C].
  destruct (normalize_spec cu V) as [Nn Cn].
  split.
  - apply normal_unique; try assumption. intros x Lx. rewrite (Cn x Lx), (C x Lx). apply H. exact Lx.
  - apply (normal_shortest _ cu N V). intros x Lx. rewrite (C x Lx). apply H. exact Lx.
Qed.
