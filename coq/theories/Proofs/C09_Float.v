(** C09 — the float facts behind the compressed format (discharge of H_piqi_exact):
    (1) [piQiToST pi level] and [siTiToST si] are the same float when si = (2 pi + 1) 2^(30-level):
        both are the correctly rounded value of the same dyadic quotient;
    (2) the (si,ti) the cell-centre detection computes are at most 2^31 whenever it reports a level
        (u and v are quotients by the component of largest magnitude, so they lie in [-1,1] or are
        NaN; uvToST maps [-1,1] into [0,1]; a NaN gives si = 0, which has no level). *)
From Coq Require Import ZArith Reals Floats Lia Lra Psatz Bool.
From Flocq Require Import Core.Core IEEE754.BinarySingleNaN IEEE754.PrimFloat.
From Geo Require Import Base.GoPrim Base.F64 Base.F64Arith Gen.Codec Proofs.C12_Float.
Local Open Scope Z_scope.

Lemma float_of_Z_fin z : Z.abs z < 2 ^ 53 -> fin (float_of_Z z) /\ RV (float_of_Z z) = IZR z.
Proof.
  intros H. unfold fin, RV. rewrite Prim2B_float_of_Z.
  destruct (BN_exact z H) as (E & F & _). split; assumption.
Qed.

(** a finite float with positive value has sign bit 0 *)
Lemma pos_sign x : fin x -> (0 < RV x)%R -> Bsign (Prim2B x) = false.
Proof.
  unfold fin, RV. destruct (Prim2B x) as [s|s| |s m e He]; cbn; intros F H; try discriminate.
  { exfalso. lra. }
  destruct s; auto. exfalso.
  assert (F2R (Float radix2 (cond_Zopp true (Z.pos m)) e) < 0)%R by (apply F2R_lt_0; cbn; lia). lra.
Qed.

(** two quotients of finite floats with the same positive real value at most 1 are the same float *)
Lemma div_same_real x y x' y' : fin x -> fin y -> fin x' -> fin y' ->
  (0 < RV x)%R -> (0 < RV y)%R -> (0 < RV x')%R -> (0 < RV y')%R ->
  (RV x / RV y = RV x' / RV y')%R -> (RV x <= RV y)%R ->
  PrimFloat.div x y = PrimFloat.div x' y'.
Proof.
  intros Fx Fy Fx' Fy' Px Py Px' Py' E Le.
  assert (Q : (0 < RV x / RV y <= 1)%R).
  { split; [apply Rdiv_lt_0_compat; lra|]. apply Rmult_le_reg_r with (RV y); [lra|].
    unfold Rdiv. rewrite Rmult_assoc, Rinv_l by lra. lra. }
  assert (Hb : forall q, (0 < q <= 1)%R -> (Rabs (rnd q) < bpow radix2 emax)%R).
  { intros q Hq. apply (below_top q 1).
    - split; [apply (repr_IZR 1); cbn; lia|].
      change 1%R with (bpow radix2 0). apply bpow_lt. unfold emax. lia.
    - rewrite Rabs_pos_eq; lra. }
  apply Prim2B_inj. rewrite !div_equiv.
  pose proof (Bdiv_correct prec emax Hprec Hmax mode_NE (Prim2B x) (Prim2B y) ltac:(unfold RV in Py; lra)) as C1.
  pose proof (Bdiv_correct prec emax Hprec Hmax mode_NE (Prim2B x') (Prim2B y') ltac:(unfold RV in Py'; lra)) as C2.
  change (round radix2 (SpecFloat.fexp prec emax) (round_mode mode_NE)) with rnd in C1, C2.
  fold (RV x) (RV y) in C1. fold (RV x') (RV y') in C2.
  rewrite Rlt_bool_true in C1 by (apply Hb; exact Q).
  rewrite Rlt_bool_true in C2 by (apply Hb; rewrite <- E; exact Q).
  destruct C1 as (R1 & F1 & S1). destruct C2 as (R2 & F2 & S2).
  unfold fin in *. rewrite Fx in F1. rewrite Fx' in F2.
  match type of F1 with is_finite ?q = true =>
    assert (N1 : is_nan q = false) by (destruct q; try discriminate; reflexivity) end.
  match type of F2 with is_finite ?q = true =>
    assert (N2 : is_nan q = false) by (destruct q; try discriminate; reflexivity) end.
  apply B2R_Bsign_inj; auto.
  - rewrite R1, R2. now rewrite E.
  - rewrite (S1 N1), (S2 N2). rewrite !pos_sign by auto. reflexivity.
Qed.

Lemma half_fin : fin (0x1p-01)%float. Proof. exact (lit_fin (0x1p-01)%float _ _ _ eq_refl). Qed.
Lemma half_RV : RV (0x1p-01)%float = (1 / 2)%R. Proof. lit_value. Qed.
Lemma lit31_fin : fin (0x1p+31)%float. Proof. exact (lit_fin (0x1p+31)%float _ _ _ eq_refl). Qed.
Lemma lit31_RV : RV (0x1p+31)%float = 2147483648%R. Proof. lit_value. Qed.

(** (1) the two ways to compute s from a cell-centre coordinate give the same float *)
Theorem piqi_st_exact level m : 0 <= level <= 30 -> 0 <= m < 2 ^ level ->
  s2_piQiToST m level = s2_siTiToST ((2 * m + 1) * 2 ^ (30 - level)).
Proof.
  intros Hl Hm. unfold s2_piQiToST, s2_siTiToST.
  assert (P30 : 2 ^ level <= 2 ^ 30) by (apply Z.pow_le_mono_r; lia).
  assert (Pl : 0 < 2 ^ level) by (apply Z.pow_pos_nonneg; lia).
  assert (Pk : 0 < 2 ^ (30 - level)) by (apply Z.pow_pos_nonneg; lia).
  assert (Hsplit : 2 ^ level * 2 ^ (30 - level) = 2 ^ 30) by (rewrite <- Z.pow_add_r by lia; f_equal; lia).
  set (si := (2 * m + 1) * 2 ^ (30 - level)).
  assert (Hsi : 0 < si < 2 ^ 31).
  { unfold si. change (2 ^ 31) with (2 * 2 ^ 30). rewrite <- Hsplit. nia. }
  replace (2147483648 <? si) with false by (symmetry; apply Z.ltb_ge; change (2 ^ 31) with 2147483648 in Hsi; lia).
  (* the shift 1 << level *)
  assert (Hsh : wrap_i64 (go_shl 1 (wrap_u64 level)) = 2 ^ level).
  { unfold wrap_u64, wrap_u. rewrite Z.mod_small by (change (2 ^ 64) with 18446744073709551616; lia).
    unfold go_shl. replace (level <? 0) with false by (symmetry; apply Z.ltb_ge; lia).
    rewrite Z.shiftl_mul_pow2 by lia. rewrite Z.mul_1_l.
    unfold wrap_i64, wrap_i. change (2 ^ 30) with 1073741824 in P30.
    rewrite Z.mod_small by (change (2 ^ 64) with 18446744073709551616; lia).
    replace (2 ^ level <? 2 ^ (64 - 1)) with true; auto. symmetry. apply Z.ltb_lt. change (2 ^ (64 - 1)) with 9223372036854775808. lia. }
  rewrite Hsh.
  change (2 ^ 30) with 1073741824 in *. change (2 ^ 31) with 2147483648 in *.
  destruct (float_of_Z_fin m) as [Fm Rm]; [change (2 ^ 53) with 9007199254740992; lia|].
  destruct (float_of_Z_fin (2 ^ level)) as [Fp Rp]; [change (2 ^ 53) with 9007199254740992; lia|].
  destruct (float_of_Z_fin si) as [Fs Rs]; [change (2 ^ 53) with 9007199254740992; lia|].
  (* m + 1/2 is exact *)
  assert (Radd : (RV (float_of_Z m) + RV (0x1p-01)%float = IZR (2 * m + 1) / 2)%R).
  { rewrite Rm, half_RV, plus_IZR, mult_IZR. lra. }
  assert (Hrep : repr (IZR (2 * m + 1) / 2)).
  { replace (IZR (2 * m + 1) / 2)%R with (F2R (Float radix2 (2 * m + 1) (-1))).
    - apply repr_F2R; [change (2 ^ 53) with 9007199254740992; lia|lia].
    - unfold F2R. cbn. lra. }
  destruct (add_fin (float_of_Z m) (0x1p-01)%float Fm half_fin) as [Fa Ra].
  { rewrite Radd, rnd_repr by exact Hrep. rewrite Rabs_pos_eq.
    - apply Rlt_le_trans with (IZR (2 ^ 53)).
      + apply Rle_lt_trans with (IZR (2 * m + 1)); [|apply IZR_lt; change (2 ^ 53) with 9007199254740992; lia].
        assert (0 <= IZR (2 * m + 1))%R by (apply IZR_le; lia). lra.
      + change (2 ^ 53) with (Zpower 2 53). rewrite (IZR_Zpower radix2) by lia. apply bpow_le. unfold emax. lia.
    - assert (0 <= IZR (2 * m + 1))%R by (apply IZR_le; lia). lra. }
  rewrite Radd, rnd_repr in Ra by exact Hrep.
  assert (I1 : (0 < IZR (2 * m + 1))%R) by (apply IZR_lt; lia).
  assert (I2 : (0 < IZR (2 ^ level))%R) by (apply IZR_lt; lia).
  assert (I3 : (0 < IZR si)%R) by (apply IZR_lt; lia).
  apply div_same_real; auto using lit31_fin.
  - rewrite Ra. lra.
  - rewrite Rp. lra.
  - rewrite Rs. lra.
  - rewrite lit31_RV. lra.
  - rewrite Ra, Rp, Rs, lit31_RV. unfold si. rewrite mult_IZR.
    assert (E : (IZR (2 ^ level) * IZR (2 ^ (30 - level)) = 1073741824)%R).
    { rewrite <- mult_IZR. now rewrite Hsplit. }
    assert (I4 : (0 < IZR (2 ^ (30 - level)))%R) by (apply IZR_lt; lia).
    field_simplify_eq; [|lra]. nra.
  - rewrite Ra, Rp.
    assert (IZR (2 * m + 1) <= IZR (2 * 2 ^ level))%R by (apply IZR_le; lia).
    rewrite mult_IZR in H. lra.
Qed.

(** * Integer side: a level is the position of the lowest set bit *)
From Geo Require Import Base.Bytes Proofs.C11_Bits.
From Coq Require Import List.

Lemma findlsb_pow2 j : 0 <= j < 64 -> s2_findLSBSetNonZero64 (2 ^ j) = j.
Proof.
  intros Hj. pose (P := fun j => s2_findLSBSetNonZero64 (2 ^ j) =? j).
  assert (HP : P j = true) by (apply forall_below_64; [vm_compute; reflexivity|exact Hj]).
  unfold P in HP. lia.
Qed.

Lemma findlsb_shape c j k : 0 <= c < 2 ^ 64 -> 0 <= j < 64 -> c = (2 * k + 1) * 2 ^ j ->
  s2_findLSBSetNonZero64 c = j.
Proof.
  intros Hc Hj E. transitivity (s2_findLSBSetNonZero64 (2 ^ j)); [|now apply findlsb_pow2].
  assert (Hp : 0 <= 2 ^ j < 2 ^ 64) by (split; [apply Z.pow_nonneg; lia|apply Z.pow_lt_mono_r; lia]).
  assert (L : forall x, 0 <= x < 2 ^ 64 -> Z.land x (wrap_u64 (- x)) = s2_CellID_lsb x)
    by (intros x Hx; unfold s2_CellID_lsb; now rewrite (wrap_small x Hx)).
  unfold s2_findLSBSetNonZero64. do 5 f_equal.
  rewrite (L c Hc), (L (2 ^ j) Hp).
  rewrite (lsb_shape c j k Hc ltac:(lia) E).
  symmetry. apply (lsb_shape (2 ^ j) j 0 Hp); lia.
Qed.

(** the level the detection assigns to a coordinate 0 < si < 2^31, and what it says about si *)
Definition coord_level (si : Z) : Z := wrap_i64 (30 - s2_findLSBSetNonZero64 (wrap_u64 (Z.lor si 2147483648))).

Lemma coord_level_zero : coord_level 0 = -1. Proof. reflexivity. Qed.
Lemma coord_level_top : coord_level 2147483648 = -1. Proof. reflexivity. Qed.

Lemma coord_level_spec si : 0 < si < 2 ^ 31 -> 0 <= coord_level si ->
  let level := coord_level si in
  0 <= level <= 30 /\ exists m, 0 <= m < 2 ^ level /\ si = (2 * m + 1) * 2 ^ (30 - level)
                                /\ s2_siTitoPiQi si level = m.
Proof.
  intros Hsi. unfold coord_level.
  change (2 ^ 31) with 2147483648 in Hsi.
  destruct (ctz_exists 31 si) as (j & k & Hj & E & Hk); [change (2 ^ Z.of_nat 31) with 2147483648; lia|].
  change (Z.of_nat 31) with 31 in Hj.
  assert (Pj : 0 < 2 ^ j) by (apply Z.pow_pos_nonneg; lia).
  assert (Hlor : Z.lor si 2147483648 = si + 2147483648).
  { change 2147483648 with (1 * 2 ^ 31). rewrite <- Z.shiftl_mul_pow2 by lia.
    apply Bytes.lor_shiftl_add; [lia|change (2 ^ 31) with 2147483648; lia|lia]. }
  rewrite Hlor.
  assert (Hw : wrap_u64 (si + 2147483648) = si + 2147483648) by (apply wrap_small; change (2 ^ 64) with 18446744073709551616; lia).
  rewrite Hw.
  (* si + 2^31 = (2 (k + 2^(30-j)) + 1) 2^j *)
  assert (Hsplit : 2 ^ (30 - j) * 2 ^ j = 2 ^ 30) by (rewrite <- Z.pow_add_r by lia; f_equal; lia).
  assert (E2 : si + 2147483648 = (2 * (k + 2 ^ (30 - j)) + 1) * 2 ^ j).
  { rewrite E. change 2147483648 with (2 * 2 ^ 30). rewrite <- Hsplit. ring. }
  rewrite (findlsb_shape (si + 2147483648) j (k + 2 ^ (30 - j))); [|change (2 ^ 64) with 18446744073709551616; lia|lia|exact E2].
  assert (Hwi : wrap_i64 (30 - j) = 30 - j).
  { unfold wrap_i64, wrap_i. change (2 ^ 64) with 18446744073709551616. change (2 ^ (64 - 1)) with 9223372036854775808.
    rewrite Z.mod_small by lia. replace (30 - j <? 9223372036854775808) with true; auto. symmetry. apply Z.ltb_lt. lia. }
  rewrite Hwi. intros _. cbv zeta. split; [lia|].
  replace (30 - (30 - j)) with j by lia.
  assert (Pl : 0 < 2 ^ (30 - j)) by (apply Z.pow_pos_nonneg; lia).
  exists k. split; [|split; [exact E|]].
  - split; [lia|]. apply Z.mul_lt_mono_pos_r with (2 * 2 ^ j); [lia|].
    replace (2 ^ (30 - j) * (2 * 2 ^ j)) with 2147483648 by (change 2147483648 with (2 * 2 ^ 30); rewrite <- Hsplit; ring).
    rewrite E in Hsi. nia.
  - unfold s2_siTitoPiQi.
    rewrite (wrap_small si) by (change (2 ^ 64) with 18446744073709551616; lia).
    replace (2147483647 <? si) with false by (symmetry; apply Z.ltb_ge; lia). cbv zeta.
    rewrite (wrap_small (30 - j)) by (change (2 ^ 64) with 18446744073709551616; lia).
    replace (31 - (30 - j)) with (j + 1) by lia.
    rewrite (wrap_small (j + 1)) by (change (2 ^ 64) with 18446744073709551616; lia).
    unfold go_shr. replace (j + 1 <? 0) with false by (symmetry; apply Z.ltb_ge; lia).
    rewrite Z.shiftr_div_pow2 by lia. rewrite E.
    rewrite Z.pow_add_r by lia. change (2 ^ 1) with 2.
    replace ((2 * k + 1) * 2 ^ j / (2 ^ j * 2)) with k.
    2:{ apply Z.div_unique with (2 ^ j); [lia|ring]. }
    unfold wrap_u32, wrap_u. apply Z.mod_small. split; [lia|].
    change (2 ^ 32) with 4294967296. rewrite E in Hsi. nia.
Qed.

(** * Float side: NaN propagation and ranges *)
Definition isn (x : PrimFloat.float) : Prop := Prim2B x = B754_nan.
Definition inrange (x : PrimFloat.float) : Prop := fin x /\ (-1 <= RV x <= 1)%R.

Lemma isn_iff x : isn x <-> go_isnan x = true.
Proof. unfold isn. rewrite go_isnan_equiv. destruct (Prim2B x); split; intros; try discriminate; reflexivity. Qed.
Lemma nonnan_not_isn x : nonnan x <-> ~ isn x.
Proof. unfold nonnan. rewrite isn_iff. destruct (go_isnan x); split; intros; try congruence. Qed.
Lemma isn_dec x : isn x \/ nonnan x.
Proof. unfold nonnan. destruct (go_isnan x) eqn:E; [left; now apply isn_iff|now right]. Qed.

Lemma isn_opp x : isn x -> isn (PrimFloat.opp x).
Proof. unfold isn. intros H. now rewrite opp_equiv, H. Qed.
Lemma isn_mul_r x y : isn y -> isn (PrimFloat.mul x y).
Proof. unfold isn. intros H. rewrite mul_equiv, H. now destruct (Prim2B x). Qed.
Lemma isn_mul_l x y : isn x -> isn (PrimFloat.mul x y).
Proof. unfold isn. intros H. now rewrite mul_equiv, H. Qed.
Lemma isn_add_l x y : isn x -> isn (PrimFloat.add x y).
Proof. unfold isn. intros H. now rewrite add_equiv, H. Qed.
Lemma isn_sub_r x y : isn y -> isn (PrimFloat.sub x y).
Proof. unfold isn. intros H. rewrite sub_equiv, H. now destruct (Prim2B x). Qed.
Lemma isn_sqrt x : isn x -> isn (PrimFloat.sqrt x).
Proof. unfold isn. intros H. now rewrite sqrt_equiv, H. Qed.
Lemma isn_div_l x y : isn x -> isn (PrimFloat.div x y).
Proof. unfold isn. intros H. now rewrite div_equiv, H. Qed.
Lemma isn_div_r x y : isn y -> isn (PrimFloat.div x y).
Proof. unfold isn. intros H. rewrite div_equiv, H. now destruct (Prim2B x). Qed.
Lemma isn_leb_r x y : isn y -> PrimFloat.leb x y = false.
Proof. unfold isn. intros H. rewrite leb_equiv, H. now destruct (Prim2B x). Qed.
Lemma isn_ltb_l x y : isn x -> PrimFloat.ltb x y = false.
Proof. unfold isn. intros H. now rewrite ltb_equiv, H. Qed.
Lemma isn_trunc x : isn x -> Z_of_float_trunc x = 0.
Proof. unfold isn, Z_of_float_trunc. intros H. rewrite <- B2SF_Prim2B, H. reflexivity. Qed.

(** a NaN coordinate gives si = 0 *)
Lemma stToSiTi_uvToST_nan u : isn u -> s2_stToSiTi (s2_uvToST u) = 0.
Proof.
  intros H. unfold s2_uvToST. rewrite (isn_leb_r _ u H).
  set (s := PrimFloat.sub _ _).
  assert (Hs : isn s) by (unfold s; apply isn_sub_r, isn_mul_r, isn_sqrt, isn_sub_r, isn_mul_r, H).
  unfold s2_stToSiTi. rewrite (isn_ltb_l s _ Hs).
  rewrite isn_trunc by (apply isn_add_l, isn_mul_l, Hs). reflexivity.
Qed.

Local Open Scope R_scope.

Lemma repr_int z : (Z.abs z < 2 ^ 53)%Z -> repr (IZR z). Proof. apply repr_IZR. Qed.
Lemma ok_int z : (0 <= z < 2 ^ 53)%Z -> okbound (IZR z). Proof. apply okbound_IZR. Qed.

(** square root of a finite non-negative float *)
Lemma sqrt_fin x : fin x -> 0 <= RV x -> fin (PrimFloat.sqrt x) /\ RV (PrimFloat.sqrt x) = rnd (R_sqrt.sqrt (RV x)).
Proof.
  unfold fin, RV. intros F H. rewrite sqrt_equiv.
  pose proof (Bsqrt_correct prec emax Hprec Hmax mode_NE (Prim2B x)) as (E & Fi & _).
  split; [|exact E]. rewrite Fi. destruct (Prim2B x) as [s|s| |s m e He]; try discriminate; auto.
  destruct s; auto. exfalso. cbn in H.
  assert (F2R (Float radix2 (Z.neg m) e) < 0) by (apply F2R_lt_0; cbn; lia). lra.
Qed.

Lemma rnd_int z : (Z.abs z < 2 ^ 53)%Z -> rnd (IZR z) = IZR z.
Proof. intros. apply rnd_repr, repr_IZR. assumption. Qed.

Lemma rnd_between a b r : (Z.abs a < 2 ^ 53)%Z -> (Z.abs b < 2 ^ 53)%Z -> IZR a <= r <= IZR b -> IZR a <= rnd r <= IZR b.
Proof.
  intros Ha Hb [H1 H2]. split.
  - rewrite <- (rnd_int a Ha). now apply rnd_le.
  - rewrite <- (rnd_int b Hb). now apply rnd_le.
Qed.

Lemma three_fin : fin (0x1.8p+01)%float. Proof. exact (lit_fin (0x1.8p+01)%float _ _ _ eq_refl). Qed.
Lemma three_RV : RV (0x1.8p+01)%float = 3. Proof. lit_value. Qed.
Lemma one_fin : fin (0x1p+00)%float. Proof. exact (lit_fin (0x1p+00)%float _ _ _ eq_refl). Qed.
Lemma one_RV : RV (0x1p+00)%float = 1. Proof. lit_value. Qed.

Lemma small_top r : Rabs r <= 8 -> Rabs (rnd r) < bpow radix2 emax.
Proof. intros H. apply (below_top r 8); [apply (ok_int 8); lia|exact H]. Qed.

Lemma half_rep_between r : 1 <= r <= 2 -> 1 / 2 <= rnd (1 / 2 * r) <= 1.
Proof.
  intros [H1 H2].
  assert (R12 : repr (1 / 2)).
  { replace (1 / 2) with (F2R (Float radix2 1 (-1))) by (unfold F2R; cbn; lra). apply repr_F2R; lia. }
  split.
  - rewrite <- (rnd_repr (1 / 2) R12) at 1. apply rnd_le. lra.
  - apply Rle_trans with (rnd 1); [apply rnd_le; lra|]. rewrite (rnd_int 1) by lia. lra.
Qed.

(** uvToST maps [-1,1] into [0,1] *)
Lemma uvToST_range u : inrange u -> fin (s2_uvToST u) /\ 0 <= RV (s2_uvToST u) <= 1.
Proof.
  intros [Fu Ru]. unfold s2_uvToST.
  (* 3u *)
  destruct (mul_fin _ u three_fin Fu) as [F1 R1]. { apply small_top. rewrite three_RV. apply Rabs_le. lra. }
  rewrite three_RV in R1.
  destruct (PrimFloat.leb 0 u) eqn:L.
  - assert (U0 : 0 <= RV u).
    { apply leb_fle in L; auto using zero_fin. destruct L as (_ & _ & L). now rewrite zero_RV in L. }
    assert (B1 : 0 <= RV (PrimFloat.mul (0x1.8p+01)%float u) <= 3).
    { rewrite R1. apply (rnd_between 0 3); try lia. lra. }
    destruct (add_fin _ _ one_fin F1) as [F2 R2]. { apply small_top. rewrite one_RV. apply Rabs_le. lra. }
    rewrite one_RV in R2.
    assert (B2 : 1 <= RV (PrimFloat.add (0x1p+00)%float (PrimFloat.mul (0x1.8p+01)%float u)) <= 4).
    { rewrite R2. apply (rnd_between 1 4); try lia. lra. }
    destruct (sqrt_fin _ F2 ltac:(lra)) as [F3 R3].
    assert (B3 : 1 <= RV (PrimFloat.sqrt (PrimFloat.add (0x1p+00)%float (PrimFloat.mul (0x1.8p+01)%float u))) <= 2).
    { rewrite R3. apply (rnd_between 1 2); try lia. split.
      - rewrite <- sqrt_1 at 1. apply sqrt_le_1_alt. lra.
      - replace 2 with (R_sqrt.sqrt 4) by (replace 4 with (2 * 2) by lra; apply sqrt_square; lra). apply sqrt_le_1_alt. lra. }
    destruct (mul_fin _ _ half_fin F3) as [F4 R4]. { apply small_top. rewrite half_RV. apply Rabs_le. lra. }
    rewrite half_RV in R4. split; [exact F4|]. rewrite R4.
    pose proof (half_rep_between _ B3). lra.
  - assert (U0 : RV u <= 0).
    { destruct (Rle_or_lt (RV u) 0) as [H|H]; auto. exfalso.
      assert (PrimFloat.leb 0 u = true) by (apply fle_leb; repeat split; auto using zero_fin; rewrite zero_RV; lra). congruence. }
    assert (B1 : -3 <= RV (PrimFloat.mul (0x1.8p+01)%float u) <= 0).
    { rewrite R1. apply (rnd_between (-3) 0); try lia. lra. }
    destruct (sub_fin _ _ one_fin F1) as [F2 R2]. { apply small_top. rewrite one_RV. apply Rabs_le. lra. }
    rewrite one_RV in R2.
    assert (B2 : 1 <= RV (PrimFloat.sub (0x1p+00)%float (PrimFloat.mul (0x1.8p+01)%float u)) <= 4).
    { rewrite R2. apply (rnd_between 1 4); try lia. lra. }
    destruct (sqrt_fin _ F2 ltac:(lra)) as [F3 R3].
    assert (B3 : 1 <= RV (PrimFloat.sqrt (PrimFloat.sub (0x1p+00)%float (PrimFloat.mul (0x1.8p+01)%float u))) <= 2).
    { rewrite R3. apply (rnd_between 1 2); try lia. split.
      - rewrite <- sqrt_1 at 1. apply sqrt_le_1_alt. lra.
      - replace 2 with (R_sqrt.sqrt 4) by (replace 4 with (2 * 2) by lra; apply sqrt_square; lra). apply sqrt_le_1_alt. lra. }
    destruct (mul_fin _ _ half_fin F3) as [F4 R4]. { apply small_top. rewrite half_RV. apply Rabs_le. lra. }
    rewrite half_RV in R4. pose proof (half_rep_between _ B3) as B4. rewrite <- R4 in B4.
    destruct (sub_fin _ _ one_fin F4) as [F5 R5]. { apply small_top. rewrite one_RV. apply Rabs_le. lra. }
    rewrite one_RV in R5. split; [exact F5|]. rewrite R5.
    apply (rnd_between 0 1); try lia. lra.
Qed.

(** truncation of a finite non-negative float *)
Lemma trunc_bounds x (B : Z) : fin x -> 0 <= RV x -> RV x < IZR (B + 1) ->
  (0 <= Z_of_float_trunc x <= B)%Z.
Proof.
  unfold fin, RV, Z_of_float_trunc. rewrite <- B2SF_Prim2B.
  destruct (Prim2B x) as [s|s| |s m e He]; cbn [B2SF is_finite B2R]; intros F H0 H1; try discriminate.
  - apply lt_IZR in H1. lia.
  - destruct s.
    { exfalso. assert (F2R (Float radix2 (cond_Zopp true (Z.pos m)) e) < 0) by (apply F2R_lt_0; cbn; lia). lra. }
    cbn [cond_Zopp] in *. unfold F2R in H1. cbn [Fnum Fexp] in H1.
    destruct (0 <=? e)%Z eqn:E.
    + apply Z.leb_le in E. rewrite <- (IZR_Zpower radix2 e) in H1 by lia.
      rewrite <- mult_IZR in H1. apply lt_IZR in H1. change (Zpower radix2 e) with (2 ^ e)%Z in H1.
      assert (0 < 2 ^ e)%Z by (apply Z.pow_pos_nonneg; lia). nia.
    + apply Z.leb_gt in E. rewrite Z.shiftr_div_pow2 by lia.
      assert (P : (0 < 2 ^ (- e))%Z) by (apply Z.pow_pos_nonneg; lia).
      split. { apply Z.div_pos; lia. }
      assert (IZR (Z.pos m / 2 ^ (- e)) < IZR (B + 1)).
      { apply Rle_lt_trans with (IZR (Z.pos m) * bpow radix2 e); [|exact H1].
        replace e with (- - e)%Z at 2 by lia. rewrite bpow_opp.
        rewrite <- (IZR_Zpower radix2) by lia. change (Zpower radix2 (- e)) with (2 ^ (- e))%Z.
        assert (0 < IZR (2 ^ (- e))) by (apply IZR_lt; lia).
        apply Rmult_le_reg_r with (IZR (2 ^ (- e))); [assumption|].
        rewrite Rmult_assoc, Rinv_l by lra. rewrite Rmult_1_r, <- mult_IZR. apply IZR_le.
        pose proof (Z.mul_div_le (Z.pos m) (2 ^ (- e)) P). lia. }
      apply lt_IZR in H. lia.
Qed.

Lemma lit31_half_ok : okbound 2147483649.
Proof. apply (ok_int 2147483649). lia. Qed.

(** si of a coordinate in [0,1] *)
Lemma stToSiTi_range01 s : fin s -> 0 <= RV s <= 1 -> (0 <= s2_stToSiTi s <= 2 ^ 31)%Z.
Proof.
  intros Fs Rs. unfold s2_stToSiTi.
  assert (L : PrimFloat.ltb s 0 = false).
  { apply ltb_false_iff; auto using fin_nonnan, zero_fin. rewrite !rank_fin by auto using zero_fin. rewrite zero_RV. lra. }
  rewrite L.
  destruct (mul_fin _ _ Fs lit31_fin) as [F1 R1].
  { apply (below_top _ 2147483649 lit31_half_ok). rewrite lit31_RV. apply Rabs_le. lra. }
  rewrite lit31_RV in R1.
  assert (B1 : 0 <= RV (PrimFloat.mul s (0x1p+31)%float) <= 2147483648).
  { rewrite R1. apply (rnd_between 0 2147483648); try lia. lra. }
  destruct (add_fin _ _ F1 half_fin) as [F2 R2].
  { apply (below_top _ 2147483649 lit31_half_ok). rewrite half_RV. apply Rabs_le. lra. }
  rewrite half_RV in R2.
  assert (B2 : 0 <= RV (PrimFloat.add (PrimFloat.mul s (0x1p+31)%float) (0x1p-01)%float) < 2147483649).
  { rewrite R2. split.
    - apply Rle_trans with (rnd 0); [rewrite rnd_0; lra|apply rnd_le; lra].
    - apply Rle_lt_trans with (rnd (IZR 4294967297 / 2)).
      + apply rnd_le. lra.
      + rewrite rnd_repr; [lra|].
        replace (IZR 4294967297 / 2) with (F2R (Float radix2 4294967297 (-1))) by (unfold F2R; cbn; lra).
        apply repr_F2R; lia. }
  pose proof (trunc_bounds _ 2147483648 F2 (proj1 B2) (proj2 B2)) as T.
  unfold wrap_u32, wrap_u. rewrite Z.mod_small by (change (2 ^ 32)%Z with 4294967296%Z; lia).
  change (2 ^ 31)%Z with 2147483648%Z. exact T.
Qed.

Lemma si_range u : inrange u -> (0 <= s2_stToSiTi (s2_uvToST u) <= 2 ^ 31)%Z.
Proof. intros H. destruct (uvToST_range u H) as [F R]. now apply stToSiTi_range01. Qed.

Notation BD := (@Bdiv prec emax Hprec Hmax mode_NE).
(** a quotient whose numerator is not larger in magnitude than its denominator: NaN or in [-1,1] *)
Lemma Bdiv_range (A B : binary_float prec emax) : is_nan A = false -> is_nan B = false ->
  Bleb (Babs A) (Babs B) = true ->
  BD A B = B754_nan \/ (is_finite (BD A B) = true /\ -1 <= B2R (BD A B) <= 1).
Proof.
  intros NA NB L.
  destruct B as [sb|sb| |sb mb eb Hb]; try discriminate; destruct A as [sa|sa| |sa ma ea Ha]; try discriminate;
    try (left; reflexivity); try (right; cbn; split; [reflexivity|lra]); try (exfalso; cbn in L; discriminate).
  (* finite / finite *)
  set (A := B754_finite sa ma ea Ha) in *. set (B := B754_finite sb mb eb Hb) in *.
  assert (FA : is_finite A = true) by reflexivity. assert (FB : is_finite B = true) by reflexivity.
  assert (LB : Rabs (B2R A) <= Rabs (B2R B)).
  { rewrite Bleb_correct in L by (rewrite is_finite_Babs; assumption). rewrite !B2R_Babs in L.
    destruct (Rle_bool_spec (Rabs (B2R A)) (Rabs (B2R B))); [assumption|discriminate]. }
  assert (NZ : B2R B <> 0).
  { unfold B. cbn. apply F2R_neq_0. cbn. destruct sb; discriminate. }
  pose proof (Bdiv_correct prec emax Hprec Hmax mode_NE A B NZ) as C.
  change (round radix2 (SpecFloat.fexp prec emax) (round_mode mode_NE)) with rnd in C.
  assert (Q : Rabs (B2R A / B2R B) <= 1).
  { unfold Rdiv. rewrite Rabs_mult, Rabs_inv. apply Rmult_le_reg_r with (Rabs (B2R B)); [apply Rabs_pos_lt; assumption|].
    rewrite Rmult_assoc, Rinv_l by (apply Rabs_no_R0; assumption). lra. }
  rewrite Rlt_bool_true in C.
  - destruct C as (R & F & _). right. split; [rewrite F; exact FA|]. rewrite R.
    apply Rabs_le_inv in Q. apply (rnd_between (-1) 1); try lia. exact Q.
  - apply (below_top _ 1); [apply (ok_int 1); lia|exact Q].
Qed.

Lemma abs_opp_B (A : binary_float prec emax) : Babs (Bopp A) = Babs A.
Proof. destruct A; reflexivity. Qed.

Lemma div_range a b : nonnan a -> nonnan b -> PrimFloat.leb (PrimFloat.abs a) (PrimFloat.abs b) = true ->
  isn (PrimFloat.div a b) \/ inrange (PrimFloat.div a b).
Proof.
  unfold nonnan. rewrite !go_isnan_equiv. intros Na Nb L. rewrite leb_equiv, !abs_equiv in L.
  unfold isn, inrange, fin, RV. rewrite div_equiv. now apply Bdiv_range.
Qed.
Lemma div_opp_range a b : nonnan a -> nonnan b -> PrimFloat.leb (PrimFloat.abs a) (PrimFloat.abs b) = true ->
  isn (PrimFloat.div (PrimFloat.opp a) b) \/ inrange (PrimFloat.div (PrimFloat.opp a) b).
Proof.
  unfold nonnan. rewrite !go_isnan_equiv. intros Na Nb L. rewrite leb_equiv, !abs_equiv in L.
  unfold isn, inrange, fin, RV. rewrite div_equiv, opp_equiv. apply Bdiv_range; auto.
  - now rewrite is_nan_Bopp.
  - now rewrite abs_opp_B.
Qed.

(** * u and v of a point: both in [-1,1], unless one of them is NaN *)
Lemma nonnan_abs x : nonnan x -> nonnan (PrimFloat.abs x).
Proof. unfold nonnan. rewrite !go_isnan_equiv, abs_equiv, is_nan_Babs. auto. Qed.
Lemma ltb_leb a b : nonnan a -> nonnan b -> PrimFloat.ltb a b = true -> PrimFloat.leb a b = true.
Proof. intros Na Nb H. apply ltb_true_iff in H; auto. apply leb_true_iff; auto. lra. Qed.
Lemma nltb_leb a b : nonnan a -> nonnan b -> PrimFloat.ltb a b = false -> PrimFloat.leb b a = true.
Proof. intros Na Nb H. apply ltb_false_iff in H; auto. apply leb_true_iff; auto. Qed.
Lemma leb_trans a b c : nonnan a -> nonnan b -> nonnan c ->
  PrimFloat.leb a b = true -> PrimFloat.leb b c = true -> PrimFloat.leb a c = true.
Proof.
  intros Na Nb Nc H1 H2. apply leb_true_iff in H1; auto. apply leb_true_iff in H2; auto.
  apply leb_true_iff; auto. lra.
Qed.

Definition uv_good (u v : PrimFloat.float) : Prop := (isn u \/ isn v) \/ (inrange u /\ inrange v).

(** a NaN component makes u or v NaN, on whatever face *)
Lemma uv_nan f r : isn (r3_Vector_X r) \/ isn (r3_Vector_Y r) \/ isn (r3_Vector_Z r) ->
  isn (fst (s2_validFaceXYZToUV f r)) \/ isn (snd (s2_validFaceXYZToUV f r)).
Proof.
  intros H. unfold s2_validFaceXYZToUV. cbv zeta.
  repeat match goal with |- context [if ?b then _ else _] => destruct b end; cbn [fst snd];
  destruct H as [H|[H|H]];
  first [ left; solve [auto using isn_div_l, isn_div_r, isn_opp] | right; solve [auto using isn_div_l, isn_div_r, isn_opp] ].
Qed.

Lemma face_of_largest r :
  let lc := r3_Vector_LargestComponent r in
  (lc = 0 \/ lc = 1 \/ lc = 2)%Z /\ (s2_face r = lc \/ s2_face r = lc + 3)%Z.
Proof.
  unfold s2_face. cbv zeta. set (lc := r3_Vector_LargestComponent r).
  assert (H : (lc = 0 \/ lc = 1 \/ lc = 2)%Z).
  { unfold lc, r3_Vector_LargestComponent.
    repeat match goal with |- context [if ?b then _ else _] => destruct b end; auto. }
  split; [exact H|]. destruct H as [-> | [-> | ->]];
    repeat match goal with |- context [if ?b then _ else _] => destruct b end; cbn; auto.
Qed.

Lemma uv_range r : let '(f, u, v) := s2_xyzToFaceUV r in uv_good u v.
Proof.
  unfold s2_xyzToFaceUV. cbv zeta.
  destruct (s2_validFaceXYZToUV (s2_face r) r) as [u v] eqn:E.
  assert (Eu : u = fst (s2_validFaceXYZToUV (s2_face r) r)) by now rewrite E.
  assert (Ev : v = snd (s2_validFaceXYZToUV (s2_face r) r)) by now rewrite E.
  destruct r as [x y z].
  destruct (isn_dec x) as [Nx|Nx]. { left. rewrite Eu, Ev. apply uv_nan. cbn. auto. }
  destruct (isn_dec y) as [Ny|Ny]. { left. rewrite Eu, Ev. apply uv_nan. cbn. auto. }
  destruct (isn_dec z) as [Nz|Nz]. { left. rewrite Eu, Ev. apply uv_nan. cbn. auto. }
  pose proof (nonnan_abs x Nx) as Ax. pose proof (nonnan_abs y Ny) as Ay. pose proof (nonnan_abs z Nz) as Az.
  destruct (face_of_largest (mk_r3_Vector x y z)) as [_ Hf]. cbv zeta in Hf.
  unfold r3_Vector_LargestComponent, r3_Vector_Abs in Hf. cbn [r3_Vector_X r3_Vector_Y r3_Vector_Z] in Hf.
  assert (G : forall a b, nonnan a -> nonnan b -> PrimFloat.leb (PrimFloat.abs a) (PrimFloat.abs b) = true ->
              (isn (PrimFloat.div a b) \/ inrange (PrimFloat.div a b)) /\
              (isn (PrimFloat.div (PrimFloat.opp a) b) \/ inrange (PrimFloat.div (PrimFloat.opp a) b))).
  { intros a b Na Nb L. split; [now apply div_range|now apply div_opp_range]. }
  assert (K : forall p q : PrimFloat.float, (isn p \/ inrange p) -> (isn q \/ inrange q) -> uv_good p q).
  { intros p q [Hp|Hp] [Hq|Hq]; unfold uv_good; auto. }
  destruct (PrimFloat.ltb (PrimFloat.abs y) (PrimFloat.abs x)) eqn:L1.
  - destruct (PrimFloat.ltb (PrimFloat.abs z) (PrimFloat.abs x)) eqn:L2.
    + (* x largest *)
      pose proof (ltb_leb _ _ Ay Ax L1) as Lyx. pose proof (ltb_leb _ _ Az Ax L2) as Lzx.
      destruct (G y x Ny Nx Lyx) as [Gy _]. destruct (G z x Nz Nx Lzx) as [Gz _].
      destruct Hf as [Hf|Hf]; rewrite Hf in Eu, Ev; cbn in Eu, Ev; subst u v; now apply K.
    + (* z largest, |y| < |x| <= |z| *)
      pose proof (ltb_leb _ _ Ay Ax L1) as Lyx. pose proof (nltb_leb _ _ Az Ax L2) as Lxz.
      pose proof (leb_trans _ _ _ Ay Ax Az Lyx Lxz) as Lyz.
      destruct (G x z Nx Nz Lxz) as [_ Gx]. destruct (G y z Ny Nz Lyz) as [_ Gy].
      destruct Hf as [Hf|Hf]; rewrite Hf in Eu, Ev; cbn in Eu, Ev; subst u v; now apply K.
  - destruct (PrimFloat.ltb (PrimFloat.abs z) (PrimFloat.abs y)) eqn:L2.
    + (* y largest *)
      pose proof (nltb_leb _ _ Ay Ax L1) as Lxy. pose proof (ltb_leb _ _ Az Ay L2) as Lzy.
      destruct (G x y Nx Ny Lxy) as [_ Gx]. destruct (G z y Nz Ny Lzy) as [Gz _].
      destruct Hf as [Hf|Hf]; rewrite Hf in Eu, Ev; cbn in Eu, Ev; subst u v; now apply K.
    + (* z largest, |x| <= |y| <= |z| *)
      pose proof (nltb_leb _ _ Ay Ax L1) as Lxy. pose proof (nltb_leb _ _ Az Ay L2) as Lyz.
      pose proof (leb_trans _ _ _ Ax Ay Az Lxy Lyz) as Lxz.
      destruct (G x z Nx Nz Lxz) as [_ Gx]. destruct (G y z Ny Nz Lyz) as [_ Gy].
      destruct Hf as [Hf|Hf]; rewrite Hf in Eu, Ev; cbn in Eu, Ev; subst u v; now apply K.
Qed.

(** * What the cell-centre detection guarantees about (si, ti) when it reports a level *)
Local Open Scope Z_scope.

Lemma detect_levels P :
  let r := s2_xyzToFaceSiTi P in
  0 <= snd r ->
  let si := snd (fst (fst r)) in let ti := snd (fst r) in
  coord_level si = snd r /\ coord_level ti = snd r /\
  exists u v, uv_good u v /\ si = s2_stToSiTi (s2_uvToST u) /\ ti = s2_stToSiTi (s2_uvToST v).
Proof.
  unfold s2_xyzToFaceSiTi. pose proof (uv_range (s2_Point_Vector P)) as UV.
  destruct (s2_xyzToFaceUV (s2_Point_Vector P)) as [[f0 u] v]. cbv zeta.
  set (si := s2_stToSiTi (s2_uvToST u)). set (ti := s2_stToSiTi (s2_uvToST v)).
  fold (coord_level si). fold (coord_level ti).
  destruct ((coord_level si <? 0) || negb (coord_level si =? coord_level ti)) eqn:C.
  - cbn [fst snd]. intros H. exfalso. lia.
  - apply orb_false_iff in C. destruct C as [C1 C2]. apply negb_false_iff in C2. apply Z.eqb_eq in C2.
    set (c := r3_Vector_Normalize (s2_Point_Vector (s2_faceSiTiToXYZ f0 si ti))).
    match goal with |- context [if ?b then _ else _] => destruct b end; cbn [fst snd].
    + intros _. split; [reflexivity|]. split; [now rewrite C2|]. exists u, v. auto.
    + intros H. exfalso. lia.
Qed.

Lemma coord_exact u si level : (isn u \/ inrange u) -> si = s2_stToSiTi (s2_uvToST u) ->
  coord_level si = level -> 0 <= level ->
  s2_piQiToST (s2_siTitoPiQi si level) level = s2_siTiToST si.
Proof.
  intros Hu -> Hl H0.
  destruct Hu as [Hu|Hu].
  { rewrite (stToSiTi_uvToST_nan u Hu) in Hl. rewrite coord_level_zero in Hl. lia. }
  pose proof (si_range u Hu) as R. set (si := s2_stToSiTi (s2_uvToST u)) in *.
  assert (Hsi : 0 < si < 2 ^ 31).
  { change (2 ^ 31) with 2147483648 in *.
    destruct (Z.eq_dec si 0) as [E|E]; [rewrite E, coord_level_zero in Hl; lia|].
    destruct (Z.eq_dec si 2147483648) as [E2|E2]; [rewrite E2, coord_level_top in Hl; lia|]. lia. }
  pose proof (coord_level_spec si Hsi ltac:(lia)) as S. cbv zeta in S. rewrite Hl in S.
  destruct S as (Hlv & m & Hm & Esi & Epi). rewrite Epi.
  transitivity (s2_siTiToST ((2 * m + 1) * 2 ^ (30 - level))); [now apply piqi_st_exact|now rewrite <- Esi].
Qed.

(** H_piqi_exact, as a theorem about the translated functions *)
Theorem piqi_exact v face si ti level :
  s2_xyzToFaceSiTi (mk_s2_Point v) = (face, si, ti, level) -> 0 <= level ->
  s2_facePiQitoXYZ face (s2_siTitoPiQi si level) (s2_siTitoPiQi ti level) level
  = r3_Vector_Normalize (s2_Point_Vector (s2_faceSiTiToXYZ face si ti)).
Proof.
  intros E Hl. pose proof (detect_levels (mk_s2_Point v)) as D. cbv zeta in D. rewrite E in D. cbn [fst snd] in D.
  destruct (D Hl) as (L1 & L2 & u & w & G & Esi & Eti).
  assert (Gu : (isn u \/ inrange u) /\ (isn w \/ inrange w)).
  { destruct G as [[Hn|Hn]|[Hu Hw]]; [| |split; auto].
    - exfalso. rewrite Esi, (stToSiTi_uvToST_nan u Hn), coord_level_zero in L1. lia.
    - exfalso. rewrite Eti, (stToSiTi_uvToST_nan w Hn), coord_level_zero in L2. lia. }
  destruct Gu as [Gu Gw].
  unfold s2_facePiQitoXYZ, s2_faceSiTiToXYZ. cbn [s2_Point_Vector].
  rewrite (coord_exact u si level Gu Esi L1 Hl), (coord_exact w ti level Gw Eti L2 Hl). reflexivity.
Qed.
