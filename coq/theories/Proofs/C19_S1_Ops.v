(** C19, s1.Interval (AddPoint, Project, Complement, constructors). See Proofs/C19_S1.v for the specification side. *)
From Coq Require Import ZArith Reals Floats Lra Bool List.
From Flocq Require Import Core.Core IEEE754.BinarySingleNaN IEEE754.PrimFloat.
From Geo Require Import Base.GoPrim Base.F64 Gen.S1 Proofs.C19_S1.
Local Open Scope R_scope.

(** * AddPoint *)
Lemma s1_addpoint_valid i p : valid_s1 i -> nonnan p -> valid_s1 (s1_Interval_AddPoint i p).
Proof.
  destruct i as [lo hi]. intros Hv Np. open_valid.
  unfold s1_Interval_AddPoint. pi_consts.
  destruct (PrimFloat.ltb PI (PrimFloat.abs p)) eqn:A.
  { finish. }
  apply ltb_false_iff in A; [|reflexivity|apply nonnan_abs; assumption].
  apply leb_true_iff in A; [|apply nonnan_abs; assumption|reflexivity].
  apply leb_abs_pi in A. destruct A as [_ Rp]. fold rpi in Rp.
  destruct (norm_float p Np) as [N' E']. simpl in N', E'.
  pose proof (normR_range (rank p) Rp) as Hq. rewrite <- E' in Hq. clear E'.
  set (p' := if PrimFloat.eqb p NPI then PI else p) in *. clearbody p'.
  s1_unfold. if_reflect; finish.
Qed.

Lemma s1_addpoint_sound i p x : valid_s1 i -> vpt p -> inrange x ->
  mem_s1 i x \/ normR x = normR (rank p) -> mem_s1 (s1_Interval_AddPoint i p) x.
Proof.
  destruct i as [lo hi]. intros Hv [Np Rp] Hx. open_valid.
  unfold s1_Interval_AddPoint. pi_consts.
  destruct (PrimFloat.ltb PI (PrimFloat.abs p)) eqn:A.
  { apply ltb_true_iff in A; [|reflexivity|apply nonnan_abs; assumption].
    rewrite rank_abs in A. fold rpi in A. unfold Rabs in A. destruct (Rcase_abs (rank p)); lra. }
  clear A.
  destruct (norm_float p Np) as [N' E']. simpl in N', E'. rewrite <- E'.
  pose proof (normR_range (rank p) Rp) as Hq. rewrite <- E' in Hq. clear E'.
  set (p' := if PrimFloat.eqb p NPI then PI else p) in *. clearbody p'.
  norm_point x Hx. intros Hm. s1_unfold. if_reflect; finish.
Qed.

(** * Project *)
Lemma s1_project_inside i p : valid_s1 i -> vpt p -> s1_Interval_IsEmpty i = false ->
  vpt (s1_Interval_Project i p) /\ mem_s1f i (s1_Interval_Project i p).
Proof.
  destruct i as [lo hi]. intros Hv [Np Rp] He. open_valid.
  unfold s1_Interval_Project, mem_s1f, mem_s1. pi_consts.
  destruct (norm_float p Np) as [N' E']. simpl in N', E'.
  pose proof (normR_range (rank p) Rp) as Hq. rewrite <- E' in Hq. clear E'.
  set (p' := if PrimFloat.eqb p NPI then PI else p) in *. clearbody p'.
  s1_unfold. reflectR He.
  if_reflect.
  all: match goal with |- _ /\ memR _ _ (normR ?w) =>
         destruct (normR_cases w) as [[? Hn]|[? Hn]]; rewrite Hn end; finish.
Qed.

(** * Complement *)
Lemma s1_complement_valid i : valid_s1 i -> valid_s1 (s1_Interval_Complement i).
Proof.
  destruct i as [lo hi]. intros Hv. open_valid. s1_unfold. if_reflect; finish.
Qed.

Lemma s1_complement_covers i x : valid_s1 i -> inrange x ->
  mem_s1 i x \/ mem_s1 (s1_Interval_Complement i) x.
Proof.
  destruct i as [lo hi]. intros Hv Hx. open_valid. norm_point x Hx. s1_unfold. if_reflect; finish.
Qed.

(** the complement shares only the two endpoints with the original (it is the closure of the set complement) *)
Lemma s1_complement_overlap_only_endpoints i x : valid_s1 i -> inrange x ->
  mem_s1 i x -> mem_s1 (s1_Interval_Complement i) x ->
  normR x = normR (rank (s1_Interval_Lo i)) \/ normR x = normR (rank (s1_Interval_Hi i)).
Proof.
  destruct i as [lo hi]. intros Hv Hx. open_valid. cbn [s1_Interval_Lo s1_Interval_Hi].
  destruct (normR_cases (rank lo)) as [[? ->]|[? ->]];
  destruct (normR_cases (rank hi)) as [[? ->]|[? ->]];
  norm_point x Hx; s1_unfold; if_reflect; intros Hm1 Hm2; finish.
Qed.

(** * Constructors *)
Lemma s1_from_endpoints_valid lo hi : vpt lo -> vpt hi -> valid_s1 (s1_IntervalFromEndpoints lo hi).
Proof.
  intros [Nl Rl] [Nh Rh]. unfold inrange in *. pose proof rpi_pos. s1_unfold. if_reflect; finish.
Qed.

Lemma s1_from_point_pair_valid p q : vpt p -> vpt q -> valid_s1 (s1_IntervalFromPointPair p q).
Proof.
  intros [Np Rp] [Nq Rq]. unfold s1_IntervalFromPointPair. pi_consts.
  destruct (norm_float p Np) as [Np' Ep]. destruct (norm_float q Nq) as [Nq' Eq]. simpl in *.
  pose proof (normR_range _ Rp) as Hp. pose proof (normR_range _ Rq) as Hq.
  rewrite <- Ep in Hp. rewrite <- Eq in Hq. clear Ep Eq.
  set (p' := if PrimFloat.eqb p NPI then PI else p) in *. clearbody p'.
  set (q' := if PrimFloat.eqb q NPI then PI else q) in *. clearbody q'.
  pose proof rpi_pos. if_reflect; finish.
Qed.

Lemma s1_from_point_pair_contains p q : vpt p -> vpt q ->
  mem_s1f (s1_IntervalFromPointPair p q) p /\ mem_s1f (s1_IntervalFromPointPair p q) q.
Proof.
  intros [Np Rp] [Nq Rq]. unfold s1_IntervalFromPointPair, mem_s1f, mem_s1. pi_consts.
  destruct (norm_float p Np) as [Np' Ep]. destruct (norm_float q Nq) as [Nq' Eq]. simpl in *.
  pose proof (normR_range _ Rp) as Hp. pose proof (normR_range _ Rq) as Hq.
  rewrite <- Ep, <- Eq in *. clear Ep Eq.
  set (p' := if PrimFloat.eqb p NPI then PI else p) in *. clearbody p'.
  set (q' := if PrimFloat.eqb q NPI then PI else q) in *. clearbody q'.
  pose proof rpi_pos. if_reflect; finish.
Qed.


(** * The hypotheses of the theorems are satisfiable: concrete valid operands of every class *)
Example ex_valid_inverted : valid_s1 (mk_s1_Interval 3%float (-3)%float).
Proof. apply valid_iff. reflexivity. Qed.
Example ex_valid_inverted_at_pi : valid_s1 (mk_s1_Interval PI (-3)%float).
Proof. apply valid_iff. reflexivity. Qed.
Example ex_valid_singleton_pi : valid_s1 (mk_s1_Interval PI PI).
Proof. apply valid_iff. reflexivity. Qed.
Example ex_valid_normal : valid_s1 (mk_s1_Interval (-1)%float 2%float).
Proof. apply valid_iff. reflexivity. Qed.
Example ex_invalid_minus_pi : s1_Interval_IsValid (mk_s1_Interval NPI 0%float) = false.
Proof. reflexivity. Qed.
Example ex_vpt_minus_pi : vpt NPI.
Proof.
  split; [reflexivity|]. unfold inrange. rewrite rank_NPI. pose proof rpi_pos. lra.
Qed.
Example ex_vpt_zero : vpt 0%float.
Proof.
  split; [reflexivity|]. unfold inrange. rewrite rank_zero. pose proof rpi_pos. lra.
Qed.
