(** C19, r1.Interval: the generated functions of r1/interval.go against point membership.
    Membership is defined on ranks (Base/F64.v), independently of the code's Contains. *)
From Coq Require Import ZArith Reals Floats Lra Bool List.
From Geo Require Import Base.GoPrim Base.F64 Gen.R1.
Local Open Scope R_scope.

Definition wf1 (i : r1_Interval) : Prop := nonnan (r1_Interval_Lo i) /\ nonnan (r1_Interval_Hi i).
Definition mem1 (i : r1_Interval) (p : PrimFloat.float) : Prop :=
  rank (r1_Interval_Lo i) <= rank p <= rank (r1_Interval_Hi i).

Ltac r1_unfold :=
  unfold mem1, wf1, r1_Interval_Union, r1_Interval_Intersection, r1_Interval_Contains,
    r1_Interval_ContainsInterval, r1_Interval_Intersects, r1_Interval_AddPoint,
    r1_Interval_ClampPoint, r1_Interval_IsEmpty, r1_Interval_InteriorContains,
    r1_Interval_InteriorIntersects, r1_Interval_InteriorContainsInterval, r1_EmptyInterval,
    r1_IntervalFromPoint in *.

Ltac split_cmp :=
  repeat match goal with
  | |- context [if ?c then _ else _] => destruct c eqn:?
  | H : context [if ?c then _ else _] |- _ => destruct c eqn:?
  | H : andb _ _ = true |- _ => apply andb_true_iff in H; destruct H
  | H : andb _ _ = false |- _ => apply andb_false_iff in H; destruct H
  | H : orb _ _ = true |- _ => apply orb_true_iff in H; destruct H
  | H : orb _ _ = false |- _ => apply orb_false_iff in H; destruct H
  | |- andb _ _ = true => apply andb_true_iff; split
  end.

Lemma contains_mem i p : wf1 i -> nonnan p ->
  (r1_Interval_Contains i p = true <-> mem1 i p).
Proof.
  destruct i as [lo hi]. r1_unfold. simpl. intros [Hl Hh] Hp. split.
  - intros H. split_cmp. float_cmp_to_R. lra.
  - intros [H1 H2]. split_cmp; float_cmp_to_R; lra.
Qed.

Lemma isempty_spec i : wf1 i ->
  (r1_Interval_IsEmpty i = true <-> forall p, nonnan p -> ~ mem1 i p).
Proof.
  destruct i as [lo hi]. r1_unfold. simpl. intros [Hl Hh]. split.
  - intros H p Hp [H1 H2]. float_cmp_to_R. lra.
  - intros H. destruct (PrimFloat.ltb hi lo) eqn:E; [reflexivity|]. float_cmp_to_R.
    exfalso. apply (H lo Hl). lra.
Qed.

Lemma union_wf a b : wf1 a -> wf1 b -> wf1 (r1_Interval_Union a b).
Proof.
  destruct a as [al ah], b as [bl bh]. r1_unfold. simpl. intros [? ?] [? ?].
  split_cmp; simpl; auto; split;
  try (apply go_fmin_rank; assumption); apply go_fmax_rank; assumption.
Qed.

Lemma union_sound a b p : wf1 a -> wf1 b -> nonnan p ->
  mem1 a p \/ mem1 b p -> mem1 (r1_Interval_Union a b) p.
Proof.
  destruct a as [al ah], b as [bl bh]. r1_unfold. simpl. intros [? ?] [? ?] Hp Hm.
  destruct (go_fmin_rank al bl) as [_ Emin]; auto.
  destruct (go_fmax_rank ah bh) as [_ Emax]; auto.
  split_cmp; simpl; float_cmp_to_R; try rewrite Emin; try rewrite Emax;
  try (pose proof (Rmin_l (rank al) (rank bl)); pose proof (Rmin_r (rank al) (rank bl));
       pose proof (Rmax_l (rank ah) (rank bh)); pose proof (Rmax_r (rank ah) (rank bh)));
  lra.
Qed.

(** the union adds nothing outside the convex hull of the two operands *)
Lemma union_hull a b p : wf1 a -> wf1 b -> nonnan p ->
  mem1 (r1_Interval_Union a b) p ->
  (exists q, nonnan q /\ (mem1 a q \/ mem1 b q) /\ rank q <= rank p) /\
  (exists q, nonnan q /\ (mem1 a q \/ mem1 b q) /\ rank p <= rank q).
Proof.
  destruct a as [al ah], b as [bl bh]. r1_unfold. simpl. intros [? ?] [? ?] Hp Hm.
  destruct (go_fmin_rank al bl) as [_ Emin]; auto.
  destruct (go_fmax_rank ah bh) as [_ Emax]; auto.
  split_cmp; simpl in *; float_cmp_to_R.
  - split; [exists bl | exists bh]; repeat split; auto; lra.
  - split; [exists al | exists ah]; repeat split; auto; lra.
  - rewrite Emin, Emax in Hm.
    split.
    + destruct (Rle_dec (rank al) (rank bl)).
      * exists al. rewrite Rmin_left in Hm by lra. repeat split; auto; lra.
      * exists bl. rewrite Rmin_right in Hm by lra. repeat split; auto; lra.
    + destruct (Rle_dec (rank ah) (rank bh)).
      * exists bh. rewrite Rmax_right in Hm by lra. repeat split; auto; lra.
      * exists ah. rewrite Rmax_left in Hm by lra. repeat split; auto; lra.
Qed.

Lemma intersection_wf a b : wf1 a -> wf1 b -> wf1 (r1_Interval_Intersection a b).
Proof.
  destruct a as [al ah], b as [bl bh]. r1_unfold. simpl. intros [? ?] [? ?].
  split; [apply go_fmax_rank | apply go_fmin_rank]; assumption.
Qed.

Lemma intersection_exact a b p : wf1 a -> wf1 b -> nonnan p ->
  (mem1 (r1_Interval_Intersection a b) p <-> mem1 a p /\ mem1 b p).
Proof.
  destruct a as [al ah], b as [bl bh]. r1_unfold. simpl. intros [? ?] [? ?] Hp.
  destruct (go_fmax_rank al bl) as [_ Emax]; auto.
  destruct (go_fmin_rank ah bh) as [_ Emin]; auto.
  rewrite Emax, Emin.
  pose proof (Rmin_l (rank ah) (rank bh)); pose proof (Rmin_r (rank ah) (rank bh)).
  pose proof (Rmax_l (rank al) (rank bl)); pose proof (Rmax_r (rank al) (rank bl)).
  split.
  - intros [? ?]. lra.
  - intros [[? ?] [? ?]]. split.
    + apply Rmax_lub; lra.
    + apply Rmin_glb; lra.
Qed.

Lemma contains_interval_spec a b : wf1 a -> wf1 b ->
  (r1_Interval_ContainsInterval a b = true <-> forall p, nonnan p -> mem1 b p -> mem1 a p).
Proof.
  destruct a as [al ah], b as [bl bh]. r1_unfold. simpl. intros [? ?] [? ?]. split.
  - intros Hc p Hp Hm. split_cmp; float_cmp_to_R; lra.
  - intros Hall. split_cmp; try reflexivity; float_cmp_to_R.
    + destruct (Hall bl) as [? ?]; auto; lra.
    + destruct (Hall bh) as [? ?]; auto; lra.
Qed.

Lemma intersects_spec a b : wf1 a -> wf1 b ->
  (r1_Interval_Intersects a b = true <-> exists p, nonnan p /\ mem1 a p /\ mem1 b p).
Proof.
  destruct a as [al ah], b as [bl bh]. r1_unfold. simpl. intros [? ?] [? ?]. split.
  - intros Hc. split_cmp; float_cmp_to_R.
    + exists bl. repeat split; auto; lra.
    + exists al. repeat split; auto; lra.
  - intros [p [Hp [[? ?] [? ?]]]]. split_cmp; float_cmp_to_R; lra.
Qed.

Lemma addpoint_wf i p : wf1 i -> nonnan p -> wf1 (r1_Interval_AddPoint i p).
Proof.
  destruct i as [lo hi]. r1_unfold. simpl. intros [? ?] Hp.
  split_cmp; simpl; auto.
Qed.

Lemma addpoint_sound i p q : wf1 i -> nonnan p -> nonnan q ->
  (mem1 i q \/ rank q = rank p) -> mem1 (r1_Interval_AddPoint i p) q.
Proof.
  destruct i as [lo hi]. r1_unfold. simpl. intros [? ?] Hp Hq Hm.
  split_cmp; simpl; float_cmp_to_R; lra.
Qed.

Lemma clamp_lands_inside i p : wf1 i -> nonnan p ->
  r1_Interval_IsEmpty i = false -> 
  nonnan (r1_Interval_ClampPoint i p) /\ mem1 i (r1_Interval_ClampPoint i p).
Proof.
  destruct i as [lo hi]. r1_unfold. simpl. intros [? ?] Hp He. float_cmp_to_R.
  destruct (go_fmin_rank hi p) as [Nmin Emin]; auto.
  destruct (go_fmax_rank lo (go_fmin hi p)) as [Nmax Emax]; auto.
  split; auto. rewrite Emax, Emin.
  pose proof (Rmin_l (rank hi) (rank p)).
  pose proof (Rmax_l (rank lo) (Rmin (rank hi) (rank p))).
  split; auto. apply Rmax_lub; lra.
Qed.

Lemma clamp_fixes_members i p : wf1 i -> nonnan p -> mem1 i p ->
  rank (r1_Interval_ClampPoint i p) = rank p.
Proof.
  destruct i as [lo hi]. r1_unfold. simpl. intros [? ?] Hp [? ?].
  destruct (go_fmin_rank hi p) as [Nmin Emin]; auto.
  destruct (go_fmax_rank lo (go_fmin hi p)) as [Nmax Emax]; auto.
  rewrite Emax, Emin. rewrite Rmin_right by lra. rewrite Rmax_right by lra. reflexivity.
Qed.

Lemma empty_is_empty : r1_Interval_IsEmpty r1_EmptyInterval = true.
Proof. reflexivity. Qed.

Lemma from_point_mem p q : nonnan p -> nonnan q ->
  (mem1 (r1_IntervalFromPoint p) q <-> rank q = rank p).
Proof. r1_unfold. simpl. intros. lra. Qed.
