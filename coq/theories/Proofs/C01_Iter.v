(** C01 — iterating over descendants: ChildBegin/ChildEnd(AtLevel) and Next enumerate exactly
    the descendants of a cell at a deeper level, in curve order; distanceFromBegin is the index. *)
From Coq Require Import ZArith List Bool Lia.
From Geo Require Import Base.GoPrim Gen.CellIDFull Proofs.C01_Bits Proofs.C01_Algebra.
Import ListNotations.
Local Open Scope Z_scope.

Lemma pow4_add : forall a b, 0 <= a -> 0 <= b -> 4 ^ (a + b) = 4 ^ a * 4 ^ b.
Proof. intros. apply Z.pow_add_r; lia. Qed.

(** the m-th descendant (0 <= m < 4^(L-l)) of c at level L >= l *)
Definition descendant (c l L m : Z) : Z := c - 4 ^ (30 - l) + (2 * m + 1) * 4 ^ (30 - L).

Lemma descendant_rep : forall c f l k L m, rep c f l k -> l <= L <= 30 -> 0 <= m < 4 ^ (L - l) ->
  rep (descendant c l L m) f L (k * 4 ^ (L - l) + m).
Proof.
  intros c f l k L m (Hf & Hl & Hk & E) HL Hm. unfold descendant.
  pose proof (pow4_pos (L - l) ltac:(lia)) as HD. pose proof (pow4_pos (30 - L) ltac:(lia)) as Hb.
  assert (Hbb : 4 ^ (30 - l) = 4 ^ (L - l) * 4 ^ (30 - L)) by (rewrite <- pow4_add by lia; f_equal; lia).
  assert (HLL : 4 ^ L = 4 ^ l * 4 ^ (L - l)) by (rewrite <- pow4_add by lia; f_equal; lia).
  split; [assumption|]. split; [lia|]. split.
  - rewrite HLL. assert (0 <= k * 4 ^ (L - l)) by (apply Z.mul_nonneg_nonneg; lia).
    assert ((k + 1) * 4 ^ (L - l) <= 4 ^ l * 4 ^ (L - l)) by (apply Z.mul_le_mono_nonneg_r; lia). lia.
  - rewrite E, Hbb. ring.
Qed.

Lemma descendant_parent : forall c f l k L m, rep c f l k -> l <= L <= 30 -> 0 <= m < 4 ^ (L - l) ->
  s2_CellID_Parent (descendant c l L m) l = c.
Proof.
  intros c f l k L m H HL Hm. pose proof (descendant_rep _ _ _ _ _ _ H HL Hm) as R.
  pose proof H as (Hf & Hl & Hk & E).
  pose proof (Parent_rep _ _ _ _ l R ltac:(lia)) as (_ & _ & _ & EP).
  pose proof (pow4_pos (L - l) ltac:(lia)) as HD.
  replace ((k * 4 ^ (L - l) + m) / 4 ^ (L - l)) with k in EP
    by (apply (Z.div_unique _ (4 ^ (L - l)) k m); [left; lia|ring]).
  rewrite EP, E. reflexivity.
Qed.

Lemma ChildBeginAtLevel_eq : forall c f l k L, rep c f l k -> l <= L <= 30 ->
  s2_CellID_ChildBeginAtLevel c L = descendant c l L 0.
Proof.
  intros c f l k L H HL. unfold s2_CellID_ChildBeginAtLevel, descendant.
  rewrite (lsb_rep _ _ _ _ H), (rep_wrap _ _ _ _ H). pose proof H as (Hf & Hl & _).
  rewrite lsbForLevel_eq by lia.
  pose proof (rep_bounds _ _ _ _ H) as (H1 & H2 & H3). pose proof (pow4_le_2_60 l Hl) as Hb.
  pose proof (pow4_pos (30 - L) ltac:(lia)) as HbL.
  assert (HbLle : 4 ^ (30 - L) <= 4 ^ (30 - l)) by (apply Z.pow_le_mono_r; lia).
  assert (0 <= f * 2 ^ 61) by lia. assert ((f + 1) * 2 ^ 61 <= 6 * 2 ^ 61) by lia.
  change (2 ^ 61) with (2 * 2 ^ 60) in *. change (2 ^ 60) with 1152921504606846976 in *.
  set (b := 4 ^ (30 - l)) in *. set (bL := 4 ^ (30 - L)) in *.
  rewrite (wrap_u64_small (c - b)) by (change (2 ^ 64) with 18446744073709551616; lia).
  rewrite (wrap_u64_small (c - b + bL)) by (change (2 ^ 64) with 18446744073709551616; lia).
  rewrite wrap_u64_small by (change (2 ^ 64) with 18446744073709551616; lia). ring.
Qed.

Lemma ChildEndAtLevel_eq : forall c f l k L, rep c f l k -> l <= L <= 30 ->
  s2_CellID_ChildEndAtLevel c L = descendant c l L (4 ^ (L - l) - 1) + 2 * 4 ^ (30 - L).
Proof.
  intros c f l k L H HL. unfold s2_CellID_ChildEndAtLevel, descendant.
  rewrite (lsb_rep _ _ _ _ H), (rep_wrap _ _ _ _ H). pose proof H as (Hf & Hl & _).
  rewrite lsbForLevel_eq by lia.
  pose proof (rep_bounds _ _ _ _ H) as (H1 & H2 & H3). pose proof (pow4_le_2_60 l Hl) as Hb.
  pose proof (pow4_pos (30 - L) ltac:(lia)) as HbL.
  assert (HbLle : 4 ^ (30 - L) <= 4 ^ (30 - l)) by (apply Z.pow_le_mono_r; lia).
  assert (Hbb : 4 ^ (30 - l) = 4 ^ (L - l) * 4 ^ (30 - L)) by (rewrite <- pow4_add by lia; f_equal; lia).
  assert (0 <= f * 2 ^ 61) by lia. assert ((f + 1) * 2 ^ 61 <= 6 * 2 ^ 61) by lia.
  change (2 ^ 61) with (2 * 2 ^ 60) in *. change (2 ^ 60) with 1152921504606846976 in *.
  set (b := 4 ^ (30 - l)) in *. set (bL := 4 ^ (30 - L)) in *.
  rewrite (wrap_u64_small (c + b)) by (change (2 ^ 64) with 18446744073709551616; lia).
  rewrite (wrap_u64_small (c + b + bL)) by (change (2 ^ 64) with 18446744073709551616; lia).
  rewrite wrap_u64_small by (change (2 ^ 64) with 18446744073709551616; lia).
  rewrite Hbb. ring.
Qed.

(** Next steps from one descendant to the following one *)
Lemma descendant_next : forall c f l k L m, rep c f l k -> l <= L <= 30 -> 0 <= m < 4 ^ (L - l) ->
  s2_CellID_Next (descendant c l L m) = descendant c l L (m + 1).
Proof.
  intros c f l k L m H HL Hm. rewrite (Next_eq _ _ _ _ (descendant_rep _ _ _ _ _ _ H HL Hm)).
  unfold descendant. ring.
Qed.

(** [iterate]: starting at ChildBeginAtLevel and applying Next m times gives the m-th descendant;
    after 4^(L-l) steps the iteration reaches ChildEndAtLevel, and not before. *)
Fixpoint iter_next (n : nat) (x : Z) : Z := match n with O => x | S n' => s2_CellID_Next (iter_next n' x) end.

Lemma iterate_descendants : forall c f l k L, rep c f l k -> l <= L <= 30 ->
  forall n : nat, Z.of_nat n <= 4 ^ (L - l) ->
  iter_next n (s2_CellID_ChildBeginAtLevel c L) = descendant c l L (Z.of_nat n).
Proof.
  intros c f l k L H HL n. induction n as [|n IH]; intros Hn.
  - exact (ChildBeginAtLevel_eq _ _ _ _ _ H HL).
  - cbn [iter_next]. rewrite IH by lia. rewrite (descendant_next _ _ _ _ _ _ H HL) by lia.
    f_equal. lia.
Qed.

Lemma iterate_reaches_end : forall c f l k L, rep c f l k -> l <= L <= 30 ->
  descendant c l L (4 ^ (L - l)) = s2_CellID_ChildEndAtLevel c L /\
  (forall m, 0 <= m < 4 ^ (L - l) -> descendant c l L m < s2_CellID_ChildEndAtLevel c L).
Proof.
  intros c f l k L H HL. rewrite (ChildEndAtLevel_eq _ _ _ _ _ H HL). unfold descendant.
  pose proof (pow4_pos (30 - L) ltac:(destruct H as (_ & ? & _); lia)) as Hb. split; [ring|].
  intros m Hm. assert ((2 * m + 1) * 4 ^ (30 - L) <= (2 * (4 ^ (L - l) - 1) + 1) * 4 ^ (30 - L))
    by (apply Z.mul_le_mono_nonneg_r; lia). lia.
Qed.

Lemma ChildBegin_eq : forall c f l k, rep c f l k -> l < 30 -> s2_CellID_ChildBegin c = child c l 0.
Proof.
  intros c f l k H Hl30. pose proof (Children_rep _ _ _ _ H Hl30) as E. rewrite Children_unfold in E.
  cbv zeta in E. injection E as E0 _ _ _. unfold s2_CellID_ChildBegin. cbv zeta.
  rewrite <- E0. rewrite (rep_wrap _ _ _ _ H), (lsb_rep _ _ _ _ H).
  pose proof (pow4_le_2_60 l ltac:(destruct H as (_ & ? & _); lia)). pose proof (pow4_pos (30 - l) ltac:(destruct H as (_ & ? & _); lia)).
  rewrite (wrap_u64_small (4 ^ (30 - l))) by (change (2 ^ 64) with (16 * 2 ^ 60); lia).
  unfold wrap_u64, wrap_u. rewrite Z.mod_mod by lia. reflexivity.
Qed.

(** distanceFromBegin is the index of the cell among the cells of its level *)
Lemma distanceFromBegin_index : forall c f l k, rep c f l k -> s2_CellID_distanceFromBegin c = index f l k.
Proof.
  intros c f l k H. unfold s2_CellID_distanceFromBegin. rewrite (Level_rep _ _ _ _ H).
  pose proof H as (Hf & Hl & Hk & _).
  rewrite (wrap_i64_small (30 - l)) by (change (2 ^ 63) with 9223372036854775808; lia).
  rewrite (wrap_i64_small (2 * (30 - l))) by (change (2 ^ 63) with 9223372036854775808; lia).
  rewrite (wrap_i64_small (2 * (30 - l) + 1)) by (change (2 ^ 63) with 9223372036854775808; lia).
  rewrite wrap_u64_small by (change (2 ^ 64) with 18446744073709551616; lia).
  rewrite go_shr_div by lia. rewrite Z.pow_add_r by lia. rewrite <- pow4_pow2 by lia. change (2 ^ 1) with 2.
  pose proof (pow4_pos (30 - l) ltac:(lia)) as Hb. pose proof (index_bounds f l k Hf ltac:(lia) Hk) as Hi.
  pose proof (pow4_pos l ltac:(lia)) as HB.
  assert (HBle : 4 ^ l <= 2 ^ 60) by (rewrite pow4_pow2 by lia; apply pow2_le; lia).
  replace (c / (4 ^ (30 - l) * 2)) with (index f l k).
  - apply wrap_i64_small. change (2 ^ 63) with 9223372036854775808. change (2 ^ 60) with 1152921504606846976 in HBle. lia.
  - apply (Z.div_unique c _ (index f l k) (4 ^ (30 - l))); [left; lia|].
    rewrite (rep_index_form _ _ _ _ H) at 1. ring.
Qed.
