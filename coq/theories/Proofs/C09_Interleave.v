(** C09 — bit interleaving: [deinterleaveUint32 (interleaveUint32 x y) = (x, y)] for every pair
    of uint32, about the functions translated from s2/interleave.go (lookup tables included).

    Method: the 64-bit code is the sum of four 16-bit chunks, chunk j depending only on byte j
    of x and of y; everything that depends on one pair of bytes (65536 cases) is checked by
    computation on the translated tables; the rest is positional arithmetic. *)
From Coq Require Import ZArith List Bool Lia.
From Geo Require Import Base.GoPrim Base.Bytes Gen.Codec Model.Codec Proofs.C09_Prims.
Import ListNotations.
Local Open Scope Z_scope.

Definition IL (b : Z) : Z := nthZ s2_interleaveLookup b 0.
Definition DL (c : Z) : Z := nthZ s2_deinterleaveLookup c 0.
(** the 16-bit chunk made of one byte of x and one byte of y *)
Definition chunk (xb yb : Z) : Z := Z.lor (IL xb) (Z.shiftl (IL yb) 1).

(** ** finite checks *)
Lemma in_zrange_up n i : 0 <= i < n -> In i (zrange_up 0 n).
Proof.
  intros H. unfold zrange_up. apply in_map_iff. exists (Z.to_nat i). split; [lia|].
  apply in_seq. lia.
Qed.
Lemma check_range (P : Z -> bool) n : forallb P (zrange_up 0 n) = true -> forall i, 0 <= i < n -> P i = true.
Proof. intros H i Hi. rewrite forallb_forall in H. apply H. now apply in_zrange_up. Qed.

Definition il_ok (b : Z) : bool := (0 <=? IL b) && (IL b <? 32768).
Lemma il_check : forallb il_ok (zrange_up 0 256) = true.
Proof. vm_compute. reflexivity. Qed.
Lemma IL_bound b : 0 <= b < 256 -> 0 <= IL b < 32768.
Proof.
  intros H. pose proof (check_range il_ok 256 il_check b H) as C. unfold il_ok in C.
  apply andb_true_iff in C. destruct C as [C1 C2]. apply Z.leb_le in C1. apply Z.ltb_lt in C2. lia.
Qed.

Definition dl_ok (c : Z) : bool := (0 <=? DL c) && (DL c <? 16).
Lemma dl_check : forallb dl_ok (zrange_up 0 256) = true.
Proof. vm_compute. reflexivity. Qed.
Lemma DL_bound c : 0 <= c < 256 -> 0 <= DL c < 16.
Proof.
  intros H. pose proof (check_range dl_ok 256 dl_check c H) as C. unfold dl_ok in C.
  apply andb_true_iff in C. destruct C as [C1 C2]. apply Z.leb_le in C1. apply Z.ltb_lt in C2. lia.
Qed.

Definition chunk_ok (xb yb : Z) : bool :=
  let p := chunk xb yb in
  (0 <=? p) && (p <? 65536)
  && (DL (Z.land (p mod 256) 85) =? xb mod 16) && (DL (Z.land (p / 256) 85) =? xb / 16)
  && (DL (Z.land (p mod 256) 170) =? yb mod 16) && (DL (Z.land (p / 256) 170) =? yb / 16).
Lemma chunk_check : forallb (fun xb => forallb (chunk_ok xb) (zrange_up 0 256)) (zrange_up 0 256) = true.
Proof. vm_compute. reflexivity. Qed.
Lemma chunk_facts xb yb : 0 <= xb < 256 -> 0 <= yb < 256 ->
  0 <= chunk xb yb < 65536
  /\ DL (Z.land (chunk xb yb mod 256) 85) = xb mod 16 /\ DL (Z.land (chunk xb yb / 256) 85) = xb / 16
  /\ DL (Z.land (chunk xb yb mod 256) 170) = yb mod 16 /\ DL (Z.land (chunk xb yb / 256) 170) = yb / 16.
Proof.
  intros Hx Hy.
  pose proof (check_range _ 256 chunk_check xb Hx) as C. cbv beta in C.
  pose proof (check_range _ 256 C yb Hy) as D. unfold chunk_ok in D. cbv zeta in D.
  repeat (apply andb_true_iff in D; destruct D as [D ?]).
  apply Z.leb_le in D.
  repeat match goal with H : (_ <? _) = true |- _ => apply Z.ltb_lt in H | H : (_ =? _) = true |- _ => apply Z.eqb_eq in H end.
  repeat split; auto.
Qed.

(** ** positional lemmas *)
Lemma lor8_regroup a b c d e f g h :
  Z.lor (Z.lor (Z.lor (Z.lor (Z.lor (Z.lor (Z.lor a b) c) d) e) f) g) h
  = Z.lor (Z.lor (Z.lor (Z.lor a e) (Z.lor b f)) (Z.lor c g)) (Z.lor d h).
Proof.
  apply Z.bits_inj'. intros n _. rewrite !Z.lor_spec.
  repeat match goal with |- context [Z.testbit ?x n] => destruct (Z.testbit x n) end; reflexivity.
Qed.

Lemma land_byte_mask a m : 0 <= m < 256 -> Z.land a m = Z.land (a mod 256) m.
Proof.
  intros Hm. change 256 with (2 ^ 8). rewrite <- Z.land_ones by lia. rewrite <- Z.land_assoc.
  f_equal. change (Z.ones 8) with 255. symmetry.
  replace m with (m mod 2 ^ 8) at 2 by (apply Z.mod_small; change (2 ^ 8) with 256; lia).
  rewrite <- Z.land_ones by lia. now rewrite Z.land_comm.
Qed.
Lemma land_byte_range a m : 0 <= m < 256 -> 0 <= Z.land a m < 256.
Proof.
  intros Hm. assert (E : Z.land a m = (Z.land a m) mod 2 ^ 8).
  { rewrite <- Z.land_ones by lia. rewrite <- Z.land_assoc. f_equal. change (Z.ones 8) with 255.
    replace m with (m mod 2 ^ 8) at 1 by (apply Z.mod_small; change (2 ^ 8) with 256; lia).
    now rewrite <- Z.land_ones by lia. }
  rewrite E. change (2 ^ 8) with 256. apply Z.mod_pos_bound. lia.
Qed.

Lemma shl_small_u64 e s : 0 <= e < 32768 -> 0 <= s <= 49 -> wrap_u64 (Z.shiftl e s) = e * 2 ^ s.
Proof.
  intros He Hs. rewrite Z.shiftl_mul_pow2 by lia. unfold wrap_u64, wrap_u. apply Z.mod_small.
  assert (2 ^ s <= 2 ^ 49) by (apply Z.pow_le_mono_r; lia).
  assert (0 < 2 ^ s) by (apply Z.pow_pos_nonneg; lia).
  change (2 ^ 64) with (32768 * 2 ^ 49). nia.
Qed.
Lemma shl_small_u32 e s : 0 <= e < 16 -> 0 <= s <= 28 -> wrap_u32 (Z.shiftl e s) = e * 2 ^ s.
Proof.
  intros He Hs. rewrite Z.shiftl_mul_pow2 by lia. unfold wrap_u32, wrap_u. apply Z.mod_small.
  assert (2 ^ s <= 2 ^ 28) by (apply Z.pow_le_mono_r; lia).
  assert (0 < 2 ^ s) by (apply Z.pow_pos_nonneg; lia).
  change (2 ^ 32) with (16 * 2 ^ 28). nia.
Qed.

Lemma lor_add a b s : 0 <= s -> 0 <= a < 2 ^ s -> 0 <= b -> Z.lor a (b * 2 ^ s) = a + b * 2 ^ s.
Proof. intros. rewrite <- (lor_shiftl_add a b s) by assumption. now rewrite Z.shiftl_mul_pow2 by lia. Qed.

(** ** the code as a sum of four chunks *)
Definition byte0 x := x mod 256.
Definition byte1 x := (x / 256) mod 256.
Definition byte2 x := (x / 65536) mod 256.
Definition byte3 x := x / 16777216.

Lemma bytes_range x : u32 x ->
  0 <= byte0 x < 256 /\ 0 <= byte1 x < 256 /\ 0 <= byte2 x < 256 /\ 0 <= byte3 x < 256.
Proof. unfold u32, byte0, byte1, byte2, byte3. change (2 ^ 32) with 4294967296. intros H. repeat split; Z.div_mod_to_equations; lia. Qed.
Lemma bytes_sum x : x = byte0 x + 256 * byte1 x + 65536 * byte2 x + 16777216 * byte3 x.
Proof. unfold byte0, byte1, byte2, byte3. Z.div_mod_to_equations. lia. Qed.

Lemma chunk_shift X Y s : 0 <= s -> Z.lor (Z.shiftl X s) (Z.shiftl Y (s + 1)) = Z.shiftl (Z.lor X (Z.shiftl Y 1)) s.
Proof. intros. rewrite Z.shiftl_lor. rewrite Z.shiftl_shiftl by lia. now rewrite (Z.add_comm 1 s). Qed.

Lemma interleave_sum x y : u32 x -> u32 y ->
  s2_interleaveUint32 x y =
  chunk (byte0 x) (byte0 y) + chunk (byte1 x) (byte1 y) * 2 ^ 16
  + chunk (byte2 x) (byte2 y) * 2 ^ 32 + chunk (byte3 x) (byte3 y) * 2 ^ 48.
Proof.
  intros Hx Hy.
  destruct (bytes_range x Hx) as (X0 & X1 & X2 & X3). destruct (bytes_range y Hy) as (Y0 & Y1 & Y2 & Y3).
  unfold s2_interleaveUint32, go_shr, go_shl. cbn [Z.ltb Z.compare].
  change 255 with (Z.ones 8). rewrite !Z.land_ones by lia. rewrite !Z.shiftr_div_pow2 by lia.
  change (2 ^ 8) with 256. change (2 ^ 16) with 65536 at 1 2. change (2 ^ 24) with 16777216.
  fold (byte0 x) (byte1 x) (byte2 x) (byte3 x) (byte0 y) (byte1 y) (byte2 y) (byte3 y).
  fold (IL (byte0 x)) (IL (byte1 x)) (IL (byte2 x)) (IL (byte3 x)) (IL (byte0 y)) (IL (byte1 y)) (IL (byte2 y)) (IL (byte3 y)).
  pose proof (IL_bound _ X0). pose proof (IL_bound _ X1). pose proof (IL_bound _ X2). pose proof (IL_bound _ X3).
  pose proof (IL_bound _ Y0). pose proof (IL_bound _ Y1). pose proof (IL_bound _ Y2). pose proof (IL_bound _ Y3).
  rewrite !shl_small_u64 by lia. rewrite <- !Z.shiftl_mul_pow2 by lia.
  rewrite lor8_regroup.
  change 17 with (16 + 1). change 33 with (32 + 1). change 49 with (48 + 1).
  rewrite !chunk_shift by lia. fold (chunk (byte0 x) (byte0 y)) (chunk (byte1 x) (byte1 y)) (chunk (byte2 x) (byte2 y)) (chunk (byte3 x) (byte3 y)).
  destruct (chunk_facts _ _ X0 Y0) as (C0 & _). destruct (chunk_facts _ _ X1 Y1) as (C1 & _).
  destruct (chunk_facts _ _ X2 Y2) as (C2 & _). destruct (chunk_facts _ _ X3 Y3) as (C3 & _).
  rewrite !Z.shiftl_mul_pow2 by lia.
  rewrite (lor_add _ _ 16) by (change (2 ^ 16) with 65536; lia).
  rewrite (lor_add _ _ 32) by (change (2 ^ 16) with 65536; change (2 ^ 32) with 4294967296; lia).
  rewrite (lor_add _ _ 48) by (change (2 ^ 16) with 65536; change (2 ^ 32) with 4294967296; change (2 ^ 48) with 281474976710656; lia).
  reflexivity.
Qed.

(** ** reading the chunks back *)
Lemma deinterleave_sum p0 p1 p2 p3 :
  0 <= p0 < 65536 -> 0 <= p1 < 65536 -> 0 <= p2 < 65536 -> 0 <= p3 < 65536 ->
  let f m p := DL (Z.land (p mod 256) m) + 16 * DL (Z.land (p / 256) m) in
  s2_deinterleaveUint32 (p0 + p1 * 2 ^ 16 + p2 * 2 ^ 32 + p3 * 2 ^ 48) =
  (f 85 p0 + 256 * f 85 p1 + 65536 * f 85 p2 + 16777216 * f 85 p3,
   f 170 p0 + 256 * f 170 p1 + 65536 * f 170 p2 + 16777216 * f 170 p3).
Proof.
  intros H0 H1 H2 H3 f. unfold f. clear f.
  set (code := p0 + p1 * 2 ^ 16 + p2 * 2 ^ 32 + p3 * 2 ^ 48).
  assert (Hc : code = p0 + p1 * 65536 + p2 * 4294967296 + p3 * 281474976710656) by reflexivity.
  unfold s2_deinterleaveUint32, go_shr, go_shl. cbn [Z.ltb Z.compare].
  rewrite !Z.shiftr_div_pow2 by lia.
  change (2 ^ 8) with 256. change (2 ^ 16) with 65536. change (2 ^ 24) with 16777216. change (2 ^ 32) with 4294967296.
  change (2 ^ 40) with 1099511627776. change (2 ^ 48) with 281474976710656. change (2 ^ 56) with 72057594037927936.
  (* every mask only looks at one byte of the code *)
  rewrite (land_byte_mask code 85), (land_byte_mask (code / 256) 85), (land_byte_mask (code / 65536) 85),
    (land_byte_mask (code / 16777216) 85), (land_byte_mask (code / 4294967296) 85), (land_byte_mask (code / 1099511627776) 85),
    (land_byte_mask (code / 281474976710656) 85), (land_byte_mask (code / 72057594037927936) 85) by lia.
  rewrite (land_byte_mask code 170), (land_byte_mask (code / 256) 170), (land_byte_mask (code / 65536) 170),
    (land_byte_mask (code / 16777216) 170), (land_byte_mask (code / 4294967296) 170), (land_byte_mask (code / 1099511627776) 170),
    (land_byte_mask (code / 281474976710656) 170), (land_byte_mask (code / 72057594037927936) 170) by lia.
  replace (code mod 256) with (p0 mod 256) by (rewrite Hc; Z.div_mod_to_equations; lia).
  replace ((code / 256) mod 256) with ((p0 / 256) mod 256) by (rewrite Hc; Z.div_mod_to_equations; lia).
  replace ((code / 65536) mod 256) with (p1 mod 256) by (rewrite Hc; Z.div_mod_to_equations; lia).
  replace ((code / 16777216) mod 256) with ((p1 / 256) mod 256) by (rewrite Hc; Z.div_mod_to_equations; lia).
  replace ((code / 4294967296) mod 256) with (p2 mod 256) by (rewrite Hc; Z.div_mod_to_equations; lia).
  replace ((code / 1099511627776) mod 256) with ((p2 / 256) mod 256) by (rewrite Hc; Z.div_mod_to_equations; lia).
  replace ((code / 281474976710656) mod 256) with (p3 mod 256) by (rewrite Hc; Z.div_mod_to_equations; lia).
  replace ((code / 72057594037927936) mod 256) with ((p3 / 256) mod 256) by (rewrite Hc; Z.div_mod_to_equations; lia).
  rewrite <- !(land_byte_mask (_ / 256)) by lia.
  fold (DL (Z.land (p0 mod 256) 85)) (DL (Z.land (p0 / 256) 85)) (DL (Z.land (p1 mod 256) 85)) (DL (Z.land (p1 / 256) 85))
       (DL (Z.land (p2 mod 256) 85)) (DL (Z.land (p2 / 256) 85)) (DL (Z.land (p3 mod 256) 85)) (DL (Z.land (p3 / 256) 85)).
  fold (DL (Z.land (p0 mod 256) 170)) (DL (Z.land (p0 / 256) 170)) (DL (Z.land (p1 mod 256) 170)) (DL (Z.land (p1 / 256) 170))
       (DL (Z.land (p2 mod 256) 170)) (DL (Z.land (p2 / 256) 170)) (DL (Z.land (p3 mod 256) 170)) (DL (Z.land (p3 / 256) 170)).
  assert (B : forall a m, 0 <= m < 256 -> 0 <= DL (Z.land a m) < 16) by (intros; apply DL_bound, land_byte_range; lia).
  pose proof (B (p0 mod 256) 85 ltac:(lia)). pose proof (B (p0 / 256) 85 ltac:(lia)).
  pose proof (B (p1 mod 256) 85 ltac:(lia)). pose proof (B (p1 / 256) 85 ltac:(lia)).
  pose proof (B (p2 mod 256) 85 ltac:(lia)). pose proof (B (p2 / 256) 85 ltac:(lia)).
  pose proof (B (p3 mod 256) 85 ltac:(lia)). pose proof (B (p3 / 256) 85 ltac:(lia)).
  pose proof (B (p0 mod 256) 170 ltac:(lia)). pose proof (B (p0 / 256) 170 ltac:(lia)).
  pose proof (B (p1 mod 256) 170 ltac:(lia)). pose proof (B (p1 / 256) 170 ltac:(lia)).
  pose proof (B (p2 mod 256) 170 ltac:(lia)). pose proof (B (p2 / 256) 170 ltac:(lia)).
  pose proof (B (p3 mod 256) 170 ltac:(lia)). pose proof (B (p3 / 256) 170 ltac:(lia)).
  rewrite !shl_small_u32 by lia.
  change (2 ^ 4) with 16. change (2 ^ 8) with 256. change (2 ^ 12) with 4096. change (2 ^ 16) with 65536.
  change (2 ^ 20) with 1048576. change (2 ^ 24) with 16777216. change (2 ^ 28) with 268435456.
  f_equal.
  - rewrite (lor_add _ _ 4) by (change (2 ^ 4) with 16; lia). change (2 ^ 4) with 16.
    change 256 with (2 ^ 8) at 1. rewrite (lor_add _ _ 8) by (change (2 ^ 8) with 256; lia). change (2 ^ 8) with 256.
    change 4096 with (2 ^ 12). rewrite (lor_add _ _ 12) by (change (2 ^ 12) with 4096; lia). change (2 ^ 12) with 4096.
    change 65536 with (2 ^ 16) at 1. rewrite (lor_add _ _ 16) by (change (2 ^ 16) with 65536; lia). change (2 ^ 16) with 65536.
    change 1048576 with (2 ^ 20). rewrite (lor_add _ _ 20) by (change (2 ^ 20) with 1048576; lia). change (2 ^ 20) with 1048576.
    change 16777216 with (2 ^ 24) at 1. rewrite (lor_add _ _ 24) by (change (2 ^ 24) with 16777216; lia). change (2 ^ 24) with 16777216.
    change 268435456 with (2 ^ 28). rewrite (lor_add _ _ 28) by (change (2 ^ 28) with 268435456; lia). change (2 ^ 28) with 268435456.
    lia.
  - rewrite (lor_add _ _ 4) by (change (2 ^ 4) with 16; lia). change (2 ^ 4) with 16.
    change 256 with (2 ^ 8) at 1. rewrite (lor_add _ _ 8) by (change (2 ^ 8) with 256; lia). change (2 ^ 8) with 256.
    change 4096 with (2 ^ 12). rewrite (lor_add _ _ 12) by (change (2 ^ 12) with 4096; lia). change (2 ^ 12) with 4096.
    change 65536 with (2 ^ 16) at 1. rewrite (lor_add _ _ 16) by (change (2 ^ 16) with 65536; lia). change (2 ^ 16) with 65536.
    change 1048576 with (2 ^ 20). rewrite (lor_add _ _ 20) by (change (2 ^ 20) with 1048576; lia). change (2 ^ 20) with 1048576.
    change 16777216 with (2 ^ 24) at 1. rewrite (lor_add _ _ 24) by (change (2 ^ 24) with 16777216; lia). change (2 ^ 24) with 16777216.
    change 268435456 with (2 ^ 28). rewrite (lor_add _ _ 28) by (change (2 ^ 28) with 268435456; lia). change (2 ^ 28) with 268435456.
    lia.
Qed.

(** deinterleaving an interleaved pair returns the pair, for all uint32 x y *)
Theorem interleave_roundtrip x y : u32 x -> u32 y ->
  s2_deinterleaveUint32 (s2_interleaveUint32 x y) = (x, y).
Proof.
  intros Hx Hy. rewrite interleave_sum by auto.
  destruct (bytes_range x Hx) as (X0 & X1 & X2 & X3). destruct (bytes_range y Hy) as (Y0 & Y1 & Y2 & Y3).
  destruct (chunk_facts _ _ X0 Y0) as (C0 & A0 & B0 & D0 & E0). destruct (chunk_facts _ _ X1 Y1) as (C1 & A1 & B1 & D1 & E1).
  destruct (chunk_facts _ _ X2 Y2) as (C2 & A2 & B2 & D2 & E2). destruct (chunk_facts _ _ X3 Y3) as (C3 & A3 & B3 & D3 & E3).
  rewrite deinterleave_sum by auto. cbv zeta.
  rewrite A0, B0, D0, E0, A1, B1, D1, E1, A2, B2, D2, E2, A3, B3, D3, E3.
  f_equal.
  - rewrite (bytes_sum x) at 9. Z.div_mod_to_equations. lia.
  - rewrite (bytes_sum y) at 9. Z.div_mod_to_equations. lia.
Qed.

Lemma interleave_range x y : u32 x -> u32 y -> 0 <= s2_interleaveUint32 x y < 2 ^ 64.
Proof.
  intros Hx Hy. rewrite interleave_sum by auto.
  destruct (bytes_range x Hx) as (X0 & X1 & X2 & X3). destruct (bytes_range y Hy) as (Y0 & Y1 & Y2 & Y3).
  destruct (chunk_facts _ _ X0 Y0) as (C0 & _). destruct (chunk_facts _ _ X1 Y1) as (C1 & _).
  destruct (chunk_facts _ _ X2 Y2) as (C2 & _). destruct (chunk_facts _ _ X3 Y3) as (C3 & _).
  change (2 ^ 16) with 65536. change (2 ^ 32) with 4294967296. change (2 ^ 48) with 281474976710656.
  change (2 ^ 64) with 18446744073709551616. lia.
Qed.
