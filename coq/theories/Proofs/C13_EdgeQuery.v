(** C13, EdgeQuery machine: for every history of option changes, FindEdges, Distance,
    IsDistanceLess/Greater, IsConservativeDistanceLessOrEqual and Reset on ONE query object,
    every answer equals the answer of a FRESH query object configured with the options the
    caller last set; the caller's options object is never modified by a query. The unrepaired
    findEdge / IsDistanceLess are refuted. Also: the cached edge count and covering never
    change the path decision, reused index targets, scratch of the other query types. *)
From Coq Require Import List Bool Arith Lia.
From Geo Require Import Model.Lazy.
Import ListNotations.

Section EdgeQueryProofs.
  Context {D Ix T R C : Type}.
  Variable straight : D.
  Variable expand : D -> D.
  Variable counts : Ix -> list nat.
  Variable threshold : T -> nat.
  Variable cover_of : Ix -> C.
  Variable search : Ix -> T -> @opts D -> @path C -> list R.
  Variable dflt : @opts D.

  Notation equery := (@equery D Ix R C).
  Notation find_edges_internal := (find_edges_internal counts threshold cover_of search dflt).
  Notation find_edges := (find_edges counts threshold cover_of search dflt).
  Notation find_edge := (find_edge counts threshold cover_of search dflt).
  Notation is_less := (is_less straight counts threshold cover_of search dflt).
  Notation qstep_new := (qstep_new straight expand counts threshold cover_of search dflt).
  Notation fresh_path := (fresh_path counts threshold cover_of).
  Notation fresh_answer := (fresh_answer straight expand counts threshold cover_of search).

  Definition total (ix : Ix) : nat := fold_right Nat.add 0 (counts ix).

  (** ** NumEdgesUpTo and the cached count *)
  Lemma num_edges_upto_spec (cs : list nat) : forall lim acc,
    let n := num_edges_upto cs lim acc in
    (n = acc + fold_right Nat.add 0 cs /\ n < lim) \/ (lim <= n <= acc + fold_right Nat.add 0 cs) \/
    (cs = [] /\ n = acc).
  Proof.
    induction cs as [|c cs IH]; intros lim acc; cbn [num_edges_upto fold_right].
    - right. right. split; reflexivity.
    - destruct (Nat.leb_spec lim (acc + c)).
      + right. left. lia.
      + specialize (IH lim (acc + c)). cbn zeta in IH. destruct IH as [[H1 H2]|[[H1 H2]|[H1 H2]]].
        * left. lia.
        * right. left. lia.
        * subst cs. cbn [fold_right]. left. lia.
  Qed.

  Definition cache_ok (ne nl tot : nat) : Prop := (nl <= ne <= tot) \/ (ne = tot /\ tot < nl).

  Lemma recount_spec ne nl ix minOpt : cache_ok ne nl (total ix) -> 0 < minOpt ->
    let p := if (nl <? minOpt) && (nl <=? ne) then (num_edges_upto (counts ix) minOpt 0, minOpt) else (ne, nl) in
    cache_ok (fst p) (snd p) (total ix) /\ (fst p <? minOpt) = (total ix <? minOpt).
  Proof.
    intros Hc Hpos. unfold cache_ok in *. cbn zeta.
    destruct (Nat.ltb_spec nl minOpt); destruct (Nat.leb_spec nl ne); cbn [andb fst snd].
    - pose proof (num_edges_upto_spec (counts ix) minOpt 0) as Hs. cbn zeta in Hs. fold (total ix) in Hs.
      destruct Hs as [[H1 H2]|[[H1 H2]|[H1 H2]]].
      + split; [right; lia|]. destruct (Nat.ltb_spec (num_edges_upto (counts ix) minOpt 0) minOpt);
          destruct (Nat.ltb_spec (total ix) minOpt); try reflexivity; lia.
      + split; [left; lia|]. destruct (Nat.ltb_spec (num_edges_upto (counts ix) minOpt 0) minOpt);
          destruct (Nat.ltb_spec (total ix) minOpt); try reflexivity; lia.
      + unfold total. rewrite H1 in *. cbn [fold_right]. rewrite H2. split; [right; lia|reflexivity].
    - split; [exact Hc|]. assert (ne = total ix) by lia. subst ne. reflexivity.
    - split; [exact Hc|]. destruct (Nat.ltb_spec ne minOpt); destruct (Nat.ltb_spec (total ix) minOpt); try reflexivity; lia.
    - split; [exact Hc|]. assert (ne = total ix) by lia. subst ne. reflexivity.
  Qed.

  (** ** heap *)
  Lemma hget_alloc_new (o : @opts D) h : hget dflt (length h) (h ++ [o]) = o.
  Proof. unfold hget. rewrite app_nth2, Nat.sub_diag by lia. reflexivity. Qed.
  Lemma hget_alloc_old (o : @opts D) h p : p < length h -> hget dflt p (h ++ [o]) = hget dflt p h.
  Proof. intros. unfold hget. apply app_nth1. assumption. Qed.
  Lemma hset_length (o : @opts D) h : forall p, length (hset p o h) = length h.
  Proof. induction h; intros [|p]; cbn; auto. Qed.
  Lemma hget_hset_same (o : @opts D) h : forall p, p < length h -> hget dflt p (hset p o h) = o.
  Proof. unfold hget. induction h; intros [|p] Hp; cbn in *; try lia; auto. apply IHh. lia. Qed.

  (** ** the part of the state that persists between calls *)
  Record core (q : equery) (ix : Ix) : Prop := {
    c_ix    : eindex q = ix;
    c_cache : cache_ok (numEdges q) (numLimit q) (total ix);
    c_cov   : covering q = None \/ covering q = Some (cover_of ix)
  }.

  Lemma fei_spec q ix t p : core q ix ->
    let q1 := find_edges_internal q t p in
    core q1 ix /\ eheap q1 = eheap q /\ uptr q1 = uptr q /\ eopts q1 = p /\
    results q1 = search ix t (hget dflt p (eheap q)) (fresh_path ix t (hget dflt p (eheap q))).
  Proof.
    intros [Hix Hc Hcov]. unfold Lazy.find_edges_internal. cbn zeta.
    pose proof (recount_spec _ _ ix (Datatypes.S (threshold t)) Hc (Nat.lt_0_succ _)) as Hr.
    cbn zeta in Hr. rewrite Hix.
    destruct (if (numLimit q <? Datatypes.S (threshold t)) && (numLimit q <=? numEdges q)
              then (num_edges_upto (counts ix) (Datatypes.S (threshold t)) 0, Datatypes.S (threshold t))
              else (numEdges q, numLimit q)) as [ne nl] eqn:E.
    cbn [fst snd] in Hr. destruct Hr as [Hc' Hd].
    unfold Lazy.fresh_path. fold (total ix). rewrite Hd.
    destruct (brute (hget dflt p (eheap q)) || (total ix <? Datatypes.S (threshold t))) eqn:Eb.
    - cbn [eheap uptr eopts results]. split; [constructor; cbn [eindex numEdges numLimit covering]; auto|].
      repeat split; reflexivity.
    - cbn [eheap uptr eopts results]. split; [constructor; cbn [eindex numEdges numLimit covering]; auto|].
      + right. destruct Hcov as [Hn|Hs]; rewrite ?Hn, ?Hs; reflexivity.
      + repeat split; try reflexivity. destruct Hcov as [Hn|Hs]; rewrite ?Hn, ?Hs; reflexivity.
  Qed.

  Lemma fes_spec q ix t p : core q ix ->
    let q1 := find_edges q t p in
    let o := hget dflt p (eheap q) in
    core q1 ix /\ eheap q1 = eheap q /\ uptr q1 = uptr q /\ eopts q1 = p /\
    results q1 = firstn (maxResults o) (search ix t o (fresh_path ix t o)).
  Proof.
    intros Hc. cbn zeta. unfold Lazy.find_edges.
    destruct (fei_spec q ix t p Hc) as ([H1 H2 H3] & Hh & Hu & He & Hr). cbn zeta in *.
    cbn [eheap uptr eopts results]. rewrite He, Hh, Hr.
    repeat split; auto.
  Qed.

  Lemma fe_spec q ix t p : core q ix -> p < length (eheap q) ->
    let r := find_edge q t p in
    let o1 := with_max1 (hget dflt p (eheap q)) in
    core (fst r) ix /\ uptr (fst r) = uptr q /\ eopts (fst r) = eopts q /\
    length (eheap q) <= length (eheap (fst r)) /\
    (forall k, k < length (eheap q) -> hget dflt k (eheap (fst r)) = hget dflt k (eheap q)) /\
    snd r = hd_error (firstn 1 (search ix t o1 (fresh_path ix t o1))).
  Proof.
    intros Hc Hp. cbn zeta. unfold Lazy.find_edge, halloc. lazy beta iota zeta.
    set (o1 := with_max1 (hget dflt p (eheap q))).
    set (q0 := mkEQ (eheap q ++ [o1]) (uptr q) (eopts q) (eindex q) (numEdges q) (numLimit q) (covering q) (results q)).
    assert (Hc0 : core q0 ix) by (destruct Hc; constructor; assumption).
    destruct (fes_spec q0 ix t (length (eheap q)) Hc0) as ([H1 H2 H3] & Hh & Hu & He & Hr). cbn zeta in *.
    assert (Hq0 : eheap q0 = eheap q ++ [o1]) by reflexivity.
    rewrite Hq0 in Hh, Hr. rewrite hget_alloc_new in Hr.
    cbn [fst snd eheap uptr eopts].
    split; [constructor; assumption|]. split; [exact Hu|]. split; [reflexivity|].
    rewrite Hh. split; [rewrite app_length; lia|]. split; [intros k Hk; apply hget_alloc_old; exact Hk|].
    rewrite Hr. reflexivity.
  Qed.

  Lemma il_spec q ix t l : core q ix -> eopts q < length (eheap q) ->
    let r := is_less q t l in
    let o1 := with_max1 (threshold_opts straight (hget dflt (eopts q) (eheap q)) l) in
    core (fst r) ix /\ uptr (fst r) = uptr q /\ eopts (fst r) = eopts q /\
    length (eheap q) <= length (eheap (fst r)) /\
    (forall k, k < length (eheap q) -> hget dflt k (eheap (fst r)) = hget dflt k (eheap q)) /\
    snd r = match hd_error (firstn 1 (search ix t o1 (fresh_path ix t o1))) with Some _ => true | None => false end.
  Proof.
    intros Hc Hp. cbn zeta. unfold Lazy.is_less, halloc. lazy beta iota zeta.
    set (o0 := threshold_opts straight (hget dflt (eopts q) (eheap q)) l).
    set (q0 := mkEQ (eheap q ++ [o0]) (uptr q) (eopts q) (eindex q) (numEdges q) (numLimit q) (covering q) (results q)).
    assert (Hc0 : core q0 ix) by (destruct Hc; constructor; assumption).
    assert (Hp0 : length (eheap q) < length (eheap q0)) by (unfold q0; cbn [eheap]; rewrite app_length; cbn; lia).
    pose proof (fe_spec q0 ix t (length (eheap q)) Hc0 Hp0) as Hf. cbn zeta in Hf.
    destruct (find_edge q0 t (length (eheap q))) as [q1 r] eqn:E. cbn [fst snd] in *.
    destruct Hf as (H1 & H2 & H3 & H4 & H5 & H6).
    assert (Hq0 : eheap q0 = eheap q ++ [o0]) by reflexivity.
    assert (Hq1 : uptr q0 = uptr q) by reflexivity. assert (Hq2 : eopts q0 = eopts q) by reflexivity.
    rewrite Hq0 in H4, H5, H6. rewrite Hq1 in H2. rewrite Hq2 in H3.
    rewrite hget_alloc_new in H6. rewrite app_length in H4. cbn [length] in H4.
    split; [exact H1|]. split; [exact H2|]. split; [exact H3|]. split; [lia|].
    split; [intros k Hk; rewrite H5 by (rewrite app_length; cbn; lia); apply hget_alloc_old; exact Hk|].
    rewrite H6. reflexivity.
  Qed.

  (** ** the invariant of a query object in use *)
  Record good (q : equery) (ix : Ix) (u : @opts D) : Prop := {
    g_core : core q ix;
    g_up   : uptr q < length (eheap q);
    g_e    : eopts q = uptr q;             (* e.opts points at the caller's object again *)
    g_u    : hget dflt (uptr q) (eheap q) = u   (* and that object holds what the caller set *)
  }.

  Lemma good_new ix u : good (eq_new ix u) ix u.
  Proof.
    constructor; cbn; auto. constructor; cbn; auto. unfold cache_ok. left. lia.
  Qed.

  Lemma qstep_good q ix u o : good q ix u ->
    exists q', qstep_new q o = Ok (q', fresh_answer ix u o) /\
               good q' (cur_index ix [o]) (user_opts u [o]).
  Proof.
    intros [Hc Hup He Hu]. destruct o as [s|t|t|t l|t l|t l| |ix']; cbn [Lazy.qstep_new Lazy.qstep Lazy.fresh_answer cur_index user_opts].
    - eexists. split; [reflexivity|]. constructor; cbn [eheap uptr eopts].
      + destruct Hc; constructor; assumption.
      + rewrite hset_length. exact Hup.
      + exact He.
      + rewrite hget_hset_same by exact Hup. rewrite Hu. reflexivity.
    - rewrite He. destruct (fes_spec q ix t (uptr q) Hc) as (H1 & H2 & H3 & H4 & H5). cbn zeta in *.
      rewrite Hu in H5.
      eexists. split; [rewrite H5; reflexivity|].
      constructor; [exact H1|rewrite H2, H3; exact Hup|rewrite H4, H3; reflexivity|rewrite H2, H3; exact Hu].
    - rewrite He. pose proof (fe_spec q ix t (uptr q) Hc Hup) as Hf. cbn zeta in Hf. rewrite Hu in Hf.
      destruct (find_edge q t (uptr q)) as [q1 r]. cbn [fst snd] in Hf.
      destruct Hf as (H1 & H2 & H3 & H4 & H5 & H6).
      exists q1. split; [rewrite H6; reflexivity|].
      constructor; [exact H1|rewrite H2; lia|rewrite H3, H2; exact He|rewrite H2, H5 by exact Hup; exact Hu].
    - pose proof (il_spec q ix t l Hc ltac:(rewrite He; exact Hup)) as Hf. cbn zeta in Hf.
      rewrite He, Hu in Hf.
      destruct (is_less q t l) as [q1 r]. cbn [fst snd] in Hf.
      destruct Hf as (H1 & H2 & H3 & H4 & H5 & H6).
      exists q1. split; [rewrite H6; reflexivity|].
      constructor; [exact H1|rewrite H2; lia|rewrite H3, H2; reflexivity|rewrite H2, H5 by exact Hup; exact Hu].
    - pose proof (il_spec q ix t l Hc ltac:(rewrite He; exact Hup)) as Hf. cbn zeta in Hf.
      rewrite He, Hu in Hf.
      destruct (is_less q t l) as [q1 r]. cbn [fst snd] in Hf.
      destruct Hf as (H1 & H2 & H3 & H4 & H5 & H6).
      exists q1. split; [rewrite H6; reflexivity|].
      constructor; [exact H1|rewrite H2; lia|rewrite H3, H2; reflexivity|rewrite H2, H5 by exact Hup; exact Hu].
    - pose proof (il_spec q ix t (expand l) Hc ltac:(rewrite He; exact Hup)) as Hf. cbn zeta in Hf.
      rewrite He, Hu in Hf.
      destruct (is_less q t (expand l)) as [q1 r]. cbn [fst snd] in Hf.
      destruct Hf as (H1 & H2 & H3 & H4 & H5 & H6).
      exists q1. split; [rewrite H6; reflexivity|].
      constructor; [exact H1|rewrite H2; lia|rewrite H3, H2; reflexivity|rewrite H2, H5 by exact Hup; exact Hu].
    - eexists. split; [reflexivity|]. constructor; cbn [eq_reset eheap uptr eopts]; auto.
      destruct Hc as [H1 H2 H3]. constructor; cbn [eq_reset eindex numEdges numLimit covering]; auto.
      unfold cache_ok. left. lia.
    - eexists. split; [reflexivity|]. constructor; cbn [eheap uptr eopts]; auto.
      constructor; cbn [eindex numEdges numLimit covering]; auto. unfold cache_ok. left. lia.
  Qed.

  (** the answers a history must give: at each call, those of a fresh object *)
  Fixpoint qspec (ix : Ix) (u : @opts D) (h : list (@qop D Ix T)) : list (@qout R) :=
    match h with
    | [] => []
    | o :: r => fresh_answer ix u o ++ qspec (cur_index ix [o]) (user_opts u [o]) r
    end.

  Lemma cur_index_cons ix o (h : list (@qop D Ix T)) : cur_index ix (o :: h) = cur_index (cur_index ix [o]) h.
  Proof. destruct o; reflexivity. Qed.
  Lemma user_opts_cons (u : @opts D) o (h : list (@qop D Ix T)) : user_opts u (o :: h) = user_opts (user_opts u [o]) h.
  Proof. destruct o; reflexivity. Qed.

  Lemma edge_query_history_from (h : list (@qop D Ix T)) : forall q ix u, good q ix u ->
    exists q', run qstep_new q h = Ok (q', qspec ix u h) /\ good q' (cur_index ix h) (user_opts u h).
  Proof.
    induction h as [|o h IH]; intros q ix u Hg.
    - exists q. split; [reflexivity|exact Hg].
    - destruct (qstep_good q ix u o Hg) as (q1 & Hs & Hg1).
      destruct (IH _ _ _ Hg1) as (q' & Hr & Hg').
      exists q'. cbn [run qspec]. rewrite Hs. cbn [obind]. rewrite Hr. cbn [obind].
      split; [reflexivity|]. rewrite cur_index_cons, user_opts_cons. exact Hg'.
  Qed.

  (** EVERY history on one query object: each call's answer is [fresh_answer] of the current
      index and the options the caller last set; afterwards the caller's options object holds
      exactly what the caller set ([user_opts] is a function of the QSet operations only). *)
  Theorem edge_query_history (ix : Ix) (u : @opts D) (h : list (@qop D Ix T)) :
    exists q', run qstep_new (eq_new ix u) h = Ok (q', qspec ix u h) /\
               hget dflt (uptr q') (eheap q') = user_opts u h /\ eopts q' = uptr q'.
  Proof.
    destruct (edge_query_history_from h _ _ _ (good_new ix u)) as (q' & Hr & [_ _ He Hu]). eauto.
  Qed.

  (** [fresh_answer] really is what a fresh query object answers to a single call *)
  Theorem fresh_answer_is_fresh (ix : Ix) (u : @opts D) (o : @qop D Ix T) :
    exists q', qstep_new (eq_new ix u) o = Ok (q', fresh_answer ix u o).
  Proof. destruct (qstep_good _ _ _ o (good_new ix u)) as (q' & H & _). eauto. Qed.

  (** hence: a used object and a fresh one answer the next call alike *)
  Corollary used_equals_fresh (ix : Ix) (u : @opts D) (h : list (@qop D Ix T)) (o : @qop D Ix T) q1 outs :
    run qstep_new (eq_new ix u) h = Ok (q1, outs) ->
    exists q2 q3, qstep_new q1 o = Ok (q2, fresh_answer (cur_index ix h) (user_opts u h) o) /\
                  qstep_new (eq_new (cur_index ix h) (user_opts u h)) o
                    = Ok (q3, fresh_answer (cur_index ix h) (user_opts u h) o).
  Proof.
    intros Hr. destruct (edge_query_history_from h _ _ _ (good_new ix u)) as (q' & Hr' & Hg).
    rewrite Hr in Hr'. inversion Hr'; subst q'.
    destruct (qstep_good _ _ _ o Hg) as (q2 & H2 & _).
    destruct (fresh_answer_is_fresh (cur_index ix h) (user_opts u h) o) as (q3 & H3). eauto.
  Qed.

  (** ** two query objects sharing one options value *)

  (** a query call never writes a heap cell that existed before the call: everything it writes
      is freshly allocated, hence unreachable from any other query object *)
  Lemma qstep_no_shared_write q ix u o : good q ix u -> is_query_op o = true ->
    exists q', qstep_new q o = Ok (q', fresh_answer ix u o) /\ good q' ix u /\
               length (eheap q) <= length (eheap q') /\
               (forall k, k < length (eheap q) -> hget dflt k (eheap q') = hget dflt k (eheap q)).
  Proof.
    intros [Hc Hup He Hu] Hq. destruct o as [s|t|t|t l|t l|t l| |ix']; try discriminate;
      cbn [Lazy.qstep_new Lazy.qstep Lazy.fresh_answer].
    - rewrite He. destruct (fes_spec q ix t (uptr q) Hc) as (H1 & H2 & H3 & H4 & H5). cbn zeta in *.
      rewrite Hu in H5.
      eexists. split; [rewrite H5; reflexivity|]. split.
      + constructor; [exact H1|rewrite H2, H3; exact Hup|rewrite H4, H3; reflexivity|rewrite H2, H3; exact Hu].
      + rewrite H2. split; [lia|auto].
    - rewrite He. pose proof (fe_spec q ix t (uptr q) Hc Hup) as Hf. cbn zeta in Hf. rewrite Hu in Hf.
      destruct (find_edge q t (uptr q)) as [q1 r]. cbn [fst snd] in Hf.
      destruct Hf as (H1 & H2 & H3 & H4 & H5 & H6).
      exists q1. split; [rewrite H6; reflexivity|]. split; [|split; [exact H4|exact H5]].
      constructor; [exact H1|rewrite H2; lia|rewrite H3, H2; exact He|rewrite H2, H5 by exact Hup; exact Hu].
    - pose proof (il_spec q ix t l Hc ltac:(rewrite He; exact Hup)) as Hf. cbn zeta in Hf.
      rewrite He, Hu in Hf.
      destruct (is_less q t l) as [q1 r]. cbn [fst snd] in Hf.
      destruct Hf as (H1 & H2 & H3 & H4 & H5 & H6).
      exists q1. split; [rewrite H6; reflexivity|]. split; [|split; [exact H4|exact H5]].
      constructor; [exact H1|rewrite H2; lia|rewrite H3, H2; reflexivity|rewrite H2, H5 by exact Hup; exact Hu].
    - pose proof (il_spec q ix t l Hc ltac:(rewrite He; exact Hup)) as Hf. cbn zeta in Hf.
      rewrite He, Hu in Hf.
      destruct (is_less q t l) as [q1 r]. cbn [fst snd] in Hf.
      destruct Hf as (H1 & H2 & H3 & H4 & H5 & H6).
      exists q1. split; [rewrite H6; reflexivity|]. split; [|split; [exact H4|exact H5]].
      constructor; [exact H1|rewrite H2; lia|rewrite H3, H2; reflexivity|rewrite H2, H5 by exact Hup; exact Hu].
    - pose proof (il_spec q ix t (expand l) Hc ltac:(rewrite He; exact Hup)) as Hf. cbn zeta in Hf.
      rewrite He, Hu in Hf.
      destruct (is_less q t (expand l)) as [q1 r]. cbn [fst snd] in Hf.
      destruct Hf as (H1 & H2 & H3 & H4 & H5 & H6).
      exists q1. split; [rewrite H6; reflexivity|]. split; [|split; [exact H4|exact H5]].
      constructor; [exact H1|rewrite H2; lia|rewrite H3, H2; reflexivity|rewrite H2, H5 by exact Hup; exact Hu].
    - eexists. split; [reflexivity|]. split; [|split; [cbn; lia|cbn; auto]].
      constructor; cbn [eq_reset eheap uptr eopts]; auto.
      destruct Hc as [H1 H2 H3]. constructor; cbn [eq_reset eindex numEdges numLimit covering]; auto.
      unfold cache_ok. left. lia.
  Qed.

  Lemma good_with_heap q ix u h : good q ix u -> length (eheap q) <= length h ->
    (forall k, k < length (eheap q) -> hget dflt k h = hget dflt k (eheap q)) -> good (with_heap q h) ix u.
  Proof.
    intros [Hc Hup He Hu] Hl Hk. constructor; cbn [with_heap eheap uptr eopts]; auto; try lia.
    - destruct Hc; constructor; assumption.
    - rewrite Hk by exact Hup. exact Hu.
  Qed.

  (** Goroutine A is inside IsDistanceLess(tA, l) on its query object [qa]; goroutine B performs a
      whole call [ob] on ITS OWN query object [qb]; both objects were built from the same options
      value (same heap, same [uptr]). B's answer is the answer of a fresh query object with the
      caller's options, and so is A's: no call writes state reachable from the other object. *)
  Theorem own_query_objects_shared_options qa qb ix u tA l ob :
    good qa ix u -> good qb ix u -> eheap qb = eheap qa -> uptr qb = uptr qa -> is_query_op ob = true ->
    interleave_new straight expand counts threshold cover_of search dflt qa qb tA l ob
    = Ok (fresh_answer ix u ob,
          match hd_error (firstn 1 (search ix tA (with_max1 (threshold_opts straight u l))
                                           (fresh_path ix tA (with_max1 (threshold_opts straight u l))))) with
          | Some _ => true | None => false end).
  Proof.
    intros Ga Gb Hh Hu Hq. unfold interleave_new, is_less_begin, halloc. lazy beta iota zeta.
    set (o0 := threshold_opts straight (hget dflt (eopts qa) (eheap qa)) l).
    set (hA := eheap qa ++ [o0]).
    assert (HlA : length (eheap qa) < length hA) by (unfold hA; rewrite app_length; cbn; lia).
    assert (HkA : forall k, k < length (eheap qa) -> hget dflt k hA = hget dflt k (eheap qa))
      by (intros k Hk; apply hget_alloc_old; exact Hk).
    assert (Gb1 : good (with_heap qb (eheap (with_heap qa hA))) ix u).
    { cbn [with_heap eheap]. apply good_with_heap; [exact Gb|rewrite Hh; lia|rewrite Hh; exact HkA]. }
    destruct (qstep_no_shared_write _ ix u ob Gb1 Hq) as (qb1 & Hs & Gb2 & Hlen & Hkeep).
    rewrite Hs. cbn [obind]. cbn [with_heap eheap] in Hlen, Hkeep.
    unfold is_less_end.
    set (qa2 := with_heap (with_heap qa hA) (eheap qb1)).
    assert (Ca : core qa2 ix) by (destruct Ga as [[? ? ?] _ _ _]; constructor; assumption).
    assert (Hp : length (eheap qa) < length (eheap qa2)) by (cbn [qa2 with_heap eheap]; lia).
    pose proof (fe_spec qa2 ix tA (length (eheap qa)) Ca Hp) as Hf. cbn zeta in Hf.
    destruct (find_edge qa2 tA (length (eheap qa))) as [q1 r]. cbn [fst snd] in Hf.
    destruct Hf as (_ & _ & _ & _ & _ & H6).
    assert (Hcell : hget dflt (length (eheap qa)) (eheap qa2) = o0).
    { cbn [qa2 with_heap eheap]. rewrite Hkeep by exact HlA. unfold hA. apply hget_alloc_new. }
    rewrite Hcell in H6. rewrite H6. unfold o0.
    destruct Ga as [_ _ Hea Hua]. rewrite Hea, Hua. reflexivity.
  Qed.
End EdgeQueryProofs.

(** ** What 784d87c repaired. A concrete instance: results are numbers, the index "contains"
    the results 1..5 and a search returns those below the limit, at most maxResults... the
    truncation is done by find_edges, so [search] returns all below the limit. *)
Definition toy_search (ix : list nat) (t : unit) (o : @opts nat) (p : @path unit) : list nat :=
  filter (fun r => r <? limit o) ix.
Definition toy_step_old := qstep_old 1000 (fun l => l + 1) (fun _ : list nat => [5]) (fun _ : unit => 30) (fun _ => tt)
                                     toy_search (mkOpts 0 0 0 false false).
Definition toy_step_new := qstep_new 1000 (fun l => l + 1) (fun _ : list nat => [5]) (fun _ : unit => 30) (fun _ => tt)
                                     toy_search (mkOpts 0 0 0 false false).
Definition toy_u : @opts nat := mkOpts 100 1000 0 true false.

Definition toy_spec := qspec 1000 (fun l => l + 1) (fun _ : list nat => [5]) (fun _ : unit => 30) (fun _ => tt) toy_search.

(** Distance t; FindEdges t on the old code: FindEdges returns 1 result where a fresh query
    object with the caller's options returns 5. *)
Theorem edge_query_old_refuted :
  exists h q, run toy_step_old (eq_new [1; 2; 3; 4; 5] toy_u) h = Ok (q, [OutDist (Some 1); OutEdges [1]]) /\
              toy_spec [1; 2; 3; 4; 5] toy_u h = [OutDist (Some 1); OutEdges [1; 2; 3; 4; 5]].
Proof. exists [QDistance tt; QFindEdges tt]. eexists. vm_compute. split; reflexivity. Qed.

(** IsDistanceLess t 3; FindEdges t on the old code: the threshold has become the caller's limit. *)
Theorem edge_query_old_refuted_threshold :
  exists h q, run toy_step_old (eq_new [1; 2; 3; 4; 5] toy_u) h = Ok (q, [OutBool true; OutEdges [1]]) /\
              hget (mkOpts 0 0 0 false false) (uptr q) (eheap q) = mkOpts 1 3 1000 true false.
Proof. exists [QIsLess tt 3; QFindEdges tt]. eexists. vm_compute. split; reflexivity. Qed.

Example edge_query_history_example :
  exists q, run toy_step_new (eq_new [1; 2; 3; 4; 5] toy_u)
              [QDistance tt; QFindEdges tt; QIsLess tt 3; QSet (SetMaxResults 2); QIsConsLE tt 0; QFindEdges tt]
    = Ok (q, [OutDist (Some 1); OutEdges [1; 2; 3; 4; 5]; OutBool true; OutBool false; OutEdges [1; 2]]).
Proof. eexists. vm_compute. reflexivity. Qed.

(** ** Reused index targets (a6eab98). *)
Theorem target_reuse (calls : list nat) (tme e : nat) :
  target_run target_call tme (calls ++ [e]) = e.
Proof. revert tme. induction calls as [|c calls IH]; intros tme; [reflexivity|]. cbn [app target_run]. apply IH. Qed.

(** before: IsDistanceLess (maxError = Straight = 1000 here) then Distance (maxError 0) on the
    same target searched with maxError 1000 *)
Theorem target_reuse_old_refuted :
  exists calls e, target_run (target_call_old (fun d => d =? 0)) 0 (calls ++ [e]) <> e.
Proof. exists [1000], 0. vm_compute. discriminate. Qed.

(** ** Scratch of CrossingEdgeQuery / ContainsPointQuery: every field is written before it is
    read, so an answer does not depend on the object's past. *)
Section ScratchProofs.
  Context {E Sg Cl Pos P : Type}.
  Variable segments : E -> list Sg.
  Variable locate : Sg -> Pos.
  Variable visit : Sg -> Pos -> list Cl.
  Variable locate_point : P -> Pos.
  Variable contains_at : P -> Pos -> bool.

  Lemma fold_segments_cells (ss : list Sg) : forall c : @cquery Sg Cl Pos,
    ccells (fold_left (cq_segment locate visit) ss c) = ccells c ++ flat_map (fun s => visit s (locate s)) ss.
  Proof.
    induction ss as [|s ss IH]; intros c; cbn [fold_left flat_map].
    - rewrite app_nil_r. reflexivity.
    - rewrite IH. unfold cq_segment. cbn [ccells]. rewrite app_assoc. reflexivity.
  Qed.

  (** getCellsForEdge (Crossings, CrossingsEdgeMap): the cells found depend on the edge only *)
  Theorem scratch_reset (c : @cquery Sg Cl Pos) (e : E) :
    ccells (cq_cells_for_edge segments locate visit c e) = ccells (cq_cells_for_edge segments locate visit cq_new e).
  Proof. unfold cq_cells_for_edge. rewrite !fold_segments_cells. reflexivity. Qed.

  Theorem scratch_reset_history (h : list E) (e : E) :
    ccells (cq_cells_for_edge segments locate visit (fold_left (cq_cells_for_edge segments locate visit) h cq_new) e)
    = flat_map (fun s => visit s (locate s)) (segments e).
  Proof. rewrite scratch_reset. unfold cq_cells_for_edge. rewrite fold_segments_cells. reflexivity. Qed.

  (** ContainsPointQuery.Contains *)
  Theorem contains_scratch_reset (q : @pquery Pos) (p : P) :
    snd (pq_contains locate_point contains_at q p) = snd (pq_contains locate_point contains_at (mkPQ None) p).
  Proof. reflexivity. Qed.
End ScratchProofs.

(** The unexported getCells (loopCrosser.cellCrossesAnySubcell only) does not clear c.cells:
    its result accumulates over calls. Answers are unaffected (the extra cells only add
    candidate edges to exact crossing tests); it costs time. Recorded, not a C13 violation. *)
Theorem get_cells_accumulates :
  exists (s1 s2 : nat),
    ccells (cq_get_cells (fun s => s) (fun s _ => [s]) (cq_get_cells (fun s => s) (fun s _ => [s]) cq_new s1) s2)
    <> ccells (cq_get_cells (fun s : nat => s) (fun s (_ : nat) => [s]) cq_new s2).
Proof. exists 1, 2. vm_compute. discriminate. Qed.

(** ** Executable check for the correspondence: distances as the 64 bits of the ChordAngle
    (a Z), the search itself left out. After a history on the real EdgeQuery the caller's
    options object must hold what the model says, and e.opts must point at it again. *)
From Coq Require Import ZArith.
Definition zopts_eqb (a b : @opts Z) : bool :=
  (maxResults a =? maxResults b) && Z.eqb (limit a) (limit b) && Z.eqb (maxError a) (maxError b) &&
  Bool.eqb (inclInt a) (inclInt b) && Bool.eqb (brute a) (brute b).
Definition eq_case (straight : Z) (u0 : @opts Z) (h : list (@qop Z unit unit))
           (observed : @opts Z) (alias_restored : bool) : bool :=
  match run (qstep_new straight (fun l => l) (fun _ : unit => []) (fun _ : unit => 30) (fun _ => tt)
                       (fun _ _ _ _ => @nil unit) u0) (eq_new tt u0) h with
  | Ok (q, _) => zopts_eqb (hget u0 (uptr q) (eheap q)) observed && Bool.eqb (eopts q =? uptr q) alias_restored
  | _ => false
  end.

(** ** The covering cache as two parallel slices: for every history of optimized queries, Resets
    and index changes followed by Reset, every query starts from exactly the top-level cells of
    the CURRENT index, each paired with its own cell pointer. *)
Section CoveringProofs.
  Context {Ix Cid Cptr : Type}.
  Variable ranges : Ix -> list (Cid * Cptr).

  Definition cc_ok (ix : Ix) (c : @ccache Cid Cptr) : Prop :=
    (ccov c = [] /\ cptrs c = []) \/ (ccov c = map fst (ranges ix) /\ cptrs c = map snd (ranges ix)).

  Lemma combine_fst_snd {A B} (l : list (A * B)) : combine (map fst l) (map snd l) = l.
  Proof. induction l as [|[a b] l IH]; cbn; [reflexivity|]. rewrite IH. reflexivity. Qed.

  Lemma cc_init_ok ix c : cc_ok ix c -> cc_ok ix (cc_init ranges ix c) /\ cc_paired (cc_init ranges ix c) = ranges ix.
  Proof.
    intros [[H1 H2]|[H1 H2]]; unfold cc_init.
    - rewrite H1, H2. cbn [app]. split; [right; split; reflexivity|]. unfold cc_paired. cbn [ccov cptrs]. apply combine_fst_snd.
    - destruct (ccov c) eqn:E.
      + (* empty index: nothing to cover *)
        rewrite H2. destruct (ranges ix) as [|x r]; [|discriminate]. cbn. split; [left; split; reflexivity|reflexivity].
      + split; [right; split; congruence|]. unfold cc_paired. rewrite E, H1, H2. apply combine_fst_snd.
  Qed.

  Theorem covering_cache_history (h : list (@cop Ix)) : forall ix c, cc_ok ix c ->
    exists s', run (cstep ranges cc_reset) (ix, c) h = Ok (s', cspec ranges ix h).
  Proof.
    induction h as [|o h IH]; intros ix c Hok; cbn [run cspec].
    - eexists. reflexivity.
    - destruct o as [| |ix']; cbn [cstep obind].
      + destruct (cc_init_ok ix c Hok) as (Hok' & Hp). destruct (IH ix _ Hok') as (s' & Hr). rewrite Hr. cbn [obind app].
        rewrite Hp. eexists. reflexivity.
      + destruct (IH ix (cc_reset c)) as (s' & Hr); [left; split; reflexivity|]. rewrite Hr. cbn. eexists. reflexivity.
      + destruct (IH ix' (cc_reset c)) as (s' & Hr); [left; split; reflexivity|]. rewrite Hr. cbn. eexists. reflexivity.
  Qed.
End CoveringProofs.

(** C13-mut5 (seeded): Reset without [e.indexCells = nil]. Index 1 has top-level cells 10,20 with
    cell pointers 100,200; the index then grows to cells 5,10,20 (pointers 50,100,200); after
    Reset the new covering is paired with the OLD pointers: cell 5 with pointer 100, ... *)
Definition toy_ranges (ix : nat) : list (nat * nat) :=
  match ix with 1 => [(10, 100); (20, 200)] | _ => [(5, 50); (10, 100); (20, 200)] end.
Theorem reset_keeps_index_cells_refuted :
  exists h s, run (cstep toy_ranges cc_reset_keeps_cells) (1, cc_new) h
              = Ok (s, [[(10, 100); (20, 200)]; [(5, 100); (10, 200); (20, 50)]]) /\
              cspec toy_ranges 1 h = [[(10, 100); (20, 200)]; [(5, 50); (10, 100); (20, 200)]].
Proof. exists [CQuery; CReinit 2; CQuery]. eexists. vm_compute. split; reflexivity. Qed.

(** ** C14-mut4 (seeded): IsDistanceLess overriding the shared options IN PLACE and restoring them
    afterwards is invisible serially, but a FindEdges on ANOTHER query object built from the same
    options value, running while the first is inside IsDistanceLess, sees the override. *)
Definition toy_inter_new := interleave_new 1000 (fun l => l + 1) (fun _ : list nat => [5]) (fun _ : unit => 30) (fun _ => tt)
                                           toy_search (mkOpts 0 0 0 false false).
Definition toy_inter_inplace := interleave_inplace 1000 (fun l => l + 1) (fun _ : list nat => [5]) (fun _ : unit => 30) (fun _ => tt)
                                           toy_search (mkOpts 0 0 0 false false).
Theorem shared_options_inplace_refuted :
  let q := eq_new [1; 2; 3; 4; 5] toy_u in
  toy_inter_new q q tt 3 (QFindEdges tt) = Ok ([OutEdges [1; 2; 3; 4; 5]], true) /\
  toy_inter_inplace q q tt 3 (QFindEdges tt) = Ok ([OutEdges [1]], true).
Proof. vm_compute. split; reflexivity. Qed.
