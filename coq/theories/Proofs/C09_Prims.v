(** C09 — primitives of the compressed point format: zig-zag on all int32, the n-th derivative
    coder (decode after encode is the identity on any int32 sequence, with wrap-around, for
    every order), face run-length coding. *)
From Coq Require Import ZArith List Bool Lia.
From Geo Require Import Base.GoPrim Base.Bytes Gen.Codec Model.Codec.
Import ListNotations.
Local Open Scope Z_scope.

Definition i32 (x : Z) : Prop := - 2 ^ 31 <= x < 2 ^ 31.
Definition u32 (x : Z) : Prop := 0 <= x < 2 ^ 32.

Ltac wrap_arith :=
  unfold wrap_i32, wrap_u32, wrap_u64, wrap_i64, wrap_i, wrap_u in *;
  change (2 ^ 32) with 4294967296 in *; change (2 ^ (32 - 1)) with 2147483648 in *;
  change (2 ^ 31) with 2147483648 in *; change (2 ^ 64) with 18446744073709551616 in *;
  change (2 ^ (64 - 1)) with 9223372036854775808 in *.

Lemma wrap_i32_id x : i32 x -> wrap_i32 x = x.
Proof.
  unfold i32. intros H. wrap_arith.
  destruct (x mod 4294967296 <? 2147483648) eqn:E; [apply Z.ltb_lt in E|apply Z.ltb_ge in E];
    Z.div_mod_to_equations; lia.
Qed.
Lemma wrap_i32_range x : i32 (wrap_i32 x).
Proof.
  unfold i32. wrap_arith.
  destruct (x mod 4294967296 <? 2147483648) eqn:E; [apply Z.ltb_lt in E|apply Z.ltb_ge in E];
    Z.div_mod_to_equations; lia.
Qed.
(** [wrap_i32] only depends on the value modulo 2^32 *)
Lemma wrap_i32_mod a b : (a - b) mod 2 ^ 32 = 0 -> wrap_i32 a = wrap_i32 b.
Proof.
  intros H. wrap_arith.
  assert (a mod 4294967296 = b mod 4294967296) by (Z.div_mod_to_equations; lia).
  now rewrite H0.
Qed.
Lemma wrap_i32_eqm x : (wrap_i32 x - x) mod 2 ^ 32 = 0.
Proof.
  wrap_arith. destruct (x mod 4294967296 <? 2147483648); Z.div_mod_to_equations; lia.
Qed.
Lemma wrap_u32_id x : u32 x -> wrap_u32 x = x.
Proof. unfold u32. intros. wrap_arith. now apply Z.mod_small. Qed.
Lemma wrap_u32_range x : u32 (wrap_u32 x).
Proof. unfold u32. wrap_arith. apply Z.mod_pos_bound. lia. Qed.
(** int32(uint32(x)) = x: the two casts used between the coder and the interleaving *)
Lemma wrap_i32_u32 x : i32 x -> wrap_i32 (wrap_u32 x) = x.
Proof.
  unfold i32. intros H. wrap_arith.
  destruct (x mod 4294967296 mod 4294967296 <? 2147483648) eqn:E; [apply Z.ltb_lt in E|apply Z.ltb_ge in E];
    Z.div_mod_to_equations; lia.
Qed.
Lemma wrap_u32_i32 x : u32 x -> wrap_u32 (wrap_i32 x) = x.
Proof.
  unfold u32. intros H. wrap_arith.
  destruct (x mod 4294967296 <? 2147483648) eqn:E; [apply Z.ltb_lt in E|apply Z.ltb_ge in E];
    Z.div_mod_to_equations; lia.
Qed.

(** * Zig-zag *)
(** xor with the all-ones word complements *)
Lemma lxor_ones_r a n : 0 <= n -> 0 <= a < 2 ^ n -> Z.lxor a (Z.ones n) = Z.ones n - a.
Proof.
  intros Hn Ha.
  assert (Hl : Z.ldiff a (Z.ones n) = 0).
  { apply Z.bits_inj'. intros i Hi. rewrite Z.ldiff_spec, Z.bits_0.
    destruct (Z.lt_ge_cases i n).
    - rewrite Z.ones_spec_low by lia. apply andb_false_r.
    - replace a with (a mod 2 ^ n) by (apply Z.mod_small; lia).
      rewrite Z.mod_pow2_bits_high by lia. reflexivity. }
  rewrite (Z.sub_nocarry_ldiff _ _ Hl).
  apply Z.bits_inj'. intros i Hi. rewrite Z.lxor_spec, Z.ldiff_spec.
  destruct (Z.lt_ge_cases i n).
  - rewrite Z.ones_spec_low by lia. now rewrite xorb_true_r.
  - rewrite Z.ones_spec_high by lia.
    replace a with (a mod 2 ^ n) by (apply Z.mod_small; lia).
    rewrite Z.mod_pow2_bits_high by lia. reflexivity.
Qed.

Lemma zigzag_encode_nonneg x : 0 <= x < 2 ^ 31 -> s2_zigzagEncode x = 2 * x.
Proof.
  intros H. unfold s2_zigzagEncode, go_shl, go_shr. cbn [Z.ltb Z.compare].
  rewrite Z.shiftl_mul_pow2, Z.shiftr_div_pow2 by lia.
  replace (x / 2 ^ 31) with 0 by (symmetry; apply Z.div_small; lia).
  rewrite (wrap_u32_id x) by (unfold u32; lia).
  rewrite (wrap_u32_id (x * 2 ^ 1)) by (unfold u32; change (2 ^ 1) with 2; change (2 ^ 32) with (2 * 2 ^ 31); lia).
  change (wrap_u32 0) with 0. rewrite Z.lxor_0_r. change (2 ^ 1) with 2. lia.
Qed.

Lemma zigzag_encode_neg x : - 2 ^ 31 <= x < 0 -> s2_zigzagEncode x = - 2 * x - 1.
Proof.
  intros H. unfold s2_zigzagEncode, go_shl, go_shr. cbn [Z.ltb Z.compare].
  rewrite Z.shiftl_mul_pow2, Z.shiftr_div_pow2 by lia.
  replace (x / 2 ^ 31) with (-1) by (change (2 ^ 31) with 2147483648 in *; Z.div_mod_to_equations; lia).
  change (wrap_u32 (-1)) with (Z.ones 32).
  assert (Hw : wrap_u32 (wrap_u32 x * 2 ^ 1) = 2 * x + 2 ^ 32).
  { wrap_arith. change (2 ^ 1) with 2. Z.div_mod_to_equations. lia. }
  rewrite Hw. rewrite lxor_ones_r by (change (2 ^ 32) with 4294967296; change (2 ^ 31) with 2147483648 in *; lia).
  rewrite Z.ones_equiv. change (2 ^ 32) with 4294967296. lia.
Qed.

Lemma zigzag_decode_even v : 0 <= v < 2 ^ 31 -> s2_zigzagDecode (2 * v) = v.
Proof.
  intros H. unfold s2_zigzagDecode, go_shl, go_shr. cbn [Z.ltb Z.compare].
  replace (Z.land (2 * v) 1) with 0.
  2:{ change 1 with (Z.ones 1). rewrite Z.land_ones by lia. change (2 ^ 1) with 2. Z.div_mod_to_equations. lia. }
  change (wrap_u32 (Z.shiftr (wrap_i32 (Z.shiftl (wrap_i32 0) 31)) 31)) with 0.
  rewrite Z.lxor_0_r. rewrite Z.shiftr_div_pow2 by lia. change (2 ^ 1) with 2.
  replace (2 * v / 2) with v by (Z.div_mod_to_equations; lia).
  apply wrap_i32_id. unfold i32. lia.
Qed.

Lemma zigzag_decode_odd v : 0 <= v < 2 ^ 31 -> s2_zigzagDecode (2 * v + 1) = - v - 1.
Proof.
  intros H. unfold s2_zigzagDecode, go_shl, go_shr. cbn [Z.ltb Z.compare].
  replace (Z.land (2 * v + 1) 1) with 1.
  2:{ change 1 with (Z.ones 1) at 3. rewrite Z.land_ones by lia. change (2 ^ 1) with 2. Z.div_mod_to_equations. lia. }
  change (wrap_u32 (Z.shiftr (wrap_i32 (Z.shiftl (wrap_i32 1) 31)) 31)) with (Z.ones 32).
  rewrite Z.shiftr_div_pow2 by lia. change (2 ^ 1) with 2.
  replace ((2 * v + 1) / 2) with v by (Z.div_mod_to_equations; lia).
  rewrite lxor_ones_r by (change (2 ^ 32) with (2 * 2 ^ 31); lia).
  rewrite Z.ones_equiv. wrap_arith.
  destruct ((Z.pred 4294967296 - v) mod 4294967296 <? 2147483648) eqn:E; [apply Z.ltb_lt in E|apply Z.ltb_ge in E];
    Z.div_mod_to_equations; lia.
Qed.

(** zig-zag round trip on every int32 *)
Theorem zigzag_roundtrip x : i32 x -> s2_zigzagDecode (s2_zigzagEncode x) = x.
Proof.
  unfold i32. intros H. destruct (Z.lt_ge_cases x 0).
  - rewrite zigzag_encode_neg by lia. replace (-2 * x - 1) with (2 * (- x - 1) + 1) by lia.
    rewrite zigzag_decode_odd by lia. lia.
  - rewrite zigzag_encode_nonneg by lia. now apply zigzag_decode_even.
Qed.
Lemma zigzag_encode_range x : i32 x -> u32 (s2_zigzagEncode x).
Proof.
  unfold i32, u32. intros H. change (2 ^ 32) with (2 * 2 ^ 31). destruct (Z.lt_ge_cases x 0).
  - rewrite zigzag_encode_neg by lia. lia.
  - rewrite zigzag_encode_nonneg by lia. lia.
Qed.

(** * N-th derivative coder *)
Lemma sub_add_wrap a k : i32 k -> wrap_i32 (a + wrap_i32 (k - a)) = k.
Proof.
  intros Hk. rewrite <- (wrap_i32_id k Hk) at 2. apply wrap_i32_mod.
  pose proof (wrap_i32_eqm (k - a)) as H.
  replace (a + wrap_i32 (k - a) - k) with (wrap_i32 (k - a) - (k - a)) by lia. exact H.
Qed.

(** decoding what [enc_mem] produced, on the same memory, restores memory and input *)
Lemma dec_enc_mem mem : forall m k mem' r, i32 k ->
  enc_mem mem m k = (mem', r) -> dec_mem mem m r = (mem', k).
Proof.
  induction mem as [|x t IH]; intros m k mem' r Hk H.
  - destruct m; cbn in *; injection H as <- <-; reflexivity.
  - destruct m as [|m]; cbn [enc_mem dec_mem] in *.
    + injection H as <- <-. reflexivity.
    + destruct (enc_mem t m (wrap_i32 (k - x))) as [t' r'] eqn:E. injection H as <- <-.
      rewrite (IH m (wrap_i32 (k - x)) t' r' (wrap_i32_range _) E).
      now rewrite sub_add_wrap.
Qed.

Lemma enc_mem_length mem : forall m k, length (fst (enc_mem mem m k)) = length mem.
Proof.
  induction mem as [|x t IH]; intros m k; destruct m; cbn [enc_mem fst length]; auto.
  specialize (IH m (wrap_i32 (k - x))). destruct (enc_mem t m (wrap_i32 (k - x))). cbn [fst length] in *. lia.
Qed.
Lemma enc_mem_result_range mem : forall m k, i32 k -> i32 (snd (enc_mem mem m k)).
Proof.
  induction mem as [|x t IH]; intros m k Hk; destruct m; cbn [enc_mem snd]; auto.
  specialize (IH m (wrap_i32 (k - x)) (wrap_i32_range _)). destruct (enc_mem t m (wrap_i32 (k - x))). exact IH.
Qed.

(** one more cell: when the order is not yet reached the encoder stores the residual in cell
    [m]; the decoder, with one more active cell that still holds 0, adds it back *)
Lemma dec_enc_mem_extend mem : forall m k mem' r, i32 k -> (m < length mem)%nat -> nth m mem 0 = 0 ->
  enc_mem mem m k = (mem', r) -> dec_mem mem (S m) r = (upd_nat mem' m r, k).
Proof.
  induction mem as [|x t IH]; intros m k mem' r Hk Hm Hz H.
  - cbn in Hm. lia.
  - destruct m as [|m].
    + cbn [enc_mem] in H. injection H as <- <-. cbn [nth] in Hz. subst x.
      cbn [dec_mem upd_nat]. destruct t; cbn [dec_mem]; rewrite Z.add_0_l, wrap_i32_id by auto; reflexivity.
    + cbn [enc_mem] in H. destruct (enc_mem t m (wrap_i32 (k - x))) as [t' r'] eqn:E. injection H as <- <-.
      cbn [length] in Hm. cbn [nth] in Hz.
      change (dec_mem (x :: t) (S (S m)) r') with
        (let '(t'', k1) := dec_mem t (S m) r' in let x' := wrap_i32 (x + k1) in (x' :: t'', x')).
      rewrite (IH m (wrap_i32 (k - x)) t' r' (wrap_i32_range _) ltac:(lia) Hz E).
      cbn [upd_nat]. now rewrite sub_add_wrap.
Qed.

(** well-formed coder state: [m <= n], [m] active cells, the others still zero *)
Definition coder_wf (c : coder) : Prop :=
  0 <= co_m c <= co_n c /\ co_n c <= Z.of_nat (length (co_mem c)) /\
  forall i, (Z.to_nat (co_m c) <= i)%nat -> nth i (co_mem c) 0 = 0.

Lemma nth_upd_nat_other {A} (l : list A) i j v d : i <> j -> nth i (upd_nat l j v) d = nth i l d.
Proof.
  revert i j. induction l as [|x t IH]; intros i j H; destruct j, i; cbn; auto; try congruence.
Qed.
Lemma upd_nat_length {A} (l : list A) j v : length (upd_nat l j v) = length l.
Proof. revert j. induction l; intros j; destruct j; cbn; auto. Qed.

Lemma enc_mem_nth_high mem : forall m k i, (m <= i)%nat -> nth i (fst (enc_mem mem m k)) 0 = nth i mem 0.
Proof.
  induction mem as [|x t IH]; intros m k i H; destruct m; cbn [enc_mem fst]; auto.
  specialize (IH m (wrap_i32 (k - x))). destruct (enc_mem t m (wrap_i32 (k - x))) as [t' r'] eqn:E.
  destruct i; [lia|]. cbn [nth fst] in *. apply IH. lia.
Qed.

(** the decoder, in the encoder's previous state, undoes one encoding step and lands in the
    encoder's new state *)
Lemma coder_step c k : coder_wf c -> i32 k ->
  let '(c', r) := coder_encode c k in
  coder_decode c r = (c', k) /\ coder_wf c' /\ i32 r.
Proof.
  intros (Hm & Hn & Hz) Hk. unfold coder_encode, coder_decode.
  destruct (enc_mem (co_mem c) (Z.to_nat (co_m c)) k) as [mem r] eqn:E.
  pose proof (enc_mem_length (co_mem c) (Z.to_nat (co_m c)) k) as Hl. rewrite E in Hl. cbn [fst] in Hl.
  pose proof (enc_mem_result_range (co_mem c) (Z.to_nat (co_m c)) k Hk) as Hr. rewrite E in Hr. cbn [snd] in Hr.
  destruct (co_m c <? co_n c) eqn:C.
  - apply Z.ltb_lt in C. split; [|split; [|exact Hr]].
    + replace (Z.to_nat (co_m c + 1)) with (S (Z.to_nat (co_m c))) by lia.
      rewrite (dec_enc_mem_extend (co_mem c) (Z.to_nat (co_m c)) k mem r Hk ltac:(lia) (Hz _ (le_n _)) E).
      unfold updZ. replace (co_m c <? 0) with false by (symmetry; apply Z.ltb_ge; lia). reflexivity.
    + unfold coder_wf. cbn [co_m co_n co_mem]. unfold updZ.
      replace (co_m c <? 0) with false by (symmetry; apply Z.ltb_ge; lia).
      rewrite upd_nat_length, Hl. repeat split; try lia.
      intros i Hi. rewrite nth_upd_nat_other by lia.
      pose proof (enc_mem_nth_high (co_mem c) (Z.to_nat (co_m c)) k i ltac:(lia)) as Hh. rewrite E in Hh. cbn [fst] in Hh.
      rewrite Hh. apply Hz. lia.
  - apply Z.ltb_ge in C. split; [|split; [|exact Hr]].
    + now rewrite (dec_enc_mem (co_mem c) (Z.to_nat (co_m c)) k mem r Hk E).
    + unfold coder_wf. cbn [co_m co_n co_mem]. rewrite Hl. repeat split; try lia.
      intros i Hi.
      pose proof (enc_mem_nth_high (co_mem c) (Z.to_nat (co_m c)) k i ltac:(lia)) as Hh. rewrite E in Hh. cbn [fst] in Hh.
      rewrite Hh. apply Hz. lia.
Qed.

Lemma coder_new_wf n : 0 <= n <= 10 -> coder_wf (coder_new n).
Proof.
  intros H. unfold coder_wf, coder_new. cbn [co_m co_n co_mem]. rewrite repeat_length. repeat split; try lia.
  intros i _. destruct (Nat.lt_ge_cases i 10).
  - apply nth_repeat.
  - apply nth_overflow. rewrite repeat_length. lia.
Qed.

(** n-th derivative coding is lossless on every int32 sequence, for every order 0..10 *)
Theorem nth_derivative_roundtrip_wf c ks : coder_wf c -> Forall i32 ks ->
  coder_decode_seq c (coder_encode_seq c ks) = ks.
Proof.
  revert c. induction ks as [|k t IH]; intros c Hc Hks; cbn [coder_encode_seq coder_decode_seq]; auto.
  inversion Hks as [|? ? Hk Ht]; subst.
  pose proof (coder_step c k Hc Hk) as S. destruct (coder_encode c k) as [c' r]. destruct S as (D & W & _).
  cbn [coder_decode_seq]. rewrite D. now rewrite IH.
Qed.
Theorem nth_derivative_roundtrip n ks : 0 <= n <= 10 -> Forall i32 ks ->
  coder_decode_seq (coder_new n) (coder_encode_seq (coder_new n) ks) = ks.
Proof. intros Hn. apply nth_derivative_roundtrip_wf. now apply coder_new_wf. Qed.

Example nth_derivative_example :
  coder_encode_seq (coder_new 2) [5; 9; 6; 1; -2147483648; 2147483647] = [5; 4; -7; -2; -2147483644; -2147483648]
  /\ coder_decode_seq (coder_new 2) [5; 4; -7; -2; -2147483644; -2147483648] = [5; 9; 6; 1; -2147483648; 2147483647].
Proof. split; vm_compute; reflexivity. Qed.
