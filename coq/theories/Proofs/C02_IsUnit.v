(** C02. The library's unit-length test implies the guard of the theorems:
      r3_Vector_IsUnit v = true  ->  finite coordinates and | |v|^2 - 1 | <= 2^-44 exactly
    ([isunit_unit_pt], closed). Finiteness of the coordinates is DERIVED (a NaN or an infinity
    anywhere makes the test false), as is the absence of overflow. *)
From Coq Require Import ZArith Reals Floats Lra Lia Bool Psatz.
From Flocq Require Import Core.Core IEEE754.BinarySingleNaN IEEE754.PrimFloat.
From Geo Require Import Base.GoPrim Base.F64 Base.Exact Gen.R3 Gen.S2Pred Model.Pred
  Proofs.C02_Exact Proofs.C02_Float Proofs.C02_RelErr Proofs.C02_TriageDet.
Local Open Scope R_scope.

(** * A finite result has finite operands and obeys the standard model (no overflow happened) *)
Lemma overflow_not_finite (b : bfloat) s :
  B2SF b = binary_overflow prec emax mode_NE s -> is_finite b = false.
Proof. destruct b; simpl; try reflexivity; intros H; discriminate. Qed.

Lemma fmul_fin_inv x y : ffinite (x * y)%float = true ->
  ffinite x = true /\ ffinite y = true /\
  exists d h, Rabs d <= u /\ Rabs h <= eta /\ FR (x * y)%float = FR x * FR y * (1 + d) + h.
Proof.
  rewrite !ffinite_equiv. unfold FR. rewrite mul_equiv. intros F.
  pose proof (Bmult_correct prec emax ltac:(reflexivity) ltac:(reflexivity) mode_NE (Prim2B x) (Prim2B y)) as H.
  destruct (Rlt_bool _ _).
  - destruct H as (E & Fi & _).
    assert (Fxy : (is_finite (Prim2B x) && is_finite (Prim2B y))%bool = true).
    { rewrite <- F. symmetry. exact Fi. }
    apply andb_true_iff in Fxy. destruct Fxy as [Fx Fy]. split; [exact Fx|]. split; [exact Fy|].
    destruct (round_err (B2R (Prim2B x) * B2R (Prim2B y))) as (d & h & Hd & Hh & Er).
    exists d, h. repeat split; auto. etransitivity; [exact E|exact Er].
  - apply overflow_not_finite in H. exfalso. apply diff_false_true. rewrite <- H. exact F.
Qed.

Lemma Bplus_fin_inv Hp Hm (bx by_ : bfloat) : is_finite (@Bplus prec emax Hp Hm mode_NE bx by_) = true ->
  is_finite bx = true /\ is_finite by_ = true.
Proof.
  destruct bx as [sx|sx| |sx mx ex Hx]; destruct by_ as [sy|sy| |sy my ey Hy]; simpl; auto;
  try discriminate; try (destruct (Bool.eqb sx sy); simpl; discriminate).
Qed.

Lemma Bminus_fin_inv Hp Hm (bx by_ : bfloat) : is_finite (@Bminus prec emax Hp Hm mode_NE bx by_) = true ->
  is_finite bx = true /\ is_finite by_ = true.
Proof.
  destruct bx as [sx|sx| |sx mx ex Hx]; destruct by_ as [sy|sy| |sy my ey Hy]; simpl; auto;
  try discriminate; try (destruct (Bool.eqb sx (negb sy)); simpl; discriminate).
Qed.

Lemma fadd_fin_inv x y : ffinite (x + y)%float = true ->
  ffinite x = true /\ ffinite y = true /\
  exists d h, Rabs d <= u /\ Rabs h <= eta /\ FR (x + y)%float = (FR x + FR y) * (1 + d) + h.
Proof.
  rewrite !ffinite_equiv. unfold FR. rewrite add_equiv. intros F.
  destruct (Bplus_fin_inv _ _ _ _ F) as [Fx Fy]. split; [exact Fx|]. split; [exact Fy|].
  pose proof (Bplus_correct prec emax ltac:(reflexivity) ltac:(reflexivity) mode_NE (Prim2B x) (Prim2B y) Fx Fy) as H.
  destruct (Rlt_bool _ _).
  - destruct H as (E & _).
    destruct (round_err (B2R (Prim2B x) + B2R (Prim2B y))) as (d & h & Hd & Hh & Er).
    exists d, h. repeat split; auto. etransitivity; [exact E|exact Er].
  - destruct H as [H _]. apply overflow_not_finite in H. exfalso. apply diff_false_true. rewrite <- H. exact F.
Qed.

Lemma fsub_fin_inv x y : ffinite (x - y)%float = true ->
  ffinite x = true /\ ffinite y = true /\
  exists d h, Rabs d <= u /\ Rabs h <= eta /\ FR (x - y)%float = (FR x - FR y) * (1 + d) + h.
Proof.
  rewrite !ffinite_equiv. unfold FR. rewrite sub_equiv. intros F.
  assert (Fxy : is_finite (Prim2B x) = true /\ is_finite (Prim2B y) = true).
  { exact (Bminus_fin_inv _ _ _ _ F). }
  destruct Fxy as [Fx Fy]. split; [exact Fx|]. split; [exact Fy|].
  pose proof (Bminus_correct prec emax ltac:(reflexivity) ltac:(reflexivity) mode_NE (Prim2B x) (Prim2B y) Fx Fy) as H.
  destruct (Rlt_bool _ _).
  - destruct H as (E & _).
    destruct (round_err (B2R (Prim2B x) - B2R (Prim2B y))) as (d & h & Hd & Hh & Er).
    exists d, h. repeat split; auto. etransitivity; [exact E|exact Er].
  - destruct H as [H _]. apply overflow_not_finite in H. exfalso. apply diff_false_true. rewrite <- H. exact F.
Qed.

Lemma bounded_rank_finite t : nonnan t -> Rabs (rank t) < top -> ffinite t = true.
Proof.
  unfold nonnan, rank. rewrite go_isnan_equiv, ffinite_equiv. pose proof top_pos.
  destruct (Prim2B t) as [s|s| |s m e He]; simpl; auto; try discriminate.
  destruct s; simpl; [rewrite Rabs_Ropp|]; rewrite Rabs_pos_eq; lra.
Qed.

(** * Error of a float sum of three products, real-number core (as in the dot product) *)
Lemma sum3_real_eta A B C d1 d2 d3 d4 d5 h1 h2 h3 h4 h5 :
  Rabs d1 <= u -> Rabs d2 <= u -> Rabs d3 <= u -> Rabs d4 <= u -> Rabs d5 <= u ->
  Rabs h1 <= eta -> Rabs h2 <= eta -> Rabs h3 <= eta -> Rabs h4 <= eta -> Rabs h5 <= eta ->
  Rabs (((A * (1 + d1) + h1 + (B * (1 + d2) + h2)) * (1 + d4) + h4 + (C * (1 + d3) + h3)) * (1 + d5) + h5
        - (A + B + C))
  <= (Rabs A + Rabs B + Rabs C) * ((1 + u) * (1 + u) * (1 + u) - 1) + 9 * eta.
Proof.
  intros D1 D2 D3 D4 D5 H1 H2 H3 H4 H5.
  pose proof u_half as Hu. pose proof u_small as Hus. destruct eta_bounds as [Et0 Et1]. fold eta in *.
  set (g := (1 + u) * (1 + u) * (1 + u) - 1).
  assert (Z0 : Rabs 0 <= u) by (rewrite Rabs_R0; lra).
  pose proof (g3_bound u d1 d4 d5 Hu D1 D4 D5) as G1. fold g in G1.
  pose proof (g3_bound u d2 d4 d5 Hu D2 D4 D5) as G2. fold g in G2.
  pose proof (g3_bound u d3 d5 0 Hu D3 D5 Z0) as G3. fold g in G3.
  set (R_ := (h1 + h2) * (1 + d4) * (1 + d5) + (h4 + h3) * (1 + d5) + h5).
  replace (((A * (1 + d1) + h1 + (B * (1 + d2) + h2)) * (1 + d4) + h4 + (C * (1 + d3) + h3)) * (1 + d5) + h5 - (A + B + C))
    with (A * ((1 + d1) * (1 + d4) * (1 + d5) - 1) + B * ((1 + d2) * (1 + d4) * (1 + d5) - 1)
          + C * ((1 + d3) * (1 + d5) * (1 + 0) - 1) + R_) by (unfold R_; ring).
  assert (HR : Rabs R_ <= 9 * eta).
  { unfold R_. apply Rabs_le_inv in D4, D5, H1, H2, H3, H4, H5.
    assert (HA : 0 <= (1 + d4) * (1 + d5) <= 2) by nra.
    assert (HB : 0 <= 1 + d5 <= 2) by lra.
    remember ((1 + d4) * (1 + d5)) as A_. remember (1 + d5) as B_.
    assert (T1 : - (4 * eta) <= (h1 + h2) * A_ <= 4 * eta).
    { assert (- (2 * eta) <= h1 + h2 <= 2 * eta) by lra. remember (h1 + h2) as s_. nra. }
    assert (T2 : - (4 * eta) <= (h4 + h3) * B_ <= 4 * eta).
    { assert (- (2 * eta) <= h4 + h3 <= 2 * eta) by lra. remember (h4 + h3) as s_. nra. }
    apply Rabs_le. rewrite Rmult_assoc, <- HeqA_. lra. }
  eapply Rle_trans; [apply Rabs_triang|]. apply Rplus_le_compat; [|exact HR].
  replace ((Rabs A + Rabs B + Rabs C) * g) with (Rabs A * g + Rabs B * g + Rabs C * g) by ring.
  eapply Rle_trans; [apply Rabs_triang|]. apply Rplus_le_compat.
  - eapply Rle_trans; [apply Rabs_triang|]. apply Rplus_le_compat.
    + rewrite Rabs_mult. apply Rmult_le_compat_l; [apply Rabs_pos|exact G1].
    + rewrite Rabs_mult. apply Rmult_le_compat_l; [apply Rabs_pos|exact G2].
  - rewrite Rabs_mult. apply Rmult_le_compat_l; [apply Rabs_pos|exact G3].
Qed.

Lemma sum3_real A B C d1 d2 d3 d4 d5 h1 h2 h3 h4 h5 :
  Rabs d1 <= u -> Rabs d2 <= u -> Rabs d3 <= u -> Rabs d4 <= u -> Rabs d5 <= u ->
  Rabs h1 <= eta -> Rabs h2 <= eta -> Rabs h3 <= eta -> Rabs h4 <= eta -> Rabs h5 <= eta ->
  Rabs (((A * (1 + d1) + h1 + (B * (1 + d2) + h2)) * (1 + d4) + h4 + (C * (1 + d3) + h3)) * (1 + d5) + h5
        - (A + B + C))
  <= (Rabs A + Rabs B + Rabs C) * ((1 + u) * (1 + u) * (1 + u) - 1) + 9 * (u * u).
Proof.
  intros. destruct eta_bounds as [_ Et1].
  eapply Rle_trans; [apply sum3_real_eta; assumption|]. lra.
Qed.

(** * IsUnit *)
Definition isunit_with (C : PrimFloat.float) (v : r3_Vector) : bool :=
  PrimFloat.leb (PrimFloat.abs (PrimFloat.sub (r3_Vector_Norm2 v) 1)) C.
Definition isunit_shape : { C : PrimFloat.float | forall v, r3_Vector_IsUnit v = isunit_with C v }.
Proof. eexists. intros v. reflexivity. Defined.
Definition isUnitEps : PrimFloat.float := proj1_sig isunit_shape.
Lemma isunit_is v : r3_Vector_IsUnit v = isunit_with isUnitEps v.
Proof. exact (proj2_sig isunit_shape v). Qed.

(** the tolerance in the Go source is at most 1802 * 2^-55 = 5.002e-14 (closed side condition; it is 5e-14) *)
Definition K_ISUNIT : dyadic := Dy 1802 (-55).
Lemma isunit_const_ok : ffinite isUnitEps = true /\ FR isUnitEps <= D2R K_ISUNIT.
Proof.
  split; [vm_compute; reflexivity|]. rewrite of_float_correct. apply dle_by_compute. vm_compute. reflexivity.
Qed.

Theorem isunit_unit_pt p : r3_Vector_IsUnit (s2_Point_Vector p) = true -> unit_pt p.
Proof.
  destruct p as [[x y z]]. cbn [s2_Point_Vector]. rewrite isunit_is. unfold isunit_with.
  unfold r3_Vector_Norm2, r3_Vector_Dot. cbn [r3_Vector_X r3_Vector_Y r3_Vector_Z]. intros L.
  destruct isunit_const_ok as [FC LC]. destruct (ffinite_rank _ FC) as [NC RC].
  destruct (leb_true_nonnan _ _ L) as [Nt _].
  apply leb_true_iff in L; auto. rewrite rank_abs, RC in L.
  set (t := (x * x + y * y + z * z - 1)%float) in *.
  assert (Nt' : nonnan t).
  { unfold nonnan in *. rewrite go_isnan_equiv in *. rewrite abs_equiv in Nt. destruct (Prim2B t); auto. }
  assert (Ft : ffinite t = true).
  { apply bounded_rank_finite; auto. pose proof (finite_lt_top (Prim2B isUnitEps)) as HT.
    rewrite <- ffinite_equiv in HT. specialize (HT FC). fold (FR isUnitEps) in HT. lra. }
  destruct (ffinite_rank _ Ft) as [_ Rt]. rewrite Rt in L.
  unfold t in Ft, L.
  destruct (fsub_fin_inv _ _ Ft) as (Fn & _ & d6 & h6 & D6 & H6 & E6). rewrite E6 in L.
  destruct (fadd_fin_inv _ _ Fn) as (Fs & Fzz & d5 & h5 & D5 & H5 & E5).
  destruct (fadd_fin_inv _ _ Fs) as (Fxx & Fyy & d4 & h4 & D4 & H4 & E4).
  destruct (fmul_fin_inv _ _ Fxx) as (Fx & _ & d1 & h1 & D1 & H1 & E1).
  destruct (fmul_fin_inv _ _ Fyy) as (Fy & _ & d2 & h2 & D2 & H2 & E2).
  destruct (fmul_fin_inv _ _ Fzz) as (Fz & _ & d3 & h3 & D3 & H3 & E3).
  split.
  { unfold finite, finite_pt, finite_vec. cbn [s2_Point_Vector r3_Vector_X r3_Vector_Y r3_Vector_Z].
    rewrite Fx, Fy, Fz. reflexivity. }
  unfold norm2R, dotR, PX, PY, PZ. cbn [s2_Point_Vector r3_Vector_X r3_Vector_Y r3_Vector_Z].
  set (A := FR x * FR x) in *. set (B := FR y * FR y) in *. set (C := FR z * FR z) in *.
  assert (A0 : 0 <= A) by (unfold A; nra). assert (B0 : 0 <= B) by (unfold B; nra). assert (C0 : 0 <= C) by (unfold C; nra).
  pose proof (sum3_real A B C d1 d2 d3 d4 d5 h1 h2 h3 h4 h5 D1 D2 D3 D4 D5 H1 H2 H3 H4 H5) as S.
  rewrite <- E1, <- E2, <- E3, <- E4, <- E5 in S.
  rewrite (Rabs_pos_eq A A0), (Rabs_pos_eq B B0), (Rabs_pos_eq C C0) in S.
  set (nf := FR (x * x + y * y + z * z)%float) in *. set (n := A + B + C) in *.
  assert (FR1 : FR 1%float = 1) by exact FR_1. rewrite FR1 in L.
  (* numbers *)
  pose proof u_val as Uv. pose proof u_small as [U0 U1]. destruct eta_bounds as [Et0 Et1].
  assert (Hk : D2R K_ISUNIT = 1802 / 2 ^ 55) by (unfold D2R, K_ISUNIT; simpl; lra).
  rewrite Hk in LC.
  set (g := (1 + u) * (1 + u) * (1 + u) - 1) in *.
  assert (G : 0 <= g <= 4 * u) by (unfold g; nra).
  (* |nf - 1| from the test *)
  assert (N1 : Rabs (nf - 1) <= 1803 / 2 ^ 55).
  { apply Rabs_le_inv in D6, H6, L. apply Rabs_le.
    assert (Hu9 : u <= / 9000000000000000) by (rewrite Uv; lra).
    assert (He9 : eta <= / 9000000000000000 * / 9000000000000000) by nra.
    remember (nf - 1) as w. nra. }
  apply Rabs_le_inv in N1, S. apply Rabs_le.
  assert (n0 : 0 <= n) by (unfold n; lra).
  assert (Hu9 : u <= / 9000000000000000) by (rewrite Uv; lra).
  assert (ng : n * g <= n * (4 * u)) by (apply Rmult_le_compat_l; lra).
  assert (uu : u * u <= / 9000000000000000 * u) by (apply Rmult_le_compat_r; lra).
  (* crude: n <= 2, then sharp *)
  assert (n2 : n <= 2).
  { assert (n * (4 * u) <= n * / 1000) by (apply Rmult_le_compat_l; lra). lra. }
  assert (n * (4 * u) <= 2 * (4 * u)) by (apply Rmult_le_compat_r; lra).
  lra.
Qed.
